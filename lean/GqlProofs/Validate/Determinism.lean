import GqlModel.Validate.Rules
/-
  Lemmas for C10: sorting with a total order is canonical; `List.lookup` on an association list
  with unique keys does not depend on the order of the list.
-/
namespace Gql.Validate
open Gql

theorem bytesLe_iff (a b : Bytes) : bytesLe a b = true ↔ a ≤ b := by
  unfold bytesLe
  simp [List.not_lt]

theorem bytesLe_total (a b : Bytes) : (bytesLe a b || bytesLe b a) = true := by
  rcases List.le_total a b with h | h
  · simp [(bytesLe_iff a b).2 h]
  · simp [(bytesLe_iff b a).2 h]

theorem bytesLe_trans (a b c : Bytes) (h1 : bytesLe a b = true) (h2 : bytesLe b c = true) : bytesLe a c = true :=
  (bytesLe_iff a c).2 (List.le_trans ((bytesLe_iff a b).1 h1) ((bytesLe_iff b c).1 h2))

theorem bytesLe_antisymm (a b : Bytes) (h1 : bytesLe a b = true) (h2 : bytesLe b a = true) : a = b :=
  List.le_antisymm ((bytesLe_iff a b).1 h1) ((bytesLe_iff b a).1 h2)

theorem insertSorted_perm {α : Type} (le : α → α → Bool) (x : α) : ∀ l : List α, (insertSorted le x l).Perm (x :: l)
  | [] => List.Perm.refl _
  | y :: ys => by
    simp only [insertSorted]
    split
    · exact List.Perm.refl _
    · exact ((insertSorted_perm le x ys).cons y).trans (List.Perm.swap x y ys)

theorem stableSort_perm {α : Type} (le : α → α → Bool) : ∀ l : List α, (stableSort le l).Perm l
  | [] => List.Perm.refl _
  | x :: xs => by
    simp only [stableSort, List.foldr_cons]
    exact (insertSorted_perm le x _).trans ((stableSort_perm le xs).cons x)

theorem insertSorted_pairwise {α : Type} (le : α → α → Bool)
    (trans : ∀ a b c, le a b = true → le b c = true → le a c = true)
    (total : ∀ a b, (le a b || le b a) = true) (x : α) :
    ∀ l : List α, l.Pairwise (fun a b => le a b = true) → (insertSorted le x l).Pairwise (fun a b => le a b = true)
  | [], _ => by simp [insertSorted]
  | y :: ys, h => by
    simp only [insertSorted]
    have hy := List.pairwise_cons.1 h
    split
    · rename_i hxy
      refine List.pairwise_cons.2 ⟨?_, h⟩
      intro z hz
      rcases List.mem_cons.1 hz with rfl | hz
      · exact hxy
      · exact trans _ _ _ hxy (hy.1 z hz)
    · rename_i hxy
      have hyx : le y x = true := by
        have := total x y
        simp only [Bool.or_eq_true] at this
        rcases this with h1 | h1
        · exact absurd h1 hxy
        · exact h1
      refine List.pairwise_cons.2 ⟨?_, insertSorted_pairwise le trans total x ys hy.2⟩
      intro z hz
      rcases List.mem_cons.1 ((insertSorted_perm le x ys).mem_iff.1 hz) with rfl | hz
      · exact hyx
      · exact hy.1 z hz

theorem stableSort_pairwise {α : Type} (le : α → α → Bool)
    (trans : ∀ a b c, le a b = true → le b c = true → le a c = true)
    (total : ∀ a b, (le a b || le b a) = true) : ∀ l : List α, (stableSort le l).Pairwise (fun a b => le a b = true)
  | [] => by simp [stableSort]
  | x :: xs => by
    simp only [stableSort, List.foldr_cons]
    exact insertSorted_pairwise le trans total x _ (stableSort_pairwise le trans total xs)

/-- a sort by a total, transitive comparator that is antisymmetric on the elements is canonical -/
theorem stableSort_eq_of_perm {α : Type} (le : α → α → Bool)
    (trans : ∀ a b c, le a b = true → le b c = true → le a c = true)
    (total : ∀ a b, (le a b || le b a) = true) {l₁ l₂ : List α}
    (antisymm : ∀ a b, a ∈ l₁ → b ∈ l₁ → le a b = true → le b a = true → a = b)
    (h : l₁.Perm l₂) : stableSort le l₁ = stableSort le l₂ := by
  have p1 := stableSort_perm le l₁
  have p2 := stableSort_perm le l₂
  apply List.Perm.eq_of_pairwise (le := fun a b => le a b = true)
  · intro a b ha hb hab hba
    have ha' : a ∈ l₁ := p1.mem_iff.1 ha
    have hb' : b ∈ l₁ := h.mem_iff.2 (p2.mem_iff.1 hb)
    exact antisymm a b ha' hb' hab hba
  · exact stableSort_pairwise le trans total l₁
  · exact stableSort_pairwise le trans total l₂
  · exact p1.trans (h.trans p2.symm)

theorem sortNames_perm {l₁ l₂ : List Name} (h : l₁.Perm l₂) : sortNames l₁ = sortNames l₂ :=
  stableSort_eq_of_perm bytesLe bytesLe_trans bytesLe_total (fun a b _ _ => bytesLe_antisymm a b) h

/-- `lookup` in an association list with unique keys is independent of the order -/
theorem lookup_perm {β : Type} (k : Name) :
    ∀ {l₁ l₂ : List (Name × β)}, l₁.Perm l₂ → (l₁.map (·.1)).Nodup → l₁.lookup k = l₂.lookup k := by
  intro l₁ l₂ h
  induction h with
  | nil => intro _; rfl
  | cons x _ ih =>
    intro hnd
    obtain ⟨a, b⟩ := x
    simp only [List.map_cons, List.nodup_cons] at hnd
    simp only [List.lookup_cons]
    split
    · rfl
    · exact ih hnd.2
  | swap x y l =>
    intro hnd
    obtain ⟨a, b⟩ := x
    obtain ⟨c, e⟩ := y
    simp only [List.map_cons, List.nodup_cons, List.mem_cons, not_or] at hnd
    simp only [List.lookup_cons]
    by_cases h1 : k == c <;> by_cases h2 : k == a <;> simp [h1, h2]
    have e1 : k = c := by simpa using h1
    have e2 : k = a := by simpa using h2
    exact absurd (e1.symm.trans e2) hnd.1.1
  | trans h₁ _ ih₁ ih₂ =>
    intro hnd
    have hnd2 := (h₁.map (·.1)).nodup_iff.1 hnd
    exact (ih₁ hnd).trans (ih₂ hnd2)

/-- two loaded schemas that differ only in the order of the association lists that stand for Go
    maps (keys unique) -/
structure SameMaps (s s' : Schema) : Prop where
  query : s.query = s'.query
  mutation : s.mutation = s'.mutation
  subscription : s.subscription = s'.subscription
  types : s.types.Perm s'.types
  typeKeys : (s.types.map (·.1)).Nodup
  directives : s.directives.Perm s'.directives
  directiveKeys : (s.directives.map (·.1)).Nodup
  possibleTypes : s.possibleTypes.Perm s'.possibleTypes
  possibleKeys : (s.possibleTypes.map (·.1)).Nodup

end Gql.Validate
