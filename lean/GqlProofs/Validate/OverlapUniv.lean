import GqlProofs.Validate.OverlapPairs
import GqlProofs.Validate.RuleFuel
/-
  OverlappingFieldsCanBeMerged: the universe of field nodes one observer call can reach, and the
  SIZES the cost argument is stated in.

  `nodeSize f = 1 + countNodes f.sel` (field and spread nodes at and below the field `f`);
  the fields collected from a selection set together with the spreads collected from it account
  for exactly its nodes (`collect_size`): every node of the selection set is a spread collected
  from it (through inline fragments) or lies at/below exactly one collected field.
-/
namespace Gql.Validate
open Gql Gql.Validate.Rules

/- ---------- the universe of reachable field nodes ---------- -/

mutual
  /-- `(pos.start, sub-selection)` of every field node of a selection set, at any depth -/
  def allFields : Selections → List (Nat × Selections)
    | .nil => []
    | .cons x rest => allFieldsSel x ++ allFields rest
  def allFieldsSel : Selection → List (Nat × Selections)
    | .field _ _ _ _ sub p => (p.start, sub) :: allFields sub
    | .inline _ _ sub _ => allFields sub
    | .spread _ _ _ => []
end

mutual
  theorem length_allFields : ∀ sels : Selections, (allFields sels).length = countFields sels
    | .nil => rfl
    | .cons x rest => by
      simp only [allFields, countFields, List.length_append, length_allFieldsSel x, length_allFields rest]
  theorem length_allFieldsSel : ∀ x : Selection, (allFieldsSel x).length = countFieldsSel x
    | .field _ _ _ _ sub _ => by simp only [allFieldsSel, countFieldsSel, List.length_cons, length_allFields sub]
    | .inline _ _ sub _ => by simp only [allFieldsSel, countFieldsSel, length_allFields sub]
    | .spread _ _ _ => rfl
end

mutual
  /-- the field nodes below a field node of `sels` are field nodes of `sels` -/
  theorem allFields_sub : ∀ (sels : Selections) (k : Nat) (sub : Selections), (k, sub) ∈ allFields sels →
      ∀ x ∈ allFields sub, x ∈ allFields sels
    | .nil, _, _, h, _, _ => by simp [allFields] at h
    | .cons y rest, k, sub, h, x, hx => by
      simp only [allFields, List.mem_append] at h ⊢
      rcases h with h | h
      · exact Or.inl (allFieldsSel_sub y k sub h x hx)
      · exact Or.inr (allFields_sub rest k sub h x hx)
  theorem allFieldsSel_sub : ∀ (y : Selection) (k : Nat) (sub : Selections), (k, sub) ∈ allFieldsSel y →
      ∀ x ∈ allFields sub, x ∈ allFieldsSel y
    | .field _ _ _ _ sub0 p, k, sub, h, x, hx => by
      simp only [allFieldsSel, List.mem_cons] at h ⊢
      rcases h with h | h
      · injection h with _ h2
        subst h2
        exact Or.inr hx
      · exact Or.inr (allFields_sub sub0 k sub h x hx)
    | .inline _ _ sub0 _, k, sub, h, x, hx => by
      simp only [allFieldsSel] at h ⊢
      exact allFields_sub sub0 k sub h x hx
    | .spread _ _ _, _, _, h, _, _ => by simp [allFieldsSel] at h
end

mutual
  /-- collected fields are field nodes of the selection set they were collected from -/
  theorem collectFields_mem (s : SV) (l : Links) : ∀ (sels : Selections) (parent : Option Definition) (f : FInfo),
      f ∈ collectFields s l parent sels → (f.key, f.node.sel) ∈ allFields sels
    | .nil, _, _, h => by simp [collectFields] at h
    | .cons y rest, parent, f, h => by
      simp only [collectFields, allFields, List.mem_append] at h ⊢
      rcases h with h | h
      · exact Or.inl (collectFieldsSel_mem s l y parent f h)
      · exact Or.inr (collectFields_mem s l rest parent f h)
  theorem collectFieldsSel_mem (s : SV) (l : Links) : ∀ (y : Selection) (parent : Option Definition) (f : FInfo),
      f ∈ collectFieldsSel s l parent y → (f.key, f.node.sel) ∈ allFieldsSel y
    | .field _ _ _ _ sub p, parent, f, h => by
      simp only [collectFieldsSel, List.mem_singleton] at h
      subst h
      simp [allFieldsSel, FInfo.key]
    | .inline tc _ sub _, parent, f, h => by
      simp only [collectFieldsSel, allFieldsSel] at h ⊢
      exact collectFields_mem s l sub _ f h
    | .spread _ _ _, _, _, h => by simp [collectFieldsSel] at h
end

abbrev Univ := List (Nat × Selections)

/-- the field nodes one top-level call on `sels` can reach -/
def univOf (d : QueryDoc) (sels : Selections) : Univ :=
  allFields sels ++ d.frags.flatMap fun f => allFields f.sel

theorem length_fragFields (fs : List FragmentDef) :
    (fs.flatMap fun f => allFields f.sel).length = sumNat (fs.map fun f => countFields f.sel) := by
  induction fs with
  | nil => rfl
  | cons f rest ih =>
    simp only [List.flatMap_cons, List.length_append, List.map_cons, sumNat, List.foldr_cons, length_allFields] at ih ⊢
    rw [ih]

theorem length_univOf (d : QueryDoc) (sels : Selections) : (univOf d sels).length = reachableFieldCount d sels := by
  simp only [univOf, List.length_append, length_allFields, length_fragFields, reachableFieldCount, fragFieldCount]

/-- the universe contains the field nodes below each of its members -/
def UClosed (U : Univ) : Prop := ∀ k sub, (k, sub) ∈ U → ∀ x ∈ allFields sub, x ∈ U

/-- the universe contains the field nodes of every fragment definition -/
def UFrags (d : QueryDoc) (U : Univ) : Prop := ∀ f ∈ d.frags, ∀ x ∈ allFields f.sel, x ∈ U

theorem univOf_closed (d : QueryDoc) (sels : Selections) : UClosed (univOf d sels) := by
  intro k sub h x hx
  simp only [univOf, List.mem_append, List.mem_flatMap] at h ⊢
  rcases h with h | ⟨f, hf, h⟩
  · exact Or.inl (allFields_sub sels k sub h x hx)
  · exact Or.inr ⟨f, hf, allFields_sub f.sel k sub h x hx⟩

theorem univOf_frags (d : QueryDoc) (sels : Selections) : UFrags d (univOf d sels) := by
  intro f hf x hx
  simp only [univOf, List.mem_append, List.mem_flatMap]
  exact Or.inr ⟨f, hf, hx⟩

/-- a collected field whose node is in the universe -/
def Good (U : Univ) (f : FInfo) : Prop := (f.key, f.node.sel) ∈ U

def GoodMap (U : Univ) (A : FMap) : Prop := ∀ e ∈ A, ∀ f ∈ e.2, Good U f

theorem fmPush_all (Q : FInfo → Prop) (rn : Name) (f0 : FInfo) (h0 : Q f0) :
    ∀ m : FMap, (∀ e ∈ m, ∀ f ∈ e.2, Q f) → ∀ e ∈ fmPush rn f0 m, ∀ f ∈ e.2, Q f
  | [], _, e, he, f, hf => by
    simp only [fmPush, List.mem_singleton] at he
    subst he
    simp only [List.mem_singleton] at hf
    subst hf
    exact h0
  | (k, fs) :: rest, hm, e, he, f, hf => by
    simp only [fmPush] at he
    split at he
    · rcases List.mem_cons.1 he with he | he
      · subst he
        rcases List.mem_append.1 hf with hf | hf
        · exact hm (k, fs) (List.mem_cons_self ..) f hf
        · simp only [List.mem_singleton] at hf
          subst hf
          exact h0
      · exact hm e (List.mem_cons_of_mem _ he) f hf
    · rcases List.mem_cons.1 he with he | he
      · subst he
        exact hm (k, fs) (List.mem_cons_self ..) f hf
      · exact fmPush_all Q rn f0 h0 rest (fun e' he' => hm e' (List.mem_cons_of_mem _ he')) e he f hf

theorem fmOfList_all (Q : FInfo → Prop) (fs : List FInfo) (h : ∀ f ∈ fs, Q f) :
    ∀ e ∈ fmOfList fs, ∀ f ∈ e.2, Q f := by
  unfold fmOfList
  suffices hgen : ∀ (fs : List FInfo) (m : FMap), (∀ f ∈ fs, Q f) → (∀ e ∈ m, ∀ f ∈ e.2, Q f) →
      ∀ e ∈ fs.foldl (fun m f => fmPush (responseName f.node) f m) m, ∀ f ∈ e.2, Q f from
    hgen fs [] h (fun e he => by cases he)
  intro fs
  induction fs with
  | nil => intro m _ hm; exact hm
  | cons f0 rest ih =>
    intro m hfs hm
    simp only [List.foldl_cons]
    exact ih _ (fun f hf => hfs f (List.mem_cons_of_mem _ hf))
      (fmPush_all Q _ f0 (hfs f0 (List.mem_cons_self ..)) m hm)

theorem lookup_mem {α β : Type} [BEq α] [LawfulBEq α] (k : α) (v : β) :
    ∀ l : List (α × β), l.lookup k = some v → (k, v) ∈ l
  | [], h => by simp at h
  | (k', v') :: rest, h => by
    rw [List.lookup_cons] at h
    split at h
    · rename_i hk
      have hk' : k = k' := by simpa using hk
      injection h with h
      subst hk' h
      exact List.mem_cons_self ..
    · exact List.mem_cons_of_mem _ (lookup_mem k v rest h)

theorem goodMap_get {U : Univ} {B : FMap} (hB : GoodMap U B) {rn : Name} {fs : List FInfo}
    (h : fmGet B rn = some fs) : ∀ f ∈ fs, Good U f :=
  fun f hf => hB (rn, fs) (lookup_mem rn fs B h) f hf

/-- the fields collected from a selection set all of whose field nodes are in the universe -/
theorem goodMap_collect {U : Univ} (s : SV) (l : Links) (parent : Option Definition) (sels : Selections)
    (h : ∀ x ∈ allFields sels, x ∈ U) : GoodMap U (getFieldsAndFragmentNames s l parent sels).1.map := by
  unfold getFieldsAndFragmentNames
  exact fmOfList_all (Good U) _ fun f hf => h _ (collectFields_mem s l sels parent f hf)

theorem goodMap_sub {U : Univ} (hcl : UClosed U) (s : SV) (l : Links) (parent : Option Definition) {a : FInfo}
    (ha : Good U a) : GoodMap U (getFieldsAndFragmentNames s l parent a.node.sel).1.map :=
  goodMap_collect s l parent a.node.sel (hcl _ _ ha)

theorem goodMap_frag {U : Univ} (env : Env) (hfr : UFrags env.d U) {f : FragmentDef} (hf : f ∈ env.d.frags) :
    GoodMap U (env.fragFields f).1.map := by
  unfold Env.fragFields
  exact goodMap_collect _ _ _ f.sel (hfr f hf)

/- ---------- sizes ---------- -/

def nodeSize (f : FInfo) : Nat := countNodes f.node.sel + 1

def listSize (fs : List FInfo) : Nat := sumNat (fs.map nodeSize)

def mapSize (A : FMap) : Nat := sumNat (A.map fun e => listSize e.2)

theorem sumNat_cons (x : Nat) (l : List Nat) : sumNat (x :: l) = x + sumNat l := rfl

theorem sumNat_append (a b : List Nat) : sumNat (a ++ b) = sumNat a + sumNat b := by
  induction a with
  | nil => simp [sumNat]
  | cons x rest ih => simp only [List.cons_append, sumNat_cons, ih]; omega

theorem listSize_nil : listSize [] = 0 := rfl
theorem listSize_cons (f : FInfo) (fs : List FInfo) : listSize (f :: fs) = nodeSize f + listSize fs := rfl
theorem listSize_append (a b : List FInfo) : listSize (a ++ b) = listSize a + listSize b := by
  simp only [listSize, List.map_append, sumNat_append]
theorem mapSize_nil : mapSize [] = 0 := rfl
theorem mapSize_cons (e : Name × List FInfo) (A : FMap) : mapSize (e :: A) = listSize e.2 + mapSize A := rfl

theorem nodeSize_pos (f : FInfo) : 1 ≤ nodeSize f := by unfold nodeSize; omega

theorem listSize_mem {f : FInfo} : ∀ {fs : List FInfo}, f ∈ fs → nodeSize f ≤ listSize fs
  | g :: rest, h => by
    rw [listSize_cons]
    rcases List.mem_cons.1 h with rfl | h
    · omega
    · have := listSize_mem h; omega

theorem mapSize_mem {e : Name × List FInfo} : ∀ {A : FMap}, e ∈ A → listSize e.2 ≤ mapSize A
  | g :: rest, h => by
    rw [mapSize_cons]
    rcases List.mem_cons.1 h with rfl | h
    · omega
    · have := mapSize_mem h; omega

theorem mapSize_get {B : FMap} {rn : Name} {fs : List FInfo} (h : fmGet B rn = some fs) : listSize fs ≤ mapSize B :=
  mapSize_mem (e := (rn, fs)) (lookup_mem rn fs B h)

theorem mapSize_fmPush (rn : Name) (f : FInfo) : ∀ m : FMap, mapSize (fmPush rn f m) = mapSize m + nodeSize f
  | [] => by simp [fmPush, mapSize, listSize, sumNat]
  | (k, fs) :: rest => by
    simp only [fmPush]
    split
    · simp only [mapSize_cons, listSize_append, listSize_cons, listSize_nil]; omega
    · simp only [mapSize_cons, mapSize_fmPush rn f rest]; omega

theorem mapSize_fmOfList (fs : List FInfo) : mapSize (fmOfList fs) = listSize fs := by
  unfold fmOfList
  suffices h : ∀ (fs : List FInfo) (m : FMap),
      mapSize (fs.foldl (fun m f => fmPush (responseName f.node) f m) m) = mapSize m + listSize fs by
    have := h fs []
    simpa [mapSize_nil] using this
  intro fs
  induction fs with
  | nil => intro m; simp [listSize_nil]
  | cons f rest ih =>
    intro m
    simp only [List.foldl_cons, ih, mapSize_fmPush, listSize_cons]
    omega

mutual
  /-- fields and spreads collected from a selection set account for all of its nodes -/
  theorem collect_size (s : SV) (l : Links) : ∀ (sels : Selections) (parent : Option Definition),
      listSize (collectFields s l parent sels) + (collectSpreads sels).length = countNodes sels
    | .nil, _ => rfl
    | .cons x rest, parent => by
      simp only [collectFields, collectSpreads, countNodes, listSize_append, List.length_append]
      have h1 := collectSel_size s l x parent
      have h2 := collect_size s l rest parent
      omega
  theorem collectSel_size (s : SV) (l : Links) : ∀ (x : Selection) (parent : Option Definition),
      listSize (collectFieldsSel s l parent x) + (collectSpreadsSel x).length = countNodesSel x
    | .field _ _ _ _ sub _, _ => by
      simp [collectFieldsSel, collectSpreadsSel, countNodesSel, listSize_cons, listSize_nil, nodeSize]
    | .inline tc _ sub _, parent => by
      simp only [collectFieldsSel, collectSpreadsSel, countNodesSel]
      exact collect_size s l sub _
    | .spread _ _ _, _ => by
      simp [collectFieldsSel, collectSpreadsSel, countNodesSel, listSize_nil]
end

/-- `mapSize` of the collected fields + number of collected spreads = nodes of the selection set -/
theorem getFields_size (s : SV) (l : Links) (parent : Option Definition) (sels : Selections) :
    mapSize (getFieldsAndFragmentNames s l parent sels).1.map + (getFieldsAndFragmentNames s l parent sels).2.length
      = countNodes sels := by
  simp only [getFieldsAndFragmentNames, mapSize_fmOfList]
  exact collect_size s l sels parent

mutual
  /-- a field node of `sels` with its whole subtree is inside `sels` -/
  theorem allFields_nodes : ∀ (sels : Selections) (k : Nat) (sub : Selections), (k, sub) ∈ allFields sels →
      countNodes sub + 1 ≤ countNodes sels
    | .nil, _, _, h => by simp [allFields] at h
    | .cons y rest, k, sub, h => by
      simp only [allFields, List.mem_append] at h
      simp only [countNodes]
      rcases h with h | h
      · have := allFieldsSel_nodes y k sub h; omega
      · have := allFields_nodes rest k sub h; omega
  theorem allFieldsSel_nodes : ∀ (y : Selection) (k : Nat) (sub : Selections), (k, sub) ∈ allFieldsSel y →
      countNodes sub + 1 ≤ countNodesSel y
    | .field _ _ _ _ sub0 p, k, sub, h => by
      simp only [allFieldsSel, List.mem_cons] at h
      simp only [countNodesSel]
      rcases h with h | h
      · injection h with _ h2
        subst h2
        omega
      · have := allFields_nodes sub0 k sub h; omega
    | .inline _ _ sub0 _, k, sub, h => by
      simp only [allFieldsSel] at h
      simp only [countNodesSel]
      exact allFields_nodes sub0 k sub h
    | .spread _ _ _, _, _, h => by simp [allFieldsSel] at h
end

theorem sumNat_mem {x : Nat} : ∀ {l : List Nat}, x ∈ l → x ≤ sumNat l
  | y :: rest, h => by
    rw [sumNat_cons]
    rcases List.mem_cons.1 h with rfl | h
    · omega
    · have := sumNat_mem h; omega

theorem frag_nodes_le (d : QueryDoc) {f : FragmentDef} (hf : f ∈ d.frags) : countNodes f.sel ≤ fragNodeCount d :=
  sumNat_mem (List.mem_map.2 ⟨f, hf, rfl⟩)

/-- every member of `univOf d sels` (with its subtree) fits into `reachableNodeCount d sels` -/
theorem univOf_nodes (d : QueryDoc) (sels : Selections) {k : Nat} {sub : Selections} (h : (k, sub) ∈ univOf d sels) :
    countNodes sub + 1 ≤ reachableNodeCount d sels := by
  simp only [univOf, List.mem_append, List.mem_flatMap] at h
  unfold reachableNodeCount
  rcases h with h | ⟨f, hf, h⟩
  · have := allFields_nodes sels k sub h; omega
  · have h1 := allFields_nodes f.sel k sub h
    have h2 := frag_nodes_le d hf
    omega

end Gql.Validate
