import GqlProofs.Validate.OverlapHolds
/-
  OverlappingFieldsCanBeMerged: the COMPLETENESS half, generic part.  A run that reports nothing
  refutes the memo-free judgments — for the loops over `findConflict` whatever the memo discipline
  (`Frame`: an invariant of the manager state and a relation between states that silent steps
  preserve), for the memoised comparisons given as hypotheses.
-/
namespace Gql.Validate
open Gql Gql.Validate.Rules

/-- a frame that does not look at the step counter -/
structure TFrame extends Frame where
  tick : ∀ st, I st → I st.tick ∧ T st st.tick

/-- a silent `fc` on a pair satisfying `P` refutes the conflict judgment -/
def FCSilent (F : TFrame) (env : Env) (fc : FC) (P : FInfo → FInfo → Prop) : Prop :=
  ∀ excl a b st st', P a b → F.I st → fc excl a b st = some (st', none) →
    F.I st' ∧ F.T st st' ∧ ¬ Holds env (.conf excl a b)

theorem fcStep_silent {F : TFrame} {env : Env} {fc : FC} {P : FInfo → FInfo → Prop} (hfc : FCSilent F env fc P)
    {excl : Bool} {fa fb : FInfo} (hP : P fa fb) {st : OSt} {r : OSt × List Conflict} (hI : F.I st)
    (h : fcStep fc excl fa fb st = some r) (he : r.2 = []) :
    F.I r.1 ∧ F.T st r.1 ∧ ¬ Holds env (.conf excl fa fb) := by
  unfold fcStep at h
  split at h
  · cases h
  · rename_i st1 c h1
    injection h with h
    subst h
    cases c with
    | none => exact hfc _ _ _ _ _ hP hI h1
    | some c => simp [optToList] at he

theorem bucket_nil_of_get_none {L : List FInfo} {k : Name} (h : fmGet (fmOfList L) k = none) : bucket L k = [] := by
  rw [fmGet_fmOfList] at h
  unfold bucketOpt at h
  split at h
  · assumption
  · cases h

theorem between_silent {F : TFrame} {env : Env} {fc : FC} {P : FInfo → FInfo → Prop} (hfc : FCSilent F env fc P)
    (excl : Bool) (LA LB : List FInfo) (hP : ∀ a ∈ LA, ∀ b ∈ LB, P a b) (st : OSt) (r : OSt × List Conflict)
    (hI : F.I st) (h : collectConflictsBetween fc excl (fmOfList LB) (fmOfList LA) st = some r) (he : r.2 = []) :
    F.I r.1 ∧ F.T st r.1 ∧ ∀ a ∈ LA, ∀ b ∈ LB, rnOf a = rnOf b → ¬ Holds env (.conf excl a b) := by
  rw [between_eq] at h
  have key := stLoop_silent F.toFrame (betweenStep fc excl (fmOfList LB))
    (fun e => ∀ a ∈ e.2, ∀ b ∈ bucket LB e.1, ¬ Holds env (.conf excl a b)) (fmOfList LA)
    (fun e hent st1 r1 hI1 h1 he1 => by
      unfold betweenStep at h1
      split at h1
      · rename_i hB
        injection h1 with h1
        subst h1
        refine ⟨hI1, F.refl _, fun a _ b hb => ?_⟩
        rw [bucket_nil_of_get_none hB] at hb
        cases hb
      · rename_i fsB hB
        have hfs := fmGet_mem hB
        subst hfs
        exact stLoop_silent F.toFrame _ (fun fa => ∀ b ∈ bucket LB e.1, ¬ Holds env (.conf excl fa b)) e.2
          (fun fa hfa st2 r2 hI2 h2 he2 =>
            stLoop_silent F.toFrame _ (fun fb => ¬ Holds env (.conf excl fa fb)) (bucket LB e.1)
              (fun fb hfb st3 r3 hI3 h3 he3 =>
                fcStep_silent hfc (hP fa (entry_mem e hent fa hfa).1 fb (mem_bucket.1 hfb).1) hI3 h3 he3)
              st2 r2 hI2 h2 he2)
          st1 r1 hI1 h1 he1)
    st r hI h he
  refine ⟨key.1, key.2.1, fun a ha b hb hrn => ?_⟩
  exact key.2.2 _ (entry_of_mem ha) a (mem_bucket.2 ⟨ha, rfl⟩) b (mem_bucket.2 ⟨hb, hrn.symm⟩)

theorem pairTriangle_silent {F : TFrame} {env : Env} {fc : FC} {P : FInfo → FInfo → Prop} (hfc : FCSilent F env fc P) :
    ∀ (fs : List FInfo), (∀ a ∈ fs, ∀ b ∈ fs, P a b) → ∀ (st : OSt) (r : OSt × List Conflict), F.I st →
      pairTriangle fc fs st = some r → r.2 = [] →
      F.I r.1 ∧ F.T st r.1 ∧ fs.Pairwise fun a b => ¬ Holds env (.conf false a b)
  | [], _, st, r, hI, h, _ => by
    simp only [pairTriangle] at h
    injection h with h
    subst h
    exact ⟨hI, F.refl _, List.Pairwise.nil⟩
  | fa :: rest, hP, st, r, hI, h, he => by
    simp only [pairTriangle, pairRow_eq] at h
    cases h1 : stLoop (fcStep fc false fa) rest st with
    | none => rw [h1] at h; cases h
    | some r1 =>
      obtain ⟨st1, c1⟩ := r1
      rw [h1] at h
      simp only at h
      cases h2 : pairTriangle fc rest st1 with
      | none => rw [h2] at h; cases h
      | some r2 =>
        obtain ⟨st2, c2⟩ := r2
        rw [h2] at h
        simp only at h
        injection h with h
        subst h
        simp only [List.append_eq_nil_iff] at he
        obtain ⟨a1, a2, a3⟩ := stLoop_silent F.toFrame _ (fun fb => ¬ Holds env (.conf false fa fb)) rest
          (fun fb hfb st3 r3 hI3 h3 he3 =>
            fcStep_silent hfc (hP fa (List.mem_cons_self ..) fb (List.mem_cons_of_mem _ hfb)) hI3 h3 he3)
          st _ hI h1 he.1
        obtain ⟨b1, b2, b3⟩ := pairTriangle_silent hfc rest
          (fun a ha b hb => hP a (List.mem_cons_of_mem _ ha) b (List.mem_cons_of_mem _ hb)) st1 _ a1 h2 he.2
        exact ⟨b1, F.trans a2 b2, List.Pairwise.cons a3 b3⟩

theorem within_silent_aux {F : TFrame} {env : Env} {fc : FC} {P : FInfo → FInfo → Prop} (hfc : FCSilent F env fc P) :
    ∀ (A : FMap), (∀ e ∈ A, ∀ a ∈ e.2, ∀ b ∈ e.2, P a b) → ∀ (st : OSt) (r : OSt × List Conflict), F.I st →
      collectConflictsWithin fc A st = some r → r.2 = [] →
      F.I r.1 ∧ F.T st r.1 ∧ ∀ e ∈ A, e.2.Pairwise fun a b => ¬ Holds env (.conf false a b)
  | [], _, st, r, hI, h, _ => by
    simp only [collectConflictsWithin] at h
    injection h with h
    subst h
    exact ⟨hI, F.refl _, fun _ he => by cases he⟩
  | (rn, fs) :: rest, hP, st, r, hI, h, he => by
    simp only [collectConflictsWithin] at h
    cases h1 : pairTriangle fc fs st with
    | none => rw [h1] at h; cases h
    | some r1 =>
      obtain ⟨st1, c1⟩ := r1
      rw [h1] at h
      simp only at h
      cases h2 : collectConflictsWithin fc rest st1 with
      | none => rw [h2] at h; cases h
      | some r2 =>
        obtain ⟨st2, c2⟩ := r2
        rw [h2] at h
        simp only at h
        injection h with h
        subst h
        simp only [List.append_eq_nil_iff] at he
        obtain ⟨a1, a2, a3⟩ := pairTriangle_silent hfc fs (hP (rn, fs) (List.mem_cons_self ..)) st _ hI h1 he.1
        obtain ⟨b1, b2, b3⟩ := within_silent_aux hfc rest (fun e he' => hP e (List.mem_cons_of_mem _ he')) st1 _ a1 h2 he.2
        refine ⟨b1, F.trans a2 b2, fun e hmem => ?_⟩
        rcases List.mem_cons.1 hmem with rfl | hmem
        · exact a3
        · exact b3 e hmem

theorem within_silent {F : TFrame} {env : Env} {fc : FC} {P : FInfo → FInfo → Prop} (hfc : FCSilent F env fc P)
    (L : List FInfo) (hP : ∀ a ∈ L, ∀ b ∈ L, P a b) (st : OSt) (r : OSt × List Conflict) (hI : F.I st)
    (h : collectConflictsWithin fc (fmOfList L) st = some r) (he : r.2 = []) :
    F.I r.1 ∧ F.T st r.1 ∧ L.Pairwise fun a b => rnOf a = rnOf b → ¬ Holds env (.conf false a b) := by
  obtain ⟨a1, a2, a3⟩ := within_silent_aux hfc (fmOfList L)
    (fun e hent a ha b hb => hP a (entry_mem e hent a ha).1 b (entry_mem e hent b hb).1) st r hI h he
  refine ⟨a1, a2, pairwise_of_buckets L fun k => ?_⟩
  cases hb : bucket L k with
  | nil => exact List.Pairwise.nil
  | cons x xs =>
    have hx : x ∈ L ∧ rnOf x = k := mem_bucket.1 (by rw [hb]; exact List.mem_cons_self ..)
    have := a3 _ (entry_of_mem hx.1)
    rw [hx.2, hb] at this
    exact this


/-- what a silent memoised comparison must guarantee -/
def StepSilent (F : TFrame) (step : OSt → Option (OSt × List Conflict)) (Q : Prop) : Prop :=
  ∀ st r, F.I st → step st = some r → r.2 = [] → F.I r.1 ∧ F.T st r.1 ∧ Q

theorem subSets_silent {F : TFrame} {env : Env} {fc : FC} {P : FInfo → FInfo → Prop} (hfc : FCSilent F env fc P)
    (excl : Bool) (a b : FInfo)
    (hPsub : ∀ a' ∈ subFields env a, ∀ b' ∈ subFields env b, P a' b')
    (hchainB : ∀ sp ∈ collectSpreads b.node.sel,
      StepSilent F (fieldsAndFragment env fc excl (getFieldsAndFragmentNames env.s env.l (a.next env.s) a.node.sel).1 sp)
        (¬ Holds env (.chain excl (a.next env.s) a.node.sel sp)))
    (hchainA : ∀ sp ∈ collectSpreads a.node.sel,
      StepSilent F (fieldsAndFragment env fc excl (getFieldsAndFragmentNames env.s env.l (b.next env.s) b.node.sel).1 sp)
        (¬ Holds env (.chain excl (b.next env.s) b.node.sel sp)))
    (hcheck : ∀ sa ∈ collectSpreads a.node.sel, ∀ sb ∈ collectSpreads b.node.sel,
      StepSilent F (collectConflictsBetweenFragments env fc excl sa sb) (¬ Holds env (.check excl sa sb))) :
    StepSilent F (findConflictsBetweenSubSelectionSets env fc excl a b) (¬ Holds env (.sub excl a b)) := by
  intro st r hI h he
  unfold findConflictsBetweenSubSelectionSets at h
  simp only at h
  split at h
  · cases h
  · rename_i st1 c1 h1
    split at h
    · cases h
    · rename_i st2 c2 h2
      split at h
      · cases h
      · rename_i st3 c3 h3
        split at h
        · cases h
        · rename_i st4 c4 h4
          injection h with h
          subst h
          simp only [List.append_eq_nil_iff] at he
          obtain ⟨⟨⟨e1, e2⟩, e3⟩, e4⟩ := he
          obtain ⟨a1, a2, a3⟩ := between_silent hfc excl (subFields env a) (subFields env b) hPsub st _ hI h1 e1
          obtain ⟨b1, b2, b3⟩ := stLoop_silent F.toFrame _
            (fun sp => ¬ Holds env (.chain excl (a.next env.s) a.node.sel sp)) _
            (fun sp hsp st' r' hI' h' he' => hchainB sp hsp st' r' hI' h' he') st1 _ a1 h2 e2
          obtain ⟨c1', c2', c3'⟩ := stLoop_silent F.toFrame _
            (fun sp => ¬ Holds env (.chain excl (b.next env.s) b.node.sel sp)) _
            (fun sp hsp st' r' hI' h' he' => hchainA sp hsp st' r' hI' h' he') st2 _ b1 h3 e3
          obtain ⟨d1, d2, d3⟩ := stLoop_silent F.toFrame _
            (fun sa => ∀ sb ∈ collectSpreads b.node.sel, ¬ Holds env (.check excl sa sb)) _
            (fun sa hsa st' r' hI' h' he' =>
              stLoop_silent F.toFrame _ (fun sb => ¬ Holds env (.check excl sa sb)) _
                (fun sb hsb st'' r'' hI'' h'' he'' => hcheck sa hsa sb hsb st'' r'' hI'' h'' he'') st' r' hI' h' he')
            st3 _ c1' h4 e4
          refine ⟨d1, F.trans a2 (F.trans b2 (F.trans c2' d2)), fun hh => ?_⟩
          cases hh with
          | subFields ha' hb' hrn hc => exact a3 _ ha' _ hb' hrn hc
          | subChainB hsp hc => exact b3 _ hsp hc
          | subChainA hsp hc => exact c3' _ hsp hc
          | subCheck hsa hsb hc => exact d3 _ hsa _ hsb hc

theorem findConflictBody_silent {F : TFrame} (env : Env)
    (sub : Bool → FInfo → FInfo → OSt → Option (OSt × List Conflict))
    (excl0 : Bool) (a b : FInfo) (st st' : OSt)
    (hsub : ∀ excl, StepSilent F (sub excl a b) (¬ Holds env (.sub excl a b)))
    (hI : F.I st) (h : findConflictBody env.s sub excl0 a b st = some (st', none)) :
    F.I st' ∧ F.T st st' ∧ ¬ Holds env (.conf excl0 a b) := by
  obtain ⟨hIt, hTt⟩ := F.tick st hI
  unfold findConflictBody at h
  simp only at h
  split at h
  · rename_i oa ob hoa hob
    rw [← goExcl_eq hoa hob] at h
    split at h
    · cases h
    · rename_i hc1
      split at h
      · cases h
      · rename_i hc2
        split at h
        · cases h
        · rename_i htc
          split at h
          · cases h
          · rename_i st1 hs
            injection h with h
            injection h with h _
            subst h
            obtain ⟨s1, s2, s3⟩ := hsub _ _ _ hIt hs rfl
            refine ⟨s1, F.trans hTt s2, fun hh => ?_⟩
            cases hh with
            | names _ _ h3 h4 =>
              apply hc1
              simp only [h3, Bool.not_false, Bool.true_and, bne_iff_ne, ne_eq]
              exact h4
            | args _ _ h3 h4 =>
              apply hc2
              simp [h3, h4]
            | types _ _ hda hdb hconf =>
              rw [hda, hdb] at htc
              simp only [hconf, if_true] at htc
              cases htc
            | sub _ _ hc => exact s3 hc
          · cases h
  · rename_i hno
    injection h with h
    injection h with h _
    subst h
    refine ⟨hIt, hTt, fun hh => ?_⟩
    cases hh with
    | names h1 h2 => exact hno _ _ h1 h2
    | args h1 h2 => exact hno _ _ h1 h2
    | types h1 h2 => exact hno _ _ h1 h2
    | sub h1 h2 => exact hno _ _ h1 h2

theorem withinLoop_silent {F : TFrame} {env : Env} {fc : FC} (parent : Option Definition) (sels : Selections) :
    ∀ (sps : List SpreadNode),
      (∀ sp ∈ sps, StepSilent F (fieldsAndFragment env fc false (getFieldsAndFragmentNames env.s env.l parent sels).1 sp)
        (¬ Holds env (.chain false parent sels sp))) →
      (∀ sa ∈ sps, ∀ sb ∈ sps, StepSilent F (collectConflictsBetweenFragments env fc false sa sb)
        (¬ Holds env (.check false sa sb))) →
      StepSilent F (withinLoop env fc (getFieldsAndFragmentNames env.s env.l parent sels).1 sps)
        ((∀ sp ∈ sps, ¬ Holds env (.chain false parent sels sp)) ∧
          sps.Pairwise fun sa sb => ¬ Holds env (.check false sa sb))
  | [], _, _, st, r, hI, h, _ => by
    simp only [withinLoop] at h
    injection h with h
    subst h
    exact ⟨hI, F.refl _, ⟨fun _ hx => (by cases hx), List.Pairwise.nil⟩⟩
  | sa :: rest, hchain, hcheck, st, r, hI, h, he => by
    simp only [withinLoop] at h
    split at h
    · cases h
    · rename_i st1 c1 h1
      split at h
      · cases h
      · rename_i st2 c2 h2
        split at h
        · cases h
        · rename_i st3 c3 h3
          injection h with h
          subst h
          simp only [List.append_eq_nil_iff] at he
          obtain ⟨⟨e1, e2⟩, e3⟩ := he
          obtain ⟨a1, a2, a3⟩ := hchain sa (List.mem_cons_self ..) st _ hI h1 e1
          obtain ⟨b1, b2, b3⟩ := stLoop_silent F.toFrame _ (fun sb => ¬ Holds env (.check false sa sb)) rest
            (fun sb hsb st' r' hI' h' he' =>
              hcheck sa (List.mem_cons_self ..) sb (List.mem_cons_of_mem _ hsb) st' r' hI' h' he') st1 _ a1 h2 e2
          obtain ⟨c1', c2', c3', c4'⟩ := withinLoop_silent parent sels rest
            (fun sp hsp => hchain sp (List.mem_cons_of_mem _ hsp))
            (fun x hx y hy => hcheck x (List.mem_cons_of_mem _ hx) y (List.mem_cons_of_mem _ hy)) st2 _ b1 h3 e3
          refine ⟨c1', F.trans a2 (F.trans b2 c2'), ⟨fun sp hsp => ?_, List.Pairwise.cons b3 c4'⟩⟩
          rcases List.mem_cons.1 hsp with rfl | hsp
          · exact a3
          · exact c3' sp hsp

theorem pairwise_sublist_pair {α : Type} {R : α → α → Prop} {l : List α} (h : l.Pairwise R) {a b : α}
    (hs : [a, b].Sublist l) : R a b := by
  have := h.sublist hs
  simp only [List.pairwise_cons, List.mem_singleton, forall_eq] at this
  exact this.1

/-- a silent top-level call refutes `TopHolds` -/
theorem top_silent {F : TFrame} {env : Env} {fc : FC} {P : FInfo → FInfo → Prop} (hfc : FCSilent F env fc P)
    (parent : Option Definition) (sels : Selections)
    (hP : ∀ a ∈ collectFields env.s env.l parent sels, ∀ b ∈ collectFields env.s env.l parent sels, P a b)
    (hchain : ∀ sp ∈ collectSpreads sels,
      StepSilent F (fieldsAndFragment env fc false (getFieldsAndFragmentNames env.s env.l parent sels).1 sp)
        (¬ Holds env (.chain false parent sels sp)))
    (hcheck : ∀ sa ∈ collectSpreads sels, ∀ sb ∈ collectSpreads sels,
      StepSilent F (collectConflictsBetweenFragments env fc false sa sb) (¬ Holds env (.check false sa sb)))
    (st0 : OSt) (r : OSt × List Conflict) (hI : F.I { st0 with seen := [] })
    (h : findConflictsWithinSelectionSet env fc parent sels st0 = some r) (he : r.2 = []) :
    ¬ TopHolds env parent sels ∧ (selsEmpty sels = false → F.I r.1 ∧ F.T { st0 with seen := [] } r.1) := by
  unfold findConflictsWithinSelectionSet at h
  split at h
  · rename_i hempty
    refine ⟨?_, fun hx => by rw [hempty] at hx; cases hx⟩
    cases sels with
    | cons _ _ => simp [selsEmpty] at hempty
    | nil =>
      rintro (⟨a, b, hs, _⟩ | ⟨sp, hsp, _⟩ | ⟨sa, sb, hs, _⟩)
      · simp [collectFields] at hs
      · simp [collectSpreads] at hsp
      · simp [collectSpreads] at hs
  · simp only at h
    split at h
    · cases h
    · rename_i st1 c1 h1
      split at h
      · cases h
      · rename_i st2 c2 h2
        injection h with h
        subst h
        simp only [List.append_eq_nil_iff] at he
        obtain ⟨a1, a2, a3⟩ := within_silent hfc _ hP _ _ hI h1 he.1
        obtain ⟨b1, b2, b3, b4⟩ := withinLoop_silent parent sels _ hchain hcheck st1 _ a1 h2 he.2
        refine ⟨?_, fun _ => ⟨b1, F.trans a2 b2⟩⟩
        rintro (⟨a, b, hs, hrn, hh⟩ | ⟨sp, hsp, hh⟩ | ⟨sa, sb, hs, hh⟩)
        · exact pairwise_sublist_pair a3 hs hrn hh
        · exact b3 sp hsp hh
        · exact pairwise_sublist_pair b4 hs hh

end Gql.Validate
