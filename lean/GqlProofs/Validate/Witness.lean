import GqlModel.Validate.Rules
/-
  Concrete schema and documents for the kernel-checked counterexamples of C02 (DESIGN §7 R2a, R2b).
  They are what the real parser / loader produce for the quoted texts, minus the prelude and the
  line/column values (positions only need distinct `start` offsets here).
-/
namespace Gql.Validate.Witness
open Gql Gql.Validate

def at' (n : Nat) : Pos := { start := n, stop := n + 1, line := 1, col := n + 1 }

def tNamed (n : String) (nn : Bool := false) : GType := .named (str n) nn Pos.zero

def scalar (n : String) : Definition :=
  { kind := .scalar, desc := [], name := str n, dirs := [], interfaces := [], fields := [], types := [],
    enumValues := [], pos := Pos.zero, builtIn := true }

/-- `input One @oneOf { a: String }` -/
def oneDef : Definition :=
  { kind := .inputObject, desc := [], name := str "One", dirs := [{ name := str "oneOf", args := [], pos := Pos.zero }],
    interfaces := [],
    fields := [{ desc := [], name := str "a", args := [], default := none, type := tNamed "String", dirs := [], pos := Pos.zero }],
    types := [], enumValues := [], pos := Pos.zero, builtIn := false }

/-- `type Query { f(one: One): Int }` -/
def queryDef : Definition :=
  { kind := .object, desc := [], name := str "Query", dirs := [], interfaces := [],
    fields := [{ desc := [], name := str "f",
                 args := [{ desc := [], name := str "one", default := none, type := tNamed "One", dirs := [], pos := Pos.zero }],
                 default := none, type := tNamed "Int", dirs := [], pos := Pos.zero }],
    types := [], enumValues := [], pos := Pos.zero, builtIn := false }

/-- `type Query { f(one: One): Int }  input One @oneOf { a: String }` -/
def schema : Schema :=
  { Schema.empty with
    query := some (str "Query"),
    types := [(str "Int", scalar "Int"), (str "One", oneDef), (str "Query", queryDef), (str "String", scalar "String")] }

/-- the argument list `(one: {a: $<var>})` with the object at offset `o` -/
def oneArg (var : String) (o : Nat) : List Argument :=
  [{ name := str "one", pos := at' (o - 5),
     value := .mk .object [] (.cons (str "a") (.mk .variable (str var) .nil (at' (o + 4))) (at' (o + 1)) .nil) (at' o) }]

/-- R2a: `{ f(one: {a: $undef}) }` -/
def docR2a : QueryDoc :=
  { ops := [{ op := str "query", name := [], vars := [], dirs := [],
              sel := .cons (.field (str "f") (str "f") (oneArg "undef" 9) [] .nil (at' 2)) .nil, pos := at' 0 }],
    frags := [] }

/-- R2b: `query($v:String!){f} fragment F on Query { f(one:{a:$v}) }` — the fragment is not used -/
def docR2b : QueryDoc :=
  { ops := [{ op := str "query", name := [],
              vars := [{ var := str "v", type := tNamed "String" true, default := none, dirs := [], pos := at' 6 }],
              dirs := [], sel := .cons (.field (str "f") (str "f") [] [] .nil (at' 18)) .nil, pos := at' 0 }],
    frags := [{ name := str "F", vars := [], typeCond := str "Query", dirs := [],
                sel := .cons (.field (str "f") (str "f") (oneArg "v" 49) [] .nil (at' 43)) .nil, pos := at' 21 }] }

/-- the same fragment, but spread by the operation: `query($v:String!){...F} fragment F on Query { f(one:{a:$v}) }` -/
def docUsed : QueryDoc :=
  { docR2b with
    ops := [{ op := str "query", name := [],
              vars := [{ var := str "v", type := tNamed "String" true, default := none, dirs := [], pos := at' 6 }],
              dirs := [], sel := .cons (.spread (str "F") [] (at' 18)) .nil, pos := at' 0 }] }

end Gql.Validate.Witness
