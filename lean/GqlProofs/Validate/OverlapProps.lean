import GqlProofs.Validate.OverlapFull
/-
  OverlappingFieldsCanBeMerged: properties of the memo-free judgments that the memos of the rule
  rely on — a comparison made for non-exclusive parents covers the one for exclusive parents
  (`holds_unflag`), the judgments about spreads only depend on the fragment NAMES (`holds_rename`),
  they are symmetric when `sameArguments` is (`holds_swap`) — and the rank of a fragment name
  (`rkN`: how many fragment definitions it reaches), which strictly decreases along spreads in a
  document without fragment cycles.
-/
namespace Gql.Validate
open Gql Gql.Validate.Rules

/- ---------- flags ---------- -/

def Jg.unflag : Jg → Jg
  | .conf _ a b => .conf false a b
  | .sub _ a b => .sub false a b
  | .chain _ p sels sp => .chain false p sels sp
  | .check _ a b => .check false a b

theorem holds_unflag {env : Env} {j : Jg} (h : Holds env j) : Holds env j.unflag := by
  induction h with
  | names hoa hob hex hne =>
    simp only [Bool.or_eq_false_iff] at hex
    exact .names hoa hob (by simp [hex.2]) hne
  | args hoa hob hex ha =>
    simp only [Bool.or_eq_false_iff] at hex
    exact .args hoa hob (by simp [hex.2]) ha
  | types hoa hob hda hdb hc => exact .types hoa hob hda hdb hc
  | @sub pe a b oa ob hoa hob hs ih =>
    refine .sub hoa hob ?_
    cases hg : goExcl a b with
    | false => simpa [Jg.unflag, hg] using ih
    | true => simpa [hg] using hs
  | subFields ha' hb' hrn _ ih => exact .subFields ha' hb' hrn ih
  | subChainB hsp _ ih => exact .subChainB hsp ih
  | subChainA hsp _ ih => exact .subChainA hsp ih
  | subCheck hsa hsb _ ih => exact .subCheck hsa hsb ih
  | chainHere hF hid ha hg hrn _ ih => exact .chainHere hF hid ha hg hrn ih
  | chainNext hF hid hsp hne _ ih => exact .chainNext hF hid hsp hne ih
  | checkHere hne hA hB hfa hfb hrn _ ih => exact .checkHere hne hA hB hfa hfb hrn ih
  | checkRight hne hA hB hx _ ih => exact .checkRight hne hA hB hx ih
  | checkLeft hne hA hB hx _ ih => exact .checkLeft hne hA hB hx ih

theorem holds_check_flag {env : Env} {ex ex' : Bool} {a b : SpreadNode} (h : Holds env (.check ex' a b))
    (hle : ex' = true ∨ ex = false) (hne : ex' = ex ∨ ex = false) : Holds env (.check ex a b) := by
  cases ex with
  | false => exact holds_unflag h
  | true =>
    rcases hle with h1 | h1
    · rw [h1] at h; exact h
    · cases h1

/- ---------- spread judgments depend on names only ---------- -/

/-- a spread node written in the document -/
def DSpread (d : QueryDoc) (sp : SpreadNode) : Prop := InDocSel d (.sel (.spread sp.name sp.dirs sp.pos))

theorem spreadDef_full {d : QueryDoc} {sp : SpreadNode} (h : DSpread d sp) :
    (fullLinks d).spreadDef d sp.name sp.pos = fragForName d sp.name :=
  spreadDef_linked (fullLinks_linked h)

section
variable {s : SV} {d : QueryDoc}

theorem holds_chain_rename {ex : Bool} {p : Option Definition} {sels : Selections} {sp sp' : SpreadNode}
    (h : Holds (envV s d (fullLinks d)) (.chain ex p sels sp)) (hsp : DSpread d sp) (hsp' : DSpread d sp')
    (hn : sp'.name = sp.name) : Holds (envV s d (fullLinks d)) (.chain ex p sels sp') := by
  have e : (envV s d (fullLinks d)).l.spreadDef (envV s d (fullLinks d)).d sp'.name sp'.pos =
      (envV s d (fullLinks d)).l.spreadDef (envV s d (fullLinks d)).d sp.name sp.pos := by
    show (fullLinks d).spreadDef d sp'.name sp'.pos = (fullLinks d).spreadDef d sp.name sp.pos
    rw [spreadDef_full hsp, spreadDef_full hsp', hn]
  cases h with
  | chainHere hF hid ha hg hrn hc => exact .chainHere (e ▸ hF) hid ha hg hrn hc
  | chainNext hF hid hx hne hc => exact .chainNext (e ▸ hF) hid hx (by rw [hn]; exact hne) hc

theorem holds_check_rename {ex : Bool} {a b : SpreadNode}
    (h : Holds (envV s d (fullLinks d)) (.check ex a b)) : ∀ {a' b' : SpreadNode}, DSpread d a → DSpread d b →
      DSpread d a' → DSpread d b' → a'.name = a.name → b'.name = b.name →
      Holds (envV s d (fullLinks d)) (.check ex a' b') := by
  generalize hj : Jg.check ex a b = j at h
  induction h generalizing a b with
  | names => cases hj
  | args => cases hj
  | types => cases hj
  | sub => cases hj
  | subFields => cases hj
  | subChainB => cases hj
  | subChainA => cases hj
  | subCheck => cases hj
  | chainHere => cases hj
  | chainNext => cases hj
  | @checkHere ex0 a0 b0 A B fa fb hne hA hB hfa hfb hrn hc _ =>
    injection hj with h1 h2 h3
    subst h1 h2 h3
    intro a' b' ha hb ha' hb' hna hnb
    have ea : (fullLinks d).spreadDef d a'.name a'.pos = (fullLinks d).spreadDef d a.name a.pos := by
      rw [spreadDef_full ha, spreadDef_full ha', hna]
    have eb : (fullLinks d).spreadDef d b'.name b'.pos = (fullLinks d).spreadDef d b.name b.pos := by
      rw [spreadDef_full hb, spreadDef_full hb', hnb]
    exact .checkHere (by rw [hna, hnb]; exact hne) (ea.trans hA) (eb.trans hB) hfa hfb hrn hc
  | @checkRight ex0 a0 b0 x A B hne hA hB hx hc ih =>
    injection hj with h1 h2 h3
    subst h1 h2 h3
    intro a' b' ha hb ha' hb' hna hnb
    have ea : (fullLinks d).spreadDef d a'.name a'.pos = (fullLinks d).spreadDef d a.name a.pos := by
      rw [spreadDef_full ha, spreadDef_full ha', hna]
    have eb : (fullLinks d).spreadDef d b'.name b'.pos = (fullLinks d).spreadDef d b.name b.pos := by
      rw [spreadDef_full hb, spreadDef_full hb', hnb]
    have hBf : fragForName d b.name = some B := by
      have : (fullLinks d).spreadDef d b.name b.pos = some B := hB
      rw [spreadDef_full hb] at this
      exact this
    have hxd : DSpread d x := Or.inr ⟨B, fragForName_mem hBf, collectSpreads_inSels _ _ hx⟩
    exact .checkRight (by rw [hna, hnb]; exact hne) (ea.trans hA) (eb.trans hB) hx (ih rfl ha hxd ha' hxd hna rfl)
  | @checkLeft ex0 a0 b0 x A B hne hA hB hx hc ih =>
    injection hj with h1 h2 h3
    subst h1 h2 h3
    intro a' b' ha hb ha' hb' hna hnb
    have ea : (fullLinks d).spreadDef d a'.name a'.pos = (fullLinks d).spreadDef d a.name a.pos := by
      rw [spreadDef_full ha, spreadDef_full ha', hna]
    have eb : (fullLinks d).spreadDef d b'.name b'.pos = (fullLinks d).spreadDef d b.name b.pos := by
      rw [spreadDef_full hb, spreadDef_full hb', hnb]
    have hAf : fragForName d a.name = some A := by
      have : (fullLinks d).spreadDef d a.name a.pos = some A := hA
      rw [spreadDef_full ha] at this
      exact this
    have hxd : DSpread d x := Or.inr ⟨A, fragForName_mem hAf, collectSpreads_inSels _ _ hx⟩
    exact .checkLeft (by rw [hna, hnb]; exact hne) (ea.trans hA) (eb.trans hB) hx (ih rfl hxd hb hxd hb' rfl hnb)

/-- nothing is compared with the fields of an empty selection set -/
theorem not_holds_chain_nil {env : Env} {ex : Bool} {p : Option Definition} {sp : SpreadNode} :
    ¬ Holds env (.chain ex p .nil sp) := by
  intro h
  generalize hj : Jg.chain ex p .nil sp = j at h
  induction h generalizing sp with
  | names => cases hj
  | args => cases hj
  | types => cases hj
  | sub => cases hj
  | subFields => cases hj
  | subChainB => cases hj
  | subChainA => cases hj
  | subCheck => cases hj
  | chainHere _ _ ha =>
    injection hj with _ _ h3 _
    subst h3
    simp [collectFields] at ha
  | chainNext _ _ _ _ _ ih =>
    injection hj with h1 h2 h3 h4
    subst h1 h2 h3
    exact ih rfl
  | checkHere => cases hj
  | checkRight => cases hj
  | checkLeft => cases hj

end

/- ---------- ranks ---------- -/

/-- the number of fragment definitions reachable from the names -/
def rkN (d : QueryDoc) (names : List Name) : Nat :=
  d.frags.countP fun f => (Spec.reachFrom d names).contains f.name

theorem countP_le_of_imp {α : Type} {p q : α → Bool} : ∀ (l : List α), (∀ x ∈ l, p x = true → q x = true) →
    l.countP p ≤ l.countP q
  | [], _ => Nat.le_refl _
  | x :: xs, h => by
    have ih := countP_le_of_imp xs (fun y hy => h y (List.mem_cons_of_mem _ hy))
    simp only [List.countP_cons]
    have hx := h x (List.mem_cons_self ..)
    cases hp : p x with
    | false => simp; omega
    | true => simp [hx hp]; omega

theorem countP_lt_of_imp {α : Type} {p q : α → Bool} : ∀ (l : List α), (∀ x ∈ l, p x = true → q x = true) →
    (∃ y ∈ l, q y = true ∧ p y = false) → l.countP p + 1 ≤ l.countP q
  | [], _, ⟨_, hy, _⟩ => by cases hy
  | x :: xs, h, ⟨y, hy, hq, hp⟩ => by
    simp only [List.countP_cons]
    rcases List.mem_cons.1 hy with rfl | hy
    · have := countP_le_of_imp xs (fun z hz => h z (List.mem_cons_of_mem _ hz))
      simp [hq, hp]
      omega
    · have ih := countP_lt_of_imp xs (fun z hz => h z (List.mem_cons_of_mem _ hz)) ⟨y, hy, hq, hp⟩
      have hx := h x (List.mem_cons_self ..)
      cases hpx : p x with
      | false => simp; omega
      | true => simp [hx hpx]; omega

theorem rkN_mono {d : QueryDoc} {a b : List Name} (h : ∀ x, Reach d a x → Reach d b x) : rkN d a ≤ rkN d b := by
  unfold rkN
  apply countP_le_of_imp
  intro f _ hf
  rw [reachFrom_contains_iff] at hf ⊢
  exact h _ hf

theorem rkN_mono_sub {d : QueryDoc} {a b : List Name} (h : ∀ x ∈ a, x ∈ b) : rkN d a ≤ rkN d b :=
  rkN_mono (fun _ hr => hr.mono h)

/-- a defined name reachable from `names` reaches strictly fewer definitions (no cycles) -/
theorem rkN_strict {d : QueryDoc} (hac : Acyclic d) {names : List Name} {n : Name} {f : FragmentDef}
    (hr : Reach d names n) (hf : fragForName d n = some f) : rkN d (Spec.fragSpreads d n) + 1 ≤ rkN d names := by
  unfold rkN
  apply countP_lt_of_imp
  · intro g _ hg
    rw [reachFrom_contains_iff] at hg ⊢
    exact Reach.trans hr hg
  · refine ⟨f, fragForName_mem hf, ?_, ?_⟩
    · rw [reachFrom_contains_iff, fragForName_name hf]
      exact hr
    · cases hc : (Spec.reachFrom d (Spec.fragSpreads d n)).contains f.name with
      | false => rfl
      | true =>
        rw [reachFrom_contains_iff, fragForName_name hf] at hc
        exact absurd hc (hac n)

theorem rkN_le (d : QueryDoc) (names : List Name) : rkN d names ≤ d.frags.length := List.countP_le_length

end Gql.Validate
