import GqlProofs.Validate.OverlapSwap
import GqlProofs.Validate.OverlapCongr
/-
  OverlappingFieldsCanBeMerged: the MEMOS.  In a document without fragment cycles a silent observer
  call refutes `TopHolds` although `comparedFragmentPairs` (global) and
  `comparedFieldsAndFragmentPairs` (per call) suppress repeated comparisons.

  Invariant: every memo key stands for a comparison that found nothing — its judgment is refuted —
  except the keys whose expansion is under way.  Keys are ranked (`rkN`: the number of fragment
  definitions reachable); every comparison made during the expansion of a key has a strictly
  smaller rank, so an expansion never looks up a key that is under way: the invariant is stated
  "for the keys of rank below ρ" (`memoFrame ρ`) and an expansion of rank `r` runs in the frame `r`.
-/
namespace Gql.Validate
open Gql Gql.Validate.Rules

def rkS (d : QueryDoc) (sels : Selections) : Nat := rkN d (Spec.spreadsOfSels sels)
def rkSp (d : QueryDoc) (sp : SpreadNode) : Nat := rkN d (Spec.fragSpreads d sp.name)

section
variable (s : Schema) (d : QueryDoc)

/-- the fragment-pair memo below rank `ρ`: what it contains has been compared without finding anything -/
def PairsI (ρ : Nat) (P : Pairs) : Prop :=
  ∀ a b ex, DSpread d a → DSpread d b → rkSp d a + rkSp d b < ρ → P.has a.name b.name ex = true →
    ¬ Holds (envOf s d (fullLinks d)) (.check ex a b)

/-- the (selection set, fragment) memo below rank `ρ` -/
def SeenI (ρ : Nat) (S : List FragKey) : Prop :=
  ∀ t ∈ Spec.docSets s d, ∀ sp ex, DSpread d sp → rkS d t.sels + rkSp d sp < ρ →
    (selId t.sels, sp.name, ex) ∈ S → ¬ Holds (envOf s d (fullLinks d)) (.chain ex t.parent t.sels sp)

/-- new keys of the fragment-pair memo have rank below `ρ` and are refuted -/
def PairsT (ρ : Nat) (P P' : Pairs) : Prop :=
  ∀ a b ex, DSpread d a → DSpread d b → P'.has a.name b.name ex = true →
    P.has a.name b.name ex = true ∨
      (rkSp d a + rkSp d b < ρ ∧ ¬ Holds (envOf s d (fullLinks d)) (.check ex a b))

def SeenT (ρ : Nat) (S S' : List FragKey) : Prop :=
  ∀ t ∈ Spec.docSets s d, ∀ sp ex, DSpread d sp → (selId t.sels, sp.name, ex) ∈ S' →
    (selId t.sels, sp.name, ex) ∈ S ∨
      (rkS d t.sels + rkSp d sp < ρ ∧ ¬ Holds (envOf s d (fullLinks d)) (.chain ex t.parent t.sels sp))

def memoFrame (ρ : Nat) : TFrame :=
  { I := fun st => PairsI s d ρ st.pairs ∧ SeenI s d ρ st.seen
    T := fun st st' => PairsT s d ρ st.pairs st'.pairs ∧ SeenT s d ρ st.seen st'.seen
    refl := fun _ => ⟨fun _ _ _ _ _ h => Or.inl h, fun _ _ _ _ _ h => Or.inl h⟩
    trans := fun {a b c} h1 h2 =>
      ⟨fun x y ex hx hy h => by
          rcases h2.1 x y ex hx hy h with h | h
          · exact h1.1 x y ex hx hy h
          · exact Or.inr h,
       fun t ht sp ex hsp h => by
          rcases h2.2 t ht sp ex hsp h with h | h
          · exact h1.2 t ht sp ex hsp h
          · exact Or.inr h⟩
    tick := fun _ h => ⟨h, ⟨fun _ _ _ _ _ h => Or.inl h, fun _ _ _ _ _ h => Or.inl h⟩⟩ }

variable {s d}

theorem memo_I_of_T {ρ : Nat} {st st' : OSt} (hI : (memoFrame s d ρ).I st) (hT : (memoFrame s d ρ).T st st') :
    (memoFrame s d ρ).I st' := by
  constructor
  · intro a b ex ha hb hr hh
    rcases hT.1 a b ex ha hb hh with h | h
    · exact hI.1 a b ex ha hb hr h
    · exact h.2
  · intro t ht sp ex hsp hr hm
    rcases hT.2 t ht sp ex hsp hm with h | h
    · exact hI.2 t ht sp ex hsp hr h
    · exact h.2

theorem memo_I_weaken {ρ r : Nat} (hle : r ≤ ρ) {st : OSt} (hI : (memoFrame s d ρ).I st) : (memoFrame s d r).I st :=
  ⟨fun a b ex ha hb hr hh => hI.1 a b ex ha hb (by omega) hh,
   fun t ht sp ex hsp hr hm => hI.2 t ht sp ex hsp (by omega) hm⟩

theorem memo_T_weaken {ρ r : Nat} (hle : r ≤ ρ) {st st' : OSt} (hT : (memoFrame s d r).T st st') :
    (memoFrame s d ρ).T st st' :=
  ⟨fun a b ex ha hb hh => by
      rcases hT.1 a b ex ha hb hh with h | h
      · exact Or.inl h
      · exact Or.inr ⟨by omega, h.2⟩,
   fun t ht sp ex hsp hm => by
      rcases hT.2 t ht sp ex hsp hm with h | h
      · exact Or.inl h
      · exact Or.inr ⟨by omega, h.2⟩⟩

end

/-- what the memo argument needs of the document -/
structure MemoHyps (s : Schema) (d : QueryDoc) : Prop where
  H : OvHyps s d
  acyclic : Acyclic d
  /-- KnownFragmentNames -/
  defined : ∀ sp, DSpread d sp → ∃ F, fragForName d sp.name = some F
  /-- node identity: a selection set is identified by its first selection node -/
  ids : ∀ t ∈ Spec.docSets s d, ∀ t' ∈ Spec.docSets s d, selId t.sels = selId t'.sels → t.sels ≠ .nil → t = t'
  sym : ArgsSym s d

/- ---------- ranks ---------- -/

theorem rkS_sub {sv : SV} {l : Links} {d : QueryDoc} {sels : Selections} {p : Option Definition} {a : FInfo}
    (ha : a ∈ collectFields sv l p sels) : rkS d a.node.sel ≤ rkS d sels :=
  rkN_mono_sub (collectFields_spreads sv l sels p a ha)

theorem rkSp_lt {d : QueryDoc} (hac : Acyclic d) {sels : Selections} {sp : SpreadNode} (hsp : sp ∈ collectSpreads sels)
    {F : FragmentDef} (hF : fragForName d sp.name = some F) : rkSp d sp + 1 ≤ rkS d sels :=
  rkN_strict hac (Reach.base (collectSpreads_names sels sp hsp)) hF

theorem rkSp_eq {d : QueryDoc} {sp : SpreadNode} {F : FragmentDef} (hF : fragForName d sp.name = some F) :
    rkSp d sp = rkS d F.sel := by
  unfold rkSp rkS
  rw [fragSpreads_of_forName hF]

theorem selId_nil_iff (sels : Selections) : selId sels = none ↔ sels = .nil := by
  cases sels <;> simp [selId]


/- ---------- the (selection set, fragment) memo ---------- -/

section
variable {s : Schema} {d : QueryDoc} (M : MemoHyps s d)
include M

/-- two keys of the (selection set, fragment) memo that coincide stand for the same comparison -/
theorem chain_key_lift {t t' : Spec.TSet} (ht : t ∈ Spec.docSets s d) (ht' : t' ∈ Spec.docSets s d) {sp sp' : SpreadNode}
    (hsp : DSpread d sp) (hsp' : DSpread d sp') (ex : Bool) (hid : selId t'.sels = selId t.sels) (hn : sp'.name = sp.name) :
    (rkS d t'.sels = rkS d t.sels ∧ rkSp d sp' = rkSp d sp) ∧
      (¬ Holds (envOf s d (fullLinks d)) (.chain ex t.parent t.sels sp) →
        ¬ Holds (envOf s d (fullLinks d)) (.chain ex t'.parent t'.sels sp')) := by
  have hr : rkSp d sp' = rkSp d sp := by unfold rkSp; rw [hn]
  by_cases hnil : t.sels = .nil
  · have hnil' : t'.sels = .nil := by
      rw [← selId_nil_iff, hid, selId_nil_iff]
      exact hnil
    refine ⟨⟨by rw [hnil, hnil'], hr⟩, fun _ => ?_⟩
    rw [hnil']
    exact not_holds_chain_nil
  · have e := M.ids t ht t' ht' hid.symm hnil
    subst e
    exact ⟨⟨rfl, hr⟩, fun hc hh => hc (holds_chain_rename hh hsp' hsp hn.symm)⟩

/-- the frame in which the expansion of a (selection set, fragment) key runs -/
theorem chain_start {ρ : Nat} {st0 : OSt} {t : Spec.TSet} (ht : t ∈ Spec.docSets s d) {sp : SpreadNode} (hsp : DSpread d sp)
    (excl : Bool) (hr : rkS d t.sels + rkSp d sp < ρ) (hI : (memoFrame s d ρ).I st0) :
    (memoFrame s d (rkS d t.sels + rkSp d sp)).I
      { st0 with seen := (selId t.sels, sp.name, excl) :: st0.seen } := by
  refine ⟨fun a b ex ha hb hr' hh => hI.1 a b ex ha hb (by omega) hh, ?_⟩
  intro t' ht' sp' ex hsp' hr' hm
  rcases List.mem_cons.1 hm with hm | hm
  · injection hm with h1 h2
    injection h2 with h2 h3
    have := (chain_key_lift M ht ht' hsp hsp' ex h1 h2).1
    omega
  · exact hI.2 t' ht' sp' ex hsp' (by omega) hm

/-- … and what its silent end means in the frame of the caller -/
theorem chain_finish {ρ : Nat} {st0 st3 : OSt} {t : Spec.TSet} (ht : t ∈ Spec.docSets s d) {sp : SpreadNode}
    (hsp : DSpread d sp) (excl : Bool) (hr : rkS d t.sels + rkSp d sp < ρ) (hI : (memoFrame s d ρ).I st0)
    (hclean : ¬ Holds (envOf s d (fullLinks d)) (.chain excl t.parent t.sels sp))
    (hT : (memoFrame s d (rkS d t.sels + rkSp d sp)).T { st0 with seen := (selId t.sels, sp.name, excl) :: st0.seen } st3) :
    (memoFrame s d ρ).I st3 ∧ (memoFrame s d ρ).T st0 st3 := by
  have hT' : (memoFrame s d ρ).T st0 st3 := by
    constructor
    · intro a b ex ha hb hh
      rcases hT.1 a b ex ha hb hh with h | h
      · exact Or.inl h
      · exact Or.inr ⟨by omega, h.2⟩
    · intro t' ht' sp' ex hsp' hm
      rcases hT.2 t' ht' sp' ex hsp' hm with h | h
      · rcases List.mem_cons.1 h with h | h
        · injection h with h1 h2
          injection h2 with h2 h3
          subst h3
          have := chain_key_lift M ht ht' hsp hsp' ex h1 h2
          exact Or.inr ⟨by omega, this.2 hclean⟩
        · exact Or.inl h
      · exact Or.inr ⟨by omega, h.2⟩
  exact ⟨memo_I_of_T hI hT', hT'⟩

/-- the fields of a selection set of the document, for `findConflict` -/
def PRank (s : Schema) (d : QueryDoc) (ρ : Nat) (a b : FInfo) : Prop :=
  DocF s d (fullLinks d) a ∧ DocF s d (fullLinks d) b ∧ rkS d a.node.sel + rkS d b.node.sel ≤ ρ

/-- `fc` silent refutes the conflict, in every frame that bounds the rank of the two fields -/
def FCAll (s : Schema) (d : QueryDoc) (fc : FC) : Prop :=
  ∀ ρ, FCSilent (memoFrame s d ρ) (envOf s d (fullLinks d)) fc (PRank s d ρ)

omit M in
theorem docF_spread {a : FInfo} (ha : DocF s d (fullLinks d) a) {sp : SpreadNode} (hsp : sp ∈ collectSpreads a.node.sel) :
    DSpread d sp := by
  have hin := docSels_mem_inDocSel s d _ ha.inDoc
  have hi := collectSpreads_inSels _ _ hsp
  rcases hin with ⟨op, hop, h⟩ | ⟨f, hf, h⟩
  · exact Or.inl ⟨op, hop, inSels_trans _ _ _ h (InSel.fieldSub _ _ _ _ _ _ _ hi)⟩
  · exact Or.inr ⟨f, hf, inSels_trans _ _ _ h (InSel.fieldSub _ _ _ _ _ _ _ hi)⟩

omit M in
theorem docSet_spread {t : Spec.TSet} (ht : t ∈ Spec.docSets s d) {sp : SpreadNode} (hsp : sp ∈ collectSpreads t.sels) :
    DSpread d sp := docSets_inDoc ht _ (collectSpreads_inSels _ _ hsp)

omit M in
theorem frag_spread {F : FragmentDef} (hF : F ∈ d.frags) {sp : SpreadNode} (hsp : sp ∈ collectSpreads F.sel) :
    DSpread d sp := Or.inr ⟨F, hF, collectSpreads_inSels _ _ hsp⟩

theorem chain_memo {fc : FC} (hfc : FCAll s d fc) :
    ∀ (n ρ : Nat) (excl : Bool) (t : Spec.TSet), t ∈ Spec.docSets s d → ∀ (sp : SpreadNode), DSpread d sp →
      rkS d t.sels + rkSp d sp < ρ →
      StepSilent (memoFrame s d ρ)
        (chain (envOf s d (fullLinks d)) fc excl (getFieldsAndFragmentNames s.view (fullLinks d) t.parent t.sels).1 n sp)
        (¬ Holds (envOf s d (fullLinks d)) (.chain excl t.parent t.sels sp))
  | 0, _, _, _, _, _, _, _ => by
    intro st r _ h _
    simp [chain] at h
  | n + 1, ρ, excl, t, ht, sp, hsp, hr => by
    intro st0 r hI h he
    obtain ⟨hIt, hTt⟩ := (memoFrame s d ρ).tick st0 hI
    unfold chain at h
    simp only at h
    split at h
    · rename_i hmem
      injection h with h
      subst h
      refine ⟨hIt, hTt, ?_⟩
      have hm : (selId t.sels, sp.name, excl) ∈ st0.seen := by
        have := List.contains_iff_mem.1 hmem
        exact this
      exact hI.2 t ht sp excl hsp hr hm
    · cases hs : (envOf s d (fullLinks d)).l.spreadDef (envOf s d (fullLinks d)).d sp.name sp.pos with
      | none =>
        rw [hs] at h
        injection h with h
        subst h
        have hclean : ¬ Holds (envOf s d (fullLinks d)) (.chain excl t.parent t.sels sp) := by
          intro hh
          cases hh with
          | chainHere hF => rw [hs] at hF; cases hF
          | chainNext hF => rw [hs] at hF; cases hF
        obtain ⟨a1, a2⟩ := chain_finish M ht hsp excl hr hIt hclean ((memoFrame s d _).refl _)
        exact ⟨a1, (memoFrame s d ρ).trans hTt a2, hclean⟩
      | some F =>
        rw [hs] at h
        simp only at h
        have hFf : fragForName d sp.name = some F := spreadDef_some hs
        have hFm : F ∈ d.frags := fragForName_mem hFf
        split at h
        · rename_i hfirst
          injection h with h
          subst h
          have hclean : ¬ Holds (envOf s d (fullLinks d)) (.chain excl t.parent t.sels sp) := by
            have e : selId t.sels = selId F.sel := by
              have h0 := hfirst
              simp only [beq_iff_eq] at h0
              exact h0
            intro hh
            cases hh with
            | chainHere hF hid => rw [hs] at hF; injection hF with hF; subst hF; exact hid e
            | chainNext hF hid => rw [hs] at hF; injection hF with hF; subst hF; exact hid e
          obtain ⟨a1, a2⟩ := chain_finish M ht hsp excl hr hIt hclean ((memoFrame s d _).refl _)
          exact ⟨a1, (memoFrame s d ρ).trans hTt a2, hclean⟩
        · split at h
          · cases h
          · rename_i st2 c1 h1
            split at h
            · cases h
            · rename_i st3 c2 h2
              injection h with h
              subst h
              simp only [List.append_eq_nil_iff] at he
              have hI1 := chain_start M ht hsp excl hr hIt
              have hrF : rkSp d sp = rkS d F.sel := rkSp_eq hFf
              obtain ⟨b1, b2, b3⟩ := between_silent (hfc (rkS d t.sels + rkSp d sp)) excl
                (collectFields s.view (fullLinks d) t.parent t.sels) (fragFieldList (envOf s d (fullLinks d)) F)
                (fun a ha g hg => ⟨DocF.ofSet ht ha, DocF.ofSet (t := ⟨s.type? F.typeCond, F.sel⟩) (docSets_frag hFm) hg, by
                  have h1 := rkS_sub (d := d) ha
                  have h2 := rkS_sub (d := d) hg
                  omega⟩) _ _ hI1 h1 he.1
              obtain ⟨c1', c2', c3'⟩ := stLoop_silent (memoFrame s d (rkS d t.sels + rkSp d sp)).toFrame _
                (fun sp' => ¬ Holds (envOf s d (fullLinks d)) (.chain excl t.parent t.sels sp')) _
                (fun sp' hsp' st' r' hI' h' he' => by
                  have hm := List.mem_filter.1 hsp'
                  have hd' : DSpread d sp' := frag_spread hFm hm.1
                  obtain ⟨F', hF'⟩ := M.defined sp' hd'
                  have hlt := rkSp_lt M.acyclic hm.1 hF'
                  exact chain_memo hfc n _ excl t ht sp' hd' (by omega) st' r' hI' h' he') st2 _ b1 h2 he.2
              have hclean : ¬ Holds (envOf s d (fullLinks d)) (.chain excl t.parent t.sels sp) := by
                intro hh
                cases hh with
                | chainHere hF hid ha hg hrn hc =>
                  rw [hs] at hF; injection hF with hF; subst hF
                  exact b3 _ ha _ hg hrn hc
                | chainNext hF hid hx hne hc =>
                  rw [hs] at hF; injection hF with hF; subst hF
                  exact c3' _ (List.mem_filter.2 ⟨hx, by simpa using hne⟩) hc
              obtain ⟨a1, a2⟩ := chain_finish M ht hsp excl hr hIt hclean
                ((memoFrame s d _).trans b2 c2')
              exact ⟨a1, (memoFrame s d ρ).trans hTt a2, hclean⟩

end


/- ---------- the fragment-pair memo ---------- -/

theorem has_add {P : Pairs} {a b x y : Name} {e e' : Bool} (h : (P.add a b e).has x y e' = true) :
    P.has x y e' = true ∨ (((x = a ∧ y = b) ∨ (x = b ∧ y = a)) ∧ (e' = true ∨ e = false)) := by
  unfold Pairs.has at h ⊢
  rw [lookup_add] at h
  by_cases h1 : (x, y) = (b, a)
  · rw [if_pos h1] at h
    injection h1 with h1 h2
    refine Or.inr ⟨Or.inr ⟨h1, h2⟩, ?_⟩
    cases e' <;> cases e <;> simp_all
  · rw [if_neg h1] at h
    by_cases h2 : (x, y) = (a, b)
    · rw [if_pos h2] at h
      injection h2 with h2 h3
      refine Or.inr ⟨Or.inl ⟨h2, h3⟩, ?_⟩
      cases e' <;> cases e <;> simp_all
    · rw [if_neg h2] at h
      exact Or.inl h

section
variable {s : Schema} {d : QueryDoc} (M : MemoHyps s d)
include M

/-- what recording the pair `(a, b, e)` claims about every key that `Has` answers with it -/
theorem check_key_clean {a b x y : SpreadNode} (ha : DSpread d a) (hb : DSpread d b) (hx : DSpread d x) (hy : DSpread d y)
    {e e' : Bool} (hnames : (x.name = a.name ∧ y.name = b.name) ∨ (x.name = b.name ∧ y.name = a.name))
    (hflag : e' = true ∨ e = false) (hclean : ¬ Holds (envOf s d (fullLinks d)) (.check e a b)) :
    ¬ Holds (envOf s d (fullLinks d)) (.check e' x y) ∧ rkSp d x + rkSp d y = rkSp d a + rkSp d b := by
  constructor
  · intro hh
    have h1 : Holds (envOf s d (fullLinks d)) (.check e x y) := by
      cases e with
      | false => exact holds_unflag hh
      | true =>
        rcases hflag with h | h
        · rw [h] at hh; exact hh
        · cases h
    rcases hnames with ⟨n1, n2⟩ | ⟨n1, n2⟩
    · exact hclean (holds_check_rename h1 hx hy ha hb n1.symm n2.symm)
    · have h2 := holds_swap M.H M.sym h1 trivial
      exact hclean (holds_check_rename h2 hy hx ha hb n2.symm n1.symm)
  · unfold rkSp
    rcases hnames with ⟨n1, n2⟩ | ⟨n1, n2⟩
    · rw [n1, n2]
    · rw [n1, n2]; omega

omit M in
theorem check_start {ρ : Nat} {st0 : OSt} {a b : SpreadNode}
    (excl : Bool) (hr : rkSp d a + rkSp d b < ρ) (hI : (memoFrame s d ρ).I st0) :
    (memoFrame s d (rkSp d a + rkSp d b)).I { st0 with pairs := st0.pairs.add a.name b.name excl } := by
  refine ⟨?_, fun t ht sp ex hsp hr' hm => hI.2 t ht sp ex hsp (by omega) hm⟩
  intro x y ex hx hy hr' hh
  rcases has_add hh with h | ⟨hn, _⟩
  · exact hI.1 x y ex hx hy (by omega) h
  · exfalso
    have : rkSp d x + rkSp d y = rkSp d a + rkSp d b := by
      unfold rkSp
      rcases hn with ⟨n1, n2⟩ | ⟨n1, n2⟩
      · rw [n1, n2]
      · rw [n1, n2]; omega
    omega

theorem check_finish {ρ : Nat} {st0 st4 : OSt} {a b : SpreadNode} (ha : DSpread d a) (hb : DSpread d b)
    (excl : Bool) (hr : rkSp d a + rkSp d b < ρ) (hI : (memoFrame s d ρ).I st0)
    (hclean : ¬ Holds (envOf s d (fullLinks d)) (.check excl a b))
    (hT : (memoFrame s d (rkSp d a + rkSp d b)).T { st0 with pairs := st0.pairs.add a.name b.name excl } st4) :
    (memoFrame s d ρ).I st4 ∧ (memoFrame s d ρ).T st0 st4 := by
  have hT' : (memoFrame s d ρ).T st0 st4 := by
    constructor
    · intro x y ex hx hy hh
      rcases hT.1 x y ex hx hy hh with h | h
      · rcases has_add h with h | ⟨hn, hf⟩
        · exact Or.inl h
        · have := check_key_clean M ha hb hx hy hn hf hclean
          exact Or.inr ⟨by omega, this.1⟩
      · exact Or.inr ⟨by omega, h.2⟩
    · intro t ht sp ex hsp hm
      rcases hT.2 t ht sp ex hsp hm with h | h
      · exact Or.inl h
      · exact Or.inr ⟨by omega, h.2⟩
  exact ⟨memo_I_of_T hI hT', hT'⟩

theorem check_memo {fc : FC} (hfc : FCAll s d fc) :
    ∀ (n ρ : Nat) (excl : Bool) (a b : SpreadNode), DSpread d a → DSpread d b → rkSp d a + rkSp d b < ρ →
      StepSilent (memoFrame s d ρ) (check (envOf s d (fullLinks d)) fc excl n a b)
        (¬ Holds (envOf s d (fullLinks d)) (.check excl a b))
  | 0, _, _, _, _, _, _, _ => by
    intro st r _ h _
    simp [check] at h
  | n + 1, ρ, excl, a, b, ha, hb, hr => by
    intro st0 r hI h he
    obtain ⟨hIt, hTt⟩ := (memoFrame s d ρ).tick st0 hI
    unfold check at h
    simp only at h
    split at h
    · rename_i hname
      injection h with h
      subst h
      refine ⟨hIt, hTt, fun hh => ?_⟩
      have e : a.name = b.name := by simpa using hname
      cases hh with
      | checkHere hne => exact hne e
      | checkRight hne => exact hne e
      | checkLeft hne => exact hne e
    · split at h
      · rename_i hhas
        injection h with h
        subst h
        exact ⟨hIt, hTt, hI.1 a b excl ha hb hr hhas⟩
      · split at h
        · rename_i A B hsa hsb
          have hAf : fragForName d a.name = some A := spreadDef_some hsa
          have hBf : fragForName d b.name = some B := spreadDef_some hsb
          have hAm : A ∈ d.frags := fragForName_mem hAf
          have hBm : B ∈ d.frags := fragForName_mem hBf
          split at h
          · cases h
          · rename_i st2 c1 h1
            split at h
            · cases h
            · rename_i st3 c2 h2
              split at h
              · cases h
              · rename_i st4 c3 h3
                injection h with h
                subst h
                simp only [List.append_eq_nil_iff] at he
                obtain ⟨⟨e1, e2⟩, e3⟩ := he
                have hI1 := check_start (a := a) (b := b) excl hr hIt
                have hrA : rkSp d a = rkS d A.sel := rkSp_eq hAf
                have hrB : rkSp d b = rkS d B.sel := rkSp_eq hBf
                obtain ⟨b1, b2, b3⟩ := between_silent (hfc (rkSp d a + rkSp d b)) excl
                  (fragFieldList (envOf s d (fullLinks d)) A) (fragFieldList (envOf s d (fullLinks d)) B)
                  (fun x hx y hy => ⟨DocF.ofSet (t := ⟨s.type? A.typeCond, A.sel⟩) (docSets_frag hAm) hx,
                    DocF.ofSet (t := ⟨s.type? B.typeCond, B.sel⟩) (docSets_frag hBm) hy, by
                    have h1 := rkS_sub (d := d) hx
                    have h2 := rkS_sub (d := d) hy
                    omega⟩) _ _ hI1 h1 e1
                obtain ⟨c1', c2', c3'⟩ := stLoop_silent (memoFrame s d (rkSp d a + rkSp d b)).toFrame _
                  (fun x => ¬ Holds (envOf s d (fullLinks d)) (.check excl a x)) _
                  (fun x hx st' r' hI' h' he' => by
                    have hd' : DSpread d x := frag_spread hBm hx
                    obtain ⟨F', hF'⟩ := M.defined x hd'
                    have hlt := rkSp_lt M.acyclic hx hF'
                    exact check_memo hfc n _ excl a x ha hd' (by omega) st' r' hI' h' he') st2 _ b1 h2 e2
                obtain ⟨d1, d2, d3⟩ := stLoop_silent (memoFrame s d (rkSp d a + rkSp d b)).toFrame _
                  (fun x => ¬ Holds (envOf s d (fullLinks d)) (.check excl x b)) _
                  (fun x hx st' r' hI' h' he' => by
                    have hd' : DSpread d x := frag_spread hAm hx
                    obtain ⟨F', hF'⟩ := M.defined x hd'
                    have hlt := rkSp_lt M.acyclic hx hF'
                    exact check_memo hfc n _ excl x b hd' hb (by omega) st' r' hI' h' he') st3 _ c1' h3 e3
                have hclean : ¬ Holds (envOf s d (fullLinks d)) (.check excl a b) := by
                  intro hh
                  cases hh with
                  | checkHere hne hA hB hfa hfb hrn hc =>
                    rw [hsa] at hA; injection hA with hA; subst hA
                    rw [hsb] at hB; injection hB with hB; subst hB
                    exact b3 _ hfa _ hfb hrn hc
                  | checkRight hne hA hB hx hc =>
                    rw [hsb] at hB; injection hB with hB; subst hB
                    exact c3' _ hx hc
                  | checkLeft hne hA hB hx hc =>
                    rw [hsa] at hA; injection hA with hA; subst hA
                    exact d3 _ hx hc
                obtain ⟨a1, a2⟩ := check_finish M ha hb excl hr hIt hclean
                  ((memoFrame s d _).trans b2 ((memoFrame s d _).trans c2' d2))
                exact ⟨a1, (memoFrame s d ρ).trans hTt a2, hclean⟩
        · rename_i hno
          injection h with h
          subst h
          have hclean : ¬ Holds (envOf s d (fullLinks d)) (.check excl a b) := by
            intro hh
            cases hh with
            | checkHere hne hA hB => exact hno _ _ hA hB
            | checkRight hne hA hB => exact hno _ _ hA hB
            | checkLeft hne hA hB => exact hno _ _ hA hB
          obtain ⟨a1, a2⟩ := check_finish M ha hb excl hr hIt hclean ((memoFrame s d _).refl _)
          exact ⟨a1, (memoFrame s d ρ).trans hTt a2, hclean⟩

end


/- ---------- `findConflict` ---------- -/

section
variable {s : Schema} {d : QueryDoc} (M : MemoHyps s d)
include M

theorem fcLevel_memo : ∀ k, FCAll s d (fcLevel (envOf s d (fullLinks d)) k)
  | 0 => by
    intro _ _ _ _ _ _ _ _ h
    simp [fcLevel] at h
  | k + 1 => by
    intro ρ excl a b st st' hP hI h
    obtain ⟨ha, hb, hrk⟩ := hP
    simp only [fcLevel] at h
    have hta : (⟨a.next s.view, a.node.sel⟩ : Spec.TSet) ∈ Spec.docSets s d := by
      rw [ha.next_fieldType M.H]
      exact docSets_field ha.inDoc
    have htb : (⟨b.next s.view, b.node.sel⟩ : Spec.TSet) ∈ Spec.docSets s d := by
      rw [hb.next_fieldType M.H]
      exact docSets_field hb.inDoc
    refine findConflictBody_silent (envOf s d (fullLinks d)) _ excl a b st st'
      (fun excl' => subSets_silent (fcLevel_memo k ρ) excl' a b ?_ ?_ ?_ ?_) hI h
    · intro a' ha' b' hb'
      have h1 := rkS_sub (d := d) ha'
      have h2 := rkS_sub (d := d) hb'
      exact ⟨ha.sub M.H ha', hb.sub M.H hb', by omega⟩
    · intro sp hsp
      have hd' : DSpread d sp := docF_spread hb hsp
      obtain ⟨F, hF⟩ := M.defined sp hd'
      have hlt := rkSp_lt M.acyclic hsp hF
      exact chain_memo M (fcLevel_memo k) _ ρ excl' _ hta sp hd' (by simp only; omega)
    · intro sp hsp
      have hd' : DSpread d sp := docF_spread ha hsp
      obtain ⟨F, hF⟩ := M.defined sp hd'
      have hlt := rkSp_lt M.acyclic hsp hF
      exact chain_memo M (fcLevel_memo k) _ ρ excl' _ htb sp hd' (by simp only; omega)
    · intro sa hsa sb hsb
      have hda : DSpread d sa := docF_spread ha hsa
      have hdb : DSpread d sb := docF_spread hb hsb
      obtain ⟨F, hF⟩ := M.defined sa hda
      obtain ⟨G, hG⟩ := M.defined sb hdb
      have h1 := rkSp_lt M.acyclic hsa hF
      have h2 := rkSp_lt M.acyclic hsb hG
      exact check_memo M (fcLevel_memo k) _ ρ excl' sa sb hda hdb (by omega)

/-- a rank above every rank -/
def rkTop (d : QueryDoc) : Nat := 2 * d.frags.length + 1

/-- **one observer call**, under the full link table: from a fragment-pair memo whose keys are all
    refuted, a silent call refutes `TopHolds` for its selection set and leaves such a memo -/
theorem overlapRun_memo (t : Spec.TSet) (ht : t ∈ Spec.docSets s d) (st0 : OSt) (hP : PairsI s d (rkTop d) st0.pairs)
    (r : OSt × List Conflict) (h : overlapRun s.view d (fullLinks d) t.parent t.sels st0 = some r) (he : r.2 = []) :
    ¬ TopHolds (envOf s d (fullLinks d)) t.parent t.sels ∧ PairsI s d (rkTop d) r.1.pairs := by
  unfold overlapRun at h
  simp only at h
  have hrk : ∀ names, rkN d names + rkN d names < rkTop d + 0 ∧ True := fun names => by
    have := rkN_le d names
    exact ⟨by unfold rkTop; omega, trivial⟩
  have hI0 : (memoFrame s d (rkTop d)).I { st0 with seen := [] } :=
    ⟨hP, fun _ _ _ _ _ _ hm => by cases hm⟩
  have key := top_silent (F := memoFrame s d (rkTop d)) (P := PRank s d (rkTop d)) (fcLevel_memo M _ (rkTop d))
    t.parent t.sels
    (fun a ha b hb => ⟨DocF.ofSet ht ha, DocF.ofSet ht hb, by
      have h1 := rkN_le d (Spec.spreadsOfSels a.node.sel)
      have h2 := rkN_le d (Spec.spreadsOfSels b.node.sel)
      unfold rkS rkTop
      omega⟩)
    (fun sp hsp => by
      have hd' : DSpread d sp := docSet_spread ht hsp
      have h1 := rkN_le d (Spec.spreadsOfSels t.sels)
      have h2 := rkN_le d (Spec.fragSpreads d sp.name)
      exact chain_memo M (fcLevel_memo M _) _ (rkTop d) false t ht sp hd' (by unfold rkS rkSp rkTop; omega))
    (fun sa hsa sb hsb => by
      have hda : DSpread d sa := docSet_spread ht hsa
      have hdb : DSpread d sb := docSet_spread ht hsb
      have h1 := rkN_le d (Spec.fragSpreads d sa.name)
      have h2 := rkN_le d (Spec.fragSpreads d sb.name)
      exact check_memo M (fcLevel_memo M _) _ (rkTop d) false sa sb hda hdb (by unfold rkSp rkTop; omega))
    st0 r hI0 h he
  refine ⟨key.1, ?_⟩
  cases hemp : selsEmpty t.sels with
  | false => exact (key.2 hemp).1.1
  | true =>
    unfold findConflictsWithinSelectionSet at h
    rw [hemp] at h
    simp only [if_true] at h
    injection h with h
    subst h
    exact hP

end

end Gql.Validate
