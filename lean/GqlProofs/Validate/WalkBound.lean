import GqlProofs.Validate.WalkTerm
/-
  Number of events the walker fires (C02): every node fires its own events once per walk of the
  selection set that contains it; the body of a fragment is walked at most once per operation /
  stand-alone fragment walk (guard `validatedFragmentSpreads`).  Amortised over the visited set:
    events(walk of sels from v to v') + W(v') ≤ own(sels) + W(v)
  where `W v` is the total own-event count of the bodies (directives of the definition, which the
  walker walks on every first visit of the fragment, and its selection set) of the fragments not
  named in `v`.
-/
namespace Gql.Validate
open Gql

mutual
  def evValue : Value → Nat
    | .mk k _ ch _ =>
      (match k with
        | .object => evChildren ch
        | .list => evChildren ch
        | _ => 0) + 1
  def evChildren : Children → Nat
    | .nil => 0
    | .cons _ v _ rest => evValue v + evChildren rest
end

def evArgs : List Argument → Nat
  | [] => 0
  | a :: rest => evValue a.value + evArgs rest

def evDirItems : List Directive → Nat
  | [] => 0
  | d :: rest => evArgs d.args + 1 + evDirItems rest

/-- events of `walkDirectives`: arguments' values, one `directive` each, one `directiveList` -/
def evDirs (ds : List Directive) : Nat := evDirItems ds + 1

mutual
  /-- own events of a selection (not following spreads) -/
  def evSel : Selection → Nat
    | .field _ _ args dirs sub _ => evArgs args + evDirs dirs + evSels sub + 1
    | .inline _ dirs sub _ => evDirs dirs + evSels sub + 1
    | .spread _ dirs _ => evDirs dirs + 1
  def evSels : Selections → Nat
    | .nil => 0
    | .cons x rest => evSel x + evSels rest
end

mutual
  theorem walkValue_len (s : SV) (cur : Option OperationDef) (exp : Option GType) (dfn : Option Definition) :
      ∀ (v : Value) (ws : WS), (walkValue s cur exp dfn v ws).2.length = evValue v
    | .mk k raw ch p, ws => by
      unfold walkValue
      have h1 : ∀ ws1 : WS, (walkObjChildren s cur dfn ch ws1).2.length = evChildren ch :=
        fun ws1 => walkObjChildren_len s cur dfn ch ws1
      have h2 : ∀ ws1 : WS, (walkListChildren s cur exp dfn ch ws1).2.length = evChildren ch :=
        fun ws1 => walkListChildren_len s cur exp dfn ch ws1
      cases k <;> simp [evValue, h1, h2]
  theorem walkObjChildren_len (s : SV) (cur : Option OperationDef) (dfn : Option Definition) :
      ∀ (ch : Children) (ws : WS), (walkObjChildren s cur dfn ch ws).2.length = evChildren ch
    | .nil, ws => by simp [walkObjChildren, evChildren]
    | .cons name v p rest, ws => by
      unfold walkObjChildren
      simp only [List.length_append, evChildren]
      rw [walkObjChildren_len s cur dfn rest, walkValue_len]
  theorem walkListChildren_len (s : SV) (cur : Option OperationDef) (exp : Option GType) (dfn : Option Definition) :
      ∀ (ch : Children) (ws : WS), (walkListChildren s cur exp dfn ch ws).2.length = evChildren ch
    | .nil, ws => by simp [walkListChildren, evChildren]
    | .cons name v p rest, ws => by
      unfold walkListChildren
      simp only [List.length_append, evChildren]
      rw [walkListChildren_len s cur exp dfn rest, walkValue_len]
end


theorem walkArgs_len (s : SV) (cur : Option OperationDef) (ad : Option (List ArgDef)) :
    ∀ (as : List Argument) (ws : WS), (walkArgs s cur ad as ws).2.length = evArgs as
  | [], ws => rfl
  | a :: rest, ws => by
    simp only [walkArgs, List.length_append, evArgs]
    rw [walkArgs_len s cur ad rest, walkValue_len]

theorem walkDirectiveItems_len (s : SV) (cur : Option OperationDef) (parent : Option Definition) (loc : Bytes) :
    ∀ (ds : List Directive) (ws : WS), (walkDirectiveItems s cur parent loc ds ws).2.length = evDirItems ds
  | [], ws => rfl
  | dir :: rest, ws => by
    simp only [walkDirectiveItems, List.length_append, List.length_cons, evDirItems]
    rw [walkDirectiveItems_len s cur parent loc rest, walkArgs_len]
    omega

theorem walkDirectives_len (s : SV) (cur : Option OperationDef) (parent : Option Definition) (ds : List Directive)
    (loc : Bytes) (ws : WS) : (walkDirectives s cur parent ds loc ws).2.length = evDirs ds := by
  simp only [walkDirectives, List.length_append, List.length_cons, List.length_nil, evDirs]
  rw [walkDirectiveItems_len]

/-- events one jump into a fragment definition fires for the definition itself: the directives of
    the definition (walked with location FRAGMENT_DEFINITION) and the own events of its selection set -/
def evFragBody (f : FragmentDef) : Nat := evDirs f.dirs + evSels f.sel

/-- total own-event count of the bodies (definition directives + selection set) of the fragments
    whose name is not in `v` -/
def fragWeight (d : QueryDoc) (v : List Name) : Nat :=
  ((d.frags.filter fun f => !v.contains f.name).map evFragBody).sum

theorem filter_sum_le {α : Type} (g : α → Nat) (p q : α → Bool) (h : ∀ x, q x = true → p x = true) (x0 : α)
    (hp0 : p x0 = true) (hq0 : q x0 = false) :
    ∀ l : List α, x0 ∈ l → ((l.filter q).map g).sum + g x0 ≤ ((l.filter p).map g).sum
  | [], hm => by cases hm
  | x :: xs, hm => by
    have hle : ∀ l : List α, ((l.filter q).map g).sum ≤ ((l.filter p).map g).sum := by
      intro l
      induction l with
      | nil => exact Nat.le_refl _
      | cons y ys ih =>
        simp only [List.filter_cons]
        by_cases hq : q y = true
        · simp [hq, h y hq]; exact ih
        · by_cases hp : p y = true
          · simp [hq, hp]; omega
          · simp [hq, hp]; exact ih
    simp only [List.filter_cons]
    rcases List.mem_cons.1 hm with rfl | hm'
    · have := hle xs
      simp [hp0, hq0]; omega
    · have ih := filter_sum_le g p q h x0 hp0 hq0 xs hm'
      by_cases hq : q x = true
      · simp [hq, h x hq]; omega
      · by_cases hp : p x = true
        · simp [hq, hp]; omega
        · simp [hq, hp]; exact ih

theorem fragWeight_jump (d : QueryDoc) (v : List Name) (f : FragmentDef) (hf : f ∈ d.frags)
    (hn : v.contains f.name = false) : fragWeight d (f.name :: v) + evFragBody f ≤ fragWeight d v := by
  unfold fragWeight
  apply filter_sum_le evFragBody _ _ _ f _ _ _ hf
  · intro x hx
    simp only [Bool.not_eq_true', List.contains_eq_mem, decide_eq_false_iff_not, List.mem_cons, not_or] at *
    exact hx.2
  · simpa using hn
  · simp

/-- a jump whose events are paid for by the decrease of the fragment weight -/
def JumpBound (d : QueryDoc) (J : Jump) : Prop :=
  ∀ parent sels (ws : WS) r, J parent sels ws = some r →
    r.2.length + fragWeight d r.1.visited ≤ evSels sels + fragWeight d ws.visited

mutual
  theorem walkSelection_bound (s : SV) (d : QueryDoc) (cur : Option OperationDef) (J : Jump) (hJ : JumpBound d J) :
      ∀ (x : Selection) (parent : Option Definition) (ws : WS) r, walkSelection s d cur J parent x ws = some r →
        r.2.length + fragWeight d r.1.visited ≤ evSel x + fragWeight d ws.visited
    | .field al nm args dirs sub p, parent, ws, r, h => by
      unfold walkSelection at h
      simp only at h
      split at h
      · cases h
      · rename_i r3 h3
        injection h with h
        subst h
        have hb := walkSelections_bound s d cur J hJ sub _ _ r3 h3
        simp only [walkDirectives_visited, walkArgs_visited, markSel_visited] at hb
        simp only [List.length_append, List.length_cons, List.length_nil, walkArgs_len, walkDirectives_len, evSel]
        omega
    | .inline tc dirs sub p, parent, ws, r, h => by
      unfold walkSelection at h
      simp only at h
      split at h
      · cases h
      · rename_i r3 h3
        injection h with h
        subst h
        have hb := walkSelections_bound s d cur J hJ sub _ _ r3 h3
        simp only [walkDirectives_visited, markSel_visited] at hb
        simp only [List.length_append, List.length_cons, List.length_nil, walkDirectives_len, evSel]
        omega
    | .spread nm dirs p, parent, ws, r, h => by
      unfold walkSelection at h
      simp only at h
      cases hf : fragForName d nm with
      | none =>
        rw [hf] at h
        simp only at h
        injection h with h
        subst h
        simp only [List.length_append, List.length_cons, List.length_nil, walkDirectives_len, walkDirectives_visited,
          markSel_visited, evSel]
        omega
      | some f =>
        rw [hf] at h
        simp only at h
        split at h
        · injection h with h
          subst h
          simp only [List.length_append, List.length_cons, List.length_nil, walkDirectives_len, walkDirectives_visited,
            markSel_visited, evSel]
          omega
        · rename_i hc
          simp only [walkDirectives_visited, markSel_visited] at hc
          have hc' : ws.visited.contains f.name = false := by simpa using hc
          have hw := fragWeight_jump d ws.visited f (fragForName_mem hf) hc'
          split at h
          · cases h
          · rename_i r3 h3
            injection h with h
            subst h
            have hb := hJ _ _ _ r3 h3
            simp only [walkDirectives_visited, markSel_visited] at hb
            simp only [List.length_append, List.length_cons, List.length_nil, walkDirectives_len, evSel]
            simp only [evFragBody] at hw
            omega
  theorem walkSelections_bound (s : SV) (d : QueryDoc) (cur : Option OperationDef) (J : Jump) (hJ : JumpBound d J) :
      ∀ (xs : Selections) (parent : Option Definition) (ws : WS) r, walkSelections s d cur J parent xs ws = some r →
        r.2.length + fragWeight d r.1.visited ≤ evSels xs + fragWeight d ws.visited
    | .nil, parent, ws, r, h => by
      simp only [walkSelections] at h
      injection h with h
      subst h
      simp [evSels]
    | .cons x rest, parent, ws, r, h => by
      unfold walkSelections at h
      split at h
      · cases h
      · rename_i r1 h1
        split at h
        · cases h
        · rename_i r2 h2
          injection h with h
          subst h
          have b1 := walkSelection_bound s d cur J hJ x parent ws r1 h1
          have b2 := walkSelections_bound s d cur J hJ rest parent r1.1 r2 h2
          simp only [List.length_append, evSels]
          omega
end

theorem walkLevel_jumpBound (s : SV) (d : QueryDoc) (cur : Option OperationDef) : ∀ n, JumpBound d (walkLevel s d cur n)
  | 0 => by intro _ _ _ _ h; simp [walkLevel] at h
  | n + 1 => by
    intro parent sels ws r h
    simp only [walkLevel] at h
    exact walkSelections_bound s d cur _ (walkLevel_jumpBound s d cur n) sels parent ws r h


/- ---------- whole operations, fragments, documents ---------- -/

def evVarDefsB : List VarDef → Nat
  | [] => 0
  | v :: rest => (match v.default with | some dv => evValue dv | none => 0) + evDirs v.dirs + evVarDefsB rest

/-- own events of an operation: `variable` per definition, defaults and directives of the
    definitions, the operation's directives, its selection set, the `operation` event -/
def evOp (op : OperationDef) : Nat := op.vars.length + evVarDefsB op.vars + evDirs op.dirs + evSels op.sel + 1

def evFrag (f : FragmentDef) : Nat := evDirs f.dirs + evSels f.sel + 1

/-- own events of a document = what one walk over every node once fires (a syntactic size) -/
def docEvents (d : QueryDoc) : Nat := (d.ops.map evOp).sum + (d.frags.map evFrag).sum

/-- own events of all fragment bodies (per fragment: the directives of the definition, which every
    walk that jumps into the fragment walks again, and its selection set) -/
def fragEvents (d : QueryDoc) : Nat := (d.frags.map evFragBody).sum

theorem fragWeight_nil (d : QueryDoc) : fragWeight d [] = fragEvents d := by
  simp only [fragWeight, fragEvents]
  congr 2
  apply List.filter_eq_self.2
  intro a _
  simp

theorem fragEvents_le_docEvents (d : QueryDoc) : fragEvents d ≤ docEvents d := by
  have : ∀ fs : List FragmentDef, (fs.map evFragBody).sum ≤ (fs.map evFrag).sum := by
    intro fs
    induction fs with
    | nil => exact Nat.le_refl _
    | cons f rest ih => simp only [List.map_cons, List.sum_cons, evFrag, evFragBody]; omega
  have := this d.frags
  simp only [fragEvents, docEvents]
  omega

theorem walkVarDefsA_len (s : SV) (cur : Option OperationDef) (ws : WS) :
    ∀ vs : List VarDef, (walkVarDefsA s cur ws vs).length = vs.length
  | [] => rfl
  | v :: rest => by simp [walkVarDefsA, walkVarDefsA_len s cur ws rest]

theorem walkVarDefsB_len (s : SV) (cur : Option OperationDef) :
    ∀ (vs : List VarDef) (ws : WS), (walkVarDefsB s cur vs ws).2.length = evVarDefsB vs
  | [], ws => rfl
  | v :: rest, ws => by
    simp only [walkVarDefsB, List.length_append, evVarDefsB]
    rw [walkVarDefsB_len s cur rest, walkDirectives_len]
    cases v.default with
    | none => simp
    | some dv => simp [walkValue_len]

theorem walkVarDefsB_visited (s : SV) (cur : Option OperationDef) :
    ∀ (vs : List VarDef) (ws : WS), (walkVarDefsB s cur vs ws).1.visited = ws.visited
  | [], ws => rfl
  | v :: rest, ws => by
    simp only [walkVarDefsB]
    rw [walkVarDefsB_visited s cur rest, walkDirectives_visited]
    cases v.default with
    | none => rfl
    | some dv => exact walkValue_visited ..

theorem walkOperation_bound (s : SV) (d : QueryDoc) (fuel : Nat) (op : OperationDef) (l : Links) (r : Links × List Event)
    (h : walkOperation s d fuel op l = some r) : r.2.length ≤ evOp op + fragEvents d := by
  unfold walkOperation at h
  simp only at h
  split at h
  · cases h
  · rename_i r4 h4
    injection h with h
    subst h
    have hb := walkLevel_jumpBound s d (some op) fuel _ _ _ r4 h4
    simp only [walkDirectives_visited, walkVarDefsB_visited, fragWeight_nil] at hb
    simp only [List.length_append, List.length_cons, List.length_nil, walkVarDefsA_len, walkVarDefsB_len,
      walkDirectives_len, evOp]
    omega

theorem walkFragment_bound (s : SV) (d : QueryDoc) (fuel : Nat) (f : FragmentDef) (l : Links) (r : Links × List Event)
    (h : walkFragment s d fuel f l = some r) : r.2.length ≤ evFrag f + fragEvents d := by
  unfold walkFragment at h
  simp only at h
  split at h
  · cases h
  · rename_i r2 h2
    injection h with h
    subst h
    have hb := walkLevel_jumpBound s d none fuel _ _ _ r2 h2
    simp only [walkDirectives_visited, fragWeight_nil] at hb
    simp only [List.length_append, List.length_cons, List.length_nil, walkDirectives_len, evFrag]
    omega

theorem walkOps_bound (s : SV) (d : QueryDoc) (fuel : Nat) :
    ∀ (ops : List OperationDef) (l : Links) (r : Links × List Event), walkOps s d fuel ops l = some r →
      r.2.length ≤ (ops.map evOp).sum + ops.length * fragEvents d
  | [], l, r, h => by
    simp only [walkOps] at h
    injection h with h
    subst h
    simp
  | op :: rest, l, r, h => by
    simp only [walkOps] at h
    split at h
    · cases h
    · rename_i r1 h1
      split at h
      · cases h
      · rename_i r2 h2
        injection h with h
        subst h
        have b1 := walkOperation_bound s d fuel op l r1 h1
        have b2 := walkOps_bound s d fuel rest r1.1 r2 h2
        simp only [List.length_append, List.map_cons, List.sum_cons, List.length_cons, Nat.add_mul, Nat.one_mul]
        omega

theorem walkFrags_bound (s : SV) (d : QueryDoc) (fuel : Nat) :
    ∀ (fs : List FragmentDef) (l : Links) (r : Links × List Event), walkFrags s d fuel fs l = some r →
      r.2.length ≤ (fs.map evFrag).sum + fs.length * fragEvents d
  | [], l, r, h => by
    simp only [walkFrags] at h
    injection h with h
    subst h
    simp
  | f :: rest, l, r, h => by
    simp only [walkFrags] at h
    split at h
    · cases h
    · rename_i r1 h1
      split at h
      · cases h
      · rename_i r2 h2
        injection h with h
        subst h
        have b1 := walkFragment_bound s d fuel f l r1 h1
        have b2 := walkFrags_bound s d fuel rest r1.1 r2 h2
        simp only [List.length_append, List.map_cons, List.sum_cons, List.length_cons, Nat.add_mul, Nat.one_mul]
        omega

theorem walkDoc_bound (s : SV) (d : QueryDoc) (evs : List Event) (h : walkDoc s d = some evs) :
    evs.length ≤ docEvents d + (d.ops.length + d.frags.length) * fragEvents d := by
  unfold walkDoc at h
  split at h
  · cases h
  · rename_i r1 h1
    split at h
    · cases h
    · rename_i r2 h2
      injection h with h
      subst h
      have b1 := walkOps_bound s d _ d.ops _ r1 h1
      have b2 := walkFrags_bound s d _ d.frags _ r2 h2
      simp only [List.length_append, docEvents, Nat.add_mul]
      omega

end Gql.Validate
