import GqlModel.Gen.Facts
/-
  Hand-written expectation tables for the site lists that the extractor regenerates from /repo on
  every run (GqlModel/Gen/Facts.lean).  Every site is classified; a source change that adds a map
  iteration, a call into package sort, an explicit panic or a reflect call produces a site that is
  not in these tables and the `…_accounted` lemmas in the Props files stop building.
  Keys are (file, function:detail) — no line numbers, so harmless edits elsewhere do not disturb them.
-/
namespace Gql.Gen

/-- how a `range` over a map (or reflect MapKeys) is accounted for -/
inductive MapRangeClass
  | sliceNameClash      -- the extractor works without type information: the ranged expression is a SLICE whose
                        -- field name (Types, Directives, Extensions) is also the name of a map-typed field elsewhere
  | keysThenSorted      -- keys are collected and then sorted (sort.Strings): order irrelevant
  | disjointWrites      -- each key writes a different field of the result (JSON decoders): order irrelevant
  | firstErrorOnly      -- order decides only WHICH of several offending keys is named in an error (vars.go unknown
                        -- field): verdict and value are order independent (C14 compares accordingly)
  deriving DecidableEq, Repr

def accountedMapRanges : List ((String × String) × MapRangeClass) :=
  [ (("parser/schema.go", "ParseSchema:Extensions"), .sliceNameClash),
    (("parser/schema.go", "ParseSchemaWithLimit:Extensions"), .sliceNameClash),
    (("ast/decode.go", "UnmarshalSelectionSet:tmp"), .sliceNameClash),
    (("ast/decode.go", "FragmentDefinition.UnmarshalJSON:tmp"), .disjointWrites),
    (("ast/decode.go", "InlineFragment.UnmarshalJSON:tmp"), .disjointWrites),
    (("ast/decode.go", "OperationDefinition.UnmarshalJSON:tmp"), .disjointWrites),
    (("ast/decode.go", "Field.UnmarshalJSON:tmp"), .disjointWrites),
    (("validator/schema.go", "ValidateSchemaDocument:Extensions"), .sliceNameClash),
    (("validator/schema.go", "ValidateSchemaDocument:Types"), .sliceNameClash),
    (("validator/schema.go", "ValidateSchemaDocument:Directives"), .sliceNameClash),
    (("validator/schema.go", "validateTypeDefinitions:Types"), .keysThenSorted),
    (("validator/schema.go", "validateDirectiveDefinitions:Directives"), .keysThenSorted),
    (("validator/schema.go", "validateDefinition:Types"), .sliceNameClash),
    (("validator/vars.go", "varValidator.validateVarType:reflect.MapKeys"), .firstErrorOnly),
    (("validator/rules/known_type_names.go", "ruleFuncKnownTypeNames:Types"), .keysThenSorted),
    (("validator/rules/values_of_correct_type.go", "ruleFuncValuesOfCorrectType:Directives"), .sliceNameClash),
    (("formatter/formatter.go", "formatter.FormatSchema:Directives"), .keysThenSorted),
    (("formatter/formatter.go", "formatter.FormatSchema:Types"), .keysThenSorted) ]

/-- calls into package sort: only deterministic ones are allowed (Strings, SliceStable, Stable) -/
def stableSortFuncs : List String := ["Strings", "SliceStable", "Stable", "Ints", "SearchStrings"]

/-- explicit panic( sites and why each is not a way for input to crash the library -/
inductive PanicClass
  | conversionOfParsedLiteral   -- arg2map: Value.Value fails only on malformed literals, which the lexer cannot produce (C15_total)
  | unknownEnumKind             -- switch default over a closed Go enumeration (value kind, selection type, path element)
  | mustHelper                  -- gqlparser.MustLoadSchema / MustLoadQuery: documented to panic, outside every property
  | missingDefinition           -- vars.go: "missing def for %s" — unreachable on a closed schema (C07_loaded_closed) after validation
  | unknownOperationKind        -- known_root_type.go: operation kind other than query/mutation/subscription, never produced by the parser
  deriving DecidableEq, Repr

def accountedPanics : List ((String × String) × PanicClass) :=
  [ (("ast/argmap.go", "arg2map"), .conversionOfParsedLiteral),
    (("ast/path.go", "Path.String"), .unknownEnumKind),
    (("ast/value.go", "Value.Value"), .unknownEnumKind),
    (("ast/value.go", "Value.String"), .unknownEnumKind),
    (("validator/vars.go", "varValidator.validateVarType"), .missingDefinition),
    (("validator/walk.go", "Walker.walkSelection"), .unknownEnumKind),
    (("validator/rules/known_root_type.go", "<package>"), .unknownOperationKind),
    (("validator/rules/values_of_correct_type.go", "ruleFuncValuesOfCorrectType"), .unknownEnumKind),
    (("formatter/formatter.go", "formatter.FormatSelection"), .unknownEnumKind),
    (("gqlparser.go", "MustLoadSchema"), .mustHelper),
    (("gqlparser.go", "MustLoadQuery"), .mustHelper) ]

/-- files that may call into package reflect (modelled crash-explicitly in GqlModel/Vars, and the
    DeepEqual of the overlapping-fields rule, modelled as node identity) -/
def reflectFiles : List String :=
  ["validator/vars.go", "validator/rules/overlapping_fields_can_be_merged.go"]

end Gql.Gen
