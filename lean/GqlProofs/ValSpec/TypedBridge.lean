import GqlProofs.ValSpec.Typed
/-
  `walk_parent_type`, second half: for a well-parented document (`Spec.wellParented`) the walker's
  typing is the declarative typing of the specification, so every selection event carries the
  parent type (and field definition) that `Spec.docSels` assigns to its node, and every node of
  `Spec.docSels` has such an event.
-/
namespace Gql.Validate
open Gql

theorem typenameDef_eq : typenameDef = Spec.typenameField := rfl

theorem wInline_eq (s : Schema) (p : Option Definition) (tc : Name) :
    wInline s.view p tc = Spec.inlineType s p tc := by
  unfold wInline Spec.inlineType
  by_cases h : tc = []
  · simp [h]
  · simp [h]
    rfl

/-- on a well-parented field node the walker's field lookup is the specification's -/
theorem wFieldDef_eq (p : Option Definition) (al nm : Name) (args : List Argument) (dirs : List Directive)
    (sub : Selections) (pos : Pos)
    (h : Spec.nodeWellParented ⟨p, .field al nm args dirs sub pos⟩ = true) :
    wFieldDef p nm = p.bind (Spec.fieldDefOn · nm) := by
  unfold Spec.nodeWellParented at h
  unfold wFieldDef
  cases p with
  | none =>
    simp only at h
    have : (nm == nameTypename) = false := by
      simp only [bne_iff_ne, ne_eq] at h
      have h' : ¬ nm = nameTypename := h
      simpa using h'
    simp [this]
  | some q =>
    simp only [Bool.and_eq_true, Bool.or_eq_true, bne_iff_ne, ne_eq, List.isEmpty_iff] at h
    obtain ⟨hc, hu⟩ := h
    simp only [Option.bind_some, Spec.fieldDefOn]
    by_cases ht : (nm == nameTypename) = true
    · have ht' : (nm == Spec.nameTypename) = true := ht
      simp only [ht, ht', if_true, hc]
      rfl
    · have ht' : ¬ (nm == Spec.nameTypename) = true := ht
      simp only [ht, ht', if_false, Bool.false_eq_true]
      by_cases hoi : (q.kind == .object || q.kind == .interface) = true
      · simp only [hoi, if_true]
        rfl
      · simp only [hoi, if_false, Bool.false_eq_true]
        have hunion : q.kind = .union := by
          unfold Spec.isComposite at hc
          simp only [Bool.or_eq_true, beq_iff_eq] at hc hoi
          rcases hc with (h1 | h1) | h1
          · exact absurd (Or.inl h1) hoi
          · exact absurd (Or.inr h1) hoi
          · exact h1
        have hf : q.fields = [] := by
          rcases hu with hu | hu
          · exact absurd hunion hu
          · exact hu
        simp [fieldForName, hf]

theorem wNext_eq (s : Schema) (p : Option Definition) (al nm : Name) (args : List Argument) (dirs : List Directive)
    (sub : Selections) (pos : Pos)
    (h : Spec.nodeWellParented ⟨p, .field al nm args dirs sub pos⟩ = true) :
    wNext s.view p nm = Spec.fieldType s p nm := by
  unfold wNext Spec.fieldType
  rw [wFieldDef_eq p al nm args dirs sub pos h]
  rfl

mutual
  theorem inSelW_iff (s : Schema) :
      ∀ (x : Selection) (p : Option Definition), (∀ t ∈ Spec.typedSel s p x, Spec.nodeWellParented t = true) →
        ∀ p' y, InSelW s.view p x p' y ↔ (⟨p', y⟩ : Spec.TSel) ∈ Spec.typedSel s p x
    | .field al nm args dirs sub pos, p, hwp, p', y => by
      have hhead := hwp ⟨p, .field al nm args dirs sub pos⟩ (typedSel_head s p _)
      have hnext := wNext_eq s p al nm args dirs sub pos hhead
      have ih := inSelsW_iff s sub (Spec.fieldType s p nm)
        (fun t ht => hwp t (by simp only [Spec.typedSel, List.mem_cons]; exact Or.inr ht)) p' y
      simp only [Spec.typedSel, List.mem_cons]
      constructor
      · intro h
        cases h with
        | self => exact Or.inl rfl
        | fieldSub _ _ _ _ _ _ _ _ _ hs =>
          rw [hnext] at hs
          exact Or.inr (ih.1 hs)
      · rintro (h | h)
        · injection h with h1 h2
          subst h1 h2
          exact InSelW.self _ _
        · refine InSelW.fieldSub _ _ _ _ _ _ _ _ _ ?_
          rw [hnext]
          exact ih.2 h
    | .spread nm dirs pos, p, hwp, p', y => by
      simp only [Spec.typedSel, List.mem_singleton]
      constructor
      · intro h
        cases h with
        | self => rfl
      · intro h
        injection h with h1 h2
        subst h1 h2
        exact InSelW.self _ _
    | .inline tc dirs sub pos, p, hwp, p', y => by
      have hnext := wInline_eq s p tc
      have ih := inSelsW_iff s sub (Spec.inlineType s p tc)
        (fun t ht => hwp t (by simp only [Spec.typedSel, List.mem_cons]; exact Or.inr ht)) p' y
      simp only [Spec.typedSel, List.mem_cons]
      constructor
      · intro h
        cases h with
        | self => exact Or.inl rfl
        | inlineSub _ _ _ _ _ _ _ hs =>
          rw [hnext] at hs
          exact Or.inr (ih.1 hs)
      · rintro (h | h)
        · injection h with h1 h2
          subst h1 h2
          exact InSelW.self _ _
        · refine InSelW.inlineSub _ _ _ _ _ _ _ ?_
          rw [hnext]
          exact ih.2 h
  theorem inSelsW_iff (s : Schema) :
      ∀ (xs : Selections) (p : Option Definition), (∀ t ∈ Spec.typedSels s p xs, Spec.nodeWellParented t = true) →
        ∀ p' y, InSelsW s.view p xs p' y ↔ (⟨p', y⟩ : Spec.TSel) ∈ Spec.typedSels s p xs
    | .nil, p, _, p', y => by
      simp only [Spec.typedSels, List.not_mem_nil, iff_false]
      intro h
      cases h
    | .cons x rest, p, hwp, p', y => by
      have ih1 := inSelW_iff s x p
        (fun t ht => hwp t (by simp only [Spec.typedSels, List.mem_append]; exact Or.inl ht)) p' y
      have ih2 := inSelsW_iff s rest p
        (fun t ht => hwp t (by simp only [Spec.typedSels, List.mem_append]; exact Or.inr ht)) p' y
      simp only [Spec.typedSels, List.mem_append]
      constructor
      · intro h
        cases h with
        | head _ _ _ _ _ hx => exact Or.inl (ih1.1 hx)
        | tail _ _ _ _ _ hx => exact Or.inr (ih2.1 hx)
      · rintro (h | h)
        · exact InSelsW.head _ _ _ _ _ (ih1.2 h)
        · exact InSelsW.tail _ _ _ _ _ (ih2.2 h)
end

theorem opRoot_def (s : Schema) (op : Operation) : (opRoot s.view op).1 = Spec.rootDef s op := by
  unfold opRoot Spec.rootDef Spec.rootName
  by_cases h1 : (op == opQuery || op == []) = true
  · have h1' : (op == Spec.kwQuery || op == []) = true := h1
    simp only [h1, h1', if_true]
    rfl
  · have h1' : ¬ (op == Spec.kwQuery || op == []) = true := h1
    simp only [h1, h1', if_false, Bool.false_eq_true]
    by_cases h2 : (op == opMutation) = true
    · have h2' : (op == Spec.kwMutation) = true := h2
      simp only [h2, h2', if_true]
      rfl
    · have h2' : ¬ (op == Spec.kwMutation) = true := h2
      simp only [h2, h2', if_false, Bool.false_eq_true]
      by_cases h3 : (op == opSubscription) = true
      · have h3' : (op == Spec.kwSubscription) = true := h3
        simp only [h3, h3', if_true]
        rfl
      · have h3' : ¬ (op == Spec.kwSubscription) = true := h3
        simp only [h3, h3', if_false, Bool.false_eq_true]
        rfl

/-- under `wellParented`, occurrence under the walker's typing is membership in `Spec.docSels` -/
theorem inDocW_iff (s : Schema) (d : QueryDoc) (hwp : Spec.wellParented s d = true) (p' : Option Definition)
    (y : Selection) : InDocW s.view d p' y ↔ (⟨p', y⟩ : Spec.TSel) ∈ Spec.docSels s d := by
  unfold Spec.wellParented at hwp
  simp only [List.all_eq_true] at hwp
  unfold InDocW Spec.docSels
  simp only [List.mem_append, List.mem_flatMap]
  have hop : ∀ op ∈ d.ops, ∀ t ∈ Spec.typedSels s (Spec.rootDef s op.op) op.sel, Spec.nodeWellParented t = true :=
    fun op hop t ht => hwp t (by
      simp only [Spec.docSels, List.mem_append, List.mem_flatMap]
      exact Or.inl ⟨op, hop, ht⟩)
  have hfr : ∀ f ∈ d.frags, ∀ t ∈ Spec.typedSels s (s.type? f.typeCond) f.sel, Spec.nodeWellParented t = true :=
    fun f hf t ht => hwp t (by
      simp only [Spec.docSels, List.mem_append, List.mem_flatMap]
      exact Or.inr ⟨f, hf, ht⟩)
  constructor
  · rintro (⟨op, hop', h⟩ | ⟨f, hf, h⟩)
    · rw [opRoot_def] at h
      exact Or.inl ⟨op, hop', (inSelsW_iff s op.sel _ (hop op hop') p' y).1 h⟩
    · exact Or.inr ⟨f, hf, (inSelsW_iff s f.sel _ (hfr f hf) p' y).1 h⟩
  · rintro (⟨op, hop', h⟩ | ⟨f, hf, h⟩)
    · refine Or.inl ⟨op, hop', ?_⟩
      rw [opRoot_def]
      exact (inSelsW_iff s op.sel _ (hop op hop') p' y).2 h
    · exact Or.inr ⟨f, hf, (inSelsW_iff s f.sel _ (hfr f hf) p' y).2 h⟩

section
variable (s : Schema) (d : QueryDoc) (evs : List Event) (hw : walkDoc s.view d = some evs)
  (hwp : Spec.wellParented s d = true)
include hw hwp

/-- `walk_parent_type` for fields: the event of a field node carries the declarative parent type
    of that node and the definition of the field on it -/
theorem walk_parent_type (e : Event) (he : e ∈ evs) (f : FieldNode) (par : Option Definition) (dfn : Option FieldDef)
    (hp : e.p = .field f par dfn) :
    (⟨par, .field f.alias f.name f.args f.dirs f.sel f.pos⟩ : Spec.TSel) ∈ Spec.docSels s d ∧
      dfn = par.bind (Spec.fieldDefOn · f.name) := by
  have := walkDoc_w s.view d evs hw e he
  rw [hp] at this
  obtain ⟨h1, h2⟩ := this
  have hmem := (inDocW_iff s d hwp _ _).1 h1
  refine ⟨hmem, ?_⟩
  rw [h2]
  unfold Spec.wellParented at hwp
  simp only [List.all_eq_true] at hwp
  exact wFieldDef_eq par f.alias f.name f.args f.dirs f.sel f.pos (hwp _ hmem)

/-- … and every field node of `Spec.docSels` has that event -/
theorem walk_parent_type_complete (t : Spec.TSel) (ht : t ∈ Spec.docSels s d) (al nm : Name) (args : List Argument)
    (dirs : List Directive) (sub : Selections) (p : Pos) (hs : t.sel = .field al nm args dirs sub p) :
    ∃ e ∈ evs, e.p = .field ⟨al, nm, args, dirs, sub, p⟩ t.parent (t.parent.bind (Spec.fieldDefOn · nm)) := by
  have ht' : (⟨t.parent, .field al nm args dirs sub p⟩ : Spec.TSel) ∈ Spec.docSels s d := by
    rw [← hs]
    exact ht
  have h1 := (inDocW_iff s d hwp t.parent _).2 ht'
  obtain ⟨e, he, hp⟩ := walkDoc_hasW s.view d evs hw _ _ h1
  refine ⟨e, he, ?_⟩
  rw [hp]
  unfold Spec.wellParented at hwp
  simp only [List.all_eq_true] at hwp
  rw [wFieldDef_eq t.parent al nm args dirs sub p (hwp _ ht')]

end

end Gql.Validate
