import GqlProofs.ValSpec.Complete
import GqlProofs.Validate.OpEvents
import GqlModel.Validate.Spec.Valid
/-
  Bridge between the syntactic occurrence predicates (`InSel`, `InDoc`) and the lists the
  specification quantifies over (`Spec.docSels`, `Spec.directiveSites`).
-/
namespace Gql.Validate
open Gql

theorem typedSel_head (s : Schema) (p : Option Definition) (x : Selection) :
    (⟨p, x⟩ : Spec.TSel) ∈ Spec.typedSel s p x := by
  cases x <;> simp [Spec.typedSel]

mutual
  theorem typedSel_mem_inSel (s : Schema) :
      ∀ (x : Selection) (p : Option Definition) (t : Spec.TSel), t ∈ Spec.typedSel s p x → InSel x (.sel t.sel)
    | .field al nm args dirs sub pos, p, t, h => by
      simp only [Spec.typedSel, List.mem_cons] at h
      rcases h with rfl | h
      · exact InSel.self _
      · exact InSel.fieldSub _ _ _ _ _ _ _ (typedSels_mem_inSels s sub _ t h)
    | .spread nm dirs pos, p, t, h => by
      simp only [Spec.typedSel, List.mem_singleton] at h
      subst h
      exact InSel.self _
    | .inline tc dirs sub pos, p, t, h => by
      simp only [Spec.typedSel, List.mem_cons] at h
      rcases h with rfl | h
      · exact InSel.self _
      · exact InSel.inlineSub _ _ _ _ _ (typedSels_mem_inSels s sub _ t h)
  theorem typedSels_mem_inSels (s : Schema) :
      ∀ (xs : Selections) (p : Option Definition) (t : Spec.TSel), t ∈ Spec.typedSels s p xs → InSels xs (.sel t.sel)
    | .nil, p, t, h => by simp [Spec.typedSels] at h
    | .cons x rest, p, t, h => by
      simp only [Spec.typedSels, List.mem_append] at h
      rcases h with h | h
      · exact InSels.head _ _ _ (typedSel_mem_inSel s x p t h)
      · exact InSels.tail _ _ _ (typedSels_mem_inSels s rest p t h)
end

mutual
  theorem inSel_mem_typedSel (s : Schema) :
      ∀ (x : Selection) (p : Option Definition) (y : Selection), InSel x (.sel y) →
        ∃ p', (⟨p', y⟩ : Spec.TSel) ∈ Spec.typedSel s p x
    | .field al nm args dirs sub pos, p, y, h => by
      cases h with
      | self => exact ⟨p, typedSel_head s p _⟩
      | fieldSub _ _ _ _ _ _ _ hs =>
        obtain ⟨p', hp⟩ := inSels_mem_typedSels s sub (Spec.fieldType s p nm) y hs
        exact ⟨p', by simp only [Spec.typedSel, List.mem_cons]; exact Or.inr hp⟩
    | .spread nm dirs pos, p, y, h => by
      cases h with
      | self => exact ⟨p, typedSel_head s p _⟩
    | .inline tc dirs sub pos, p, y, h => by
      cases h with
      | self => exact ⟨p, typedSel_head s p _⟩
      | inlineSub _ _ _ _ _ hs =>
        obtain ⟨p', hp⟩ := inSels_mem_typedSels s sub (Spec.inlineType s p tc) y hs
        exact ⟨p', by simp only [Spec.typedSel, List.mem_cons]; exact Or.inr hp⟩
  theorem inSels_mem_typedSels (s : Schema) :
      ∀ (xs : Selections) (p : Option Definition) (y : Selection), InSels xs (.sel y) →
        ∃ p', (⟨p', y⟩ : Spec.TSel) ∈ Spec.typedSels s p xs
    | .nil, p, y, h => by cases h
    | .cons x rest, p, y, h => by
      cases h with
      | head _ _ _ hx =>
        obtain ⟨p', hp⟩ := inSel_mem_typedSel s x p y hx
        exact ⟨p', by simp only [Spec.typedSels, List.mem_append]; exact Or.inl hp⟩
      | tail _ _ _ hx =>
        obtain ⟨p', hp⟩ := inSels_mem_typedSels s rest p y hx
        exact ⟨p', by simp only [Spec.typedSels, List.mem_append]; exact Or.inr hp⟩
end

/-- the directive list of a node that occurs below `x` occurs below `x` -/
theorem inSel_self_dirs : ∀ (y : Selection), InSel y (.dirs (Spec.selLoc y) (Spec.selDirs y))
  | .field al nm args dirs sub p => InSel.fieldDirs al nm args dirs sub p
  | .spread nm dirs p => InSel.spreadDirs nm dirs p
  | .inline tc dirs sub p => InSel.inlineDirs tc dirs sub p

mutual
  theorem inSel_dirs_of_sel :
      ∀ (x y : Selection), InSel x (.sel y) → InSel x (.dirs (Spec.selLoc y) (Spec.selDirs y))
    | .field al nm args dirs sub pos, y, h => by
      cases h with
      | self => exact inSel_self_dirs _
      | fieldSub _ _ _ _ _ _ _ hs => exact InSel.fieldSub _ _ _ _ _ _ _ (inSels_dirs_of_sel sub y hs)
    | .spread nm dirs pos, y, h => by
      cases h with
      | self => exact inSel_self_dirs _
    | .inline tc dirs sub pos, y, h => by
      cases h with
      | self => exact inSel_self_dirs _
      | inlineSub _ _ _ _ _ hs => exact InSel.inlineSub _ _ _ _ _ (inSels_dirs_of_sel sub y hs)
  theorem inSels_dirs_of_sel :
      ∀ (xs : Selections) (y : Selection), InSels xs (.sel y) → InSels xs (.dirs (Spec.selLoc y) (Spec.selDirs y))
    | .nil, y, h => by cases h
    | .cons x rest, y, h => by
      cases h with
      | head _ _ _ hx => exact InSels.head _ _ _ (inSel_dirs_of_sel x y hx)
      | tail _ _ _ hx => exact InSels.tail _ _ _ (inSels_dirs_of_sel rest y hx)
end

mutual
  theorem inSel_dirs_inv :
      ∀ (x : Selection) (loc : Bytes) (ds : List Directive), InSel x (.dirs loc ds) →
        ∃ y, InSel x (.sel y) ∧ loc = Spec.selLoc y ∧ ds = Spec.selDirs y
    | .field al nm args dirs sub pos, loc, ds, h => by
      cases h with
      | fieldDirs => exact ⟨_, InSel.self _, rfl, rfl⟩
      | fieldSub _ _ _ _ _ _ _ hs =>
        obtain ⟨y, hy, a, b⟩ := inSels_dirs_inv sub loc ds hs
        exact ⟨y, InSel.fieldSub _ _ _ _ _ _ _ hy, a, b⟩
    | .spread nm dirs pos, loc, ds, h => by
      cases h with
      | spreadDirs => exact ⟨_, InSel.self _, rfl, rfl⟩
    | .inline tc dirs sub pos, loc, ds, h => by
      cases h with
      | inlineDirs => exact ⟨_, InSel.self _, rfl, rfl⟩
      | inlineSub _ _ _ _ _ hs =>
        obtain ⟨y, hy, a, b⟩ := inSels_dirs_inv sub loc ds hs
        exact ⟨y, InSel.inlineSub _ _ _ _ _ hy, a, b⟩
  theorem inSels_dirs_inv :
      ∀ (xs : Selections) (loc : Bytes) (ds : List Directive), InSels xs (.dirs loc ds) →
        ∃ y, InSels xs (.sel y) ∧ loc = Spec.selLoc y ∧ ds = Spec.selDirs y
    | .nil, loc, ds, h => by cases h
    | .cons x rest, loc, ds, h => by
      cases h with
      | head _ _ _ hx =>
        obtain ⟨y, hy, a, b⟩ := inSel_dirs_inv x loc ds hx
        exact ⟨y, InSels.head _ _ _ hy, a, b⟩
      | tail _ _ _ hx =>
        obtain ⟨y, hy, a, b⟩ := inSels_dirs_inv rest loc ds hx
        exact ⟨y, InSels.tail _ _ _ hy, a, b⟩
end

/-- a selection node occurs in some operation or fragment definition -/
def InDocSel (d : QueryDoc) (i : Item) : Prop :=
  (∃ op ∈ d.ops, InSels op.sel i) ∨ (∃ f ∈ d.frags, InSels f.sel i)

theorem inDoc_sel_iff (sv : SV) (d : QueryDoc) (y : Selection) : InDoc sv d (.sel y) ↔ InDocSel d (.sel y) := by
  unfold InDoc InDocSel
  constructor
  · rintro (⟨op, hop, h | h | ⟨v, _, h⟩⟩ | ⟨f, hf, h | h⟩)
    · exact Or.inl ⟨op, hop, h⟩
    · cases h
    · cases h
    · exact Or.inr ⟨f, hf, h⟩
    · cases h
  · rintro (⟨op, hop, h⟩ | ⟨f, hf, h⟩)
    · exact Or.inl ⟨op, hop, Or.inl h⟩
    · exact Or.inr ⟨f, hf, Or.inl h⟩

/-- membership in `Spec.docSels` is occurrence in the document -/
theorem docSels_iff (s : Schema) (d : QueryDoc) (y : Selection) :
    (∃ p, (⟨p, y⟩ : Spec.TSel) ∈ Spec.docSels s d) ↔ InDocSel d (.sel y) := by
  unfold Spec.docSels InDocSel
  simp only [List.mem_append, List.mem_flatMap]
  constructor
  · rintro ⟨p, ⟨op, hop, h⟩ | ⟨f, hf, h⟩⟩
    · exact Or.inl ⟨op, hop, typedSels_mem_inSels s _ _ _ h⟩
    · exact Or.inr ⟨f, hf, typedSels_mem_inSels s _ _ _ h⟩
  · rintro (⟨op, hop, h⟩ | ⟨f, hf, h⟩)
    · obtain ⟨p, hp⟩ := inSels_mem_typedSels s _ (Spec.rootDef s op.op) y h
      exact ⟨p, Or.inl ⟨op, hop, hp⟩⟩
    · obtain ⟨p, hp⟩ := inSels_mem_typedSels s _ (s.type? f.typeCond) y h
      exact ⟨p, Or.inr ⟨f, hf, hp⟩⟩

theorem docSels_mem_inDocSel (s : Schema) (d : QueryDoc) (t : Spec.TSel) (h : t ∈ Spec.docSels s d) :
    InDocSel d (.sel t.sel) := (docSels_iff s d t.sel).1 ⟨t.parent, h⟩

/-- the directive location the walker uses for an operation is the specification's, for the
    operation kinds the parser produces -/
theorem opRoot_loc (sv : SV) (op : Operation) (h : op ∈ parserOpKinds) : (opRoot sv op).2 = Spec.locOfOp op := by
  simp only [parserOpKinds, List.mem_cons, List.not_mem_nil, or_false] at h
  rcases h with rfl | rfl | rfl | rfl <;> rfl

/-- membership in `Spec.directiveSites` is occurrence of the directive list in the document -/
theorem directiveSites_iff (s : Schema) (d : QueryDoc) (hk : ∀ op ∈ d.ops, op.op ∈ parserOpKinds)
    (loc : Bytes) (ds : List Directive) :
    (loc, ds) ∈ Spec.directiveSites s d ↔ InDoc s.view d (.dirs loc ds) := by
  unfold Spec.directiveSites InDoc
  simp only [List.mem_append, List.mem_flatMap, List.mem_cons, List.mem_map]
  constructor
  · rintro ((⟨op, hop, h | ⟨v, hv, h⟩⟩ | ⟨f, hf, h⟩) | ⟨t, ht, h⟩)
    · refine Or.inl ⟨op, hop, Or.inr (Or.inl ?_)⟩
      rw [opRoot_loc s.view op.op (hk op hop)]
      injection h with h1 h2
      rw [h1, h2]
    · refine Or.inl ⟨op, hop, Or.inr (Or.inr ⟨v, hv, ?_⟩)⟩
      injection h with h1 h2
      rw [← h1, ← h2]
      rfl
    · refine Or.inr ⟨f, hf, Or.inr ?_⟩
      injection h with h1 h2
      rw [← h1, ← h2]
      rfl
    · injection h with h1 h2
      subst h1 h2
      rcases docSels_mem_inDocSel s d t ht with ⟨op, hop, hs⟩ | ⟨f, hf, hs⟩
      · exact Or.inl ⟨op, hop, Or.inl (inSels_dirs_of_sel _ _ hs)⟩
      · exact Or.inr ⟨f, hf, Or.inl (inSels_dirs_of_sel _ _ hs)⟩
  · rintro (⟨op, hop, h | h | ⟨v, hv, h⟩⟩ | ⟨f, hf, h | h⟩)
    · obtain ⟨y, hy, rfl, rfl⟩ := inSels_dirs_inv _ _ _ h
      obtain ⟨p, hp⟩ := (docSels_iff s d y).2 (Or.inl ⟨op, hop, hy⟩)
      exact Or.inr ⟨⟨p, y⟩, hp, rfl⟩
    · injection h with h1 h2
      refine Or.inl (Or.inl ⟨op, hop, Or.inl ?_⟩)
      rw [h1, h2, opRoot_loc s.view op.op (hk op hop)]
    · injection h with h1 h2
      refine Or.inl (Or.inl ⟨op, hop, Or.inr ⟨v, hv, ?_⟩⟩)
      rw [h1, h2]
      rfl
    · obtain ⟨y, hy, rfl, rfl⟩ := inSels_dirs_inv _ _ _ h
      obtain ⟨p, hp⟩ := (docSels_iff s d y).2 (Or.inr ⟨f, hf, hy⟩)
      exact Or.inr ⟨⟨p, y⟩, hp, rfl⟩
    · injection h with h1 h2
      refine Or.inl (Or.inr ⟨f, hf, ?_⟩)
      rw [h1, h2]
      rfl

end Gql.Validate
