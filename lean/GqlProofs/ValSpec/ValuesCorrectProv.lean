import GqlProofs.ValSpec.ValBlocks
/-
  PROVENANCE of the link side table: every entry `(k, x)` of `Links.vlinks`, in the snapshot of every
  event of a run, was written for a variable node starting at `k` that has its own `value` event in the
  run, fired on behalf of an operation `op`, and `x = op.vars.ForName(name of that node)`
  (`walkDoc_linksW`).
-/
namespace Gql.Validate
open Gql

/-- the entry `(k, x)` was written for a variable node that has an event in `evs` -/
def Written (evs : List Event) (k : Nat) (x : Option VarDef) : Prop :=
  ∃ e0 ∈ evs, ∃ op raw ch p exp dfn, e0.cur = some op ∧ e0.p = .value (.mk .variable raw ch p) exp dfn ∧
    p.start = k ∧ x = varForName op.vars raw

def LinksW (evs : List Event) (l : Links) : Prop := ∀ k x, (k, x) ∈ l.vlinks → Written evs k x

/-- a piece of the walk whose events lie in `evs` keeps the invariant, and every event it fires has it -/
def StepW (evs : List Event) (ws : WS) (r : WS × List Event) : Prop :=
  (∀ e ∈ r.2, e ∈ evs) → LinksW evs ws.links → LinksW evs r.1.links ∧ ∀ e ∈ r.2, LinksW evs e.links

theorem LinksW.empty (evs : List Event) : LinksW evs Links.empty := by
  intro k x h
  cases h

theorem LinksW.lookup {evs : List Event} {l : Links} (h : LinksW evs l) {k : Nat} {vd : VarDef}
    (hv : l.varDef k = some vd) : Written evs k (some vd) := by
  unfold Links.varDef at hv
  cases hl : l.vlinks.lookup k with
  | none => rw [hl] at hv; cases hv
  | some o =>
    rw [hl] at hv
    simp only [Option.join] at hv
    subst hv
    have : ∀ (xs : List (Nat × Option VarDef)), xs.lookup k = some (some vd) → (k, some vd) ∈ xs := by
      intro xs
      induction xs with
      | nil => intro h; simp [List.lookup] at h
      | cons x rest ih =>
        obtain ⟨a, b⟩ := x
        intro h
        simp only [List.lookup] at h
        split at h
        · rename_i heq
          have : k = a := by simpa using heq
          injection h with h
          subst h this
          exact List.mem_cons_self
        · exact List.mem_cons_of_mem _ (ih h)
    exact h k _ (this _ hl)

theorem StepW.id {evs : List Event} (ws : WS) : StepW evs ws (ws, []) :=
  fun _ h => ⟨h, fun _ he => nomatch he⟩

theorem StepW.seq {evs : List Event} {ws : WS} {r1 : WS × List Event} {r2 : WS × List Event}
    (h1 : StepW evs ws r1) (h2 : StepW evs r1.1 r2) : StepW evs ws (r2.1, r1.2 ++ r2.2) := by
  intro hsub h
  obtain ⟨a1, b1⟩ := h1 (fun e he => hsub e (List.mem_append_left _ he)) h
  obtain ⟨a2, b2⟩ := h2 (fun e he => hsub e (List.mem_append_right _ he)) a1
  exact ⟨a2, fun e he => (List.mem_append.1 he).elim (b1 e) (b2 e)⟩

theorem StepW.snoc {evs : List Event} {ws : WS} {r : WS × List Event} (h : StepW evs ws r) (cur : Option OperationDef)
    (p : Payload) : StepW evs ws (r.1, r.2 ++ [⟨cur, r.1.links, p⟩]) := by
  intro hsub h0
  obtain ⟨a, b⟩ := h (fun e he => hsub e (List.mem_append_left _ he)) h0
  refine ⟨a, fun e he => ?_⟩
  rcases List.mem_append.1 he with he | he
  · exact b e he
  · rw [List.mem_singleton.1 he]; exact a

mutual
  theorem walkValue_linksW (evs : List Event) (s : SV) (cur : Option OperationDef) :
      ∀ (v : Value) (exp : Option GType) (dfn : Option Definition) (ws : WS), StepW evs ws (walkValue s cur exp dfn v ws)
    | .mk k raw ch p, exp, dfn, ws => by
      rw [walkValue_mk]
      intro hsub h0
      have hself := hsub _ (List.mem_append_right _ (List.mem_singleton.2 rfl))
      have h1 : LinksW evs (varMark cur k raw p ws).links := by
        unfold varMark
        split
        · rename_i op
          intro k' x hm
          simp only at hm
          rcases List.mem_cons.1 hm with hm | hm
          · injection hm with hk hx
            exact ⟨_, hself, op, raw, ch, p, exp, dfn, rfl, rfl, hk.symm, hx⟩
          · exact h0 k' x hm
        · exact h0
      have hch : LinksW evs (walkChildren s cur exp dfn k ch (varMark cur k raw p ws)).1.links ∧
          ∀ e ∈ (walkChildren s cur exp dfn k ch (varMark cur k raw p ws)).2, LinksW evs e.links := by
        have hsub' : ∀ e ∈ (walkChildren s cur exp dfn k ch (varMark cur k raw p ws)).2, e ∈ evs :=
          fun e he => hsub e (List.mem_append_left _ he)
        cases k <;> simp only [walkChildren] at hsub' ⊢
        case list => exact walkListChildren_linksW evs s cur ch exp dfn _ hsub' h1
        case object => exact walkObjChildren_linksW evs s cur ch dfn _ hsub' h1
        all_goals exact ⟨h1, fun _ he => nomatch he⟩
      refine ⟨hch.1, fun e he => ?_⟩
      rcases List.mem_append.1 he with he | he
      · exact hch.2 e he
      · rw [List.mem_singleton.1 he]; exact hch.1
  theorem walkObjChildren_linksW (evs : List Event) (s : SV) (cur : Option OperationDef) :
      ∀ (ch : Children) (dfn : Option Definition) (ws : WS), StepW evs ws (walkObjChildren s cur dfn ch ws)
    | .nil, dfn, ws => by
      have : walkObjChildren s cur dfn .nil ws = (ws, []) := by unfold walkObjChildren; rfl
      rw [this]; exact StepW.id ws
    | .cons n v p rest, dfn, ws => by
      rw [walkObjChildren_cons]
      exact StepW.seq (walkValue_linksW evs s cur v _ _ ws) (walkObjChildren_linksW evs s cur rest dfn _)
  theorem walkListChildren_linksW (evs : List Event) (s : SV) (cur : Option OperationDef) :
      ∀ (ch : Children) (exp : Option GType) (dfn : Option Definition) (ws : WS),
        StepW evs ws (walkListChildren s cur exp dfn ch ws)
    | .nil, exp, dfn, ws => by
      have : walkListChildren s cur exp dfn .nil ws = (ws, []) := by unfold walkListChildren; rfl
      rw [this]; exact StepW.id ws
    | .cons n v p rest, exp, dfn, ws => by
      rw [walkListChildren_cons]
      exact StepW.seq (walkValue_linksW evs s cur v _ _ ws) (walkListChildren_linksW evs s cur rest exp dfn _)
end

theorem walkArgs_linksW (evs : List Event) (s : SV) (cur : Option OperationDef)
    (defs : Option (List ArgDef)) : ∀ (args : List Argument) (ws : WS), StepW evs ws (walkArgs s cur defs args ws)
  | [], ws => by simpa [walkArgs] using StepW.id (evs := evs) ws
  | a :: rest, ws => by
    rw [walkArgs_cons]
    exact StepW.seq (walkValue_linksW evs s cur a.value _ _ ws) (walkArgs_linksW evs s cur defs rest _)

theorem walkDirectiveItems_linksW (evs : List Event) (s : SV) (cur : Option OperationDef)
    (parent : Option Definition) (loc : Bytes) :
    ∀ (ds : List Directive) (ws : WS), StepW evs ws (walkDirectiveItems s cur parent loc ds ws)
  | [], ws => by simpa [walkDirectiveItems] using StepW.id (evs := evs) ws
  | dir :: rest, ws => by
    simp only [walkDirectiveItems]
    have h1 := StepW.snoc (walkArgs_linksW evs s cur ((s.directive? dir.name).map (·.args)) dir.args ws) cur
      (.directive dir (s.directive? dir.name) parent loc)
    have h2 := walkDirectiveItems_linksW evs s cur parent loc rest
      (walkArgs s cur ((s.directive? dir.name).map (·.args)) dir.args ws).1
    have := StepW.seq h1 h2
    simpa [List.append_assoc] using this

theorem walkDirectives_linksW (evs : List Event) (s : SV) (cur : Option OperationDef)
    (parent : Option Definition) (ds : List Directive) (loc : Bytes) (ws : WS) :
    StepW evs ws (walkDirectives s cur parent ds loc ws) := by
  simp only [walkDirectives]
  exact StepW.snoc (walkDirectiveItems_linksW evs s cur parent loc ds ws) cur _

def JumpLW (evs : List Event) (J : Jump) : Prop :=
  ∀ parent sels (ws : WS) r, J parent sels ws = some r → StepW evs ws r

mutual
  theorem walkSelection_linksW (evs : List Event) (s : SV) (d : QueryDoc) (cur : Option OperationDef)
      (J : Jump) (hJ : JumpLW evs J) :
      ∀ (x : Selection) (parent : Option Definition) (ws : WS) r,
        walkSelection s d cur J parent x ws = some r → StepW evs ws r
    | .field al nm args dirs sub p, parent, ws, r, h => by
      unfold walkSelection at h
      simp only at h
      split at h
      · cases h
      · rename_i r3 h3
        injection h with h
        subst h
        have hb := walkSelections_linksW evs s d cur J hJ sub _ _ r3 h3
        have ha := walkArgs_linksW evs s cur
        have hd := walkDirectives_linksW evs s cur
        intro hsub h0
        obtain ⟨a1, b1⟩ := ha _ args (ws.markSel p.start) (fun e he => hsub e (List.mem_append_left _ (List.mem_append_left _ (List.mem_append_left _ he)))) h0
        obtain ⟨a2, b2⟩ := hd _ dirs locField _ (fun e he => hsub e (List.mem_append_left _ (List.mem_append_left _ (List.mem_append_right _ he)))) a1
        obtain ⟨a3, b3⟩ := hb (fun e he => hsub e (List.mem_append_left _ (List.mem_append_right _ he))) a2
        refine ⟨a3, fun e he => ?_⟩
        simp only [List.mem_append, List.mem_singleton] at he
        rcases he with ((he | he) | he) | he
        · exact b1 e he
        · exact b2 e he
        · exact b3 e he
        · rw [he]; exact a3
    | .inline tc dirs sub p, parent, ws, r, h => by
      unfold walkSelection at h
      simp only at h
      split at h
      · cases h
      · rename_i r3 h3
        injection h with h
        subst h
        have hb := walkSelections_linksW evs s d cur J hJ sub _ _ r3 h3
        have hd := walkDirectives_linksW evs s cur
        intro hsub h0
        obtain ⟨a2, b2⟩ := hd _ dirs locInlineFragment (ws.markSel p.start) (fun e he => hsub e (List.mem_append_left _ (List.mem_append_left _ he))) h0
        obtain ⟨a3, b3⟩ := hb (fun e he => hsub e (List.mem_append_left _ (List.mem_append_right _ he))) a2
        refine ⟨a3, fun e he => ?_⟩
        simp only [List.mem_append, List.mem_singleton] at he
        rcases he with (he | he) | he
        · exact b2 e he
        · exact b3 e he
        · rw [he]; exact a3
    | .spread nm dirs p, parent, ws, r, h => by
      unfold walkSelection at h
      simp only at h
      have hd := walkDirectives_linksW evs s cur
      cases hf : fragForName d nm with
      | none =>
        rw [hf] at h
        simp only at h
        injection h with h
        subst h
        exact fun hsub h0 => StepW.snoc (hd _ dirs locFragmentSpread (ws.markSel p.start)) cur _ hsub h0
      | some f =>
        rw [hf] at h
        simp only at h
        split at h
        · injection h with h
          subst h
          exact fun hsub h0 => StepW.snoc (hd _ dirs locFragmentSpread (ws.markSel p.start)) cur _ hsub h0
        · split at h
          · cases h
          · rename_i r3 h3
            injection h with h
            subst h
            intro hsub h0
            obtain ⟨a1, b1⟩ := hd _ dirs locFragmentSpread (ws.markSel p.start) (fun e he => hsub e (List.mem_append_left _ (List.mem_append_left _ (List.mem_append_left _ he)))) h0
            obtain ⟨a2, b2⟩ := hd _ f.dirs locFragmentDefinition _ (fun e he => hsub e (List.mem_append_left _ (List.mem_append_left _ (List.mem_append_right _ he))))
              (show LinksW evs (WS.links { (walkDirectives s cur
              ((some f).bind fun f => s.type? f.typeCond) dirs locFragmentSpread (ws.markSel p.start)).1 with
                visited := f.name :: (walkDirectives s cur ((some f).bind fun f => s.type? f.typeCond) dirs
                  locFragmentSpread (ws.markSel p.start)).1.visited }) from a1)
            obtain ⟨a3, b3⟩ := hJ _ _ _ r3 h3 (fun e he => hsub e (List.mem_append_left _ (List.mem_append_right _ he))) a2
            refine ⟨a3, fun e he => ?_⟩
            simp only [List.mem_append, List.mem_singleton] at he
            rcases he with ((he | he) | he) | he
            · exact b1 e he
            · exact b2 e he
            · exact b3 e he
            · rw [he]; exact a3
  theorem walkSelections_linksW (evs : List Event) (s : SV) (d : QueryDoc) (cur : Option OperationDef)
      (J : Jump) (hJ : JumpLW evs J) :
      ∀ (xs : Selections) (parent : Option Definition) (ws : WS) r,
        walkSelections s d cur J parent xs ws = some r → StepW evs ws r
    | .nil, parent, ws, r, h => by
      simp only [walkSelections] at h
      injection h with h
      subst h
      exact StepW.id ws
    | .cons x rest, parent, ws, r, h => by
      unfold walkSelections at h
      split at h
      · cases h
      · rename_i r1 h1
        split at h
        · cases h
        · rename_i r2 h2
          injection h with h
          subst h
          exact StepW.seq (walkSelection_linksW evs s d cur J hJ x parent ws r1 h1)
            (walkSelections_linksW evs s d cur J hJ rest parent r1.1 r2 h2)
end

theorem walkLevel_linksW (evs : List Event) (s : SV) (d : QueryDoc) (cur : Option OperationDef) :
    ∀ n, JumpLW evs (walkLevel s d cur n)
  | 0 => by intro _ _ _ _ h; simp [walkLevel] at h
  | n + 1 => by
    intro parent sels ws r h
    simp only [walkLevel] at h
    exact walkSelections_linksW evs s d cur _ (walkLevel_linksW evs s d cur n) sels parent ws r h

theorem walkVarDefsB_linksW (evs : List Event) (s : SV) (cur : Option OperationDef) :
    ∀ (vs : List VarDef) (ws : WS), StepW evs ws (walkVarDefsB s cur vs ws)
  | [], ws => by simpa [walkVarDefsB] using StepW.id (evs := evs) ws
  | v :: rest, ws => by
    simp only [walkVarDefsB]
    cases v.default with
    | none =>
      simp only
      have := StepW.seq (StepW.seq (StepW.id (evs := evs) ws)
        (walkDirectives_linksW evs s cur (s.type? v.type.name) v.dirs locVariableDefinition _))
        (walkVarDefsB_linksW evs s cur rest _)
      simpa [List.append_assoc] using this
    | some dv =>
      simp only
      have := StepW.seq (StepW.seq (walkValue_linksW evs s cur dv (some v.type) (s.type? v.type.name) ws)
        (walkDirectives_linksW evs s cur (s.type? v.type.name) v.dirs locVariableDefinition _))
        (walkVarDefsB_linksW evs s cur rest _)
      simpa [List.append_assoc] using this

theorem walkVarDefsA_linksW (evs : List Event) (s : SV) (cur : Option OperationDef) (ws : WS) (h : LinksW evs ws.links) :
    ∀ (vs : List VarDef), ∀ e ∈ walkVarDefsA s cur ws vs, LinksW evs e.links
  | [], e, he => nomatch he
  | v :: rest, e, he => by
    simp only [walkVarDefsA] at he
    rcases List.mem_cons.1 he with he | he
    · rw [he]; exact h
    · exact walkVarDefsA_linksW evs s cur ws h rest e he

theorem walkOperation_linksW (evs : List Event) (s : SV) (d : QueryDoc) (fuel : Nat) (op : OperationDef)
    (l : Links) (r : Links × List Event) (h : walkOperation s d fuel op l = some r)
    (hsub : ∀ e ∈ r.2, e ∈ evs) (h0 : LinksW evs l) : LinksW evs r.1 ∧ ∀ e ∈ r.2, LinksW evs e.links := by
  unfold walkOperation at h
  simp only at h
  split at h
  · cases h
  · rename_i r4 h4
    injection h with h
    subst h
    have hA := walkVarDefsA_linksW evs s (some op) { visited := [], links := l, used := [] } h0 op.vars
    obtain ⟨a2, b2⟩ := walkVarDefsB_linksW evs s (some op) op.vars { visited := [], links := l, used := [] }
      (fun e he => hsub e (List.mem_append_left _ (List.mem_append_left _ (List.mem_append_left _ (List.mem_append_right _ he))))) h0
    obtain ⟨a3, b3⟩ := walkDirectives_linksW evs s (some op) (opRoot s op.op).1 op.dirs (opRoot s op.op).2 _
      (fun e he => hsub e (List.mem_append_left _ (List.mem_append_left _ (List.mem_append_right _ he)))) a2
    obtain ⟨a4, b4⟩ := walkLevel_linksW evs s d (some op) fuel _ _ _ r4 h4
      (fun e he => hsub e (List.mem_append_left _ (List.mem_append_right _ he))) a3
    refine ⟨a4, fun e he => ?_⟩
    simp only [List.mem_append, List.mem_singleton] at he
    rcases he with (((he | he) | he) | he) | he
    · exact hA e he
    · exact b2 e he
    · exact b3 e he
    · exact b4 e he
    · rw [he]; exact a4

theorem walkFragment_linksW (evs : List Event) (s : SV) (d : QueryDoc) (fuel : Nat) (f : FragmentDef)
    (l : Links) (r : Links × List Event) (h : walkFragment s d fuel f l = some r)
    (hsub : ∀ e ∈ r.2, e ∈ evs) (h0 : LinksW evs l) : LinksW evs r.1 ∧ ∀ e ∈ r.2, LinksW evs e.links := by
  unfold walkFragment at h
  simp only at h
  split at h
  · cases h
  · rename_i r2 h2
    injection h with h
    subst h
    obtain ⟨a1, b1⟩ := walkDirectives_linksW evs s none (s.type? f.typeCond) f.dirs locFragmentDefinition
      { visited := [], links := l, used := [] }
      (fun e he => hsub e (List.mem_append_left _ (List.mem_append_left _ he))) h0
    obtain ⟨a2, b2⟩ := walkLevel_linksW evs s d none fuel _ _ _ r2 h2
      (fun e he => hsub e (List.mem_append_left _ (List.mem_append_right _ he))) a1
    refine ⟨a2, fun e he => ?_⟩
    simp only [List.mem_append, List.mem_singleton] at he
    rcases he with (he | he) | he
    · exact b1 e he
    · exact b2 e he
    · rw [he]; exact a2

theorem walkOps_linksW (evs : List Event) (s : SV) (d : QueryDoc) (fuel : Nat) :
    ∀ (ops : List OperationDef) (l : Links) (r : Links × List Event),
      walkOps s d fuel ops l = some r → (∀ e ∈ r.2, e ∈ evs) → LinksW evs l →
        LinksW evs r.1 ∧ ∀ e ∈ r.2, LinksW evs e.links
  | [], l, r, h, _, h0 => by
    simp only [walkOps] at h
    injection h with h
    subst h
    exact ⟨h0, fun _ he => nomatch he⟩
  | op :: rest, l, r, h, hsub, h0 => by
    unfold walkOps at h
    split at h
    · cases h
    · rename_i r1 h1
      split at h
      · cases h
      · rename_i r2 h2
        injection h with h
        subst h
        obtain ⟨a1, b1⟩ := walkOperation_linksW evs s d fuel op l r1 h1 (fun e he => hsub e (List.mem_append_left _ he)) h0
        obtain ⟨a2, b2⟩ := walkOps_linksW evs s d fuel rest r1.1 r2 h2 (fun e he => hsub e (List.mem_append_right _ he)) a1
        exact ⟨a2, fun e he => (List.mem_append.1 he).elim (b1 e) (b2 e)⟩

theorem walkFrags_linksW (evs : List Event) (s : SV) (d : QueryDoc) (fuel : Nat) :
    ∀ (fs : List FragmentDef) (l : Links) (r : Links × List Event),
      walkFrags s d fuel fs l = some r → (∀ e ∈ r.2, e ∈ evs) → LinksW evs l →
        LinksW evs r.1 ∧ ∀ e ∈ r.2, LinksW evs e.links
  | [], l, r, h, _, h0 => by
    simp only [walkFrags] at h
    injection h with h
    subst h
    exact ⟨h0, fun _ he => nomatch he⟩
  | f :: rest, l, r, h, hsub, h0 => by
    unfold walkFrags at h
    split at h
    · cases h
    · rename_i r1 h1
      split at h
      · cases h
      · rename_i r2 h2
        injection h with h
        subst h
        obtain ⟨a1, b1⟩ := walkFragment_linksW evs s d fuel f l r1 h1 (fun e he => hsub e (List.mem_append_left _ he)) h0
        obtain ⟨a2, b2⟩ := walkFrags_linksW evs s d fuel rest r1.1 r2 h2 (fun e he => hsub e (List.mem_append_right _ he)) a1
        exact ⟨a2, fun e he => (List.mem_append.1 he).elim (b1 e) (b2 e)⟩

/-- in the snapshot of every event of a run, every entry of the link table was written for a variable
    node that has its own event in the run, on behalf of the operation of that event -/
theorem walkDoc_linksW (s : SV) (d : QueryDoc) (evs : List Event) (h : walkDoc s d = some evs) :
    ∀ e ∈ evs, LinksW evs e.links := by
  unfold walkDoc at h
  split at h
  · cases h
  · rename_i r1 h1
    split at h
    · cases h
    · rename_i r2 h2
      injection h with h
      subst h
      obtain ⟨a1, b1⟩ := walkOps_linksW (r1.2 ++ r2.2) s d _ d.ops _ r1 h1 (fun e he => List.mem_append_left _ he)
        (LinksW.empty _)
      obtain ⟨_, b2⟩ := walkFrags_linksW (r1.2 ++ r2.2) s d _ d.frags _ r2 h2 (fun e he => List.mem_append_right _ he) a1
      exact fun e he => (List.mem_append.1 he).elim (b1 e) (b2 e)

end Gql.Validate
