import GqlProofs.ValSpec.CustomScalar
/-
  C09, the dump line of an event as DATA: `Event.linkFields` is (start offset, kind tag, the
  `key=value` fields) and `Event.linkLine` — what `linkDump` prints and `linkscheck` parses again —
  is its formatting (`linkLine_eq`).  A demand that is met (`Demand.Met`) has an event whose dump
  line has the start offset and kind of the rendered demand (`Demand.render`, an element of
  `Spec.expectedLinks`) and contains every demanded field with the demanded text (`met_line`).
-/
namespace Gql.Validate
open Gql

def fieldDefText : Option FieldDef → String
  | none => "-"
  | some fd => bytesToString fd.name ++ ":" ++ bytesToString fd.type.render

def fragDefText : Option FragmentDef → String
  | none => "-"
  | some fd => bytesToString fd.name ++ "@" ++ toString fd.pos.start

def dirDefText : Option DirectiveDef → String
  | none => "-"
  | some dd => bytesToString dd.name

def typeText : Option GType → String
  | none => "-"
  | some t => bytesToString t.render

/-- the dump line of an event before formatting -/
def Event.linkFields (e : Event) : Option (Nat × String × List (String × String)) :=
  match e.p with
  | .operation op used =>
    some (op.pos.start, "O", [("used", String.ofList (used.map fun b => if b then '1' else '0'))])
  | .variable v dfn => some (v.pos.start, "VD", [("def", optDefName dfn)])
  | .field f parent dfn => some (f.pos.start, "F", [("obj", optDefName parent), ("def", fieldDefText dfn)])
  | .fragment f dfn => some (f.pos.start, "FD", [("def", optDefName dfn)])
  | .inlineFragment f parent => some (f.pos.start, "I", [("obj", optDefName parent)])
  | .fragmentSpread f dfn parent => some (f.pos.start, "S", [("def", fragDefText dfn), ("obj", optDefName parent)])
  | .directive d dfn parent loc =>
    some (d.pos.start, "D", [("def", dirDefText dfn), ("parent", optDefName parent), ("loc", bytesToString loc)])
  | .value v expected dfn =>
    some (v.pos.start, "V", [("def", optDefName dfn), ("exp", typeText expected),
      ("var", varText (e.links.varDef v.pos.start))])
  | .directiveList _ => none

/-- `KIND k1=v1 k2=v2 …` -/
def fmtLine (kind : String) (fs : List (String × String)) : String :=
  fs.foldl (fun acc kv => acc ++ (" " ++ kv.1 ++ "=") ++ kv.2) kind

theorem linkLine_eq (e : Event) :
    e.linkLine = e.linkFields.map fun x => (x.1, fmtLine x.2.1 x.2.2) := by
  unfold Event.linkLine Event.linkFields
  cases e.p with
  | operation op used => simp [fmtLine]
  | «variable» v dfn => simp [fmtLine]
  | field f parent dfn => cases dfn <;> simp [fmtLine, fieldDefText]
  | fragment f dfn => simp [fmtLine]
  | inlineFragment f parent => simp [fmtLine]
  | fragmentSpread f dfn parent => cases dfn <;> simp [fmtLine, fragDefText]
  | directive d dfn parent loc => cases dfn <;> simp [fmtLine, dirDefText]
  | value v expected dfn =>
    cases expected <;> cases hv : e.links.varDef v.pos.start <;> simp [fmtLine, typeText, varText, hv]
  | directiveList ds => rfl

theorem optDefName_eq (x : Option Definition) : Spec.optDefName x = optDefName x := by
  cases x <;> rfl

/-- a met demand (other than an inline fragment's) has an event whose dump line carries the start
    offset, the kind and every demanded field of the rendered demand -/
theorem met_line (s : Schema) (d : QueryDoc) (evs : List Event) (dm : Demand) (h : dm.Met s d evs)
    (hni : ∀ f parent, dm ≠ .inline f parent) :
    ∃ e ∈ evs, ∃ fs, e.linkFields = some ((dm.render s d).start, (dm.render s d).kind, fs) ∧
      ∀ kv ∈ (dm.render s d).fields, kv ∈ fs := by
  cases dm with
  | field f parent =>
    obtain ⟨e, he, hp⟩ := h
    refine ⟨e, he, _, by unfold Event.linkFields; rw [hp]; rfl, ?_⟩
    intro kv hkv
    simp only [Demand.render, List.mem_append] at hkv
    rcases hkv with hkv | hkv
    · cases parent with
      | none => simp [Spec.demand] at hkv
      | some q =>
        simp only [Option.map_some, Spec.demand, List.mem_singleton] at hkv
        subst hkv
        simp [optDefName]
    · cases hfd : parent.bind (Spec.fieldDefOn · f.name) with
      | none => rw [hfd] at hkv; simp [Spec.demand] at hkv
      | some fd =>
        rw [hfd] at hkv
        simp only [Option.map_some, Spec.demand, List.mem_singleton] at hkv
        subst hkv
        simp [fieldDefText]
  | spread f =>
    obtain ⟨e, he, par, hp⟩ := h
    refine ⟨e, he, _, by unfold Event.linkFields; rw [hp]; rfl, ?_⟩
    intro kv hkv
    simp only [Demand.render] at hkv
    cases hfd : Spec.fragByName d f.name with
    | none => rw [hfd] at hkv; simp [Spec.demand] at hkv
    | some fd =>
      rw [hfd] at hkv
      simp only [Option.map_some, Spec.demand, List.mem_singleton] at hkv
      subst hkv
      simp [fragDefText]
  | inline f parent => exact absurd rfl (hni f parent)
  | directive dir loc =>
    obtain ⟨e, he, par, hp⟩ := h
    refine ⟨e, he, _, by unfold Event.linkFields; rw [hp]; rfl, ?_⟩
    intro kv hkv
    simp only [Demand.render, List.mem_append, List.mem_singleton] at hkv
    rcases hkv with hkv | hkv
    · cases hdd : s.directive? dir.name with
      | none => rw [hdd] at hkv; simp [Spec.demand] at hkv
      | some dd =>
        rw [hdd] at hkv
        simp only [Option.map_some, Spec.demand, List.mem_singleton] at hkv
        subst hkv
        simp [dirDefText]
    · subst hkv
      simp
  | varDef v =>
    obtain ⟨e, he, hp⟩ := h
    refine ⟨e, he, _, by unfold Event.linkFields; rw [hp]; rfl, ?_⟩
    intro kv hkv
    simp only [Demand.render] at hkv
    cases hdd : s.type? v.type.name with
    | none => rw [hdd] at hkv; simp [Spec.demand] at hkv
    | some dd =>
      rw [hdd] at hkv
      simp only [Option.map_some, Spec.demand, List.mem_singleton] at hkv
      subst hkv
      simp [optDefName]
  | fragDef f =>
    obtain ⟨e, he, hp⟩ := h
    refine ⟨e, he, _, by unfold Event.linkFields; rw [hp]; rfl, ?_⟩
    intro kv hkv
    simp only [Demand.render] at hkv
    cases hdd : s.type? f.typeCond with
    | none => rw [hdd] at hkv; simp [Spec.demand] at hkv
    | some dd =>
      rw [hdd] at hkv
      simp only [Option.map_some, Spec.demand, List.mem_singleton] at hkv
      subst hkv
      simp [optDefName]
  | value cands o =>
    obtain ⟨e, he, exp, dfn, hp, hag⟩ := h
    refine ⟨e, he, _, by unfold Event.linkFields; rw [hp]; rfl, ?_⟩
    intro kv hkv
    simp only [Demand.render, ValOcc.toExpLink] at hkv
    cases ht : o.typed with
    | false => rw [ht] at hkv; simp at hkv
    | true =>
      rw [ht] at hkv
      obtain ⟨h1, h2⟩ := hag ht
      subst h1 h2
      simp only [if_true, List.mem_cons, List.not_mem_nil, or_false] at hkv
      rcases hkv with hkv | hkv
      · subst hkv
        simp [optDefName_eq]
      · subst hkv
        cases o.exp <;> simp [typeText]

end Gql.Validate
