import GqlProofs.ValSpec.ScopeComplete
import GqlProofs.ValSpec.LeafFrag
/-
  The link side table at an `operation` event: every selection node written in the operation or in
  a fragment definition reachable from it has been marked as linked (`FragmentSpread.Definition`
  is set), so the rules that follow spreads from an operation (SingleFieldSubscriptions) see
  `Document.Fragments.ForName(name)` for every spread they can meet.
-/
namespace Gql.Validate
open Gql

/-- the only `operation` event of the walk of `op` is its last event, with the returned links -/
theorem walkOperation_opEvent (s : SV) (d : QueryDoc) (fuel : Nat) (op : OperationDef) (l : Links)
    (r : Links × List Event) (h : walkOperation s d fuel op l = some r) :
    ∀ e ∈ r.2, ∀ op' used, e.p = .operation op' used → op' = op ∧ e.links = r.1 := by
  unfold walkOperation at h
  simp only at h
  split at h
  · cases h
  · rename_i r4 h4
    injection h with h
    subst h
    have hb := walkLevel_noOps s d (some op) fuel _ _ _ r4 h4
    intro e he op' used hp
    rcases List.mem_append.1 he with he | he
    · have hno : noOps (walkVarDefsA s (some op) { visited := [], links := l, used := [] } op.vars ++
          (walkVarDefsB s (some op) op.vars { visited := [], links := l, used := [] }).2 ++
          (walkDirectives s (some op) (opRoot s op.op).1 op.dirs (opRoot s op.op).2
            (walkVarDefsB s (some op) op.vars { visited := [], links := l, used := [] }).1).2 ++ r4.2) = true := by
        simp only [noOps_append, walkVarDefsA_noOps, walkVarDefsB_noOps, walkDirectives_noOps, hb]
        rfl
      have := List.all_eq_true.1 hno e he
      simp [hp, Payload.isOperation] at this
    · simp only [List.mem_singleton] at he
      subst he
      simp only at hp
      injection hp with h1 _
      exact ⟨h1.symm, rfl⟩

/-- the marks at an `operation` event -/
def OpMarked (s : SV) (d : QueryDoc) (e : Event) : Prop :=
  ∀ op used, e.p = .operation op used →
    ∀ p' y, NodeScope s d (Spec.spreadsOfSels op.sel) (InSelsW s (opRoot s op.op).1 op.sel) p' y →
      e.links.linked (selPos y).start = true

theorem walkOps_opMarked (s : SV) (d : QueryDoc) (fuel : Nat) :
    ∀ (ops : List OperationDef) (l : Links) (r : Links × List Event), walkOps s d fuel ops l = some r →
      AllE (OpMarked s d) r.2
  | [], _, r, h => by
    simp only [walkOps] at h
    injection h with h
    subst h
    exact AllE.nil
  | o :: rest, l, r, h => by
    unfold walkOps at h
    split at h
    · cases h
    · rename_i r1 h1
      split at h
      · cases h
      · rename_i r2 h2
        injection h with h
        subst h
        refine AllE.append ?_ (walkOps_opMarked s d fuel rest r1.1 r2 h2)
        intro e he op used hp p' y hi
        obtain ⟨hop, hl⟩ := walkOperation_opEvent s d fuel o l r1 h1 e he op used hp
        subst hop
        rw [hl]
        exact ((walkOperation_scope_complete s d fuel op l r1 h1).nodes p' y hi).2.1

theorem walkDoc_opMarked (s : SV) (d : QueryDoc) (evs : List Event) (h : walkDoc s d = some evs) :
    AllE (OpMarked s d) evs := by
  unfold walkDoc at h
  split at h
  · cases h
  · rename_i r1 h1
    split at h
    · cases h
    · rename_i r2 h2
      injection h with h
      subst h
      refine AllE.append (walkOps_opMarked s d _ d.ops _ r1 h1) ?_
      intro e he op used hp
      have := List.all_eq_true.1 (walkFrags_noOps s d _ d.frags _ r2 h2) e he
      simp [hp, Payload.isOperation] at this

/-- at every `operation` event every selection node written in the operation's selection set or in
    the selection set of a fragment definition reachable from it is marked as linked -/
theorem walkDoc_operation_linked (s : SV) (d : QueryDoc) (evs : List Event) (h : walkDoc s d = some evs) :
    ∀ e ∈ evs, ∀ op used, e.p = .operation op used →
      (∀ y, InSels op.sel (.sel y) → e.links.linked (selPos y).start = true) ∧
      (∀ n f, Reach d (Spec.spreadsOfSels op.sel) n → fragForName d n = some f →
         ∀ y, InSels f.sel (.sel y) → e.links.linked (selPos y).start = true) := by
  intro e he op used hp
  have hm := walkDoc_opMarked s d evs h e he op used hp
  constructor
  · intro y hy
    obtain ⟨p', hw⟩ := inSels_lift s op.sel (opRoot s op.op).1 y hy
    exact hm p' y (Or.inl hw)
  · intro n f hr hf y hy
    obtain ⟨p', hw⟩ := inSels_lift s f.sel (s.type? f.typeCond) y hy
    exact hm p' y (Or.inr ⟨n, f, hr, hf, hw⟩)

/-- … in particular `FragmentSpread.Definition` of every such spread is `Fragments.ForName(name)` -/
theorem walkDoc_operation_spreadDef (s : SV) (d : QueryDoc) (evs : List Event) (h : walkDoc s d = some evs) :
    ∀ e ∈ evs, ∀ op used, e.p = .operation op used →
      (∀ nm dirs p, InSels op.sel (.sel (.spread nm dirs p)) → e.links.spreadDef d nm p = fragForName d nm) ∧
      (∀ n f, Reach d (Spec.spreadsOfSels op.sel) n → fragForName d n = some f →
         ∀ nm dirs p, InSels f.sel (.sel (.spread nm dirs p)) → e.links.spreadDef d nm p = fragForName d nm) := by
  intro e he op used hp
  obtain ⟨h1, h2⟩ := walkDoc_operation_linked s d evs h e he op used hp
  constructor
  · intro nm dirs p hy
    have := h1 _ hy
    simp only [selPos] at this
    simp [Links.spreadDef, this]
  · intro n f hr hf nm dirs p hy
    have := h2 n f hr hf _ hy
    simp only [selPos] at this
    simp [Links.spreadDef, this]

end Gql.Validate
