import GqlProofs.ValSpec.EventSets
/-
  The VALUE events of the walker model.

  A1  what one block of value events looks like: `walkValue` / `walkArgs` produce, whatever the
      walker state, exactly the events `.value v exp dfn` for `(exp, dfn, v) ∈ valSites / argValSites`
      (pure functions that mirror the walker's typing of sub-values), all with `e.cur = cur`; a
      variable walked on behalf of an operation has its `VariableDefinition` link in the snapshot.
  A2  where the value events of a run come from: every value event lies in the argument block of a
      `field` event, in the argument block of a `directive` event, or in the block of a variable
      default; and all of these blocks are in the run (`walkDoc_value_origin`,
      `walkDoc_fieldArgs_complete`, `walkDoc_directiveArgs_complete`, `walkDoc_defaults_complete`,
      `walkDoc_varlink`).  These come from a generic traversal for LOCAL block invariants
      (`BlockSites` / `walkDoc_blocks`; per operation `OpSites` / `walkOperation_blocks`).
  A3  syntactically: the value events of a run are the sub-values (`subValues`: through list and
      object literals) of `Spec.allValues` (`value_event_sound` / `value_event_complete`, no
      hypothesis on the operation kinds).
  Companions: `PayloadDet.lean` (payloads do not depend on the link table), `ValUsed.lean` (the
  `Used` flags of the `operation` event).
-/
namespace Gql.Validate
open Gql

/- ================= A1: one block ================= -/

/-- a value node with the links the walker assigns to it: `(ExpectedType, Definition, node)` -/
abbrev VSite := Option GType × Option Definition × Value

/-- the payload of the event fired for a site -/
def VSite.payload (t : VSite) : Payload := .value t.2.2 t.1 t.2.1

/-- links of the field `name` of an object literal whose own `Definition` is `dfn` -/
def objChildLink (s : SV) (dfn : Option Definition) (name : Name) : Option GType × Option Definition :=
  match dfn with
  | some d => match fieldForName d.fields name with
    | some fd => linkOfType s fd.type
    | none => (none, none)
  | none => (none, none)

/-- links of the items of a list literal whose own links are `exp` / `dfn` -/
def listChildLink (exp : Option GType) (dfn : Option Definition) : Option GType × Option Definition :=
  match exp with
  | some (.list e _ _) => (some e, dfn)
  | _ => (none, none)

/-- links of the value of the argument `name` given to something with argument definitions `defs` -/
def argLink (s : SV) (defs : Option (List ArgDef)) (name : Name) : Option GType × Option Definition :=
  match defs.bind (argDefForName · name) with
  | some ad => linkOfType s ad.type
  | none => (none, none)

mutual
  /-- the value nodes below (and including) `v`, with their links, in the order of their events:
      children first, then the value itself -/
  def valSites (s : SV) (exp : Option GType) (dfn : Option Definition) : Value → List VSite
    | .mk k raw ch p =>
      (match k with
       | .object => objSites s dfn ch
       | .list => listSites s exp dfn ch
       | _ => []) ++ [(exp, dfn, .mk k raw ch p)]
  def objSites (s : SV) (dfn : Option Definition) : Children → List VSite
    | .nil => []
    | .cons name v _ rest =>
      valSites s (objChildLink s dfn name).1 (objChildLink s dfn name).2 v ++ objSites s dfn rest
  def listSites (s : SV) (exp : Option GType) (dfn : Option Definition) : Children → List VSite
    | .nil => []
    | .cons _ v _ rest =>
      valSites s (listChildLink exp dfn).1 (listChildLink exp dfn).2 v ++ listSites s exp dfn rest
end

def argValSites (s : SV) (defs : Option (List ArgDef)) : List Argument → List VSite
  | [] => []
  | a :: rest => valSites s (argLink s defs a.name).1 (argLink s defs a.name).2 a.value ++ argValSites s defs rest

mutual
  /-- all value nodes of `v` that the walker visits (any depth, including `v`), children first: the
      children of list and object literals (the parser gives no other kind children) -/
  def subValues : Value → List Value
    | .mk k raw ch p =>
      (match k with
       | .object => childValues ch
       | .list => childValues ch
       | _ => []) ++ [.mk k raw ch p]
  def childValues : Children → List Value
    | .nil => []
    | .cons _ v _ rest => subValues v ++ childValues rest
end

/- ---------- the walker's equations in terms of the link functions ---------- -/

theorem walkObjChildren_cons (s : SV) (cur : Option OperationDef) (dfn : Option Definition) (name : Name) (v : Value)
    (p : Pos) (rest : Children) (ws : WS) :
    walkObjChildren s cur dfn (.cons name v p rest) ws =
      ((walkObjChildren s cur dfn rest
          (walkValue s cur (objChildLink s dfn name).1 (objChildLink s dfn name).2 v ws).1).1,
       (walkValue s cur (objChildLink s dfn name).1 (objChildLink s dfn name).2 v ws).2 ++
        (walkObjChildren s cur dfn rest
          (walkValue s cur (objChildLink s dfn name).1 (objChildLink s dfn name).2 v ws).1).2) := by
  conv => lhs; unfold walkObjChildren
  cases dfn <;> rfl

theorem walkListChildren_cons (s : SV) (cur : Option OperationDef) (exp : Option GType) (dfn : Option Definition)
    (name : Name) (v : Value) (p : Pos) (rest : Children) (ws : WS) :
    walkListChildren s cur exp dfn (.cons name v p rest) ws =
      ((walkListChildren s cur exp dfn rest
          (walkValue s cur (listChildLink exp dfn).1 (listChildLink exp dfn).2 v ws).1).1,
       (walkValue s cur (listChildLink exp dfn).1 (listChildLink exp dfn).2 v ws).2 ++
        (walkListChildren s cur exp dfn rest
          (walkValue s cur (listChildLink exp dfn).1 (listChildLink exp dfn).2 v ws).1).2) := by
  conv => lhs; unfold walkListChildren
  rfl

theorem walkArgs_cons (s : SV) (cur : Option OperationDef) (defs : Option (List ArgDef)) (a : Argument)
    (rest : List Argument) (ws : WS) :
    walkArgs s cur defs (a :: rest) ws =
      ((walkArgs s cur defs rest (walkValue s cur (argLink s defs a.name).1 (argLink s defs a.name).2 a.value ws).1).1,
       (walkValue s cur (argLink s defs a.name).1 (argLink s defs a.name).2 a.value ws).2 ++
        (walkArgs s cur defs rest (walkValue s cur (argLink s defs a.name).1 (argLink s defs a.name).2 a.value ws).1).2) := by
  conv => lhs; unfold walkArgs
  rfl

/-- the state after the `VariableDefinition` link of a variable has been written -/
def varMark (cur : Option OperationDef) (k : ValueKind) (raw : Bytes) (p : Pos) (ws : WS) : WS :=
  match k, cur with
  | .variable, some op =>
    { ws with links := { ws.links with vlinks := (p.start, varForName op.vars raw) :: ws.links.vlinks },
              used := if (varForName op.vars raw).isSome then raw :: ws.used else ws.used }
  | _, _ => ws

/-- the walk of the children of a value of kind `k` -/
def walkChildren (s : SV) (cur : Option OperationDef) (exp : Option GType) (dfn : Option Definition)
    (k : ValueKind) (ch : Children) (ws : WS) : WS × List Event :=
  match k with
  | .object => walkObjChildren s cur dfn ch ws
  | .list => walkListChildren s cur exp dfn ch ws
  | _ => (ws, [])

theorem walkValue_mk (s : SV) (cur : Option OperationDef) (exp : Option GType) (dfn : Option Definition)
    (k : ValueKind) (raw : Bytes) (ch : Children) (p : Pos) (ws : WS) :
    walkValue s cur exp dfn (.mk k raw ch p) ws =
      ((walkChildren s cur exp dfn k ch (varMark cur k raw p ws)).1,
       (walkChildren s cur exp dfn k ch (varMark cur k raw p ws)).2 ++
        [{ cur := cur, links := (walkChildren s cur exp dfn k ch (varMark cur k raw p ws)).1.links,
           p := .value (.mk k raw ch p) exp dfn }]) := by
  conv => lhs; unfold walkValue
  rfl

/- ---------- payloads ---------- -/

mutual
  theorem walkValue_payloads (s : SV) (cur : Option OperationDef) (exp : Option GType) (dfn : Option Definition) :
      ∀ (v : Value) (ws : WS),
        (walkValue s cur exp dfn v ws).2.map (·.p) = (valSites s exp dfn v).map VSite.payload
    | .mk k raw ch p, ws => by
      rw [walkValue_mk]
      conv => rhs; unfold valSites
      simp only [List.map_append, List.map_cons, List.map_nil, VSite.payload]
      congr 1
      cases k <;> simp only [walkChildren, List.map_nil]
      · exact walkListChildren_payloads s cur exp dfn ch _
      · exact walkObjChildren_payloads s cur dfn ch _
  theorem walkObjChildren_payloads (s : SV) (cur : Option OperationDef) (dfn : Option Definition) :
      ∀ (ch : Children) (ws : WS),
        (walkObjChildren s cur dfn ch ws).2.map (·.p) = (objSites s dfn ch).map VSite.payload
    | .nil, ws => by simp [walkObjChildren, objSites]
    | .cons name v p rest, ws => by
      rw [walkObjChildren_cons, objSites]
      simp only [List.map_append]
      rw [walkValue_payloads s cur _ _ v ws, walkObjChildren_payloads s cur dfn rest _]
  theorem walkListChildren_payloads (s : SV) (cur : Option OperationDef) (exp : Option GType) (dfn : Option Definition) :
      ∀ (ch : Children) (ws : WS),
        (walkListChildren s cur exp dfn ch ws).2.map (·.p) = (listSites s exp dfn ch).map VSite.payload
    | .nil, ws => by simp [walkListChildren, listSites]
    | .cons name v p rest, ws => by
      rw [walkListChildren_cons, listSites]
      simp only [List.map_append]
      rw [walkValue_payloads s cur _ _ v ws, walkListChildren_payloads s cur exp dfn rest _]
end

theorem walkArgs_payloads (s : SV) (cur : Option OperationDef) (defs : Option (List ArgDef)) :
    ∀ (args : List Argument) (ws : WS),
      (walkArgs s cur defs args ws).2.map (·.p) = (argValSites s defs args).map VSite.payload
  | [], ws => by simp [walkArgs, argValSites]
  | a :: rest, ws => by
    rw [walkArgs_cons, argValSites]
    simp only [List.map_append]
    rw [walkValue_payloads, walkArgs_payloads s cur defs rest _]

/- ---------- `cur` ---------- -/

mutual
  theorem walkValue_cur (s : SV) (cur : Option OperationDef) (exp : Option GType) (dfn : Option Definition) :
      ∀ (v : Value) (ws : WS), ∀ e ∈ (walkValue s cur exp dfn v ws).2, e.cur = cur
    | .mk k raw ch p, ws, e, he => by
      rw [walkValue_mk] at he
      rcases List.mem_append.1 he with he | he
      · cases k <;> simp only [walkChildren] at he <;> first
          | exact walkListChildren_cur s cur exp dfn ch _ e he
          | exact walkObjChildren_cur s cur dfn ch _ e he
          | cases he
      · rw [List.mem_singleton.1 he]
  theorem walkObjChildren_cur (s : SV) (cur : Option OperationDef) (dfn : Option Definition) :
      ∀ (ch : Children) (ws : WS), ∀ e ∈ (walkObjChildren s cur dfn ch ws).2, e.cur = cur
    | .nil, ws, e, he => by simp [walkObjChildren] at he
    | .cons name v p rest, ws, e, he => by
      rw [walkObjChildren_cons] at he
      rcases List.mem_append.1 he with he | he
      · exact walkValue_cur s cur _ _ v ws e he
      · exact walkObjChildren_cur s cur dfn rest _ e he
  theorem walkListChildren_cur (s : SV) (cur : Option OperationDef) (exp : Option GType) (dfn : Option Definition) :
      ∀ (ch : Children) (ws : WS), ∀ e ∈ (walkListChildren s cur exp dfn ch ws).2, e.cur = cur
    | .nil, ws, e, he => by simp [walkListChildren] at he
    | .cons name v p rest, ws, e, he => by
      rw [walkListChildren_cons] at he
      rcases List.mem_append.1 he with he | he
      · exact walkValue_cur s cur _ _ v ws e he
      · exact walkListChildren_cur s cur exp dfn rest _ e he
end

theorem walkArgs_cur (s : SV) (cur : Option OperationDef) (defs : Option (List ArgDef)) :
    ∀ (args : List Argument) (ws : WS), ∀ e ∈ (walkArgs s cur defs args ws).2, e.cur = cur
  | [], ws, e, he => by simp [walkArgs] at he
  | a :: rest, ws, e, he => by
    rw [walkArgs_cons] at he
    rcases List.mem_append.1 he with he | he
    · exact walkValue_cur s cur _ _ a.value ws e he
    · exact walkArgs_cur s cur defs rest _ e he

/- ---------- the `VariableDefinition` link of a variable walked under an operation ---------- -/

theorem varMark_varDef (op : OperationDef) (raw : Bytes) (p : Pos) (ws : WS) :
    (varMark (some op) .variable raw p ws).links.varDef p.start = varForName op.vars raw := by
  simp [varMark, Links.varDef]

mutual
  theorem walkValue_varlink (s : SV) (op : OperationDef) (exp : Option GType) (dfn : Option Definition) :
      ∀ (v : Value) (ws : WS), ∀ e ∈ (walkValue s (some op) exp dfn v ws).2,
        ∀ raw ch p exp' dfn', e.p = .value (.mk .variable raw ch p) exp' dfn' →
          e.links.varDef p.start = varForName op.vars raw
    | .mk k raw0 ch0 p0, ws, e, he, raw, ch, p, exp', dfn', hp => by
      rw [walkValue_mk] at he
      rcases List.mem_append.1 he with he | he
      · cases k <;> simp only [walkChildren] at he <;> first
          | exact walkListChildren_varlink s op exp dfn ch0 _ e he raw ch p exp' dfn' hp
          | exact walkObjChildren_varlink s op dfn ch0 _ e he raw ch p exp' dfn' hp
          | cases he
      · rw [List.mem_singleton.1 he] at hp ⊢
        simp only [Payload.value.injEq, Value.mk.injEq] at hp
        obtain ⟨⟨rfl, rfl, rfl, rfl⟩, _, _⟩ := hp
        simp only [walkChildren]
        exact varMark_varDef op raw0 p0 ws
  theorem walkObjChildren_varlink (s : SV) (op : OperationDef) (dfn : Option Definition) :
      ∀ (ch0 : Children) (ws : WS), ∀ e ∈ (walkObjChildren s (some op) dfn ch0 ws).2,
        ∀ raw ch p exp' dfn', e.p = .value (.mk .variable raw ch p) exp' dfn' →
          e.links.varDef p.start = varForName op.vars raw
    | .nil, ws, e, he => by simp [walkObjChildren] at he
    | .cons name v p rest, ws, e, he => by
      rw [walkObjChildren_cons] at he
      rcases List.mem_append.1 he with he | he
      · exact walkValue_varlink s op _ _ v ws e he
      · exact walkObjChildren_varlink s op dfn rest _ e he
  theorem walkListChildren_varlink (s : SV) (op : OperationDef) (exp : Option GType) (dfn : Option Definition) :
      ∀ (ch0 : Children) (ws : WS), ∀ e ∈ (walkListChildren s (some op) exp dfn ch0 ws).2,
        ∀ raw ch p exp' dfn', e.p = .value (.mk .variable raw ch p) exp' dfn' →
          e.links.varDef p.start = varForName op.vars raw
    | .nil, ws, e, he => by simp [walkListChildren] at he
    | .cons name v p rest, ws, e, he => by
      rw [walkListChildren_cons] at he
      rcases List.mem_append.1 he with he | he
      · exact walkValue_varlink s op _ _ v ws e he
      · exact walkListChildren_varlink s op exp dfn rest _ e he
end

theorem walkArgs_varlink (s : SV) (op : OperationDef) (defs : Option (List ArgDef)) :
    ∀ (args : List Argument) (ws : WS), ∀ e ∈ (walkArgs s (some op) defs args ws).2,
      ∀ raw ch p exp' dfn', e.p = .value (.mk .variable raw ch p) exp' dfn' →
        e.links.varDef p.start = varForName op.vars raw
  | [], ws, e, he => by simp [walkArgs] at he
  | a :: rest, ws, e, he => by
    rw [walkArgs_cons] at he
    rcases List.mem_append.1 he with he | he
    · exact walkValue_varlink s op _ _ a.value ws e he
    · exact walkArgs_varlink s op defs rest _ e he

/- ---------- membership corollaries ---------- -/

theorem mem_of_map_eq {α β γ : Type} {f : α → γ} {g : β → γ} {l : List α} {l' : List β}
    (h : l.map f = l'.map g) {x : α} (hx : x ∈ l) : ∃ y ∈ l', f x = g y := by
  have : f x ∈ l'.map g := h ▸ List.mem_map_of_mem hx
  obtain ⟨y, hy, e⟩ := List.mem_map.1 this
  exact ⟨y, hy, e.symm⟩

/-- every event of a value block is the event of one of its sites -/
theorem walkValue_sound {s : SV} {cur : Option OperationDef} {exp : Option GType} {dfn : Option Definition}
    {v : Value} {ws : WS} {e : Event} (he : e ∈ (walkValue s cur exp dfn v ws).2) :
    ∃ t ∈ valSites s exp dfn v, e.p = .value t.2.2 t.1 t.2.1 :=
  mem_of_map_eq (walkValue_payloads s cur exp dfn v ws) he

/-- every site of a value has its event in the block, whatever the walker state -/
theorem walkValue_complete {s : SV} (cur : Option OperationDef) {exp : Option GType} {dfn : Option Definition}
    {v : Value} (ws : WS) {t : VSite} (ht : t ∈ valSites s exp dfn v) :
    ∃ e ∈ (walkValue s cur exp dfn v ws).2, e.p = .value t.2.2 t.1 t.2.1 := by
  obtain ⟨e, he, h⟩ := mem_of_map_eq (walkValue_payloads s cur exp dfn v ws).symm ht
  exact ⟨e, he, h.symm⟩

theorem walkArgs_sound {s : SV} {cur : Option OperationDef} {defs : Option (List ArgDef)} {args : List Argument}
    {ws : WS} {e : Event} (he : e ∈ (walkArgs s cur defs args ws).2) :
    ∃ t ∈ argValSites s defs args, e.p = .value t.2.2 t.1 t.2.1 :=
  mem_of_map_eq (walkArgs_payloads s cur defs args ws) he

theorem walkArgs_complete {s : SV} (cur : Option OperationDef) {defs : Option (List ArgDef)} {args : List Argument}
    (ws : WS) {t : VSite} (ht : t ∈ argValSites s defs args) :
    ∃ e ∈ (walkArgs s cur defs args ws).2, e.p = .value t.2.2 t.1 t.2.1 := by
  obtain ⟨e, he, h⟩ := mem_of_map_eq (walkArgs_payloads s cur defs args ws).symm ht
  exact ⟨e, he, h.symm⟩

/-- the events of an argument block are value events -/
theorem walkArgs_isValue {s : SV} {cur : Option OperationDef} {defs : Option (List ArgDef)} {args : List Argument}
    {ws : WS} {e : Event} (he : e ∈ (walkArgs s cur defs args ws).2) : ∃ v exp dfn, e.p = .value v exp dfn := by
  obtain ⟨t, _, h⟩ := walkArgs_sound he
  exact ⟨_, _, _, h⟩

theorem walkValue_isValue {s : SV} {cur : Option OperationDef} {exp : Option GType} {dfn : Option Definition}
    {v : Value} {ws : WS} {e : Event} (he : e ∈ (walkValue s cur exp dfn v ws).2) :
    ∃ v exp dfn, e.p = .value v exp dfn := by
  obtain ⟨t, _, h⟩ := walkValue_sound he
  exact ⟨_, _, _, h⟩

/- ---------- the nodes of the sites are the sub-values ---------- -/

mutual
  theorem valSites_values (s : SV) (exp : Option GType) (dfn : Option Definition) :
      ∀ v : Value, (valSites s exp dfn v).map (·.2.2) = subValues v
    | .mk k raw ch p => by
      unfold valSites subValues
      simp only [List.map_append, List.map_cons, List.map_nil]
      congr 1
      cases k <;> simp only [List.map_nil]
      · exact listSites_values s exp dfn ch
      · exact objSites_values s dfn ch
  theorem objSites_values (s : SV) (dfn : Option Definition) :
      ∀ ch : Children, (objSites s dfn ch).map (·.2.2) = childValues ch
    | .nil => by simp [objSites, childValues]
    | .cons name v p rest => by
      rw [objSites, childValues, List.map_append, valSites_values s _ _ v, objSites_values s dfn rest]
  theorem listSites_values (s : SV) (exp : Option GType) (dfn : Option Definition) :
      ∀ ch : Children, (listSites s exp dfn ch).map (·.2.2) = childValues ch
    | .nil => by simp [listSites, childValues]
    | .cons name v p rest => by
      rw [listSites, childValues, List.map_append, valSites_values s _ _ v, listSites_values s exp dfn rest]
end

theorem argValSites_values (s : SV) (defs : Option (List ArgDef)) :
    ∀ args : List Argument, (argValSites s defs args).map (·.2.2) = args.flatMap (fun a => subValues a.value)
  | [] => rfl
  | a :: rest => by
    rw [argValSites, List.map_append, valSites_values, argValSites_values s defs rest, List.flatMap_cons]

theorem self_mem_subValues : ∀ v : Value, v ∈ subValues v
  | .mk k raw ch p => by
    unfold subValues
    exact List.mem_append_right _ (List.mem_singleton.2 rfl)

/-- the value itself is a site, with the links it was walked with -/
theorem self_mem_valSites (s : SV) (exp : Option GType) (dfn : Option Definition) :
    ∀ v : Value, (exp, dfn, v) ∈ valSites s exp dfn v
  | .mk k raw ch p => by
    unfold valSites
    exact List.mem_append_right _ (List.mem_singleton.2 rfl)

theorem mem_argValSites_of_arg (s : SV) (defs : Option (List ArgDef)) :
    ∀ (args : List Argument) (a : Argument), a ∈ args → ∀ t ∈ valSites s (argLink s defs a.name).1 (argLink s defs a.name).2 a.value,
      t ∈ argValSites s defs args
  | [], _, h, _, _ => by cases h
  | b :: rest, a, h, t, ht => by
    rw [argValSites]
    rcases List.mem_cons.1 h with rfl | h
    · exact List.mem_append_left _ ht
    · exact List.mem_append_right _ (mem_argValSites_of_arg s defs rest a h t ht)

theorem mem_argValSites_iff (s : SV) (defs : Option (List ArgDef)) (t : VSite) :
    ∀ (args : List Argument), t ∈ argValSites s defs args ↔
      ∃ a ∈ args, t ∈ valSites s (argLink s defs a.name).1 (argLink s defs a.name).2 a.value
  | [] => by simp [argValSites]
  | b :: rest => by
    rw [argValSites, List.mem_append, mem_argValSites_iff s defs t rest]
    simp

/- ================= A2: the blocks of a run ================= -/

/-- `walker.CurrentOperation` of an event of a run: nil or an operation of the document -/
def CurOk (d : QueryDoc) (cur : Option OperationDef) : Prop := cur = none ∨ ∃ op ∈ d.ops, cur = some op

/-- A property `B` of event lists that holds for every "unit block" the walker emits, for the empty
    list, and is closed under concatenation, holds for the events of a run (`walkDoc_blocks`).  The unit blocks keep the
    argument value events together with the `field` / `directive` event they belong to. -/
structure BlockSites (s : SV) (d : QueryDoc) (B : List Event → Prop) : Prop where
  nil : B []
  append : ∀ {a b : List Event}, B a → B b → B (a ++ b)
  /-- a field: its argument block, then its directives and sub-selections (`mid`), then the event -/
  field : ∀ cur, CurOk d cur → ∀ (f : FieldNode) (parent : Option Definition) (dfn : Option FieldDef) (ws : WS)
    (l : Links) (mid : List Event), B mid →
      B ((walkArgs s cur (dfn.map (·.args)) f.args ws).2 ++ mid ++ [⟨cur, l, .field f parent dfn⟩])
  directive : ∀ cur, CurOk d cur → ∀ (dir : Directive) (parent : Option Definition) (loc : Bytes) (ws : WS) (l : Links),
      B ((walkArgs s cur ((s.directive? dir.name).map (·.args)) dir.args ws).2 ++
          [⟨cur, l, .directive dir (s.directive? dir.name) parent loc⟩])
  directiveList : ∀ cur, CurOk d cur → ∀ ds l, B [⟨cur, l, .directiveList ds⟩]
  inline : ∀ cur, CurOk d cur → ∀ f parent l, B [⟨cur, l, .inlineFragment f parent⟩]
  spread : ∀ cur, CurOk d cur → ∀ f dfn parent l, B [⟨cur, l, .fragmentSpread f dfn parent⟩]
  varDef : ∀ op ∈ d.ops, ∀ v ∈ op.vars, ∀ l, B [⟨some op, l, .variable v (s.type? v.type.name)⟩]
  /-- the block of the default value of a variable definition -/
  varDefault : ∀ op ∈ d.ops, ∀ v ∈ op.vars, ∀ dv, v.default = some dv → ∀ ws,
      B (walkValue s (some op) (some v.type) (s.type? v.type.name) dv ws).2
  operation : ∀ op ∈ d.ops, ∀ used l, B [⟨some op, l, .operation op used⟩]
  fragment : ∀ f ∈ d.frags, ∀ l, B [⟨none, l, .fragment f (s.type? f.typeCond)⟩]

/-- the unit blocks of the walk of selections and directives on behalf of one `cur` -/
structure CurSites (s : SV) (cur : Option OperationDef) (B : List Event → Prop) : Prop where
  nil : B []
  append : ∀ {a b : List Event}, B a → B b → B (a ++ b)
  field : ∀ (f : FieldNode) (parent : Option Definition) (dfn : Option FieldDef) (ws : WS)
    (l : Links) (mid : List Event), B mid →
      B ((walkArgs s cur (dfn.map (·.args)) f.args ws).2 ++ mid ++ [⟨cur, l, .field f parent dfn⟩])
  directive : ∀ (dir : Directive) (parent : Option Definition) (loc : Bytes) (ws : WS) (l : Links),
      B ((walkArgs s cur ((s.directive? dir.name).map (·.args)) dir.args ws).2 ++
          [⟨cur, l, .directive dir (s.directive? dir.name) parent loc⟩])
  directiveList : ∀ ds l, B [⟨cur, l, .directiveList ds⟩]
  inline : ∀ f parent l, B [⟨cur, l, .inlineFragment f parent⟩]
  spread : ∀ f dfn parent l, B [⟨cur, l, .fragmentSpread f dfn parent⟩]

/-- the unit blocks of the walk of one operation (`walkOperation_blocks`) -/
structure OpSites (s : SV) (op : OperationDef) (B : List Event → Prop) : Prop extends CurSites s (some op) B where
  varDef : ∀ v ∈ op.vars, ∀ l, B [⟨some op, l, .variable v (s.type? v.type.name)⟩]
  varDefault : ∀ v ∈ op.vars, ∀ dv, v.default = some dv → ∀ ws,
      B (walkValue s (some op) (some v.type) (s.type? v.type.name) dv ws).2
  operation : ∀ used l, B [⟨some op, l, .operation op used⟩]

theorem BlockSites.toCur {s : SV} {d : QueryDoc} {B : List Event → Prop} (hB : BlockSites s d B)
    (cur : Option OperationDef) (hc : CurOk d cur) : CurSites s cur B :=
  { nil := hB.nil, append := hB.append, field := hB.field cur hc, directive := hB.directive cur hc,
    directiveList := hB.directiveList cur hc, inline := hB.inline cur hc, spread := hB.spread cur hc }

theorem BlockSites.toOp {s : SV} {d : QueryDoc} {B : List Event → Prop} (hB : BlockSites s d B)
    (op : OperationDef) (hop : op ∈ d.ops) : OpSites s op B :=
  { toCurSites := hB.toCur (some op) (Or.inr ⟨op, hop, rfl⟩)
    varDef := hB.varDef op hop, varDefault := hB.varDefault op hop, operation := hB.operation op hop }

section blocks
variable {s : SV} {d : QueryDoc} {B : List Event → Prop}

theorem walkDirectiveItems_blocks {cur : Option OperationDef} (hB : CurSites s cur B)
    (parent : Option Definition) (loc : Bytes) :
    ∀ (ds : List Directive) (ws : WS), B (walkDirectiveItems s cur parent loc ds ws).2
  | [], ws => by simpa [walkDirectiveItems] using hB.nil
  | dir :: rest, ws => by
    simp only [walkDirectiveItems]
    have h1 := hB.directive dir parent loc ws (walkArgs s cur ((s.directive? dir.name).map (·.args)) dir.args ws).1.links
    have h2 := walkDirectiveItems_blocks hB parent loc rest
      (walkArgs s cur ((s.directive? dir.name).map (·.args)) dir.args ws).1
    have := hB.append h1 h2
    simpa [List.append_assoc] using this

theorem walkDirectives_blocks {cur : Option OperationDef} (hB : CurSites s cur B)
    (parent : Option Definition) (ds : List Directive) (loc : Bytes) (ws : WS) :
    B (walkDirectives s cur parent ds loc ws).2 := by
  simp only [walkDirectives]
  exact hB.append (walkDirectiveItems_blocks hB parent loc ds ws) (hB.directiveList ds _)

def JumpB (B : List Event → Prop) (J : Jump) : Prop :=
  ∀ parent sels (ws : WS) r, J parent sels ws = some r → B r.2

mutual
  theorem walkSelection_blocks {cur : Option OperationDef} (hB : CurSites s cur B) (J : Jump)
      (hJ : JumpB B J) :
      ∀ (x : Selection) (parent : Option Definition) (ws : WS) r,
        walkSelection s d cur J parent x ws = some r → B r.2
    | .field al nm args dirs sub p, parent, ws, r, h => by
      unfold walkSelection at h
      simp only at h
      split at h
      · cases h
      · rename_i r3 h3
        injection h with h
        subst h
        have hb := walkSelections_blocks hB J hJ sub _ _ r3 h3
        have hd := walkDirectives_blocks hB
        simp only [List.append_assoc]
        rw [← List.append_assoc _ r3.2, ← List.append_assoc]
        exact hB.field ⟨al, nm, args, dirs, sub, p⟩ parent _ _ _ _ (hB.append (hd _ dirs _ _) hb)
    | .inline tc dirs sub p, parent, ws, r, h => by
      unfold walkSelection at h
      simp only at h
      split at h
      · cases h
      · rename_i r3 h3
        injection h with h
        subst h
        have hb := walkSelections_blocks hB J hJ sub _ _ r3 h3
        exact hB.append (hB.append (walkDirectives_blocks hB _ dirs _ _) hb) (hB.inline _ _ _)
    | .spread nm dirs p, parent, ws, r, h => by
      unfold walkSelection at h
      simp only at h
      have hd := walkDirectives_blocks hB
      cases hf : fragForName d nm with
      | none =>
        rw [hf] at h
        simp only at h
        injection h with h
        subst h
        exact hB.append (hd _ dirs _ _) (hB.spread _ _ _ _)
      | some f =>
        rw [hf] at h
        simp only at h
        split at h
        · injection h with h
          subst h
          exact hB.append (hd _ dirs _ _) (hB.spread _ _ _ _)
        · split at h
          · cases h
          · rename_i r3 h3
            injection h with h
            subst h
            exact hB.append (hB.append (hB.append (hd _ dirs _ _) (hd _ f.dirs _ _)) (hJ _ _ _ r3 h3))
              (hB.spread _ _ _ _)
  theorem walkSelections_blocks {cur : Option OperationDef} (hB : CurSites s cur B) (J : Jump)
      (hJ : JumpB B J) :
      ∀ (xs : Selections) (parent : Option Definition) (ws : WS) r,
        walkSelections s d cur J parent xs ws = some r → B r.2
    | .nil, parent, ws, r, h => by
      simp only [walkSelections] at h
      injection h with h
      subst h
      exact hB.nil
    | .cons x rest, parent, ws, r, h => by
      unfold walkSelections at h
      split at h
      · cases h
      · rename_i r1 h1
        split at h
        · cases h
        · rename_i r2 h2
          injection h with h
          subst h
          exact hB.append (walkSelection_blocks hB J hJ x parent ws r1 h1)
            (walkSelections_blocks hB J hJ rest parent r1.1 r2 h2)
end

theorem walkLevel_blocks {cur : Option OperationDef} (hB : CurSites s cur B) :
    ∀ n, JumpB B (walkLevel s d cur n)
  | 0 => by intro _ _ _ _ h; simp [walkLevel] at h
  | n + 1 => by
    intro parent sels ws r h
    simp only [walkLevel] at h
    exact walkSelections_blocks hB _ (walkLevel_blocks hB n) sels parent ws r h

theorem walkVarDefsA_blocks {op : OperationDef} (hB : OpSites s op B) (ws : WS) :
    ∀ vs : List VarDef, (∀ v ∈ vs, v ∈ op.vars) → B (walkVarDefsA s (some op) ws vs)
  | [], _ => hB.nil
  | v :: rest, hsub => by
    simp only [walkVarDefsA]
    exact hB.append (a := [_]) (hB.varDef v (hsub v List.mem_cons_self) _)
      (walkVarDefsA_blocks hB ws rest (fun x hx => hsub x (List.mem_cons_of_mem _ hx)))

theorem walkVarDefsB_blocks {op : OperationDef} (hB : OpSites s op B) :
    ∀ (vs : List VarDef) (ws : WS), (∀ v ∈ vs, v ∈ op.vars) → B (walkVarDefsB s (some op) vs ws).2
  | [], ws, _ => by simpa [walkVarDefsB] using hB.nil
  | v :: rest, ws, hsub => by
    simp only [walkVarDefsB]
    refine hB.append (hB.append ?_ (walkDirectives_blocks hB.toCurSites _ v.dirs _ _))
      (walkVarDefsB_blocks hB rest _ (fun x hx => hsub x (List.mem_cons_of_mem _ hx)))
    cases hdv : v.default with
    | none => exact hB.nil
    | some dv => exact hB.varDefault v (hsub v List.mem_cons_self) dv hdv ws

/-- a block property that holds for every unit block of the walk of `op` holds for its events -/
theorem walkOperation_blocks {op : OperationDef} (hB : OpSites s op B) (fuel : Nat)
    (l : Links) (r : Links × List Event) (h : walkOperation s d fuel op l = some r) : B r.2 := by
  unfold walkOperation at h
  simp only at h
  split at h
  · cases h
  · rename_i r4 h4
    injection h with h
    subst h
    have hb := walkLevel_blocks (d := d) hB.toCurSites fuel _ _ _ r4 h4
    exact hB.append (hB.append (hB.append (hB.append (walkVarDefsA_blocks hB _ op.vars (fun _ h => h))
      (walkVarDefsB_blocks hB op.vars _ (fun _ h => h))) (walkDirectives_blocks hB.toCurSites _ op.dirs _ _)) hb)
      (hB.operation _ _)

/-- the same for the stand-alone walk of a fragment definition -/
theorem walkFragment_blocks (hB : CurSites s none B) (fuel : Nat) (f : FragmentDef)
    (hfr : ∀ l, B [⟨none, l, .fragment f (s.type? f.typeCond)⟩])
    (l : Links) (r : Links × List Event) (h : walkFragment s d fuel f l = some r) : B r.2 := by
  unfold walkFragment at h
  simp only at h
  split at h
  · cases h
  · rename_i r2 h2
    injection h with h
    subst h
    have hb := walkLevel_blocks (d := d) hB fuel _ _ _ r2 h2
    exact hB.append (hB.append (walkDirectives_blocks hB _ f.dirs _ _) hb) (hfr _)

theorem walkOps_blocks (hB : BlockSites s d B) (fuel : Nat) :
    ∀ (ops : List OperationDef), (∀ op ∈ ops, op ∈ d.ops) → ∀ (l : Links) (r : Links × List Event),
      walkOps s d fuel ops l = some r → B r.2
  | [], _, l, r, h => by
    simp only [walkOps] at h
    injection h with h
    subst h
    exact hB.nil
  | op :: rest, hsub, l, r, h => by
    unfold walkOps at h
    split at h
    · cases h
    · rename_i r1 h1
      split at h
      · cases h
      · rename_i r2 h2
        injection h with h
        subst h
        exact hB.append (walkOperation_blocks (hB.toOp op (hsub op List.mem_cons_self)) fuel l r1 h1)
          (walkOps_blocks hB fuel rest (fun x hx => hsub x (List.mem_cons_of_mem _ hx)) r1.1 r2 h2)

theorem walkFrags_blocks (hB : BlockSites s d B) (fuel : Nat) :
    ∀ (fs : List FragmentDef), (∀ f ∈ fs, f ∈ d.frags) → ∀ (l : Links) (r : Links × List Event),
      walkFrags s d fuel fs l = some r → B r.2
  | [], _, l, r, h => by
    simp only [walkFrags] at h
    injection h with h
    subst h
    exact hB.nil
  | f :: rest, hsub, l, r, h => by
    unfold walkFrags at h
    split at h
    · cases h
    · rename_i r1 h1
      split at h
      · cases h
      · rename_i r2 h2
        injection h with h
        subst h
        exact hB.append (walkFragment_blocks (hB.toCur none (Or.inl rfl)) fuel f (hB.fragment f (hsub f List.mem_cons_self)) l r1 h1)
          (walkFrags_blocks hB fuel rest (fun x hx => hsub x (List.mem_cons_of_mem _ hx)) r1.1 r2 h2)

/-- a block property that holds for every unit block holds for the events of a run -/
theorem walkDoc_blocks (hB : BlockSites s d B) (evs : List Event) (h : walkDoc s d = some evs) : B evs := by
  unfold walkDoc at h
  split at h
  · cases h
  · rename_i r1 h1
    split at h
    · cases h
    · rename_i r2 h2
      injection h with h
      subst h
      exact hB.append (walkOps_blocks hB _ d.ops (fun _ h => h) _ r1 h1)
        (walkFrags_blocks hB _ d.frags (fun _ h => h) _ r2 h2)

end blocks

/- ---------- where value events come from ---------- -/

/-- the value event `e` belongs to the argument block of a `field` event of `blk`, to the argument
    block of a `directive` event of `blk`, or to the block of a variable default of the document -/
def ValueOrigin (s : SV) (d : QueryDoc) (blk : List Event) (e : Event) : Prop :=
  (∃ e' ∈ blk, ∃ f par fd ws, e'.p = .field f par fd ∧ e'.cur = e.cur ∧
      e ∈ (walkArgs s e.cur (fd.map (·.args)) f.args ws).2) ∨
  (∃ e' ∈ blk, ∃ dir dd par loc ws, e'.p = .directive dir dd par loc ∧ e'.cur = e.cur ∧
      e ∈ (walkArgs s e.cur (dd.map (·.args)) dir.args ws).2) ∨
  (∃ op ∈ d.ops, ∃ vd ∈ op.vars, ∃ dv ws, vd.default = some dv ∧ e.cur = some op ∧
      e ∈ (walkValue s (some op) (some vd.type) (s.type? vd.type.name) dv ws).2)

theorem ValueOrigin.mono {s : SV} {d : QueryDoc} {a b : List Event} {e : Event} (hab : ∀ x ∈ a, x ∈ b)
    (h : ValueOrigin s d a e) : ValueOrigin s d b e := by
  rcases h with ⟨e', he', x⟩ | ⟨e', he', x⟩ | h
  · exact Or.inl ⟨e', hab e' he', x⟩
  · exact Or.inr (Or.inl ⟨e', hab e' he', x⟩)
  · exact Or.inr (Or.inr h)

/-- the local invariant of the blocks of a run -/
structure ValInv (s : SV) (d : QueryDoc) (blk : List Event) : Prop where
  origin : ∀ e ∈ blk, ∀ v exp dfn, e.p = .value v exp dfn → ValueOrigin s d blk e
  fieldArgs : ∀ e' ∈ blk, ∀ f par fd, e'.p = .field f par fd →
    ∃ ws, ∀ e ∈ (walkArgs s e'.cur (fd.map (·.args)) f.args ws).2, e ∈ blk
  dirArgs : ∀ e' ∈ blk, ∀ dir dd par loc, e'.p = .directive dir dd par loc →
    ∃ ws, ∀ e ∈ (walkArgs s e'.cur (dd.map (·.args)) dir.args ws).2, e ∈ blk

theorem ValInv.nil {s : SV} {d : QueryDoc} : ValInv s d [] :=
  ⟨fun _ h => (nomatch h), fun _ h => (nomatch h), fun _ h => (nomatch h)⟩

theorem ValInv.append {s : SV} {d : QueryDoc} {a b : List Event} (ha : ValInv s d a) (hb : ValInv s d b) :
    ValInv s d (a ++ b) := by
  have hl : ∀ x ∈ a, x ∈ a ++ b := fun x hx => List.mem_append_left _ hx
  have hr : ∀ x ∈ b, x ∈ a ++ b := fun x hx => List.mem_append_right _ hx
  refine ⟨fun e he v exp dfn hp => ?_, fun e' he' f par fd hp => ?_, fun e' he' dir dd par loc hp => ?_⟩
  · rcases List.mem_append.1 he with he | he
    · exact (ha.origin e he v exp dfn hp).mono hl
    · exact (hb.origin e he v exp dfn hp).mono hr
  · rcases List.mem_append.1 he' with he' | he'
    · obtain ⟨ws, h⟩ := ha.fieldArgs e' he' f par fd hp
      exact ⟨ws, fun e he => hl e (h e he)⟩
    · obtain ⟨ws, h⟩ := hb.fieldArgs e' he' f par fd hp
      exact ⟨ws, fun e he => hr e (h e he)⟩
  · rcases List.mem_append.1 he' with he' | he'
    · obtain ⟨ws, h⟩ := ha.dirArgs e' he' dir dd par loc hp
      exact ⟨ws, fun e he => hl e (h e he)⟩
    · obtain ⟨ws, h⟩ := hb.dirArgs e' he' dir dd par loc hp
      exact ⟨ws, fun e he => hr e (h e he)⟩

/-- an event that is neither a value nor a field nor a directive event is a block of its own -/
theorem ValInv.single {s : SV} {d : QueryDoc} (e : Event) (h1 : ∀ v exp dfn, e.p ≠ .value v exp dfn)
    (h2 : ∀ f par fd, e.p ≠ .field f par fd) (h3 : ∀ dir dd par loc, e.p ≠ .directive dir dd par loc) :
    ValInv s d [e] := by
  refine ⟨fun x hx v exp dfn hp => ?_, fun x hx f par fd hp => ?_, fun x hx dir dd par loc hp => ?_⟩
  · rw [List.mem_singleton.1 hx] at hp
    exact absurd hp (h1 _ _ _)
  · rw [List.mem_singleton.1 hx] at hp
    exact absurd hp (h2 _ _ _)
  · rw [List.mem_singleton.1 hx] at hp
    exact absurd hp (h3 _ _ _ _)

theorem valInv_sites (s : SV) (d : QueryDoc) : BlockSites s d (ValInv s d) where
  nil := ValInv.nil
  append := ValInv.append
  field := by
    intro cur _ f parent dfn ws l mid hmid
    have hargs : ∀ x ∈ (walkArgs s cur (dfn.map (·.args)) f.args ws).2,
        x ∈ (walkArgs s cur (dfn.map (·.args)) f.args ws).2 ++ mid ++ [⟨cur, l, .field f parent dfn⟩] :=
      fun x hx => List.mem_append_left _ (List.mem_append_left _ hx)
    have hm : ∀ x ∈ mid, x ∈ (walkArgs s cur (dfn.map (·.args)) f.args ws).2 ++ mid ++ [⟨cur, l, .field f parent dfn⟩] :=
      fun x hx => List.mem_append_left _ (List.mem_append_right _ hx)
    have hev : (⟨cur, l, .field f parent dfn⟩ : Event) ∈
        (walkArgs s cur (dfn.map (·.args)) f.args ws).2 ++ mid ++ [⟨cur, l, .field f parent dfn⟩] :=
      List.mem_append_right _ (List.mem_singleton.2 rfl)
    refine ⟨fun e he v exp dfn' hp => ?_, fun e' he' f' par fd hp => ?_, fun e' he' dir dd par loc hp => ?_⟩
    · rcases List.mem_append.1 he with he | he
      · rcases List.mem_append.1 he with he | he
        · have hc := walkArgs_cur s cur _ f.args ws e he
          refine Or.inl ⟨_, hev, f, parent, dfn, ws, rfl, hc.symm, ?_⟩
          rw [hc]
          exact he
        · exact (hmid.origin e he v exp dfn' hp).mono hm
      · rw [List.mem_singleton.1 he] at hp
        cases hp
    · rcases List.mem_append.1 he' with he' | he'
      · rcases List.mem_append.1 he' with he' | he'
        · obtain ⟨_, _, _, hv⟩ := walkArgs_isValue he'
          rw [hv] at hp
          cases hp
        · obtain ⟨ws', h⟩ := hmid.fieldArgs e' he' f' par fd hp
          exact ⟨ws', fun e he => hm e (h e he)⟩
      · rw [List.mem_singleton.1 he'] at hp ⊢
        simp only [Payload.field.injEq] at hp
        obtain ⟨rfl, _, rfl⟩ := hp
        exact ⟨ws, hargs⟩
    · rcases List.mem_append.1 he' with he' | he'
      · rcases List.mem_append.1 he' with he' | he'
        · obtain ⟨_, _, _, hv⟩ := walkArgs_isValue he'
          rw [hv] at hp
          cases hp
        · obtain ⟨ws', h⟩ := hmid.dirArgs e' he' dir dd par loc hp
          exact ⟨ws', fun e he => hm e (h e he)⟩
      · rw [List.mem_singleton.1 he'] at hp
        cases hp
  directive := by
    intro cur _ dir parent loc ws l
    refine ⟨fun e he v exp dfn' hp => ?_, fun e' he' f' par fd hp => ?_, fun e' he' dir' dd par loc' hp => ?_⟩
    · rcases List.mem_append.1 he with he | he
      · have hc := walkArgs_cur s cur _ dir.args ws e he
        refine Or.inr (Or.inl ⟨_, List.mem_append_right _ (List.mem_singleton.2 rfl), dir, _, parent, loc, ws, rfl, hc.symm, ?_⟩)
        rw [hc]
        exact he
      · rw [List.mem_singleton.1 he] at hp
        cases hp
    · rcases List.mem_append.1 he' with he' | he'
      · obtain ⟨_, _, _, hv⟩ := walkArgs_isValue he'
        rw [hv] at hp
        cases hp
      · rw [List.mem_singleton.1 he'] at hp
        cases hp
    · rcases List.mem_append.1 he' with he' | he'
      · obtain ⟨_, _, _, hv⟩ := walkArgs_isValue he'
        rw [hv] at hp
        cases hp
      · rw [List.mem_singleton.1 he'] at hp ⊢
        simp only [Payload.directive.injEq] at hp
        obtain ⟨rfl, rfl, _, _⟩ := hp
        exact ⟨ws, fun e he => List.mem_append_left _ he⟩
  directiveList := fun _ _ _ _ => ValInv.single _ (by simp) (by simp) (by simp)
  inline := fun _ _ _ _ _ => ValInv.single _ (by simp) (by simp) (by simp)
  spread := fun _ _ _ _ _ _ => ValInv.single _ (by simp) (by simp) (by simp)
  varDef := fun _ _ _ _ _ => ValInv.single _ (by simp) (by simp) (by simp)
  varDefault := by
    intro op hop vd hvd dv hdv ws
    refine ⟨fun e he v exp dfn' hp => ?_, fun e' he' f' par fd hp => ?_, fun e' he' dir' dd par loc' hp => ?_⟩
    · exact Or.inr (Or.inr ⟨op, hop, vd, hvd, dv, ws, hdv, walkValue_cur s _ _ _ dv ws e he, he⟩)
    · obtain ⟨_, _, _, hv⟩ := walkValue_isValue he'
      rw [hv] at hp
      cases hp
    · obtain ⟨_, _, _, hv⟩ := walkValue_isValue he'
      rw [hv] at hp
      cases hp
  operation := fun _ _ _ _ => ValInv.single _ (by simp) (by simp) (by simp)
  fragment := fun _ _ _ => ValInv.single _ (by simp) (by simp) (by simp)

/-- every value event of a run hangs off a `field` event, a `directive` event, or a variable default -/
theorem walkDoc_value_origin (s : SV) (d : QueryDoc) (evs : List Event) (hw : walkDoc s d = some evs) :
    ∀ e ∈ evs, ∀ v exp dfn, e.p = .value v exp dfn →
      (∃ e' ∈ evs, ∃ f par fd ws, e'.p = .field f par fd ∧ e'.cur = e.cur ∧
          e ∈ (walkArgs s e.cur (fd.map (·.args)) f.args ws).2) ∨
      (∃ e' ∈ evs, ∃ dir dd par loc ws, e'.p = .directive dir dd par loc ∧ e'.cur = e.cur ∧
          e ∈ (walkArgs s e.cur (dd.map (·.args)) dir.args ws).2) ∨
      (∃ op ∈ d.ops, ∃ vd ∈ op.vars, ∃ dv ws, vd.default = some dv ∧ e.cur = some op ∧
          e ∈ (walkValue s (some op) (some vd.type) (s.type? vd.type.name) dv ws).2) :=
  (walkDoc_blocks (valInv_sites s d) evs hw).origin

/-- the argument block of every `field` event is in the run -/
theorem walkDoc_fieldArgs_complete (s : SV) (d : QueryDoc) (evs : List Event) (hw : walkDoc s d = some evs) :
    ∀ e' ∈ evs, ∀ f par fd, e'.p = .field f par fd →
      ∃ ws, ∀ e ∈ (walkArgs s e'.cur (fd.map (·.args)) f.args ws).2, e ∈ evs :=
  (walkDoc_blocks (valInv_sites s d) evs hw).fieldArgs

/-- the argument block of every `directive` event is in the run -/
theorem walkDoc_directiveArgs_complete (s : SV) (d : QueryDoc) (evs : List Event) (hw : walkDoc s d = some evs) :
    ∀ e' ∈ evs, ∀ dir dd par loc, e'.p = .directive dir dd par loc →
      ∃ ws, ∀ e ∈ (walkArgs s e'.cur (dd.map (·.args)) dir.args ws).2, e ∈ evs :=
  (walkDoc_blocks (valInv_sites s d) evs hw).dirArgs

/-- every variable walked on behalf of an operation carries, in the snapshot of its event, the
    `VariableDefinition` link `op.vars.ForName(name)` -/
theorem walkDoc_varlink (s : SV) (d : QueryDoc) (evs : List Event) (hw : walkDoc s d = some evs) :
    ∀ e ∈ evs, ∀ op, e.cur = some op → ∀ raw ch p exp dfn, e.p = .value (.mk .variable raw ch p) exp dfn →
      e.links.varDef p.start = varForName op.vars raw := by
  intro e he op hc raw ch p exp dfn hp
  rcases walkDoc_value_origin s d evs hw e he _ exp dfn hp with
    ⟨_, _, f, _, fd, ws, _, _, hin⟩ | ⟨_, _, dir, dd, _, _, ws, _, _, hin⟩ | ⟨op', _, vd, _, dv, ws, _, hc', hin⟩
  · rw [hc] at hin
    exact walkArgs_varlink s op _ f.args ws e hin raw ch p exp dfn hp
  · rw [hc] at hin
    exact walkArgs_varlink s op _ dir.args ws e hin raw ch p exp dfn hp
  · rw [hc] at hc'
    cases hc'
    exact walkValue_varlink s op _ _ dv ws e hin raw ch p exp dfn hp

/- ---------- the blocks of the variable defaults are in the run ---------- -/

theorem walkVarDefsB_default_complete (s : SV) (cur : Option OperationDef) :
    ∀ (vs : List VarDef) (ws : WS), ∀ vd ∈ vs, ∀ dv, vd.default = some dv →
      ∃ ws', ∀ e ∈ (walkValue s cur (some vd.type) (s.type? vd.type.name) dv ws').2, e ∈ (walkVarDefsB s cur vs ws).2
  | [], _, vd, h => nomatch h
  | v :: rest, ws, vd, h => by
    intro dv hdv
    simp only [walkVarDefsB]
    rcases List.mem_cons.1 h with rfl | h
    · refine ⟨ws, fun e he => ?_⟩
      rw [hdv]
      exact List.mem_append_left _ (List.mem_append_left _ he)
    · obtain ⟨ws', h'⟩ := walkVarDefsB_default_complete s cur rest _ vd h dv hdv
      exact ⟨ws', fun e he => List.mem_append_right _ (h' e he)⟩

theorem walkOperation_default_complete (s : SV) (d : QueryDoc) (fuel : Nat) (op : OperationDef) (l : Links)
    (r : Links × List Event) (h : walkOperation s d fuel op l = some r) :
    ∀ vd ∈ op.vars, ∀ dv, vd.default = some dv →
      ∃ ws, ∀ e ∈ (walkValue s (some op) (some vd.type) (s.type? vd.type.name) dv ws).2, e ∈ r.2 := by
  intro vd hvd dv hdv
  unfold walkOperation at h
  simp only at h
  split at h
  · cases h
  · rename_i r4 h4
    injection h with h
    subst h
    obtain ⟨ws', h'⟩ := walkVarDefsB_default_complete s (some op) op.vars _ vd hvd dv hdv
    refine ⟨ws', fun e he => ?_⟩
    exact List.mem_append_left _ (List.mem_append_left _ (List.mem_append_left _ (List.mem_append_right _ (h' e he))))

theorem walkOps_default_complete (s : SV) (d : QueryDoc) (fuel : Nat) :
    ∀ (ops : List OperationDef) (l : Links) (r : Links × List Event), walkOps s d fuel ops l = some r →
      ∀ op ∈ ops, ∀ vd ∈ op.vars, ∀ dv, vd.default = some dv →
        ∃ ws, ∀ e ∈ (walkValue s (some op) (some vd.type) (s.type? vd.type.name) dv ws).2, e ∈ r.2
  | [], _, _, _, op, hop => nomatch hop
  | o :: rest, l, r, h, op, hop => by
    intro vd hvd dv hdv
    unfold walkOps at h
    split at h
    · cases h
    · rename_i r1 h1
      split at h
      · cases h
      · rename_i r2 h2
        injection h with h
        subst h
        rcases List.mem_cons.1 hop with rfl | hop
        · obtain ⟨ws, h'⟩ := walkOperation_default_complete s d fuel op l r1 h1 vd hvd dv hdv
          exact ⟨ws, fun e he => List.mem_append_left _ (h' e he)⟩
        · obtain ⟨ws, h'⟩ := walkOps_default_complete s d fuel rest r1.1 r2 h2 op hop vd hvd dv hdv
          exact ⟨ws, fun e he => List.mem_append_right _ (h' e he)⟩

/-- the block of every variable default is in the run -/
theorem walkDoc_defaults_complete (s : SV) (d : QueryDoc) (evs : List Event) (hw : walkDoc s d = some evs) :
    ∀ op ∈ d.ops, ∀ vd ∈ op.vars, ∀ dv, vd.default = some dv →
      ∃ ws, ∀ e ∈ (walkValue s (some op) (some vd.type) (s.type? vd.type.name) dv ws).2, e ∈ evs := by
  intro op hop vd hvd dv hdv
  unfold walkDoc at hw
  split at hw
  · cases hw
  · rename_i r1 h1
    split at hw
    · cases hw
    · rename_i r2 h2
      injection hw with hw
      subst hw
      obtain ⟨ws, h'⟩ := walkOps_default_complete s d _ d.ops _ r1 h1 op hop vd hvd dv hdv
      exact ⟨ws, fun e he => List.mem_append_left _ (h' e he)⟩

/- ---------- `CurrentOperation` of the events of a run ---------- -/

theorem curOk_sites (s : SV) (d : QueryDoc) : BlockSites s d (fun blk => ∀ e ∈ blk, CurOk d e.cur) where
  nil := fun _ h => nomatch h
  append := fun ha hb e he => (List.mem_append.1 he).elim (ha e) (hb e)
  field := by
    intro cur hc f parent dfn ws l mid hmid e he
    rcases List.mem_append.1 he with he | he
    · rcases List.mem_append.1 he with he | he
      · rw [walkArgs_cur s cur _ _ ws e he]; exact hc
      · exact hmid e he
    · rw [List.mem_singleton.1 he]; exact hc
  directive := by
    intro cur hc dir parent loc ws l e he
    rcases List.mem_append.1 he with he | he
    · rw [walkArgs_cur s cur _ _ ws e he]; exact hc
    · rw [List.mem_singleton.1 he]; exact hc
  directiveList := fun _ hc _ _ e he => by rw [List.mem_singleton.1 he]; exact hc
  inline := fun _ hc _ _ _ e he => by rw [List.mem_singleton.1 he]; exact hc
  spread := fun _ hc _ _ _ _ e he => by rw [List.mem_singleton.1 he]; exact hc
  varDef := fun op hop _ _ _ e he => by rw [List.mem_singleton.1 he]; exact Or.inr ⟨op, hop, rfl⟩
  varDefault := fun op hop _ _ dv _ ws e he => by
    rw [walkValue_cur s _ _ _ dv ws e he]; exact Or.inr ⟨op, hop, rfl⟩
  operation := fun op hop _ _ e he => by rw [List.mem_singleton.1 he]; exact Or.inr ⟨op, hop, rfl⟩
  fragment := fun _ _ _ e he => by rw [List.mem_singleton.1 he]; exact Or.inl rfl

theorem cur_sites (s : SV) (cur : Option OperationDef) : CurSites s cur (fun blk => ∀ e ∈ blk, e.cur = cur) where
  nil := fun _ h => nomatch h
  append := fun ha hb e he => (List.mem_append.1 he).elim (ha e) (hb e)
  field := by
    intro f parent dfn ws l mid hmid e he
    rcases List.mem_append.1 he with he | he
    · rcases List.mem_append.1 he with he | he
      · exact walkArgs_cur s cur _ _ ws e he
      · exact hmid e he
    · rw [List.mem_singleton.1 he]
  directive := by
    intro dir parent loc ws l e he
    rcases List.mem_append.1 he with he | he
    · exact walkArgs_cur s cur _ _ ws e he
    · rw [List.mem_singleton.1 he]
  directiveList := fun _ _ e he => by rw [List.mem_singleton.1 he]
  inline := fun _ _ _ e he => by rw [List.mem_singleton.1 he]
  spread := fun _ _ _ _ e he => by rw [List.mem_singleton.1 he]

/-- every event of the walk of an operation is fired with `CurrentOperation` = that operation -/
theorem walkOperation_cur (s : SV) (d : QueryDoc) (fuel : Nat) (op : OperationDef) (l : Links)
    (r : Links × List Event) (h : walkOperation s d fuel op l = some r) : ∀ e ∈ r.2, e.cur = some op :=
  walkOperation_blocks (B := fun blk => ∀ e ∈ blk, e.cur = some op)
    { toCurSites := cur_sites s (some op)
      varDef := fun _ _ _ e he => by rw [List.mem_singleton.1 he]
      varDefault := fun _ _ dv _ ws e he => walkValue_cur s _ _ _ dv ws e he
      operation := fun _ _ e he => by rw [List.mem_singleton.1 he] } fuel l r h

/-- every event of the stand-alone walk of a fragment definition is fired with `CurrentOperation = nil` -/
theorem walkFragment_cur (s : SV) (d : QueryDoc) (fuel : Nat) (f : FragmentDef) (l : Links)
    (r : Links × List Event) (h : walkFragment s d fuel f l = some r) : ∀ e ∈ r.2, e.cur = none :=
  walkFragment_blocks (B := fun blk => ∀ e ∈ blk, e.cur = none) (cur_sites s none) fuel f
    (fun _ e he => by rw [List.mem_singleton.1 he]) l r h

/-- `CurrentOperation` of every event of a run is nil or an operation of the document -/
theorem walkDoc_cur (s : SV) (d : QueryDoc) (evs : List Event) (hw : walkDoc s d = some evs) :
    ∀ e ∈ evs, e.cur = none ∨ ∃ op ∈ d.ops, e.cur = some op :=
  walkDoc_blocks (curOk_sites s d) evs hw

/- ================= A3: the value events of a run, syntactically ================= -/

/-- `directiveSites_iff` without the location (and so without a hypothesis on the operation kinds):
    the directive lists of `Spec.directiveSites` are the directive lists written in the document -/
theorem directiveSites_dirs_iff (s : Schema) (d : QueryDoc) (ds : List Directive) :
    (∃ loc, (loc, ds) ∈ Spec.directiveSites s d) ↔ ∃ loc, InDoc s.view d (.dirs loc ds) := by
  unfold Spec.directiveSites InDoc
  simp only [List.mem_append, List.mem_flatMap, List.mem_cons, List.mem_map]
  constructor
  · rintro ⟨loc, ((⟨op, hop, h | ⟨v, hv, h⟩⟩ | ⟨f, hf, h⟩) | ⟨t, ht, h⟩)⟩
    · injection h with h1 h2
      exact ⟨_, Or.inl ⟨op, hop, Or.inr (Or.inl (by rw [h2]))⟩⟩
    · injection h with h1 h2
      exact ⟨_, Or.inl ⟨op, hop, Or.inr (Or.inr ⟨v, hv, by rw [← h2]⟩)⟩⟩
    · injection h with h1 h2
      exact ⟨_, Or.inr ⟨f, hf, Or.inr (by rw [← h2])⟩⟩
    · injection h with h1 h2
      subst h1 h2
      rcases docSels_mem_inDocSel s d t ht with ⟨op, hop, hs⟩ | ⟨f, hf, hs⟩
      · exact ⟨_, Or.inl ⟨op, hop, Or.inl (inSels_dirs_of_sel _ _ hs)⟩⟩
      · exact ⟨_, Or.inr ⟨f, hf, Or.inl (inSels_dirs_of_sel _ _ hs)⟩⟩
  · rintro ⟨loc, (⟨op, hop, h | h | ⟨v, hv, h⟩⟩ | ⟨f, hf, h | h⟩)⟩
    · obtain ⟨y, hy, rfl, rfl⟩ := inSels_dirs_inv _ _ _ h
      obtain ⟨p, hp⟩ := (docSels_iff s d y).2 (Or.inl ⟨op, hop, hy⟩)
      exact ⟨_, Or.inr ⟨⟨p, y⟩, hp, rfl⟩⟩
    · injection h with h1 h2
      exact ⟨_, Or.inl (Or.inl ⟨op, hop, Or.inl (by rw [h2])⟩)⟩
    · injection h with h1 h2
      exact ⟨_, Or.inl (Or.inl ⟨op, hop, Or.inr ⟨v, hv, by rw [h2]⟩⟩)⟩
    · obtain ⟨y, hy, rfl, rfl⟩ := inSels_dirs_inv _ _ _ h
      obtain ⟨p, hp⟩ := (docSels_iff s d y).2 (Or.inr ⟨f, hf, hy⟩)
      exact ⟨_, Or.inr ⟨⟨p, y⟩, hp, rfl⟩⟩
    · injection h with h1 h2
      exact ⟨_, Or.inl (Or.inr ⟨f, hf, by rw [h2]⟩)⟩

/-- `directive_event_sound` for any operation kinds: the location is not compared -/
theorem directive_event_sound' (s : Schema) (d : QueryDoc) (evs : List Event) (hw : walkDoc s.view d = some evs)
    (e : Event) (he : e ∈ evs) (dir : Directive) (dfn : Option DirectiveDef)
    (par : Option Definition) (loc : Bytes) (hp : e.p = .directive dir dfn par loc) :
    dfn = s.directive? dir.name ∧ dir ∈ Spec.allDirectives s d := by
  have := walkDoc_cov s.view d evs hw e he
  rw [hp] at this
  obtain ⟨h1, ds, h2, h3⟩ := this
  obtain ⟨loc', h4⟩ := (directiveSites_dirs_iff s d ds).2 ⟨loc, h2⟩
  refine ⟨h1, ?_⟩
  simp only [Spec.allDirectives, List.mem_flatMap]
  exact ⟨(loc', ds), h4, h3⟩

/-- `directive_event_complete` for any operation kinds: the location is not compared -/
theorem directive_event_complete' (s : Schema) (d : QueryDoc) (evs : List Event) (hw : walkDoc s.view d = some evs)
    (dir : Directive) (hd : dir ∈ Spec.allDirectives s d) :
    ∃ e ∈ evs, ∃ par loc, e.p = .directive dir (s.directive? dir.name) par loc := by
  simp only [Spec.allDirectives, List.mem_flatMap] at hd
  obtain ⟨⟨loc, ds⟩, hls, hd⟩ := hd
  obtain ⟨loc', h⟩ := (directiveSites_dirs_iff s d ds).1 ⟨loc, hls⟩
  obtain ⟨e, he, par, hp⟩ := (walkDoc_hasItems s.view d evs hw _ h).2 dir hd
  exact ⟨e, he, par, loc', hp⟩

theorem mem_subValues_of_site {s : SV} {exp : Option GType} {dfn : Option Definition} {v : Value} {t : VSite}
    (ht : t ∈ valSites s exp dfn v) : t.2.2 ∈ subValues v := by
  rw [← valSites_values s exp dfn v]
  exact List.mem_map_of_mem ht

theorem site_of_mem_subValues (s : SV) (exp : Option GType) (dfn : Option Definition) {v w : Value}
    (hw : w ∈ subValues v) : ∃ t ∈ valSites s exp dfn v, t.2.2 = w := by
  rw [← valSites_values s exp dfn v] at hw
  exact List.mem_map.1 hw

/-- an event of a value block is about a sub-value of the value -/
theorem walkValue_sound_sub {s : SV} {cur : Option OperationDef} {exp : Option GType} {dfn : Option Definition}
    {v : Value} {ws : WS} {e : Event} (he : e ∈ (walkValue s cur exp dfn v ws).2) :
    ∃ w ∈ subValues v, ∃ exp' dfn', e.p = .value w exp' dfn' := by
  obtain ⟨t, ht, hp⟩ := walkValue_sound he
  exact ⟨_, mem_subValues_of_site ht, _, _, hp⟩

theorem walkValue_complete_sub {s : SV} (cur : Option OperationDef) (exp : Option GType) (dfn : Option Definition)
    {v w : Value} (ws : WS) (hw : w ∈ subValues v) :
    ∃ e ∈ (walkValue s cur exp dfn v ws).2, ∃ exp' dfn', e.p = .value w exp' dfn' := by
  obtain ⟨t, ht, rfl⟩ := site_of_mem_subValues s exp dfn hw
  obtain ⟨e, he, hp⟩ := walkValue_complete cur ws ht
  exact ⟨e, he, _, _, hp⟩

/-- an event of an argument block is about a sub-value of the value of one of the arguments -/
theorem walkArgs_sound_sub {s : SV} {cur : Option OperationDef} {defs : Option (List ArgDef)} {args : List Argument}
    {ws : WS} {e : Event} (he : e ∈ (walkArgs s cur defs args ws).2) :
    ∃ a ∈ args, ∃ w ∈ subValues a.value, ∃ exp' dfn', e.p = .value w exp' dfn' := by
  obtain ⟨t, ht, hp⟩ := walkArgs_sound he
  obtain ⟨a, ha, hta⟩ := (mem_argValSites_iff s defs t args).1 ht
  exact ⟨a, ha, _, mem_subValues_of_site hta, _, _, hp⟩

theorem walkArgs_complete_sub {s : SV} (cur : Option OperationDef) (defs : Option (List ArgDef)) {args : List Argument}
    (ws : WS) {a : Argument} (ha : a ∈ args) {w : Value} (hw : w ∈ subValues a.value) :
    ∃ e ∈ (walkArgs s cur defs args ws).2, ∃ exp' dfn', e.p = .value w exp' dfn' := by
  obtain ⟨t, ht, rfl⟩ := site_of_mem_subValues s (argLink s defs a.name).1 (argLink s defs a.name).2 hw
  obtain ⟨e, he, hp⟩ := walkArgs_complete cur ws (mem_argValSites_of_arg s defs args a ha t ht)
  exact ⟨e, he, _, _, hp⟩

theorem mem_allValues_iff (s : Schema) (d : QueryDoc) (v : Value) :
    v ∈ Spec.allValues s d ↔
      (∃ site ∈ Spec.fieldArgSites s d, ∃ a ∈ site.args, a.value = v) ∨
      (∃ site ∈ Spec.directiveArgSites s d, ∃ a ∈ site.args, a.value = v) ∨
      (∃ op ∈ d.ops, ∃ vd ∈ op.vars, vd.default = some v) := by
  simp only [Spec.allValues, Spec.argSites, List.mem_append, List.mem_flatMap, List.mem_map, List.mem_filterMap]
  constructor
  · rintro (⟨site, hs | hs, x⟩ | h)
    · exact Or.inl ⟨site, hs, x⟩
    · exact Or.inr (Or.inl ⟨site, hs, x⟩)
    · exact Or.inr (Or.inr h)
  · rintro (⟨site, hs, x⟩ | ⟨site, hs, x⟩ | h)
    · exact Or.inl ⟨site, Or.inl hs, x⟩
    · exact Or.inl ⟨site, Or.inr hs, x⟩
    · exact Or.inr h

section
variable (s : Schema) (d : QueryDoc) (evs : List Event) (hw : walkDoc s.view d = some evs)
include hw

/-- a `value` event is about a sub-value of a value written in the document -/
theorem value_event_sound (e : Event) (he : e ∈ evs) (w : Value) (exp : Option GType) (dfn : Option Definition)
    (hp : e.p = .value w exp dfn) : ∃ v ∈ Spec.allValues s d, w ∈ subValues v := by
  rcases walkDoc_value_origin s.view d evs hw e he w exp dfn hp with
    ⟨e', he', f, par, fd, ws, hp', _, hin⟩ | ⟨e', he', dir, dd, par, loc, ws, hp', _, hin⟩ |
    ⟨op, hop, vd, hvd, dv, ws, hdv, _, hin⟩
  · obtain ⟨a, ha, w', hw', _, _, hp2⟩ := walkArgs_sound_sub hin
    rw [hp] at hp2
    cases hp2
    obtain ⟨p, hmem⟩ := field_event_sound s d evs hw e' he' f par fd hp'
    refine ⟨a.value, (mem_allValues_iff s d _).2 (Or.inl ⟨⟨(p.bind (Spec.fieldDefOn · f.name)).map (·.args), f.args⟩, ?_, a, ha, rfl⟩), hw'⟩
    simp only [Spec.fieldArgSites, List.mem_filterMap]
    exact ⟨_, hmem, rfl⟩
  · obtain ⟨a, ha, w', hw', _, _, hp2⟩ := walkArgs_sound_sub hin
    rw [hp] at hp2
    cases hp2
    obtain ⟨_, hd⟩ := directive_event_sound' s d evs hw e' he' dir dd par loc hp'
    refine ⟨a.value, (mem_allValues_iff s d _).2 (Or.inr (Or.inl ⟨⟨(s.directive? dir.name).map (·.args), dir.args⟩, ?_, a, ha, rfl⟩)), hw'⟩
    simp only [Spec.directiveArgSites, List.mem_map]
    exact ⟨dir, hd, rfl⟩
  · obtain ⟨w', hw', _, _, hp2⟩ := walkValue_sound_sub hin
    rw [hp] at hp2
    cases hp2
    exact ⟨dv, (mem_allValues_iff s d _).2 (Or.inr (Or.inr ⟨op, hop, vd, hvd, hdv⟩)), hw'⟩

/-- every sub-value (as the walker descends: through list and object literals) of every value
    written in the document has a `value` event -/
theorem value_event_complete (v : Value) (hv : v ∈ Spec.allValues s d) (w : Value) (hsub : w ∈ subValues v) :
    ∃ e ∈ evs, ∃ exp dfn, e.p = .value w exp dfn := by
  rcases (mem_allValues_iff s d v).1 hv with ⟨site, hsite, a, ha, rfl⟩ | ⟨site, hsite, a, ha, rfl⟩ |
    ⟨op, hop, vd, hvd, hdv⟩
  · simp only [Spec.fieldArgSites, List.mem_filterMap] at hsite
    obtain ⟨t, ht, hm⟩ := hsite
    cases hsel : t.sel with
    | field al nm args dirs sub p =>
      rw [hsel] at hm
      simp only [Option.some.injEq] at hm
      subst hm
      obtain ⟨e', he', par, fd, hp'⟩ := field_event_complete s d evs hw t ht al nm args dirs sub p hsel
      obtain ⟨ws, hblk⟩ := walkDoc_fieldArgs_complete s.view d evs hw e' he' _ par fd hp'
      obtain ⟨e, he, x⟩ := walkArgs_complete_sub e'.cur (fd.map (·.args)) ws ha hsub
      exact ⟨e, hblk e he, x⟩
    | spread nm dirs p => rw [hsel] at hm; cases hm
    | inline tc dirs sub p => rw [hsel] at hm; cases hm
  · simp only [Spec.directiveArgSites, List.mem_map] at hsite
    obtain ⟨dir, hd, rfl⟩ := hsite
    obtain ⟨e', he', par, loc, hp'⟩ := directive_event_complete' s d evs hw dir hd
    obtain ⟨ws, hblk⟩ := walkDoc_directiveArgs_complete s.view d evs hw e' he' dir _ par loc hp'
    obtain ⟨e, he, x⟩ := walkArgs_complete_sub e'.cur ((s.directive? dir.name).map (·.args)) ws ha hsub
    exact ⟨e, hblk e he, x⟩
  · obtain ⟨ws, hblk⟩ := walkDoc_defaults_complete s.view d evs hw op hop vd hvd v hdv
    obtain ⟨e, he, x⟩ := walkValue_complete_sub (some op) (some vd.type) (s.view.type? vd.type.name) ws hsub
    exact ⟨e, hblk e he, x⟩

end

end Gql.Validate
