import GqlProofs.ValSpec.ReachClosure
import GqlProofs.ValSpec.Stateful
/-
  NoFragmentCycles (§5.5.2.2): the rule's depth-first search with a global visited set (keyed by
  fragment NAME, recursion through `fragForName`, the FIRST definition of a name) reports nothing
  iff no defined name reaches itself through one or more spreads (`Acyclic`).  With unique fragment
  names this is `Spec.noFragmentCycles`.

  White / grey / black argument.  Grey = the names in `index` (the fragments on the current search
  path), black = visited and not grey.
  * soundness of errors (`cycLevel_sound`): every grey name reaches the fragment being scanned, so
    a spread whose name is grey closes a cycle;
  * completeness (`cycLevel_inv`): while no error is reported, `CycInv` holds: every black name has
    all its DEFINED successors black and lies on no cycle.
-/
namespace Gql.Validate
open Gql Gql.Validate.Rules

/- ---------- the rule's spread list and the specification's ---------- -/

/-- the names of the rule's spread list are those of the specification's, as a set -/
theorem spreadsOf_names (n : Name) : ∀ ss : Selections,
    (∃ node ∈ spreadsOf ss, node.name = n) ↔ n ∈ Spec.spreadsOfSels ss
  | .nil => by simp [spreadsOf, directSpreads, nestedSpreads, Spec.spreadsOfSels]
  | .cons (.field _ _ _ _ sub _) rest => by
    have ih1 := spreadsOf_names n rest
    have ih2 := spreadsOf_names n sub
    rw [spreadsOf] at ih1 ih2 ⊢
    simp only [directSpreads, nestedSpreads, Spec.spreadsOfSels, Spec.spreadsOfSel, List.mem_append] at ih1 ih2 ⊢
    rw [← ih1, ← ih2, spreadsOf]
    simp only [List.mem_append]
    grind
  | .cons (.inline _ _ sub _) rest => by
    have ih1 := spreadsOf_names n rest
    have ih2 := spreadsOf_names n sub
    rw [spreadsOf] at ih1 ih2 ⊢
    simp only [directSpreads, nestedSpreads, Spec.spreadsOfSels, Spec.spreadsOfSel, List.mem_append] at ih1 ih2 ⊢
    rw [← ih1, ← ih2, spreadsOf]
    simp only [List.mem_append]
    grind
  | .cons (.spread nm ds p) rest => by
    have ih1 := spreadsOf_names n rest
    rw [spreadsOf] at ih1 ⊢
    simp only [directSpreads, nestedSpreads, Spec.spreadsOfSels, Spec.spreadsOfSel, List.mem_append, List.mem_cons,
      List.cons_append, List.nil_append] at ih1 ⊢
    rw [← ih1]
    grind

/-- the spreads of the first definition of a name -/
theorem fragSpreads_of_fragForName {d : QueryDoc} {c : Name} {frag : FragmentDef} (h : fragForName d c = some frag) :
    Spec.fragSpreads d c = Spec.spreadsOfSels frag.sel := by
  unfold Spec.fragSpreads
  rw [fragByName_eq, h]

theorem fragSpreads_of_undefined {d : QueryDoc} {c : Name} (h : fragForName d c = none) :
    Spec.fragSpreads d c = [] := by
  unfold Spec.fragSpreads
  rw [fragByName_eq, h]

theorem not_reach_nil {d : QueryDoc} {n : Name} (h : Reach d [] n) : False := by
  induction h with
  | base hn => cases hn
  | step _ _ ih => exact ih

/- ---------- the search ---------- -/

/-- the grey names -/
def gnames (index : List (Name × Nat)) : List Name := index.map Prod.fst

theorem lookup_none_iff (index : List (Name × Nat)) (n : Name) : index.lookup n = none ↔ n ∉ gnames index := by
  rw [List.lookup_eq_none_iff]
  simp only [gnames, List.mem_map, not_exists, not_and, bne_iff_ne, ne_eq]
  constructor
  · intro h p hp e
    exact h p hp e.symm
  · intro h p hp e
    exact h p hp e.symm

/-- the empty-list shortcut of `cycLevel` is what the loop does anyway -/
theorem cycLevel_succ (d : QueryDoc) (n : Nat) (frag : FragmentDef) (path : List SpreadNode)
    (index : List (Name × Nat)) (st : CycState) :
    cycLevel d (n + 1) frag path index st =
      if st.visited.contains frag.name then some st
      else cycLoop d (cycLevel d n) path ((frag.name, path.length) :: index) (spreadsOf frag.sel)
        { st with visited := frag.name :: st.visited } := by
  simp only [cycLevel]
  split
  · rfl
  · cases h : spreadsOf frag.sel with
    | nil => simp [cycLoop]
    | cons a b => simp

/-- errors are only ever appended -/
def RecErrs (R : CycRec) : Prop :=
  ∀ frag path index (st r : CycState), R frag path index st = some r → r.errs = [] → st.errs = []

theorem cycLoop_errs (d : QueryDoc) (R : CycRec) (hR : RecErrs R) (path : List SpreadNode) (index : List (Name × Nat)) :
    ∀ (nodes : List SpreadNode) (st r : CycState), cycLoop d R path index nodes st = some r → r.errs = [] → st.errs = []
  | [], st, r, h, he => by
    simp only [cycLoop] at h
    injection h with h
    subst h
    exact he
  | node :: rest, st, r, h, he => by
    unfold cycLoop at h
    split at h
    · split at h
      · split at h
        · cases h
        · rename_i st' h1
          exact hR _ _ _ _ _ h1 (cycLoop_errs d R hR path index rest st' r h he)
      · exact cycLoop_errs d R hR path index rest st r h he
    · have := cycLoop_errs d R hR path index rest _ r h he
      simp at this

theorem cycLevel_errs (d : QueryDoc) : ∀ n, RecErrs (cycLevel d n)
  | 0 => by intro _ _ _ _ _ h; simp [cycLevel] at h
  | n + 1 => by
    intro frag path index st r h he
    rw [cycLevel_succ] at h
    split at h
    · injection h with h
      subst h
      exact he
    · have := cycLoop_errs d _ (cycLevel_errs d n) _ _ _ _ r h he
      exact this

/-- a spread whose name is on the path is reported -/
theorem cycLoop_grey_errs (d : QueryDoc) (R : CycRec) (hR : RecErrs R) (path : List SpreadNode) (index : List (Name × Nat)) :
    ∀ (nodes : List SpreadNode) (st r : CycState), cycLoop d R path index nodes st = some r → r.errs = [] →
      ∀ node ∈ nodes, node.name ∉ gnames index
  | [], _, _, _, _, _, hm => by cases hm
  | node :: rest, st, r, h, he, x, hx => by
    unfold cycLoop at h
    split at h
    · rename_i hl
      have hrest : ∀ y ∈ rest, y.name ∉ gnames index := by
        split at h
        · split at h
          · cases h
          · exact cycLoop_grey_errs d R hR path index rest _ r h he
        · exact cycLoop_grey_errs d R hR path index rest _ r h he
      rcases List.mem_cons.1 hx with rfl | hx
      · exact (lookup_none_iff _ _).1 hl
      · exact hrest x hx
    · have := cycLoop_errs d R hR path index rest _ r h he
      simp at this

/- ---------- completeness: no error ⇒ the black names are closed and cycle-free ---------- -/

/-- every black name (visited, not on the path) has all its defined successors black and is on no cycle -/
def CycInv (d : QueryDoc) (V G : List Name) : Prop :=
  ∀ m ∈ V, m ∉ G →
    (∀ n ∈ Spec.fragSpreads d m, (fragForName d n).isSome = true → n ∈ V ∧ n ∉ G) ∧
      ¬ Reach d (Spec.fragSpreads d m) m

theorem CycInv.closed {d : QueryDoc} {V G : List Name} (h : CycInv d V G) {m : Name} (hm : m ∈ V) (hg : m ∉ G)
    {x : Name} (hr : Reach d (Spec.fragSpreads d m) x) (hx : (fragForName d x).isSome = true) : x ∈ V ∧ x ∉ G := by
  induction hr with
  | base hn => exact (h m hm hg).1 _ hn hx
  | step _ hn ih =>
    obtain ⟨f, hf, _⟩ := fragSpreads_defined hn
    have hb := ih (by simp [hf])
    exact (h _ hb.1 hb.2).1 _ hn hx

def RecInv (d : QueryDoc) (R : CycRec) : Prop :=
  ∀ frag path index (st r : CycState), fragForName d frag.name = some frag → frag.name ∉ gnames index →
    R frag path index st = some r → r.errs = [] → CycInv d st.visited (gnames index) →
      st.visited ⊆ r.visited ∧ frag.name ∈ r.visited ∧ CycInv d r.visited (gnames index)

theorem cycLoop_inv (d : QueryDoc) (R : CycRec) (hE : RecErrs R) (hR : RecInv d R) (path : List SpreadNode)
    (index : List (Name × Nat)) :
    ∀ (nodes : List SpreadNode) (st r : CycState), cycLoop d R path index nodes st = some r → r.errs = [] →
      CycInv d st.visited (gnames index) →
        st.visited ⊆ r.visited ∧ CycInv d r.visited (gnames index) ∧
          ∀ node ∈ nodes, (fragForName d node.name).isSome = true → node.name ∈ r.visited ∧ node.name ∉ gnames index
  | [], st, r, h, _, hinv => by
    simp only [cycLoop] at h
    injection h with h
    subst h
    exact ⟨fun _ hx => hx, hinv, fun _ hm => by cases hm⟩
  | node :: rest, st, r, h, he, hinv => by
    have hgrey := cycLoop_grey_errs d R hE path index (node :: rest) st r h he
    unfold cycLoop at h
    split at h
    · split at h
      · rename_i f hf
        split at h
        · cases h
        · rename_i st' h1
          have he' := cycLoop_errs d R hE path index rest st' r h he
          have hname := fragForName_name hf
          have hng : f.name ∉ gnames index := by rw [hname]; exact hgrey node List.mem_cons_self
          obtain ⟨s1, m1, i1⟩ := hR f _ index st st' (by rw [hname]; exact hf) hng h1 he' hinv
          obtain ⟨s2, i2, n2⟩ := cycLoop_inv d R hE hR path index rest st' r h he i1
          refine ⟨fun a ha => s2 (s1 ha), i2, ?_⟩
          intro x hx hdef
          rcases List.mem_cons.1 hx with rfl | hx
          · exact ⟨s2 (hname ▸ m1), hgrey _ List.mem_cons_self⟩
          · exact n2 x hx hdef
      · rename_i hf
        obtain ⟨s2, i2, n2⟩ := cycLoop_inv d R hE hR path index rest st r h he hinv
        refine ⟨s2, i2, ?_⟩
        intro x hx hdef
        rcases List.mem_cons.1 hx with rfl | hx
        · rw [hf] at hdef
          cases hdef
        · exact n2 x hx hdef
    · have := cycLoop_errs d R hE path index rest _ r h he
      simp at this

theorem cycLevel_inv (d : QueryDoc) : ∀ n, RecInv d (cycLevel d n)
  | 0 => by intro _ _ _ _ _ _ _ h; simp [cycLevel] at h
  | n + 1 => by
    intro frag path index st r hcan hng h he hinv
    rw [cycLevel_succ] at h
    split at h
    · rename_i hc
      injection h with h
      subst h
      exact ⟨fun _ hx => hx, by simpa using hc, hinv⟩
    · rename_i hc
      have hcV : frag.name ∉ st.visited := by simpa using hc
      have hfs := fragSpreads_of_fragForName hcan
      -- the invariant with the fragment grey
      have hinv1 : CycInv d (frag.name :: st.visited) (gnames ((frag.name, path.length) :: index)) := by
        intro m hm hg
        simp only [gnames, List.map_cons, List.mem_cons, not_or] at hg
        rcases List.mem_cons.1 hm with rfl | hm
        · exact absurd rfl hg.1
        · have := hinv m hm hg.2
          refine ⟨fun x hx hdef => ?_, this.2⟩
          have hb := this.1 x hx hdef
          refine ⟨List.mem_cons_of_mem _ hb.1, ?_⟩
          simp only [gnames, List.map_cons, List.mem_cons, not_or]
          exact ⟨fun e => hcV (e ▸ hb.1), hb.2⟩
      have hloop := cycLoop_inv d _ (cycLevel_errs d n) (cycLevel_inv d n) path _ _ _ r h he hinv1
      obtain ⟨s1, i1, n1⟩ := hloop
      have hcr : frag.name ∈ r.visited := s1 List.mem_cons_self
      have hcg : frag.name ∈ gnames ((frag.name, path.length) :: index) := by simp [gnames]
      have hsub : ∀ x, x ∉ gnames ((frag.name, path.length) :: index) → x ∉ gnames index := by
        intro x hx hxi
        apply hx
        simp only [gnames, List.map_cons, List.mem_cons]
        exact Or.inr hxi
      -- the successors of the fragment are black
      have hsucc : ∀ x ∈ Spec.fragSpreads d frag.name, (fragForName d x).isSome = true →
          x ∈ r.visited ∧ x ∉ gnames ((frag.name, path.length) :: index) := by
        intro x hx hdef
        rw [hfs] at hx
        obtain ⟨node, hnode, rfl⟩ := (spreadsOf_names x frag.sel).2 hx
        exact n1 node hnode hdef
      -- hence everything defined that it reaches
      have hreach : ∀ x, Reach d (Spec.fragSpreads d frag.name) x → (fragForName d x).isSome = true →
          x ∈ r.visited ∧ x ∉ gnames ((frag.name, path.length) :: index) := by
        intro x hr
        induction hr with
        | base hn => exact hsucc _ hn
        | step _ hn ih =>
          intro hdef
          obtain ⟨f, hf, _⟩ := fragSpreads_defined hn
          have hb := ih (by simp [hf])
          exact (i1 _ hb.1 hb.2).1 _ hn hdef
      refine ⟨fun a ha => s1 (List.mem_cons_of_mem _ ha), hcr, ?_⟩
      intro m hm hg
      by_cases hmc : m = frag.name
      · subst hmc
        refine ⟨fun x hx hdef => ?_, ?_⟩
        · have := hsucc x hx hdef
          exact ⟨this.1, hsub _ this.2⟩
        · intro hcyc
          exact (hreach _ hcyc (by simp [hcan])).2 hcg
      · have hg' : m ∉ gnames ((frag.name, path.length) :: index) := by
          simp only [gnames, List.map_cons, List.mem_cons, not_or]
          exact ⟨hmc, hg⟩
        have := i1 m hm hg'
        refine ⟨fun x hx hdef => ?_, this.2⟩
        have hb := this.1 x hx hdef
        exact ⟨hb.1, hsub _ hb.2⟩

/- ---------- soundness of errors: an error closes a cycle ---------- -/

/-- no defined fragment name reaches itself through one or more spreads -/
def Acyclic (d : QueryDoc) : Prop := ∀ m, ¬ Reach d (Spec.fragSpreads d m) m

/-- `g` is `x` or reaches `x` -/
def ReachRefl (d : QueryDoc) (g x : Name) : Prop := g = x ∨ Reach d (Spec.fragSpreads d g) x

theorem ReachRefl.step {d : QueryDoc} {g c x : Name} (h : ReachRefl d g c) (hx : x ∈ Spec.fragSpreads d c) :
    Reach d (Spec.fragSpreads d g) x := by
  rcases h with rfl | h
  · exact Reach.base hx
  · exact Reach.step h hx

def RecSound (d : QueryDoc) (R : CycRec) : Prop :=
  ∀ frag path index (st r : CycState), fragForName d frag.name = some frag →
    (∀ g ∈ gnames index, ReachRefl d g frag.name) → R frag path index st = some r → r.errs = st.errs

theorem cycLoop_sound (d : QueryDoc) (hac : Acyclic d) (R : CycRec) (hR : RecSound d R) (path : List SpreadNode)
    (index : List (Name × Nat)) (c : Name) (hG : ∀ g ∈ gnames index, ReachRefl d g c) :
    ∀ (nodes : List SpreadNode) (st r : CycState), (∀ node ∈ nodes, node.name ∈ Spec.fragSpreads d c) →
      cycLoop d R path index nodes st = some r → r.errs = st.errs
  | [], st, r, _, h => by
    simp only [cycLoop] at h
    injection h with h
    subst h
    rfl
  | node :: rest, st, r, hn, h => by
    have hnode := hn node List.mem_cons_self
    have hrest : ∀ x ∈ rest, x.name ∈ Spec.fragSpreads d c := fun x hx => hn x (List.mem_cons_of_mem _ hx)
    unfold cycLoop at h
    split at h
    · split at h
      · rename_i f hf
        split at h
        · cases h
        · rename_i st' h1
          have hname := fragForName_name hf
          have e1 := hR f _ index st st' (by rw [hname]; exact hf)
            (fun g hg => by rw [hname]; exact Or.inr ((hG g hg).step hnode)) h1
          have e2 := cycLoop_sound d hac R hR path index c hG rest st' r hrest h
          rw [e2, e1]
      · exact cycLoop_sound d hac R hR path index c hG rest st r hrest h
    · rename_i ci hl
      have hg : node.name ∈ gnames index := by
        apply Classical.byContradiction
        intro hng
        rw [(lookup_none_iff _ _).2 hng] at hl
        cases hl
      exact absurd ((hG _ hg).step hnode) (hac _)

theorem cycLevel_sound (d : QueryDoc) (hac : Acyclic d) : ∀ n, RecSound d (cycLevel d n)
  | 0 => by intro _ _ _ _ _ _ _ h; simp [cycLevel] at h
  | n + 1 => by
    intro frag path index st r hcan hG h
    rw [cycLevel_succ] at h
    split at h
    · injection h with h
      subst h
      rfl
    · have hfs := fragSpreads_of_fragForName hcan
      have := cycLoop_sound d hac _ (cycLevel_sound d hac n) path ((frag.name, path.length) :: index) frag.name
        (by
          intro g hg
          simp only [gnames, List.map_cons, List.mem_cons] at hg
          rcases hg with rfl | hg
          · exact Or.inl rfl
          · exact hG g hg)
        (spreadsOf frag.sel) _ r
        (by
          intro node hnode
          rw [hfs]
          exact (spreadsOf_names node.name frag.sel).1 ⟨node, hnode, rfl⟩)
        h
      exact this

/- ---------- the run over the fragment events ---------- -/

theorem fragForName_first {d : QueryDoc} {pre rest : List FragmentDef} {f : FragmentDef}
    (hd : d.frags = pre ++ f :: rest) (h : ∀ g ∈ pre, g.name ≠ f.name) : fragForName d f.name = some f := by
  unfold fragForName
  rw [hd, List.find?_append]
  have : pre.find? (fun x => x.name == f.name) = none := by
    rw [List.find?_eq_none]
    intro g hg
    simpa using h g hg
  rw [this]
  simp

theorem noFragmentCycles_skip (sv : SV) (d : QueryDoc) (st : List Name) (e : Event)
    (h : (fragOf e).isSome = false) : noFragmentCyclesStep sv d st e = .ok st [] := by
  unfold noFragmentCyclesStep
  unfold fragOf at h
  cases hp : e.p <;> simp_all

theorem noFragmentCycles_run (sv : SV) (d : QueryDoc) :
    ∀ (es : List Event) (V : List Name) (pre : List FragmentDef), (∀ e ∈ es, (fragOf e).isSome = true) →
      d.frags = pre ++ fragDefEvents es → (∀ g ∈ pre, g.name ∈ V) →
      ∃ errs, runAll sv d [({ rule := noFragmentCycles, st := V } : Running)] es = .ok errs ∧
        (Acyclic d → errs = []) ∧
        (errs = [] → CycInv d V [] → ∃ V', CycInv d V' [] ∧ ∀ g ∈ d.frags, g.name ∈ V')
  | [], V, pre, _, hd, hpre => by
    refine ⟨[], rfl, fun _ => rfl, fun _ hinv => ⟨V, hinv, ?_⟩⟩
    intro g hg
    rw [hd] at hg
    simp only [fragDefEvents, List.filterMap_nil, List.append_nil] at hg
    exact hpre g hg
  | e :: rest, V, pre, hall, hd, hpre => by
    have he := hall e List.mem_cons_self
    obtain ⟨f, hf⟩ := Option.isSome_iff_exists.1 he
    obtain ⟨dfn, hp⟩ := fragOf_some hf
    have hd' : d.frags = pre ++ f :: fragDefEvents rest := by
      rw [hd]
      simp only [fragDefEvents, List.filterMap_cons, hf]
    have hfm : f ∈ d.frags := by rw [hd']; simp
    obtain ⟨st, hcyc, hsub⟩ := cycLevel_ok d (d.frags.length + 2) f [] [] { visited := V, errs := [] } hfm
      (by have := unvisited_le_length d V; simp only; omega)
    have hcan : V.contains f.name = false → fragForName d f.name = some f := by
      intro hc
      apply fragForName_first hd'
      intro g hg e
      have := hpre g hg
      rw [e] at this
      simp [this] at hc
    -- the facts about this step
    have hstep : f.name ∈ st.visited ∧ (Acyclic d → st.errs = []) ∧
        (st.errs = [] → CycInv d V [] → CycInv d st.visited []) := by
      cases hc : V.contains f.name with
      | true =>
        rw [cycLevel_succ] at hcyc
        simp only [hc, if_true] at hcyc
        injection hcyc with hcyc
        subst hcyc
        exact ⟨by simpa using hc, fun _ => rfl, fun _ h => h⟩
      | false =>
        have hcan' := hcan hc
        refine ⟨?_, ?_, ?_⟩
        · have := cycLevel_inv d _ f [] [] _ st hcan' (by simp [gnames]) hcyc
          rw [cycLevel_succ] at hcyc
          simp only [hc] at hcyc
          have h1 := cycLoop_ok d (cycLevel d (d.frags.length + 1)) (d.frags.length + 1) (cycLevel_ok d _) []
            [(f.name, ([] : List SpreadNode).length)] (spreadsOf f.sel) { visited := f.name :: V, errs := [] }
            (by have := unvisited_le_length d (f.name :: V); simp only; omega)
          obtain ⟨r, hr, hm⟩ := h1
          simp only [Bool.false_eq_true, if_false] at hcyc
          rw [hcyc] at hr
          injection hr with hr
          subst hr
          exact hm List.mem_cons_self
        · intro hac
          exact cycLevel_sound d hac _ f [] [] _ st hcan' (by intro g hg; simp [gnames] at hg) hcyc
        · intro he hinv
          exact (cycLevel_inv d _ f [] [] _ st hcan' (by simp [gnames]) hcyc he hinv).2.2
    obtain ⟨errs', hr, hsound, hcomp⟩ := noFragmentCycles_run sv d rest st.visited (pre ++ [f])
      (fun x hx => hall x (List.mem_cons_of_mem _ hx)) (by rw [hd']; simp)
      (by
        intro g hg
        rcases List.mem_append.1 hg with hg | hg
        · exact hsub (hpre g hg)
        · simp only [List.mem_cons, List.not_mem_nil, or_false] at hg
          subst hg
          exact hstep.1)
    rw [runAll_single_cons]
    simp only [Running.step, noFragmentCycles, noFragmentCyclesStep, hp, hcyc]
    simp only [noFragmentCycles] at hr
    rw [hr]
    refine ⟨_, rfl, ?_, ?_⟩
    · intro hac
      rw [hstep.2.1 hac, hsound hac]
      rfl
    · intro herr hinv
      have h1 : st.errs = [] := by
        have := (List.append_eq_nil_iff.1 herr).1
        simpa using this
      exact hcomp (List.append_eq_nil_iff.1 herr).2 (hstep.2.2 h1 hinv)

/-- the rule, run alone, reports nothing iff no defined fragment name lies on a spread cycle
    (no hypothesis on the document) -/
theorem validate_noFragmentCycles (s : Schema) (d : QueryDoc) :
    validate [noFragmentCycles] s d = .ok [] ↔ Acyclic d := by
  unfold validate
  rw [validateV_ok_iff]
  obtain ⟨evs, hw⟩ := walkDoc_isSome s.view d
  have hfilt := runAll_single_filter s.view d noFragmentCycles (fun e => (fragOf e).isSome)
    (fun st e h => noFragmentCycles_skip s.view d st e h) evs []
  obtain ⟨errs, hr, hsound, hcomp⟩ := noFragmentCycles_run s.view d (evs.filter fun e => (fragOf e).isSome) [] []
    (fun e he => (List.mem_filter.1 he).2)
    (by rw [fragDefEvents_filter, (walkDoc_events s.view d evs hw).2]; rfl)
    (fun g hg => by cases hg)
  have hstart : [noFragmentCycles].map Rule.start = [({ rule := noFragmentCycles, st := [] } : Running)] := rfl
  constructor
  · rintro ⟨evs', hw', hrun⟩
    rw [hw] at hw'
    cases hw'
    rw [hstart, hfilt, hr] at hrun
    injection hrun with hrun
    obtain ⟨V', hinv, hall⟩ := hcomp hrun (fun m hm => by cases hm)
    intro m hcyc
    cases hf : fragForName d m with
    | none =>
      rw [fragSpreads_of_undefined hf] at hcyc
      exact not_reach_nil hcyc
    | some f =>
      have hV := hall f (fragForName_mem hf)
      rw [fragForName_name hf] at hV
      exact (hinv m hV (by simp)).2 hcyc
  · intro h
    refine ⟨evs, hw, ?_⟩
    rw [hstart, hfilt, hr, hsound h]

/- ---------- `Acyclic`, decidably, and the specification predicate ---------- -/

/-- `Acyclic` as a Boolean: the specification's closure started from the spreads of the FIRST
    definition of every defined name -/
def acyclicB (d : QueryDoc) : Bool :=
  d.frags.all fun f => !(Spec.reachFrom d (Spec.fragSpreads d f.name)).contains f.name

theorem acyclic_iff (d : QueryDoc) : Acyclic d ↔ acyclicB d = true := by
  unfold acyclicB
  rw [List.all_eq_true]
  constructor
  · intro h f _
    cases hc : (Spec.reachFrom d (Spec.fragSpreads d f.name)).contains f.name with
    | false => rfl
    | true => exact absurd ((reachFrom_contains_iff d _ _).1 hc) (h f.name)
  · intro h m hcyc
    cases hf : fragForName d m with
    | none =>
      rw [fragSpreads_of_undefined hf] at hcyc
      exact not_reach_nil hcyc
    | some f =>
      have := h f (fragForName_mem hf)
      rw [fragForName_name hf, (reachFrom_contains_iff d _ _).2 hcyc] at this
      cases this

theorem find_name_of_nodup : ∀ (l : List FragmentDef), (l.map (·.name)).Nodup → ∀ f ∈ l,
    l.find? (fun x => x.name == f.name) = some f
  | [], _, _, hf => by cases hf
  | g :: l, hn, f, hf => by
    simp only [List.map_cons, List.nodup_cons] at hn
    rcases List.mem_cons.1 hf with rfl | hf
    · simp
    · have hne : g.name ≠ f.name := fun e => hn.1 (e ▸ List.mem_map.2 ⟨f, hf, rfl⟩)
      rw [List.find?_cons_of_neg (by simpa using hne)]
      exact find_name_of_nodup l hn.2 f hf

/-- with unique fragment names every definition is the one its name resolves to -/
theorem fragForName_of_unique {d : QueryDoc} (hu : Spec.fragmentNameUniqueness d = true) {f : FragmentDef}
    (hf : f ∈ d.frags) : fragForName d f.name = some f :=
  find_name_of_nodup d.frags ((distinct_iff_nodup _).1 hu) f hf

/-- the specification predicate implies `Acyclic` (no hypothesis) … -/
theorem acyclic_of_spec (d : QueryDoc) (h : Spec.noFragmentCycles d = true) : Acyclic d := by
  intro m hcyc
  cases hf : fragForName d m with
  | none =>
    rw [fragSpreads_of_undefined hf] at hcyc
    exact not_reach_nil hcyc
  | some f =>
    unfold Spec.noFragmentCycles at h
    have := List.all_eq_true.1 h f (fragForName_mem hf)
    rw [fragSpreads_of_fragForName hf] at hcyc
    rw [fragForName_name hf, (reachFrom_contains_iff d _ _).2 hcyc] at this
    cases this

/-- … and is implied by it when fragment names are unique -/
theorem spec_of_acyclic (d : QueryDoc) (hu : Spec.fragmentNameUniqueness d = true) (h : Acyclic d) :
    Spec.noFragmentCycles d = true := by
  unfold Spec.noFragmentCycles
  rw [List.all_eq_true]
  intro f hf
  cases hc : (Spec.reachFrom d (Spec.spreadsOfSels f.sel)).contains f.name with
  | false => rfl
  | true =>
    have := (reachFrom_contains_iff d _ _).1 hc
    rw [← fragSpreads_of_fragForName (fragForName_of_unique hu hf)] at this
    exact absurd this (h f.name)

/-- the direction that needs no hypothesis: a document without fragment cycles is accepted -/
theorem noFragmentCycles_silent_of_spec (s : Schema) (d : QueryDoc) (h : Spec.noFragmentCycles d = true) :
    validate [noFragmentCycles] s d = .ok [] :=
  (validate_noFragmentCycles s d).2 (acyclic_of_spec d h)

theorem noFragmentCycles_iff (s : Schema) (d : QueryDoc) (hu : Spec.fragmentNameUniqueness d = true) :
    validate [noFragmentCycles] s d = .ok [] ↔ Spec.noFragmentCycles d = true := by
  rw [validate_noFragmentCycles]
  exact ⟨spec_of_acyclic d hu, acyclic_of_spec d⟩

/- ---------- witnesses ---------- -/

namespace CycWitness
def fld (n : String) : Selection := .field [] (str n) [] [] .nil Pos.zero
def spr (n : String) : Selection := .spread (str n) [] Pos.zero
def frag (n : String) (x : Selection) : FragmentDef :=
  { name := str n, vars := [], typeCond := str "T", dirs := [], sel := .cons x .nil, pos := Pos.zero }
/-- `fragment A on T { x }  fragment A on T { ...B }  fragment B on T { ...A }` -/
def docDup : QueryDoc := { ops := [], frags := [frag "A" (fld "x"), frag "A" (spr "B"), frag "B" (spr "A")] }
/-- `fragment A on T { ...B }  fragment B on T { x }` -/
def docOk : QueryDoc := { ops := [], frags := [frag "A" (spr "B"), frag "B" (fld "x")] }
/-- `fragment A on T { ...B }  fragment B on T { ...A }` -/
def docCyc : QueryDoc := { ops := [], frags := [frag "A" (spr "B"), frag "B" (spr "A")] }
end CycWitness

/-- the hypothesis `fragmentNameUniqueness` is needed: with a second definition of `A` the rule
    explores only the first one (the visited set is keyed by name, recursion goes through the first
    definition) and stays silent, while the second `A` and `B` spread each other -/
theorem noFragmentCycles_needs_unique :
    validate [noFragmentCycles] Schema.empty CycWitness.docDup = .ok [] ∧
      Spec.noFragmentCycles CycWitness.docDup = false ∧
      Spec.fragmentNameUniqueness CycWitness.docDup = false := by
  refine ⟨?_, by decide, by decide⟩
  rw [validate_noFragmentCycles, acyclic_iff]
  decide

/-- the hypothesis is satisfiable, on an accepted and on a rejected document -/
example : Spec.fragmentNameUniqueness CycWitness.docOk = true ∧ Spec.noFragmentCycles CycWitness.docOk = true := by decide
example : Spec.fragmentNameUniqueness CycWitness.docCyc = true ∧ Spec.noFragmentCycles CycWitness.docCyc = false := by decide
example : validate [noFragmentCycles] Schema.empty CycWitness.docCyc ≠ .ok [] := by
  rw [Ne, noFragmentCycles_iff _ _ (by decide)]
  decide

end Gql.Validate
