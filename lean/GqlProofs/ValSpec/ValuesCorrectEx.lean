import GqlProofs.ValSpec.ValuesCorrect
import GqlProofs.Validate.Witness
/-
  ValuesOfCorrectType: kernel-checked examples — the hypotheses of `C08_ValuesOfCorrectType_partial`
  are satisfiable, and for each one an input on which the equivalence fails without it; the
  hazards of the comparison, each confirmed on a concrete input.
-/
namespace Gql.Validate.ValuesEx
open Gql Gql.Validate Gql.Validate.Rules Gql.Validate.Witness

def mkDef (k : DefKind) (n : String) (fields : List FieldDef := []) (evs : List String := []) (dirs : List Directive := []) :
    Definition :=
  { kind := k, desc := [], name := str n, dirs := dirs, interfaces := [], fields := fields, types := [],
    enumValues := evs.map fun v => { desc := [], name := str v, dirs := [], pos := Pos.zero },
    pos := Pos.zero, builtIn := false }

def fld (n : String) (t : GType) (args : List ArgDef := []) : FieldDef :=
  { desc := [], name := str n, args := args, default := none, type := t, dirs := [], pos := Pos.zero }

def tList (e : GType) (nn : Bool := false) : GType := .list e nn Pos.zero

/-- `type Query { f(a: <t>): Int }` plus the built-in scalars and `extra` -/
def schemaWith (t : GType) (extra : List (Name × Definition)) (qkind : DefKind := .object) : Schema :=
  { Schema.empty with
    query := some (str "Query"),
    types := [(str "Int", scalar "Int"), (str "Float", scalar "Float"), (str "String", scalar "String"),
              (str "Boolean", scalar "Boolean"), (str "ID", scalar "ID"),
              (str "Query", mkDef qkind "Query"
                [fld "f" (tNamed "Int") [{ desc := [], name := str "a", default := none, type := t, dirs := [], pos := Pos.zero }]])]
             ++ extra }

/-- `{ f(a: <v>) }` -/
def docArg (v : Value) : QueryDoc :=
  { ops := [{ op := str "query", name := [], vars := [], dirs := [],
              sel := .cons (.field (str "f") (str "f") [{ name := str "a", value := v, pos := at' 4 }] [] .nil (at' 2)) .nil,
              pos := at' 0 }],
    frags := [] }

/-- `query($x: <t> = <dv>) { f }` -/
def docVar (t : GType) (dv : Value) : QueryDoc :=
  { ops := [{ op := str "query", name := [],
              vars := [{ var := str "x", type := t, default := some dv, dirs := [], pos := at' 6 }], dirs := [],
              sel := .cons (.field (str "f") (str "f") [] [] .nil (at' 30)) .nil, pos := at' 0 }],
    frags := [] }

def lit (k : ValueKind) (raw : String) (o : Nat := 10) : Value := .mk k (str raw) .nil (at' o)
def obj (fields : List (String × Value)) (o : Nat := 8) : Value :=
  .mk .object [] (Children.ofList (fields.map fun (n, v) => (str n, v, v.pos))) (at' o)
def lst (items : List Value) (o : Nat := 8) : Value :=
  .mk .list [] (Children.ofList (items.map fun v => ([], v, v.pos))) (at' o)

/-- all hypotheses of the theorem, as one Boolean -/
def hyps (s : Schema) (d : QueryDoc) : Bool :=
  Spec.wellParented s d && schemaOK s && noOneOf s && rootsInput s d && numLiteralsOK s d && leavesWellFormed s d

def ruleSilent (s : Schema) (d : QueryDoc) : Bool := validate [valuesOfCorrectType] s d == .ok []

/- ---------- the hypotheses are satisfiable ---------- -/

/-- `input I { x: [Int!]!, e: E, s: S }  enum E { A B }  scalar S` -/
def richExtra : List (Name × Definition) :=
  [(str "I", mkDef .inputObject "I" [fld "x" (tList (tNamed "Int" true) true), fld "e" (tNamed "E"), fld "s" (tNamed "S")]),
   (str "E", mkDef .enum "E" [] ["A", "B"]),
   (str "S", mkDef .scalar "S")]

/-- `{ f(a: {x: [1, 2], e: A, s: {any: [thing]}}) }` : accepted by both -/
example :
    let s := schemaWith (tNamed "I") richExtra
    let d := docArg (obj [("x", lst [lit .int "1" 12, lit .int "2" 14] 11), ("e", lit .enum "A" 20),
      ("s", obj [("any", lst [lit .enum "thing" 30] 29)] 25)])
    hyps s d = true ∧ ruleSilent s d = true ∧ Spec.valuesOfCorrectType s d = true := by decide

/-- `{ f(a: {x: [1, null], e: C}) }` : rejected by both -/
example :
    let s := schemaWith (tNamed "I") richExtra
    let d := docArg (obj [("x", lst [lit .int "1" 12, lit .null "null" 14] 11), ("e", lit .enum "C" 20)])
    hyps s d = true ∧ ruleSilent s d = false ∧ Spec.valuesOfCorrectType s d = false := by decide

/- ---------- each hypothesis is needed ---------- -/

/-- `Spec.wellParented`: a union that declares a field (not a loaded schema) as the query root;
    `{ f(a: "x") }` with `a: Int`.  The walker finds `f` on the union and types the argument, the
    specification gives a union no fields. -/
example :
    let s := schemaWith (tNamed "Int") [] .union
    let d := docArg (lit .string "x")
    Spec.wellParented s d = false ∧
    (schemaOK s && noOneOf s && rootsInput s d && numLiteralsOK s d && leavesWellFormed s d) = true ∧
    ruleSilent s d = false ∧ Spec.valuesOfCorrectType s d = true := by decide

/-- `schemaOK`, first clause: an enum whose definition is NAMED `Int` (stored under the key `E`);
    `{ f(a: 1) }` with `a: E`.  The rule dispatches on the name (`defOneOf`), the specification on the kind. -/
example :
    let s := schemaWith (tNamed "E") [(str "E", mkDef .enum "Int" [] ["A"])]
    let d := docArg (lit .int "1")
    schemaOK s = false ∧
    (Spec.wellParented s d && noOneOf s && rootsInput s d && numLiteralsOK s d && leavesWellFormed s d) = true ∧
    ruleSilent s d = true ∧ Spec.valuesOfCorrectType s d = false := by decide

/-- `schemaOK`, second clause (hazard 5): a custom scalar that declares a field `x: Int!` (not a loaded schema);
    `{ f(a: {x: null}) }` with `a: S`.  The walker types the child from `dfn.fields` whatever the kind of `dfn`. -/
example :
    let s := schemaWith (tNamed "S") [(str "S", mkDef .scalar "S" [fld "x" (tNamed "Int" true)])]
    let d := docArg (obj [("x", lit .null "null" 12)])
    schemaOK s = false ∧
    (Spec.wellParented s d && noOneOf s && rootsInput s d && numLiteralsOK s d && leavesWellFormed s d) = true ∧
    ruleSilent s d = false ∧ Spec.valuesOfCorrectType s d = true := by decide

/-- `schemaOK`, third clause (hazard 1): an input object with a field of an OBJECT type (not a closed schema),
    `input I { q: Query }`; `{ f(a: {q: {}}) }`.  The rule rejects an object literal at any definition that is not an
    input object; for the specification only scalars, enums and input objects are judged. -/
example :
    let s := schemaWith (tNamed "I") [(str "I", mkDef .inputObject "I" [fld "q" (tNamed "Query")])]
    let d := docArg (obj [("q", obj [] 12)])
    schemaOK s = false ∧
    (Spec.wellParented s d && noOneOf s && rootsInput s d && numLiteralsOK s d && leavesWellFormed s d) = true ∧
    ruleSilent s d = false ∧ Spec.valuesOfCorrectType s d = true := by decide

/-- `noOneOf` (for the statement with `Spec.valuesOfCorrectType` alone): `input One @oneOf { a: String }`,
    `query($x: String = "d") { f(a: {a: $x}) }`: the rule reports the nullable variable; that clause is
    `Spec.oneOfVariablesNonNull`, not `Spec.valuesOfCorrectType`. -/
def docOneOfVar : QueryDoc :=
  { ops := [{ op := str "query", name := [],
              vars := [{ var := str "x", type := tNamed "String", default := some (lit .string "d" 20), dirs := [], pos := at' 6 }],
              dirs := [],
              sel := .cons (.field (str "f") (str "f")
                [{ name := str "a", value := obj [("a", lit .variable "x" 40)] 36, pos := at' 33 }] [] .nil (at' 30)) .nil,
              pos := at' 0 }],
    frags := [] }

example :
    let s := schemaWith (tNamed "One") [(str "One", Witness.oneDef)]
    let d := docOneOfVar
    noOneOf s = false ∧
    (Spec.wellParented s d && schemaOK s && rootsInput s d && numLiteralsOK s d && leavesWellFormed s d) = true ∧
    ruleSilent s d = false ∧ Spec.valuesOfCorrectType s d = true ∧ Spec.oneOfVariablesNonNull s d = false := by decide

/-- `rootsInput` (hazard 9): the type of a variable does not exist, `query($x: [Unknown!] = [null]) { f }`.
    The walker gives the default value no `Definition` (the rule needs one: silent); `Spec.valueOk`
    descends into a list literal at a list type and judges `null` against the non-null item type
    without asking whether the named type exists. -/
example :
    let s := schemaWith (tNamed "Int") []
    let d := docVar (tList (tNamed "Unknown" true)) (lst [lit .null "null" 20] 19)
    rootsInput s d = false ∧
    (Spec.wellParented s d && schemaOK s && noOneOf s && numLiteralsOK s d && leavesWellFormed s d) = true ∧
    ruleSilent s d = true ∧ Spec.valuesOfCorrectType s d = false ∧ Spec.variablesAreInputTypes s d = false := by decide

/-- … the same for `query($x: Unknown! = null) { f }` -/
example :
    let s := schemaWith (tNamed "Int") []
    let d := docVar (tNamed "Unknown" true) (lit .null "null" 20)
    rootsInput s d = false ∧ ruleSilent s d = true ∧ Spec.valuesOfCorrectType s d = false := by decide

/-- `rootsInput` (hazards 1, 10): a variable of an OBJECT type with a default, `query($x: Query = {}) { f }`.
    The rule judges the default (an object literal where no input object is expected), the specification does not. -/
example :
    let s := schemaWith (tNamed "Int") []
    let d := docVar (tNamed "Query") (obj [] 20)
    rootsInput s d = false ∧
    (Spec.wellParented s d && schemaOK s && noOneOf s && numLiteralsOK s d && leavesWellFormed s d) = true ∧
    ruleSilent s d = false ∧ Spec.valuesOfCorrectType s d = true ∧ Spec.variablesAreInputTypes s d = false := by decide

/-- `numLiteralsOK` (hazard 3): an "Int literal" whose text is not an IntValue lexeme, `1x` (no lexer produces it),
    at `a: ID`: `Spec.scalarLitOk` accepts any text of kind Int at `ID`, and so does the rule — but at `a: Int` the two
    arithmetic readings differ. -/
example :
    let s := schemaWith (tNamed "Int") []
    let d := docArg (lit .int "1x")
    numLiteralsOK s d = false ∧ ruleSilent s d = false ∧ Spec.valuesOfCorrectType s d = true := by decide

/-- `leavesWellFormed` (hazard 4): a "Boolean literal" whose text `strconv.ParseBool` does not know, `yes` (no parser
    produces it): `Value.Value(nil)` fails, the specification only looks at the kind. -/
example :
    let s := schemaWith (tNamed "Boolean") []
    let d := docArg (lit .boolean "yes")
    leavesWellFormed s d = false ∧
    (Spec.wellParented s d && schemaOK s && noOneOf s && rootsInput s d && numLiteralsOK s d) = true ∧
    ruleSilent s d = false ∧ Spec.valuesOfCorrectType s d = true := by decide

/-- … and through a variable: `query($x: Boolean = yes) { f(a: $x) }` with `a: Boolean` — the event of `$x`
    evaluates the default value of the linked definition. -/
example :
    let s := schemaWith (tNamed "Boolean") []
    let d : QueryDoc :=
      { ops := [{ op := str "query", name := [],
                  vars := [{ var := str "x", type := tNamed "Boolean", default := some (lit .boolean "yes" 20), dirs := [], pos := at' 6 }],
                  dirs := [],
                  sel := .cons (.field (str "f") (str "f") [{ name := str "a", value := lit .variable "x" 36, pos := at' 33 }] [] .nil (at' 30)) .nil,
                  pos := at' 0 }],
        frags := [] }
    leavesWellFormed s d = false ∧ ruleSilent s d = false ∧ Spec.valuesOfCorrectType s d = true := by decide

/-- `numLiteralsOK` (hazard 3) — FORMER DISAGREEMENT ON PARSER-PRODUCED INPUT, REPAIRED: an IntValue that is too
    large for a finite double, `1` followed by 309 zeros, at `a: Float`.  The rule used to accept every IntValue where
    `Float` is expected; since the repair ("an integer literal beyond the range of a double is not a Float") it applies
    the finite-double test of FloatValue literals (`strconv.ParseFloat`, error or ±Inf) to the integer text as well, as
    the specification does (§3.5.2).  All hypotheses hold (the numeric one is a theorem for IntValue lexemes). -/
def bigInt : Value := .mk .int (49 :: List.replicate 309 48) .nil (at' 10)

example :
    let s := schemaWith (tNamed "Float") []
    let d := docArg bigInt
    hyps s d = true ∧ ruleSilent s d = false ∧ Spec.valuesOfCorrectType s d = false := by decide +kernel

/-- the boundary: `2^1024 - 2^970 - 1` (309 digits; the largest integer that still rounds to the largest finite
    double) is accepted by both, `2^1024 - 2^970` (rounds to +Inf) is rejected by both -/
def natDigits (n : Nat) : Bytes := (Nat.toDigits 10 n).map Char.toNat
def lastFinite : Value := .mk .int (natDigits (2 ^ 1024 - 2 ^ 970 - 1)) .nil (at' 10)
def firstInfinite : Value := .mk .int (natDigits (2 ^ 1024 - 2 ^ 970)) .nil (at' 10)

example :
    let s := schemaWith (tNamed "Float") []
    (hyps s (docArg lastFinite) = true ∧ ruleSilent s (docArg lastFinite) = true ∧
      Spec.valuesOfCorrectType s (docArg lastFinite) = true) ∧
    (hyps s (docArg firstInfinite) = true ∧ ruleSilent s (docArg firstInfinite) = false ∧
      Spec.valuesOfCorrectType s (docArg firstInfinite) = false) := by decide +kernel

/-- … whereas the FloatValue `1e309` is rejected by both (`floatErr`) -/
example :
    let s := schemaWith (tNamed "Float") []
    let d := docArg (lit .float "1e309")
    hyps s d = true ∧ ruleSilent s d = false ∧ Spec.valuesOfCorrectType s d = false := by decide +kernel

/- ---------- further hazards, confirmed ---------- -/

/-- hazard 2: a list literal where a named type is expected — rejected by both, unless the type is a custom scalar -/
example :
    let d := docArg (lst [lit .int "1" 12])
    (hyps (schemaWith (tNamed "Int") []) d = true ∧ ruleSilent (schemaWith (tNamed "Int") []) d = false ∧
      Spec.valuesOfCorrectType (schemaWith (tNamed "Int") []) d = false) ∧
    (let s := schemaWith (tNamed "S") [(str "S", mkDef .scalar "S")]
     hyps s d = true ∧ ruleSilent s d = true ∧ Spec.valuesOfCorrectType s d = true) := by decide

/-- hazard 2: list coercion of a single value (§3.11), `a: [[Int!]]`: `1` accepted, `"x"` and `null`-in-a-list judged
    against the innermost named type / the item type by both -/
example :
    let s := schemaWith (tList (tList (tNamed "Int" true))) []
    (hyps s (docArg (lit .int "1")) = true ∧ ruleSilent s (docArg (lit .int "1")) = true ∧
      Spec.valuesOfCorrectType s (docArg (lit .int "1")) = true) ∧
    (ruleSilent s (docArg (lit .string "x")) = false ∧ Spec.valuesOfCorrectType s (docArg (lit .string "x")) = false) ∧
    (ruleSilent s (docArg (lst [lst [lit .null "null" 14] 12])) = false ∧
      Spec.valuesOfCorrectType s (docArg (lst [lst [lit .null "null" 14] 12])) = false) ∧
    (ruleSilent s (docArg (lst [lit .null "null" 14])) = true ∧
      Spec.valuesOfCorrectType s (docArg (lst [lit .null "null" 14])) = true) := by decide

/-- hazard 7: required and unknown input fields, `input I { x: Int!  y: Int }`: `{}` and `{x: 1, z: 2}` rejected by both -/
example :
    let s := schemaWith (tNamed "I") [(str "I", mkDef .inputObject "I" [fld "x" (tNamed "Int" true), fld "y" (tNamed "Int")])]
    (hyps s (docArg (obj [])) = true ∧ ruleSilent s (docArg (obj [])) = false ∧ Spec.valuesOfCorrectType s (docArg (obj [])) = false) ∧
    (ruleSilent s (docArg (obj [("x", lit .int "1" 12), ("z", lit .int "2" 16)])) = false ∧
      Spec.valuesOfCorrectType s (docArg (obj [("x", lit .int "1" 12), ("z", lit .int "2" 16)])) = false) ∧
    (ruleSilent s (docArg (obj [("x", lit .int "1" 12)])) = true ∧
      Spec.valuesOfCorrectType s (docArg (obj [("x", lit .int "1" 12)])) = true) := by decide

/-- hazard 6, `input One @oneOf { a: String }`: `{}`, `{a: null}` rejected by the rule and by `Spec.oneOfOk`;
    the equivalence WITH `@oneOf` in the schema is `valuesOfCorrectType_iff_oneOfVar` (link-table form). -/
example :
    let s := schemaWith (tNamed "One") [(str "One", Witness.oneDef)]
    (ruleSilent s (docArg (obj [])) = false ∧ Spec.valuesOfCorrectType s (docArg (obj [])) = false) ∧
    (ruleSilent s (docArg (obj [("a", lit .null "null" 12)])) = false ∧
      Spec.valuesOfCorrectType s (docArg (obj [("a", lit .null "null" 12)])) = false) ∧
    (ruleSilent s (docArg (obj [("a", lit .string "x" 12)])) = true ∧
      Spec.valuesOfCorrectType s (docArg (obj [("a", lit .string "x" 12)])) = true) := by decide

end Gql.Validate.ValuesEx
