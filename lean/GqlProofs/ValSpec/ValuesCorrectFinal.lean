import GqlProofs.ValSpec.ValuesCorrectOneOfRun
import GqlProofs.ValSpec.ValuesCorrectOneOfEx
import GqlProofs.ValSpec.ValuesCorrectNum
/-
  ValuesOfCorrectType (§5.6.1, with §5.6.2 field names, §5.6.4 required fields, `@oneOf`) — the final statements.

  The specification entry (`Spec.specValid`) compares the rule with
      Spec.valuesOfCorrectType s d && Spec.oneOfVariablesNonNull s d .

  PROVED (files `ValuesCorrect*.lean`):
    * `C08_ValuesOfCorrectType`           the equivalence, `@oneOf` included;
    * `C08_ValuesOfCorrectType_loaded`    the same with the schema hypotheses of a loaded schema (`Gql.Spec.Closed`, `HasBuiltins`);
    * `C08_ValuesOfCorrectType_partial`   the equivalence for schemas WITHOUT `@oneOf` (`noOneOf s`), with fewer hypotheses;
    * `C08_ValuesOfCorrectType_closed`    the latter with the schema / root hypotheses replaced by clauses of
                                          `Gql.Spec.Closed` and the check's mask `Spec.variablesAreInputTypes`;
    * `C08_ValuesOfCorrectType_complete`  with `@oneOf`: a silent rule implies both specification predicates
                                          (no hypothesis on positions, default values, `Value.Value(nil)`);
    * (in `ValuesCorrect.lean`) `valuesOfCorrectType_iff_oneOfVar`: the link-table form of the `@oneOf` clause.
  The statement WITHOUT hypotheses is false; every hypothesis below has a kernel-checked counterexample
  (`ValuesCorrectEx.lean`, `ValuesCorrectOneOfEx.lean`).

  Hypotheses (all decidable Booleans / decidable propositions):
    `Spec.wellParented s d`   the walker's parent / field definitions are the declarative ones (`walk_parent_type`);
    `schemaOK s`              a definition named like a built-in scalar is a scalar; scalars declare no fields; the
                              fields of input objects have types that resolve to input types
                              (`schemaOK_of_closed`: from `Gql.Spec.Closed`, `HasBuiltins`, "scalars declare no fields");
    `rootsInput s d`          the declared type of every typed value position resolves to an input type
                              (`rootsInput_of_closed`: from `ClosedArgTypes`, `ClosedDirectiveArgTypes`, `variablesAreInputTypes`);
    `numLiteralsOK s d`       for the Int / Float literals at typed positions, `strconv` and the specification's
                              arithmetic agree on the text (`numLeafOK`).  PROVED for every IntValue lexeme, of any
                              size (`numLeafOK_int_of_lexeme`, `ValuesCorrectNum.lean`: `int_lexeme_agree` for
                              `ParseInt(·,10,32)` / `int32Ok`, `int_lexeme_float_agree` for `ParseFloat` / `floatLitFinite`);
                              what remains a hypothesis is the agreement `floatErr raw = !floatLitFinite raw` on
                              FloatValue texts (`numLiteralsOK_of_lexemes`);
    `leavesWellFormed s d`    `Value.Value(nil)` fails on no value of the document (Int / Float / Boolean leaves are
                              well-formed texts; true of parser output);
  and, only when the schema has `@oneOf` input objects:
    `Spec.fragmentNameUniqueness d`  (a prerequisite predicate: the walker and `Spec.opFragments` agree on "the fragment F");
    `constDefaults d`         default values are constants (the grammar's `Value[Const]`);
    `usePosDistinct s d`      node identity by position: two variable usages that start at the same offset have the same
                              name and the same `@oneOf` mark (the link side table is keyed by `pos.start`; the stand-alone
                              walk of a fragment definition reads what the last operation left there).
-/
