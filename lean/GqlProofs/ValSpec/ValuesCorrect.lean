import GqlProofs.ValSpec.ValuesCorrectRun
import GqlProofs.ValSpec.ValuesCorrectLinks
/-
  ValuesOfCorrectType (§5.6.1), part 4: `Value.Value(nil)` and the assembly.
-/
namespace Gql.Validate
open Gql Gql.Validate.Rules

/- ================= `Value.Value(nil)` never fails on well-formed leaves ================= -/

mutual
  theorem constErr_sub : ∀ v : Value, constErr v = false → ∀ w ∈ subValues v, constErr w = false
    | .mk k raw ch p, h, w, hw => by
      unfold subValues at hw
      rcases List.mem_append.1 hw with hw | hw
      · cases k <;> simp only [List.not_mem_nil] at hw
        · unfold constErr at h
          exact constErrs_sub ch h w hw
        · unfold constErr at h
          exact constErrs_sub ch h w hw
      · rw [List.mem_singleton.1 hw]; exact h
  theorem constErrs_sub : ∀ ch : Children, constErrs ch = false → ∀ w ∈ childValues ch, constErr w = false
    | .nil, _, w, hw => by simp [childValues] at hw
    | .cons n v p rest, h, w, hw => by
      rw [constErrs, Bool.or_eq_false_iff] at h
      rw [childValues] at hw
      rcases List.mem_append.1 hw with hw | hw
      · exact constErr_sub v h.1 w hw
      · exact constErrs_sub rest h.2 w hw
end

/-- the default value of every linked variable definition evaluates -/
def DefaultsOK (l : Links) : Prop := ∀ k vd dv, l.varDef k = some vd → vd.default = some dv → constErr dv = false

mutual
  theorem evalErr_false (l : Links) (hl : DefaultsOK l) : ∀ v : Value, constErr v = false → evalErr l v = false
    | .mk k raw ch p, h => by
      unfold evalErr
      cases k <;> simp only
      case «variable» =>
        cases hv : l.varDef p.start with
        | none => rfl
        | some vd =>
          simp only
          cases hd : vd.default with
          | none => rfl
          | some dv => exact hl _ vd dv hv hd
      case list => unfold constErr at h; exact evalErrs_false l hl ch h
      case object => unfold constErr at h; exact evalErrs_false l hl ch h
      all_goals (unfold constErr at h ⊢; exact h)
  theorem evalErrs_false (l : Links) (hl : DefaultsOK l) : ∀ ch : Children, constErrs ch = false → evalErrs l ch = false
    | .nil, _ => by simp [evalErrs]
    | .cons n v p rest, h => by
      rw [constErrs, Bool.or_eq_false_iff] at h
      rw [evalErrs, evalErr_false l hl v h.1, evalErrs_false l hl rest h.2]
      rfl
end

/-- every value written in the document evaluates as a constant: its Int / Float / Boolean leaves
    are well-formed texts (`strconv.ParseInt(…, 64)` / `ParseFloat` give no SYNTAX error, a Boolean is
    one of the texts `strconv.ParseBool` knows).  True of every document the parser produces. -/
def leavesWellFormed (s : Schema) (d : QueryDoc) : Bool := (Spec.allValues s d).all fun v => !constErr v

theorem evalErr_run (s : Schema) (d : QueryDoc) (evs : List Event) (hw : walkDoc s.view d = some evs)
    (hwf : leavesWellFormed s d = true) :
    ∀ e ∈ evs, ∀ w exp dfn, e.p = .value w exp dfn → evalErr e.links w = false := by
  unfold leavesWellFormed at hwf
  rw [List.all_eq_true] at hwf
  have hwf' : ∀ v ∈ Spec.allValues s d, constErr v = false := by
    intro v hv
    have := hwf v hv
    simpa using this
  intro e he w exp dfn hp
  obtain ⟨v, hv, hsub⟩ := value_event_sound s d evs hw e he w exp dfn hp
  refine evalErr_false e.links ?_ w (constErr_sub v (hwf' v hv) w hsub)
  have hQ := walkDoc_linksQ (Q := fun vd => ∀ dv, vd.default = some dv → constErr dv = false) s.view d
    (fun op hop vd hvd dv hdv => hwf' dv ((mem_allValues_iff s d dv).2 (Or.inr (Or.inr ⟨op, hop, vd, hvd, hdv⟩))))
    evs hw e he
  intro k vd dv hk hd
  exact hQ.varDef hk dv hd

/- ================= assembly ================= -/

/-- no type definition of the schema carries `@oneOf` -/
def noOneOf (s : Schema) : Bool := s.types.all fun p => !Spec.hasOneOf p.2

section
variable (s : Schema) (d : QueryDoc) (evs : List Event) (hw : walkDoc s.view d = some evs)
  (hwp : Spec.wellParented s d = true) (hschema : schemaOK s = true) (hroots : rootsInput s d = true)
  (hnum : numLiteralsOK s d = true) (hwf : leavesWellFormed s d = true)
include hw hwp hschema hroots hnum hwf

/-- WITH `@oneOf`: the rule is silent iff `Spec.valuesOfCorrectType` holds and no `@oneOf` input
    object literal has, as its single field, a variable that the link table of the event binds to a
    definition of a nullable type.  (The second conjunct is compared with `Spec.oneOfVariablesNonNull` in
    `ValuesCorrectOneOf.lean` — a silent rule implies it — and `ValuesCorrectOneOfRun.lean` — the converse.) -/
theorem valuesOfCorrectType_iff_oneOfVar :
    (∀ e ∈ evs, valuesOfCorrectTypeStep s.view d e = []) ↔
      (Spec.valuesOfCorrectType s d = true ∧
        ∀ e ∈ evs, ∀ w exp dfn, e.p = .value w (some exp) (some dfn) → oneOfVar e.links dfn w = true) := by
  rw [← run_pure_iff s d evs hw hwp hschema hroots hnum]
  constructor
  · intro h
    refine ⟨fun e he w exp dfn hp => ?_, fun e he w exp dfn hp => ?_⟩
    · have := (step_nil_iff s.view d e w exp dfn hp).1 (h e he)
      simp only [stepOK, localOK_split, Bool.and_eq_true] at this
      exact this.1.1
    · have := (step_nil_iff s.view d e w exp dfn hp).1 (h e he)
      simp only [stepOK, localOK_split, Bool.and_eq_true] at this
      exact this.1.2
  · rintro ⟨h1, h2⟩ e he
    by_cases hv : ∃ w exp dfn, e.p = .value w (some exp) (some dfn)
    · obtain ⟨w, exp, dfn, hp⟩ := hv
      rw [step_nil_iff s.view d e w exp dfn hp]
      simp only [stepOK, localOK_split, Bool.and_eq_true, Bool.or_eq_true, Bool.not_eq_true']
      exact ⟨⟨h1 e he w exp dfn hp, h2 e he w exp dfn hp⟩, Or.inr (evalErr_run s d evs hw hwf e he w _ _ hp)⟩
    · exact step_other s.view d e (fun w exp dfn hp => hv ⟨w, exp, dfn, hp⟩)

/-- WITHOUT `@oneOf` in the schema: the rule is silent iff `Spec.valuesOfCorrectType` -/
theorem valuesOfCorrectType_iff (hno : noOneOf s = true) :
    (∀ e ∈ evs, valuesOfCorrectTypeStep s.view d e = []) ↔ Spec.valuesOfCorrectType s d = true := by
  rw [valuesOfCorrectType_iff_oneOfVar s d evs hw hwp hschema hroots hnum hwf]
  constructor
  · exact fun h => h.1
  · intro h
    refine ⟨h, fun e he w exp dfn hp => ?_⟩
    have hd := typed_event_dfn s d evs hw hwp e he w exp dfn hp
    unfold noOneOf at hno
    rw [List.all_eq_true] at hno
    have := hno _ (mem_of_lookup' s.types _ _ hd)
    simp only [Bool.not_eq_true'] at this
    simp [oneOfVar, this]

end

end Gql.Validate
