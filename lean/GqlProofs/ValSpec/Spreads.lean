import GqlProofs.ValSpec.Local
import GqlModel.Validate.Spec.Fragments
/-
  Fragment spreads: every spread event of a run is a spread written in the document and carries
  `Document.Fragments.ForName(name)` (soundness), and every spread written in the document has an
  event (completeness: operations and fragment definitions are walked top-down without needing a
  jump).  Consequence: KnownFragmentNames ⇔ `Spec.fragmentSpreadTargetDefined`.
-/
namespace Gql.Validate
open Gql Gql.Validate.Rules

theorem fragByName_eq (d : QueryDoc) (n : Name) : Spec.fragByName d n = fragForName d n := rfl

/-- the property of spread payloads that holds for every event of a run -/
def SpreadSound (d : QueryDoc) : Payload → Prop
  | .fragmentSpread f dfn _ => f.name ∈ Spec.allSpreadNames d ∧ dfn = fragForName d f.name
  | _ => True

theorem spreadSound_docSites (s : SV) (d : QueryDoc) :
    DocSites s d (fun n => n ∈ Spec.allSpreadNames d) (SpreadSound d) :=
  { value := fun _ _ _ => trivial, directive := fun _ _ _ => trivial, directiveList := fun _ => trivial,
    field := fun _ _ _ => trivial, inline := fun _ _ => trivial,
    spread := fun _ _ h => ⟨h, rfl⟩,
    frags := fun f hf n hn => by
      simp only [Spec.allSpreadNames, List.mem_append, List.mem_flatMap]
      exact Or.inr ⟨f, hf, hn⟩,
    ops := fun op hop n hn => by
      simp only [Spec.allSpreadNames, List.mem_append, List.mem_flatMap]
      exact Or.inl ⟨op, hop, hn⟩,
    varDef := fun _ => trivial, operation := fun _ _ _ => trivial, fragment := fun _ _ => trivial }

/-- C09 (spread link) / soundness: a spread event names a spread of the document and carries the
    fragment definition of that name -/
theorem walkDoc_spreads_sound (s : SV) (d : QueryDoc) (evs : List Event) (h : walkDoc s d = some evs) :
    ∀ e ∈ evs, ∀ f dfn par, e.p = .fragmentSpread f dfn par →
      f.name ∈ Spec.allSpreadNames d ∧ dfn = fragForName d f.name := by
  intro e he f dfn par hp
  have := walkDoc_all (spreadSound_docSites s d) evs h e he
  rw [hp] at this
  exact this

/-- some event is the spread of `n` -/
def HasSpread (d : QueryDoc) (n : Name) (evs : List Event) : Prop :=
  ∃ e ∈ evs, ∃ f par, e.p = .fragmentSpread f (fragForName d n) par ∧ f.name = n

theorem HasSpread.inl {d : QueryDoc} {n : Name} {a : List Event} (b : List Event) (h : HasSpread d n a) :
    HasSpread d n (a ++ b) := by
  obtain ⟨e, he, x⟩ := h
  exact ⟨e, List.mem_append_left _ he, x⟩

theorem HasSpread.inr {d : QueryDoc} {n : Name} {b : List Event} (a : List Event) (h : HasSpread d n b) :
    HasSpread d n (a ++ b) := by
  obtain ⟨e, he, x⟩ := h
  exact ⟨e, List.mem_append_right _ he, x⟩

mutual
  theorem walkSelection_complete (s : SV) (d : QueryDoc) (cur : Option OperationDef) (J : Jump) :
      ∀ (x : Selection) (parent : Option Definition) (ws : WS) r, walkSelection s d cur J parent x ws = some r →
        ∀ n ∈ Spec.spreadsOfSel x, HasSpread d n r.2
    | .field al nm args dirs sub p, parent, ws, r, h, n, hn => by
      unfold walkSelection at h
      simp only at h
      split at h
      · cases h
      · rename_i r3 h3
        injection h with h
        subst h
        have hb := walkSelections_complete s d cur J sub _ _ r3 h3 n (by simpa [Spec.spreadsOfSel] using hn)
        exact HasSpread.inl _ (HasSpread.inr _ hb)
    | .inline tc dirs sub p, parent, ws, r, h, n, hn => by
      unfold walkSelection at h
      simp only at h
      split at h
      · cases h
      · rename_i r3 h3
        injection h with h
        subst h
        have hb := walkSelections_complete s d cur J sub _ _ r3 h3 n (by simpa [Spec.spreadsOfSel] using hn)
        exact HasSpread.inl _ (HasSpread.inr _ hb)
    | .spread nm dirs p, parent, ws, r, h, n, hn => by
      have hnm : n = nm := by simpa [Spec.spreadsOfSel] using hn
      subst hnm
      unfold walkSelection at h
      simp only at h
      cases hf : fragForName d n with
      | none =>
        rw [hf] at h
        simp only at h
        injection h with h
        subst h
        exact HasSpread.inr _ ⟨_, List.mem_singleton.2 rfl, ⟨n, dirs, p⟩, parent, by rw [hf], rfl⟩
      | some f =>
        rw [hf] at h
        simp only at h
        split at h
        · injection h with h
          subst h
          exact HasSpread.inr _ ⟨_, List.mem_singleton.2 rfl, ⟨n, dirs, p⟩, parent, by rw [hf], rfl⟩
        · split at h
          · cases h
          · rename_i r3 h3
            injection h with h
            subst h
            exact HasSpread.inr _ ⟨_, List.mem_singleton.2 rfl, ⟨n, dirs, p⟩, parent, by rw [hf], rfl⟩
  theorem walkSelections_complete (s : SV) (d : QueryDoc) (cur : Option OperationDef) (J : Jump) :
      ∀ (xs : Selections) (parent : Option Definition) (ws : WS) r, walkSelections s d cur J parent xs ws = some r →
        ∀ n ∈ Spec.spreadsOfSels xs, HasSpread d n r.2
    | .nil, parent, ws, r, h, n, hn => by simp [Spec.spreadsOfSels] at hn
    | .cons x rest, parent, ws, r, h, n, hn => by
      unfold walkSelections at h
      split at h
      · cases h
      · rename_i r1 h1
        split at h
        · cases h
        · rename_i r2 h2
          injection h with h
          subst h
          simp only [Spec.spreadsOfSels, List.mem_append] at hn
          rcases hn with hn | hn
          · exact HasSpread.inl _ (walkSelection_complete s d cur J x parent ws r1 h1 n hn)
          · exact HasSpread.inr _ (walkSelections_complete s d cur J rest parent r1.1 r2 h2 n hn)
end

theorem walkOperation_complete (s : SV) (d : QueryDoc) (k : Nat) (op : OperationDef) (l : Links)
    (r : Links × List Event) (h : walkOperation s d (k + 1) op l = some r) :
    ∀ n ∈ Spec.spreadsOfSels op.sel, HasSpread d n r.2 := by
  intro n hn
  unfold walkOperation at h
  simp only at h
  split at h
  · cases h
  · rename_i r4 h4
    injection h with h
    subst h
    simp only [walkLevel] at h4
    exact HasSpread.inl _ (HasSpread.inr _ (walkSelections_complete s d _ _ op.sel _ _ r4 h4 n hn))

theorem walkFragment_complete (s : SV) (d : QueryDoc) (k : Nat) (f : FragmentDef) (l : Links)
    (r : Links × List Event) (h : walkFragment s d (k + 1) f l = some r) :
    ∀ n ∈ Spec.spreadsOfSels f.sel, HasSpread d n r.2 := by
  intro n hn
  unfold walkFragment at h
  simp only at h
  split at h
  · cases h
  · rename_i r2 h2
    injection h with h
    subst h
    simp only [walkLevel] at h2
    exact HasSpread.inl _ (HasSpread.inr _ (walkSelections_complete s d _ _ f.sel _ _ r2 h2 n hn))

theorem walkOps_complete (s : SV) (d : QueryDoc) (k : Nat) :
    ∀ (ops : List OperationDef) (l : Links) (r : Links × List Event), walkOps s d (k + 1) ops l = some r →
      ∀ op ∈ ops, ∀ n ∈ Spec.spreadsOfSels op.sel, HasSpread d n r.2
  | [], _, _, _, op, hop, _, _ => by cases hop
  | o :: rest, l, r, h, op, hop, n, hn => by
    unfold walkOps at h
    split at h
    · cases h
    · rename_i r1 h1
      split at h
      · cases h
      · rename_i r2 h2
        injection h with h
        subst h
        rcases List.mem_cons.1 hop with rfl | hop
        · exact HasSpread.inl _ (walkOperation_complete s d k op l r1 h1 n hn)
        · exact HasSpread.inr _ (walkOps_complete s d k rest r1.1 r2 h2 op hop n hn)

theorem walkFrags_complete (s : SV) (d : QueryDoc) (k : Nat) :
    ∀ (fs : List FragmentDef) (l : Links) (r : Links × List Event), walkFrags s d (k + 1) fs l = some r →
      ∀ f ∈ fs, ∀ n ∈ Spec.spreadsOfSels f.sel, HasSpread d n r.2
  | [], _, _, _, f, hf, _, _ => by cases hf
  | o :: rest, l, r, h, f, hf, n, hn => by
    unfold walkFrags at h
    split at h
    · cases h
    · rename_i r1 h1
      split at h
      · cases h
      · rename_i r2 h2
        injection h with h
        subst h
        rcases List.mem_cons.1 hf with rfl | hf
        · exact HasSpread.inl _ (walkFragment_complete s d k f l r1 h1 n hn)
        · exact HasSpread.inr _ (walkFrags_complete s d k rest r1.1 r2 h2 f hf n hn)

/-- completeness: every spread written in the document has an event, carrying `ForName(name)` -/
theorem walkDoc_spreads_complete (s : SV) (d : QueryDoc) (evs : List Event) (h : walkDoc s d = some evs) :
    ∀ n ∈ Spec.allSpreadNames d, HasSpread d n evs := by
  intro n hn
  unfold walkDoc at h
  split at h
  · cases h
  · rename_i r1 h1
    split at h
    · cases h
    · rename_i r2 h2
      injection h with h
      subst h
      simp only [Spec.allSpreadNames, List.mem_append, List.mem_flatMap] at hn
      rcases hn with ⟨op, hop, hn⟩ | ⟨f, hf, hn⟩
      · exact HasSpread.inl _ (walkOps_complete s d _ d.ops _ r1 h1 op hop n hn)
      · exact HasSpread.inr _ (walkFrags_complete s d _ d.frags _ r2 h2 f hf n hn)

theorem knownFragmentNames_iff (s : Schema) (d : QueryDoc) (evs : List Event)
    (hw : walkDoc s.view d = some evs) :
    (∀ e ∈ evs, knownFragmentNamesStep s.view d e = []) ↔ Spec.fragmentSpreadTargetDefined d = true := by
  unfold Spec.fragmentSpreadTargetDefined
  simp only [List.all_eq_true, fragByName_eq]
  constructor
  · intro h n hn
    obtain ⟨e, he, f, par, hp, _⟩ := walkDoc_spreads_complete s.view d evs hw n hn
    have := h e he
    cases hf : fragForName d n with
    | some x => rfl
    | none =>
      rw [hf] at hp
      simp [knownFragmentNamesStep, hp] at this
  · intro h e he
    unfold knownFragmentNamesStep
    split
    · rename_i f par hp
      obtain ⟨hm, hd⟩ := walkDoc_spreads_sound s.view d evs hw e he f none par hp
      have := h f.name hm
      rw [← hd] at this
      simp at this
    · rfl

end Gql.Validate
