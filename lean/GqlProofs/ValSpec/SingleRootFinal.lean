import GqlProofs.ValSpec.SingleRoot3
import GqlProofs.ValSpec.ScopeLinks
import GqlProofs.ValSpec.SingleRootSchema
/-
  SingleFieldSubscriptions (§5.2.3.1), part 4: the linking hypothesis is discharged
  (`walkDoc_operation_linked`), and the final theorems.  The kernel-checked examples for every hypothesis (satisfiable;
  the equivalence fails without it) are in `SingleRootEx.lean`.
-/
namespace Gql.Validate
open Gql Gql.Validate.Rules

/-- every run links the spreads an `operation` event can reach -/
theorem opLinked_walkDoc (s : SV) (d : QueryDoc) (evs : List Event) (h : walkDoc s d = some evs) :
    OpLinked s d evs := by
  intro e he op used hp
  obtain ⟨h1, h2⟩ := walkDoc_operation_linked s d evs h e he op used hp
  exact ⟨fun nm dirs p hi => h1 (.spread nm dirs p) hi,
    fun n f hr hf nm dirs p hi => h2 n f hr hf (.spread nm dirs p) hi⟩

end Gql.Validate
