import GqlProofs.ValSpec.SingleRoot3
import GqlProofs.ValSpec.ScopeLinks
import GqlProofs.ValSpec.SingleRootSchema
/-
  SingleFieldSubscriptions (§5.2.3.1), part 4: the linking hypothesis is discharged
  (`walkDoc_operation_linked`), and the final theorems.  The kernel-checked examples for every hypothesis (satisfiable;
  the equivalence fails without it) are in `SingleRootEx.lean`.
-/
namespace Gql.Validate
open Gql Gql.Validate.Rules

/-- every run links the spreads an `operation` event can reach -/
theorem opLinked_walkDoc (s : SV) (d : QueryDoc) (evs : List Event) (h : walkDoc s d = some evs) :
    OpLinked s d evs := by
  intro e he op used hp
  obtain ⟨h1, h2⟩ := walkDoc_operation_linked s d evs h e he op used hp
  exact ⟨fun nm dirs p hi => h1 (.spread nm dirs p) hi,
    fun n f hr hf nm dirs p hi => h2 n f hr hf (.spread nm dirs p) hi⟩

end Gql.Validate

section C08
open Gql Gql.Validate Gql.Validate.Rules

/-- §5.2.3.1, the rule in its own terms — SingleFieldSubscriptions reports nothing iff, for every
    subscription operation, the root fields collected by `CollectFields` (the specification's
    `Spec.collectRootFields`) have at most one response key and the FIRST field of every response
    key is not an introspection field. -/
theorem C08_SingleFieldSubscriptions_exact (s : Schema) (d : QueryDoc)
    (hschema : subscriptionRootExact s = true)
    (hdef : Spec.fragmentSpreadTargetDefined d = true)
    (htc : ∀ f ∈ d.frags, f.typeCond ≠ []) :
    validate [singleFieldSubscriptions] s d = .ok [] ↔
      ∀ op ∈ d.ops, op.op = Spec.kwSubscription → ∀ obj, Spec.rootDef s op.op = some obj →
        RuleRootOK (Spec.collectRootFields s d obj op.sel) := by
  obtain ⟨evs, hw⟩ := walkDoc_isSome s.view d
  unfold singleFieldSubscriptions
  rw [validate_statelessP_silent s d _ _ evs hw]
  exact singleFieldSubscriptions_exact s d evs hw (opLinked_walkDoc s.view d evs hw) hschema hdef htc

/-- §5.2.3.1, completeness — a document the specification accepts is not reported -/
theorem C08_SingleFieldSubscriptions_complete (s : Schema) (d : QueryDoc)
    (hschema : subscriptionRootExact s = true)
    (hdef : Spec.fragmentSpreadTargetDefined d = true)
    (htc : ∀ f ∈ d.frags, f.typeCond ≠ [])
    (h : Spec.singleRootField s d = true) :
    validate [singleFieldSubscriptions] s d = .ok [] := by
  obtain ⟨evs, hw⟩ := walkDoc_isSome s.view d
  unfold singleFieldSubscriptions
  rw [validate_statelessP_silent s d _ _ evs hw]
  exact singleFieldSubscriptions_of_spec s d evs hw (opLinked_walkDoc s.view d evs hw) hschema hdef htc h

/-- §5.2.3.1 — SingleFieldSubscriptions reports nothing iff the specification predicate holds, for
    a schema whose subscription root is exact (`subscriptionRootExact`), a document whose spreads
    are defined and whose fragment definitions have a type condition, in which every subscription
    selects at least one root field and equal response keys mean equal field names -/
theorem C08_SingleFieldSubscriptions (s : Schema) (d : QueryDoc)
    (hschema : subscriptionRootExact s = true)
    (hdef : Spec.fragmentSpreadTargetDefined d = true)
    (htc : ∀ f ∈ d.frags, f.typeCond ≠ [])
    (hne : subscriptionsSelectRoot s d = true)
    (hcons : rootKeysConsistent s d = true) :
    validate [singleFieldSubscriptions] s d = .ok [] ↔ Spec.singleRootField s d = true := by
  obtain ⟨evs, hw⟩ := walkDoc_isSome s.view d
  unfold singleFieldSubscriptions
  rw [validate_statelessP_silent s d _ _ evs hw]
  exact singleFieldSubscriptions_iff s d evs hw (opLinked_walkDoc s.view d evs hw) hschema hdef htc hne hcons

/-- the same for a schema with the loader's invariants (`C07_loaded_closed`, `C07_relations_exact`)
    whose root operation types are object types (`Spec.rootTypesAreObjects`: not enforced by the loader) -/
theorem C08_SingleFieldSubscriptions_loaded (s : Schema) (d : QueryDoc)
    (hc : Gql.Spec.Closed s) (hr : Gql.Spec.RelationsExact s) (hroots : Gql.Spec.rootTypesAreObjects s = true)
    (hdef : Spec.fragmentSpreadTargetDefined d = true)
    (htc : ∀ f ∈ d.frags, f.typeCond ≠ [])
    (hne : subscriptionsSelectRoot s d = true)
    (hcons : rootKeysConsistent s d = true) :
    validate [singleFieldSubscriptions] s d = .ok [] ↔ Spec.singleRootField s d = true :=
  C08_SingleFieldSubscriptions s d (subscriptionRootExact_of_closed s hc hr hroots) hdef htc hne hcons

#print axioms C08_SingleFieldSubscriptions_exact
#print axioms C08_SingleFieldSubscriptions_complete
#print axioms C08_SingleFieldSubscriptions
#print axioms C08_SingleFieldSubscriptions_loaded

end C08
