import GqlProofs.ValSpec.SingleRoot
/-
  SingleFieldSubscriptions (§5.2.3.1), part 2: `uniqByName` against `addNew`, the rule-exact
  characterisation of a silent step, and the assembly.
-/
namespace Gql.Validate
open Gql Gql.Validate.Rules

/- ---------- survivors of `uniqByName` ---------- -/

/-- `uniqByName` without positions: the first field of every response key not in `seen` -/
def firstPerKey : List Spec.RootField → List Name → List Spec.RootField
  | [], _ => []
  | (r, n) :: rest, seen =>
    if seen.contains r then firstPerKey rest seen else (r, n) :: firstPerKey rest (r :: seen)

theorem uniqByName_proj : ∀ (l : List (Name × Name × Pos)) (seen : List Name),
    (uniqByName l seen).map topProj = firstPerKey (l.map topProj) seen
  | [], _ => rfl
  | (r, n, p) :: rest, seen => by
    simp only [uniqByName, List.map_cons, topProj, firstPerKey]
    split
    · exact uniqByName_proj rest seen
    · simp only [List.map_cons, topProj]
      rw [uniqByName_proj rest (r :: seen)]

theorem firstPerKey_length : ∀ (fs : List Spec.RootField) (acc seen : List Name), (∀ x, x ∈ acc ↔ x ∈ seen) →
    (Spec.addNew acc (fs.map (·.1))).length = acc.length + (firstPerKey fs seen).length
  | [], _, _, _ => by simp [Spec.addNew, firstPerKey]
  | (r, n) :: rest, acc, seen, h => by
    simp only [List.map_cons, Spec.addNew, firstPerKey]
    have hc : acc.contains r = seen.contains r := by
      cases h1 : acc.contains r <;> cases h2 : seen.contains r <;> simp_all
    rw [hc]
    split
    · exact firstPerKey_length rest acc seen h
    · rw [firstPerKey_length rest (acc ++ [r]) (r :: seen)]
      · simp only [List.length_append, List.length_cons, List.length_nil]
        omega
      · intro x
        simp only [List.mem_append, List.mem_cons, List.not_mem_nil, or_false]
        rw [h x]
        exact Or.comm

theorem firstPerKey_sub : ∀ (fs : List Spec.RootField) (seen : List Name), ∀ x ∈ firstPerKey fs seen, x ∈ fs
  | [], _, x, hx => by simp [firstPerKey] at hx
  | (r, n) :: rest, seen, x, hx => by
    simp only [firstPerKey] at hx
    split at hx
    · exact List.mem_cons_of_mem _ (firstPerKey_sub rest seen x hx)
    · rcases List.mem_cons.1 hx with rfl | hx
      · exact List.mem_cons_self
      · exact List.mem_cons_of_mem _ (firstPerKey_sub rest _ x hx)

/-- every response key survives once -/
theorem firstPerKey_covers : ∀ (fs : List Spec.RootField) (seen : List Name), ∀ f ∈ fs,
    f.1 ∈ seen ∨ ∃ g ∈ firstPerKey fs seen, g.1 = f.1
  | [], _, f, hf => by cases hf
  | (r, n) :: rest, seen, f, hf => by
    simp only [firstPerKey]
    split
    · rename_i hc
      rcases List.mem_cons.1 hf with rfl | hf
      · exact Or.inl (by simpa using hc)
      · exact firstPerKey_covers rest seen f hf
    · rcases List.mem_cons.1 hf with rfl | hf
      · exact Or.inr ⟨_, List.mem_cons_self, rfl⟩
      · rcases firstPerKey_covers rest (r :: seen) f hf with h | ⟨g, hg, he⟩
        · rcases List.mem_cons.1 h with h | h
          · exact Or.inr ⟨_, List.mem_cons_self, h.symm⟩
          · exact Or.inl h
        · exact Or.inr ⟨g, List.mem_cons_of_mem _ hg, he⟩

theorem isPrefixOf2_underscores (n : Name) : isPrefixOf2 (str "__") n = Spec.startsWithUnderscores n := by
  have hl : str "__" = [95, 95] := by decide
  rw [hl]
  unfold isPrefixOf2 Spec.startsWithUnderscores
  match n with
  | [] => rfl
  | [a] => simp
  | a :: b :: t =>
    simp only [List.length_cons, List.length_nil, List.take_succ_cons, List.take_zero]
    by_cases h1 : a = 95
    · by_cases h2 : b = 95
      · subst h1 h2; simp
      · subst h1
        have : ([95, b] == [95, 95]) = false := by simp [h2]
        rw [this]
        split
        · rename_i heq
          injection heq with _ heq
          injection heq with heq _
          exact absurd heq h2
        · rfl
    · have : ([a, b] == [95, 95]) = false := by simp [h1]
      rw [this]
      split
      · rename_i heq
        injection heq with heq _
        exact absurd heq h1
      · rfl

/- ---------- a silent step, in the rule's own terms ---------- -/

theorem sfs_step_of_other (s : SV) (d : QueryDoc) (e : Event) (h : ∀ op u, e.p ≠ .operation op u) :
    singleFieldSubscriptionsStep s d e = .ok [] := by
  unfold singleFieldSubscriptionsStep
  split
  · rename_i op u hp
    exact absurd hp (h op u)
  · rfl

theorem sfs_step_skip (s : SV) (d : QueryDoc) (e : Event) (op : OperationDef) (u : List Bool)
    (hp : e.p = .operation op u) (h : s.subscription = none ∨ op.op ≠ opSubscription) :
    singleFieldSubscriptionsStep s d e = .ok [] := by
  unfold singleFieldSubscriptionsStep
  rw [hp]
  simp only
  rw [if_pos]
  rcases h with h | h
  · simp [h]
  · simp [h]

theorem sfs_step_sub (s : SV) (d : QueryDoc) (e : Event) (op : OperationDef) (u : List Bool)
    (hp : e.p = .operation op u) (R : Name) (hsub : s.subscription = some R) (hop : op.op = opSubscription)
    (st : TopState)
    (hst : topLevel s R e.links d (d.frags.length + 1) op.sel { fields := [], inFrag := [] } = some st) :
    singleFieldSubscriptionsStep s d e = .ok [] ↔
      (uniqByName st.fields []).length ≤ 1 ∧
        ∀ f ∈ uniqByName st.fields [], isPrefixOf2 (str "__") f.2.1 = false := by
  unfold singleFieldSubscriptionsStep
  rw [hp]
  simp only
  rw [if_neg (by simp [hsub, hop])]
  simp only [hsub, Option.getD_some]
  rw [hst]
  simp only
  constructor
  · intro h
    injection h with h
    obtain ⟨h1, h2⟩ := List.append_eq_nil_iff.1 h
    constructor
    · match hu : uniqByName st.fields [] with
      | [] => simp
      | [_] => simp
      | _ :: (_, _, p) :: _ =>
        rw [hu] at h1
        simp at h1
    · intro f hf
      have h2' := List.map_eq_nil_iff.1 h2
      have := List.filter_eq_nil_iff.1 h2' f hf
      simpa using this
  · rintro ⟨h1, h2⟩
    congr 1
    apply List.append_eq_nil_iff.2
    constructor
    · match hu : uniqByName st.fields [] with
      | [] => rfl
      | [_] => rfl
      | _ :: (_, _, p) :: _ =>
        rw [hu] at h1
        simp at h1
    · apply List.map_eq_nil_iff.2
      apply List.filter_eq_nil_iff.2
      intro f hf
      simp [h2 f hf]

/- ---------- the rule-exact characterisation of one subscription operation ---------- -/

/-- what the rule tests on the collected root fields: at most one response key, and no surviving
    (first per response key) field is an introspection field -/
def RuleRootOK (fs : List Spec.RootField) : Prop :=
  (firstPerKey fs []).length ≤ 1 ∧ ∀ f ∈ firstPerKey fs [], Spec.startsWithUnderscores f.2 = false

/-- what the specification tests -/
def specRootOK (fs : List Spec.RootField) : Bool :=
  (Spec.addNew [] (fs.map (·.1))).length == 1 && fs.all fun f => !Spec.startsWithUnderscores f.2

theorem sfs_step_exact (s : Schema) (d : QueryDoc) (e : Event) (op : OperationDef) (u : List Bool)
    (hp : e.p = .operation op u) (R : Name) (obj : Definition) (hsub : s.subscription = some R)
    (hop : op.op = opSubscription)
    (Q : Name → Pos → Prop) (hQ : SpreadsClosed e.links d Q)
    (happ : ∀ tc, tc ≠ [] → topApplies s.view R tc = Spec.fragmentTypeApplies s obj tc)
    (hs : SpreadsSat Q op.sel) :
    singleFieldSubscriptionsStep s.view d e = .ok [] ↔ RuleRootOK (Spec.collectRootFields s d obj op.sel) := by
  obtain ⟨st, hst, _⟩ := topLevel_ok s.view R e.links d (d.frags.length + 1) op.sel
    { fields := [], inFrag := [] } (by simp only [unvisited_nil]; omega)
  have hrel := topLevel_collect s R obj e.links d Q hQ happ (d.frags.length + 1) op.sel _ st hs hst
  obtain ⟨_, hf⟩ := hrel
  simp only [List.map_nil, List.nil_append] at hf
  have hfs : st.fields.map topProj = Spec.collectRootFields s d obj op.sel := hf
  rw [sfs_step_sub s.view d e op u hp R hsub hop st hst]
  unfold RuleRootOK
  rw [← hfs, ← uniqByName_proj, List.length_map]
  constructor
  · rintro ⟨h1, h2⟩
    refine ⟨h1, ?_⟩
    intro f hf
    obtain ⟨g, hg, rfl⟩ := List.mem_map.1 hf
    rw [← isPrefixOf2_underscores]
    exact h2 g hg
  · rintro ⟨h1, h2⟩
    refine ⟨h1, ?_⟩
    intro g hg
    rw [isPrefixOf2_underscores]
    exact h2 (topProj g) (List.mem_map.2 ⟨g, hg, rfl⟩)

/-- the specification's test implies the rule's -/
theorem ruleRootOK_of_spec {fs : List Spec.RootField} (h : specRootOK fs = true) : RuleRootOK fs := by
  unfold specRootOK at h
  simp only [Bool.and_eq_true, beq_iff_eq, List.all_eq_true, Bool.not_eq_eq_eq_not, Bool.not_true] at h
  obtain ⟨h1, h2⟩ := h
  have hl := firstPerKey_length fs [] [] (fun _ => Iff.rfl)
  simp only [List.length_nil, Nat.zero_add] at hl
  constructor
  · omega
  · intro f hf
    exact h2 f (firstPerKey_sub fs [] f hf)

/-- the rule's test implies the specification's when at least one field is collected and fields
    with the same response key have the same name -/
theorem spec_of_ruleRootOK {fs : List Spec.RootField} (h : RuleRootOK fs) (hne : fs ≠ [])
    (hcons : ∀ f ∈ fs, ∀ g ∈ fs, f.1 = g.1 → f.2 = g.2) : specRootOK fs = true := by
  obtain ⟨h1, h2⟩ := h
  have hl := firstPerKey_length fs [] [] (fun _ => Iff.rfl)
  simp only [List.length_nil, Nat.zero_add] at hl
  unfold specRootOK
  simp only [Bool.and_eq_true, beq_iff_eq, List.all_eq_true, Bool.not_eq_eq_eq_not, Bool.not_true]
  have hcov := firstPerKey_covers fs []
  constructor
  · cases fs with
    | nil => exact absurd rfl hne
    | cons f rest =>
      obtain ⟨r, n⟩ := f
      have : 0 < (firstPerKey ((r, n) :: rest) []).length := by simp [firstPerKey]
      omega
  · intro f hf
    rcases hcov f hf with h | ⟨g, hg, he⟩
    · cases h
    · have hgf := firstPerKey_sub fs [] g hg
      rw [hcons f hf g hgf he.symm]
      exact h2 g hg

/- ---------- the links of an `operation` event ---------- -/

/-- at the `operation` event of an operation every spread node written in its selection set or in
    a fragment reachable from it has been linked by the walker -/
def OpLinked (_s : SV) (d : QueryDoc) (evs : List Event) : Prop :=
  ∀ e ∈ evs, ∀ op used, e.p = .operation op used →
    (∀ nm dirs p, InSels op.sel (.sel (.spread nm dirs p)) → e.links.linked p.start = true) ∧
    (∀ n f, Reach d (Spec.spreadsOfSels op.sel) n → fragForName d n = some f →
       ∀ nm dirs p, InSels f.sel (.sel (.spread nm dirs p)) → e.links.linked p.start = true)

mutual
  theorem inSel_spread_mem : ∀ (x : Selection) (nm : Name) (dirs : List Directive) (p : Pos),
      InSel x (.sel (.spread nm dirs p)) → nm ∈ Spec.spreadsOfSel x
    | .field al n args ds sub pos, nm, dirs, p, h => by
      cases h with
      | fieldSub _ _ _ _ _ _ _ hs =>
        simp only [Spec.spreadsOfSel]
        exact inSels_spread_mem sub nm dirs p hs
    | .spread n ds pos, nm, dirs, p, h => by
      cases h with
      | self => simp [Spec.spreadsOfSel]
    | .inline tc ds sub pos, nm, dirs, p, h => by
      cases h with
      | inlineSub _ _ _ _ _ hs =>
        simp only [Spec.spreadsOfSel]
        exact inSels_spread_mem sub nm dirs p hs
  theorem inSels_spread_mem : ∀ (xs : Selections) (nm : Name) (dirs : List Directive) (p : Pos),
      InSels xs (.sel (.spread nm dirs p)) → nm ∈ Spec.spreadsOfSels xs
    | .nil, _, _, _, h => by cases h
    | .cons x rest, nm, dirs, p, h => by
      simp only [Spec.spreadsOfSels, List.mem_append]
      cases h with
      | head _ _ _ hx => exact Or.inl (inSel_spread_mem x nm dirs p hx)
      | tail _ _ _ hx => exact Or.inr (inSels_spread_mem rest nm dirs p hx)
end

/-- a name reachable from the spreads of an operation is written as a spread in the document -/
theorem reach_allSpreadNames {d : QueryDoc} {op : OperationDef} (hop : op ∈ d.ops) {n : Name}
    (h : Reach d (Spec.spreadsOfSels op.sel) n) : n ∈ Spec.allSpreadNames d := by
  unfold Spec.allSpreadNames
  rw [List.mem_append]
  cases h with
  | base hn => exact Or.inl (List.mem_flatMap.2 ⟨op, hop, hn⟩)
  | step _ hn =>
    obtain ⟨f, _, hf, _, hn'⟩ := fragSpreads_defined hn
    exact Or.inr (List.mem_flatMap.2 ⟨f, hf, hn'⟩)

/-- the closed spread predicate of an `operation` event: linked, and reachable from the operation -/
theorem opLinked_closed (d : QueryDoc) (e : Event) (op : OperationDef) (hop : op ∈ d.ops)
    (hdef : Spec.fragmentSpreadTargetDefined d = true) (htc : ∀ f ∈ d.frags, f.typeCond ≠ [])
    (hl : ∀ n f, Reach d (Spec.spreadsOfSels op.sel) n → fragForName d n = some f →
       ∀ nm dirs p, InSels f.sel (.sel (.spread nm dirs p)) → e.links.linked p.start = true) :
    SpreadsClosed e.links d
      (fun nm p => e.links.linked p.start = true ∧ Reach d (Spec.spreadsOfSels op.sel) nm) := by
  intro nm p ⟨hlk, hr⟩
  have hmem := reach_allSpreadNames hop hr
  unfold Spec.fragmentSpreadTargetDefined at hdef
  have hsome := List.all_eq_true.1 hdef nm hmem
  rw [fragByName_eq] at hsome
  cases hf : fragForName d nm with
  | none => rw [hf] at hsome; cases hsome
  | some f =>
    refine ⟨f, ?_, htc f (fragForName_mem hf), ?_⟩
    · unfold Links.spreadDef
      rw [hlk]
      exact hf
    · intro nm' dirs' p' hi
      refine ⟨hl nm f hr hf nm' dirs' p' hi, ?_⟩
      apply Reach.step hr
      unfold Spec.fragSpreads
      rw [fragByName_eq, hf]
      exact inSels_spread_mem f.sel nm' dirs' p' hi

end Gql.Validate
