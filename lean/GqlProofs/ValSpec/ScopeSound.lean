import GqlProofs.ValSpec.ReachClosure
import GqlProofs.ValSpec.TypedBridge
/-
  Per-operation scope, soundness: every event fired while `CurrentOperation = op` is about a node
  (with the walker's parent typing) or a directive list written in the operation itself or in a
  fragment definition REACHABLE from the operation through spreads of defined fragments
  (`Reach`); every event fired with `CurrentOperation = nil` is about a fragment definition of the
  document or one reachable from it.  No reasoning about the `visited` set is needed for this
  direction.
-/
namespace Gql.Validate
open Gql

def AllE (P : Event → Prop) (evs : List Event) : Prop := ∀ e ∈ evs, P e

theorem AllE.nil {P : Event → Prop} : AllE P [] := by intro e h; cases h

theorem AllE.append {P : Event → Prop} {a b : List Event} (ha : AllE P a) (hb : AllE P b) : AllE P (a ++ b) := by
  intro e h
  rcases List.mem_append.1 h with h | h
  · exact ha e h
  · exact hb e h

theorem AllE.cons {P : Event → Prop} {e : Event} {b : List Event} (he : P e) (hb : AllE P b) : AllE P (e :: b) := by
  intro x h
  rcases List.mem_cons.1 h with rfl | h
  · exact he
  · exact hb x h

theorem AllE.single {P : Event → Prop} {e : Event} (he : P e) : AllE P [e] := AllE.cons he AllE.nil

theorem AllE.imp {P Q : Event → Prop} {a : List Event} (h : ∀ e, P e → Q e) (ha : AllE P a) : AllE Q a :=
  fun e he => h e (ha e he)

section values
variable {s : SV} {cur : Option OperationDef} {P : Event → Prop}

mutual
  theorem walkValue_allE (hv : ∀ links v exp dfn, P { cur := cur, links := links, p := .value v exp dfn })
      (exp : Option GType) (dfn : Option Definition) :
      ∀ (v : Value) (ws : WS), AllE P (walkValue s cur exp dfn v ws).2
    | .mk k raw ch p, ws => by
      unfold walkValue
      have h1 : ∀ ws1 : WS, AllE P (walkObjChildren s cur dfn ch ws1).2 :=
        fun ws1 => walkObjChildren_allE hv dfn ch ws1
      have h2 : ∀ ws1 : WS, AllE P (walkListChildren s cur exp dfn ch ws1).2 :=
        fun ws1 => walkListChildren_allE hv exp dfn ch ws1
      cases k <;> simp only <;>
        first
          | exact AllE.append (h1 _) (AllE.single (hv _ _ _ _))
          | exact AllE.append (h2 _) (AllE.single (hv _ _ _ _))
          | exact AllE.append AllE.nil (AllE.single (hv _ _ _ _))
  theorem walkObjChildren_allE (hv : ∀ links v exp dfn, P { cur := cur, links := links, p := .value v exp dfn })
      (dfn : Option Definition) :
      ∀ (ch : Children) (ws : WS), AllE P (walkObjChildren s cur dfn ch ws).2
    | .nil, ws => by simp [walkObjChildren, AllE]
    | .cons name v p rest, ws => by
      unfold walkObjChildren
      exact AllE.append (walkValue_allE hv _ _ v ws) (walkObjChildren_allE hv dfn rest _)
  theorem walkListChildren_allE (hv : ∀ links v exp dfn, P { cur := cur, links := links, p := .value v exp dfn })
      (exp : Option GType) (dfn : Option Definition) :
      ∀ (ch : Children) (ws : WS), AllE P (walkListChildren s cur exp dfn ch ws).2
    | .nil, ws => by simp [walkListChildren, AllE]
    | .cons name v p rest, ws => by
      unfold walkListChildren
      exact AllE.append (walkValue_allE hv _ _ v ws) (walkListChildren_allE hv exp dfn rest _)
end

theorem walkArgs_allE (hv : ∀ links v exp dfn, P { cur := cur, links := links, p := .value v exp dfn })
    (ad : Option (List ArgDef)) :
    ∀ (as : List Argument) (ws : WS), AllE P (walkArgs s cur ad as ws).2
  | [], ws => by simp [walkArgs, AllE]
  | a :: rest, ws => by
    simp only [walkArgs]
    exact AllE.append (walkValue_allE hv _ _ a.value ws) (walkArgs_allE hv ad rest _)

theorem walkDirectiveItems_allE (hv : ∀ links v exp dfn, P { cur := cur, links := links, p := .value v exp dfn })
    (parent : Option Definition) (loc : Bytes) (ds : List Directive)
    (hd : ∀ links dir, dir ∈ ds → P { cur := cur, links := links, p := .directive dir (s.directive? dir.name) parent loc }) :
    ∀ (suffix : List Directive) (ws : WS), (∀ dir ∈ suffix, dir ∈ ds) →
      AllE P (walkDirectiveItems s cur parent loc suffix ws).2
  | [], ws, _ => by simp [walkDirectiveItems, AllE]
  | dir :: rest, ws, hsub => by
    simp only [walkDirectiveItems]
    exact AllE.append (walkArgs_allE hv _ dir.args ws)
      (AllE.cons (hd _ dir (hsub dir List.mem_cons_self))
        (walkDirectiveItems_allE hv parent loc ds hd rest _ (fun x hx => hsub x (List.mem_cons_of_mem _ hx))))

theorem walkDirectives_allE (hv : ∀ links v exp dfn, P { cur := cur, links := links, p := .value v exp dfn })
    (parent : Option Definition) (loc : Bytes) (ds : List Directive)
    (hd : ∀ links dir, dir ∈ ds → P { cur := cur, links := links, p := .directive dir (s.directive? dir.name) parent loc })
    (hl : ∀ links, P { cur := cur, links := links, p := .directiveList ds }) (ws : WS) :
    AllE P (walkDirectives s cur parent ds loc ws).2 := by
  simp only [walkDirectives]
  exact AllE.append (walkDirectiveItems_allE hv parent loc ds hd ds ws (fun _ h => h)) (AllE.single (hl _))

end values

/- ---------- scope ---------- -/

/-- typed nodes in scope: in the walked source itself (`nodes`) or in a fragment definition
    reachable from the spread names of the source (`names`) -/
def NodeScope (s : SV) (d : QueryDoc) (names : List Name) (nodes : Option Definition → Selection → Prop)
    (par : Option Definition) (y : Selection) : Prop :=
  nodes par y ∨ ∃ n f, Reach d names n ∧ fragForName d n = some f ∧ InSelsW s (s.type? f.typeCond) f.sel par y

/-- directive lists in scope: of a node in scope, of a reachable fragment definition, or one of the
    `extra` lists of the walked definition itself -/
def DirScope (s : SV) (d : QueryDoc) (names : List Name) (nodes : Option Definition → Selection → Prop)
    (extra : Bytes → List Directive → Prop) (loc : Bytes) (ds : List Directive) : Prop :=
  (∃ par y, NodeScope s d names nodes par y ∧ loc = Spec.selLoc y ∧ ds = Spec.selDirs y) ∨
  (∃ n f, Reach d names n ∧ fragForName d n = some f ∧ loc = locFragmentDefinition ∧ ds = f.dirs) ∨
  extra loc ds

def EvSound (s : SV) (d : QueryDoc) (cur : Option OperationDef) (names : List Name)
    (nodes : Option Definition → Selection → Prop) (extra : Bytes → List Directive → Prop) (e : Event) : Prop :=
  e.cur = cur ∧
  match e.p with
  | .field f par dfn =>
    NodeScope s d names nodes par (.field f.alias f.name f.args f.dirs f.sel f.pos) ∧ dfn = wFieldDef par f.name
  | .inlineFragment f par => NodeScope s d names nodes par (.inline f.typeCond f.dirs f.sel f.pos)
  | .fragmentSpread f dfn par =>
    NodeScope s d names nodes par (.spread f.name f.dirs f.pos) ∧ dfn = fragForName d f.name
  | .directive dir dfn _ loc => dfn = s.directive? dir.name ∧ ∃ ds, dir ∈ ds ∧ DirScope s d names nodes extra loc ds
  | .directiveList ds => ∃ loc, DirScope s d names nodes extra loc ds
  | _ => True

theorem DirScope.weaken {s : SV} {d : QueryDoc} {names names' : List Name}
    {nodes nodes' : Option Definition → Selection → Prop} {extra extra' : Bytes → List Directive → Prop}
    (hn : ∀ par y, NodeScope s d names nodes par y → NodeScope s d names' nodes' par y)
    (hr : ∀ n, Reach d names n → Reach d names' n) (hx : ∀ loc ds, extra loc ds → extra' loc ds)
    {loc : Bytes} {ds : List Directive} (h : DirScope s d names nodes extra loc ds) :
    DirScope s d names' nodes' extra' loc ds := by
  rcases h with ⟨par, y, h1, h2, h3⟩ | ⟨n, f, h1, h2, h3, h4⟩ | h
  · exact Or.inl ⟨par, y, hn par y h1, h2, h3⟩
  · exact Or.inr (Or.inl ⟨n, f, hr n h1, h2, h3, h4⟩)
  · exact Or.inr (Or.inr (hx _ _ h))

theorem EvSound.weaken {s : SV} {d : QueryDoc} {cur : Option OperationDef} {names names' : List Name}
    {nodes nodes' : Option Definition → Selection → Prop} {extra extra' : Bytes → List Directive → Prop}
    (hn : ∀ par y, NodeScope s d names nodes par y → NodeScope s d names' nodes' par y)
    (hr : ∀ n, Reach d names n → Reach d names' n) (hx : ∀ loc ds, extra loc ds → extra' loc ds)
    (e : Event) (h : EvSound s d cur names nodes extra e) : EvSound s d cur names' nodes' extra' e := by
  unfold EvSound at h ⊢
  refine ⟨h.1, ?_⟩
  have h2 := h.2
  split <;> rename_i hp <;> simp only [hp] at h2
  · exact ⟨hn _ _ h2.1, h2.2⟩
  · exact hn _ _ h2
  · exact ⟨hn _ _ h2.1, h2.2⟩
  · obtain ⟨h3, ds, h4, h5⟩ := h2
    exact ⟨h3, ds, h4, h5.weaken hn hr hx⟩
  · obtain ⟨loc, h5⟩ := h2
    exact ⟨loc, h5.weaken hn hr hx⟩
  · trivial

/-- weakening that keeps names and extra lists and enlarges the source nodes -/
theorem EvSound.mono_nodes {s : SV} {d : QueryDoc} {cur : Option OperationDef} {names : List Name}
    {nodes nodes' : Option Definition → Selection → Prop} {extra : Bytes → List Directive → Prop}
    (hn : ∀ par y, nodes par y → nodes' par y) (e : Event) (h : EvSound s d cur names nodes extra e) :
    EvSound s d cur names nodes' extra e := by
  refine h.weaken ?_ (fun _ h => h) (fun _ _ h => h)
  rintro par y (h | h)
  · exact Or.inl (hn par y h)
  · exact Or.inr h

section sel
variable (s : SV) (d : QueryDoc) (cur : Option OperationDef) (extra : Bytes → List Directive → Prop)

theorem evSound_value (names : List Name) (nodes : Option Definition → Selection → Prop) :
    ∀ links v exp dfn, EvSound s d cur names nodes extra { cur := cur, links := links, p := .value v exp dfn } :=
  fun _ _ _ _ => ⟨rfl, trivial⟩

/-- the events of `walkDirectives` for a directive list that is in scope -/
theorem walkDirectives_sound (names : List Name) (nodes : Option Definition → Selection → Prop)
    (parent : Option Definition) (loc : Bytes) (ds : List Directive)
    (hds : DirScope s d names nodes extra loc ds) (ws : WS) :
    AllE (EvSound s d cur names nodes extra) (walkDirectives s cur parent ds loc ws).2 :=
  walkDirectives_allE (evSound_value s d cur extra names nodes) parent loc ds
    (fun _ dir hdir => ⟨rfl, rfl, ds, hdir, hds⟩) (fun _ => ⟨rfl, loc, hds⟩) ws

def JumpS (J : Jump) : Prop :=
  ∀ parent sels (ws : WS) r, J parent sels ws = some r →
    AllE (EvSound s d cur (Spec.spreadsOfSels sels) (InSelsW s parent sels) extra) r.2

theorem fragSpreads_of_forName {d : QueryDoc} {nm : Name} {f : FragmentDef} (hf : fragForName d nm = some f) :
    Spec.fragSpreads d nm = Spec.spreadsOfSels f.sel := by
  unfold Spec.fragSpreads
  rw [fragByName_eq, hf]

mutual
  theorem walkSelection_sound (J : Jump) (hJ : JumpS s d cur extra J) :
      ∀ (x : Selection) (parent : Option Definition) (ws : WS) r,
        walkSelection s d cur J parent x ws = some r →
        AllE (EvSound s d cur (Spec.spreadsOfSel x) (InSelW s parent x) extra) r.2
    | .field al nm args dirs sub p, parent, ws, r, h => by
      unfold walkSelection at h
      simp only at h
      split at h
      · cases h
      · rename_i r3 h3
        injection h with h
        subst h
        have hself : NodeScope s d (Spec.spreadsOfSel (.field al nm args dirs sub p))
            (InSelW s parent (.field al nm args dirs sub p)) parent (.field al nm args dirs sub p) :=
          Or.inl (InSelW.self _ _)
        have hb := walkSelections_sound J hJ sub _ _ r3 h3
        have hb' : AllE (EvSound s d cur (Spec.spreadsOfSel (.field al nm args dirs sub p))
            (InSelW s parent (.field al nm args dirs sub p)) extra) r3.2 := by
          refine AllE.imp (fun e he => ?_) hb
          simp only [Spec.spreadsOfSel]
          exact EvSound.mono_nodes (fun par y hi => InSelW.fieldSub parent al nm args dirs sub p par y hi) e he
        refine AllE.append (AllE.append (AllE.append (walkArgs_allE (evSound_value s d cur extra _ _) _ args _)
          (walkDirectives_sound s d cur extra _ _ _ _ dirs (Or.inl ⟨_, _, hself, rfl, rfl⟩) _)) hb') (AllE.single ?_)
        exact ⟨rfl, hself, rfl⟩
    | .inline tc dirs sub p, parent, ws, r, h => by
      unfold walkSelection at h
      simp only at h
      split at h
      · cases h
      · rename_i r3 h3
        injection h with h
        subst h
        have hself : NodeScope s d (Spec.spreadsOfSel (.inline tc dirs sub p))
            (InSelW s parent (.inline tc dirs sub p)) parent (.inline tc dirs sub p) :=
          Or.inl (InSelW.self _ _)
        have hb := walkSelections_sound J hJ sub _ _ r3 h3
        have hb' : AllE (EvSound s d cur (Spec.spreadsOfSel (.inline tc dirs sub p))
            (InSelW s parent (.inline tc dirs sub p)) extra) r3.2 := by
          refine AllE.imp (fun e he => ?_) hb
          simp only [Spec.spreadsOfSel]
          exact EvSound.mono_nodes (fun par y hi => InSelW.inlineSub parent tc dirs sub p par y hi) e he
        refine AllE.append (AllE.append
          (walkDirectives_sound s d cur extra _ _ _ _ dirs (Or.inl ⟨_, _, hself, rfl, rfl⟩) _) hb') (AllE.single ?_)
        exact ⟨rfl, hself⟩
    | .spread nm dirs p, parent, ws, r, h => by
      unfold walkSelection at h
      simp only at h
      have hself : NodeScope s d (Spec.spreadsOfSel (.spread nm dirs p))
          (InSelW s parent (.spread nm dirs p)) parent (.spread nm dirs p) :=
        Or.inl (InSelW.self _ _)
      have hd := fun par w => walkDirectives_sound s d cur extra (Spec.spreadsOfSel (.spread nm dirs p))
        (InSelW s parent (.spread nm dirs p)) par locFragmentSpread dirs (Or.inl ⟨_, _, hself, rfl, rfl⟩) w
      have hev : ∀ links, EvSound s d cur (Spec.spreadsOfSel (.spread nm dirs p)) (InSelW s parent (.spread nm dirs p)) extra
          { cur := cur, links := links, p := .fragmentSpread ⟨nm, dirs, p⟩ (fragForName d nm) parent } :=
        fun _ => ⟨rfl, hself, rfl⟩
      cases hf : fragForName d nm with
      | none =>
        rw [hf] at h hev
        simp only at h
        injection h with h
        subst h
        exact AllE.append (hd _ _) (AllE.single (hev _))
      | some f =>
        rw [hf] at h hev
        simp only at h
        split at h
        · injection h with h
          subst h
          exact AllE.append (hd _ _) (AllE.single (hev _))
        · split at h
          · cases h
          · rename_i r3 h3
            injection h with h
            subst h
            have hbase : Reach d (Spec.spreadsOfSel (.spread nm dirs p)) nm :=
              Reach.base (by simp [Spec.spreadsOfSel])
            have hb := hJ _ _ _ r3 h3
            have hb' : AllE (EvSound s d cur (Spec.spreadsOfSel (.spread nm dirs p))
                (InSelW s parent (.spread nm dirs p)) extra) r3.2 := by
              refine AllE.imp (fun e he => ?_) hb
              refine EvSound.weaken ?_ ?_ (fun _ _ h => h) e he
              · rintro par y (hi | ⟨n, g, hr, hg, hi⟩)
                · exact Or.inr ⟨nm, f, hbase, hf, hi⟩
                · exact Or.inr ⟨n, g, Reach.trans hbase (by rw [fragSpreads_of_forName hf]; exact hr), hg, hi⟩
              · intro n hr
                exact Reach.trans hbase (by rw [fragSpreads_of_forName hf]; exact hr)
            refine AllE.append (AllE.append (AllE.append (hd _ _) ?_) hb') (AllE.single (hev _))
            exact walkDirectives_sound s d cur extra _ _ _ _ f.dirs (Or.inr (Or.inl ⟨nm, f, hbase, hf, rfl, rfl⟩)) _
  theorem walkSelections_sound (J : Jump) (hJ : JumpS s d cur extra J) :
      ∀ (xs : Selections) (parent : Option Definition) (ws : WS) r,
        walkSelections s d cur J parent xs ws = some r →
        AllE (EvSound s d cur (Spec.spreadsOfSels xs) (InSelsW s parent xs) extra) r.2
    | .nil, parent, ws, r, h => by
      simp only [walkSelections] at h
      injection h with h
      subst h
      exact AllE.nil
    | .cons x rest, parent, ws, r, h => by
      unfold walkSelections at h
      split at h
      · cases h
      · rename_i r1 h1
        split at h
        · cases h
        · rename_i r2 h2
          injection h with h
          subst h
          have ha := walkSelection_sound J hJ x parent ws r1 h1
          have hb := walkSelections_sound J hJ rest parent r1.1 r2 h2
          refine AllE.append (AllE.imp (fun e he => ?_) ha) (AllE.imp (fun e he => ?_) hb)
          · refine EvSound.weaken ?_ ?_ (fun _ _ h => h) e he
            · rintro par y (hi | ⟨n, g, hr, hg, hi⟩)
              · exact Or.inl (InSelsW.head parent x rest par y hi)
              · exact Or.inr ⟨n, g, hr.mono (by intro z hz; simp [Spec.spreadsOfSels, hz]), hg, hi⟩
            · intro n hr
              exact hr.mono (by intro z hz; simp [Spec.spreadsOfSels, hz])
          · refine EvSound.weaken ?_ ?_ (fun _ _ h => h) e he
            · rintro par y (hi | ⟨n, g, hr, hg, hi⟩)
              · exact Or.inl (InSelsW.tail parent x rest par y hi)
              · exact Or.inr ⟨n, g, hr.mono (by intro z hz; simp [Spec.spreadsOfSels, hz]), hg, hi⟩
            · intro n hr
              exact hr.mono (by intro z hz; simp [Spec.spreadsOfSels, hz])
end

theorem walkLevel_sound : ∀ n, JumpS s d cur extra (walkLevel s d cur n)
  | 0 => by intro _ _ _ _ h; simp [walkLevel] at h
  | n + 1 => by
    intro parent sels ws r h
    simp only [walkLevel] at h
    exact walkSelections_sound s d cur extra _ (walkLevel_sound n) sels parent ws r h

end sel

/-- the directive lists of an operation definition itself -/
def opExtra (s : SV) (op : OperationDef) (loc : Bytes) (ds : List Directive) : Prop :=
  (loc = (opRoot s op.op).2 ∧ ds = op.dirs) ∨ ∃ v ∈ op.vars, loc = locVariableDefinition ∧ ds = v.dirs

/-- the directive list of a fragment definition itself -/
def fragExtra (f : FragmentDef) (loc : Bytes) (ds : List Directive) : Prop :=
  loc = locFragmentDefinition ∧ ds = f.dirs

/-- what every event of the walk of operation `op` satisfies -/
abbrev OpSound (s : SV) (d : QueryDoc) (op : OperationDef) : Event → Prop :=
  EvSound s d (some op) (Spec.spreadsOfSels op.sel) (InSelsW s (opRoot s op.op).1 op.sel) (opExtra s op)

/-- what every event of the stand-alone walk of fragment definition `f` satisfies -/
abbrev FragSound (s : SV) (d : QueryDoc) (f : FragmentDef) : Event → Prop :=
  EvSound s d none (Spec.spreadsOfSels f.sel) (InSelsW s (s.type? f.typeCond) f.sel) (fragExtra f)

theorem walkVarDefsB_sound (s : SV) (d : QueryDoc) (op : OperationDef) :
    ∀ (vs : List VarDef) (ws : WS), (∀ v ∈ vs, v ∈ op.vars) →
      AllE (OpSound s d op) (walkVarDefsB s (some op) vs ws).2
  | [], ws, _ => by simp [walkVarDefsB, AllE]
  | v :: rest, ws, hsub => by
    simp only [walkVarDefsB]
    refine AllE.append (AllE.append ?_ ?_) (walkVarDefsB_sound s d op rest _ (fun x hx => hsub x (List.mem_cons_of_mem _ hx)))
    · cases v.default with
      | none => exact AllE.nil
      | some dv => exact walkValue_allE (evSound_value s d (some op) _ _ _) _ _ dv ws
    · exact walkDirectives_sound s d (some op) _ _ _ _ _ v.dirs
        (Or.inr (Or.inr (Or.inr ⟨v, hsub v List.mem_cons_self, rfl, rfl⟩))) _

theorem walkVarDefsA_sound (s : SV) (d : QueryDoc) (op : OperationDef) (ws : WS) :
    ∀ vs : List VarDef, AllE (OpSound s d op) (walkVarDefsA s (some op) ws vs)
  | [] => AllE.nil
  | v :: rest => by
    simp only [walkVarDefsA]
    exact AllE.cons ⟨rfl, trivial⟩ (walkVarDefsA_sound s d op ws rest)

theorem walkOperation_sound (s : SV) (d : QueryDoc) (fuel : Nat) (op : OperationDef) (l : Links)
    (r : Links × List Event) (h : walkOperation s d fuel op l = some r) : AllE (OpSound s d op) r.2 := by
  unfold walkOperation at h
  simp only at h
  split at h
  · cases h
  · rename_i r4 h4
    injection h with h
    subst h
    have hb := walkLevel_sound s d (some op) (opExtra s op) fuel _ _ _ r4 h4
    exact AllE.append (AllE.append (AllE.append (AllE.append (walkVarDefsA_sound s d op _ _)
      (walkVarDefsB_sound s d op op.vars _ (fun _ h => h)))
      (walkDirectives_sound s d (some op) _ _ _ _ _ op.dirs (Or.inr (Or.inr (Or.inl ⟨rfl, rfl⟩))) _)) hb)
      (AllE.single ⟨rfl, trivial⟩)

theorem walkFragment_sound (s : SV) (d : QueryDoc) (fuel : Nat) (f : FragmentDef) (l : Links)
    (r : Links × List Event) (h : walkFragment s d fuel f l = some r) : AllE (FragSound s d f) r.2 := by
  unfold walkFragment at h
  simp only at h
  split at h
  · cases h
  · rename_i r2 h2
    injection h with h
    subst h
    have hb := walkLevel_sound s d none (fragExtra f) fuel _ _ _ r2 h2
    exact AllE.append (AllE.append
      (walkDirectives_sound s d none _ _ _ _ _ f.dirs (Or.inr (Or.inr ⟨rfl, rfl⟩)) _) hb)
      (AllE.single ⟨rfl, trivial⟩)

/-- an event of a run belongs to the walk of an operation or to the stand-alone walk of a fragment
    definition -/
def DocSound (s : SV) (d : QueryDoc) (e : Event) : Prop :=
  (∃ op ∈ d.ops, OpSound s d op e) ∨ (∃ f ∈ d.frags, FragSound s d f e)

theorem walkOps_sound (s : SV) (d : QueryDoc) (fuel : Nat) :
    ∀ (ops : List OperationDef), (∀ op ∈ ops, op ∈ d.ops) → ∀ (l : Links) (r : Links × List Event),
      walkOps s d fuel ops l = some r → AllE (DocSound s d) r.2
  | [], _, l, r, h => by
    simp only [walkOps] at h
    injection h with h
    subst h
    exact AllE.nil
  | op :: rest, hsub, l, r, h => by
    unfold walkOps at h
    split at h
    · cases h
    · rename_i r1 h1
      split at h
      · cases h
      · rename_i r2 h2
        injection h with h
        subst h
        refine AllE.append (AllE.imp (fun e he => Or.inl ⟨op, hsub op List.mem_cons_self, he⟩)
          (walkOperation_sound s d fuel op l r1 h1))
          (walkOps_sound s d fuel rest (fun x hx => hsub x (List.mem_cons_of_mem _ hx)) r1.1 r2 h2)

theorem walkFrags_sound (s : SV) (d : QueryDoc) (fuel : Nat) :
    ∀ (fs : List FragmentDef), (∀ f ∈ fs, f ∈ d.frags) → ∀ (l : Links) (r : Links × List Event),
      walkFrags s d fuel fs l = some r → AllE (DocSound s d) r.2
  | [], _, l, r, h => by
    simp only [walkFrags] at h
    injection h with h
    subst h
    exact AllE.nil
  | f :: rest, hsub, l, r, h => by
    unfold walkFrags at h
    split at h
    · cases h
    · rename_i r1 h1
      split at h
      · cases h
      · rename_i r2 h2
        injection h with h
        subst h
        refine AllE.append (AllE.imp (fun e he => Or.inr ⟨f, hsub f List.mem_cons_self, he⟩)
          (walkFragment_sound s d fuel f l r1 h1))
          (walkFrags_sound s d fuel rest (fun x hx => hsub x (List.mem_cons_of_mem _ hx)) r1.1 r2 h2)

theorem walkDoc_scope_sound (s : SV) (d : QueryDoc) (evs : List Event) (h : walkDoc s d = some evs) :
    AllE (DocSound s d) evs := by
  unfold walkDoc at h
  split at h
  · cases h
  · rename_i r1 h1
    split at h
    · cases h
    · rename_i r2 h2
      injection h with h
      subst h
      exact AllE.append (walkOps_sound s d _ d.ops (fun _ h => h) _ r1 h1)
        (walkFrags_sound s d _ d.frags (fun _ h => h) _ r2 h2)

/-- an event fired with `CurrentOperation = op`: `op` is an operation of the document and the event
    is in its scope -/
theorem walkDoc_op_sound (s : SV) (d : QueryDoc) (evs : List Event) (h : walkDoc s d = some evs)
    (e : Event) (he : e ∈ evs) (op : OperationDef) (hc : e.cur = some op) : op ∈ d.ops ∧ OpSound s d op e := by
  rcases walkDoc_scope_sound s d evs h e he with ⟨op', hop, hs⟩ | ⟨f, _, hs⟩
  · have : some op' = some op := hs.1.symm.trans hc
    injection this with this
    subst this
    exact ⟨hop, hs⟩
  · have : (none : Option OperationDef) = some op := hs.1.symm.trans hc
    cases this

end Gql.Validate
