import GqlProofs.ValSpec.VarCands
import GqlModel.Schema.Spec
/-
  C09, "link present": on a closed schema, the specification predicates that a valid document
  satisfies exclude every case in which a demanded link is absent —
    * the type in scope of every selection node is determined (`parents_present`: root type known,
      type conditions known, fields defined, field types resolve);
    * every argument has a definition whose type resolves (`argSites_present`);
    * every value whose expected type the specification demands has a present expected type and
      definition (`specValOcc_present`).
-/
namespace Gql.Validate
open Gql

/-- the definition is an entry of `Schema.Types` -/
def Prov (s : Schema) (q : Definition) : Prop := ∃ n, s.type? n = some q

theorem typesLookup_mem {β : Type} : ∀ (l : List (Name × β)) (n : Name) (b : β), l.lookup n = some b → (n, b) ∈ l
  | [], _, _, h => by cases h
  | (k, v) :: rest, n, b, h => by
    simp only [List.lookup] at h
    split at h
    · rename_i heq
      injection h with h
      subst h
      have : n = k := by simpa using heq
      subst this
      exact List.mem_cons_self
    · exact List.mem_cons_of_mem _ (typesLookup_mem rest n b h)

theorem typeIs_some {s : Schema} {n : Name} {p : DefKind → Bool} (h : Gql.Spec.typeIs s n p = true) :
    (s.type? n).isSome := by
  unfold Gql.Spec.typeIs at h
  unfold Schema.type?
  cases hl : s.types.lookup n with
  | none => rw [hl] at h; cases h
  | some d => rfl

/-- what the rules demand of one selection node for its type in scope to propagate -/
def NodeOK (s : Schema) (t : Spec.TSel) : Prop :=
  match t.sel, t.parent with
  | .field _ nm _ _ _ _, some p => (Spec.fieldDefOn p nm).isSome
  | .inline tc _ _ _, _ => tc = [] ∨ (s.type? tc).isSome
  | _, _ => True

section
variable (s : Schema) (hft : Gql.Spec.ClosedFieldTypes s) (hString : (s.type? (str "String")).isSome)
include hft hString

theorem fieldType_present (p : Definition) (hp : Prov s p) (nm : Name) (h : (Spec.fieldDefOn p nm).isSome) :
    ∃ q, Spec.fieldType s (some p) nm = some q ∧ Prov s q := by
  unfold Spec.fieldType
  simp only [Option.bind_some]
  cases hfd : Spec.fieldDefOn p nm with
  | none => rw [hfd] at h; cases h
  | some fd =>
    simp only [Option.bind_some]
    have hsome : (s.type? fd.type.name).isSome := by
      unfold Spec.fieldDefOn at hfd
      split at hfd
      · split at hfd
        · injection hfd with hfd
          subst hfd
          exact hString
        · cases hfd
      · split at hfd
        · obtain ⟨n, hn⟩ := hp
          have hmem := typesLookup_mem s.types n p hn
          exact typeIs_some (hft (n, p) hmem fd (List.mem_of_find?_eq_some hfd))
        · cases hfd
    cases hq : s.type? fd.type.name with
    | none => rw [hq] at hsome; cases hsome
    | some q => exact ⟨q, rfl, fd.type.name, hq⟩

mutual
  theorem typedSel_parents :
      ∀ (x : Selection) (p : Definition), Prov s p → (∀ t ∈ Spec.typedSel s (some p) x, NodeOK s t) →
        ∀ t ∈ Spec.typedSel s (some p) x, ∃ q, t.parent = some q ∧ Prov s q
    | .field al nm args dirs sub pos, p, hp, hok, t, ht => by
      simp only [Spec.typedSel, List.mem_cons] at ht hok
      rcases ht with rfl | ht
      · exact ⟨p, rfl, hp⟩
      · have h0 : (Spec.fieldDefOn p nm).isSome := hok _ (Or.inl rfl)
        obtain ⟨q, hq, hpq⟩ := fieldType_present s hft hString p hp nm h0
        rw [hq] at ht hok
        exact typedSels_parents sub q hpq (fun t' ht' => hok t' (Or.inr ht')) t ht
    | .spread nm dirs pos, p, hp, _, t, ht => by
      simp only [Spec.typedSel, List.mem_singleton] at ht
      subst ht
      exact ⟨p, rfl, hp⟩
    | .inline tc dirs sub pos, p, hp, hok, t, ht => by
      simp only [Spec.typedSel, List.mem_cons] at ht hok
      rcases ht with rfl | ht
      · exact ⟨p, rfl, hp⟩
      · have h0 : tc = [] ∨ (s.type? tc).isSome := hok _ (Or.inl rfl)
        have : ∃ q, Spec.inlineType s (some p) tc = some q ∧ Prov s q := by
          unfold Spec.inlineType
          rcases h0 with h0 | h0
          · subst h0
            exact ⟨p, rfl, hp⟩
          · by_cases htc : tc = []
            · subst htc
              exact ⟨p, rfl, hp⟩
            · have : (tc == []) = false := by simpa using htc
              simp only [this, Bool.false_eq_true, if_false]
              cases hq : s.type? tc with
              | none => rw [hq] at h0; cases h0
              | some q => exact ⟨q, rfl, tc, hq⟩
        obtain ⟨q, hq, hpq⟩ := this
        rw [hq] at ht hok
        exact typedSels_parents sub q hpq (fun t' ht' => hok t' (Or.inr ht')) t ht
  theorem typedSels_parents :
      ∀ (xs : Selections) (p : Definition), Prov s p → (∀ t ∈ Spec.typedSels s (some p) xs, NodeOK s t) →
        ∀ t ∈ Spec.typedSels s (some p) xs, ∃ q, t.parent = some q ∧ Prov s q
    | .nil, _, _, _, t, ht => by simp [Spec.typedSels] at ht
    | .cons x rest, p, hp, hok, t, ht => by
      simp only [Spec.typedSels, List.mem_append] at ht hok
      rcases ht with ht | ht
      · exact typedSel_parents x p hp (fun t' ht' => hok t' (Or.inl ht')) t ht
      · exact typedSels_parents rest p hp (fun t' ht' => hok t' (Or.inr ht')) t ht
end

end

/-- the rule predicates give `NodeOK` for every node -/
theorem nodeOK_of_rules (s : Schema) (d : QueryDoc) (hfs : Spec.fieldSelections s d = true)
    (htc : Spec.fragmentSpreadTypeExistence s d = true) : ∀ t ∈ Spec.docSels s d, NodeOK s t := by
  intro t ht
  unfold Spec.fieldSelections at hfs
  unfold Spec.fragmentSpreadTypeExistence Spec.typeConditions at htc
  simp only [List.all_eq_true, List.mem_append, List.mem_filterMap] at hfs htc
  obtain ⟨par, sel⟩ := t
  cases sel with
  | field al nm args dirs sub p =>
    cases par with
    | none => trivial
    | some q => exact hfs _ ht
  | spread nm dirs p => trivial
  | inline tc dirs sub p =>
    by_cases h : tc = []
    · exact Or.inl h
    · refine Or.inr (htc tc (Or.inr ⟨_, ht, ?_⟩))
      have : (tc == []) = false := by simpa using h
      simp [this]

/-- on a closed schema, for a document whose root types and type conditions are known and whose
    fields are defined, the type in scope of every selection node is determined -/
theorem parents_present (s : Schema) (d : QueryDoc) (hft : Gql.Spec.ClosedFieldTypes s)
    (hString : (s.type? (str "String")).isSome) (hroot : Spec.knownRootType s d = true)
    (hfs : Spec.fieldSelections s d = true) (htc : Spec.fragmentSpreadTypeExistence s d = true) :
    ∀ t ∈ Spec.docSels s d, ∃ q, t.parent = some q ∧ Prov s q := by
  have hok := nodeOK_of_rules s d hfs htc
  intro t ht
  have ht' := ht
  simp only [Spec.docSels, List.mem_append, List.mem_flatMap] at ht'
  rcases ht' with ⟨op, hop, hin⟩ | ⟨f, hf, hin⟩
  · unfold Spec.knownRootType at hroot
    simp only [List.all_eq_true] at hroot
    have hr := hroot op hop
    cases hq : Spec.rootDef s op.op with
    | none => rw [hq] at hr; cases hr
    | some q =>
      rw [hq] at hin
      have hprov : Prov s q := by
        unfold Spec.rootDef at hq
        cases hn : Spec.rootName s op.op with
        | none => rw [hn] at hq; cases hq
        | some n => rw [hn] at hq; exact ⟨n, hq⟩
      refine typedSels_parents s hft hString op.sel q hprov (fun t' ht' => hok t' ?_) t hin
      simp only [Spec.docSels, List.mem_append, List.mem_flatMap]
      exact Or.inl ⟨op, hop, by rw [hq]; exact ht'⟩
  · unfold Spec.fragmentSpreadTypeExistence Spec.typeConditions at htc
    simp only [List.all_eq_true, List.mem_append, List.mem_map] at htc
    have hr := htc f.typeCond (Or.inl ⟨f, hf, rfl⟩)
    cases hq : s.type? f.typeCond with
    | none => rw [hq] at hr; cases hr
    | some q =>
      rw [hq] at hin
      refine typedSels_parents s hft hString f.sel q ⟨_, hq⟩ (fun t' ht' => hok t' ?_) t hin
      simp only [Spec.docSels, List.mem_append, List.mem_flatMap]
      exact Or.inr ⟨f, hf, by rw [hq]; exact ht'⟩

/- ---------- values ---------- -/

mutual
  theorem valOccs_present (s : Schema) (hft : Gql.Spec.ClosedFieldTypes s) :
      ∀ (v : Value) (typed : Bool) (exp : Option GType) (dfn : Option Definition),
        (∀ q, dfn = some q → Prov s q) → (typed = true → exp.isSome ∧ dfn.isSome) →
        (typed = false → exp = none ∧ dfn = none) →
        ∀ o ∈ valOccs s typed exp dfn v, o.typed = true → o.exp.isSome ∧ o.dfn.isSome
    | .mk k raw ch p, typed, exp, dfn, hprov, ht, hf, o, ho, hot => by
      simp only [valOccs, List.mem_cons] at ho
      rcases ho with rfl | ho
      · exact ht hot
      · cases k with
        | list =>
          simp only at ho
          cases exp with
          | none => exact itemOccs_present s hft ch false none none (fun _ h => by cases h) (fun h => by cases h) (fun _ => ⟨rfl, rfl⟩) o ho hot
          | some t0 =>
            cases t0 with
            | named _ _ _ => exact itemOccs_present s hft ch false none none (fun _ h => by cases h) (fun h => by cases h) (fun _ => ⟨rfl, rfl⟩) o ho hot
            | list e nn q =>
              have htyped : typed = true := by
                cases typed with
                | true => rfl
                | false => have := (hf rfl).1; cases this
              exact itemOccs_present s hft ch true (some e) dfn hprov (fun _ => ⟨rfl, (ht htyped).2⟩) (fun h => by cases h) o ho hot
        | object => exact fieldOccs_present s hft ch dfn hprov o ho hot
        | _ => simp at ho
  theorem itemOccs_present (s : Schema) (hft : Gql.Spec.ClosedFieldTypes s) :
      ∀ (ch : Children) (typed : Bool) (e : Option GType) (dfn : Option Definition),
        (∀ q, dfn = some q → Prov s q) → (typed = true → e.isSome ∧ dfn.isSome) →
        (typed = false → e = none ∧ dfn = none) →
        ∀ o ∈ itemOccs s typed e dfn ch, o.typed = true → o.exp.isSome ∧ o.dfn.isSome
    | .nil, _, _, _, _, _, _, o, ho, _ => by simp [itemOccs] at ho
    | .cons n v p rest, typed, e, dfn, hprov, ht, hf, o, ho, hot => by
      simp only [itemOccs, List.mem_append] at ho
      rcases ho with ho | ho
      · exact valOccs_present s hft v typed e dfn hprov ht hf o ho hot
      · exact itemOccs_present s hft rest typed e dfn hprov ht hf o ho hot
  theorem fieldOccs_present (s : Schema) (hft : Gql.Spec.ClosedFieldTypes s) :
      ∀ (ch : Children) (dfn : Option Definition), (∀ q, dfn = some q → Prov s q) →
        ∀ o ∈ fieldOccs s dfn ch, o.typed = true → o.exp.isSome ∧ o.dfn.isSome
    | .nil, _, _, o, ho, _ => by simp [fieldOccs] at ho
    | .cons n v p rest, dfn, hprov, o, ho, hot => by
      simp only [fieldOccs, List.mem_append] at ho
      rcases ho with ho | ho
      · cases hfd : (dfn.bind fun d => if d.kind == .inputObject then Spec.inputFieldByName d n else none) with
        | none =>
          rw [hfd] at ho
          exact valOccs_present s hft v false none none (fun _ h => by cases h) (fun h => by cases h) (fun _ => ⟨rfl, rfl⟩) o ho hot
        | some fd =>
          rw [hfd] at ho
          cases dfn with
          | none => simp at hfd
          | some dd =>
            simp only [Option.bind_some] at hfd
            split at hfd
            · obtain ⟨nn, hnn⟩ := hprov dd rfl
              have hmem := typesLookup_mem s.types nn dd hnn
              have hsome := typeIs_some (hft (nn, dd) hmem fd (List.mem_of_find?_eq_some hfd))
              refine valOccs_present s hft v true (some fd.type) (s.type? fd.type.name) (fun q hq => ⟨_, hq⟩)
                (fun _ => ⟨rfl, hsome⟩) (fun h => by cases h) o ho hot
            · cases hfd
      · exact fieldOccs_present s hft rest dfn hprov o ho hot
end

/-- every argument of a site whose definitions are known is defined, and its type resolves -/
def SiteOK (s : Schema) (site : Spec.ArgSite) : Prop :=
  ∃ defs, site.defs = some defs ∧ ∀ a ∈ site.args, ∃ ad, Spec.argDefByName defs a.name = some ad ∧
    (s.type? ad.type.name).isSome

theorem argSites_present (s : Schema) (d : QueryDoc) (hs : Gql.Spec.Closed s)
    (hpar : ∀ t ∈ Spec.docSels s d, ∃ q, t.parent = some q ∧ Prov s q)
    (hfs : Spec.fieldSelections s d = true) (hdd : Spec.directivesAreDefined s d = true)
    (han : Spec.argumentNames s d = true) : ∀ site ∈ Spec.argSites s d, SiteOK s site := by
  intro site hsite
  unfold Spec.argumentNames at han
  simp only [List.all_eq_true] at han
  have hnames := han site hsite
  -- the argument definitions of the site are known and all their types resolve
  have hdefs : ∃ defs, site.defs = some defs ∧ ∀ ad ∈ defs, (s.type? ad.type.name).isSome := by
    simp only [Spec.argSites, List.mem_append] at hsite
    rcases hsite with hsite | hsite
    · simp only [Spec.fieldArgSites, List.mem_filterMap] at hsite
      obtain ⟨⟨par, sel⟩, ht, hm⟩ := hsite
      cases sel with
      | spread nm dirs p => cases hm
      | inline tc dirs sub p => cases hm
      | field al nm args dirs sub p =>
        simp only [Option.some.injEq] at hm
        subst hm
        obtain ⟨q, hq, nq, hnq⟩ := hpar _ ht
        simp only at hq
        subst hq
        unfold Spec.fieldSelections at hfs
        simp only [List.all_eq_true] at hfs
        have hfd := hfs _ ht
        simp only at hfd
        cases hfdq : Spec.fieldDefOn q nm with
        | none => rw [hfdq] at hfd; cases hfd
        | some fd =>
          refine ⟨fd.args, by simp [hfdq], fun ad had => ?_⟩
          unfold Spec.fieldDefOn at hfdq
          split at hfdq
          · split at hfdq
            · injection hfdq with hfdq
              subst hfdq
              cases had
            · cases hfdq
          · split at hfdq
            · exact typeIs_some (hs.argTypes (nq, q) (typesLookup_mem _ _ _ hnq) fd (List.mem_of_find?_eq_some hfdq) ad had)
            · cases hfdq
    · simp only [Spec.directiveArgSites, List.mem_map] at hsite
      obtain ⟨dir, hdir, rfl⟩ := hsite
      unfold Spec.directivesAreDefined at hdd
      simp only [List.all_eq_true] at hdd
      have := hdd dir hdir
      cases hq : s.directive? dir.name with
      | none => rw [hq] at this; cases this
      | some dd =>
        refine ⟨dd.args, by simp, fun ad had => ?_⟩
        exact typeIs_some (hs.directiveArgTypes (dir.name, dd) (typesLookup_mem _ _ _ hq) ad had)
  obtain ⟨defs, hd, hall⟩ := hdefs
  refine ⟨defs, hd, fun a ha => ?_⟩
  rw [hd] at hnames
  simp only [List.all_eq_true] at hnames
  have := hnames a ha
  cases hq : Spec.argDefByName defs a.name with
  | none => rw [hq] at this; cases this
  | some ad => exact ⟨ad, rfl, hall ad (List.mem_of_find?_eq_some hq)⟩

/-- every value whose expected type / definition the specification demands has them present -/
theorem specValOcc_present (s : Schema) (d : QueryDoc) (hft : Gql.Spec.ClosedFieldTypes s)
    (hsites : ∀ site ∈ Spec.argSites s d, SiteOK s site) (hvt : Spec.variableTypesExist s d = true) :
    ∀ o, SpecValOcc s d o → o.typed = true → o.exp.isSome ∧ o.dfn.isSome := by
  intro o ho hot
  rcases ho with ⟨site, hsite, ho⟩ | ⟨op, hop, vd, hvd, dv, _, ho⟩
  · obtain ⟨defs, hd, hall⟩ := hsites site hsite
    simp only [argOccs, List.mem_flatMap] at ho
    obtain ⟨a, ha, ho⟩ := ho
    obtain ⟨ad, had, hsome⟩ := hall a ha
    rw [hd] at ho
    simp only [Option.bind_some, had] at ho
    exact valOccs_present s hft a.value true _ _ (fun q hq => ⟨_, hq⟩) (fun _ => ⟨rfl, hsome⟩) (fun h => by cases h) o ho hot
  · unfold Spec.variableTypesExist at hvt
    simp only [List.all_eq_true] at hvt
    exact valOccs_present s hft dv true _ _ (fun q hq => ⟨_, hq⟩) (fun _ => ⟨rfl, hvt op hop vd hvd⟩)
      (fun h => by cases h) o ho hot

end Gql.Validate

namespace Gql.Validate
open Gql

/-- the demanded link exists (is not nil) -/
def Demand.Present (s : Schema) (d : QueryDoc) : Demand → Prop
  | .field f parent => parent.isSome ∧ (parent.bind (Spec.fieldDefOn · f.name)).isSome
  | .spread f => (Spec.fragByName d f.name).isSome
  | .inline f parent => parent.isSome ∧ (Spec.inlineType s parent f.typeCond).isSome
  | .directive dir _ => (s.directive? dir.name).isSome
  | .varDef v => (s.type? v.type.name).isSome
  | .fragDef f => (s.type? f.typeCond).isSome
  | .value _ o => o.typed = true → o.exp.isSome ∧ o.dfn.isSome

/-- what the rules a valid document passes say, as far as links are concerned -/
structure LinkRules (s : Schema) (d : QueryDoc) : Prop where
  knownRootType : Spec.knownRootType s d = true
  fieldSelections : Spec.fieldSelections s d = true
  typeConditions : Spec.fragmentSpreadTypeExistence s d = true
  variableTypes : Spec.variableTypesExist s d = true
  spreads : Spec.fragmentSpreadTargetDefined d = true
  directives : Spec.directivesAreDefined s d = true
  argumentNames : Spec.argumentNames s d = true

section
variable (s : Schema) (d : QueryDoc) (hs : Gql.Spec.Closed s) (hString : (s.type? (str "String")).isSome)
  (hr : LinkRules s d)
include hs hString hr

theorem argDemands_present (cands : Name → List String) (site : Spec.ArgSite) (hsite : site ∈ Spec.argSites s d) :
    ∀ dm ∈ argDemands s cands site.defs site.args, dm.Present s d := by
  have hpar := parents_present s d hs.fieldTypes hString hr.knownRootType hr.fieldSelections hr.typeConditions
  have hsites := argSites_present s d hs hpar hr.fieldSelections hr.directives hr.argumentNames
  intro dm hdm
  simp only [argDemands, List.mem_map] at hdm
  obtain ⟨o, ho, rfl⟩ := hdm
  exact specValOcc_present s d hs.fieldTypes hsites hr.variableTypes o (Or.inl ⟨site, hsite, ho⟩)

theorem dirDemands_present (cands : Name → List String) (loc : Bytes) (ds : List Directive)
    (hsite : (loc, ds) ∈ Spec.directiveSites s d) : ∀ dm ∈ dirDemands s cands loc ds, dm.Present s d := by
  intro dm hdm
  simp only [dirDemands, List.mem_flatMap, List.mem_cons] at hdm
  obtain ⟨dir, hd, rfl | hdm⟩ := hdm
  · have := hr.directives
    unfold Spec.directivesAreDefined Spec.allDirectives at this
    simp only [List.all_eq_true, List.mem_flatMap] at this
    exact this dir ⟨(loc, ds), hsite, hd⟩
  · have hsa : (⟨(s.directive? dir.name).map (·.args), dir.args⟩ : Spec.ArgSite) ∈ Spec.argSites s d := by
      simp only [Spec.argSites, List.mem_append, Spec.directiveArgSites, Spec.allDirectives, List.mem_map,
        List.mem_flatMap]
      exact Or.inr ⟨dir, ⟨(loc, ds), hsite, hd⟩, rfl⟩
    exact argDemands_present s d hs hString hr cands _ hsa dm hdm

theorem nodeDemands_present (cands : Name → List String) (t : Spec.TSel) (ht : t ∈ Spec.docSels s d) :
    ∀ dm ∈ nodeDemands s cands t, dm.Present s d := by
  have hpar := parents_present s d hs.fieldTypes hString hr.knownRootType hr.fieldSelections hr.typeConditions
  have hok := nodeOK_of_rules s d hr.fieldSelections hr.typeConditions
  have hdirs : (Spec.selLoc t.sel, Spec.selDirs t.sel) ∈ Spec.directiveSites s d := by
    simp only [Spec.directiveSites, List.mem_append, List.mem_map]
    exact Or.inr ⟨t, ht, rfl⟩
  obtain ⟨q, hq, _⟩ := hpar t ht
  have hokt := hok t ht
  intro dm hdm
  obtain ⟨par, sel⟩ := t
  simp only at hq
  subst hq
  cases sel with
  | field al nm args dirs sub p =>
    simp only [nodeDemands, List.mem_cons, List.mem_append] at hdm
    rcases hdm with rfl | hdm | hdm
    · exact ⟨rfl, hokt⟩
    · have hsa : (⟨((some q).bind (Spec.fieldDefOn · nm)).map (·.args), args⟩ : Spec.ArgSite) ∈ Spec.argSites s d := by
        simp only [Spec.argSites, List.mem_append, Spec.fieldArgSites, List.mem_filterMap]
        exact Or.inl ⟨_, ht, rfl⟩
      exact argDemands_present s d hs hString hr cands _ hsa dm hdm
    · exact dirDemands_present s d hs hString hr cands _ _ hdirs dm hdm
  | spread nm dirs p =>
    simp only [nodeDemands, List.mem_cons] at hdm
    rcases hdm with rfl | hdm
    · have := hr.spreads
      unfold Spec.fragmentSpreadTargetDefined at this
      simp only [List.all_eq_true] at this
      apply this nm
      have hmem := (docSels_iff s d _).1 ⟨_, ht⟩
      have key : ∀ xs : Selections, InSels xs (.sel (.spread nm dirs p)) → nm ∈ Spec.spreadsOfSels xs :=
        fun xs hx => inSels_spread_memL xs nm dirs p hx
      simp only [Spec.allSpreadNames, List.mem_append, List.mem_flatMap]
      rcases hmem with ⟨op, hop, hx⟩ | ⟨f, hf, hx⟩
      · exact Or.inl ⟨op, hop, key _ hx⟩
      · exact Or.inr ⟨f, hf, key _ hx⟩
    · exact dirDemands_present s d hs hString hr cands _ _ hdirs dm hdm
  | inline tc dirs sub p =>
    simp only [nodeDemands, List.mem_cons] at hdm
    rcases hdm with rfl | hdm
    · refine ⟨rfl, ?_⟩
      simp only [Spec.inlineType]
      rcases hokt with h | h
      · subst h; rfl
      · by_cases htc : tc = []
        · subst htc; rfl
        · have : (tc == []) = false := by simpa using htc
          simpa [this] using h
    · exact dirDemands_present s d hs hString hr cands _ _ hdirs dm hdm

theorem defaultDemands_present (cands : Name → List String) (op : OperationDef) (hop : op ∈ d.ops) (v : VarDef)
    (hv : v ∈ op.vars) : ∀ dm ∈ defaultDemands s cands v, dm.Present s d := by
  have hpar := parents_present s d hs.fieldTypes hString hr.knownRootType hr.fieldSelections hr.typeConditions
  have hsites := argSites_present s d hs hpar hr.fieldSelections hr.directives hr.argumentNames
  intro dm hdm
  unfold defaultDemands at hdm
  cases hdv : v.default with
  | none => rw [hdv] at hdm; cases hdm
  | some dv =>
    rw [hdv] at hdm
    simp only at hdm
    cases hocc : valOccs s true (some v.type) (s.type? v.type.name) dv with
    | nil => rw [hocc] at hdm; cases hdm
    | cons top rest =>
      rw [hocc] at hdm
      simp only [List.mem_cons, List.mem_map] at hdm
      rcases hdm with rfl | ⟨o, ho, rfl⟩
      · exact fun h => by cases h
      · exact specValOcc_present s d hs.fieldTypes hsites hr.variableTypes o
          (Or.inr ⟨op, hop, v, hv, dv, hdv, by rw [hocc]; exact List.mem_cons_of_mem _ ho⟩)

/-- on a closed schema, for a document that satisfies the rule predicates, every demanded link exists -/
theorem docDemands_present : ∀ dm ∈ docDemands s d, dm.Present s d := by
  intro dm hdm
  simp only [docDemands, List.mem_append, List.mem_flatMap] at hdm
  rcases hdm with ⟨op, hop, hdm⟩ | ⟨f, hf, hdm⟩
  · simp only [opDemands, List.mem_append, List.mem_flatMap, List.mem_cons] at hdm
    rcases hdm with (⟨v, hv, rfl | hdm | hdm⟩ | hdm) | ⟨t, ht, hdm⟩
    · have := hr.variableTypes
      unfold Spec.variableTypesExist at this
      simp only [List.all_eq_true] at this
      exact this op hop v hv
    · exact defaultDemands_present s d hs hString hr _ op hop v hv dm hdm
    · refine dirDemands_present s d hs hString hr _ _ _ ?_ dm hdm
      simp only [Spec.directiveSites, List.mem_append, List.mem_flatMap, List.mem_cons, List.mem_map]
      exact Or.inl (Or.inl ⟨op, hop, Or.inr ⟨v, hv, rfl⟩⟩)
    · refine dirDemands_present s d hs hString hr _ _ _ ?_ dm hdm
      simp only [Spec.directiveSites, List.mem_append, List.mem_flatMap, List.mem_cons, List.mem_map]
      exact Or.inl (Or.inl ⟨op, hop, Or.inl rfl⟩)
    · refine nodeDemands_present s d hs hString hr _ t ?_ dm hdm
      simp only [Spec.docSels, List.mem_append, List.mem_flatMap]
      exact Or.inl ⟨op, hop, ht⟩
  · simp only [fragDemands, List.mem_cons, List.mem_append, List.mem_flatMap] at hdm
    rcases hdm with rfl | hdm | ⟨t, ht, hdm⟩
    · have := hr.typeConditions
      unfold Spec.fragmentSpreadTypeExistence Spec.typeConditions at this
      simp only [List.all_eq_true, List.mem_append, List.mem_map] at this
      exact this f.typeCond (Or.inl ⟨f, hf, rfl⟩)
    · refine dirDemands_present s d hs hString hr _ _ _ ?_ dm hdm
      simp only [Spec.directiveSites, List.mem_append, List.mem_map]
      exact Or.inl (Or.inr ⟨f, hf, rfl⟩)
    · refine nodeDemands_present s d hs hString hr _ t ?_ dm hdm
      simp only [Spec.docSels, List.mem_append, List.mem_flatMap]
      exact Or.inr ⟨f, hf, ht⟩

end

end Gql.Validate
