import GqlProofs.ValSpec.VarCands
import GqlModel.Schema.Spec
/-
  C09, "link present": on a closed schema, the specification predicates that a valid document
  satisfies exclude every case in which a demanded link is absent —
    * the type in scope of every selection node is determined (`parents_present`: root type known,
      type conditions known, fields defined, field types resolve);
    * every argument has a definition whose type resolves (`argSites_present`);
    * every value whose expected type the specification demands has a present expected type and
      definition (`specValOcc_present`).
-/
namespace Gql.Validate
open Gql

/-- the definition is an entry of `Schema.Types` -/
def Prov (s : Schema) (q : Definition) : Prop := ∃ n, s.type? n = some q

theorem lookup_mem {β : Type} : ∀ (l : List (Name × β)) (n : Name) (b : β), l.lookup n = some b → (n, b) ∈ l
  | [], _, _, h => by cases h
  | (k, v) :: rest, n, b, h => by
    simp only [List.lookup] at h
    split at h
    · rename_i heq
      injection h with h
      subst h
      have : n = k := by simpa using heq
      subst this
      exact List.mem_cons_self
    · exact List.mem_cons_of_mem _ (lookup_mem rest n b h)

theorem typeIs_some {s : Schema} {n : Name} {p : DefKind → Bool} (h : Gql.Spec.typeIs s n p = true) :
    (s.type? n).isSome := by
  unfold Gql.Spec.typeIs at h
  unfold Schema.type?
  cases hl : s.types.lookup n with
  | none => rw [hl] at h; cases h
  | some d => rfl

/-- what the rules demand of one selection node for its type in scope to propagate -/
def NodeOK (s : Schema) (t : Spec.TSel) : Prop :=
  match t.sel, t.parent with
  | .field _ nm _ _ _ _, some p => (Spec.fieldDefOn p nm).isSome
  | .inline tc _ _ _, _ => tc = [] ∨ (s.type? tc).isSome
  | _, _ => True

section
variable (s : Schema) (hft : Gql.Spec.ClosedFieldTypes s) (hString : (s.type? (str "String")).isSome)
include hft hString

theorem fieldType_present (p : Definition) (hp : Prov s p) (nm : Name) (h : (Spec.fieldDefOn p nm).isSome) :
    ∃ q, Spec.fieldType s (some p) nm = some q ∧ Prov s q := by
  unfold Spec.fieldType
  simp only [Option.bind_some]
  cases hfd : Spec.fieldDefOn p nm with
  | none => rw [hfd] at h; cases h
  | some fd =>
    simp only [Option.bind_some]
    have hsome : (s.type? fd.type.name).isSome := by
      unfold Spec.fieldDefOn at hfd
      split at hfd
      · split at hfd
        · injection hfd with hfd
          subst hfd
          exact hString
        · cases hfd
      · split at hfd
        · obtain ⟨n, hn⟩ := hp
          have hmem := lookup_mem s.types n p hn
          exact typeIs_some (hft (n, p) hmem fd (List.mem_of_find?_eq_some hfd))
        · cases hfd
    cases hq : s.type? fd.type.name with
    | none => rw [hq] at hsome; cases hsome
    | some q => exact ⟨q, rfl, fd.type.name, hq⟩

mutual
  theorem typedSel_parents :
      ∀ (x : Selection) (p : Definition), Prov s p → (∀ t ∈ Spec.typedSel s (some p) x, NodeOK s t) →
        ∀ t ∈ Spec.typedSel s (some p) x, ∃ q, t.parent = some q ∧ Prov s q
    | .field al nm args dirs sub pos, p, hp, hok, t, ht => by
      simp only [Spec.typedSel, List.mem_cons] at ht hok
      rcases ht with rfl | ht
      · exact ⟨p, rfl, hp⟩
      · have h0 : (Spec.fieldDefOn p nm).isSome := hok _ (Or.inl rfl)
        obtain ⟨q, hq, hpq⟩ := fieldType_present s hft hString p hp nm h0
        rw [hq] at ht hok
        exact typedSels_parents sub q hpq (fun t' ht' => hok t' (Or.inr ht')) t ht
    | .spread nm dirs pos, p, hp, _, t, ht => by
      simp only [Spec.typedSel, List.mem_singleton] at ht
      subst ht
      exact ⟨p, rfl, hp⟩
    | .inline tc dirs sub pos, p, hp, hok, t, ht => by
      simp only [Spec.typedSel, List.mem_cons] at ht hok
      rcases ht with rfl | ht
      · exact ⟨p, rfl, hp⟩
      · have h0 : tc = [] ∨ (s.type? tc).isSome := hok _ (Or.inl rfl)
        have : ∃ q, Spec.inlineType s (some p) tc = some q ∧ Prov s q := by
          unfold Spec.inlineType
          rcases h0 with h0 | h0
          · subst h0
            exact ⟨p, rfl, hp⟩
          · by_cases htc : tc = []
            · subst htc
              exact ⟨p, rfl, hp⟩
            · have : (tc == []) = false := by simpa using htc
              simp only [this, Bool.false_eq_true, if_false]
              cases hq : s.type? tc with
              | none => rw [hq] at h0; cases h0
              | some q => exact ⟨q, rfl, tc, hq⟩
        obtain ⟨q, hq, hpq⟩ := this
        rw [hq] at ht hok
        exact typedSels_parents sub q hpq (fun t' ht' => hok t' (Or.inr ht')) t ht
  theorem typedSels_parents :
      ∀ (xs : Selections) (p : Definition), Prov s p → (∀ t ∈ Spec.typedSels s (some p) xs, NodeOK s t) →
        ∀ t ∈ Spec.typedSels s (some p) xs, ∃ q, t.parent = some q ∧ Prov s q
    | .nil, _, _, _, t, ht => by simp [Spec.typedSels] at ht
    | .cons x rest, p, hp, hok, t, ht => by
      simp only [Spec.typedSels, List.mem_append] at ht hok
      rcases ht with ht | ht
      · exact typedSel_parents x p hp (fun t' ht' => hok t' (Or.inl ht')) t ht
      · exact typedSels_parents rest p hp (fun t' ht' => hok t' (Or.inr ht')) t ht
end

end

/-- the rule predicates give `NodeOK` for every node -/
theorem nodeOK_of_rules (s : Schema) (d : QueryDoc) (hfs : Spec.fieldSelections s d = true)
    (htc : Spec.fragmentSpreadTypeExistence s d = true) : ∀ t ∈ Spec.docSels s d, NodeOK s t := by
  intro t ht
  unfold Spec.fieldSelections at hfs
  unfold Spec.fragmentSpreadTypeExistence Spec.typeConditions at htc
  simp only [List.all_eq_true, List.mem_append, List.mem_filterMap] at hfs htc
  obtain ⟨par, sel⟩ := t
  cases sel with
  | field al nm args dirs sub p =>
    cases par with
    | none => trivial
    | some q => exact hfs _ ht
  | spread nm dirs p => trivial
  | inline tc dirs sub p =>
    by_cases h : tc = []
    · exact Or.inl h
    · refine Or.inr (htc tc (Or.inr ⟨_, ht, ?_⟩))
      have : (tc == []) = false := by simpa using h
      simp [this]

/-- on a closed schema, for a document whose root types and type conditions are known and whose
    fields are defined, the type in scope of every selection node is determined -/
theorem parents_present (s : Schema) (d : QueryDoc) (hft : Gql.Spec.ClosedFieldTypes s)
    (hString : (s.type? (str "String")).isSome) (hroot : Spec.knownRootType s d = true)
    (hfs : Spec.fieldSelections s d = true) (htc : Spec.fragmentSpreadTypeExistence s d = true) :
    ∀ t ∈ Spec.docSels s d, ∃ q, t.parent = some q ∧ Prov s q := by
  have hok := nodeOK_of_rules s d hfs htc
  intro t ht
  have ht' := ht
  simp only [Spec.docSels, List.mem_append, List.mem_flatMap] at ht'
  rcases ht' with ⟨op, hop, hin⟩ | ⟨f, hf, hin⟩
  · unfold Spec.knownRootType at hroot
    simp only [List.all_eq_true] at hroot
    have hr := hroot op hop
    cases hq : Spec.rootDef s op.op with
    | none => rw [hq] at hr; cases hr
    | some q =>
      rw [hq] at hin
      have hprov : Prov s q := by
        unfold Spec.rootDef at hq
        cases hn : Spec.rootName s op.op with
        | none => rw [hn] at hq; cases hq
        | some n => rw [hn] at hq; exact ⟨n, hq⟩
      refine typedSels_parents s hft hString op.sel q hprov (fun t' ht' => hok t' ?_) t hin
      simp only [Spec.docSels, List.mem_append, List.mem_flatMap]
      exact Or.inl ⟨op, hop, by rw [hq]; exact ht'⟩
  · unfold Spec.fragmentSpreadTypeExistence Spec.typeConditions at htc
    simp only [List.all_eq_true, List.mem_append, List.mem_map] at htc
    have hr := htc f.typeCond (Or.inl ⟨f, hf, rfl⟩)
    cases hq : s.type? f.typeCond with
    | none => rw [hq] at hr; cases hr
    | some q =>
      rw [hq] at hin
      refine typedSels_parents s hft hString f.sel q ⟨_, hq⟩ (fun t' ht' => hok t' ?_) t hin
      simp only [Spec.docSels, List.mem_append, List.mem_flatMap]
      exact Or.inr ⟨f, hf, by rw [hq]; exact ht'⟩

/- ---------- values ---------- -/

mutual
  theorem valOccs_present (s : Schema) (hft : Gql.Spec.ClosedFieldTypes s) :
      ∀ (v : Value) (typed : Bool) (exp : Option GType) (dfn : Option Definition),
        (∀ q, dfn = some q → Prov s q) → (typed = true → exp.isSome ∧ dfn.isSome) →
        (typed = false → exp = none ∧ dfn = none) →
        ∀ o ∈ valOccs s typed exp dfn v, o.typed = true → o.exp.isSome ∧ o.dfn.isSome
    | .mk k raw ch p, typed, exp, dfn, hprov, ht, hf, o, ho, hot => by
      simp only [valOccs, List.mem_cons] at ho
      rcases ho with rfl | ho
      · exact ht hot
      · cases k with
        | list =>
          simp only at ho
          cases exp with
          | none => exact itemOccs_present s hft ch false none none (fun _ h => by cases h) (fun h => by cases h) (fun _ => ⟨rfl, rfl⟩) o ho hot
          | some t0 =>
            cases t0 with
            | named _ _ _ => exact itemOccs_present s hft ch false none none (fun _ h => by cases h) (fun h => by cases h) (fun _ => ⟨rfl, rfl⟩) o ho hot
            | list e nn q =>
              have htyped : typed = true := by
                cases typed with
                | true => rfl
                | false => have := (hf rfl).1; cases this
              exact itemOccs_present s hft ch true (some e) dfn hprov (fun _ => ⟨rfl, (ht htyped).2⟩) (fun h => by cases h) o ho hot
        | object => exact fieldOccs_present s hft ch dfn hprov o ho hot
        | _ => simp at ho
  theorem itemOccs_present (s : Schema) (hft : Gql.Spec.ClosedFieldTypes s) :
      ∀ (ch : Children) (typed : Bool) (e : Option GType) (dfn : Option Definition),
        (∀ q, dfn = some q → Prov s q) → (typed = true → e.isSome ∧ dfn.isSome) →
        (typed = false → e = none ∧ dfn = none) →
        ∀ o ∈ itemOccs s typed e dfn ch, o.typed = true → o.exp.isSome ∧ o.dfn.isSome
    | .nil, _, _, _, _, _, _, o, ho, _ => by simp [itemOccs] at ho
    | .cons n v p rest, typed, e, dfn, hprov, ht, hf, o, ho, hot => by
      simp only [itemOccs, List.mem_append] at ho
      rcases ho with ho | ho
      · exact valOccs_present s hft v typed e dfn hprov ht hf o ho hot
      · exact itemOccs_present s hft rest typed e dfn hprov ht hf o ho hot
  theorem fieldOccs_present (s : Schema) (hft : Gql.Spec.ClosedFieldTypes s) :
      ∀ (ch : Children) (dfn : Option Definition), (∀ q, dfn = some q → Prov s q) →
        ∀ o ∈ fieldOccs s dfn ch, o.typed = true → o.exp.isSome ∧ o.dfn.isSome
    | .nil, _, _, o, ho, _ => by simp [fieldOccs] at ho
    | .cons n v p rest, dfn, hprov, o, ho, hot => by
      simp only [fieldOccs, List.mem_append] at ho
      rcases ho with ho | ho
      · cases hfd : (dfn.bind fun d => if d.kind == .inputObject then Spec.inputFieldByName d n else none) with
        | none =>
          rw [hfd] at ho
          exact valOccs_present s hft v false none none (fun _ h => by cases h) (fun h => by cases h) (fun _ => ⟨rfl, rfl⟩) o ho hot
        | some fd =>
          rw [hfd] at ho
          cases dfn with
          | none => simp at hfd
          | some dd =>
            simp only [Option.bind_some] at hfd
            split at hfd
            · obtain ⟨nn, hnn⟩ := hprov dd rfl
              have hmem := lookup_mem s.types nn dd hnn
              have hsome := typeIs_some (hft (nn, dd) hmem fd (List.mem_of_find?_eq_some hfd))
              refine valOccs_present s hft v true (some fd.type) (s.type? fd.type.name) (fun q hq => ⟨_, hq⟩)
                (fun _ => ⟨rfl, hsome⟩) (fun h => by cases h) o ho hot
            · cases hfd
      · exact fieldOccs_present s hft rest dfn hprov o ho hot
end

/-- every argument of a site whose definitions are known is defined, and its type resolves -/
def SiteOK (s : Schema) (site : Spec.ArgSite) : Prop :=
  ∃ defs, site.defs = some defs ∧ ∀ a ∈ site.args, ∃ ad, Spec.argDefByName defs a.name = some ad ∧
    (s.type? ad.type.name).isSome

theorem argSites_present (s : Schema) (d : QueryDoc) (hs : Gql.Spec.Closed s)
    (hpar : ∀ t ∈ Spec.docSels s d, ∃ q, t.parent = some q ∧ Prov s q)
    (hfs : Spec.fieldSelections s d = true) (hdd : Spec.directivesAreDefined s d = true)
    (han : Spec.argumentNames s d = true) : ∀ site ∈ Spec.argSites s d, SiteOK s site := by
  intro site hsite
  unfold Spec.argumentNames at han
  simp only [List.all_eq_true] at han
  have hnames := han site hsite
  -- the argument definitions of the site are known and all their types resolve
  have hdefs : ∃ defs, site.defs = some defs ∧ ∀ ad ∈ defs, (s.type? ad.type.name).isSome := by
    simp only [Spec.argSites, List.mem_append] at hsite
    rcases hsite with hsite | hsite
    · simp only [Spec.fieldArgSites, List.mem_filterMap] at hsite
      obtain ⟨⟨par, sel⟩, ht, hm⟩ := hsite
      cases sel with
      | spread nm dirs p => cases hm
      | inline tc dirs sub p => cases hm
      | field al nm args dirs sub p =>
        simp only [Option.some.injEq] at hm
        subst hm
        obtain ⟨q, hq, nq, hnq⟩ := hpar _ ht
        simp only at hq
        subst hq
        unfold Spec.fieldSelections at hfs
        simp only [List.all_eq_true] at hfs
        have hfd := hfs _ ht
        simp only at hfd
        cases hfdq : Spec.fieldDefOn q nm with
        | none => rw [hfdq] at hfd; cases hfd
        | some fd =>
          refine ⟨fd.args, by simp [hfdq], fun ad had => ?_⟩
          unfold Spec.fieldDefOn at hfdq
          split at hfdq
          · split at hfdq
            · injection hfdq with hfdq
              subst hfdq
              cases had
            · cases hfdq
          · split at hfdq
            · exact typeIs_some (hs.argTypes (nq, q) (lookup_mem _ _ _ hnq) fd (List.mem_of_find?_eq_some hfdq) ad had)
            · cases hfdq
    · simp only [Spec.directiveArgSites, List.mem_map] at hsite
      obtain ⟨dir, hdir, rfl⟩ := hsite
      unfold Spec.directivesAreDefined at hdd
      simp only [List.all_eq_true] at hdd
      have := hdd dir hdir
      cases hq : s.directive? dir.name with
      | none => rw [hq] at this; cases this
      | some dd =>
        refine ⟨dd.args, by simp, fun ad had => ?_⟩
        exact typeIs_some (hs.directiveArgTypes (dir.name, dd) (lookup_mem _ _ _ hq) ad had)
  obtain ⟨defs, hd, hall⟩ := hdefs
  refine ⟨defs, hd, fun a ha => ?_⟩
  rw [hd] at hnames
  simp only [List.all_eq_true] at hnames
  have := hnames a ha
  cases hq : Spec.argDefByName defs a.name with
  | none => rw [hq] at this; cases this
  | some ad => exact ⟨ad, rfl, hall ad (List.mem_of_find?_eq_some hq)⟩

/-- every value whose expected type / definition the specification demands has them present -/
theorem specValOcc_present (s : Schema) (d : QueryDoc) (hft : Gql.Spec.ClosedFieldTypes s)
    (hsites : ∀ site ∈ Spec.argSites s d, SiteOK s site) (hvt : Spec.variableTypesExist s d = true) :
    ∀ o, SpecValOcc s d o → o.typed = true → o.exp.isSome ∧ o.dfn.isSome := by
  intro o ho hot
  rcases ho with ⟨site, hsite, ho⟩ | ⟨op, hop, vd, hvd, dv, _, ho⟩
  · obtain ⟨defs, hd, hall⟩ := hsites site hsite
    simp only [argOccs, List.mem_flatMap] at ho
    obtain ⟨a, ha, ho⟩ := ho
    obtain ⟨ad, had, hsome⟩ := hall a ha
    rw [hd] at ho
    simp only [Option.bind_some, had] at ho
    exact valOccs_present s hft a.value true _ _ (fun q hq => ⟨_, hq⟩) (fun _ => ⟨rfl, hsome⟩) (fun h => by cases h) o ho hot
  · unfold Spec.variableTypesExist at hvt
    simp only [List.all_eq_true] at hvt
    exact valOccs_present s hft dv true _ _ (fun q hq => ⟨_, hq⟩) (fun _ => ⟨rfl, hvt op hop vd hvd⟩)
      (fun h => by cases h) o ho hot

end Gql.Validate
