import GqlProofs.ValSpec.SingleRoot2
import GqlProofs.Schema.Basic
/-
  SingleFieldSubscriptions (§5.2.3.1), part 3: the schema hypothesis (`topApplies` against
  `Spec.fragmentTypeApplies`), the document hypotheses, and the equivalence.
-/
namespace Gql.Validate
open Gql Gql.Validate.Rules

/- ---------- the schema hypothesis ---------- -/

/-- The subscription root type, if the schema names one, is defined, is an object type stored
    under its own name; every type is stored under its own name; and `PossibleTypes` of every
    interface / union says whether the root type belongs to it exactly as the definitions do.
    (Follows from `Spec.Closed`, `Spec.RelationsExact` and `Spec.rootTypesAreObjects`.) -/
def subscriptionRootExact (s : Schema) : Bool :=
  match s.subscription with
  | none => true
  | some R =>
    match s.type? R with
    | none => false
    | some obj =>
      obj.kind == .object && obj.name == R &&
      s.types.all fun p =>
        match s.type? p.1 with
        | none => true
        | some ft =>
          ft.name == p.1 &&
          (match ft.kind with
           | .interface => (s.possible ft.name).contains R == obj.interfaces.contains ft.name
           | .union => (s.possible ft.name).contains R == ft.types.contains obj.name
           | _ => true)

theorem subscriptionRootExact_root {s : Schema} (h : subscriptionRootExact s = true) {R : Name}
    (hsub : s.subscription = some R) :
    ∃ obj, s.type? R = some obj ∧ obj.kind = .object ∧ obj.name = R := by
  unfold subscriptionRootExact at h
  rw [hsub] at h
  simp only at h
  cases ho : s.type? R with
  | none => rw [ho] at h; cases h
  | some obj =>
    rw [ho] at h
    simp only [Bool.and_eq_true, beq_iff_eq] at h
    exact ⟨obj, rfl, h.1.1, h.1.2⟩

theorem topApplies_eq {s : Schema} (h : subscriptionRootExact s = true) {R : Name} {obj : Definition}
    (hsub : s.subscription = some R) (hobj : s.type? R = some obj) :
    ∀ tc, tc ≠ [] → topApplies s.view R tc = Spec.fragmentTypeApplies s obj tc := by
  intro tc htc
  unfold subscriptionRootExact at h
  rw [hsub] at h
  simp only at h
  rw [hobj] at h
  simp only [Bool.and_eq_true, beq_iff_eq, List.all_eq_true] at h
  obtain ⟨⟨hk, hn⟩, hall⟩ := h
  unfold topApplies Spec.fragmentTypeApplies
  have hv : s.view.type? tc = s.type? tc := rfl
  have hp : ∀ n, s.view.possible n = s.possible n := fun _ => rfl
  rw [hv]
  have h1 : (tc == ([] : Name)) = false := by simp [htc]
  rw [h1, Bool.false_or]
  cases hft : s.type? tc with
  | none =>
    have : (tc == R) = false := by
      cases hc : tc == R with
      | false => rfl
      | true =>
        have : tc = R := by simpa using hc
        rw [this, hobj] at hft
        cases hft
    rw [this]
    rfl
  | some ft =>
    have hmem := Load.mem_of_lookup (l := s.types) hft
    have hcl := hall (tc, ft) hmem
    simp only [hft, Bool.and_eq_true, beq_iff_eq] at hcl
    obtain ⟨hname, hrel⟩ := hcl
    cases hc : tc == R with
    | true =>
      have : tc = R := by simpa using hc
      subst this
      rw [hobj] at hft
      injection hft with hft
      subst hft
      simp [hk]
    | false =>
      have hne : tc ≠ R := by simpa using hc
      simp only [Bool.false_eq_true, ↓reduceIte, hp, isAbstractType]
      cases hkind : ft.kind with
      | object =>
        have e1 : (DefKind.object == DefKind.interface) = false := by decide
        have e2 : (DefKind.object == DefKind.union) = false := by decide
        simp [hname, hn, hc, e1, e2]
      | interface =>
        rw [hkind] at hrel
        simp only at hrel
        have : (s.possible ft.name).contains R = obj.interfaces.contains ft.name := by simpa using hrel
        have e1 : (DefKind.interface == DefKind.interface) = true := by decide
        simp only [e1, Bool.true_or, Bool.true_and]
        exact this
      | union =>
        rw [hkind] at hrel
        simp only at hrel
        have : (s.possible ft.name).contains R = ft.types.contains obj.name := by simpa using hrel
        have e1 : (DefKind.union == DefKind.union) = true := by decide
        simp only [e1, Bool.or_true, Bool.true_and]
        exact this
      | scalar => simp
      | enum => simp
      | inputObject => simp

/- ---------- the document hypotheses ---------- -/

/-- hazard 3: every subscription operation collects at least one root field -/
def subscriptionsSelectRoot (s : Schema) (d : QueryDoc) : Bool :=
  d.ops.all fun op =>
    op.op != Spec.kwSubscription ||
      match Spec.rootDef s op.op with
      | none => true
      | some obj => !(Spec.collectRootFields s d obj op.sel).isEmpty

/-- hazard 4: root fields collected under the same response key have the same field name
    (a consequence of §5.3.2 Field Selection Merging) -/
def rootKeysConsistent (s : Schema) (d : QueryDoc) : Bool :=
  d.ops.all fun op =>
    op.op != Spec.kwSubscription ||
      match Spec.rootDef s op.op with
      | none => true
      | some obj =>
        let fs := Spec.collectRootFields s d obj op.sel
        fs.all fun f => fs.all fun g => f.1 != g.1 || f.2 == g.2

theorem rootDef_subscription (s : Schema) : Spec.rootDef s Spec.kwSubscription = s.subscription.bind s.type? := by
  have h1 : (Spec.kwSubscription == Spec.kwQuery || Spec.kwSubscription == ([] : Bytes)) = false := by decide
  have h2 : (Spec.kwSubscription == Spec.kwMutation) = false := by decide
  simp only [Spec.rootDef, Spec.rootName, h1, h2, Bool.false_eq_true, ↓reduceIte, beq_self_eq_true]

theorem opSubscription_eq : opSubscription = Spec.kwSubscription := rfl

/-- the specification predicate, operation by operation -/
theorem singleRootField_iff (s : Schema) (d : QueryDoc) :
    Spec.singleRootField s d = true ↔
      ∀ op ∈ d.ops, op.op = Spec.kwSubscription → ∀ obj, Spec.rootDef s op.op = some obj →
        specRootOK (Spec.collectRootFields s d obj op.sel) = true := by
  unfold Spec.singleRootField
  rw [List.all_eq_true]
  constructor
  · intro h op hop hk obj hobj
    have := h op hop
    rw [if_neg (by simp [hk])] at this
    rw [hobj] at this
    exact this
  · intro h op hop
    by_cases hk : op.op = Spec.kwSubscription
    · rw [if_neg (by simp [hk])]
      cases hobj : Spec.rootDef s op.op with
      | none => rfl
      | some obj => exact h op hop hk obj hobj
    · rw [if_pos (by simp [hk])]

/- ---------- the equivalence ---------- -/

/-- Every step of the rule is silent iff the rule-exact condition holds for every subscription
    operation: at most one response key among the collected root fields and no first-per-key
    field is an introspection field.  (No hypothesis about empty selections or merging.) -/
theorem singleFieldSubscriptions_exact (s : Schema) (d : QueryDoc) (evs : List Event)
    (hw : walkDoc s.view d = some evs) (hlink : OpLinked s.view d evs)
    (hschema : subscriptionRootExact s = true)
    (hdef : Spec.fragmentSpreadTargetDefined d = true)
    (htc : ∀ f ∈ d.frags, f.typeCond ≠ []) :
    (∀ e ∈ evs, singleFieldSubscriptionsStep s.view d e = .ok []) ↔
      ∀ op ∈ d.ops, op.op = Spec.kwSubscription → ∀ obj, Spec.rootDef s op.op = some obj →
        RuleRootOK (Spec.collectRootFields s d obj op.sel) := by
  have hev := (walkDoc_events s.view d evs hw).1
  have key : ∀ e ∈ evs, ∀ op u, e.p = .operation op u → op.op = Spec.kwSubscription →
      ∀ obj, Spec.rootDef s op.op = some obj →
        (singleFieldSubscriptionsStep s.view d e = .ok [] ↔
          RuleRootOK (Spec.collectRootFields s d obj op.sel)) := by
    intro e he op u hp hk obj hobj
    have hop : op ∈ d.ops := hev ▸ mem_opEvents.2 ⟨e, he, u, hp⟩
    rw [hk, rootDef_subscription] at hobj
    cases hsub : s.subscription with
    | none => rw [hsub] at hobj; cases hobj
    | some R =>
      rw [hsub] at hobj
      simp only [Option.bind_some] at hobj
      obtain ⟨hl1, hl2⟩ := hlink e he op u hp
      exact sfs_step_exact s d e op u hp R obj hsub hk _
        (opLinked_closed d e op hop hdef htc hl2) (topApplies_eq hschema hsub hobj)
        (fun nm dirs p hi => ⟨hl1 nm dirs p hi, Reach.base (inSels_spread_mem op.sel nm dirs p hi)⟩)
  constructor
  · intro h op hop hk obj hobj
    rw [← hev] at hop
    obtain ⟨e, he, u, hp⟩ := mem_opEvents.1 hop
    exact (key e he op u hp hk obj hobj).1 (h e he)
  · intro h e he
    by_cases hpe : ∃ op u, e.p = .operation op u
    · obtain ⟨op, u, hp⟩ := hpe
      have hop : op ∈ d.ops := hev ▸ mem_opEvents.2 ⟨e, he, u, hp⟩
      by_cases hk : op.op = Spec.kwSubscription
      · cases hsub : s.subscription with
        | none => exact sfs_step_skip s.view d e op u hp (Or.inl hsub)
        | some R =>
          obtain ⟨obj, hobj, _, _⟩ := subscriptionRootExact_root hschema hsub
          have hrd : Spec.rootDef s op.op = some obj := by
            rw [hk, rootDef_subscription, hsub]
            exact hobj
          exact (key e he op u hp hk obj hrd).2 (h op hop hk obj hrd)
      · exact sfs_step_skip s.view d e op u hp (Or.inr hk)
    · exact sfs_step_of_other s.view d e (fun op u hp => hpe ⟨op, u, hp⟩)

/-- specification ⇒ rule: needs neither `subscriptionsSelectRoot` nor `rootKeysConsistent` -/
theorem singleFieldSubscriptions_of_spec (s : Schema) (d : QueryDoc) (evs : List Event)
    (hw : walkDoc s.view d = some evs) (hlink : OpLinked s.view d evs)
    (hschema : subscriptionRootExact s = true)
    (hdef : Spec.fragmentSpreadTargetDefined d = true)
    (htc : ∀ f ∈ d.frags, f.typeCond ≠ [])
    (h : Spec.singleRootField s d = true) :
    ∀ e ∈ evs, singleFieldSubscriptionsStep s.view d e = .ok [] := by
  rw [singleFieldSubscriptions_exact s d evs hw hlink hschema hdef htc]
  intro op hop hk obj hobj
  exact ruleRootOK_of_spec ((singleRootField_iff s d).1 h op hop hk obj hobj)

theorem singleFieldSubscriptions_iff (s : Schema) (d : QueryDoc) (evs : List Event)
    (hw : walkDoc s.view d = some evs) (hlink : OpLinked s.view d evs)
    (hschema : subscriptionRootExact s = true)
    (hdef : Spec.fragmentSpreadTargetDefined d = true)
    (htc : ∀ f ∈ d.frags, f.typeCond ≠ [])
    (hne : subscriptionsSelectRoot s d = true)
    (hcons : rootKeysConsistent s d = true) :
    (∀ e ∈ evs, singleFieldSubscriptionsStep s.view d e = .ok []) ↔ Spec.singleRootField s d = true := by
  rw [singleFieldSubscriptions_exact s d evs hw hlink hschema hdef htc, singleRootField_iff]
  constructor
  · intro h op hop hk obj hobj
    apply spec_of_ruleRootOK (h op hop hk obj hobj)
    · have := List.all_eq_true.1 hne op hop
      simp only [hk, bne_self_eq_false, Bool.false_or] at this
      rw [hk] at hobj
      rw [hobj] at this
      intro he
      simp only at this
      rw [he] at this
      simp at this
    · have := List.all_eq_true.1 hcons op hop
      simp only [hk, bne_self_eq_false, Bool.false_or] at this
      rw [hk] at hobj
      rw [hobj] at this
      simp only [List.all_eq_true, Bool.or_eq_true, bne_iff_ne, ne_eq, beq_iff_eq] at this
      intro f hf g hg he
      rcases this f hf g hg with h1 | h1
      · exact absurd he h1
      · exact h1
  · intro h op hop hk obj hobj
    exact ruleRootOK_of_spec (h op hop hk obj hobj)

end Gql.Validate
