import GqlProofs.ValSpec.ScopeLinks
import GqlProofs.ValSpec.Stateful
/-
  NoUnusedFragments against `Spec.fragmentsMustBeUsed`.

  The rule collects the names of the spread events fired before the first `fragment` event: the
  spreads met while the operations are walked (the spreads written in an operation or in a fragment
  definition REACHABLE from one), plus — the "first fragment quirk" — the spreads met while the
  first fragment definition of the document is walked stand-alone (its `fragment` event is the last
  event of that walk).  A fragment definition whose name was not collected is reported.

  The specification asks that every fragment definition is the target of SOME spread of the
  document.  The two agree on documents without fragment cycles and with pairwise different
  fragment names (both are specification predicates themselves).
-/
namespace Gql.Validate
open Gql Gql.Validate.Rules

/- ---------- spread names and spread nodes ---------- -/

mutual
  theorem mem_spreadsOfSel_iff (n : Name) : ∀ x : Selection,
      n ∈ Spec.spreadsOfSel x ↔ ∃ dirs p, InSel x (.sel (.spread n dirs p))
    | .field al nm args dirs sub pos => by
      simp only [Spec.spreadsOfSel]
      rw [mem_spreadsOfSels_iff n sub]
      constructor
      · rintro ⟨ds, p, h⟩
        exact ⟨ds, p, InSel.fieldSub al nm args dirs sub pos _ h⟩
      · rintro ⟨ds, p, h⟩
        cases h with
        | fieldSub _ _ _ _ _ _ _ hs => exact ⟨ds, p, hs⟩
    | .inline tc dirs sub pos => by
      simp only [Spec.spreadsOfSel]
      rw [mem_spreadsOfSels_iff n sub]
      constructor
      · rintro ⟨ds, p, h⟩
        exact ⟨ds, p, InSel.inlineSub tc dirs sub pos _ h⟩
      · rintro ⟨ds, p, h⟩
        cases h with
        | inlineSub _ _ _ _ _ hs => exact ⟨ds, p, hs⟩
    | .spread nm dirs pos => by
      simp only [Spec.spreadsOfSel, List.mem_singleton]
      constructor
      · rintro rfl
        exact ⟨dirs, pos, InSel.self _⟩
      · rintro ⟨ds, p, h⟩
        cases h with
        | self => rfl
  theorem mem_spreadsOfSels_iff (n : Name) : ∀ xs : Selections,
      n ∈ Spec.spreadsOfSels xs ↔ ∃ dirs p, InSels xs (.sel (.spread n dirs p))
    | .nil => by
      simp only [Spec.spreadsOfSels, List.not_mem_nil, false_iff]
      rintro ⟨_, _, h⟩
      cases h
    | .cons x rest => by
      simp only [Spec.spreadsOfSels, List.mem_append]
      rw [mem_spreadsOfSel_iff n x, mem_spreadsOfSels_iff n rest]
      constructor
      · rintro (⟨ds, p, h⟩ | ⟨ds, p, h⟩)
        · exact ⟨ds, p, InSels.head x rest _ h⟩
        · exact ⟨ds, p, InSels.tail x rest _ h⟩
      · rintro ⟨ds, p, h⟩
        cases h with
        | head _ _ _ hx => exact Or.inl ⟨ds, p, hx⟩
        | tail _ _ _ hx => exact Or.inr ⟨ds, p, hx⟩
end

/-- the name of a spread node in the scope of a source is reachable from the source -/
theorem nodeScope_spread_reach {s : SV} {d : QueryDoc} {parent : Option Definition} {xs : Selections}
    {par : Option Definition} {n : Name} {dirs : List Directive} {p : Pos}
    (h : NodeScope s d (Spec.spreadsOfSels xs) (InSelsW s parent xs) par (.spread n dirs p)) :
    Reach d (Spec.spreadsOfSels xs) n := by
  rcases h with hi | ⟨m, g, hr, hg, hi⟩
  · exact Reach.base ((mem_spreadsOfSels_iff n xs).2 ⟨dirs, p, inSelsW_forget s xs _ _ _ hi⟩)
  · refine Reach.step hr ?_
    rw [fragSpreads_of_forName hg]
    exact (mem_spreadsOfSels_iff n g.sel).2 ⟨dirs, p, inSelsW_forget s g.sel _ _ _ hi⟩

/-- every reachable name is the name of a spread node in scope -/
theorem reach_spread_nodeScope {s : SV} {d : QueryDoc} {parent : Option Definition} {xs : Selections} {n : Name}
    (h : Reach d (Spec.spreadsOfSels xs) n) :
    ∃ par dirs p, NodeScope s d (Spec.spreadsOfSels xs) (InSelsW s parent xs) par (.spread n dirs p) := by
  cases h with
  | base hn =>
    obtain ⟨dirs, p, hi⟩ := (mem_spreadsOfSels_iff n xs).1 hn
    obtain ⟨par, hw⟩ := inSels_lift s xs parent _ hi
    exact ⟨par, dirs, p, Or.inl hw⟩
  | step hm hn =>
    obtain ⟨g, hg, _, _, hn'⟩ := fragSpreads_defined hn
    obtain ⟨dirs, p, hi⟩ := (mem_spreadsOfSels_iff n g.sel).1 hn'
    obtain ⟨par, hw⟩ := inSels_lift s g.sel (s.type? g.typeCond) _ hi
    exact ⟨par, dirs, p, Or.inr ⟨_, g, hm, hg, hw⟩⟩

/- ---------- the run of the rule ---------- -/

/-- names of the spread events before the first `fragment` event -/
def preSpreads : List Event → List Name
  | [] => []
  | e :: rest =>
    match e.p with
    | .fragment _ _ => []
    | .fragmentSpread f _ _ => f.name :: preSpreads rest
    | _ => preSpreads rest

theorem noUnusedFragments_run (sv : SV) (d : QueryDoc) :
    ∀ (es : List Event) (st : NUFState),
      ∃ errs, runAll sv d [({ rule := noUnusedFragments, st := st } : Running)] es = .ok errs ∧
        (errs = [] ↔ ∀ f ∈ fragDefEvents es,
          f.name ∈ st.used ∨ (st.inFragmentDefinition = false ∧ f.name ∈ preSpreads es))
  | [], st => ⟨[], rfl, by simp [fragDefEvents]⟩
  | e :: rest, ⟨inF, used⟩ => by
    rw [runAll_single_cons]
    cases hp : e.p with
    | fragmentSpread f dfn par =>
      cases inF with
      | false =>
        obtain ⟨errs', hr, hiff⟩ := noUnusedFragments_run sv d rest ⟨false, f.name :: used⟩
        simp only [Running.step, noUnusedFragments, noUnusedFragmentsStep, hp, Bool.not_false, if_true]
        simp only [noUnusedFragments] at hr
        rw [hr]
        refine ⟨_, rfl, ?_⟩
        simp only [List.map_nil, List.nil_append]
        rw [hiff]
        simp only [fragDefEvents, List.filterMap_cons, fragOf, hp, preSpreads, true_and, List.mem_cons]
        constructor
        · intro h g hg
          rcases h g hg with (h1 | h1) | h1
          · exact Or.inr (Or.inl h1)
          · exact Or.inl h1
          · exact Or.inr (Or.inr h1)
        · intro h g hg
          rcases h g hg with h1 | h1 | h1
          · exact Or.inl (Or.inr h1)
          · exact Or.inl (Or.inl h1)
          · exact Or.inr h1
      | true =>
        obtain ⟨errs', hr, hiff⟩ := noUnusedFragments_run sv d rest ⟨true, used⟩
        simp only [Running.step, noUnusedFragments, noUnusedFragmentsStep, hp, Bool.not_true, Bool.false_eq_true, if_false]
        simp only [noUnusedFragments] at hr
        rw [hr]
        refine ⟨_, rfl, ?_⟩
        simp only [List.map_nil, List.nil_append]
        rw [hiff]
        simp only [fragDefEvents, List.filterMap_cons, fragOf, hp, Bool.true_eq_false, false_and, or_false]
    | fragment f dfn =>
      obtain ⟨errs', hr, hiff⟩ := noUnusedFragments_run sv d rest ⟨true, used⟩
      simp only [Running.step, noUnusedFragments, noUnusedFragmentsStep, hp]
      simp only [noUnusedFragments] at hr
      rw [hr]
      refine ⟨_, rfl, ?_⟩
      simp only [List.append_eq_nil_iff, List.map_eq_nil_iff]
      rw [hiff]
      simp only [fragDefEvents, List.filterMap_cons, fragOf, hp, preSpreads, List.not_mem_nil, and_false, or_false,
        Bool.true_eq_false, false_and, List.mem_cons, forall_eq_or_imp]
      by_cases hc : f.name ∈ used
      · have hc' : used.contains f.name = true := by simpa using hc
        simp [hc]
      · have hc' : used.contains f.name = false := by simpa using hc
        simp [hc]
    | _ =>
      obtain ⟨errs', hr, hiff⟩ := noUnusedFragments_run sv d rest ⟨inF, used⟩
      simp only [Running.step, noUnusedFragments, noUnusedFragmentsStep, hp]
      simp only [noUnusedFragments] at hr
      rw [hr]
      refine ⟨_, rfl, ?_⟩
      simp only [List.map_nil, List.nil_append]
      rw [hiff]
      simp only [fragDefEvents, List.filterMap_cons, fragOf, hp, preSpreads]

theorem validate_noUnusedFragments (s : Schema) (d : QueryDoc) (evs : List Event)
    (hw : walkDoc s.view d = some evs) :
    validate [noUnusedFragments] s d = .ok [] ↔ ∀ f ∈ d.frags, f.name ∈ preSpreads evs := by
  unfold validate
  rw [validateV_ok_iff]
  obtain ⟨errs, hr, hiff⟩ := noUnusedFragments_run s.view d evs ⟨false, []⟩
  have hstart : [noUnusedFragments].map Rule.start =
      [({ rule := noUnusedFragments, st := ⟨false, []⟩ } : Running)] := rfl
  rw [(walkDoc_events s.view d evs hw).2] at hiff
  simp only [List.not_mem_nil, false_or, true_and] at hiff
  constructor
  · rintro ⟨evs', hw', hrun⟩
    rw [hw] at hw'
    cases hw'
    rw [hstart, hr] at hrun
    injection hrun with hrun
    exact hiff.1 hrun
  · intro h
    exact ⟨evs, hw, by rw [hstart, hr, hiff.2 h]⟩

/- ---------- the collected names ---------- -/

def spreadNameOf (e : Event) : Option Name :=
  match e.p with
  | .fragmentSpread f _ _ => some f.name
  | _ => none

def spreadNames (evs : List Event) : List Name := evs.filterMap spreadNameOf

theorem mem_spreadNames {evs : List Event} {n : Name} :
    n ∈ spreadNames evs ↔ ∃ e ∈ evs, ∃ f dfn par, e.p = .fragmentSpread f dfn par ∧ f.name = n := by
  simp only [spreadNames, List.mem_filterMap]
  constructor
  · rintro ⟨e, he, h⟩
    refine ⟨e, he, ?_⟩
    unfold spreadNameOf at h
    cases hp : e.p <;> simp_all
  · rintro ⟨e, he, f, dfn, par, hp, hn⟩
    exact ⟨e, he, by simp [spreadNameOf, hp, hn]⟩

theorem preSpreads_append_of_noFrag : ∀ (a b : List Event), fragDefEvents a = [] →
    preSpreads (a ++ b) = spreadNames a ++ preSpreads b
  | [], b, _ => rfl
  | e :: a, b, h => by
    simp only [fragDefEvents, List.filterMap_cons] at h
    cases hp : e.p with
    | fragment f dfn => simp [fragOf, hp] at h
    | fragmentSpread f dfn par =>
      have h' : fragDefEvents a = [] := by simpa [fragOf, hp, fragDefEvents] using h
      simp only [List.cons_append, preSpreads, hp, spreadNames, List.filterMap_cons, spreadNameOf]
      have ih := preSpreads_append_of_noFrag a b h'
      simp only [spreadNames] at ih
      rw [ih]
    | _ =>
      have h' : fragDefEvents a = [] := by simpa [fragOf, hp, fragDefEvents] using h
      simp only [List.cons_append, preSpreads, hp, spreadNames, List.filterMap_cons, spreadNameOf]
      have ih := preSpreads_append_of_noFrag a b h'
      simp only [spreadNames] at ih
      rw [ih]

theorem preSpreads_fragment_cons (e : Event) (rest : List Event) (f : FragmentDef) (dfn : Option Definition)
    (hp : e.p = .fragment f dfn) : preSpreads (e :: rest) = [] := by
  simp [preSpreads, hp]

/-- the events of the stand-alone walk of a fragment definition: a prefix without `fragment`
    events, then the `fragment` event -/
theorem walkFragment_split (s : SV) (d : QueryDoc) (fuel : Nat) (f : FragmentDef) (l : Links)
    (r : Links × List Event) (h : walkFragment s d fuel f l = some r) :
    ∃ pre fe, r.2 = pre ++ [fe] ∧ fe.p = .fragment f (s.type? f.typeCond) ∧ fragDefEvents pre = [] := by
  unfold walkFragment at h
  simp only at h
  split at h
  · cases h
  · rename_i r2 h2
    injection h with h
    subst h
    refine ⟨_, _, rfl, rfl, ?_⟩
    have hS := inner_selSites s d
    exact fragDefEvents_inner (AllP.append (walkDirectives_all hS.toValSites _ _ _ _ _)
      (walkLevel_all hS none fuel _ _ _ r2 (fun _ _ => trivial) h2))

/-- what is collected: spreads of the operation walks, then spreads of the stand-alone walk of
    the first fragment definition -/
theorem walkDoc_preSpreads (s : SV) (d : QueryDoc) (evs : List Event) (h : walkDoc s d = some evs) :
    ∃ a b, (∃ l, walkOps s d (walkFuel d) d.ops Links.empty = some (l, a)) ∧
      preSpreads evs = spreadNames a ++ b ∧
      (∀ n ∈ b, ∃ f1, d.frags.head? = some f1 ∧ ∃ l r, walkFragment s d (walkFuel d) f1 l = some r ∧ n ∈ spreadNames r.2) := by
  unfold walkDoc at h
  split at h
  · cases h
  · rename_i r1 h1
    split at h
    · cases h
    · rename_i r2 h2
      injection h with h
      subst h
      have hnf := (walkOps_events s d _ d.ops _ r1 h1).2
      refine ⟨r1.2, preSpreads r2.2, ⟨r1.1, h1⟩, preSpreads_append_of_noFrag _ _ hnf, ?_⟩
      cases hfr : d.frags with
      | nil =>
        rw [hfr] at h2
        simp only [walkFrags] at h2
        injection h2 with h2
        subst h2
        intro n hn
        cases hn
      | cons f1 rest =>
        rw [hfr] at h2
        unfold walkFrags at h2
        split at h2
        · cases h2
        · rename_i ra ha
          split at h2
          · cases h2
          · rename_i rb hb
            injection h2 with h2
            subst h2
            obtain ⟨pre, fe, hsplit, hfe, hpre⟩ := walkFragment_split s d _ f1 _ ra ha
            intro n hn
            refine ⟨f1, rfl, _, ra, ha, ?_⟩
            simp only [hsplit, List.append_assoc] at hn
            rw [preSpreads_append_of_noFrag _ _ hpre] at hn
            simp only [List.singleton_append, preSpreads_fragment_cons fe _ f1 _ hfe, List.append_nil] at hn
            rw [hsplit]
            simp only [spreadNames, List.filterMap_append, List.mem_append] at hn ⊢
            exact Or.inl hn

/-- names collected while the operations are walked = names reachable from an operation -/
theorem walkOps_spreadNames (s : SV) (d : QueryDoc) (fuel : Nat) (ops : List OperationDef) (l : Links)
    (r : Links × List Event) (h : walkOps s d fuel ops l = some r) (hsub : ∀ op ∈ ops, op ∈ d.ops) (n : Name) :
    n ∈ spreadNames r.2 ↔ ∃ op ∈ ops, Reach d (Spec.spreadsOfSels op.sel) n := by
  constructor
  · intro hn
    obtain ⟨e, he, f, dfn, par, hp, hname⟩ := mem_spreadNames.1 hn
    have hs := walkOps_sound s d fuel ops hsub l r h e he
    -- the event belongs to the walk of one of `ops`
    have : ∃ op ∈ ops, OpSound s d op e := by
      clear hn hs
      induction ops generalizing l r with
      | nil =>
        simp only [walkOps] at h
        injection h with h
        subst h
        cases he
      | cons o rest ih =>
        unfold walkOps at h
        split at h
        · cases h
        · rename_i r1 h1
          split at h
          · cases h
          · rename_i r2 h2
            injection h with h
            subst h
            rcases List.mem_append.1 he with he | he
            · exact ⟨o, List.mem_cons_self, walkOperation_sound s d fuel o l r1 h1 e he⟩
            · obtain ⟨op, hop, hs⟩ := ih r1.1 r2 h2 (fun x hx => hsub x (List.mem_cons_of_mem _ hx)) he
              exact ⟨op, List.mem_cons_of_mem _ hop, hs⟩
    obtain ⟨op, hop, hs⟩ := this
    have h2 := hs.2
    simp only [hp] at h2
    rw [← hname]
    exact ⟨op, hop, nodeScope_spread_reach h2.1⟩
  · rintro ⟨op, hop, hr⟩
    obtain ⟨par, dirs, p, hns⟩ := reach_spread_nodeScope (s := s) (parent := (opRoot s op.op).1) hr
    obtain ⟨e, he, _, hp⟩ := ((walkOps_scope_complete s d fuel ops l r h op hop).nodes par _ hns).1
    exact mem_spreadNames.2 ⟨e, he, _, _, _, hp, rfl⟩

/-- names collected during the stand-alone walk of a fragment definition are reachable from it -/
theorem walkFragment_spreadNames (s : SV) (d : QueryDoc) (fuel : Nat) (f : FragmentDef) (l : Links)
    (r : Links × List Event) (h : walkFragment s d fuel f l = some r) (n : Name) (hn : n ∈ spreadNames r.2) :
    Reach d (Spec.spreadsOfSels f.sel) n := by
  obtain ⟨e, he, g, dfn, par, hp, hname⟩ := mem_spreadNames.1 hn
  have hs := walkFragment_sound s d fuel f l r h e he
  have h2 := hs.2
  simp only [hp] at h2
  rw [← hname]
  exact nodeScope_spread_reach h2.1

/-- the rule, exactly: every fragment definition is reachable from an operation, or — first
    fragment quirk — was met during the stand-alone walk of the first fragment definition (then it
    is reachable from that one) -/
theorem noUnusedFragments_sound (s : Schema) (d : QueryDoc) (h : validate [noUnusedFragments] s d = .ok []) :
    ∀ f ∈ d.frags, (∃ op ∈ d.ops, Reach d (Spec.spreadsOfSels op.sel) f.name) ∨
      (∃ f1, d.frags.head? = some f1 ∧ Reach d (Spec.spreadsOfSels f1.sel) f.name) := by
  obtain ⟨evs, hw⟩ := walkDoc_isSome s.view d
  have hv := (validate_noUnusedFragments s d evs hw).1 h
  obtain ⟨a, b, ⟨l, ha⟩, hpre, hb⟩ := walkDoc_preSpreads s.view d evs hw
  intro f hf
  have := hv f hf
  rw [hpre] at this
  rcases List.mem_append.1 this with h1 | h1
  · exact Or.inl ((walkOps_spreadNames s.view d _ d.ops _ (l, a) ha (fun _ h => h) f.name).1 h1)
  · obtain ⟨f1, hhead, l', r, hwf, hn⟩ := hb _ h1
    exact Or.inr ⟨f1, hhead, walkFragment_spreadNames s.view d _ f1 l' r hwf _ hn⟩

theorem noUnusedFragments_complete (s : Schema) (d : QueryDoc)
    (h : ∀ f ∈ d.frags, ∃ op ∈ d.ops, Reach d (Spec.spreadsOfSels op.sel) f.name) :
    validate [noUnusedFragments] s d = .ok [] := by
  obtain ⟨evs, hw⟩ := walkDoc_isSome s.view d
  rw [validate_noUnusedFragments s d evs hw]
  obtain ⟨a, b, ⟨l, ha⟩, hpre, _⟩ := walkDoc_preSpreads s.view d evs hw
  intro f hf
  rw [hpre]
  exact List.mem_append_left _ ((walkOps_spreadNames s.view d _ d.ops _ (l, a) ha (fun _ h => h) f.name).2 (h f hf))

/- ---------- against the specification ---------- -/

theorem fragForName_of_nodup {d : QueryDoc} (hu : (d.frags.map (·.name)).Nodup) {f : FragmentDef} (hf : f ∈ d.frags) :
    fragForName d f.name = some f := by
  unfold fragForName
  generalize d.frags = fs at hu hf
  induction fs with
  | nil => cases hf
  | cons g rest ih =>
    simp only [List.map_cons, List.nodup_cons] at hu
    rcases List.mem_cons.1 hf with rfl | hm
    · simp
    · have hne : g.name ≠ f.name := by
        intro he
        exact hu.1 (he ▸ List.mem_map.2 ⟨f, hm, rfl⟩)
      rw [List.find?_cons_of_neg (by simpa using hne)]
      exact ih hu.2 hm

theorem mem_allSpreadNames {d : QueryDoc} {n : Name} :
    n ∈ Spec.allSpreadNames d ↔ (∃ op ∈ d.ops, n ∈ Spec.spreadsOfSels op.sel) ∨ (∃ f ∈ d.frags, n ∈ Spec.spreadsOfSels f.sel) := by
  simp [Spec.allSpreadNames, List.mem_append, List.mem_flatMap]

theorem reach_mem_allSpreadNames {d : QueryDoc} {op : OperationDef} (hop : op ∈ d.ops) {n : Name}
    (h : Reach d (Spec.spreadsOfSels op.sel) n) : n ∈ Spec.allSpreadNames d := by
  cases h with
  | base hn => exact mem_allSpreadNames.2 (Or.inl ⟨op, hop, hn⟩)
  | step _ hn =>
    obtain ⟨g, _, hg, _, hn'⟩ := fragSpreads_defined hn
    exact mem_allSpreadNames.2 (Or.inr ⟨g, hg, hn'⟩)

/-- on a document without cycles whose fragment names are different, a fragment that is the
    target of a spread is reachable from an operation: follow "is spread by" upwards; the names
    met are all reachable from the fragment one is at, so they are pairwise different and the
    chain ends at an operation -/
theorem used_reachable (d : QueryDoc) (hu : (d.frags.map (·.name)).Nodup)
    (hc : ∀ f ∈ d.frags, ¬ Reach d (Spec.spreadsOfSels f.sel) f.name)
    (hused : ∀ f ∈ d.frags, f.name ∈ Spec.allSpreadNames d) :
    ∀ (k : Nat) (V : List Name) (f : FragmentDef), f ∈ d.frags → unvisited d V ≤ k →
      (∀ v ∈ V, Reach d (Spec.spreadsOfSels f.sel) v) →
      ∃ op ∈ d.ops, Reach d (Spec.spreadsOfSels op.sel) f.name
  | k, V, f, hf, hk, hV => by
    have hnot : f.name ∉ V := fun hm => hc f hf (hV _ hm)
    rcases mem_allSpreadNames.1 (hused f hf) with ⟨op, hop, hn⟩ | ⟨g, hg, hn⟩
    · exact ⟨op, hop, Reach.base hn⟩
    · have hlt := unvisited_lt d V f hf (by simpa using hnot)
      cases k with
      | zero => omega
      | succ k =>
        have hgf : Spec.fragSpreads d g.name = Spec.spreadsOfSels g.sel :=
          fragSpreads_of_forName (fragForName_of_nodup hu hg)
        have hff : Spec.fragSpreads d f.name = Spec.spreadsOfSels f.sel :=
          fragSpreads_of_forName (fragForName_of_nodup hu hf)
        have hbase : Reach d (Spec.spreadsOfSels g.sel) f.name := Reach.base hn
        obtain ⟨op, hop, hr⟩ := used_reachable d hu hc hused k (f.name :: V) g hg (by omega) (by
          intro v hv
          rcases List.mem_cons.1 hv with rfl | hv
          · exact hbase
          · exact Reach.trans hbase (by rw [hff]; exact hV v hv))
        exact ⟨op, hop, Reach.step hr (by rw [hgf]; exact hn)⟩

/-- without any hypothesis: a document the rule accepts satisfies the specification predicate -/
theorem noUnusedFragments_spec_of_silent (s : Schema) (d : QueryDoc) (h : validate [noUnusedFragments] s d = .ok []) :
    Spec.fragmentsMustBeUsed d = true := by
  unfold Spec.fragmentsMustBeUsed
  simp only [List.all_eq_true, List.contains_iff_mem]
  intro f hf
  rcases noUnusedFragments_sound s d h f hf with ⟨op, hop, hr⟩ | ⟨f1, hhead, hr⟩
  · exact reach_mem_allSpreadNames hop hr
  · have hf1 : f1 ∈ d.frags := List.mem_of_mem_head? hhead
    cases hr with
    | base hn => exact mem_allSpreadNames.2 (Or.inr ⟨f1, hf1, hn⟩)
    | step _ hn =>
      obtain ⟨g, _, hg, _, hn'⟩ := fragSpreads_defined hn
      exact mem_allSpreadNames.2 (Or.inr ⟨g, hg, hn'⟩)

theorem noUnusedFragments_iff (s : Schema) (d : QueryDoc) (hc : Spec.noFragmentCycles d = true)
    (hu : Spec.fragmentNameUniqueness d = true) :
    validate [noUnusedFragments] s d = .ok [] ↔ Spec.fragmentsMustBeUsed d = true := by
  have hu' : (d.frags.map (·.name)).Nodup := (distinct_iff_nodup _).1 hu
  have hc' : ∀ f ∈ d.frags, ¬ Reach d (Spec.spreadsOfSels f.sel) f.name := by
    intro f hf hr
    have := List.all_eq_true.1 hc f hf
    rw [(reachFrom_contains_iff d _ _).2 hr] at this
    cases this
  unfold Spec.fragmentsMustBeUsed
  simp only [List.all_eq_true, List.contains_iff_mem]
  constructor
  · intro h f hf
    rcases noUnusedFragments_sound s d h f hf with ⟨op, hop, hr⟩ | ⟨f1, hhead, hr⟩
    · exact reach_mem_allSpreadNames hop hr
    · have hf1 : f1 ∈ d.frags := List.mem_of_mem_head? hhead
      cases hr with
      | base hn => exact mem_allSpreadNames.2 (Or.inr ⟨f1, hf1, hn⟩)
      | step _ hn =>
        obtain ⟨g, _, hg, _, hn'⟩ := fragSpreads_defined hn
        exact mem_allSpreadNames.2 (Or.inr ⟨g, hg, hn'⟩)
  · intro h
    apply noUnusedFragments_complete
    intro f hf
    exact used_reachable d hu' hc' h d.frags.length [] f hf (unvisited_le_length d _) (by intro v hv; cases hv)

end Gql.Validate
