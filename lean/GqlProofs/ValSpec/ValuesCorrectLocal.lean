import GqlProofs.ValSpec.ValuesCorrectStep
/-
  ValuesOfCorrectType (§5.6.1), part 2: LOCAL TO RECURSIVE.

  The rule judges every typed value node on its own (`localOK`); the specification's `Spec.valueOk s t v`
  is a recursive predicate that recomputes the typing of the sub-values itself.  Here:

    * `localOK l exp dfn v = localPure exp dfn v && oneOfVar l dfn v`: the part of the local test that
      does not read the link table, and the "`@oneOf` field given by a variable of a nullable type" test;
    * `valueOk_iff_sites`: for a root type that resolves to an input type, in a schema satisfying
      `schemaOK`, and a value whose numeric literals satisfy `numLeafOK`:
        (every typed site of `valSites s (some t) (s.type? t.name) v` passes `localPure`) ↔ `Spec.valueOk s t v`.
-/
namespace Gql.Validate
open Gql Gql.Validate.Rules

/- ================= the link-free part of the local test ================= -/

/-- the local test with the `@oneOf` closure replaced by its link-free part `Spec.oneOfOk` -/
def localPure (exp : GType) (dfn : Definition) (v : Value) : Bool :=
  !(v.kind == .null && exp.nonNull) &&
  (customScalar dfn ||
    match v.kind with
    | .null => true
    | .variable => true
    | .list => (match exp with | .named _ _ _ => false | .list _ _ _ => true)
    | .int => defOneOf dfn [str "Int", str "Float", str "ID"] &&
        (!defOneOf dfn [str "Int"] || parseIntErr 32 v.raw == .none) &&
        (defOneOf dfn [str "Int"] || !defOneOf dfn [str "Float"] || !floatErr v.raw)
    | .float => defOneOf dfn [str "Float"] && !floatErr v.raw
    | .string => dfn.kind != .enum && defOneOf dfn [str "String", str "ID"]
    | .block => dfn.kind != .enum && defOneOf dfn [str "String", str "ID"]
    | .enum => dfn.kind == .enum && dfn.enumValues.any (·.name == v.raw)
    | .boolean => defOneOf dfn [str "Boolean"]
    | .object => dfn.kind == .inputObject && (missingRequired dfn v dfn.fields).isEmpty &&
        Spec.oneOfOk dfn v.children && (unknownInputFields dfn v.children).isEmpty)

/-- the single field of an object literal is not a variable of a nullable type (as linked in `l`) -/
def oneOfVarOK (l : Links) (v : Value) : Bool :=
  match v.children with
  | .cons _ fv _ .nil =>
    !(fv.kind == .variable) || (match l.varDef fv.pos.start with | none => true | some vd => vd.type.nonNull)
  | _ => true

/-- the part of the `@oneOf` closure that reads the link table -/
def oneOfVar (l : Links) (dfn : Definition) (v : Value) : Bool :=
  !(v.kind == .object && dfn.kind == .inputObject && Spec.hasOneOf dfn) || oneOfVarOK l v

theorem oneOfCheck_nil_iff (l : Links) (dfn : Definition) (v : Value) :
    oneOfCheck l dfn v = [] ↔
      (match v.children with | .cons _ fv _ .nil => fv.kind != .null | _ => false) = true ∧ oneOfVarOK l v = true := by
  unfold oneOfCheck oneOfVarOK
  obtain ⟨k, raw, ch, p⟩ := v
  simp only [Value.children]
  cases ch with
  | nil => simp
  | cons n fv q rest =>
    cases rest with
    | cons n2 fv2 q2 rest2 => simp
    | nil =>
      simp only
      cases hk : fv.kind <;> simp <;> try (cases l.varDef fv.pos.start <;> simp)

theorem oneOfChecks_nil_iff (l : Links) (dfn : Definition) (v : Value) :
    ∀ dirs : List Directive, oneOfChecks l dfn v dirs = [] ↔
      (dirs.any (·.name == str "oneOf") = false ∨ oneOfCheck l dfn v = [])
  | [] => by simp [oneOfChecks]
  | dir :: rest => by
    unfold oneOfChecks
    have ih := oneOfChecks_nil_iff l dfn v rest
    cases hd : (dir.name == str "oneOf")
    · simp only [Bool.false_eq_true, if_false, List.any_cons, hd, Bool.false_or]
      exact ih
    · simp only [if_true, List.any_cons, hd, Bool.true_or, List.append_eq_nil_iff, ih]
      constructor
      · intro h; exact Or.inr h.1
      · intro h
        rcases h with h | h
        · cases h
        · exact ⟨h, Or.inr h⟩

theorem localOK_split (l : Links) (exp : GType) (dfn : Definition) (v : Value) :
    localOK l exp dfn v = (localPure exp dfn v && oneOfVar l dfn v) := by
  have key : (oneOfChecks l dfn v dfn.dirs).isEmpty =
      (Spec.oneOfOk dfn v.children && (!Spec.hasOneOf dfn || oneOfVarOK l v)) := by
    rw [Bool.eq_iff_iff]
    simp only [List.isEmpty_iff, oneOfChecks_nil_iff, oneOfCheck_nil_iff, Spec.oneOfOk, Spec.hasOneOf,
      Bool.and_eq_true, Bool.or_eq_true, Bool.not_eq_true']
    cases dfn.dirs.any (·.name == str "oneOf") <;> simp
    intro _; rfl
  unfold localOK localPure oneOfVar
  cases hk : v.kind <;> simp only [] <;> try (simp; done)
  · simp only [show (ValueKind.list == ValueKind.object) = false from rfl, Bool.false_and, Bool.not_false,
      Bool.true_or, Bool.and_true]
    cases exp <;> rfl
  · rw [key]
    simp only [beq_self_eq_true, Bool.true_and]
    cases hcs : customScalar dfn <;> cases hio : (dfn.kind == .inputObject) <;> simp
    · generalize (missingRequired dfn v dfn.fields).isEmpty = a
      generalize (unknownInputFields dfn v.children).isEmpty = b
      generalize Spec.oneOfOk dfn v.children = c
      generalize (!Spec.hasOneOf dfn || oneOfVarOK l v) = e
      generalize (!ValueKind.object == ValueKind.null || !exp.nonNull) = f
      cases a <;> cases b <;> cases c <;> cases e <;> cases f <;> rfl
    · simp only [customScalar, Bool.and_eq_true, beq_iff_eq] at hcs hio
      rw [hio] at hcs
      exact absurd hcs.1 (by decide)

/- ================= hypotheses ================= -/

/-- the named type of `t` resolves to an input type (scalar, enum, input object) -/
def inputTypeB (s : Schema) (t : GType) : Bool :=
  match s.type? t.name with
  | some d => Spec.isInput d
  | none => false

/-- what the comparison needs of one type definition of the schema:
    * a definition that carries the name of a built-in scalar is a scalar (the rule dispatches on the NAME, `defOneOf`);
    * a scalar declares no fields (the walker types the fields of an object literal from `dfn.fields` whatever the kind of `dfn`);
    * the fields of an input object have types that resolve to input types (`Spec.Closed`: `ClosedFieldTypes`). -/
def defOK (s : Schema) (d : Definition) : Bool :=
  (!Spec.builtinScalars.contains d.name || d.kind == .scalar) &&
  (!(d.kind == .scalar) || d.fields.isEmpty) &&
  (!(d.kind == .inputObject) || d.fields.all fun f => inputTypeB s f.type)

def schemaOK (s : Schema) : Bool := s.types.all fun p => defOK s p.2

theorem mem_of_lookup' {β : Type} : ∀ (l : List (Name × β)) (n : Name) (b : β), l.lookup n = some b → (n, b) ∈ l
  | [], _, _, h => by simp [List.lookup] at h
  | (k, v) :: rest, n, b, h => by
    simp only [List.lookup] at h
    split at h
    · rename_i heq
      have : n = k := by simpa using heq
      injection h with h
      subst h this
      exact List.mem_cons_self
    · exact List.mem_cons_of_mem _ (mem_of_lookup' rest n b h)

theorem defOK_of_type? {s : Schema} (hs : schemaOK s = true) {n : Name} {d : Definition} (h : s.type? n = some d) :
    defOK s d = true := by
  unfold schemaOK at hs
  rw [List.all_eq_true] at hs
  exact hs (n, d) (mem_of_lookup' s.types n d h)

/-- the numeric literals: model of `strconv` and specification arithmetic agree on the text —
    `ParseInt(·, 10, 32)` with `Spec.int32Ok` and `ParseFloat(·, 64)` (error or ±Inf) with
    `Spec.floatLitFinite` for an IntValue, the latter for a FloatValue.  An IntValue LEXEME satisfies
    both of its conjuncts (`numLeafOK_int_of_lexeme` in `ValuesCorrectNum.lean`), whatever its size. -/
def numLeafOK (k : ValueKind) (raw : Bytes) : Bool :=
  match k with
  | .int => ((parseIntErr 32 raw == .none) == Spec.int32Ok raw) && (floatErr raw == !Spec.floatLitFinite raw)
  | .float => floatErr raw == !Spec.floatLitFinite raw
  | _ => true

/- ================= small lemmas ================= -/

theorem childPresent_eq (n : Name) : ∀ ch : Children, childPresent n ch = (Spec.childNames ch).contains n
  | .nil => rfl
  | .cons k v p rest => by
    rw [childPresent, Spec.childNames, List.contains_cons, childPresent_eq n rest]
    congr 1
    rw [Bool.eq_iff_iff, beq_iff_eq, beq_iff_eq]
    exact eq_comm

theorem missingRequired_nil_iff (dfn : Definition) (v : Value) : ∀ fs : List FieldDef,
    missingRequired dfn v fs = [] ↔
      fs.all (fun fd => !(fd.type.nonNull && fd.default.isNone) || (Spec.childNames v.children).contains fd.name) = true
  | [] => by simp [missingRequired]
  | f :: rest => by
    unfold missingRequired
    have ih := missingRequired_nil_iff dfn v rest
    simp only [List.all_cons, childPresent_eq]
    cases f.type.nonNull <;> cases (Spec.childNames v.children).contains f.name <;> cases f.default.isNone <;> simp [ih]

mutual
  /-- below a node without links every node is without links -/
  theorem valSites_untyped (s : SV) : ∀ (v : Value), ∀ x ∈ valSites s none none v, x.1 = none
    | .mk k raw ch p, x, hx => by
      unfold valSites at hx
      rcases List.mem_append.1 hx with hx | hx
      · cases k <;> simp only [List.not_mem_nil] at hx
        · exact listSites_untyped s none none rfl ch x hx
        · exact objSites_untyped s none (fun _ => rfl) ch x hx
      · rw [List.mem_singleton.1 hx]
  theorem objSites_untyped (s : SV) (dfn : Option Definition) (hd : ∀ n, objChildLink s dfn n = (none, none)) :
      ∀ (ch : Children), ∀ x ∈ objSites s dfn ch, x.1 = none
    | .nil, x, hx => by simp [objSites] at hx
    | .cons n v p rest, x, hx => by
      rw [objSites, hd n] at hx
      rcases List.mem_append.1 hx with hx | hx
      · exact valSites_untyped s v x hx
      · exact objSites_untyped s dfn hd rest x hx
  theorem listSites_untyped (s : SV) (exp : Option GType) (dfn : Option Definition)
      (hl : listChildLink exp dfn = (none, none)) : ∀ (ch : Children), ∀ x ∈ listSites s exp dfn ch, x.1 = none
    | .nil, x, hx => by simp [listSites] at hx
    | .cons n v p rest, x, hx => by
      rw [listSites, hl] at hx
      rcases List.mem_append.1 hx with hx | hx
      · exact valSites_untyped s v x hx
      · exact listSites_untyped s exp dfn hl rest x hx
end

theorem structured_eq (d : Definition) (hin : Spec.isInput d = true) : Spec.structuredAtNamed d = customScalar d := by
  unfold Spec.structuredAtNamed customScalar defOneOf
  simp only [Spec.isInput, Bool.or_eq_true, beq_iff_eq] at hin
  rcases hin with (hk | hk) | hk <;> rw [hk] <;> simp <;> rfl

/- ================= leaves ================= -/

theorem vk_beq (a b : ValueKind) : (a == b) = decide (a = b) := by cases a <;> cases b <;> rfl
theorem dk_beq (a b : DefKind) : (a == b) = decide (a = b) := by cases a <;> cases b <;> rfl

theorem leaf_iff (s : Schema) (d : Definition) (hin : Spec.isInput d = true) (hd : defOK s d = true) (t : GType)
    (k : ValueKind) (raw : Bytes) (ch : Children) (p : Pos)
    (hk : k ≠ .variable ∧ k ≠ .null ∧ k ≠ .list ∧ k ≠ .object)
    (hn : numLeafOK k raw = true) :
    localPure t d (.mk k raw ch p) = Spec.scalarLitOk d k raw := by
  obtain ⟨k1, k2, k3, k4⟩ := hk
  simp only [defOK, Bool.and_eq_true, Bool.or_eq_true, Bool.not_eq_true'] at hd
  obtain ⟨⟨hb, _⟩, _⟩ := hd
  unfold localPure customScalar Spec.scalarLitOk defOneOf
  simp only [Value.kind, Value.raw]
  have hsc : ∀ nm : Name, Spec.builtinScalars.contains nm = true → d.name = nm → d.kind = .scalar := by
    intro nm hnm h
    rcases hb with hb | hb
    · rw [h, hnm] at hb; cases hb
    · simpa using hb
  by_cases h1 : d.name = str "Int"
  · rw [h1, hsc _ (by decide) h1]
    cases k <;> simp +decide [numLeafOK, vk_beq, dk_beq] at k1 k2 k3 k4 hn ⊢
    exact hn.1
  by_cases h2 : d.name = str "Float"
  · rw [h2, hsc _ (by decide) h2]
    cases k <;> simp +decide [numLeafOK, vk_beq, dk_beq] at k1 k2 k3 k4 hn ⊢
    · exact hn.2
    · exact hn
  by_cases h3 : d.name = str "String"
  · rw [h3, hsc _ (by decide) h3]
    cases k <;> simp +decide [numLeafOK, vk_beq, dk_beq] at k1 k2 k3 k4 hn ⊢
  by_cases h4 : d.name = str "Boolean"
  · rw [h4, hsc _ (by decide) h4]
    cases k <;> simp +decide [numLeafOK, vk_beq, dk_beq] at k1 k2 k3 k4 hn ⊢
  by_cases h5 : d.name = str "ID"
  · rw [h5, hsc _ (by decide) h5]
    cases k <;> simp +decide [numLeafOK, vk_beq, dk_beq] at k1 k2 k3 k4 hn ⊢
  have hnb : ∀ nm : Name, Spec.builtinScalars.contains nm = true → (d.name == nm) = false := by
    intro nm hnm
    simp only [Spec.builtinScalars, List.contains_cons, List.contains_nil, Bool.or_false, Bool.or_eq_true, beq_iff_eq] at hnm
    rcases hnm with h | h | h | h | h <;> subst h <;> simp [h1, h2, h3, h4, h5]
  have e1 := hnb (str "Int") (by decide)
  have e2 := hnb (str "Float") (by decide)
  have e3 := hnb (str "String") (by decide)
  have e4 := hnb (str "Boolean") (by decide)
  have e5 := hnb (str "ID") (by decide)
  simp only [Rules.builtinScalars, List.contains_cons, List.contains_nil, e1, e2, e3, e4, e5, Bool.or_false]
  simp only [Spec.isInput, Bool.or_eq_true, beq_iff_eq] at hin
  rcases hin with (hk | hk) | hk <;> rw [hk] <;>
    cases k <;> simp +decide [numLeafOK, vk_beq, dk_beq] at k1 k2 k3 k4 hn ⊢

/- ================= local to recursive ================= -/

/-- a typed site passes the link-free local test -/
def SitePass (x : VSite) : Prop := ∀ exp dfn, x.1 = some exp → x.2.1 = some dfn → localPure exp dfn x.2.2 = true

theorem sitePass_untyped {x : VSite} (h : x.1 = none) : SitePass x := by
  intro exp dfn h1
  rw [h] at h1
  cases h1

theorem forall_append_single {α : Type} (P : α → Prop) (l : List α) (a : α) :
    (∀ x ∈ l ++ [a], P x) ↔ (∀ x ∈ l, P x) ∧ P a := by
  constructor
  · intro h
    exact ⟨fun x hx => h x (List.mem_append_left _ hx), h a (List.mem_append_right _ (List.mem_singleton.2 rfl))⟩
  · rintro ⟨h1, h2⟩ x hx
    rcases List.mem_append.1 hx with hx | hx
    · exact h1 x hx
    · rw [List.mem_singleton.1 hx]; exact h2

theorem forall_append {α : Type} (P : α → Prop) (l l' : List α) :
    (∀ x ∈ l ++ l', P x) ↔ (∀ x ∈ l, P x) ∧ (∀ x ∈ l', P x) := by
  constructor
  · intro h
    exact ⟨fun x hx => h x (List.mem_append_left _ hx), fun x hx => h x (List.mem_append_right _ hx)⟩
  · rintro ⟨h1, h2⟩ x hx
    rcases List.mem_append.1 hx with hx | hx
    · exact h1 x hx
    · exact h2 x hx

theorem sitePass_root (t : GType) (d : Definition) (v : Value) :
    SitePass (some t, some d, v) ↔ localPure t d v = true := by
  constructor
  · intro h; exact h t d rfl rfl
  · intro h exp dfn h1 h2
    cases h1; cases h2; exact h

mutual
  theorem valueOk_iff_sites (s : Schema) (hs : schemaOK s = true) : ∀ (v : Value) (t : GType) (d : Definition), s.type? t.name = some d → Spec.isInput d = true →
      (∀ w ∈ subValues v, numLeafOK w.kind w.raw = true) →
      ((∀ x ∈ valSites s.view (some t) (some d) v, SitePass x) ↔ Spec.valueOk s t v = true)
    | .mk k raw ch p, t, d, hd, hin, hl => by
      have hdok := defOK_of_type? hs hd
      unfold valSites
      rw [forall_append_single, sitePass_root]
      unfold Spec.valueOk
      cases k with
      | «variable» => simp [localPure, Value.kind]
      | null => simp [localPure, Value.kind]
      | list =>
        simp only
        cases t with
        | named n nn q =>
          have hd' : s.type? n = some d := hd
          simp only [hd']
          rw [structured_eq d hin]
          have hloc : localPure (.named n nn q) d (.mk .list raw ch p) = customScalar d := by
            simp [localPure, Value.kind]
          rw [hloc]
          constructor
          · exact fun h => h.2
          · intro h
            exact ⟨fun x hx => sitePass_untyped (listSites_untyped s.view _ _ rfl ch x hx), h⟩
        | list e nn q =>
          have hd' : s.type? e.name = some d := hd
          simp only
          have hloc : localPure (.list e nn q) d (.mk .list raw ch p) = true := by
            simp [localPure, Value.kind]
          rw [hloc, ← itemsOk_iff_sites s hs ch e nn q d hd' hin
            (fun w hw => hl w (by unfold subValues; exact List.mem_append_left _ hw))]
          simp
      | object =>
        simp only
        rw [hd]
        simp only
        have hlch : ∀ w ∈ childValues ch, numLeafOK w.kind w.raw = true :=
          fun w hw => hl w (by unfold subValues; exact List.mem_append_left _ hw)
        simp only [defOK, Bool.and_eq_true, Bool.or_eq_true, Bool.not_eq_true', beq_iff_eq] at hdok
        obtain ⟨⟨_, hsf⟩, hif⟩ := hdok
        by_cases hio : d.kind = .inputObject
        · have hcs : customScalar d = false := by simp [customScalar, hio]
          have hf : ∀ f ∈ d.fields, inputTypeB s f.type = true := by
            rcases hif with h | h
            · rw [hio] at h; simp at h
            · exact List.all_eq_true.1 h
          have hloc : localPure t d (.mk .object raw ch p) =
              ((missingRequired d (.mk .object raw ch p) d.fields).isEmpty && Spec.oneOfOk d ch &&
                (unknownInputFields d ch).isEmpty) := by
            simp [localPure, Value.kind, Value.children, hcs, hio]
          rw [hloc]
          simp only [hio, beq_self_eq_true, if_true, Bool.and_eq_true, List.isEmpty_iff]
          rw [← fieldsOk_iff_sites s hs ch d hf hlch, missingRequired_nil_iff]
          simp only [Spec.requiredFieldsProvided, Value.children]
          constructor
          · rintro ⟨a, ⟨b, c⟩, e⟩; exact ⟨⟨⟨a, e⟩, b⟩, c⟩
          · rintro ⟨⟨⟨a, e⟩, b⟩, c⟩; exact ⟨a, ⟨b, c⟩, e⟩
        · have hne : (d.kind == DefKind.inputObject) = false := by simpa using hio
          have hloc : localPure t d (.mk .object raw ch p) = customScalar d := by
            simp [localPure, Value.kind, hne, vk_beq]
          rw [hloc]
          simp only [hne, Bool.false_eq_true, if_false]
          rw [structured_eq d hin]
          constructor
          · exact fun h => h.2
          · intro h
            refine ⟨fun x hx => sitePass_untyped (objSites_untyped s.view _ (fun nm => ?_) ch x hx), h⟩
            have hk : d.kind = .scalar := by
              simp only [customScalar, Bool.and_eq_true, beq_iff_eq] at h
              exact h.1
            have : d.fields = [] := by
              rcases hsf with h' | h'
              · rw [hk] at h'; cases h'
              · simpa using h'
            simp [objChildLink, this, fieldForName]
      | _ =>
        simp only [hd]
        have hnum := hl _ (self_mem_subValues _)
        simp only [Value.kind, Value.raw] at hnum
        rw [leaf_iff s d hin hdok t _ raw ch p (by decide) hnum]
        simp
  theorem itemsOk_iff_sites (s : Schema) (hs : schemaOK s = true) : ∀ (ch : Children) (e : GType) (nn : Bool) (q : Pos) (d : Definition),
      s.type? e.name = some d → Spec.isInput d = true →
      (∀ w ∈ childValues ch, numLeafOK w.kind w.raw = true) →
      ((∀ x ∈ listSites s.view (some (.list e nn q)) (some d) ch, SitePass x) ↔ Spec.itemsOk s e ch = true)
    | .nil, e, nn, q, d, hd, hin, hl => by simp [listSites, Spec.itemsOk]
    | .cons n v p rest, e, nn, q, d, hd, hin, hl => by
      rw [listSites, forall_append, Spec.itemsOk, Bool.and_eq_true]
      simp only [listChildLink]
      rw [valueOk_iff_sites s hs v e d hd hin (fun w hw => hl w (by rw [childValues]; exact List.mem_append_left _ hw)),
        itemsOk_iff_sites s hs rest e nn q d hd hin (fun w hw => hl w (by rw [childValues]; exact List.mem_append_right _ hw))]
  theorem fieldsOk_iff_sites (s : Schema) (hs : schemaOK s = true) : ∀ (ch : Children) (d : Definition), (∀ f ∈ d.fields, inputTypeB s f.type = true) →
      (∀ w ∈ childValues ch, numLeafOK w.kind w.raw = true) →
      (((∀ x ∈ objSites s.view (some d) ch, SitePass x) ∧ unknownInputFields d ch = []) ↔ Spec.fieldsOk s d ch = true)
    | .nil, d, hf, hl => by simp [objSites, Spec.fieldsOk, unknownInputFields]
    | .cons n v p rest, d, hf, hl => by
      have ih := fieldsOk_iff_sites s hs rest d hf (fun w hw => hl w (by rw [childValues]; exact List.mem_append_right _ hw))
      rw [objSites, forall_append, Spec.fieldsOk, Bool.and_eq_true, ← ih]
      rw [unknownInputFields]
      have hsame : Spec.inputFieldByName d n = fieldForName d.fields n := rfl
      rw [hsame]
      cases hfn : fieldForName d.fields n with
      | none => simp
      | some fd =>
        have hmem : fd ∈ d.fields := List.mem_of_find?_eq_some hfn
        have hit := hf fd hmem
        unfold inputTypeB at hit
        cases hd' : s.type? fd.type.name with
        | none => rw [hd'] at hit; cases hit
        | some d' =>
          rw [hd'] at hit
          have hlink : objChildLink s.view (some d) n = (some fd.type, some d') := by
            simp only [objChildLink, hfn, linkOfType]
            exact congrArg _ hd'
          rw [hlink]
          simp only [Option.isNone_some, Bool.false_eq_true, if_false]
          rw [← valueOk_iff_sites s hs v fd.type d' hd' hit
            (fun w hw => hl w (by rw [childValues]; exact List.mem_append_left _ hw))]
          constructor
          · rintro ⟨⟨a, b⟩, c⟩; exact ⟨a, b, c⟩
          · rintro ⟨a, b, c⟩; exact ⟨⟨a, b⟩, c⟩
end

end Gql.Validate
