import GqlProofs.ValSpec.Local
import GqlProofs.ValSpec.Coverage
import GqlProofs.ValSpec.ReachClosure
import GqlProofs.Validate.RuleFuel
/-
  SingleFieldSubscriptions (§5.2.3.1), part 1: the algorithmic core.

  * `validate_statelessP_silent`: a one-rule run of a `Rule.statelessP` rule is `.ok []` iff every
    event's step is `.ok []`.
  * `topWalk_collect` / `topLevel_collect`: when every spread met resolves (`l.spreadDef` is `some`,
    the fragment has a non-empty type condition) and the rule's `topApplies` agrees with the
    specification's `fragmentTypeApplies` on non-empty type conditions, the rule's `topWalk` /
    `topLevel` and the specification's `collectRootSels` / `collectRootLevel` collect the same
    (response key, field name) pairs and the same visited set.
  * `uniqByName` / `addNew`: the number of survivors is the number of distinct response keys.
-/
namespace Gql.Validate
open Gql Gql.Validate.Rules

/- ---------- one `statelessP` rule on a stream ---------- -/

theorem statelessP_step (s : SV) (d : QueryDoc) (name : Bytes)
    (f : SV → QueryDoc → Event → Except Bytes (List RErr)) (e : Event) :
    Running.step s d (Rule.statelessP name f).start e =
      match f s d e with
      | .ok errs => .ok ((Rule.statelessP name f).start, errs.map (RErr.toErr name))
      | .error m => .error m := by
  simp only [Running.step, Rule.start, Rule.statelessP]
  cases f s d e <;> rfl

theorem runAll_statelessP_nil (s : SV) (d : QueryDoc) (name : Bytes)
    (f : SV → QueryDoc → Event → Except Bytes (List RErr)) :
    ∀ evs : List Event, runAll s d [(Rule.statelessP name f).start] evs = .ok [] ↔
      ∀ e ∈ evs, f s d e = .ok []
  | [] => by simp [runAll]
  | e :: es => by
    rw [runAll_single_cons, statelessP_step]
    have ih := runAll_statelessP_nil s d name f es
    cases hf : f s d e with
    | error m =>
      simp only
      constructor
      · intro h; cases h
      · intro h
        have := h e List.mem_cons_self
        rw [hf] at this
        cases this
    | ok errs =>
      simp only
      cases hr : runAll s d [(Rule.statelessP name f).start] es with
      | error m =>
        simp only
        constructor
        · intro h; cases h
        · intro h
          have h2 := ih.2 (fun x hx => h x (List.mem_cons_of_mem _ hx))
          rw [hr] at h2
          cases h2
      | ok errs' =>
        simp only
        constructor
        · intro h
          injection h with h
          have h1 : errs.map (RErr.toErr name) = [] := (List.append_eq_nil_iff.1 h).1
          have h2 : errs' = [] := (List.append_eq_nil_iff.1 h).2
          have h1' : errs = [] := by simpa using h1
          intro x hx
          rcases List.mem_cons.1 hx with rfl | hx
          · rw [hf, h1']
          · exact ih.1 (by rw [hr, h2]) x hx
        · intro h
          have h1 := h e List.mem_cons_self
          rw [hf] at h1
          injection h1 with h1
          have h2 := ih.2 (fun x hx => h x (List.mem_cons_of_mem _ hx))
          rw [hr] at h2
          injection h2 with h2
          rw [h1, h2]
          rfl

/-- a `statelessP` rule is silent (and does not panic) iff its step is `.ok []` on every event -/
theorem validate_statelessP_silent (s : Schema) (d : QueryDoc) (name : Bytes)
    (f : SV → QueryDoc → Event → Except Bytes (List RErr))
    (evs : List Event) (hw : walkDoc s.view d = some evs) :
    validate [Rule.statelessP name f] s d = .ok [] ↔ ∀ e ∈ evs, f s.view d e = .ok [] := by
  unfold validate
  rw [validateV_ok_iff]
  constructor
  · rintro ⟨evs', hw', hr⟩
    rw [hw] at hw'
    cases hw'
    simp only [List.map_cons, List.map_nil] at hr
    exact (runAll_statelessP_nil s.view d name f evs).1 hr
  · intro h
    refine ⟨evs, hw, ?_⟩
    simp only [List.map_cons, List.map_nil]
    exact (runAll_statelessP_nil s.view d name f evs).2 h

/- ---------- the walk of the rule and the collection of the specification ---------- -/

/-- forget the position of a collected field -/
def topProj (x : Name × Name × Pos) : Spec.RootField := (x.1, x.2.1)

/-- the result `st'` of the rule from `st` and the result `r` of the specification from
    `st.inFrag`: same visited set, same collected (response key, field name) pairs -/
def TopRel (st st' : TopState) (r : List Spec.RootField × List Name) : Prop :=
  st'.inFrag = r.2 ∧ st'.fields.map topProj = st.fields.map topProj ++ r.1

/-- every spread node written (at any depth) in the selection set satisfies `Q` -/
def SpreadsSat (Q : Name → Pos → Prop) (sels : Selections) : Prop :=
  ∀ nm dirs p, InSels sels (.sel (.spread nm dirs p)) → Q nm p

/-- `Q` is closed: a spread satisfying it resolves to a fragment with a non-empty type condition
    whose spreads satisfy it -/
def SpreadsClosed (l : Links) (d : QueryDoc) (Q : Name → Pos → Prop) : Prop :=
  ∀ nm p, Q nm p → ∃ f, l.spreadDef d nm p = some f ∧ f.typeCond ≠ [] ∧ SpreadsSat Q f.sel

def JumpRel (Q : Name → Pos → Prop) (J : TopJump) (J' : Spec.RootJump) : Prop :=
  ∀ sels st st', SpreadsSat Q sels → J sels st = some st' → TopRel st st' (J' sels st.inFrag)

theorem SpreadsSat.tail {Q : Name → Pos → Prop} {x : Selection} {rest : Selections}
    (h : SpreadsSat Q (.cons x rest)) : SpreadsSat Q rest :=
  fun nm dirs p hi => h nm dirs p (InSels.tail _ _ _ hi)

theorem SpreadsSat.inlineSub {Q : Name → Pos → Prop} {tc : Name} {dirs : List Directive} {sub : Selections} {p : Pos}
    {rest : Selections} (h : SpreadsSat Q (.cons (.inline tc dirs sub p) rest)) : SpreadsSat Q sub :=
  fun nm ds q hi => h nm ds q (InSels.head _ _ _ (InSel.inlineSub _ _ _ _ _ hi))

theorem SpreadsSat.head {Q : Name → Pos → Prop} {nm : Name} {dirs : List Directive} {p : Pos}
    {rest : Selections} (h : SpreadsSat Q (.cons (.spread nm dirs p) rest)) : Q nm p :=
  h nm dirs p (InSels.head _ _ _ (InSel.self _))

theorem topWalk_collect (s : Schema) (root : Name) (obj : Definition) (l : Links) (d : QueryDoc)
    (Q : Name → Pos → Prop) (hQ : SpreadsClosed l d Q)
    (happ : ∀ tc, tc ≠ [] → topApplies s.view root tc = Spec.fragmentTypeApplies s obj tc)
    (J : TopJump) (J' : Spec.RootJump) (hJ : JumpRel Q J J') :
    ∀ (sels : Selections) (st st' : TopState), SpreadsSat Q sels →
      topWalk s.view root l d J sels st = some st' →
      TopRel st st' (Spec.collectRootSels s d obj J' sels st.inFrag)
  | .nil, st, st', _, h => by
    simp only [topWalk] at h
    injection h with h
    subst h
    simp [TopRel, Spec.collectRootSels]
  | .cons (.field al nm args dirs sub p) rest, st, st', hs, h => by
    unfold topWalk at h
    have ih := topWalk_collect s root obj l d Q hQ happ J J' hJ rest _ st' hs.tail h
    simp only [Spec.collectRootSels, Spec.collectRootSel]
    obtain ⟨h1, h2⟩ := ih
    refine ⟨h1, ?_⟩
    simp only at h2 ⊢
    rw [h2]
    simp only [List.map_append, List.map_cons, List.map_nil, List.append_assoc, topProj]
    congr 2
    by_cases ha : al = []
    · simp [ha]
    · simp [ha]
  | .cons (.inline tc dirs sub p) rest, st, st', hs, h => by
    unfold topWalk at h
    simp only [Spec.collectRootSels, Spec.collectRootSel]
    have hc : (tc != [] && !Spec.fragmentTypeApplies s obj tc) = !topApplies s.view root tc := by
      by_cases ht : tc = []
      · subst ht
        simp [topApplies]
      · rw [happ tc ht]
        simp [ht]
    rw [hc]
    cases ha : topApplies s.view root tc with
    | false =>
      rw [ha] at h
      simp only [Bool.false_eq_true, ↓reduceIte] at h
      have ih := topWalk_collect s root obj l d Q hQ happ J J' hJ rest st st' hs.tail h
      simpa using ih
    | true =>
      rw [ha] at h
      simp only [↓reduceIte] at h
      split at h
      · cases h
      · rename_i st1 h1
        have ih1 := topWalk_collect s root obj l d Q hQ happ J J' hJ sub st st1 hs.inlineSub h1
        have ih2 := topWalk_collect s root obj l d Q hQ happ J J' hJ rest st1 st' hs.tail h
        simp only [Bool.not_true, Bool.false_eq_true, ↓reduceIte]
        obtain ⟨a1, a2⟩ := ih1
        obtain ⟨b1, b2⟩ := ih2
        rw [a1] at b1 b2
        refine ⟨b1, ?_⟩
        simp only
        rw [b2, a2, List.append_assoc]
  | .cons (.spread nm dirs p) rest, st, st', hs, h => by
    unfold topWalk at h
    obtain ⟨f, hf, htc, hfs⟩ := hQ nm p hs.head
    rw [hf] at h
    simp only at h
    have hff := spreadDef_some hf
    have hn := fragForName_name hff
    simp only [Spec.collectRootSels, Spec.collectRootSel]
    rw [fragByName_eq, hff]
    rw [hn] at h
    cases hv : st.inFrag.contains nm with
    | true =>
      rw [hv] at h
      simp only [↓reduceIte] at h
      have ih := topWalk_collect s root obj l d Q hQ happ J J' hJ rest st st' hs.tail h
      simpa using ih
    | false =>
      rw [hv] at h
      simp only [Bool.false_eq_true, ↓reduceIte] at h ⊢
      rw [happ f.typeCond htc] at h
      cases ha : Spec.fragmentTypeApplies s obj f.typeCond with
      | false =>
        rw [ha] at h
        simp only [Bool.false_eq_true, ↓reduceIte] at h ⊢
        have ih := topWalk_collect s root obj l d Q hQ happ J J' hJ rest _ st' hs.tail h
        obtain ⟨b1, b2⟩ := ih
        exact ⟨by simpa using b1, by simpa using b2⟩
      | true =>
        rw [ha] at h
        simp only [↓reduceIte] at h ⊢
        split at h
        · cases h
        · rename_i st1 h1
          have ih1 := hJ f.sel _ st1 hfs h1
          have ih2 := topWalk_collect s root obj l d Q hQ happ J J' hJ rest st1 st' hs.tail h
          obtain ⟨a1, a2⟩ := ih1
          obtain ⟨b1, b2⟩ := ih2
          simp only at a1 a2
          rw [a1] at b1 b2
          refine ⟨b1, ?_⟩
          simp only
          rw [b2, a2, List.append_assoc]

theorem topLevel_collect (s : Schema) (root : Name) (obj : Definition) (l : Links) (d : QueryDoc)
    (Q : Name → Pos → Prop) (hQ : SpreadsClosed l d Q)
    (happ : ∀ tc, tc ≠ [] → topApplies s.view root tc = Spec.fragmentTypeApplies s obj tc) :
    ∀ n, JumpRel Q (topLevel s.view root l d n) (Spec.collectRootLevel s d obj n)
  | 0 => by
    intro sels st st' _ h
    simp [topLevel] at h
  | n + 1 => by
    intro sels st st' hs h
    simp only [topLevel] at h
    simp only [Spec.collectRootLevel]
    exact topWalk_collect s root obj l d Q hQ happ _ _ (topLevel_collect s root obj l d Q hQ happ n) sels st st' hs h

end Gql.Validate
