import GqlProofs.ValSpec.ReachSpec
/-
  C09, the `var=` part of the demands: every variable use of the document has an event that shows a
  definition among the candidates `Spec.valueLinks` allows for it — for a use written in an
  operation the definition of that name of that operation; for a use written in a fragment
  definition a definition of that name of an operation in whose scope the fragment lies (when no
  such operation declares the name, `linkscheck` does not judge the link).
-/
namespace Gql.Validate
open Gql

/-- the demand is about a value and has an event on behalf of `op` that carries what is demanded -/
def Demand.MetUnder (evs : List Event) (op : OperationDef) (c0 : Name → List String) : Demand → Prop
  | .value c o => c = c0 ∧ ∃ e ∈ evs, e.cur = some op ∧ ∃ exp dfn, e.p = .value o.v exp dfn ∧
      (o.typed = true → exp = o.exp ∧ dfn = o.dfn)
  | _ => True

theorem EvOcc.under {op : OperationDef} {e : Event} {o : ValOcc} (h : EvOcc (some op) e o) :
    e.cur = some op ∧ ∃ exp dfn, e.p = .value o.v exp dfn ∧ (o.typed = true → exp = o.exp ∧ dfn = o.dfn) := by
  obtain ⟨hc, exp, dfn, hp, hag⟩ := h
  exact ⟨hc, exp, dfn, hp, fun ht => hag.demanded ht⟩

theorem OpReaches.mem {d : QueryDoc} {op : OperationDef} {f : FragmentDef} (h : OpReaches d op f) : f ∈ d.frags := by
  cases h with
  | direct nm f _ hf => exact fragForName_mem hf
  | step g nm f _ _ hf => exact fragForName_mem hf

section
variable (s : Schema) (d : QueryDoc) (evs : List Event) (hw : walkDoc s.view d = some evs)
  (op : OperationDef) (hop : op ∈ d.ops)
include hw hop

theorem argDemands_under (c0 : Name → List String) (defs : Option (List ArgDef)) (args : List Argument)
    (hc : OpArgCall s.view d op defs args) : ∀ dm ∈ argDemands s c0 defs args, dm.MetUnder evs op c0 := by
  intro dm hdm
  simp only [argDemands, List.mem_map] at hdm
  obtain ⟨o, ho, rfl⟩ := hdm
  obtain ⟨e, he, heo⟩ := walkDoc_scope_values s d evs hw op hop defs args hc o ho
  exact ⟨rfl, e, he, heo.under⟩

theorem dirDemands_under (c0 : Name → List String) (loc : Bytes) (ds : List Directive)
    (hc : ∀ dir ∈ ds, OpArgCall s.view d op ((s.directive? dir.name).map (·.args)) dir.args) :
    ∀ dm ∈ dirDemands s c0 loc ds, dm.MetUnder evs op c0 := by
  intro dm hdm
  simp only [dirDemands, List.mem_flatMap, List.mem_cons] at hdm
  obtain ⟨dir, hd, rfl | hdm⟩ := hdm
  · trivial
  · exact argDemands_under s d evs hw op hop c0 _ _ (hc dir hd) dm hdm

/-- the nodes of a selection set walked on behalf of `op` (the operation's own, or a reached
    fragment's): `hfield` / `hdir` say that the argument lists of its nodes are in the scope of `op` -/
theorem nodeDemands_under (c0 : Name → List String) (t : Spec.TSel) (hwpt : Spec.nodeWellParented t = true)
    (hfield : ∀ al nm args dirs sub pos, t.sel = .field al nm args dirs sub pos →
      OpArgCall s.view d op ((wFieldDef t.parent nm).map (·.args)) args)
    (hdir : ∀ dir ∈ Spec.selDirs t.sel, OpArgCall s.view d op ((s.directive? dir.name).map (·.args)) dir.args) :
    ∀ dm ∈ nodeDemands s c0 t, dm.MetUnder evs op c0 := by
  intro dm hdm
  obtain ⟨par, sel⟩ := t
  cases sel with
  | field al nm args dirs sub p =>
    simp only [nodeDemands, List.mem_cons, List.mem_append] at hdm
    rcases hdm with rfl | hdm | hdm
    · trivial
    · have := hfield al nm args dirs sub p rfl
      rw [wFieldDef_eq par al nm args dirs sub p hwpt] at this
      exact argDemands_under s d evs hw op hop c0 _ _ this dm hdm
    · exact dirDemands_under s d evs hw op hop c0 _ _ hdir dm hdm
  | spread nm dirs p =>
    simp only [nodeDemands, List.mem_cons] at hdm
    rcases hdm with rfl | hdm
    · trivial
    · exact dirDemands_under s d evs hw op hop c0 _ _ hdir dm hdm
  | inline tc dirs sub p =>
    simp only [nodeDemands, List.mem_cons] at hdm
    rcases hdm with rfl | hdm
    · trivial
    · exact dirDemands_under s d evs hw op hop c0 _ _ hdir dm hdm

theorem defaultDemands_under (c0 : Name → List String) (v : VarDef) (hv : v ∈ op.vars) :
    ∀ dm ∈ defaultDemands s c0 v, dm.MetUnder evs op c0 := by
  intro dm hdm
  unfold defaultDemands at hdm
  cases hdv : v.default with
  | none => rw [hdv] at hdm; cases hdm
  | some dv =>
    rw [hdv] at hdm
    simp only at hdm
    obtain ⟨ws, hsub⟩ := ((walkDoc_reach s.view d evs hw).1 op hop).defaults v hv dv hdv
    have hall : ∀ o ∈ valOccs s true (some v.type) (s.type? v.type.name) dv, ∃ e ∈ evs, EvOcc (some op) e o := by
      intro o ho
      obtain ⟨e, he, heo⟩ := walkValue_occ_complete s (some op) dv true _ _ _ _ ws (Agree.rfl' _ _ _) o ho
      exact ⟨e, hsub e he, heo⟩
    cases hocc : valOccs s true (some v.type) (s.type? v.type.name) dv with
    | nil => rw [hocc] at hdm; cases hdm
    | cons top rest =>
      rw [hocc] at hdm hall
      simp only [List.mem_cons, List.mem_map] at hdm
      rcases hdm with rfl | ⟨o, ho, rfl⟩
      · obtain ⟨e, he, heo⟩ := hall top List.mem_cons_self
        obtain ⟨hc, exp, dfn, hp, _⟩ := heo.under
        exact ⟨rfl, e, he, hc, exp, dfn, hp, fun h => by cases h⟩
      · obtain ⟨e, he, heo⟩ := hall o (List.mem_cons_of_mem _ ho)
        exact ⟨rfl, e, he, heo.under⟩

variable (hwp : Spec.wellParented s d = true)
include hwp

/-- the operation's own demands have events on behalf of the operation -/
theorem opDemands_under : ∀ dm ∈ opDemands s d op, dm.MetUnder evs op (Spec.varCandidates [op]) := by
  have hwp' := hwp
  unfold Spec.wellParented at hwp'
  simp only [List.all_eq_true] at hwp'
  intro dm hdm
  simp only [opDemands, List.mem_append, List.mem_flatMap, List.mem_cons] at hdm
  rcases hdm with (⟨v, hv, rfl | hdm | hdm⟩ | hdm) | ⟨t, ht, hdm⟩
  · trivial
  · exact defaultDemands_under s d evs hw op hop _ v hv dm hdm
  · exact dirDemands_under s d evs hw op hop _ _ _ (fun dir hd => OpArgCall.varDir v dir hv hd) dm hdm
  · exact dirDemands_under s d evs hw op hop _ _ _ (fun dir hd => OpArgCall.opDir dir hd) dm hdm
  · have hall : ∀ t' ∈ Spec.typedSels s (Spec.rootDef s op.op) op.sel, Spec.nodeWellParented t' = true :=
      fun t' ht' => hwp' t' (by
        simp only [Spec.docSels, List.mem_append, List.mem_flatMap]
        exact Or.inl ⟨op, hop, ht'⟩)
    have hin : InSelsW s.view (opRoot s.view op.op).1 op.sel t.parent t.sel := by
      rw [opRoot_def]
      exact (inSelsW_iff s op.sel _ hall t.parent t.sel).2 ht
    refine nodeDemands_under s d evs hw op hop _ t (hall t ht) (fun al nm args dirs sub pos hs => ?_)
      (fun dir hd => OpArgCall.ownNodeDir _ _ dir hin hd) dm hdm
    rw [hs] at hin
    exact OpArgCall.ownField _ al nm args dirs sub pos hin

/-- the demands of a fragment definition have events on behalf of every operation that reaches it -/
theorem fragDemands_under (f : FragmentDef) (hr : OpReaches d op f) :
    ∀ dm ∈ fragDemands s d f, dm.MetUnder evs op (Spec.varCandidates (fragOps d f)) := by
  have hwp' := hwp
  unfold Spec.wellParented at hwp'
  simp only [List.all_eq_true] at hwp'
  have hf := hr.mem
  intro dm hdm
  simp only [fragDemands, List.mem_cons, List.mem_append, List.mem_flatMap] at hdm
  rcases hdm with rfl | hdm | ⟨t, ht, hdm⟩
  · trivial
  · exact dirDemands_under s d evs hw op hop _ _ _ (fun dir hd => OpArgCall.fragDir f dir hr hd) dm hdm
  · have hall : ∀ t' ∈ Spec.typedSels s (s.type? f.typeCond) f.sel, Spec.nodeWellParented t' = true :=
      fun t' ht' => hwp' t' (by
        simp only [Spec.docSels, List.mem_append, List.mem_flatMap]
        exact Or.inr ⟨f, hf, ht'⟩)
    have hin : InSelsW s.view (s.view.type? f.typeCond) f.sel t.parent t.sel :=
      (inSelsW_iff s f.sel _ hall t.parent t.sel).2 ht
    refine nodeDemands_under s d evs hw op hop _ t (hall t ht) (fun al nm args dirs sub pos hs => ?_)
      (fun dir hd => OpArgCall.fragNodeDir f _ _ dir hr hin hd) dm hdm
    rw [hs] at hin
    exact OpArgCall.fragField f _ al nm args dirs sub pos hr hin

end

/-- how the link dump prints `Value.VariableDefinition` -/
def varText : Option VarDef → String
  | none => "-"
  | some vd => bytesToString vd.var ++ "@" ++ toString vd.pos.start

theorem varCandidates_mem (ops : List OperationDef) (op : OperationDef) (hop : op ∈ ops) (raw : Name) (vd : VarDef)
    (h : Spec.varDefByName op raw = some vd) : varText (some vd) ∈ Spec.varCandidates ops raw := by
  simp only [Spec.varCandidates, List.mem_filterMap]
  exact ⟨op, hop, by rw [h]; rfl⟩

theorem varCandidates_nil (ops : List OperationDef) (raw : Name) (h : ∀ op ∈ ops, Spec.varDefByName op raw = none) :
    Spec.varCandidates ops raw = [] := by
  simp only [Spec.varCandidates, List.filterMap_eq_nil_iff]
  intro op hop
  rw [h op hop]
  rfl

/-- the `var=` demand of every variable use is met: the candidates are empty (not judged), or the
    run has an event about the use — carrying the demanded expected type / definition as well —
    that shows one of the candidates -/
theorem docDemands_var_met (s : Schema) (d : QueryDoc) (evs : List Event) (hw : walkDoc s.view d = some evs)
    (hwp : Spec.wellParented s d = true) (hpos : FragPosDistinct d) :
    ∀ dm ∈ docDemands s d, ∀ cands o raw ch p, dm = .value cands o → o.v = .mk .variable raw ch p →
      cands raw = [] ∨ ∃ e ∈ evs, (∃ exp dfn, e.p = .value o.v exp dfn ∧ (o.typed = true → exp = o.exp ∧ dfn = o.dfn)) ∧
        varText (e.links.varDef p.start) ∈ cands raw := by
  intro dm hdm cands o raw ch p hdmeq hv
  obtain ⟨l, ht⟩ := walkDoc_trace s.view d evs hw
  -- an event on behalf of `op` shows `op`'s definition
  have hown : ∀ (op : OperationDef) (e : Event), e ∈ evs → e.cur = some op →
      (∃ exp dfn, e.p = .value o.v exp dfn ∧ (o.typed = true → exp = o.exp ∧ dfn = o.dfn)) →
      e.links.varDef p.start = Spec.varDefByName op raw := by
    intro op e he hc ⟨exp, dfn, hp, _⟩
    obtain ⟨pre, post, hsplit⟩ := List.append_of_mem he
    rw [hsplit] at ht
    rw [hv] at hp
    exact trace_own pre e post ht op raw ch p exp dfn hc hp
  simp only [docDemands, List.mem_append, List.mem_flatMap] at hdm
  rcases hdm with ⟨op, hop, hdm⟩ | ⟨f, hf, hdm⟩
  · have := opDemands_under s d evs hw op hop hwp dm hdm
    rw [hdmeq] at this
    obtain ⟨hc0, e, he, hc, hx⟩ := this
    subst hc0
    cases hvd : Spec.varDefByName op raw with
    | none =>
      left
      apply varCandidates_nil
      intro op' hop'
      rw [List.mem_singleton.1 hop']
      exact hvd
    | some vd =>
      right
      refine ⟨e, he, hx, ?_⟩
      rw [hown op e he hc hx, hvd]
      exact varCandidates_mem [op] op List.mem_cons_self raw vd hvd
  · by_cases hall : ∀ op ∈ fragOps d f, Spec.varDefByName op raw = none
    · left
      -- the candidates of a fragment demand are those of `fragOps d f`
      have : ∀ dm' ∈ fragDemands s d f, ∀ c o', dm' = Demand.value c o' → c = Spec.varCandidates (fragOps d f) := by
        intro dm' hdm' c o' heq
        subst heq
        simp only [fragDemands, List.mem_cons, List.mem_append, List.mem_flatMap] at hdm'
        rcases hdm' with h | h | ⟨t, _, h⟩
        · cases h
        · simp only [dirDemands, argDemands, List.mem_flatMap, List.mem_cons, List.mem_map] at h
          obtain ⟨_, _, h | ⟨_, _, h⟩⟩ := h
          · cases h
          · injection h with h1 _
            exact h1.symm
        · obtain ⟨par, sel⟩ := t
          cases sel <;>
            simp only [nodeDemands, dirDemands, argDemands, List.mem_cons, List.mem_append, List.mem_flatMap,
              List.mem_map] at h
          · rcases h with h | ⟨_, _, h⟩ | ⟨_, _, h | ⟨_, _, h⟩⟩
            · cases h
            · injection h with h1 _; exact h1.symm
            · cases h
            · injection h with h1 _; exact h1.symm
          · rcases h with h | ⟨_, _, h | ⟨_, _, h⟩⟩
            · cases h
            · cases h
            · injection h with h1 _; exact h1.symm
          · rcases h with h | ⟨_, _, h | ⟨_, _, h⟩⟩
            · cases h
            · cases h
            · injection h with h1 _; exact h1.symm
      rw [this dm hdm cands o hdmeq]
      exact varCandidates_nil _ raw hall
    · right
      have hex : ∃ op ∈ fragOps d f, ∃ vd, Spec.varDefByName op raw = some vd := by
        apply Classical.byContradiction
        intro hne
        apply hall
        intro op hop
        cases hvd : Spec.varDefByName op raw with
        | none => rfl
        | some vd => exact absurd ⟨op, hop, vd, hvd⟩ hne
      obtain ⟨op, hopf, vd, hvd⟩ := hex
      obtain ⟨hop, hr⟩ := fragOps_reaches d hpos f hf op hopf
      have := fragDemands_under s d evs hw op hop hwp f hr dm hdm
      rw [hdmeq] at this
      obtain ⟨hc0, e, he, hc, hx⟩ := this
      subst hc0
      refine ⟨e, he, hx, ?_⟩
      rw [hown op e he hc hx, hvd]
      exact varCandidates_mem _ op hopf raw vd hvd

end Gql.Validate
