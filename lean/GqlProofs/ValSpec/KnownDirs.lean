import GqlProofs.ValSpec.ArgsDirs
/-
  KnownDirectives (a rule with a `seen` set that only suppresses REPEATED reports) against
  `directivesAreDefined ∧ directivesInValidLocations`.
-/
namespace Gql.Validate
open Gql Gql.Validate.Rules

/-- the event is not reported by KnownDirectives -/
def kdOK (e : Event) : Prop :=
  match e.p with
  | .directive _ none _ _ => False
  | .directive _ (some dd) _ loc => dd.locations.contains loc = true
  | _ => True

theorem kd_step_ok (sv : SV) (d : QueryDoc) (seen : KDState) (e : Event) :
    ∃ st' er, knownDirectivesStep sv d seen e = .ok st' er := by
  unfold knownDirectivesStep
  split
  · exact ⟨_, _, rfl⟩
  · split
    · exact ⟨_, _, rfl⟩
    · simp only []
      split
      · exact ⟨_, _, rfl⟩
      · exact ⟨_, _, rfl⟩
  · exact ⟨_, _, rfl⟩

theorem knownDirectives_total (sv : SV) (d : QueryDoc) :
    ∀ (es : List Event) (seen : KDState),
      ∃ errs, runAll sv d [({ rule := knownDirectives, st := seen } : Running)] es = .ok errs
  | [], _ => ⟨[], rfl⟩
  | e :: rest, seen => by
    rw [runAll_single_cons]
    simp only [Running.step, knownDirectives]
    obtain ⟨st', er, hst⟩ := kd_step_ok sv d seen e
    obtain ⟨errs', hr⟩ := knownDirectives_total sv d rest st'
    simp only [knownDirectives] at hr
    simp only [hst, hr]
    exact ⟨_, rfl⟩

theorem knownDirectives_run (sv : SV) (d : QueryDoc) :
    ∀ (es : List Event), ∃ errs, runAll sv d [({ rule := knownDirectives, st := [] } : Running)] es = .ok errs ∧
      (errs = [] ↔ ∀ e ∈ es, kdOK e)
  | [] => ⟨[], rfl, by simp⟩
  | e :: rest => by
    rw [runAll_single_cons]
    simp only [Running.step, knownDirectives]
    by_cases hok : kdOK e
    · -- the event is fine: the state stays empty
      have hst : knownDirectivesStep sv d [] e = .ok [] [] := by
        unfold knownDirectivesStep
        unfold kdOK at hok
        split <;> simp_all
      obtain ⟨errs', hr, hiff⟩ := knownDirectives_run sv d rest
      simp only [knownDirectives] at hr
      simp only [hst, hr]
      refine ⟨_, rfl, ?_⟩
      simp only [List.map_nil, List.nil_append, List.mem_cons, forall_eq_or_imp, hok, true_and]
      exact hiff
    · -- the event is reported (nothing has been seen yet)
      have hst : ∃ st' er, knownDirectivesStep sv d [] e = .ok st' er ∧ er ≠ [] := by
        unfold knownDirectivesStep
        unfold kdOK at hok
        split
        · exact ⟨_, _, rfl, by simp⟩
        · rename_i dir dd par loc hp
          rw [hp] at hok
          simp only at hok
          simp only [hok, Bool.false_eq_true, if_false, List.contains_nil]
          exact ⟨_, _, rfl, by simp⟩
        · rename_i h1 h2
          exfalso
          apply hok
          split
          · rename_i hp; exact absurd hp (h1 _ _ _)
          · rename_i hp; exact absurd hp (h2 _ _ _ _)
          · trivial
      obtain ⟨st', er, h1, h2⟩ := hst
      obtain ⟨errs', hr⟩ := knownDirectives_total sv d rest st'
      simp only [knownDirectives] at hr
      simp only [h1, hr]
      refine ⟨_, rfl, ?_⟩
      constructor
      · intro h
        have := (List.append_eq_nil_iff.1 h).1
        cases er with
        | nil => exact absurd rfl h2
        | cons x xs => simp at this
      · intro h
        exact absurd (h e List.mem_cons_self) hok

theorem validate_knownDirectives (s : Schema) (d : QueryDoc) (evs : List Event) (hw : walkDoc s.view d = some evs) :
    validate [knownDirectives] s d = .ok [] ↔ ∀ e ∈ evs, kdOK e := by
  unfold validate
  rw [validateV_ok_iff]
  obtain ⟨errs, hr, hiff⟩ := knownDirectives_run s.view d evs
  have hstart : [knownDirectives].map Rule.start = [({ rule := knownDirectives, st := [] } : Running)] := rfl
  constructor
  · rintro ⟨evs', hw', hrun⟩
    rw [hw] at hw'
    cases hw'
    rw [hstart, hr] at hrun
    injection hrun with hrun
    exact hiff.1 hrun
  · intro h
    exact ⟨evs, hw, by rw [hstart, hr, hiff.2 h]⟩

theorem knownDirectives_iff (s : Schema) (d : QueryDoc) (evs : List Event) (hw : walkDoc s.view d = some evs)
    (hk : ∀ op ∈ d.ops, op.op ∈ parserOpKinds) :
    (∀ e ∈ evs, kdOK e) ↔
      (Spec.directivesAreDefined s d = true ∧ Spec.directivesInValidLocations s d = true) := by
  unfold Spec.directivesAreDefined Spec.directivesInValidLocations
  simp only [List.all_eq_true]
  constructor
  · intro h
    constructor
    · intro dir hdir
      simp only [Spec.allDirectives, List.mem_flatMap] at hdir
      obtain ⟨⟨loc, ds⟩, hls, hd⟩ := hdir
      obtain ⟨e, he, par, hp⟩ := directive_event_complete s d evs hw hk loc ds hls dir hd
      have := h e he
      unfold kdOK at this
      rw [hp] at this
      cases hdd : s.directive? dir.name with
      | none =>
        rw [hdd] at this
        exact absurd this (by simp)
      | some dd => rfl
    · rintro ⟨loc, ds⟩ hls dir hd
      obtain ⟨e, he, par, hp⟩ := directive_event_complete s d evs hw hk loc ds hls dir hd
      have := h e he
      unfold kdOK at this
      rw [hp] at this
      unfold Spec.locationAllowed
      cases hdd : s.directive? dir.name with
      | none => rfl
      | some dd =>
        rw [hdd] at this
        exact this
  · rintro ⟨h1, h2⟩ e he
    unfold kdOK
    split
    · rename_i dir par loc hp
      obtain ⟨hdfn, ds, hls, hd⟩ := directive_event_sound s d evs hw hk e he dir none par loc hp
      have := h1 dir (by simp only [Spec.allDirectives, List.mem_flatMap]; exact ⟨(loc, ds), hls, hd⟩)
      have hview : s.directive? dir.name = none := hdfn.symm
      rw [hview] at this
      simp at this
    · rename_i dir dd par loc hp
      obtain ⟨hdfn, ds, hls, hd⟩ := directive_event_sound s d evs hw hk e he dir (some dd) par loc hp
      have := h2 (loc, ds) hls dir hd
      unfold Spec.locationAllowed at this
      have hview : s.directive? dir.name = some dd := hdfn.symm
      rw [hview] at this
      exact this
    · trivial

end Gql.Validate
