import GqlProofs.ValSpec.Events
/-
  The `operation` events of `walkDoc` are the operations of the document in order, the `fragment`
  events its fragment definitions in order; running one rule on a stream.
-/
namespace Gql.Validate
open Gql

def opOf (e : Event) : Option OperationDef :=
  match e.p with
  | .operation op _ => some op
  | _ => none

def fragOf (e : Event) : Option FragmentDef :=
  match e.p with
  | .fragment f _ => some f
  | _ => none

def opEvents (evs : List Event) : List OperationDef := evs.filterMap opOf
def fragDefEvents (evs : List Event) : List FragmentDef := evs.filterMap fragOf

/-- neither an `operation` nor a `fragment` payload -/
def Payload.inner : Payload → Prop
  | .operation .. => False
  | .fragment .. => False
  | _ => True

theorem inner_selSites (s : SV) (d : QueryDoc) : SelSites s d (fun _ => True) Payload.inner :=
  { value := fun _ _ _ => trivial, directive := fun _ _ _ => trivial, directiveList := fun _ => trivial,
    field := fun _ _ _ => trivial, inline := fun _ _ => trivial, spread := fun _ _ _ => trivial,
    frags := fun _ _ _ _ => trivial }

theorem opEvents_inner {evs : List Event} (h : AllP Payload.inner evs) : opEvents evs = [] := by
  induction evs with
  | nil => rfl
  | cons e rest ih =>
    have he := h e List.mem_cons_self
    have hr : AllP Payload.inner rest := fun x hx => h x (List.mem_cons_of_mem _ hx)
    simp only [opEvents, List.filterMap_cons]
    have : opOf e = none := by
      unfold opOf
      cases hp : e.p <;> simp_all [Payload.inner]
    rw [this]
    exact ih hr

theorem fragDefEvents_inner {evs : List Event} (h : AllP Payload.inner evs) : fragDefEvents evs = [] := by
  induction evs with
  | nil => rfl
  | cons e rest ih =>
    have he := h e List.mem_cons_self
    have hr : AllP Payload.inner rest := fun x hx => h x (List.mem_cons_of_mem _ hx)
    simp only [fragDefEvents, List.filterMap_cons]
    have : fragOf e = none := by
      unfold fragOf
      cases hp : e.p <;> simp_all [Payload.inner]
    rw [this]
    exact ih hr

theorem opEvents_append (a b : List Event) : opEvents (a ++ b) = opEvents a ++ opEvents b := by
  simp [opEvents, List.filterMap_append]

theorem fragDefEvents_append (a b : List Event) : fragDefEvents (a ++ b) = fragDefEvents a ++ fragDefEvents b := by
  simp [fragDefEvents, List.filterMap_append]

theorem walkVarDefsA_inner (s : SV) (cur : Option OperationDef) (ws : WS) :
    ∀ vs : List VarDef, AllP Payload.inner (walkVarDefsA s cur ws vs)
  | [] => AllP.nil
  | v :: rest => by
    simp only [walkVarDefsA]
    exact AllP.cons trivial (walkVarDefsA_inner s cur ws rest)

theorem walkOperation_events (s : SV) (d : QueryDoc) (fuel : Nat) (op : OperationDef) (l : Links)
    (r : Links × List Event) (h : walkOperation s d fuel op l = some r) :
    opEvents r.2 = [op] ∧ fragDefEvents r.2 = [] := by
  unfold walkOperation at h
  simp only at h
  split at h
  · cases h
  · rename_i r4 h4
    injection h with h
    subst h
    have hS := inner_selSites s d
    have hpre : AllP Payload.inner
        (walkVarDefsA s (some op) { visited := [], links := l, used := [] } op.vars ++
          (walkVarDefsB s (some op) op.vars { visited := [], links := l, used := [] }).2 ++
          (walkDirectives s (some op) (opRoot s op.op).1 op.dirs (opRoot s op.op).2
            (walkVarDefsB s (some op) op.vars { visited := [], links := l, used := [] }).1).2 ++ r4.2) :=
      AllP.append (AllP.append (AllP.append (walkVarDefsA_inner s _ _ _) (walkVarDefsB_all hS.toValSites _ _ _))
        (walkDirectives_all hS.toValSites _ _ _ _ _)) (walkLevel_all hS (some op) fuel _ _ _ r4 (fun _ _ => trivial) h4)
    constructor
    · rw [opEvents_append, opEvents_inner hpre]
      rfl
    · rw [fragDefEvents_append, fragDefEvents_inner hpre]
      rfl

theorem walkFragment_events (s : SV) (d : QueryDoc) (fuel : Nat) (f : FragmentDef) (l : Links)
    (r : Links × List Event) (h : walkFragment s d fuel f l = some r) :
    opEvents r.2 = [] ∧ fragDefEvents r.2 = [f] := by
  unfold walkFragment at h
  simp only at h
  split at h
  · cases h
  · rename_i r2 h2
    injection h with h
    subst h
    have hS := inner_selSites s d
    have hpre : AllP Payload.inner
        ((walkDirectives s none (s.type? f.typeCond) f.dirs locFragmentDefinition
          { visited := [], links := l, used := [] }).2 ++ r2.2) :=
      AllP.append (walkDirectives_all hS.toValSites _ _ _ _ _) (walkLevel_all hS none fuel _ _ _ r2 (fun _ _ => trivial) h2)
    constructor
    · rw [opEvents_append, opEvents_inner hpre]
      rfl
    · rw [fragDefEvents_append, fragDefEvents_inner hpre]
      rfl

theorem walkOps_events (s : SV) (d : QueryDoc) (fuel : Nat) :
    ∀ (ops : List OperationDef) (l : Links) (r : Links × List Event), walkOps s d fuel ops l = some r →
      opEvents r.2 = ops ∧ fragDefEvents r.2 = []
  | [], l, r, h => by
    simp only [walkOps] at h
    injection h with h
    subst h
    exact ⟨rfl, rfl⟩
  | op :: rest, l, r, h => by
    unfold walkOps at h
    split at h
    · cases h
    · rename_i r1 h1
      split at h
      · cases h
      · rename_i r2 h2
        injection h with h
        subst h
        have a := walkOperation_events s d fuel op l r1 h1
        have b := walkOps_events s d fuel rest r1.1 r2 h2
        simp [opEvents_append, fragDefEvents_append, a.1, a.2, b.1, b.2]

theorem walkFrags_events (s : SV) (d : QueryDoc) (fuel : Nat) :
    ∀ (fs : List FragmentDef) (l : Links) (r : Links × List Event), walkFrags s d fuel fs l = some r →
      opEvents r.2 = [] ∧ fragDefEvents r.2 = fs
  | [], l, r, h => by
    simp only [walkFrags] at h
    injection h with h
    subst h
    exact ⟨rfl, rfl⟩
  | f :: rest, l, r, h => by
    unfold walkFrags at h
    split at h
    · cases h
    · rename_i r1 h1
      split at h
      · cases h
      · rename_i r2 h2
        injection h with h
        subst h
        have a := walkFragment_events s d fuel f l r1 h1
        have b := walkFrags_events s d fuel rest r1.1 r2 h2
        simp [opEvents_append, fragDefEvents_append, a.1, a.2, b.1, b.2]

/-- the `operation` events of a run are the operations of the document, in order, once each; the
    `fragment` events are its fragment definitions, in order, once each -/
theorem walkDoc_events (s : SV) (d : QueryDoc) (evs : List Event) (h : walkDoc s d = some evs) :
    opEvents evs = d.ops ∧ fragDefEvents evs = d.frags := by
  unfold walkDoc at h
  split at h
  · cases h
  · rename_i r1 h1
    split at h
    · cases h
    · rename_i r2 h2
      injection h with h
      subst h
      have a := walkOps_events s d _ d.ops _ r1 h1
      have b := walkFrags_events s d _ d.frags _ r2 h2
      simp [opEvents_append, fragDefEvents_append, a.1, a.2, b.1, b.2]

/- ---------- one rule on a stream ---------- -/

/-- errors of one stateless rule: the concatenation of its outputs -/
theorem runAll_stateless (s : SV) (d : QueryDoc) (name : Bytes) (f : SV → QueryDoc → Event → List RErr) :
    ∀ evs : List Event, runAll s d [(Rule.stateless name f).start] evs =
      .ok (evs.flatMap fun e => (f s d e).map (RErr.toErr name))
  | [] => rfl
  | e :: es => by
    rw [runAll_single_cons]
    have ih := runAll_stateless s d name f es
    simp only [Running.step, Rule.start, Rule.stateless] at ih ⊢
    rw [ih]
    simp [List.flatMap_cons]

theorem validate_stateless_nil (s : Schema) (d : QueryDoc) (name : Bytes) (f : SV → QueryDoc → Event → List RErr)
    (evs : List Event) (hw : walkDoc s.view d = some evs) :
    validate [Rule.stateless name f] s d = .ok [] ↔ ∀ e ∈ evs, f s.view d e = [] := by
  unfold validate
  rw [validateV_ok_iff]
  constructor
  · rintro ⟨evs', hw', hr⟩
    rw [hw] at hw'
    cases hw'
    have := runAll_stateless s.view d name f evs
    simp only [List.map_cons, List.map_nil] at hr
    rw [this] at hr
    injection hr with hr
    intro e he
    have := List.flatMap_eq_nil_iff.1 hr e he
    simpa using this
  · intro h
    refine ⟨evs, hw, ?_⟩
    simp only [List.map_cons, List.map_nil]
    rw [runAll_stateless]
    congr 1
    apply List.flatMap_eq_nil_iff.2
    intro e he
    simp [h e he]

/-- a rule that leaves its state alone and reports nothing outside the events selected by `keep`
    gives the same result on the filtered stream -/
theorem runAll_single_filter (s : SV) (d : QueryDoc) (rule : Rule) (keep : Event → Bool)
    (hskip : ∀ st e, keep e = false → rule.step s d st e = .ok st []) :
    ∀ (evs : List Event) (st : rule.σ),
      runAll s d [({ rule := rule, st := st } : Running)] evs =
        runAll s d [({ rule := rule, st := st } : Running)] (evs.filter keep)
  | [], st => rfl
  | e :: es, st => by
    cases hk : keep e with
    | false =>
      rw [List.filter_cons_of_neg (by simp [hk]), runAll_single_cons]
      simp only [Running.step, hskip st e hk, List.map_nil, List.nil_append]
      have ih := runAll_single_filter s d rule keep hskip es st
      rw [ih]
      cases runAll s d [({ rule := rule, st := st } : Running)] (es.filter keep) <;> rfl
    | true =>
      rw [List.filter_cons_of_pos (by simp [hk]), runAll_single_cons, runAll_single_cons]
      simp only [Running.step]
      cases hst : rule.step s d st e with
      | panic m => rfl
      | ok st' errs =>
        simp only
        rw [runAll_single_filter s d rule keep hskip es st']

end Gql.Validate
