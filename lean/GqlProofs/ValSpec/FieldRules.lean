import GqlProofs.ValSpec.TypedBridge
import GqlProofs.ValSpec.KnownDirs
/-
  The rules that read `Field.Definition` / `Field.ObjectDefinition` against their specification
  predicates, for well-parented documents (`Spec.wellParented`): FieldsOnCorrectType,
  KnownArgumentNames, ProvidedRequiredArguments.
-/
namespace Gql.Validate
open Gql Gql.Validate.Rules

theorem fieldsOnCorrectType_iff (s : Schema) (d : QueryDoc) (evs : List Event) (hw : walkDoc s.view d = some evs)
    (hwp : Spec.wellParented s d = true) :
    (∀ e ∈ evs, fieldsOnCorrectTypeStep s.view d e = []) ↔ Spec.fieldSelections s d = true := by
  unfold Spec.fieldSelections
  simp only [List.all_eq_true]
  constructor
  · intro h t ht
    obtain ⟨par, sel⟩ := t
    cases sel with
    | spread nm dirs p => rfl
    | inline tc dirs sub p => rfl
    | field al nm args dirs sub p =>
      cases par with
      | none => rfl
      | some q =>
        obtain ⟨e, he, hp⟩ := walk_parent_type_complete s d evs hw hwp _ ht al nm args dirs sub p rfl
        have := h e he
        simp only [Option.bind_some] at hp
        simp only [fieldsOnCorrectTypeStep, hp] at this
        cases hfd : Spec.fieldDefOn q nm with
        | some fd => simp only [hfd, Option.isSome_some]
        | none =>
          rw [hfd] at this
          simp at this
  · intro h e he
    unfold fieldsOnCorrectTypeStep
    split
    · rename_i f parent hp
      obtain ⟨hmem, hdfn⟩ := walk_parent_type s d evs hw hwp e he f (some parent) none hp
      have := h _ hmem
      simp only [Option.bind_some] at hdfn
      simp only at this
      rw [← hdfn] at this
      simp at this
    · rfl

theorem unknownArgs_nil_iff (defs : List ArgDef) (mk : Name → Bytes) (p : Pos) :
    ∀ args : List Argument, unknownArgs defs mk p args = [] ↔
      (args.all fun a => (Spec.argDefByName defs a.name).isSome) = true
  | [] => by simp [unknownArgs]
  | a :: rest => by
    have ih := unknownArgs_nil_iff defs mk p rest
    simp only [unknownArgs, List.all_cons, Bool.and_eq_true]
    have hsame : argDefForName defs a.name = Spec.argDefByName defs a.name := rfl
    cases hd : Spec.argDefByName defs a.name with
    | none => simp [hsame, hd]
    | some ad => simp [hsame, hd, ih]

theorem knownArgumentNames_iff (s : Schema) (d : QueryDoc) (evs : List Event) (hw : walkDoc s.view d = some evs)
    (hwp : Spec.wellParented s d = true) (hk : ∀ op ∈ d.ops, op.op ∈ parserOpKinds) :
    (∀ e ∈ evs, knownArgumentNamesStep s.view d e = []) ↔ Spec.argumentNames s d = true := by
  unfold Spec.argumentNames Spec.argSites
  simp only [List.all_append, Bool.and_eq_true, List.all_eq_true]
  constructor
  · intro h
    constructor
    · intro site hsite
      simp only [Spec.fieldArgSites, List.mem_filterMap] at hsite
      obtain ⟨⟨par, sel⟩, ht, hm⟩ := hsite
      cases sel with
      | spread nm dirs p => cases hm
      | inline tc dirs sub p => cases hm
      | field al nm args dirs sub p =>
        simp only [Option.some.injEq] at hm
        subst hm
        obtain ⟨e, he, hp⟩ := walk_parent_type_complete s d evs hw hwp _ ht al nm args dirs sub p rfl
        have := h e he
        simp only at hp
        cases hfd : par.bind (Spec.fieldDefOn · nm) with
        | none => rfl
        | some fd =>
          simp only [Option.map_some]
          cases par with
          | none => simp at hfd
          | some q =>
            rw [hfd] at hp
            simp only [knownArgumentNamesStep, hp] at this
            exact (unknownArgs_nil_iff _ _ _ _).1 this
    · intro site hsite
      simp only [Spec.directiveArgSites, Spec.allDirectives, List.mem_map, List.mem_flatMap] at hsite
      obtain ⟨dir, ⟨⟨loc, ds⟩, hls, hd⟩, rfl⟩ := hsite
      obtain ⟨e, he, par, hp⟩ := directive_event_complete s d evs hw hk loc ds hls dir hd
      have := h e he
      cases hdd : s.directive? dir.name with
      | none => rfl
      | some dd =>
        rw [hdd] at hp
        simp only [knownArgumentNamesStep, hp] at this
        simp only [Option.map_some]
        exact (unknownArgs_nil_iff _ _ _ _).1 this
  · rintro ⟨h1, h2⟩ e he
    unfold knownArgumentNamesStep
    split
    · rename_i f parent fd hp
      obtain ⟨hmem, hdfn⟩ := walk_parent_type s d evs hw hwp e he f (some parent) (some fd) hp
      apply (unknownArgs_nil_iff _ _ _ _).2
      have := h1 ⟨((some parent).bind (Spec.fieldDefOn · f.name)).map (·.args), f.args⟩ (by
        simp only [Spec.fieldArgSites, List.mem_filterMap]
        exact ⟨_, hmem, rfl⟩)
      rw [← hdfn] at this
      exact this
    · rename_i dir dd par loc hp
      obtain ⟨hdfn, ds, hls, hd⟩ := directive_event_sound s d evs hw hk e he dir (some dd) par loc hp
      apply (unknownArgs_nil_iff _ _ _ _).2
      have := h2 ⟨(s.directive? dir.name).map (·.args), dir.args⟩ (by
        simp only [Spec.directiveArgSites, Spec.allDirectives, List.mem_map, List.mem_flatMap]
        exact ⟨dir, ⟨(loc, ds), hls, hd⟩, rfl⟩)
      rw [← hdfn] at this
      exact this
    · rfl

theorem missingArgs_nil_iff (args : List Argument) (mk : ArgDef → Bytes) (p : Pos) :
    ∀ defs : List ArgDef, missingArgs args mk p defs = [] ↔
      (defs.all fun ad => !(ad.type.nonNull && ad.default.isNone) || args.any (·.name == ad.name)) = true
  | [] => by simp [missingArgs]
  | ad :: rest => by
    have ih := missingArgs_nil_iff args mk p rest
    simp only [missingArgs, List.all_cons, Bool.and_eq_true]
    by_cases hc : (!ad.type.nonNull || ad.default.isSome || args.any (·.name == ad.name)) = true
    · simp only [hc, if_true, ih]
      constructor
      · intro h
        refine ⟨?_, h⟩
        cases h1 : ad.type.nonNull <;> cases h2 : ad.default <;> simp_all
      · exact fun h => h.2
    · simp only [hc, Bool.false_eq_true, if_false]
      constructor
      · intro h; cases h
      · rintro ⟨h, _⟩
        exfalso
        apply hc
        cases h1 : ad.type.nonNull <;> cases h2 : ad.default <;> simp_all

theorem providedRequiredArguments_iff (s : Schema) (d : QueryDoc) (evs : List Event) (hw : walkDoc s.view d = some evs)
    (hwp : Spec.wellParented s d = true) (hk : ∀ op ∈ d.ops, op.op ∈ parserOpKinds) :
    (∀ e ∈ evs, providedRequiredArgumentsStep s.view d e = []) ↔ Spec.requiredArguments s d = true := by
  unfold Spec.requiredArguments Spec.argSites
  simp only [List.all_append, Bool.and_eq_true, List.all_eq_true]
  constructor
  · intro h
    constructor
    · intro site hsite
      simp only [Spec.fieldArgSites, List.mem_filterMap] at hsite
      obtain ⟨⟨par, sel⟩, ht, hm⟩ := hsite
      cases sel with
      | spread nm dirs p => cases hm
      | inline tc dirs sub p => cases hm
      | field al nm args dirs sub p =>
        simp only [Option.some.injEq] at hm
        subst hm
        obtain ⟨e, he, hp⟩ := walk_parent_type_complete s d evs hw hwp _ ht al nm args dirs sub p rfl
        have := h e he
        simp only at hp
        cases hfd : par.bind (Spec.fieldDefOn · nm) with
        | none => rfl
        | some fd =>
          simp only [Option.map_some]
          rw [hfd] at hp
          simp only [providedRequiredArgumentsStep, hp] at this
          exact (missingArgs_nil_iff _ _ _ _).1 this
    · intro site hsite
      simp only [Spec.directiveArgSites, Spec.allDirectives, List.mem_map, List.mem_flatMap] at hsite
      obtain ⟨dir, ⟨⟨loc, ds⟩, hls, hd⟩, rfl⟩ := hsite
      obtain ⟨e, he, par, hp⟩ := directive_event_complete s d evs hw hk loc ds hls dir hd
      have := h e he
      cases hdd : s.directive? dir.name with
      | none => rfl
      | some dd =>
        rw [hdd] at hp
        simp only [providedRequiredArgumentsStep, hp] at this
        simp only [Option.map_some]
        exact (missingArgs_nil_iff _ _ _ _).1 this
  · rintro ⟨h1, h2⟩ e he
    unfold providedRequiredArgumentsStep
    split
    · rename_i f parent fd hp
      obtain ⟨hmem, hdfn⟩ := walk_parent_type s d evs hw hwp e he f parent (some fd) hp
      apply (missingArgs_nil_iff _ _ _ _).2
      have := h1 ⟨(parent.bind (Spec.fieldDefOn · f.name)).map (·.args), f.args⟩ (by
        simp only [Spec.fieldArgSites, List.mem_filterMap]
        exact ⟨_, hmem, rfl⟩)
      rw [← hdfn] at this
      exact this
    · rename_i dir dd par loc hp
      obtain ⟨hdfn, ds, hls, hd⟩ := directive_event_sound s d evs hw hk e he dir (some dd) par loc hp
      apply (missingArgs_nil_iff _ _ _ _).2
      have := h2 ⟨(s.directive? dir.name).map (·.args), dir.args⟩ (by
        simp only [Spec.directiveArgSites, Spec.allDirectives, List.mem_map, List.mem_flatMap]
        exact ⟨dir, ⟨(loc, ds), hls, hd⟩, rfl⟩)
      rw [← hdfn] at this
      exact this
    · rfl

end Gql.Validate
