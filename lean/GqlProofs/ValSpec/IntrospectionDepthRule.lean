import GqlProofs.ValSpec.IntrospectionDepth
import GqlProofs.ValSpec.TypeRules
/-
  MaxIntrospectionDepth: from the algorithmic core (`IntrospectionDepth.lean`) to the one-rule run.

    * (`validate_statelessP_nil`, a `Rule.statelessP` run is `.ok []` iff every step is `.ok []`, is in TypeRules.lean);
    * `mem_roots`: `Spec.introspectionRootsSels` = the sub-selections of the field nodes named
      `__schema` / `__type`;
    * `maxIntrospectionDepth_iff_of_linked`: the equivalence for acyclic documents, from the
      hypothesis `LinkedEvents` (every such field node has an event at whose time all spreads
      reachable from its sub-selection are linked), which `IntrospectionLinks.lean` proves for every run.
-/
namespace Gql.Validate
open Gql Gql.Validate.Rules

/- ---------- the roots ---------- -/

/-- a field name under which the limit is checked -/
def isIntroRoot (nm : Name) : Bool := nm == str "__schema" || nm == str "__type"

theorem isListField_of_root {nm : Name} (h : isIntroRoot nm = true) : isListField nm = false := by
  unfold isIntroRoot at h
  rw [Bool.or_eq_true] at h
  rcases h with h | h <;> (have := eq_of_beq h; subst this; decide)

mutual
  theorem mem_rootsSel (sub : Selections) : ∀ (x : Selection), sub ∈ Spec.introspectionRootsSel x ↔
      ∃ al nm args dirs p, InSel x (.sel (.field al nm args dirs sub p)) ∧ isIntroRoot nm = true
    | .field al0 nm0 args0 dirs0 sub0 p0 => by
      unfold Spec.introspectionRootsSel
      rw [List.mem_append, mem_rootsSels sub sub0]
      constructor
      · rintro (h | ⟨al, nm, args, dirs, p, hi, hr⟩)
        · split at h
          · rename_i hroot
            have : sub = sub0 := by simpa using h
            subst this
            exact ⟨al0, nm0, args0, dirs0, p0, InSel.self _, hroot⟩
          · cases h
        · exact ⟨al, nm, args, dirs, p, InSel.fieldSub al0 nm0 args0 dirs0 sub0 p0 _ hi, hr⟩
      · rintro ⟨al, nm, args, dirs, p, hi, hr⟩
        cases hi with
        | self =>
          left
          have hr' : (nm0 == str "__schema" || nm0 == str "__type") = true := hr
          rw [if_pos hr']
          exact List.mem_singleton.2 rfl
        | fieldSub _ _ _ _ _ _ _ hs => exact Or.inr ⟨al, nm, args, dirs, p, hs, hr⟩
    | .spread nm0 dirs0 p0 => by
      unfold Spec.introspectionRootsSel
      constructor
      · intro h; cases h
      · rintro ⟨al, nm, args, dirs, p, hi, _⟩
        cases hi
    | .inline tc0 dirs0 sub0 p0 => by
      unfold Spec.introspectionRootsSel
      rw [mem_rootsSels sub sub0]
      constructor
      · rintro ⟨al, nm, args, dirs, p, hi, hr⟩
        exact ⟨al, nm, args, dirs, p, InSel.inlineSub tc0 dirs0 sub0 p0 _ hi, hr⟩
      · rintro ⟨al, nm, args, dirs, p, hi, hr⟩
        cases hi with
        | inlineSub _ _ _ _ _ hs => exact ⟨al, nm, args, dirs, p, hs, hr⟩
  theorem mem_rootsSels (sub : Selections) : ∀ (xs : Selections), sub ∈ Spec.introspectionRootsSels xs ↔
      ∃ al nm args dirs p, InSels xs (.sel (.field al nm args dirs sub p)) ∧ isIntroRoot nm = true
    | .nil => by
      unfold Spec.introspectionRootsSels
      constructor
      · intro h; cases h
      · rintro ⟨al, nm, args, dirs, p, hi, _⟩
        cases hi
    | .cons x rest => by
      unfold Spec.introspectionRootsSels
      rw [List.mem_append, mem_rootsSel sub x, mem_rootsSels sub rest]
      constructor
      · rintro (⟨al, nm, args, dirs, p, hi, hr⟩ | ⟨al, nm, args, dirs, p, hi, hr⟩)
        · exact ⟨al, nm, args, dirs, p, InSels.head x rest _ hi, hr⟩
        · exact ⟨al, nm, args, dirs, p, InSels.tail x rest _ hi, hr⟩
      · rintro ⟨al, nm, args, dirs, p, hi, hr⟩
        cases hi with
        | head _ _ _ hx => exact Or.inl ⟨al, nm, args, dirs, p, hx, hr⟩
        | tail _ _ _ hx => exact Or.inr ⟨al, nm, args, dirs, p, hx, hr⟩
end

/-- the specification predicate, over the field nodes written in the document -/
theorem spec_maxIntrospectionDepth_iff (d : QueryDoc) :
    Spec.maxIntrospectionDepth d = true ↔
      ∀ al nm args dirs sub p, InDocSel d (.sel (.field al nm args dirs sub p)) → isIntroRoot nm = true →
        Spec.deepSels d (Spec.deepLevel d (d.frags.length + 1)) sub [] 0 = false := by
  unfold Spec.maxIntrospectionDepth InDocSel
  simp only [List.all_eq_true, List.mem_append, List.mem_flatMap, Bool.not_eq_true']
  constructor
  · intro h al nm args dirs sub p hi hr
    apply h sub
    rcases hi with ⟨op, hop, hi⟩ | ⟨f, hf, hi⟩
    · exact Or.inl ⟨op, hop, (mem_rootsSels sub op.sel).2 ⟨al, nm, args, dirs, p, hi, hr⟩⟩
    · exact Or.inr ⟨f, hf, (mem_rootsSels sub f.sel).2 ⟨al, nm, args, dirs, p, hi, hr⟩⟩
  · intro h sub hs
    rcases hs with ⟨op, hop, hs⟩ | ⟨f, hf, hs⟩
    · obtain ⟨al, nm, args, dirs, p, hi, hr⟩ := (mem_rootsSels sub op.sel).1 hs
      exact h al nm args dirs sub p (Or.inl ⟨op, hop, hi⟩) hr
    · obtain ⟨al, nm, args, dirs, p, hi, hr⟩ := (mem_rootsSels sub f.sel).1 hs
      exact h al nm args dirs sub p (Or.inr ⟨f, hf, hi⟩) hr

/- ---------- one step ---------- -/

/-- the search the rule runs at a root field = the search on its sub-selections from depth 0 -/
theorem introCheck_root (l : Links) (d : QueryDoc) (J : DJump) (al nm : Name) (args : List Argument) (dirs : List Directive)
    (sub : Selections) (p : Pos) (hr : isIntroRoot nm = true) :
    checkDepthSelection l d J [] 0 [] (.field al nm args dirs sub p) = checkDepthSelections l d J [] 0 [] sub := by
  unfold checkDepthSelection
  rw [isListField_of_root hr]
  simp

/-- the step at a `field` event of a root field, in terms of the search on the sub-selections -/
theorem introStep_field (s : SV) (d : QueryDoc) (e : Event) (f : FieldNode) (par : Option Definition) (dfn : Option FieldDef)
    (hp : e.p = .field f par dfn) (hr : isIntroRoot f.name = true) :
    maxIntrospectionDepthStep s d e = .ok [] ↔
      ∃ cl, checkDepthSelections e.links d (depthLevel e.links d (d.frags.length + 1)) [] 0 [] f.sel = some (false, cl) := by
  unfold maxIntrospectionDepthStep
  rw [hp]
  simp only
  have hr' : (f.name == str "__schema" || f.name == str "__type") = true := hr
  rw [if_pos hr', introCheck_root _ _ _ _ _ _ _ _ _ hr]
  cases hc : checkDepthSelections e.links d (depthLevel e.links d (d.frags.length + 1)) [] 0 [] f.sel with
  | none => simp
  | some r =>
    obtain ⟨b, cl⟩ := r
    cases b with
    | true => simp [errAt]
    | false => simp

/-- the step is silent on everything else -/
theorem introStep_other (s : SV) (d : QueryDoc) (e : Event)
    (h : ∀ f par dfn, e.p = .field f par dfn → isIntroRoot f.name = false) : maxIntrospectionDepthStep s d e = .ok [] := by
  unfold maxIntrospectionDepthStep
  split
  · rename_i f par dfn hp
    have := h f par dfn hp
    have hr' : (f.name == str "__schema" || f.name == str "__type") = false := this
    rw [hr']
    simp
  · rfl

/-- every field node named `__schema` / `__type` has an event at whose time every spread reachable
    from its sub-selections is linked -/
def LinkedEvents (d : QueryDoc) (evs : List Event) : Prop :=
  ∀ al nm args dirs sub p, InDocSel d (.sel (.field al nm args dirs sub p)) → isIntroRoot nm = true →
    ∃ e ∈ evs, (∃ par dfn, e.p = .field ⟨al, nm, args, dirs, sub, p⟩ par dfn) ∧ ReachLinked e.links d (.many sub)

/-- the search never runs out of fuel -/
theorem introCheck_some (l : Links) (d : QueryDoc) (sub : Selections) :
    ∃ r, checkDepthSelections l d (depthLevel l d (d.frags.length + 1)) [] 0 [] sub = some r :=
  checkDepthSelections_ok l d _ (d.frags.length + 1) (depthLevel_ok l d _) sub [] 0 [] (by rw [unvisited_nil]; omega)

/-- the rule is silent iff the specification predicate holds: for acyclic documents, given `LinkedEvents` -/
theorem maxIntrospectionDepth_iff_of_linked (s : Schema) (d : QueryDoc) (evs : List Event)
    (hw : walkDoc s.view d = some evs) (hc : Spec.noFragmentCycles d = true) (hl : LinkedEvents d evs) :
    (∀ e ∈ evs, maxIntrospectionDepthStep s.view d e = .ok []) ↔ Spec.maxIntrospectionDepth d = true := by
  have hac := noSelfReach_of_spec hc
  rw [spec_maxIntrospectionDepth_iff]
  constructor
  · intro h al nm args dirs sub p hi hr
    obtain ⟨e, he, ⟨par, dfn, hp⟩, hlk⟩ := hl al nm args dirs sub p hi hr
    obtain ⟨cl, hcheck⟩ := (introStep_field s.view d e _ par dfn hp hr).1 (h e he)
    have hnd := (checkDepthSelections_complete e.links d hac _ (depthLevel_complete e.links d hac _) sub [] 0 [] _
      hlk (noCut_nil d _) (fun _ _ hm => by cases hm) hcheck).2 rfl
    cases hs : Spec.deepSels d (Spec.deepLevel d (d.frags.length + 1)) sub [] 0 with
    | false => rfl
    | true => exact absurd ((specDeep_iff hac sub).1 hs) hnd
  · intro h e he
    by_cases hroot : ∃ f par dfn, e.p = .field f par dfn ∧ isIntroRoot f.name = true
    · obtain ⟨f, par, dfn, hp, hr⟩ := hroot
      rw [introStep_field s.view d e f par dfn hp hr]
      have hcov := walkDoc_cov s.view d evs hw e he
      rw [hp] at hcov
      have hi := (inDoc_sel_iff s.view d _).1 hcov
      have hspec := h f.alias f.name f.args f.dirs f.sel f.pos hi hr
      obtain ⟨r, hr'⟩ := introCheck_some e.links d f.sel
      obtain ⟨b, cl⟩ := r
      cases b with
      | false => exact ⟨cl, hr'⟩
      | true =>
        have hd := checkDepthSelections_sound e.links d _ (depthLevel_sound e.links d _) f.sel [] 0 [] cl hr'
        rw [(specDeep_iff hac f.sel).2 hd] at hspec
        cases hspec
    · apply introStep_other
      intro f par dfn hp
      cases hr : isIntroRoot f.name with
      | false => rfl
      | true => exact absurd ⟨f, par, dfn, hp, hr⟩ hroot

/- ---------- without any hypothesis: what the rule reports, the specification's search finds ---------- -/

/-- the model's jump answers `true` only where the specification's jump does (`m`: levels the
    specification still has) -/
def DJumpSpec (d : QueryDoc) (m : Nat) (J : DJump) (J' : Spec.DepthJump) : Prop :=
  ∀ visited depth cl sels cl', unvisited d visited + 1 ≤ m → J visited depth cl sels = some (true, cl') →
    J' sels visited depth = true

mutual
  theorem checkDepthSelection_spec (l : Links) (d : QueryDoc) (m : Nat) (J : DJump) (J' : Spec.DepthJump)
      (hJ : DJumpSpec d m J J') :
      ∀ (x : Selection) (visited : List Name) (depth : Nat) (cl cl' : Cleared), unvisited d visited ≤ m →
        checkDepthSelection l d J visited depth cl x = some (true, cl') → Spec.deepSel d J' x visited depth = true
    | .field al nm args dirs sub p, visited, depth, cl, cl', hm, h => by
      unfold checkDepthSelection at h
      unfold Spec.deepSel
      simp only [Spec.maxListsDepth, Bool.or_eq_true]
      cases hl : Spec.isIntrospectionListField nm with
      | true =>
        have hl' : isListField nm = true := hl
        simp only [if_true]
        rw [if_pos hl'] at h
        split at h
        · rename_i hk
          exact Or.inl (decide_eq_true hk)
        · exact Or.inr (checkDepthSelections_spec l d m J J' hJ sub visited (depth + 1) cl cl' hm h)
      | false =>
        have hl' : ¬ isListField nm = true := by
          intro hx
          have : Spec.isIntrospectionListField nm = true := hx
          rw [hl] at this
          cases this
        simp only [Bool.false_eq_true, if_false]
        rw [if_neg hl'] at h
        exact Or.inr (checkDepthSelections_spec l d m J J' hJ sub visited depth cl cl' hm h)
    | .spread nm dirs p, visited, depth, cl, cl', hm, h => by
      unfold checkDepthSelection at h
      unfold Spec.deepSel
      split at h
      · cases h
      · rename_i hc
        rw [if_neg hc]
        split at h
        · cases h
        · cases hs : l.spreadDef d nm p with
          | none => rw [hs] at h; cases h
          | some f =>
            rw [hs] at h
            simp only at h
            have hf := spreadDef_some hs
            rw [fragByName_eq, hf]
            simp only
            cases hj : J (nm :: visited) depth cl f.sel with
            | none => rw [hj] at h; cases h
            | some r =>
              obtain ⟨b, cl1⟩ := r
              rw [hj] at h
              cases b with
              | false => cases h
              | true =>
                have hlt := unvisited_lt d visited f (fragForName_mem hf)
                  (by rw [fragForName_name hf]; simpa using hc)
                rw [fragForName_name hf] at hlt
                exact hJ _ _ _ _ _ (by omega) hj
    | .inline tc dirs sub p, visited, depth, cl, cl', hm, h => by
      unfold checkDepthSelection at h
      unfold Spec.deepSel
      exact checkDepthSelections_spec l d m J J' hJ sub visited depth cl cl' hm h
  theorem checkDepthSelections_spec (l : Links) (d : QueryDoc) (m : Nat) (J : DJump) (J' : Spec.DepthJump)
      (hJ : DJumpSpec d m J J') :
      ∀ (xs : Selections) (visited : List Name) (depth : Nat) (cl cl' : Cleared), unvisited d visited ≤ m →
        checkDepthSelections l d J visited depth cl xs = some (true, cl') → Spec.deepSels d J' xs visited depth = true
    | .nil, _, _, _, _, _, h => by simp [checkDepthSelections] at h
    | .cons x rest, visited, depth, cl, cl', hm, h => by
      unfold checkDepthSelections at h
      unfold Spec.deepSels
      rw [Bool.or_eq_true]
      cases hx : checkDepthSelection l d J visited depth cl x with
      | none => rw [hx] at h; cases h
      | some r =>
        obtain ⟨b, cl1⟩ := r
        rw [hx] at h
        cases b with
        | true => exact Or.inl (checkDepthSelection_spec l d m J J' hJ x visited depth cl cl1 hm hx)
        | false => exact Or.inr (checkDepthSelections_spec l d m J J' hJ rest visited depth cl1 cl' hm h)
end

theorem depthLevel_spec (l : Links) (d : QueryDoc) : ∀ n m, DJumpSpec d m (depthLevel l d n) (Spec.deepLevel d m)
  | 0, _ => by intro _ _ _ _ _ _ h; simp [depthLevel] at h
  | n + 1, m => by
    intro visited depth cl sels cl' hm h
    cases m with
    | zero => omega
    | succ m' =>
      simp only [depthLevel] at h
      simp only [Spec.deepLevel]
      exact checkDepthSelections_spec l d m' _ _ (depthLevel_spec l d n m') sels visited depth cl cl' (by omega) h

/-- whatever the document: if the specification predicate holds, the rule is silent on every event
    (the chain cut is the specification's; the memo and unlinked spreads only lose paths) -/
theorem maxIntrospectionDepth_of_spec (s : Schema) (d : QueryDoc) (evs : List Event)
    (hw : walkDoc s.view d = some evs) (h : Spec.maxIntrospectionDepth d = true) :
    ∀ e ∈ evs, maxIntrospectionDepthStep s.view d e = .ok [] := by
  rw [spec_maxIntrospectionDepth_iff] at h
  intro e he
  by_cases hroot : ∃ f par dfn, e.p = .field f par dfn ∧ isIntroRoot f.name = true
  · obtain ⟨f, par, dfn, hp, hr⟩ := hroot
    rw [introStep_field s.view d e f par dfn hp hr]
    have hcov := walkDoc_cov s.view d evs hw e he
    rw [hp] at hcov
    have hi := (inDoc_sel_iff s.view d _).1 hcov
    have hspec := h f.alias f.name f.args f.dirs f.sel f.pos hi hr
    obtain ⟨r, hr'⟩ := introCheck_some e.links d f.sel
    obtain ⟨b, cl⟩ := r
    cases b with
    | false => exact ⟨cl, hr'⟩
    | true =>
      have := checkDepthSelections_spec e.links d (d.frags.length + 1) _ _
        (depthLevel_spec e.links d (d.frags.length + 1) (d.frags.length + 1)) f.sel [] 0 [] cl
        (by rw [unvisited_nil]; omega) hr'
      rw [this] at hspec
      cases hspec
  · apply introStep_other
    intro f par dfn hp
    cases hr : isIntroRoot f.name with
    | false => rfl
    | true => exact absurd ⟨f, par, dfn, hp, hr⟩ hroot

end Gql.Validate
