import GqlProofs.ValSpec.ValBlocks
/-
  UniqueInputFieldNames against `Spec.inputObjectFieldUniqueness` (§5.6.3).

  The rule looks at every `value` event of kind object; by `value_event_sound/complete`
  (`ValBlocks.lean`) these are the object literals among `subValues v` for `v` a value written in
  the document, where `subValues` descends as the walker does: through the children of LIST and
  OBJECT literals only.  The specification predicate `Spec.objectLiteralsUnique` descends through the
  children of a value of ANY kind.  The two agree on the values the parser builds (only list and
  object literals have children): `shapedValue`.
-/
namespace Gql.Validate
open Gql Gql.Validate.Rules

/-- the rule's test on one value node -/
def objOk (v : Value) : Prop := v.kind = .object → Spec.distinct (Spec.childNames v.children) = true

theorem uniqueInputFieldNamesStep_value (sv : SV) (d : QueryDoc) (e : Event) (v : Value) (exp : Option GType)
    (dfn : Option Definition) (hp : e.p = .value v exp dfn) :
    uniqueInputFieldNamesStep sv d e = [] ↔ objOk v := by
  simp only [uniqueInputFieldNamesStep, hp, objOk]
  by_cases hk : v.kind = .object
  · simp [hk, dupInputFields_nil_iff, freshFrom_nil, distinct_iff_nodup]
  · simp [hk]

mutual
  /-- only list and object literals have children (what the parser builds) -/
  def shapedValue : Value → Bool
    | .mk k _ ch _ =>
      match k with
      | .object => shapedChildren ch
      | .list => shapedChildren ch
      | _ => match ch with
        | .nil => true
        | .cons .. => false
  def shapedChildren : Children → Bool
    | .nil => true
    | .cons _ v _ rest => shapedValue v && shapedChildren rest
end

mutual
  /-- the specification predicate implies the rule's test on every node the walker visits -/
  theorem objOk_of_unique : ∀ v : Value, Spec.objectLiteralsUnique v = true → ∀ w ∈ subValues v, objOk w
    | .mk k raw ch p, h, w, hw => by
      unfold Spec.objectLiteralsUnique at h
      simp only [Bool.and_eq_true, Bool.or_eq_true, bne_iff_ne, ne_eq] at h
      unfold subValues at hw
      rcases List.mem_append.1 hw with hw | hw
      · cases k <;> simp only at hw <;> first
          | exact objOk_of_uniqueCh ch h.2 w hw
          | cases hw
      · rw [List.mem_singleton.1 hw]
        intro hk
        simp only [Value.kind] at hk
        rcases h.1 with h1 | h1
        · exact absurd hk h1
        · exact h1
  theorem objOk_of_uniqueCh : ∀ ch : Children, Spec.childrenLiteralsUnique ch = true → ∀ w ∈ childValues ch, objOk w
    | .nil, _, w, hw => by simp [childValues] at hw
    | .cons n v p rest, h, w, hw => by
      unfold Spec.childrenLiteralsUnique at h
      simp only [Bool.and_eq_true] at h
      unfold childValues at hw
      rcases List.mem_append.1 hw with hw | hw
      · exact objOk_of_unique v h.1 w hw
      · exact objOk_of_uniqueCh rest h.2 w hw
end

mutual
  /-- on a value of the parser's shape the rule's test on every visited node gives the
      specification predicate -/
  theorem unique_of_objOk : ∀ v : Value, shapedValue v = true → (∀ w ∈ subValues v, objOk w) →
      Spec.objectLiteralsUnique v = true
    | .mk k raw ch p, hs, h => by
      unfold Spec.objectLiteralsUnique
      simp only [Bool.and_eq_true, Bool.or_eq_true, bne_iff_ne, ne_eq]
      have hself : objOk (.mk k raw ch p) := h _ (self_mem_subValues _)
      refine ⟨?_, ?_⟩
      · by_cases hk : k = .object
        · exact Or.inr (hself hk)
        · exact Or.inl hk
      · unfold shapedValue at hs
        unfold subValues at h
        cases k <;> simp only at hs h
        case object => exact unique_of_objOkCh ch hs (fun w hw => h w (List.mem_append_left _ hw))
        case list => exact unique_of_objOkCh ch hs (fun w hw => h w (List.mem_append_left _ hw))
        all_goals
          cases ch with
          | nil => rfl
          | cons => cases hs
  theorem unique_of_objOkCh : ∀ ch : Children, shapedChildren ch = true → (∀ w ∈ childValues ch, objOk w) →
      Spec.childrenLiteralsUnique ch = true
    | .nil, _, _ => rfl
    | .cons n v p rest, hs, h => by
      unfold shapedChildren at hs
      simp only [Bool.and_eq_true] at hs
      unfold childValues at h
      unfold Spec.childrenLiteralsUnique
      simp only [Bool.and_eq_true]
      exact ⟨unique_of_objOk v hs.1 (fun w hw => h w (List.mem_append_left _ hw)),
        unique_of_objOkCh rest hs.2 (fun w hw => h w (List.mem_append_right _ hw))⟩
end

/-- every value written in the document has the parser's shape -/
def valuesShaped (s : Schema) (d : QueryDoc) : Bool := (Spec.allValues s d).all shapedValue

/-- the rule is silent iff every object literal the walker visits has distinct field names -/
theorem uniqueInputFieldNames_walked (s : Schema) (d : QueryDoc) (evs : List Event) (hw : walkDoc s.view d = some evs) :
    (∀ e ∈ evs, uniqueInputFieldNamesStep s.view d e = []) ↔ ∀ v ∈ Spec.allValues s d, ∀ w ∈ subValues v, objOk w := by
  constructor
  · intro h v hv w hsub
    obtain ⟨e, he, exp, dfn, hp⟩ := value_event_complete s d evs hw v hv w hsub
    exact (uniqueInputFieldNamesStep_value s.view d e w exp dfn hp).1 (h e he)
  · intro h e he
    cases hp : e.p with
    | value w exp dfn =>
      obtain ⟨v, hv, hsub⟩ := value_event_sound s d evs hw e he w exp dfn hp
      exact (uniqueInputFieldNamesStep_value s.view d e w exp dfn hp).2 (h v hv w hsub)
    | _ => simp [uniqueInputFieldNamesStep, hp]

/-- the specification predicate makes the rule silent (no hypothesis on the shape of values) -/
theorem uniqueInputFieldNames_sound (s : Schema) (d : QueryDoc) (evs : List Event) (hw : walkDoc s.view d = some evs) (h : Spec.inputObjectFieldUniqueness s d = true) :
    ∀ e ∈ evs, uniqueInputFieldNamesStep s.view d e = [] := by
  rw [uniqueInputFieldNames_walked s d evs hw]
  unfold Spec.inputObjectFieldUniqueness at h
  simp only [List.all_eq_true] at h
  exact fun v hv => objOk_of_unique v (h v hv)

theorem uniqueInputFieldNames_iff (s : Schema) (d : QueryDoc) (evs : List Event) (hw : walkDoc s.view d = some evs) (hsh : valuesShaped s d = true) :
    (∀ e ∈ evs, uniqueInputFieldNamesStep s.view d e = []) ↔ Spec.inputObjectFieldUniqueness s d = true := by
  constructor
  · intro h
    rw [uniqueInputFieldNames_walked s d evs hw] at h
    unfold Spec.inputObjectFieldUniqueness
    simp only [List.all_eq_true]
    unfold valuesShaped at hsh
    simp only [List.all_eq_true] at hsh
    exact fun v hv => unique_of_objOk v (hsh v hv) (h v hv)
  · exact uniqueInputFieldNames_sound s d evs hw

end Gql.Validate
