import GqlProofs.ValSpec.VarRules
import GqlProofs.ValSpec.VarPositionTypes
import GqlProofs.ValSpec.VarPositionValues
import GqlModel.Schema.Spec
/-
  VariablesInAllowedPosition (§5.8.5).

  The variable value events fired while `CurrentOperation = op`, WITH their `ExpectedType`, are
  exactly the usages the specification finds in the scope of `op` (`Spec.scopeUses`) with their
  location types; the `VariableDefinition` link of the event is the definition of that name in the
  operation; and the test of the rule on one usage is `IsVariableUsageAllowed` with
  `hasLocationDefaultValue = false`.

  KNOWN FINDING (recorded, not repaired here): the rule never looks at the default value of the
  LOCATION (`hasLocationDefaultValue`, §5.8.5): `type Q { f(r: Int! = 5): Int }`,
  `query($v: Int) { f(r: $v) }` is rejected by the rule although the specification allows it.  The
  rule-exact characterisation is therefore `usagesAllowedIgnoringLocationDefault`; the
  specification predicate `Spec.allVariableUsagesAllowed` is implied by a silent rule, and is
  equivalent to it when no usage that would need it sits at a location with a default value.

  Hypotheses:
   * `Spec.wellParented s d`       the walker's field definitions are the declarative ones;
   * `Spec.fragmentNameUniqueness d`  `Spec.opFragments` picks by name and position, the walker the first of the name;
   * `constDefaults d`             the walker judges variables inside default values, the specification does not look there;
   * `inputPositionsPlain s`       below an object literal the walker reads `Definition.Fields` of the expected
                                   definition whatever its kind, the specification only of an input object;
   * `variableTypesNamed d`        `Type.IsCompatible` compares `NamedType` strings, and a list type has the empty one.
-/
namespace Gql.Validate
open Gql Gql.Validate.Rules

/-- the rule-exact predicate: §5.8.5 with `hasLocationDefaultValue` taken to be false everywhere -/
def usagesAllowedIgnoringLocationDefault (s : Schema) (d : QueryDoc) : Bool :=
  d.ops.all fun op => (Spec.scopeUses s d op).all fun u =>
    match Spec.varDefByName op u.name, u.loc with
    | some v, some lt => Spec.isVariableUsageAllowed v lt false
    | _, _ => true

/-- no variable usage in scope sits at a location (argument / input field) that has a default value -/
def noUsageAtDefaultedLocation (s : Schema) (d : QueryDoc) : Bool :=
  d.ops.all fun op => (Spec.scopeUses s d op).all fun u => !u.locDefault

/-- no variable is declared with the named type whose name is empty (the parser never produces it) -/
def variableTypesNamed (d : QueryDoc) : Bool :=
  d.ops.all fun op => op.vars.all fun v => v.type.name != []

theorem variableTypesNamed_of_exist (s : Schema) (d : QueryDoc) (hE : s.type? [] = none)
    (h : Spec.variableTypesExist s d = true) : variableTypesNamed d = true := by
  simp only [Spec.variableTypesExist, variableTypesNamed, List.all_eq_true, bne_iff_ne, ne_eq] at h ⊢
  intro op hop v hv hn
  have := h op hop v hv
  rw [hn, hE] at this
  cases this

/-- `inputPositionsPlain` holds for a closed schema whose scalars and enums carry no fields -/
theorem inputPositionsPlain_of_closed (s : Schema) (hc : Gql.Spec.Closed s)
    (hleaf : ∀ p ∈ s.types, p.2.kind = .scalar ∨ p.2.kind = .enum → p.2.fields = []) :
    inputPositionsPlain s = true := by
  have key : ∀ n, Gql.Spec.typeIs s n Gql.Spec.isInputKind = true → plainName s n = true := by
    intro n h
    unfold Gql.Spec.typeIs at h
    unfold plainName
    change (match s.types.lookup n with
      | some dd => dd.kind == .inputObject || dd.fields.isEmpty
      | none => true) = true
    cases hl : s.types.lookup n with
    | none => rfl
    | some dd =>
      rw [hl] at h
      simp only at h ⊢
      have hm := hleaf (n, dd) (lookup_mem_vp hl)
      cases hk : dd.kind <;> simp_all [Gql.Spec.isInputKind]
  simp only [inputPositionsPlain, Bool.and_eq_true, List.all_eq_true, Bool.or_eq_true, bne_iff_ne, ne_eq]
  refine ⟨fun p hp f hf => ⟨fun a ha => key _ (hc.argTypes p hp f hf a ha), ?_⟩,
    fun p hp a ha => key _ (hc.directiveArgTypes p hp a ha)⟩
  by_cases hk : p.2.kind = .inputObject
  · refine Or.inr (key _ ?_)
    have := hc.fieldTypes p hp f hf
    rw [hk] at this
    exact this
  · exact Or.inl hk

/- ---------- the usages of a selection set, node by node ---------- -/

/-- the usages written AT a typed node: in its arguments (typed with the field's argument
    definitions) and in its directives -/
def nodeUses (s : Schema) (t : Spec.TSel) : List Spec.VarUse :=
  match t.sel with
  | .field _ nm args dirs _ _ =>
    Spec.usesInArgs s ((t.parent.bind (Spec.fieldDefOn · nm)).map (·.args)) args ++ Spec.usesInDirs s dirs
  | .spread _ dirs _ => Spec.usesInDirs s dirs
  | .inline _ dirs _ _ => Spec.usesInDirs s dirs

theorem usesInDirs_sub_nodeUses (s : Schema) (t : Spec.TSel) {u : Spec.VarUse}
    (h : u ∈ Spec.usesInDirs s (Spec.selDirs t.sel)) : u ∈ nodeUses s t := by
  obtain ⟨p, y⟩ := t
  cases y with
  | field al nm args dirs sub q => exact List.mem_append_right _ h
  | spread nm dirs q => exact h
  | inline tc dirs sub q => exact h

mutual
  theorem mem_usesInSel_typed (s : Schema) (u : Spec.VarUse) : ∀ (sel : Selection) (parent : Option Definition),
      u ∈ Spec.usesInSel s parent sel ↔ ∃ t ∈ Spec.typedSel s parent sel, u ∈ nodeUses s t
    | .field al nm args dirs sub p, parent => by
      simp only [Spec.usesInSel, Spec.typedSel, List.mem_append, List.mem_cons]
      rw [mem_usesInSels_typed s u sub]
      constructor
      · rintro ((h | h) | ⟨t, ht, hu⟩)
        · exact ⟨_, Or.inl rfl, List.mem_append_left _ h⟩
        · exact ⟨_, Or.inl rfl, List.mem_append_right _ h⟩
        · exact ⟨t, Or.inr ht, hu⟩
      · rintro ⟨t, rfl | ht, hu⟩
        · exact Or.inl (List.mem_append.1 hu)
        · exact Or.inr ⟨t, ht, hu⟩
    | .spread nm dirs p, parent => by
      simp only [Spec.usesInSel, Spec.typedSel, List.mem_singleton]
      constructor
      · intro h
        exact ⟨_, rfl, h⟩
      · rintro ⟨t, rfl, hu⟩
        exact hu
    | .inline tc dirs sub p, parent => by
      simp only [Spec.usesInSel, Spec.typedSel, List.mem_append, List.mem_cons]
      rw [mem_usesInSels_typed s u sub]
      constructor
      · rintro (h | ⟨t, ht, hu⟩)
        · exact ⟨_, Or.inl rfl, h⟩
        · exact ⟨t, Or.inr ht, hu⟩
      · rintro ⟨t, rfl | ht, hu⟩
        · exact Or.inl hu
        · exact Or.inr ⟨t, ht, hu⟩
  theorem mem_usesInSels_typed (s : Schema) (u : Spec.VarUse) : ∀ (sels : Selections) (parent : Option Definition),
      u ∈ Spec.usesInSels s parent sels ↔ ∃ t ∈ Spec.typedSels s parent sels, u ∈ nodeUses s t
    | .nil, parent => by simp [Spec.usesInSels, Spec.typedSels]
    | .cons x rest, parent => by
      simp only [Spec.usesInSels, Spec.typedSels, List.mem_append]
      rw [mem_usesInSel_typed s u x, mem_usesInSels_typed s u rest]
      constructor
      · rintro (⟨t, ht, hu⟩ | ⟨t, ht, hu⟩)
        · exact ⟨t, Or.inl ht, hu⟩
        · exact ⟨t, Or.inr ht, hu⟩
      · rintro ⟨t, ht | ht, hu⟩
        · exact Or.inl ⟨t, ht, hu⟩
        · exact Or.inr ⟨t, ht, hu⟩
end

theorem mem_scopeUses_iff (s : Schema) (d : QueryDoc) (op : OperationDef) (u : Spec.VarUse) :
    u ∈ Spec.scopeUses s d op ↔
      (∃ v ∈ op.vars, u ∈ Spec.usesInDirs s v.dirs) ∨ u ∈ Spec.usesInDirs s op.dirs ∨
      (∃ t ∈ Spec.typedSels s (Spec.rootDef s op.op) op.sel, u ∈ nodeUses s t) ∨
      ∃ f ∈ Spec.opFragments d op, u ∈ Spec.usesInDirs s f.dirs ∨
        ∃ t ∈ Spec.typedSels s (s.type? f.typeCond) f.sel, u ∈ nodeUses s t := by
  simp only [Spec.scopeUses, Spec.usesInOperation, Spec.usesInFragment, List.mem_append, List.mem_flatMap,
    mem_usesInSels_typed]
  constructor
  · rintro (((h | h) | h) | h)
    · exact Or.inl h
    · exact Or.inr (Or.inl h)
    · exact Or.inr (Or.inr (Or.inl h))
    · exact Or.inr (Or.inr (Or.inr h))
  · rintro (h | h | h | h)
    · exact Or.inl (Or.inl (Or.inl h))
    · exact Or.inl (Or.inl (Or.inr h))
    · exact Or.inl (Or.inr h)
    · exact Or.inr h

/- ---------- the parents of a typed walk are definitions of the schema ---------- -/

/-- `p` is absent or a definition stored in the schema -/
def Ranged (s : Schema) (p : Option Definition) : Prop := ∀ pd, p = some pd → ∃ n, (n, pd) ∈ s.types

theorem ranged_type? (s : Schema) (n : Name) : Ranged s (s.type? n) :=
  fun _ h => ⟨n, type?_mem h⟩

theorem ranged_bind (s : Schema) (o : Option Name) : Ranged s (o.bind s.type?) := by
  cases o with
  | none => intro _ h; cases h
  | some n => exact ranged_type? s n

theorem ranged_fieldType (s : Schema) (p : Option Definition) (nm : Name) : Ranged s (Spec.fieldType s p nm) := by
  unfold Spec.fieldType
  cases p.bind (Spec.fieldDefOn · nm) with
  | none => intro _ h; cases h
  | some fd => exact ranged_type? s _

theorem ranged_inlineType (s : Schema) (p : Option Definition) (tc : Name) (hp : Ranged s p) :
    Ranged s (Spec.inlineType s p tc) := by
  unfold Spec.inlineType
  split
  · exact hp
  · exact ranged_type? s _

mutual
  theorem typedSel_ranged (s : Schema) : ∀ (sel : Selection) (parent : Option Definition), Ranged s parent →
      ∀ t ∈ Spec.typedSel s parent sel, Ranged s t.parent
    | .field al nm args dirs sub p, parent, hp, t, ht => by
      simp only [Spec.typedSel, List.mem_cons] at ht
      rcases ht with rfl | ht
      · exact hp
      · exact typedSels_ranged s sub _ (ranged_fieldType s parent nm) t ht
    | .spread nm dirs p, parent, hp, t, ht => by
      simp only [Spec.typedSel, List.mem_singleton] at ht
      subst ht
      exact hp
    | .inline tc dirs sub p, parent, hp, t, ht => by
      simp only [Spec.typedSel, List.mem_cons] at ht
      rcases ht with rfl | ht
      · exact hp
      · exact typedSels_ranged s sub _ (ranged_inlineType s parent tc hp) t ht
  theorem typedSels_ranged (s : Schema) : ∀ (sels : Selections) (parent : Option Definition), Ranged s parent →
      ∀ t ∈ Spec.typedSels s parent sels, Ranged s t.parent
    | .nil, parent, hp, t, ht => by simp [Spec.typedSels] at ht
    | .cons x rest, parent, hp, t, ht => by
      simp only [Spec.typedSels, List.mem_append] at ht
      rcases ht with ht | ht
      · exact typedSel_ranged s x parent hp t ht
      · exact typedSels_ranged s rest parent hp t ht
end

theorem ranged_rootDef (s : Schema) (op : Operation) : Ranged s (Spec.rootDef s op) := ranged_bind s _

/-- the argument definitions of a field on a stored definition have plain types -/
theorem plain_fieldDefs (s : Schema) (hs : inputPositionsPlain s = true) (p : Option Definition) (hp : Ranged s p)
    (nm : Name) : ∀ l, (p.bind (Spec.fieldDefOn · nm)).map (·.args) = some l → ∀ a ∈ l, plainName s a.type.name = true := by
  intro l hl a ha
  cases p with
  | none => cases hl
  | some pd =>
    obtain ⟨n, hn⟩ := hp pd rfl
    simp only [Option.bind_some, Spec.fieldDefOn] at hl
    split at hl
    · split at hl
      · simp only [Option.map_some, Option.some.injEq] at hl
        subst hl
        cases ha
      · cases hl
    · split at hl
      · cases hf : pd.fields.find? (·.name == nm) with
        | none => simp [hf] at hl
        | some fd =>
          simp only [hf, Option.map_some, Option.some.injEq] at hl
          subst hl
          exact plain_fieldArg s hs hn (List.mem_of_find?_eq_some hf) ha
      · cases hl

theorem plain_directiveDefs (s : Schema) (hs : inputPositionsPlain s = true) (n : Name) :
    ∀ l, (s.directive? n).map (·.args) = some l → ∀ a ∈ l, plainName s a.type.name = true := by
  intro l hl a ha
  cases hd : s.directive? n with
  | none => simp [hd] at hl
  | some dd =>
    simp only [hd, Option.map_some, Option.some.injEq] at hl
    subst hl
    exact plain_directiveArg s hs (directive?_mem hd) ha

/- ---------- events and keys ---------- -/

/-- a variable value event with key `k` (name, `ExpectedType`) fired with `CurrentOperation = op` -/
def WalkVarKey (evs : List Event) (op : OperationDef) (k : Name × Option GType) : Prop :=
  ∃ e ∈ evs, e.cur = some op ∧ ∃ ch p dfn, e.p = .value (.mk .variable k.1 ch p) k.2 dfn

theorem key_of_args_event {s : SV} {cur : Option OperationDef} {defs : Option (List ArgDef)}
    {args : List Argument} {ws : WS} {e : Event} (he : e ∈ (walkArgs s cur defs args ws).2) {x : Name}
    {ch : Children} {p : Pos} {exp : Option GType} {dfn : Option Definition}
    (hp : e.p = .value (.mk .variable x ch p) exp dfn) :
    (x, exp) ∈ (argValSites s defs args).filterMap siteVar := by
  obtain ⟨t, ht, hp'⟩ := walkArgs_sound he
  rw [hp] at hp'
  injection hp' with h1 h2 h3
  rw [List.mem_filterMap]
  refine ⟨t, ht, ?_⟩
  obtain ⟨e', d', v'⟩ := t
  simp only at h1 h2 h3
  subst h1 h2 h3
  simp [siteVar]

theorem args_event_of_key {s : SV} (cur : Option OperationDef) {defs : Option (List ArgDef)}
    {args : List Argument} (ws : WS) {k : Name × Option GType}
    (hk : k ∈ (argValSites s defs args).filterMap siteVar) :
    ∃ e ∈ (walkArgs s cur defs args ws).2, ∃ ch p dfn, e.p = .value (.mk .variable k.1 ch p) k.2 dfn := by
  rw [List.mem_filterMap] at hk
  obtain ⟨t, ht, hs⟩ := hk
  obtain ⟨e, he, hp⟩ := walkArgs_complete cur ws ht
  obtain ⟨exp, dfn, v⟩ := t
  obtain ⟨kk, raw, ch, p⟩ := v
  simp only [siteVar] at hs
  split at hs
  · rename_i hkk
    injection hs with hs
    subst hs hkk
    exact ⟨e, he, ch, p, dfn, hp⟩
  · cases hs

theorem walkVarKey_of_args {s : SV} {evs : List Event} {op : OperationDef} {defs : Option (List ArgDef)}
    {args : List Argument} {ws : WS} (hsub : ∀ e ∈ (walkArgs s (some op) defs args ws).2, e ∈ evs)
    {k : Name × Option GType} (hk : k ∈ (argValSites s defs args).filterMap siteVar) : WalkVarKey evs op k := by
  obtain ⟨e, he, ch, p, dfn, hp⟩ := args_event_of_key (some op) ws hk
  exact ⟨e, hsub e he, walkArgs_cur s (some op) defs args ws e he, ch, p, dfn, hp⟩

theorem wp_op {s : Schema} {d : QueryDoc} (hwp : Spec.wellParented s d = true) {op : OperationDef} (hop : op ∈ d.ops) :
    ∀ t ∈ Spec.typedSels s (Spec.rootDef s op.op) op.sel, Spec.nodeWellParented t = true := by
  unfold Spec.wellParented at hwp
  simp only [List.all_eq_true] at hwp
  intro t ht
  refine hwp t ?_
  simp only [Spec.docSels, List.mem_append, List.mem_flatMap]
  exact Or.inl ⟨op, hop, ht⟩

theorem wp_frag {s : Schema} {d : QueryDoc} (hwp : Spec.wellParented s d = true) {f : FragmentDef} (hf : f ∈ d.frags) :
    ∀ t ∈ Spec.typedSels s (s.type? f.typeCond) f.sel, Spec.nodeWellParented t = true := by
  unfold Spec.wellParented at hwp
  simp only [List.all_eq_true] at hwp
  intro t ht
  refine hwp t ?_
  simp only [Spec.docSels, List.mem_append, List.mem_flatMap]
  exact Or.inr ⟨f, hf, ht⟩

section run
variable (s : Schema) (d : QueryDoc) (evs : List Event) (hw : walkDoc s.view d = some evs)
  (hwp : Spec.wellParented s d = true) (hs : inputPositionsPlain s = true)
include hs

/-- the usages in the arguments of a directive list, as keys of sites -/
theorem dirs_key {ds : List Directive} {u : Spec.VarUse} (hu : u ∈ Spec.usesInDirs s ds) :
    ∃ dir ∈ ds, useKey u ∈ (argValSites s.view ((s.view.directive? dir.name).map (·.args)) dir.args).filterMap siteVar := by
  simp only [Spec.usesInDirs, List.mem_flatMap] at hu
  obtain ⟨dir, hdir, hu⟩ := hu
  refine ⟨dir, hdir, ?_⟩
  change useKey u ∈ (argValSites s.view ((s.directive? dir.name).map (·.args)) dir.args).filterMap siteVar
  rw [argValSites_uses s hs _ (plain_directiveDefs s hs dir.name)]
  exact List.mem_map_of_mem hu

theorem dirs_use {ds : List Directive} {dir : Directive} (hdir : dir ∈ ds) {k : Name × Option GType}
    (hk : k ∈ (argValSites s.view ((s.view.directive? dir.name).map (·.args)) dir.args).filterMap siteVar) :
    ∃ u ∈ Spec.usesInDirs s ds, useKey u = k := by
  change k ∈ (argValSites s.view ((s.directive? dir.name).map (·.args)) dir.args).filterMap siteVar at hk
  rw [argValSites_uses s hs _ (plain_directiveDefs s hs dir.name)] at hk
  obtain ⟨u, hu, rfl⟩ := List.mem_map.1 hk
  refine ⟨u, ?_, rfl⟩
  simp only [Spec.usesInDirs, List.mem_flatMap]
  exact ⟨dir, hdir, hu⟩

include hw

/-- the usages of a directive list that has been walked on behalf of `op` have their events -/
theorem walkVarKey_of_dirs {op : OperationDef} {loc : Bytes} {ds : List Directive}
    (h : HasDirsC s.view (some op) loc ds evs) {u : Spec.VarUse} (hu : u ∈ Spec.usesInDirs s ds) :
    WalkVarKey evs op (useKey u) := by
  obtain ⟨dir, hdir, hk⟩ := dirs_key s hs hu
  obtain ⟨e', he', par, hc, hp⟩ := h.2 dir hdir
  obtain ⟨ws, hsub⟩ := walkDoc_directiveArgs_complete s.view d evs hw e' he' dir _ par loc hp
  rw [hc] at hsub
  exact walkVarKey_of_args hsub hk

/-- … and so have the usages written at a typed node in scope -/
theorem walkVarKey_of_node {op : OperationDef} (t : Spec.TSel) (hwt : Spec.nodeWellParented t = true)
    (hr : Ranged s t.parent) (hn : HasNodeCur d (some op) evs t.parent t.sel)
    (hd : HasDirsC s.view (some op) (Spec.selLoc t.sel) (Spec.selDirs t.sel) evs)
    {u : Spec.VarUse} (hu : u ∈ nodeUses s t) : WalkVarKey evs op (useKey u) := by
  obtain ⟨p', y⟩ := t
  cases y with
  | field al nm args dirs sub p =>
    rcases List.mem_append.1 hu with hu | hu
    · obtain ⟨e', he', hc, hp⟩ := hn
      obtain ⟨ws, hsub⟩ := walkDoc_fieldArgs_complete s.view d evs hw e' he' _ _ _ hp
      rw [hc] at hsub
      refine walkVarKey_of_args hsub ?_
      rw [wFieldDef_eq p' al nm args dirs sub p hwt, argValSites_uses s hs _ (plain_fieldDefs s hs p' hr nm)]
      exact List.mem_map_of_mem hu
    · exact walkVarKey_of_dirs s d evs hw hs hd hu
  | spread nm dirs p => exact walkVarKey_of_dirs s d evs hw hs hd hu
  | inline tc dirs sub p => exact walkVarKey_of_dirs s d evs hw hs hd hu

include hwp

/-- completeness: every usage the specification finds in the scope of `op` has its event, with the
    location type as `ExpectedType` -/
theorem walkVarKey_of_scopeUses (hu : Spec.fragmentNameUniqueness d = true) (op : OperationDef) (hop : op ∈ d.ops)
    {u : Spec.VarUse} (hx : u ∈ Spec.scopeUses s d op) : WalkVarKey evs op (useKey u) := by
  have hscope := walkDoc_scope_complete s.view d evs hw op hop
  rw [mem_scopeUses_iff] at hx
  rcases hx with ⟨v, hv, hx⟩ | hx | ⟨t, ht, hx⟩ | ⟨g, hg, hx | ⟨t, ht, hx⟩⟩
  · exact walkVarKey_of_dirs s d evs hw hs (hscope.varDirs v hv) hx
  · exact walkVarKey_of_dirs s d evs hw hs hscope.opDirs hx
  · have hi := (inSelsW_iff s op.sel _ (wp_op hwp hop) t.parent t.sel).2 ht
    rw [← opRoot_def] at hi
    obtain ⟨h1, h2⟩ := hscope.nodes t.parent t.sel (Or.inl hi)
    exact walkVarKey_of_node s d evs hw hs t (wp_op hwp hop t ht)
      (typedSels_ranged s op.sel _ (ranged_rootDef s op.op) t ht) h1 h2 hx
  · obtain ⟨n, hr, hgn⟩ := (mem_opFragments_iff d hu op g).1 hg
    exact walkVarKey_of_dirs s d evs hw hs (hscope.fragDirs n g hr hgn) hx
  · obtain ⟨n, hr, hgn⟩ := (mem_opFragments_iff d hu op g).1 hg
    have hgm := fragForName_mem hgn
    have hi := (inSelsW_iff s g.sel _ (wp_frag hwp hgm) t.parent t.sel).2 ht
    obtain ⟨h1, h2⟩ := hscope.nodes t.parent t.sel (Or.inr ⟨n, g, hr, hgn, hi⟩)
    exact walkVarKey_of_node s d evs hw hs t (wp_frag hwp hgm t ht)
      (typedSels_ranged s g.sel _ (ranged_type? s g.typeCond) t ht) h1 h2 hx

omit hw hs in
/-- a typed node in the walker's scope of `op` is a typed node of the specification's scope -/
theorem nodeScope_typed (hu : Spec.fragmentNameUniqueness d = true) (op : OperationDef) (hop : op ∈ d.ops)
    {par : Option Definition} {y : Selection}
    (h : NodeScope s.view d (Spec.spreadsOfSels op.sel) (InSelsW s.view (opRoot s.view op.op).1 op.sel) par y) :
    Spec.nodeWellParented ⟨par, y⟩ = true ∧ Ranged s par ∧
      ∀ u ∈ nodeUses s ⟨par, y⟩, u ∈ Spec.scopeUses s d op := by
  rcases h with hi | ⟨n, g, hr, hg, hi⟩
  · rw [opRoot_def] at hi
    have ht := (inSelsW_iff s op.sel _ (wp_op hwp hop) par y).1 hi
    refine ⟨wp_op hwp hop _ ht, typedSels_ranged s op.sel _ (ranged_rootDef s op.op) _ ht, fun u hu' => ?_⟩
    exact (mem_scopeUses_iff s d op u).2 (Or.inr (Or.inr (Or.inl ⟨_, ht, hu'⟩)))
  · have hgm := fragForName_mem hg
    have ht := (inSelsW_iff s g.sel _ (wp_frag hwp hgm) par y).1 hi
    refine ⟨wp_frag hwp hgm _ ht, typedSels_ranged s g.sel _ (ranged_type? s g.typeCond) _ ht, fun u hu' => ?_⟩
    exact (mem_scopeUses_iff s d op u).2
      (Or.inr (Or.inr (Or.inr ⟨g, (mem_opFragments_iff d hu op g).2 ⟨n, hr, hg⟩, Or.inr ⟨_, ht, hu'⟩⟩)))

/-- soundness: a variable value event fired under `op` is a usage in the scope of `op` whose
    location type is the `ExpectedType` of the event -/
theorem scopeUses_of_walkVarKey (hu : Spec.fragmentNameUniqueness d = true) (hcd : constDefaults d = true)
    (op : OperationDef) {k : Name × Option GType} (h : WalkVarKey evs op k) :
    ∃ u ∈ Spec.scopeUses s d op, useKey u = k := by
  obtain ⟨x, exp⟩ := k
  obtain ⟨e, he, hc, ch, p, dfn, hp⟩ := h
  simp only at hp
  rcases walkDoc_value_origin s.view d evs hw e he _ exp dfn hp with
    ⟨e', he', f, par, fd, ws, hp', hc', hin⟩ | ⟨e', he', dir, dd, par, loc, ws, hp', hc', hin⟩ |
    ⟨op', hop', vd, hvd, dv, ws, hdv, hc', hin⟩
  · -- argument of a field node
    have hk := key_of_args_event hin hp
    obtain ⟨hop, hs'⟩ := walkDoc_op_sound s.view d evs hw e' he' op (hc'.trans hc)
    have h2 := hs'.2
    simp only [hp'] at h2
    obtain ⟨hwt, hr, hsub⟩ := nodeScope_typed s d hwp hu op hop h2.1
    rw [h2.2, wFieldDef_eq par f.alias f.name f.args f.dirs f.sel f.pos hwt,
      argValSites_uses s hs _ (plain_fieldDefs s hs par hr f.name)] at hk
    obtain ⟨u, hu', hku⟩ := List.mem_map.1 hk
    exact ⟨u, hsub u (List.mem_append_left _ hu'), hku⟩
  · -- argument of a directive
    have hk := key_of_args_event hin hp
    obtain ⟨hop, hs'⟩ := walkDoc_op_sound s.view d evs hw e' he' op (hc'.trans hc)
    have h2 := hs'.2
    simp only [hp'] at h2
    obtain ⟨hdd, ds, hdir, hds⟩ := h2
    rw [hdd] at hk
    obtain ⟨u, hu', hku⟩ := dirs_use s hs hdir hk
    refine ⟨u, ?_, hku⟩
    rcases hds with ⟨par', y, hy, _, rfl⟩ | ⟨n, g, hr, hg, _, rfl⟩ | ⟨_, rfl⟩ | ⟨v, hv, _, rfl⟩
    · obtain ⟨_, _, hsub⟩ := nodeScope_typed s d hwp hu op hop hy
      exact hsub u (usesInDirs_sub_nodeUses s ⟨par', y⟩ hu')
    · exact (mem_scopeUses_iff s d op u).2
        (Or.inr (Or.inr (Or.inr ⟨g, (mem_opFragments_iff d hu op g).2 ⟨n, hr, hg⟩, Or.inl hu'⟩)))
    · exact (mem_scopeUses_iff s d op u).2 (Or.inr (Or.inl hu'))
    · exact (mem_scopeUses_iff s d op u).2 (Or.inl ⟨v, hv, hu'⟩)
  · -- inside a default value: excluded
    exfalso
    obtain ⟨t, ht, hp''⟩ := walkValue_sound hin
    rw [hp] at hp''
    injection hp'' with h1 h2 h3
    have hx : x ∈ varNamesV dv := (mem_varNamesV_iff s.view x dv _ _).2 ⟨t.1, t.2.1, ch, p, by rw [h1]; exact ht⟩
    have hcd' := List.all_eq_true.1 (List.all_eq_true.1 hcd op' hop') vd hvd
    rw [hdv] at hcd'
    simp only [List.isEmpty_iff] at hcd'
    rw [hcd'] at hx
    cases hx

end run

/- ---------- the rule ---------- -/

/-- the step of the rule, with the test of one usage folded into `ruleUsageAllowed` -/
theorem variablesInAllowedPositionStep_eq (sv : SV) (d : QueryDoc) (e : Event) :
    variablesInAllowedPositionStep sv d e =
      match e.p, e.cur with
      | .value v (some expected) _, some _ =>
        if v.kind != .variable then []
        else match e.links.varDef v.pos.start with
          | none => []
          | some vd =>
            if !ruleUsageAllowed vd expected then
              [errAt (str "Variable " ++ dq (valueString v) ++ str " of type " ++ dq vd.type.render
                ++ str " used in position expecting type " ++ dq expected.render ++ str ".") v.pos]
            else []
      | _, _ => [] := rfl

/-- the step of the rule on one event -/
theorem variablesInAllowedPositionStep_nil_iff (sv : SV) (d : QueryDoc) (e : Event) :
    variablesInAllowedPositionStep sv d e = [] ↔
      ∀ v expected dfn op, e.p = .value v (some expected) dfn → e.cur = some op → v.kind = .variable →
        ∀ vd, e.links.varDef v.pos.start = some vd → ruleUsageAllowed vd expected = true := by
  rw [variablesInAllowedPositionStep_eq]
  split
  · rename_i v expected dfn op hp hc
    constructor
    · intro h v' expected' dfn' op' hp' _ hk vd hvd
      rw [hp] at hp'
      injection hp' with h1 h2 h3
      injection h2 with h2
      subst h1 h2
      have hk' : (v.kind != ValueKind.variable) = false := by simp [hk]
      simp only [hk', Bool.false_eq_true, if_false, hvd] at h
      by_cases hr : ruleUsageAllowed vd expected = true
      · exact hr
      · exfalso
        have hr' : (!ruleUsageAllowed vd expected) = true := by simpa using hr
        simp only [hr', if_true] at h
        cases h
    · intro h
      by_cases hk : v.kind = .variable
      · have hk' : (v.kind != ValueKind.variable) = false := by simp [hk]
        simp only [hk', Bool.false_eq_true, if_false]
        cases hvd : e.links.varDef v.pos.start with
        | none => rfl
        | some vd =>
          have hr := h v expected dfn op hp hc hk vd hvd
          have hr' : (!ruleUsageAllowed vd expected) = false := by simp [hr]
          simp only [hr', Bool.false_eq_true, if_false]
      · have hk' : (v.kind != ValueKind.variable) = true := by simpa using hk
        simp only [hk', if_true]
  · rename_i hne
    constructor
    · intro _ v expected dfn op hp hc
      exact absurd hc (by intro hc; exact hne v expected dfn op hp hc)
    · intro _
      rfl

/-- VariablesInAllowedPosition is silent on every event iff every usage in scope is allowed when
    the default value of the location is ignored -/
theorem variablesInAllowedPosition_iff (s : Schema) (d : QueryDoc) (evs : List Event)
    (hw : walkDoc s.view d = some evs) (hwp : Spec.wellParented s d = true)
    (hu : Spec.fragmentNameUniqueness d = true) (hcd : constDefaults d = true)
    (hs : inputPositionsPlain s = true) (hn : variableTypesNamed d = true) :
    (∀ e ∈ evs, variablesInAllowedPositionStep s.view d e = []) ↔
      usagesAllowedIgnoringLocationDefault s d = true := by
  unfold usagesAllowedIgnoringLocationDefault
  simp only [List.all_eq_true]
  have hnamed : ∀ op ∈ d.ops, ∀ x vd, varForName op.vars x = some vd → vd.type.name ≠ [] := by
    intro op hop x vd hvd
    simp only [variableTypesNamed, List.all_eq_true, bne_iff_ne, ne_eq] at hn
    exact hn op hop vd (List.mem_of_find?_eq_some hvd)
  constructor
  · intro h op hop u hu'
    cases hv : Spec.varDefByName op u.name with
    | none => rfl
    | some vd =>
      cases hl : u.loc with
      | none => rfl
      | some lt =>
        simp only
        obtain ⟨e, he, hc, ch, p, dfn, hp⟩ := walkVarKey_of_scopeUses s d evs hw hwp hs hu op hop hu'
        simp only [useKey, hl] at hp
        have hlink := walkDoc_varlink s.view d evs hw e he op hc _ ch p _ dfn hp
        have hvd : varForName op.vars u.name = some vd := hv
        rw [hvd] at hlink
        have := (variablesInAllowedPositionStep_nil_iff s.view d e).1 (h e he) _ lt dfn op hp hc rfl vd hlink
        rw [ruleUsageAllowed_eq vd lt (hnamed op hop _ vd hvd)] at this
        exact this
  · intro h e he
    rw [variablesInAllowedPositionStep_nil_iff]
    intro v expected dfn op hp hc hk vd hvd
    obtain ⟨k, raw, ch, p⟩ := v
    have hk' : k = .variable := hk
    subst hk'
    have hop := (walkDoc_op_sound s.view d evs hw e he op hc).1
    obtain ⟨u, hu', hku⟩ := scopeUses_of_walkVarKey s d evs hw hwp hs hu hcd op
      (k := (raw, some expected)) ⟨e, he, hc, ch, p, dfn, hp⟩
    have hlink := walkDoc_varlink s.view d evs hw e he op hc raw ch p _ dfn hp
    have hvd' : varForName op.vars raw = some vd := by
      rw [← hlink]
      exact hvd
    simp only [useKey, Prod.mk.injEq] at hku
    have := h op hop u hu'
    have hv : Spec.varDefByName op u.name = some vd := by
      rw [hku.1]
      exact hvd'
    rw [hv, hku.2] at this
    simp only at this
    rw [ruleUsageAllowed_eq vd expected (hnamed op hop _ vd hvd')]
    exact this

/-- ignoring the location default is the stronger requirement -/
theorem allVariableUsagesAllowed_of_ignoring (s : Schema) (d : QueryDoc)
    (h : usagesAllowedIgnoringLocationDefault s d = true) : Spec.allVariableUsagesAllowed s d = true := by
  unfold usagesAllowedIgnoringLocationDefault at h
  unfold Spec.allVariableUsagesAllowed
  simp only [List.all_eq_true] at h ⊢
  intro op hop u hu
  have := h op hop u hu
  split
  · rename_i v lt hv hl
    rw [hv, hl] at this
    exact isVariableUsageAllowed_mono v lt _ this
  · rfl

/-- … and the same requirement when no usage sits at a location with a default value -/
theorem ignoring_iff_allVariableUsagesAllowed (s : Schema) (d : QueryDoc)
    (hld : noUsageAtDefaultedLocation s d = true) :
    usagesAllowedIgnoringLocationDefault s d = true ↔ Spec.allVariableUsagesAllowed s d = true := by
  refine ⟨allVariableUsagesAllowed_of_ignoring s d, fun h => ?_⟩
  unfold usagesAllowedIgnoringLocationDefault
  unfold Spec.allVariableUsagesAllowed at h
  unfold noUsageAtDefaultedLocation at hld
  simp only [List.all_eq_true, Bool.not_eq_true'] at h hld ⊢
  intro op hop u hu
  have := h op hop u hu
  rw [hld op hop u hu] at this
  exact this

/-- the weakest form of the extra hypothesis: every usage at a location with a default value is
    allowed anyway (without the help of that default) -/
def defaultedLocationsHarmless (s : Schema) (d : QueryDoc) : Bool :=
  d.ops.all fun op => (Spec.scopeUses s d op).all fun u =>
    !u.locDefault ||
      match Spec.varDefByName op u.name, u.loc with
      | some v, some lt => Spec.isVariableUsageAllowed v lt false
      | _, _ => true

theorem defaultedLocationsHarmless_of_none (s : Schema) (d : QueryDoc)
    (h : noUsageAtDefaultedLocation s d = true) : defaultedLocationsHarmless s d = true := by
  unfold noUsageAtDefaultedLocation at h
  unfold defaultedLocationsHarmless
  simp only [List.all_eq_true, Bool.or_eq_true] at h ⊢
  exact fun op hop u hu => Or.inl (h op hop u hu)

theorem ignoring_iff_allVariableUsagesAllowed' (s : Schema) (d : QueryDoc)
    (hld : defaultedLocationsHarmless s d = true) :
    usagesAllowedIgnoringLocationDefault s d = true ↔ Spec.allVariableUsagesAllowed s d = true := by
  refine ⟨allVariableUsagesAllowed_of_ignoring s d, fun h => ?_⟩
  unfold usagesAllowedIgnoringLocationDefault
  unfold Spec.allVariableUsagesAllowed at h
  unfold defaultedLocationsHarmless at hld
  simp only [List.all_eq_true, Bool.or_eq_true, Bool.not_eq_true'] at h hld ⊢
  intro op hop u hu
  rcases hld op hop u hu with hf | hf
  · have := h op hop u hu
    rw [hf] at this
    exact this
  · exact hf

end Gql.Validate

/- ---------- witnesses (kernel-checked) ---------- -/
namespace VarPositionWitness
open Gql Gql.Validate Gql.Validate.Rules

def tN (n : String) (nn : Bool) : GType := .named (str n) nn Pos.zero
def scalar (n : String) : Definition :=
  { kind := .scalar, desc := [], name := str n, dirs := [], interfaces := [], fields := [], types := [],
    enumValues := [], pos := Pos.zero, builtIn := true }
def argDef (n : String) (t : GType) (dflt : Option Value) : ArgDef :=
  { desc := [], name := str n, default := dflt, type := t, dirs := [], pos := Pos.zero }
def fieldDef (n : String) (args : List ArgDef) (t : GType) : FieldDef :=
  { desc := [], name := str n, args := args, default := none, type := t, dirs := [], pos := Pos.zero }
def typeDef (k : DefKind) (n : String) (fields : List FieldDef) : Definition :=
  { kind := k, desc := [], name := str n, dirs := [], interfaces := [], fields := fields, types := [],
    enumValues := [], pos := Pos.zero, builtIn := false }
def five : Value := .mk .int (str "5") .nil Pos.zero
def var (n : String) : Value := .mk .variable (str n) .nil Pos.zero
def varDef (n : String) (t : GType) (dflt : Option Value) : VarDef :=
  { var := str n, type := t, default := dflt, dirs := [], pos := Pos.zero }
def fld (n : String) (args : List Argument) : Selection := .field [] (str n) args [] .nil Pos.zero
def arg (n : String) (v : Value) : Argument := { name := str n, value := v, pos := Pos.zero }
def query (vars : List VarDef) (sel : Selections) : OperationDef :=
  { op := str "query", name := [], vars := vars, dirs := [], sel := sel, pos := Pos.zero }

/-- a schema with the query root `Q` carrying the one field `fd`, the scalar `Int` and `extra` types -/
def schemaWith (fd : FieldDef) (extra : List (Name × Definition)) : Schema :=
  { Schema.empty with
    query := some (str "Q"),
    types := [(str "Int", scalar "Int"), (str "String", scalar "String"), (str "Q", typeDef .object "Q" [fd])] ++ extra }

/-- `type Q { f(r: Int! = 5): Int }` -/
def schemaLocDefault : Schema := schemaWith (fieldDef "f" [argDef "r" (tN "Int" true) (some five)] (tN "Int" false)) []
/-- `query($v: Int) { f(r: $v) }` -/
def docNullable : QueryDoc :=
  { ops := [query [varDef "v" (tN "Int" false) none] (.cons (fld "f" [arg "r" (var "v")]) .nil)], frags := [] }
/-- `query($v: Int!) { f(r: $v) }` -/
def docNonNull : QueryDoc :=
  { ops := [query [varDef "v" (tN "Int" true) none] (.cons (fld "f" [arg "r" (var "v")]) .nil)], frags := [] }

/-- `type Q { f(a: O): Int }  type O { x: Int! }` — an OBJECT type as the type of an argument -/
def schemaObjectArg : Schema :=
  schemaWith (fieldDef "f" [argDef "a" (tN "O" false) none] (tN "Int" false))
    [(str "O", typeDef .object "O" [fieldDef "x" [] (tN "Int" true)])]
/-- `query($v: Int) { f(a: {x: $v}) }` -/
def docObjectArg : QueryDoc :=
  { ops := [query [varDef "v" (tN "Int" false) none]
      (.cons (fld "f" [arg "a" (.mk .object [] (.cons (str "x") (var "v") Pos.zero .nil) Pos.zero)]) .nil)], frags := [] }

/-- `type Q { f(r: [Int]): Int }` -/
def schemaListArg : Schema :=
  schemaWith (fieldDef "f" [argDef "r" (.list (tN "Int" false) false Pos.zero) none] (tN "Int" false)) []
/-- `query($v: «»)  { f(r: $v) }` with the (unparseable) named type whose name is empty -/
def docEmptyTypeName : QueryDoc :=
  { ops := [query [varDef "v" (.named [] false Pos.zero) none] (.cons (fld "f" [arg "r" (var "v")]) .nil)], frags := [] }

/-- `type Q { f(r: Int): Int }` -/
def schemaPlain : Schema := schemaWith (fieldDef "f" [argDef "r" (tN "Int" false) none] (tN "Int" false)) []
/-- `query($v: Int, $w: Int! = $v) { f }` — a variable inside a default value (not `Value[Const]`) -/
def docVarInDefault : QueryDoc :=
  { ops := [query [varDef "v" (tN "Int" false) none, varDef "w" (tN "Int" true) (some (var "v"))]
      (.cons (fld "f" []) .nil)], frags := [] }

/-- `query($v: String) { ...F }  fragment F on Q { f(r: 5) }  fragment F on Q { f(r: $v) }`, both
    definitions at the same position -/
def docTwoFragments : QueryDoc :=
  { ops := [query [varDef "v" (tN "String" false) none] (.cons (.spread (str "F") [] Pos.zero) .nil)],
    frags := [{ name := str "F", vars := [], typeCond := str "Q", dirs := [],
                sel := .cons (fld "f" [arg "r" five]) .nil, pos := Pos.zero },
              { name := str "F", vars := [], typeCond := str "Q", dirs := [],
                sel := .cons (fld "f" [arg "r" (var "v")]) .nil, pos := Pos.zero }] }

/-- `input I { x(r: Int!): Int }` (arguments on an input field: not loadable) next to `type Q { f(r: Int): Int }` -/
def schemaInputParent : Schema :=
  schemaWith (fieldDef "f" [argDef "r" (tN "Int" false) none] (tN "Int" false))
    [(str "I", typeDef .inputObject "I" [fieldDef "x" [argDef "r" (tN "Int" true) none] (tN "Int" false)])]
/-- `query($v: Int) { ... on I { x(r: $v) } }` — a selection on an input object -/
def docInputParent : QueryDoc :=
  { ops := [query [varDef "v" (tN "Int" false) none]
      (.cons (.inline (str "I") [] (.cons (fld "x" [arg "r" (var "v")]) .nil) Pos.zero) .nil)], frags := [] }

end VarPositionWitness
