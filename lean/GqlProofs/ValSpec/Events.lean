import GqlProofs.Validate.WalkTerm
import GqlProofs.Validate.Compose
import GqlModel.Validate.Spec.Typing
/-
  Generic facts about the event stream of the walker model, used to connect the rule models to
  the specification predicates (C08) and to state link correctness (C09):

  * `walkDoc_all`: a predicate on payloads that holds at every place where the walker builds an
    event holds for every event of `walkDoc`;
  * the `operation` events of `walkDoc` are the operations of the document, in order, once each;
    the `fragment` events are its fragment definitions, in order, once each;
  * a single rule that ignores an event kind can be run on the filtered stream.
-/
namespace Gql.Validate
open Gql

/-- `P` holds for every payload the walker can build while it walks values and directives -/
structure ValSites (s : SV) (P : Payload → Prop) : Prop where
  value : ∀ v exp dfn, P (.value v exp dfn)
  directive : ∀ dir parent loc, P (.directive dir (s.directive? dir.name) parent loc)
  directiveList : ∀ ds, P (.directiveList ds)

/-- `P` holds for every payload the walker can build below an operation / fragment definition;
    `Q` is a property of the spread names written in the document (it holds for the names written
    in every fragment definition, and the theorems below ask it of the selection set they start
    from), so that the `spread` site may use it -/
structure SelSites (s : SV) (d : QueryDoc) (Q : Name → Prop) (P : Payload → Prop) : Prop extends ValSites s P where
  field : ∀ f parent dfn, P (.field f parent dfn)
  inline : ∀ f parent, P (.inlineFragment f parent)
  spread : ∀ f parent, Q f.name → P (.fragmentSpread f (fragForName d f.name) parent)
  frags : ∀ f ∈ d.frags, ∀ n ∈ Spec.spreadsOfSels f.sel, Q n

def AllP (P : Payload → Prop) (evs : List Event) : Prop := ∀ e ∈ evs, P e.p

theorem AllP.nil {P : Payload → Prop} : AllP P [] := by intro e h; cases h

theorem AllP.append {P : Payload → Prop} {a b : List Event} (ha : AllP P a) (hb : AllP P b) : AllP P (a ++ b) := by
  intro e h
  rcases List.mem_append.1 h with h | h
  · exact ha e h
  · exact hb e h

theorem AllP.cons {P : Payload → Prop} {e : Event} {b : List Event} (he : P e.p) (hb : AllP P b) : AllP P (e :: b) := by
  intro x h
  rcases List.mem_cons.1 h with rfl | h
  · exact he
  · exact hb x h

theorem AllP.single {P : Payload → Prop} {e : Event} (he : P e.p) : AllP P [e] := AllP.cons he AllP.nil

section
variable {s : SV} {d : QueryDoc} {P : Payload → Prop} {Q : Name → Prop}

mutual
  theorem walkValue_all (hv : ∀ v exp dfn, P (.value v exp dfn)) (cur : Option OperationDef) (exp : Option GType) (dfn : Option Definition) :
      ∀ (v : Value) (ws : WS), AllP P (walkValue s cur exp dfn v ws).2
    | .mk k raw ch p, ws => by
      unfold walkValue
      have h1 : ∀ ws1 : WS, AllP P (walkObjChildren s cur dfn ch ws1).2 :=
        fun ws1 => walkObjChildren_all hv cur dfn ch ws1
      have h2 : ∀ ws1 : WS, AllP P (walkListChildren s cur exp dfn ch ws1).2 :=
        fun ws1 => walkListChildren_all hv cur exp dfn ch ws1
      cases k <;> simp only <;>
        first
          | exact AllP.append (h1 _) (AllP.single (hv _ _ _))
          | exact AllP.append (h2 _) (AllP.single (hv _ _ _))
          | exact AllP.append AllP.nil (AllP.single (hv _ _ _))
  theorem walkObjChildren_all (hv : ∀ v exp dfn, P (.value v exp dfn)) (cur : Option OperationDef) (dfn : Option Definition) :
      ∀ (ch : Children) (ws : WS), AllP P (walkObjChildren s cur dfn ch ws).2
    | .nil, ws => by simp [walkObjChildren, AllP]
    | .cons name v p rest, ws => by
      unfold walkObjChildren
      exact AllP.append (walkValue_all hv cur _ _ v ws) (walkObjChildren_all hv cur dfn rest _)
  theorem walkListChildren_all (hv : ∀ v exp dfn, P (.value v exp dfn)) (cur : Option OperationDef) (exp : Option GType) (dfn : Option Definition) :
      ∀ (ch : Children) (ws : WS), AllP P (walkListChildren s cur exp dfn ch ws).2
    | .nil, ws => by simp [walkListChildren, AllP]
    | .cons name v p rest, ws => by
      unfold walkListChildren
      exact AllP.append (walkValue_all hv cur _ _ v ws) (walkListChildren_all hv cur exp dfn rest _)
end

theorem walkArgs_all (hv : ∀ v exp dfn, P (.value v exp dfn)) (cur : Option OperationDef) (ad : Option (List ArgDef)) :
    ∀ (as : List Argument) (ws : WS), AllP P (walkArgs s cur ad as ws).2
  | [], ws => by simp [walkArgs, AllP]
  | a :: rest, ws => by
    simp only [walkArgs]
    exact AllP.append (walkValue_all hv cur _ _ a.value ws) (walkArgs_all hv cur ad rest _)

theorem walkDirectiveItems_all (hP : ValSites s P) (cur : Option OperationDef) (parent : Option Definition) (loc : Bytes) :
    ∀ (ds : List Directive) (ws : WS), AllP P (walkDirectiveItems s cur parent loc ds ws).2
  | [], ws => by simp [walkDirectiveItems, AllP]
  | dir :: rest, ws => by
    simp only [walkDirectiveItems]
    exact AllP.append (walkArgs_all hP.value cur _ dir.args ws)
      (AllP.cons (hP.directive dir parent loc) (walkDirectiveItems_all hP cur parent loc rest _))

theorem walkDirectives_all (hP : ValSites s P) (cur : Option OperationDef) (parent : Option Definition) (ds : List Directive)
    (loc : Bytes) (ws : WS) : AllP P (walkDirectives s cur parent ds loc ws).2 := by
  simp only [walkDirectives]
  exact AllP.append (walkDirectiveItems_all hP cur parent loc ds ws) (AllP.single (hP.directiveList ds))

def JumpAll (P : Payload → Prop) (Q : Name → Prop) (J : Jump) : Prop :=
  ∀ parent sels (ws : WS) r, (∀ n ∈ Spec.spreadsOfSels sels, Q n) → J parent sels ws = some r → AllP P r.2

mutual
  theorem walkSelection_all (hP : SelSites s d Q P) (cur : Option OperationDef) (J : Jump) (hJ : JumpAll P Q J) :
      ∀ (x : Selection) (parent : Option Definition) (ws : WS) r, (∀ n ∈ Spec.spreadsOfSel x, Q n) →
        walkSelection s d cur J parent x ws = some r → AllP P r.2
    | .field al nm args dirs sub p, parent, ws, r, hx, h => by
      unfold walkSelection at h
      simp only at h
      split at h
      · cases h
      · rename_i r3 h3
        injection h with h
        subst h
        have hb := walkSelections_all hP cur J hJ sub _ _ r3 (by simpa [Spec.spreadsOfSel] using hx) h3
        exact AllP.append (AllP.append (AllP.append (walkArgs_all hP.value cur _ args _) (walkDirectives_all hP.toValSites cur _ dirs _ _)) hb)
          (AllP.single (hP.field _ _ _))
    | .inline tc dirs sub p, parent, ws, r, hx, h => by
      unfold walkSelection at h
      simp only at h
      split at h
      · cases h
      · rename_i r3 h3
        injection h with h
        subst h
        have hb := walkSelections_all hP cur J hJ sub _ _ r3 (by simpa [Spec.spreadsOfSel] using hx) h3
        exact AllP.append (AllP.append (walkDirectives_all hP.toValSites cur _ dirs _ _) hb) (AllP.single (hP.inline _ _))
    | .spread nm dirs p, parent, ws, r, hx, h => by
      unfold walkSelection at h
      simp only at h
      have hsp : ∀ par, P (.fragmentSpread ⟨nm, dirs, p⟩ (fragForName d nm) par) :=
        fun par => hP.spread ⟨nm, dirs, p⟩ par (hx nm (by simp [Spec.spreadsOfSel]))
      cases hf : fragForName d nm with
      | none =>
        rw [hf] at h hsp
        simp only at h
        injection h with h
        subst h
        exact AllP.append (walkDirectives_all hP.toValSites cur _ dirs _ _) (AllP.single (hsp _))
      | some f =>
        rw [hf] at h hsp
        simp only at h
        split at h
        · injection h with h
          subst h
          exact AllP.append (walkDirectives_all hP.toValSites cur _ dirs _ _) (AllP.single (hsp _))
        · split at h
          · cases h
          · rename_i r3 h3
            injection h with h
            subst h
            have hb := hJ _ _ _ r3 (hP.frags f (fragForName_mem hf)) h3
            exact AllP.append (AllP.append (AllP.append (walkDirectives_all hP.toValSites cur _ dirs _ _)
              (walkDirectives_all hP.toValSites cur _ f.dirs _ _)) hb) (AllP.single (hsp _))
  theorem walkSelections_all (hP : SelSites s d Q P) (cur : Option OperationDef) (J : Jump) (hJ : JumpAll P Q J) :
      ∀ (xs : Selections) (parent : Option Definition) (ws : WS) r, (∀ n ∈ Spec.spreadsOfSels xs, Q n) →
        walkSelections s d cur J parent xs ws = some r → AllP P r.2
    | .nil, parent, ws, r, hx, h => by
      simp only [walkSelections] at h
      injection h with h
      subst h
      exact AllP.nil
    | .cons x rest, parent, ws, r, hx, h => by
      unfold walkSelections at h
      split at h
      · cases h
      · rename_i r1 h1
        split at h
        · cases h
        · rename_i r2 h2
          injection h with h
          subst h
          have hx1 : ∀ n ∈ Spec.spreadsOfSel x, Q n := fun n hn => hx n (by simp [Spec.spreadsOfSels, hn])
          have hx2 : ∀ n ∈ Spec.spreadsOfSels rest, Q n := fun n hn => hx n (by simp [Spec.spreadsOfSels, hn])
          exact AllP.append (walkSelection_all hP cur J hJ x parent ws r1 hx1 h1)
            (walkSelections_all hP cur J hJ rest parent r1.1 r2 hx2 h2)
end

theorem walkLevel_all (hP : SelSites s d Q P) (cur : Option OperationDef) : ∀ n, JumpAll P Q (walkLevel s d cur n)
  | 0 => by intro _ _ _ _ _ h; simp [walkLevel] at h
  | n + 1 => by
    intro parent sels ws r hx h
    simp only [walkLevel] at h
    exact walkSelections_all hP cur _ (walkLevel_all hP cur n) sels parent ws r hx h

theorem walkVarDefsB_all (hP : ValSites s P) (cur : Option OperationDef) :
    ∀ (vs : List VarDef) (ws : WS), AllP P (walkVarDefsB s cur vs ws).2
  | [], ws => by simp [walkVarDefsB, AllP]
  | v :: rest, ws => by
    simp only [walkVarDefsB]
    refine AllP.append (AllP.append ?_ (walkDirectives_all hP cur _ v.dirs _ _)) (walkVarDefsB_all hP cur rest _)
    cases v.default with
    | none => exact AllP.nil
    | some dv => exact walkValue_all hP.value cur _ _ dv ws

end

/-- sites of the three event kinds that are built outside the selection walk -/
structure DocSites (s : SV) (d : QueryDoc) (Q : Name → Prop) (P : Payload → Prop) : Prop extends SelSites s d Q P where
  ops : ∀ op ∈ d.ops, ∀ n ∈ Spec.spreadsOfSels op.sel, Q n
  varDef : ∀ v, P (.variable v (s.type? v.type.name))
  operation : ∀ op used, op ∈ d.ops → P (.operation op used)
  fragment : ∀ f, f ∈ d.frags → P (.fragment f (s.type? f.typeCond))

theorem walkVarDefsA_all {s : SV} {d : QueryDoc} {P : Payload → Prop} {Q : Name → Prop} (hP : DocSites s d Q P)
    (cur : Option OperationDef) (ws : WS) : ∀ vs : List VarDef, AllP P (walkVarDefsA s cur ws vs)
  | [] => AllP.nil
  | v :: rest => by
    simp only [walkVarDefsA]
    exact AllP.cons (hP.varDef v) (walkVarDefsA_all hP cur ws rest)

theorem walkOperation_all {s : SV} {d : QueryDoc} {P : Payload → Prop} {Q : Name → Prop} (hP : DocSites s d Q P)
    (fuel : Nat) (op : OperationDef) (hop : op ∈ d.ops) (l : Links) (r : Links × List Event)
    (h : walkOperation s d fuel op l = some r) : AllP P r.2 := by
  unfold walkOperation at h
  simp only at h
  split at h
  · cases h
  · rename_i r4 h4
    injection h with h
    subst h
    have hb := walkLevel_all hP.toSelSites (some op) fuel _ _ _ r4 (hP.ops op hop) h4
    exact AllP.append (AllP.append (AllP.append (AllP.append (walkVarDefsA_all hP _ _ _)
      (walkVarDefsB_all hP.toValSites _ _ _)) (walkDirectives_all hP.toValSites _ _ _ _ _)) hb)
      (AllP.single (hP.operation op _ hop))

theorem walkFragment_all {s : SV} {d : QueryDoc} {P : Payload → Prop} {Q : Name → Prop} (hP : DocSites s d Q P)
    (fuel : Nat) (f : FragmentDef) (hf : f ∈ d.frags) (l : Links) (r : Links × List Event)
    (h : walkFragment s d fuel f l = some r) : AllP P r.2 := by
  unfold walkFragment at h
  simp only at h
  split at h
  · cases h
  · rename_i r2 h2
    injection h with h
    subst h
    have hb := walkLevel_all hP.toSelSites none fuel _ _ _ r2 (hP.frags f hf) h2
    exact AllP.append (AllP.append (walkDirectives_all hP.toValSites _ _ _ _ _) hb) (AllP.single (hP.fragment f hf))

theorem walkOps_all {s : SV} {d : QueryDoc} {P : Payload → Prop} {Q : Name → Prop} (hP : DocSites s d Q P) (fuel : Nat) :
    ∀ (ops : List OperationDef), (∀ op ∈ ops, op ∈ d.ops) → ∀ (l : Links) (r : Links × List Event),
      walkOps s d fuel ops l = some r → AllP P r.2
  | [], _, l, r, h => by
    simp only [walkOps] at h
    injection h with h
    subst h
    exact AllP.nil
  | op :: rest, hsub, l, r, h => by
    unfold walkOps at h
    split at h
    · cases h
    · rename_i r1 h1
      split at h
      · cases h
      · rename_i r2 h2
        injection h with h
        subst h
        exact AllP.append (walkOperation_all hP fuel op (hsub op List.mem_cons_self) l r1 h1)
          (walkOps_all hP fuel rest (fun x hx => hsub x (List.mem_cons_of_mem _ hx)) r1.1 r2 h2)

theorem walkFrags_all {s : SV} {d : QueryDoc} {P : Payload → Prop} {Q : Name → Prop} (hP : DocSites s d Q P) (fuel : Nat) :
    ∀ (fs : List FragmentDef), (∀ f ∈ fs, f ∈ d.frags) → ∀ (l : Links) (r : Links × List Event),
      walkFrags s d fuel fs l = some r → AllP P r.2
  | [], _, l, r, h => by
    simp only [walkFrags] at h
    injection h with h
    subst h
    exact AllP.nil
  | f :: rest, hsub, l, r, h => by
    unfold walkFrags at h
    split at h
    · cases h
    · rename_i r1 h1
      split at h
      · cases h
      · rename_i r2 h2
        injection h with h
        subst h
        exact AllP.append (walkFragment_all hP fuel f (hsub f List.mem_cons_self) l r1 h1)
          (walkFrags_all hP fuel rest (fun x hx => hsub x (List.mem_cons_of_mem _ hx)) r1.1 r2 h2)

/-- every event of a validation run satisfies a predicate that holds at every construction site -/
theorem walkDoc_all {s : SV} {d : QueryDoc} {P : Payload → Prop} {Q : Name → Prop} (hP : DocSites s d Q P)
    (evs : List Event) (h : walkDoc s d = some evs) : AllP P evs := by
  unfold walkDoc at h
  split at h
  · cases h
  · rename_i r1 h1
    split at h
    · cases h
    · rename_i r2 h2
      injection h with h
      subst h
      exact AllP.append (walkOps_all hP _ d.ops (fun _ h => h) _ r1 h1) (walkFrags_all hP _ d.frags (fun _ h => h) _ r2 h2)

end Gql.Validate
