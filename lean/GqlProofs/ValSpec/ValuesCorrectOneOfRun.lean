import GqlProofs.ValSpec.ValuesCorrectOneOfConv
/-
  ValuesOfCorrectType and `@oneOf`, the converse, run level.
-/
namespace Gql.Validate
open Gql Gql.Validate.Rules

/- ================= the usages of a typed node are usages of its selection set ================= -/

mutual
  theorem nodeUses_sub_usesInSel (s : Schema) (u : Spec.VarUse) : ∀ (sel : Selection) (parent : Option Definition),
      ∀ t ∈ Spec.typedSel s parent sel, u ∈ nodeUsesV s t → u ∈ Spec.usesInSel s parent sel
    | .field al nm args dirs sub p, parent, t, ht, hu => by
      rw [Spec.typedSel] at ht
      rw [Spec.usesInSel]
      rcases List.mem_cons.1 ht with ht | ht
      · subst ht
        exact List.mem_append_left _ hu
      · exact List.mem_append_right _ (nodeUses_sub_usesInSels s u sub _ t ht hu)
    | .spread nm dirs p, parent, t, ht, hu => by
      rw [Spec.typedSel] at ht
      rw [Spec.usesInSel]
      rw [List.mem_singleton.1 ht] at hu
      simpa [nodeUsesV, Spec.selDirs] using hu
    | .inline tc dirs sub p, parent, t, ht, hu => by
      rw [Spec.typedSel] at ht
      rw [Spec.usesInSel]
      rcases List.mem_cons.1 ht with ht | ht
      · subst ht
        exact List.mem_append_left _ (by simpa [nodeUsesV, Spec.selDirs] using hu)
      · exact List.mem_append_right _ (nodeUses_sub_usesInSels s u sub _ t ht hu)
  theorem nodeUses_sub_usesInSels (s : Schema) (u : Spec.VarUse) : ∀ (sels : Selections) (parent : Option Definition),
      ∀ t ∈ Spec.typedSels s parent sels, u ∈ nodeUsesV s t → u ∈ Spec.usesInSels s parent sels
    | .nil, parent, t, ht, _ => by simp [Spec.typedSels] at ht
    | .cons x rest, parent, t, ht, hu => by
      rw [Spec.typedSels] at ht
      rw [Spec.usesInSels]
      rcases List.mem_append.1 ht with ht | ht
      · exact List.mem_append_left _ (nodeUses_sub_usesInSel s u x parent t ht hu)
      · exact List.mem_append_right _ (nodeUses_sub_usesInSels s u rest parent t ht hu)
end

/-- every usage written in an argument list of the document, typed by its site -/
def allUses (s : Schema) (d : QueryDoc) : List Spec.VarUse :=
  (Spec.argSites s d).flatMap fun site => Spec.usesInArgs s site.defs site.args

/-- NODE IDENTITY BY POSITION, as far as the link side table needs it: two variable usages of the
    document that start at the same offset are the same usage (same name, same `@oneOf` mark).  True of every parsed document (distinct nodes have distinct offsets). -/
def usePosDistinct (s : Schema) (d : QueryDoc) : Bool :=
  (allUses s d).all fun u => (allUses s d).all fun u' =>
    u.pos.start != u'.pos.start || (u.name == u'.name && u.oneOf == u'.oneOf)

theorem usePosDistinct_apply (s : Schema) (d : QueryDoc) (h : usePosDistinct s d = true) (u : Spec.VarUse)
    (hu : u ∈ allUses s d) (u' : Spec.VarUse) (hu' : u' ∈ allUses s d) (hp : u.pos.start = u'.pos.start) :
    u.name = u'.name ∧ u.oneOf = u'.oneOf := by
  unfold usePosDistinct at h
  have := List.all_eq_true.1 (List.all_eq_true.1 h u hu) u' hu'
  simp only [Bool.or_eq_true, bne_iff_ne, ne_eq, Bool.and_eq_true, beq_iff_eq] at this
  rcases this with h1 | h1
  · exact absurd hp h1
  · exact h1

section
variable (s : Schema) (d : QueryDoc) (evs : List Event) (hw : walkDoc s.view d = some evs)
  (hwp : Spec.wellParented s d = true)
include hw hwp

/-- the argument block of a `field` / `directive` event: its usages are usages of the document … -/
theorem block_uses_all (e' : Event) (he' : e' ∈ evs) :
    (∀ f par fd, e'.p = .field f par fd → ∀ u ∈ Spec.usesInArgs s (fd.map (·.args)) f.args, u ∈ allUses s d) ∧
    (∀ dir dd par loc, e'.p = .directive dir dd par loc →
      ∀ u ∈ Spec.usesInArgs s (dd.map (·.args)) dir.args, u ∈ allUses s d) := by
  constructor
  · intro f par fd hp u hu
    obtain ⟨hmem, hfd⟩ := walk_parent_type s d evs hw hwp e' he' f par fd hp
    refine List.mem_flatMap.2 ⟨⟨fd.map (·.args), f.args⟩, List.mem_append_left _ ?_, hu⟩
    simp only [Spec.fieldArgSites, List.mem_filterMap]
    exact ⟨_, hmem, by rw [hfd]⟩
  · intro dir dd par loc hp u hu
    obtain ⟨hdd, hd⟩ := directive_event_sound' s d evs hw e' he' dir dd par loc hp
    refine List.mem_flatMap.2 ⟨⟨dd.map (·.args), dir.args⟩, List.mem_append_right _ ?_, hu⟩
    simp only [Spec.directiveArgSites, List.mem_map]
    exact ⟨dir, hd, by rw [hdd]⟩

/-- … and, when the event is fired on behalf of `op`, usages in the scope of `op` -/
theorem block_uses_scope (hfu : Spec.fragmentNameUniqueness d = true) (e' : Event) (he' : e' ∈ evs)
    (op : OperationDef) (hc : e'.cur = some op) :
    (∀ f par fd, e'.p = .field f par fd → ∀ u ∈ Spec.usesInArgs s (fd.map (·.args)) f.args, u ∈ Spec.scopeUses s d op) ∧
    (∀ dir dd par loc, e'.p = .directive dir dd par loc →
      ∀ u ∈ Spec.usesInArgs s (dd.map (·.args)) dir.args, u ∈ Spec.scopeUses s d op) := by
  obtain ⟨hop, hs⟩ := walkDoc_op_sound s.view d evs hw e' he' op hc
  have hwp' : ∀ t ∈ Spec.docSels s d, Spec.nodeWellParented t = true := by
    unfold Spec.wellParented at hwp
    exact List.all_eq_true.1 hwp
  have hdocOp : ∀ t' ∈ Spec.typedSels s (Spec.rootDef s op.op) op.sel, t' ∈ Spec.docSels s d := by
    intro t' ht'
    unfold Spec.docSels
    exact List.mem_append_left _ (List.mem_flatMap.2 ⟨op, hop, ht'⟩)
  have hdocFr : ∀ g ∈ d.frags, ∀ t' ∈ Spec.typedSels s (s.type? g.typeCond) g.sel, t' ∈ Spec.docSels s d := by
    intro g hg t' ht'
    unfold Spec.docSels
    exact List.mem_append_right _ (List.mem_flatMap.2 ⟨g, hg, ht'⟩)
  -- a typed node in scope: its usages are in scope
  have hnode : ∀ par y, NodeScope s.view d (Spec.spreadsOfSels op.sel) (InSelsW s.view (opRoot s.view op.op).1 op.sel) par y →
      Spec.nodeWellParented ⟨par, y⟩ = true ∧ ∀ u ∈ nodeUsesV s ⟨par, y⟩, u ∈ Spec.scopeUses s d op := by
    intro par y hn
    rcases hn with hi | ⟨n, g, hr, hg, hi⟩
    · rw [opRoot_def] at hi
      have ht := (inSelsW_iff s op.sel _ (fun t' ht' => hwp' t' (hdocOp t' ht')) par y).1 hi
      refine ⟨hwp' _ (hdocOp _ ht), fun u hu => ?_⟩
      unfold Spec.scopeUses Spec.usesInOperation
      exact List.mem_append_left _ (List.mem_append_right _ (nodeUses_sub_usesInSels s u op.sel _ _ ht hu))
    · have hgd : g ∈ d.frags := List.mem_of_find?_eq_some hg
      have ht := (inSelsW_iff s g.sel _ (fun t' ht' => hwp' t' (hdocFr g hgd t' ht')) par y).1 hi
      refine ⟨hwp' _ (hdocFr g hgd _ ht), fun u hu => ?_⟩
      unfold Spec.scopeUses
      refine List.mem_append_right _ (List.mem_flatMap.2 ⟨g, (mem_opFragments_iff d hfu op g).2 ⟨n, hr, hg⟩, ?_⟩)
      unfold Spec.usesInFragment
      exact List.mem_append_right _ (nodeUses_sub_usesInSels s u g.sel _ _ ht hu)
  have h2 := hs.2
  constructor
  · intro f par fd hp u hu
    simp only [hp] at h2
    obtain ⟨hwpn, hsc⟩ := hnode _ _ h2.1
    refine hsc u (List.mem_append_left _ ?_)
    simp only
    rw [← wFieldDef_eq par f.alias f.name f.args f.dirs f.sel f.pos hwpn, ← h2.2]
    exact hu
  · intro dir dd par loc hp u hu
    simp only [hp] at h2
    obtain ⟨hdd, ds, hdir, hds⟩ := h2
    have hud : u ∈ Spec.usesInDirs s ds := by
      unfold Spec.usesInDirs
      refine List.mem_flatMap.2 ⟨dir, hdir, ?_⟩
      rw [hdd] at hu
      exact hu
    rcases hds with ⟨par', y, hy, _, rfl⟩ | ⟨n, g, hr, hg, _, rfl⟩ | ⟨_, rfl⟩ | ⟨v, hv, _, rfl⟩
    · exact (hnode par' y hy).2 u (List.mem_append_right _ hud)
    · unfold Spec.scopeUses
      refine List.mem_append_right _ (List.mem_flatMap.2 ⟨g, (mem_opFragments_iff d hfu op g).2 ⟨n, hr, hg⟩, ?_⟩)
      unfold Spec.usesInFragment
      exact List.mem_append_left _ hud
    · unfold Spec.scopeUses Spec.usesInOperation
      exact List.mem_append_left _ (List.mem_append_left _ (List.mem_append_right _ hud))
    · unfold Spec.scopeUses Spec.usesInOperation
      exact List.mem_append_left _ (List.mem_append_left _ (List.mem_append_left _ (List.mem_flatMap.2 ⟨v, hv, hud⟩)))

end

section
variable (s : Schema) (d : QueryDoc) (evs : List Event) (hw : walkDoc s.view d = some evs)
  (hwp : Spec.wellParented s d = true)
include hw hwp

/-- where a value event comes from: the argument block of an argument site of the specification, whose
    usages are in the scope of the operation the event is fired for — or the default value of a variable -/
theorem event_block (hfu : Spec.fragmentNameUniqueness d = true) (e : Event) (he : e ∈ evs) (w : Value)
    (exp : Option GType) (dfn : Option Definition) (hp : e.p = .value w exp dfn) :
    (∃ site ∈ Spec.argSites s d, ∃ ws, e ∈ (walkArgs s.view e.cur site.defs site.args ws).2 ∧
        ∀ op, e.cur = some op → ∀ u ∈ Spec.usesInArgs s site.defs site.args, u ∈ Spec.scopeUses s d op) ∨
    (∃ op ∈ d.ops, ∃ vd ∈ op.vars, ∃ dv ws, vd.default = some dv ∧ e.cur = some op ∧
        e ∈ (walkValue s.view (some op) (some vd.type) (s.type? vd.type.name) dv ws).2) := by
  rcases walkDoc_value_origin s.view d evs hw e he w _ _ hp with
    ⟨e', he', f, par, fd, ws, hp', hc', hin⟩ | ⟨e', he', dir, dd, par, loc, ws, hp', hc', hin⟩ |
    ⟨op, hop, vd, hvd, dv, ws, hdv, hc, hin⟩
  · left
    obtain ⟨hmem, hfd⟩ := walk_parent_type s d evs hw hwp e' he' f par fd hp'
    refine ⟨⟨fd.map (·.args), f.args⟩, List.mem_append_left _ ?_, ws, hin, fun op hc u hu => ?_⟩
    · simp only [Spec.fieldArgSites, List.mem_filterMap]
      exact ⟨_, hmem, by rw [hfd]⟩
    · exact (block_uses_scope s d evs hw hwp hfu e' he' op (hc'.trans hc)).1 f par fd hp' u hu
  · left
    obtain ⟨hdd, hd⟩ := directive_event_sound' s d evs hw e' he' dir dd par loc hp'
    refine ⟨⟨dd.map (·.args), dir.args⟩, List.mem_append_right _ ?_, ws, hin, fun op hc u hu => ?_⟩
    · simp only [Spec.directiveArgSites, List.mem_map]
      exact ⟨dir, hd, by rw [hdd]⟩
    · exact (block_uses_scope s d evs hw hwp hfu e' he' op (hc'.trans hc)).2 dir dd par loc hp' u hu
  · exact Or.inr ⟨op, hop, vd, hvd, dv, ws, hdv, hc, hin⟩

end

/-- a marked site of an argument block of an accepted document is a marked usage of that block -/
theorem marked_site_use_args (s : Schema) (d : QueryDoc) (hs : schemaOK s = true) (hroots : rootsInput s d = true)
    (hvoc : Spec.valuesOfCorrectType s d = true) (site : Spec.ArgSite) (hsite : site ∈ Spec.argSites s d)
    (x : VSite) (hx : x ∈ argValSites s.view site.defs site.args) (dd : Definition) (r : Name) (pv : Pos)
    (hm : MarkedSite x dd r pv) :
    ∃ u ∈ Spec.usesInArgs s site.defs site.args, u.name = r ∧ u.pos = pv ∧ u.oneOf = some dd.name := by
  obtain ⟨a, ha, hxa⟩ := (mem_argValSites_iff s.view site.defs x site.args).1 hx
  cases hb : site.defs.bind (argDefForName · a.name) with
  | none =>
    rw [argLink_none s.view site.defs a.name hb] at hxa
    have := valSites_untyped s.view a.value x hxa
    obtain ⟨t', _, _, _, _, _, h1, _⟩ := hm
    rw [this] at h1
    cases h1
  | some ad =>
    cases hdefs : site.defs with
    | none => rw [hdefs] at hb; cases hb
    | some dl =>
      rw [hdefs] at hb hxa
      have had : Spec.argDefByName dl a.name = some ad := hb
      rw [argLink_some s.view dl a.name ad had] at hxa
      have htv : (ad.type, a.value) ∈ Spec.typedValueSites s d :=
        (mem_typedValueSites_iff s d _ _).2 (Or.inl ⟨site, hsite, dl, hdefs, a, ha, ad, had, rfl, rfl⟩)
      have hin := List.all_eq_true.1 hroots _ htv
      simp only [inputTypeB] at hin
      have hok := List.all_eq_true.1 hvoc _ htv
      simp only at hok
      cases hd0 : s.type? ad.type.name with
      | none => rw [hd0] at hin; cases hin
      | some d0 =>
        rw [hd0] at hin
        have hxa' : x ∈ valSites s.view (some ad.type) (some d0) a.value := by
          have : s.view.type? ad.type.name = some d0 := hd0
          rw [← this]; exact hxa
        obtain ⟨u, hu, h⟩ := marked_site_use_value s hs dd r pv a.value ad.type d0 ad.default.isSome none hd0 hin hok x hxa' hm
        refine ⟨u, ?_, h⟩
        unfold Spec.usesInArgs
        refine List.mem_flatMap.2 ⟨a, ha, ?_⟩
        have hb' : (some dl).bind (Spec.argDefByName · a.name) = some ad := had
        rw [hb']
        exact hu

theorem constDefault_no_uses (s : Schema) (d : QueryDoc) (hcd : constDefaults d = true) (op : OperationDef) (hop : op ∈ d.ops)
    (vd : VarDef) (hvd : vd ∈ op.vars) (dv : Value) (hdv : vd.default = some dv) (exp : Option GType) (ld : Bool)
    (oo : Option Name) (u : Spec.VarUse) (hu : u ∈ Spec.usesInValue s exp ld oo dv) : False := by
  have hcd' := List.all_eq_true.1 (List.all_eq_true.1 hcd op hop) vd hvd
  rw [hdv] at hcd'
  simp only [List.isEmpty_iff] at hcd'
  have : u.name ∈ (Spec.usesInValue s exp ld oo dv).map (·.name) := List.mem_map_of_mem hu
  rw [usesInValue_names, hcd'] at this
  cases this

theorem site_eq_of_payload {x : VSite} {w : Value} {exp : Option GType} {dfn : Option Definition}
    (h : Payload.value w exp dfn = Payload.value x.2.2 x.1 x.2.1) : x = (exp, dfn, w) := by
  obtain ⟨x1, x2, x3⟩ := x
  simp only [Payload.value.injEq] at h
  obtain ⟨h1, h2, h3⟩ := h
  rw [h1, h2, h3]

/-- the `@oneOf` clause of the specification at one operation and one usage -/
theorem oneOf_clause (s : Schema) (d : QueryDoc) (hoo : Spec.oneOfVariablesNonNull s d = true) (op : OperationDef)
    (hop : op ∈ d.ops) (u : Spec.VarUse) (hu : u ∈ Spec.scopeUses s d op) (nm : Name) (ho : u.oneOf = some nm)
    (vd : VarDef) (hv : varForName op.vars u.name = some vd) : vd.type.nonNull = true := by
  unfold Spec.oneOfVariablesNonNull at hoo
  have := List.all_eq_true.1 (List.all_eq_true.1 hoo op hop) u hu
  have hv' : Spec.varDefByName op u.name = some vd := hv
  rw [ho, hv'] at this
  exact this

section
variable (s : Schema) (d : QueryDoc) (evs : List Event) (hw : walkDoc s.view d = some evs)
  (hwp : Spec.wellParented s d = true)
include hw hwp

/-- THE CONVERSE FOR `@oneOf`: in a document that satisfies both specification predicates, no event
    of a `@oneOf` object literal sees a nullable variable definition for its single field -/
theorem oneOfVar_of_spec (hfu : Spec.fragmentNameUniqueness d = true) (hcd : constDefaults d = true)
    (hs : schemaOK s = true) (hroots : rootsInput s d = true) (hvoc : Spec.valuesOfCorrectType s d = true)
    (hoo : Spec.oneOfVariablesNonNull s d = true) (hpos : usePosDistinct s d = true) :
    ∀ e ∈ evs, ∀ w exp dfn, e.p = .value w (some exp) (some dfn) → oneOfVar e.links dfn w = true := by
  intro e he w exp dfn hp
  cases hcond : (w.kind == .object && dfn.kind == .inputObject && Spec.hasOneOf dfn) with
  | false => simp [oneOfVar, hcond]
  | true =>
  simp only [Bool.and_eq_true, beq_iff_eq] at hcond
  obtain ⟨⟨hk, hio⟩, hone⟩ := hcond
  unfold oneOfVar
  rw [Bool.or_eq_true]
  right
  obtain ⟨k, raw, ch, p⟩ := w
  simp only [Value.kind] at hk
  subst hk
  unfold oneOfVarOK
  simp only [Value.children]
  cases ch with
  | nil => rfl
  | cons n fv q rest =>
    cases rest with
    | cons _ _ _ _ => rfl
    | nil =>
      simp only
      obtain ⟨kv, rv, chv, pv⟩ := fv
      simp only [Value.kind, Value.pos]
      cases hkvb : (kv == ValueKind.variable) with
      | false => simp
      | true =>
      have hkv : kv = .variable := by simpa using hkvb
      subst hkv
      simp only [Bool.not_true, Bool.false_or]
      cases hv : e.links.varDef pv.start with
      | none => rfl
      | some vd =>
        simp only
        have hm : MarkedSite (some exp, some dfn, Value.mk .object raw (.cons n (.mk .variable rv chv pv) q .nil) p) dfn rv pv :=
          ⟨exp, raw, _, p, n, chv, rfl, rfl, rfl, hio, hone, Or.inl ⟨rfl, rfl⟩⟩
        rcases event_block s d evs hw hwp hfu e he _ _ _ hp with
          ⟨site, hsite, ws, hin, hscope⟩ | ⟨op, hop, vd0, hvd0, dv, ws, hdv, hc, hin⟩
        · obtain ⟨x, hx, hpx⟩ := walkArgs_sound hin
          rw [hp] at hpx
          have hxe := site_eq_of_payload hpx
          subst hxe
          obtain ⟨u, hu, hn, hpu, hou⟩ := marked_site_use_args s d hs hroots hvoc site hsite _ hx dfn rv pv hm
          have hall : u ∈ allUses s d := List.mem_flatMap.2 ⟨site, hsite, hu⟩
          cases hcur : e.cur with
          | some op =>
            rw [hcur] at hin
            have hlink := walkArgs_oneOfLink s.view op site.defs site.args ws e hin raw n rv chv pv q p _ _ hp
            rw [hv] at hlink
            have hop : op ∈ d.ops := (walkDoc_op_sound s.view d evs hw e he op hcur).1
            exact oneOf_clause s d hoo op hop u (hscope op hcur u hu) _ hou vd (by rw [hn]; exact hlink.symm)
          | none =>
            obtain ⟨e0, he0, op', r0, ch0, p0, exp0, dfn0, hc0, hp0, hk0, hx0⟩ :=
              (walkDoc_linksW s.view d evs hw e he).lookup hv
            have hop' : op' ∈ d.ops := (walkDoc_op_sound s.view d evs hw e0 he0 op' hc0).1
            rcases event_block s d evs hw hwp hfu e0 he0 _ _ _ hp0 with
              ⟨site0, hsite0, ws0, hin0, hscope0⟩ | ⟨op0, hop0, vd0, hvd0, dv, ws0, hdv, _, hin0⟩
            · obtain ⟨x0, hx0', hpx0⟩ := walkArgs_sound hin0
              rw [hp0] at hpx0
              have hxe0 := site_eq_of_payload hpx0
              subst hxe0
              obtain ⟨u0, hu0, hn0, hpu0⟩ := var_site_use_args s site0.defs site0.args _ hx0' r0 ch0 p0 rfl
              have hall0 : u0 ∈ allUses s d := List.mem_flatMap.2 ⟨site0, hsite0, hu0⟩
              obtain ⟨_, hof⟩ := usePosDistinct_apply s d hpos u0 hall0 u hall (by rw [hpu0, hpu]; exact hk0)
              exact oneOf_clause s d hoo op' hop' u0 (hscope0 op' hc0 u0 hu0) _ (hof.trans hou) vd
                (by rw [hn0]; exact hx0.symm)
            · exfalso
              obtain ⟨x0, hx0', hpx0⟩ := walkValue_sound hin0
              rw [hp0] at hpx0
              have hxe0 := site_eq_of_payload hpx0
              subst hxe0
              obtain ⟨u0, hu0, _⟩ := var_site_use_value s dv _ _ none false none _ hx0' r0 ch0 p0 rfl
              exact constDefault_no_uses s d hcd op0 hop0 vd0 hvd0 dv hdv _ _ _ u0 hu0
        · exfalso
          obtain ⟨x, hx, hpx⟩ := walkValue_sound hin
          rw [hp] at hpx
          have hxe := site_eq_of_payload hpx
          subst hxe
          have htv : (vd0.type, dv) ∈ Spec.typedValueSites s d :=
            (mem_typedValueSites_iff s d _ _).2 (Or.inr ⟨op, hop, vd0, hvd0, dv, hdv, rfl, rfl⟩)
          have hin' := List.all_eq_true.1 hroots _ htv
          simp only [inputTypeB] at hin'
          have hok := List.all_eq_true.1 hvoc _ htv
          simp only at hok
          cases hd0 : s.type? vd0.type.name with
          | none => rw [hd0] at hin'; cases hin'
          | some d0 =>
            rw [hd0] at hin'
            have hx' : (some exp, some dfn, Value.mk .object raw (.cons n (.mk .variable rv chv pv) q .nil) p) ∈
                valSites s.view (some vd0.type) (some d0) dv := by
              have : s.view.type? vd0.type.name = some d0 := hd0
              rw [← this]; exact hx
            obtain ⟨u, hu, _⟩ := marked_site_use_value s hs dfn rv pv dv vd0.type d0 false none hd0 hin' hok _ hx' hm
            exact constDefault_no_uses s d hcd op hop vd0 hvd0 dv hdv _ _ _ u hu

end


end Gql.Validate
