import GqlProofs.ValSpec.Coverage
/-
  Completeness of the walk (every field node and every directive list of the document gets its
  events) and the bridge between `InDoc` and the specification's `docSels` / `directiveSites`.
-/
namespace Gql.Validate
open Gql

/-- the directive list `ds` written at location `loc` has been walked -/
def HasDirs (s : SV) (loc : Bytes) (ds : List Directive) (evs : List Event) : Prop :=
  (∃ e ∈ evs, e.p = .directiveList ds) ∧
  ∀ dir ∈ ds, ∃ e ∈ evs, ∃ par, e.p = .directive dir (s.directive? dir.name) par loc

def HasItem (s : SV) (evs : List Event) : Item → Prop
  | .sel (.field al nm args dirs sub p) => ∃ e ∈ evs, ∃ par dfn, e.p = .field ⟨al, nm, args, dirs, sub, p⟩ par dfn
  | .sel _ => True
  | .dirs loc ds => HasDirs s loc ds evs

theorem HasDirs.inl {s : SV} {loc : Bytes} {ds : List Directive} {a : List Event} (b : List Event)
    (h : HasDirs s loc ds a) : HasDirs s loc ds (a ++ b) := by
  obtain ⟨⟨e, he, hp⟩, h2⟩ := h
  refine ⟨⟨e, List.mem_append_left _ he, hp⟩, fun dir hd => ?_⟩
  obtain ⟨e, he, x⟩ := h2 dir hd
  exact ⟨e, List.mem_append_left _ he, x⟩

theorem HasDirs.inr {s : SV} {loc : Bytes} {ds : List Directive} {b : List Event} (a : List Event)
    (h : HasDirs s loc ds b) : HasDirs s loc ds (a ++ b) := by
  obtain ⟨⟨e, he, hp⟩, h2⟩ := h
  refine ⟨⟨e, List.mem_append_right _ he, hp⟩, fun dir hd => ?_⟩
  obtain ⟨e, he, x⟩ := h2 dir hd
  exact ⟨e, List.mem_append_right _ he, x⟩

theorem HasItem.inl {s : SV} {a : List Event} (b : List Event) : ∀ {i : Item}, HasItem s a i → HasItem s (a ++ b) i
  | .sel (.field ..), h => by
    obtain ⟨e, he, x⟩ := h
    exact ⟨e, List.mem_append_left _ he, x⟩
  | .sel (.spread ..), _ => trivial
  | .sel (.inline ..), _ => trivial
  | .dirs _ _, h => HasDirs.inl b h

theorem HasItem.inr {s : SV} {b : List Event} (a : List Event) : ∀ {i : Item}, HasItem s b i → HasItem s (a ++ b) i
  | .sel (.field ..), h => by
    obtain ⟨e, he, x⟩ := h
    exact ⟨e, List.mem_append_right _ he, x⟩
  | .sel (.spread ..), _ => trivial
  | .sel (.inline ..), _ => trivial
  | .dirs _ _, h => HasDirs.inr a h

theorem walkDirectiveItems_complete (s : SV) (cur : Option OperationDef) (parent : Option Definition) (loc : Bytes) :
    ∀ (ds : List Directive) (ws : WS), ∀ dir ∈ ds, ∃ e ∈ (walkDirectiveItems s cur parent loc ds ws).2,
      ∃ par, e.p = .directive dir (s.directive? dir.name) par loc
  | [], _, dir, h => by cases h
  | d0 :: rest, ws, dir, h => by
    simp only [walkDirectiveItems]
    rcases List.mem_cons.1 h with rfl | h
    · exact ⟨_, List.mem_append_right _ List.mem_cons_self, parent, rfl⟩
    · obtain ⟨e, he, x⟩ := walkDirectiveItems_complete s cur parent loc rest _ dir h
      exact ⟨e, List.mem_append_right _ (List.mem_cons_of_mem _ he), x⟩

theorem walkDirectives_complete (s : SV) (cur : Option OperationDef) (parent : Option Definition)
    (ds : List Directive) (loc : Bytes) (ws : WS) : HasDirs s loc ds (walkDirectives s cur parent ds loc ws).2 := by
  simp only [walkDirectives]
  refine ⟨⟨_, List.mem_append_right _ (List.mem_singleton.2 rfl), rfl⟩, fun dir hd => ?_⟩
  obtain ⟨e, he, x⟩ := walkDirectiveItems_complete s cur parent loc ds ws dir hd
  exact ⟨e, List.mem_append_left _ he, x⟩

mutual
  theorem walkSelection_hasItems (s : SV) (d : QueryDoc) (cur : Option OperationDef) (J : Jump) :
      ∀ (x : Selection) (parent : Option Definition) (ws : WS) r, walkSelection s d cur J parent x ws = some r →
        ∀ i, InSel x i → HasItem s r.2 i
    | .field al nm args dirs sub p, parent, ws, r, h, i, hi => by
      unfold walkSelection at h
      simp only at h
      split at h
      · cases h
      · rename_i r3 h3
        injection h with h
        subst h
        cases hi with
        | self => exact HasItem.inr _ ⟨_, List.mem_singleton.2 rfl, _, _, rfl⟩
        | fieldDirs => exact HasItem.inl _ (HasItem.inl _ (HasItem.inr _ (walkDirectives_complete s cur _ dirs _ _)))
        | fieldSub _ _ _ _ _ _ _ hs =>
          exact HasItem.inl _ (HasItem.inr _ (walkSelections_hasItems s d cur J sub _ _ r3 h3 i hs))
    | .inline tc dirs sub p, parent, ws, r, h, i, hi => by
      unfold walkSelection at h
      simp only at h
      split at h
      · cases h
      · rename_i r3 h3
        injection h with h
        subst h
        cases hi with
        | self => trivial
        | inlineDirs => exact HasItem.inl _ (HasItem.inl _ (walkDirectives_complete s cur _ dirs _ _))
        | inlineSub _ _ _ _ _ hs =>
          exact HasItem.inl _ (HasItem.inr _ (walkSelections_hasItems s d cur J sub _ _ r3 h3 i hs))
    | .spread nm dirs p, parent, ws, r, h, i, hi => by
      unfold walkSelection at h
      simp only at h
      have hd := fun par w => walkDirectives_complete s cur par dirs locFragmentSpread w
      cases hi with
      | self => trivial
      | spreadDirs =>
        cases hf : fragForName d nm with
        | none =>
          rw [hf] at h
          simp only at h
          injection h with h
          subst h
          exact HasItem.inl _ (hd _ _)
        | some f =>
          rw [hf] at h
          simp only at h
          split at h
          · injection h with h
            subst h
            exact HasItem.inl _ (hd _ _)
          · split at h
            · cases h
            · rename_i r3 h3
              injection h with h
              subst h
              exact HasItem.inl _ (HasItem.inl _ (HasItem.inl _ (hd _ _)))
  theorem walkSelections_hasItems (s : SV) (d : QueryDoc) (cur : Option OperationDef) (J : Jump) :
      ∀ (xs : Selections) (parent : Option Definition) (ws : WS) r, walkSelections s d cur J parent xs ws = some r →
        ∀ i, InSels xs i → HasItem s r.2 i
    | .nil, parent, ws, r, h, i, hi => by cases hi
    | .cons x rest, parent, ws, r, h, i, hi => by
      unfold walkSelections at h
      split at h
      · cases h
      · rename_i r1 h1
        split at h
        · cases h
        · rename_i r2 h2
          injection h with h
          subst h
          cases hi with
          | head _ _ _ hx => exact HasItem.inl _ (walkSelection_hasItems s d cur J x parent ws r1 h1 i hx)
          | tail _ _ _ hx => exact HasItem.inr _ (walkSelections_hasItems s d cur J rest parent r1.1 r2 h2 i hx)
end

theorem walkVarDefsB_complete (s : SV) (cur : Option OperationDef) :
    ∀ (vs : List VarDef) (ws : WS), ∀ v ∈ vs, HasDirs s locVariableDefinition v.dirs (walkVarDefsB s cur vs ws).2
  | [], _, v, h => by cases h
  | v0 :: rest, ws, v, h => by
    simp only [walkVarDefsB]
    rcases List.mem_cons.1 h with rfl | h
    · exact HasDirs.inl _ (HasDirs.inr _ (walkDirectives_complete s cur _ v.dirs _ _))
    · exact HasDirs.inr _ (walkVarDefsB_complete s cur rest _ v h)

theorem walkOperation_hasItems (s : SV) (d : QueryDoc) (k : Nat) (op : OperationDef) (l : Links)
    (r : Links × List Event) (h : walkOperation s d (k + 1) op l = some r) :
    (∀ i, InSels op.sel i → HasItem s r.2 i) ∧ HasDirs s (opRoot s op.op).2 op.dirs r.2 ∧
      ∀ v ∈ op.vars, HasDirs s locVariableDefinition v.dirs r.2 := by
  unfold walkOperation at h
  simp only at h
  split at h
  · cases h
  · rename_i r4 h4
    injection h with h
    subst h
    simp only [walkLevel] at h4
    refine ⟨fun i hi => ?_, ?_, fun v hv => ?_⟩
    · exact HasItem.inl _ (HasItem.inr _ (walkSelections_hasItems s d _ _ op.sel _ _ r4 h4 i hi))
    · exact HasDirs.inl _ (HasDirs.inl _ (HasDirs.inr _ (walkDirectives_complete s _ _ op.dirs _ _)))
    · exact HasDirs.inl _ (HasDirs.inl _ (HasDirs.inl _ (HasDirs.inr _ (walkVarDefsB_complete s _ op.vars _ v hv))))

theorem walkFragment_hasItems (s : SV) (d : QueryDoc) (k : Nat) (f : FragmentDef) (l : Links)
    (r : Links × List Event) (h : walkFragment s d (k + 1) f l = some r) :
    (∀ i, InSels f.sel i → HasItem s r.2 i) ∧ HasDirs s locFragmentDefinition f.dirs r.2 := by
  unfold walkFragment at h
  simp only at h
  split at h
  · cases h
  · rename_i r2 h2
    injection h with h
    subst h
    simp only [walkLevel] at h2
    refine ⟨fun i hi => ?_, ?_⟩
    · exact HasItem.inl _ (HasItem.inr _ (walkSelections_hasItems s d _ _ f.sel _ _ r2 h2 i hi))
    · exact HasDirs.inl _ (HasDirs.inl _ (walkDirectives_complete s _ _ f.dirs _ _))

theorem walkOps_hasItems (s : SV) (d : QueryDoc) (k : Nat) :
    ∀ (ops : List OperationDef) (l : Links) (r : Links × List Event), walkOps s d (k + 1) ops l = some r →
      ∀ op ∈ ops, (∀ i, InSels op.sel i → HasItem s r.2 i) ∧ HasDirs s (opRoot s op.op).2 op.dirs r.2 ∧
        ∀ v ∈ op.vars, HasDirs s locVariableDefinition v.dirs r.2
  | [], _, _, _, op, hop => by cases hop
  | o :: rest, l, r, h, op, hop => by
    unfold walkOps at h
    split at h
    · cases h
    · rename_i r1 h1
      split at h
      · cases h
      · rename_i r2 h2
        injection h with h
        subst h
        rcases List.mem_cons.1 hop with rfl | hop
        · obtain ⟨a, b, c⟩ := walkOperation_hasItems s d k op l r1 h1
          exact ⟨fun i hi => HasItem.inl _ (a i hi), HasDirs.inl _ b, fun v hv => HasDirs.inl _ (c v hv)⟩
        · obtain ⟨a, b, c⟩ := walkOps_hasItems s d k rest r1.1 r2 h2 op hop
          exact ⟨fun i hi => HasItem.inr _ (a i hi), HasDirs.inr _ b, fun v hv => HasDirs.inr _ (c v hv)⟩

theorem walkFrags_hasItems (s : SV) (d : QueryDoc) (k : Nat) :
    ∀ (fs : List FragmentDef) (l : Links) (r : Links × List Event), walkFrags s d (k + 1) fs l = some r →
      ∀ f ∈ fs, (∀ i, InSels f.sel i → HasItem s r.2 i) ∧ HasDirs s locFragmentDefinition f.dirs r.2
  | [], _, _, _, f, hf => by cases hf
  | o :: rest, l, r, h, f, hf => by
    unfold walkFrags at h
    split at h
    · cases h
    · rename_i r1 h1
      split at h
      · cases h
      · rename_i r2 h2
        injection h with h
        subst h
        rcases List.mem_cons.1 hf with rfl | hf
        · obtain ⟨a, b⟩ := walkFragment_hasItems s d k f l r1 h1
          exact ⟨fun i hi => HasItem.inl _ (a i hi), HasDirs.inl _ b⟩
        · obtain ⟨a, b⟩ := walkFrags_hasItems s d k rest r1.1 r2 h2 f hf
          exact ⟨fun i hi => HasItem.inr _ (a i hi), HasDirs.inr _ b⟩

/-- completeness: every field node and every directive list of the document has its events -/
theorem walkDoc_hasItems (s : SV) (d : QueryDoc) (evs : List Event) (h : walkDoc s d = some evs) :
    ∀ i, InDoc s d i → HasItem s evs i := by
  intro i hi
  unfold walkDoc at h
  split at h
  · cases h
  · rename_i r1 h1
    split at h
    · cases h
    · rename_i r2 h2
      injection h with h
      subst h
      rcases hi with ⟨op, hop, hi⟩ | ⟨f, hf, hi⟩
      · obtain ⟨a, b, c⟩ := walkOps_hasItems s d _ d.ops _ r1 h1 op hop
        rcases hi with hi | rfl | ⟨v, hv, rfl⟩
        · exact HasItem.inl _ (a i hi)
        · exact HasItem.inl (s := s) _ (i := .dirs _ _) b
        · exact HasItem.inl (s := s) _ (i := .dirs _ _) (c v hv)
      · obtain ⟨a, b⟩ := walkFrags_hasItems s d _ d.frags _ r2 h2 f hf
        rcases hi with hi | rfl
        · exact HasItem.inr _ (a i hi)
        · exact HasItem.inr (s := s) _ (i := .dirs _ _) b

/- ---------- the directives of a fragment DEFINITION are walked in every walk that enters it ---------- -/

theorem walkDirectiveItems_complete_cur (s : SV) (cur : Option OperationDef) (parent : Option Definition) (loc : Bytes) :
    ∀ (ds : List Directive) (ws : WS), ∀ dir ∈ ds, ∃ e ∈ (walkDirectiveItems s cur parent loc ds ws).2,
      e.cur = cur ∧ e.p = .directive dir (s.directive? dir.name) parent loc
  | [], _, dir, h => by cases h
  | d0 :: rest, ws, dir, h => by
    simp only [walkDirectiveItems]
    rcases List.mem_cons.1 h with rfl | h
    · exact ⟨_, List.mem_append_right _ List.mem_cons_self, rfl, rfl⟩
    · obtain ⟨e, he, x⟩ := walkDirectiveItems_complete_cur s cur parent loc rest _ dir h
      exact ⟨e, List.mem_append_right _ (List.mem_cons_of_mem _ he), x⟩

/-- the directive list `ds`, written at `loc` with parent `parent`, has been walked on behalf of `cur` -/
def HasDirsCur (s : SV) (cur : Option OperationDef) (parent : Option Definition) (loc : Bytes)
    (ds : List Directive) (evs : List Event) : Prop :=
  (∃ e ∈ evs, e.cur = cur ∧ e.p = .directiveList ds) ∧
  ∀ dir ∈ ds, ∃ e ∈ evs, e.cur = cur ∧ e.p = .directive dir (s.directive? dir.name) parent loc

theorem walkDirectives_complete_cur (s : SV) (cur : Option OperationDef) (parent : Option Definition)
    (ds : List Directive) (loc : Bytes) (ws : WS) :
    HasDirsCur s cur parent loc ds (walkDirectives s cur parent ds loc ws).2 := by
  simp only [walkDirectives]
  refine ⟨⟨_, List.mem_append_right _ (List.mem_singleton.2 rfl), rfl, rfl⟩, fun dir hd => ?_⟩
  obtain ⟨e, he, x⟩ := walkDirectiveItems_complete_cur s cur parent loc ds ws dir hd
  exact ⟨e, List.mem_append_left _ he, x⟩

theorem HasDirsCur.inl {s : SV} {cur : Option OperationDef} {parent : Option Definition} {loc : Bytes}
    {ds : List Directive} {a : List Event} (b : List Event) (h : HasDirsCur s cur parent loc ds a) :
    HasDirsCur s cur parent loc ds (a ++ b) := by
  obtain ⟨⟨e, he, x⟩, h2⟩ := h
  refine ⟨⟨e, List.mem_append_left _ he, x⟩, fun dir hd => ?_⟩
  obtain ⟨e, he, x⟩ := h2 dir hd
  exact ⟨e, List.mem_append_left _ he, x⟩

theorem HasDirsCur.inr {s : SV} {cur : Option OperationDef} {parent : Option Definition} {loc : Bytes}
    {ds : List Directive} {b : List Event} (a : List Event) (h : HasDirsCur s cur parent loc ds b) :
    HasDirsCur s cur parent loc ds (a ++ b) := by
  obtain ⟨⟨e, he, x⟩, h2⟩ := h
  refine ⟨⟨e, List.mem_append_right _ he, x⟩, fun dir hd => ?_⟩
  obtain ⟨e, he, x⟩ := h2 dir hd
  exact ⟨e, List.mem_append_right _ he, x⟩

/-- a spread that enters its fragment (first visit in this walk) walks the directives of the
    fragment DEFINITION on behalf of the current operation, at location FRAGMENT_DEFINITION, with
    the definition of the fragment's type condition as parent -/
theorem walkSelection_spread_defDirs (s : SV) (d : QueryDoc) (cur : Option OperationDef) (J : Jump)
    (parent : Option Definition) (nm : Name) (dirs : List Directive) (p : Pos) (ws : WS) (r : WS × List Event)
    (f : FragmentDef) (h : walkSelection s d cur J parent (.spread nm dirs p) ws = some r)
    (hf : fragForName d nm = some f) (hv : ws.visited.contains f.name = false) :
    HasDirsCur s cur (s.type? f.typeCond) locFragmentDefinition f.dirs r.2 := by
  unfold walkSelection at h
  simp only at h
  rw [hf] at h
  simp only [walkDirectives_visited, markSel_visited, hv, Bool.false_eq_true, if_false] at h
  split at h
  · cases h
  · rename_i r3 h3
    injection h with h
    subst h
    exact HasDirsCur.inl _ (HasDirsCur.inl _ (HasDirsCur.inr _
      (walkDirectives_complete_cur s cur (s.type? f.typeCond) f.dirs locFragmentDefinition _)))

end Gql.Validate
