import GqlProofs.ValSpec.ValBlocks
import GqlModel.Validate.Spec.Variables
/-
  VariablesInAllowedPosition (§5.8.5), the TYPED BRIDGE FOR VALUES: the variables of an argument
  list with the expected types the WALKER assigns to them (`argValSites`: `ExpectedType` of the
  value events) are, in order, the variable usages the SPECIFICATION finds there with their
  location types (`Spec.usesInArgs`).

  The two typings differ in one place: below an object literal the walker looks the children up in
  `Definition.Fields` of the expected definition WHATEVER its kind, the specification only when it
  is an input object.  They agree when every type an argument or an input field is declared with
  resolves — if at all — to an input object or to a definition without fields
  (`inputPositionsPlain`; it follows from `Gql.Spec.Closed` for a schema whose scalars and enums
  carry no fields, `inputPositionsPlain_of_closed`).
-/
namespace Gql.Validate
open Gql

/-- the name `n` resolves, if at all, to an input object or to a definition without fields -/
def plainName (s : Schema) (n : Name) : Bool :=
  match s.type? n with
  | some dd => dd.kind == .inputObject || dd.fields.isEmpty
  | none => true

/-- every type an argument (of a field or of a directive) or an input field is declared with
    resolves, if at all, to an input object or to a definition without fields (scalar, enum) -/
def inputPositionsPlain (s : Schema) : Bool :=
  (s.types.all fun p => p.2.fields.all fun f =>
    f.args.all (fun a => plainName s a.type.name) && (p.2.kind != .inputObject || plainName s f.type.name)) &&
  (s.directives.all fun p => p.2.args.all fun a => plainName s a.type.name)

/-- the key of a usage: variable name and location type -/
def useKey (u : Spec.VarUse) : Name × Option GType := (u.name, u.loc)

/-- the key of a site of the walker: a variable with its `ExpectedType` -/
def siteVar : VSite → Option (Name × Option GType)
  | (exp, _, .mk k raw _ _) => if k = .variable then some (raw, exp) else none

/-- `exp` is absent or its name is plain -/
def PlainOpt (s : Schema) (exp : Option GType) : Prop := ∀ t, exp = some t → plainName s t.name = true

theorem lookup_mem_vp {α : Type} {n : Name} {x : α} : ∀ {l : List (Name × α)}, l.lookup n = some x → (n, x) ∈ l
  | [], h => by cases h
  | (k, v) :: rest, h => by
    simp only [List.lookup] at h
    split at h
    · rename_i heq
      have : n = k := by simpa using heq
      injection h with h
      subst this h
      exact List.mem_cons_self
    · exact List.mem_cons_of_mem _ (lookup_mem_vp h)

theorem type?_mem {s : Schema} {n : Name} {dd : Definition} (h : s.type? n = some dd) : (n, dd) ∈ s.types :=
  lookup_mem_vp h

theorem directive?_mem {s : Schema} {n : Name} {dd : DirectiveDef} (h : s.directive? n = some dd) :
    (n, dd) ∈ s.directives :=
  lookup_mem_vp h

section hyp
variable (s : Schema) (hs : inputPositionsPlain s = true)
include hs

theorem plain_inputField {p : Name × Definition} (hp : p ∈ s.types) (hk : p.2.kind = .inputObject)
    {f : FieldDef} (hf : f ∈ p.2.fields) : plainName s f.type.name = true := by
  simp only [inputPositionsPlain, Bool.and_eq_true, List.all_eq_true, Bool.or_eq_true, bne_iff_ne, ne_eq] at hs
  rcases (hs.1 p hp f hf).2 with h | h
  · exact absurd hk h
  · exact h

theorem plain_fieldArg {p : Name × Definition} (hp : p ∈ s.types) {f : FieldDef} (hf : f ∈ p.2.fields)
    {a : ArgDef} (ha : a ∈ f.args) : plainName s a.type.name = true := by
  simp only [inputPositionsPlain, Bool.and_eq_true, List.all_eq_true] at hs
  exact (hs.1 p hp f hf).1 a ha

theorem plain_directiveArg {p : Name × DirectiveDef} (hp : p ∈ s.directives) {a : ArgDef} (ha : a ∈ p.2.args) :
    plainName s a.type.name = true := by
  simp only [inputPositionsPlain, Bool.and_eq_true, List.all_eq_true] at hs
  exact hs.2 p hp a ha

end hyp

theorem filterMap_siteVar_self (exp : Option GType) (dfn : Option Definition) (k : ValueKind) (raw : Bytes)
    (ch : Children) (p : Pos) (hk : k ≠ .variable) :
    List.filterMap siteVar [((exp, dfn, Value.mk k raw ch p) : VSite)] = [] := by
  simp [siteVar, hk]

/-- what the specification's lookup of an input field gives, as a link -/
def specFieldType (d' : Option Definition) (n : Name) : Option GType :=
  (d'.bind fun dd => Spec.inputFieldByName dd n).map (·.type)

theorem objChildLink_snd (s : SV) (dfn : Option Definition) (n : Name) :
    (objChildLink s dfn n).2 = (objChildLink s dfn n).1.bind fun t => s.type? t.name := by
  unfold objChildLink
  cases dfn with
  | none => rfl
  | some d =>
    simp only
    cases fieldForName d.fields n <;> rfl

theorem argLink_snd (s : SV) (defs : Option (List ArgDef)) (n : Name) :
    (argLink s defs n).2 = (argLink s defs n).1.bind fun t => s.type? t.name := by
  unfold argLink
  cases defs.bind (argDefForName · n) <;> rfl

mutual
  /-- the variables of a value with the walker's expected types are the specification's usages
      with their location types -/
  theorem valSites_uses (s : Schema) (hs : inputPositionsPlain s = true) :
      ∀ (v : Value) (exp : Option GType) (dfn : Option Definition) (ld : Bool) (oo : Option Name),
        dfn = exp.bind (fun t => s.type? t.name) → PlainOpt s exp →
        (valSites s.view exp dfn v).filterMap siteVar = (Spec.usesInValue s exp ld oo v).map useKey
    | .mk k raw ch p, exp, dfn, ld, oo, hd, hp => by
      unfold valSites Spec.usesInValue
      rw [List.filterMap_append]
      cases k with
      | «variable» => simp [siteVar, useKey]
      | list =>
        rw [filterMap_siteVar_self _ _ _ _ _ _ (by simp), List.append_nil]
        exact listSites_uses s hs ch exp dfn hd hp
      | object =>
        rw [filterMap_siteVar_self _ _ _ _ _ _ (by simp), List.append_nil]
        simp only
        rw [← hd]
        cases hdd : dfn with
        | none =>
          simp only
          refine objSites_uses s hs ch none none (fun n => rfl) (fun n t h => ?_)
          simp [objChildLink] at h
        | some dd =>
          simp only
          -- where `dd` comes from
          obtain ⟨t, rfl, ht⟩ : ∃ t, exp = some t ∧ s.type? t.name = some dd := by
            rw [hdd] at hd
            cases exp with
            | none => cases hd
            | some t => exact ⟨t, rfl, hd.symm⟩
          have hpl := hp t rfl
          unfold plainName at hpl
          rw [ht] at hpl
          simp only [Bool.or_eq_true, beq_iff_eq, List.isEmpty_iff] at hpl
          by_cases hk : dd.kind = .inputObject
          · have hk' : (dd.kind == DefKind.inputObject) = true := by simp [hk]
            rw [if_pos hk']
            refine objSites_uses s hs ch (some dd) (some dd) (fun n => ?_) (fun n t' h => ?_)
            · simp only [objChildLink, specFieldType, Option.bind_some, Spec.inputFieldByName]
              change _ = Option.map _ (fieldForName dd.fields n)
              cases fieldForName dd.fields n <;> rfl
            · simp only [objChildLink] at h
              cases hf : fieldForName dd.fields n with
              | none => simp [hf] at h
              | some fd =>
                simp only [hf, linkOfType] at h
                injection h with h
                subst h
                exact plain_inputField s hs (type?_mem ht) hk (List.mem_of_find?_eq_some hf)
          · have hk' : ¬ (dd.kind == DefKind.inputObject) = true := by simp [hk]
            rw [if_neg hk']
            have hf : dd.fields = [] := by
              rcases hpl with h | h
              · exact absurd h hk
              · exact h
            refine objSites_uses s hs ch (some dd) none (fun n => ?_) (fun n t' h => ?_)
            · simp [objChildLink, specFieldType, hf, fieldForName]
            · simp [objChildLink, hf, fieldForName] at h
      | int | float | string | block | boolean | null | enum =>
        simp [siteVar]
  theorem objSites_uses (s : Schema) (hs : inputPositionsPlain s = true) :
      ∀ (ch : Children) (dfn d' : Option Definition),
        (∀ n, (objChildLink s.view dfn n).1 = specFieldType d' n) →
        (∀ n, PlainOpt s (objChildLink s.view dfn n).1) →
        (objSites s.view dfn ch).filterMap siteVar = (Spec.usesInFields s d' ch).map useKey
    | .nil, dfn, d', _, _ => by simp [objSites, Spec.usesInFields]
    | .cons n v q rest, dfn, d', hl, hp => by
      simp only [objSites, Spec.usesInFields, List.filterMap_append, List.map_append]
      rw [objSites_uses s hs rest dfn d' hl hp]
      congr 1
      have h1 := hl n
      have h2 := objChildLink_snd s.view dfn n
      unfold specFieldType at h1
      cases hb : d'.bind (fun dd => (Spec.inputFieldByName dd n).map fun fd => (dd, fd)) with
      | none =>
        simp only
        have : (d'.bind fun dd => Spec.inputFieldByName dd n) = none := by
          cases d' with
          | none => rfl
          | some dd =>
            simp only [Option.bind_some] at hb ⊢
            cases hf : Spec.inputFieldByName dd n with
            | none => rfl
            | some fd => simp [hf] at hb
        rw [this] at h1
        simp only [Option.map_none] at h1
        rw [h2, h1]
        exact valSites_uses s hs v none _ false none rfl (by intro t h; cases h)
      | some pr =>
        obtain ⟨dd, fd⟩ := pr
        simp only
        have : (d'.bind fun dd => Spec.inputFieldByName dd n) = some fd := by
          cases d' with
          | none => cases hb
          | some dd' =>
            simp only [Option.bind_some] at hb ⊢
            cases hf : Spec.inputFieldByName dd' n with
            | none => simp [hf] at hb
            | some fd' =>
              simp only [hf, Option.map_some, Option.some.injEq, Prod.mk.injEq] at hb
              rw [hb.2]
        rw [this] at h1
        simp only [Option.map_some] at h1
        have hpn := hp n
        rw [h1] at hpn
        rw [h2, h1]
        exact valSites_uses s hs v (some fd.type) _ _ _ rfl hpn
  theorem listSites_uses (s : Schema) (hs : inputPositionsPlain s = true) :
      ∀ (ch : Children) (exp : Option GType) (dfn : Option Definition),
        dfn = exp.bind (fun t => s.type? t.name) → PlainOpt s exp →
        (listSites s.view exp dfn ch).filterMap siteVar = (Spec.usesInItems s (Spec.elemOf exp) ch).map useKey
    | .nil, exp, dfn, _, _ => by simp [listSites, Spec.usesInItems]
    | .cons n v q rest, exp, dfn, hd, hp => by
      simp only [listSites, Spec.usesInItems, List.filterMap_append, List.map_append]
      rw [listSites_uses s hs rest exp dfn hd hp]
      congr 1
      have h1 : (listChildLink exp dfn).1 = Spec.elemOf exp := by
        cases exp with
        | none => rfl
        | some t => cases t <;> rfl
      have h2 : (listChildLink exp dfn).2 = (Spec.elemOf exp).bind fun t => s.type? t.name := by
        cases exp with
        | none => rfl
        | some t =>
          cases t with
          | named _ _ _ => rfl
          | list e nn q' =>
            subst hd
            rfl
      rw [h2, h1]
      refine valSites_uses s hs v _ _ false none rfl ?_
      intro t ht
      cases exp with
      | none => cases ht
      | some t' =>
        cases t' with
        | named _ _ _ => cases ht
        | list e nn q' =>
          simp only [Spec.elemOf, Option.some.injEq] at ht
          subst ht
          exact hp (.list e nn q') rfl
end

/-- arguments: the variables with the walker's expected types are the specification's usages -/
theorem argValSites_uses (s : Schema) (hs : inputPositionsPlain s = true) (defs : Option (List ArgDef))
    (hdefs : ∀ l, defs = some l → ∀ a ∈ l, plainName s a.type.name = true) :
    ∀ args : List Argument,
      (argValSites s.view defs args).filterMap siteVar = (Spec.usesInArgs s defs args).map useKey
  | [] => rfl
  | a :: rest => by
    have ih := argValSites_uses s hs defs hdefs rest
    simp only [Spec.usesInArgs, argValSites, List.flatMap_cons, List.filterMap_append, List.map_append] at ih ⊢
    rw [ih]
    congr 1
    have h2 := argLink_snd s.view defs a.name
    have h1 : (argLink s.view defs a.name).1 = (defs.bind (Spec.argDefByName · a.name)).map (·.type) := by
      unfold argLink
      change (match defs.bind (Spec.argDefByName · a.name) with
        | some ad => linkOfType s.view ad.type
        | none => (none, none)).1 = _
      cases defs.bind (Spec.argDefByName · a.name) <;> rfl
    cases hb : defs.bind (Spec.argDefByName · a.name) with
    | none =>
      rw [hb] at h1
      simp only [Option.map_none] at h1
      simp only
      rw [h2, h1]
      exact valSites_uses s hs a.value none _ false none rfl (by intro t h; cases h)
    | some ad =>
      rw [hb] at h1
      simp only [Option.map_some] at h1
      simp only
      rw [h2, h1]
      refine valSites_uses s hs a.value (some ad.type) _ _ _ rfl ?_
      intro t ht
      injection ht with ht
      subst ht
      cases defs with
      | none => cases hb
      | some l =>
        simp only [Option.bind_some] at hb
        exact hdefs l rfl ad (List.mem_of_find?_eq_some hb)

end Gql.Validate
