import GqlProofs.ValSpec.VarUses
/-
  C09: `Spec.expectedLinks` — the list of demanded links the `linkscheck` op compares a link dump
  with — as the RENDERING of a list of structured demands (`Demand`: the node itself with its
  declarative context), `expectedLinks_eq`.  The capstone of C09 is stated over these demands.
-/
namespace Gql.Validate
open Gql

/-- one demanded link: the node and what the specification's typing says about it -/
inductive Demand
  /-- a field node selected on `parent` -/
  | field (f : FieldNode) (parent : Option Definition)
  | spread (f : SpreadNode)
  /-- an inline fragment written where the type in scope is `parent` -/
  | inline (f : InlineNode) (parent : Option Definition)
  /-- a directive written at location `loc` -/
  | directive (dir : Directive) (loc : Bytes)
  | varDef (v : VarDef)
  | fragDef (f : FragmentDef)
  /-- a value node; `cands`: the admissible `var=` texts of a variable use of a given name -/
  | value (cands : Name → List String) (o : ValOcc)

/-- the expected-link record `linkscheck` uses for a demand -/
def Demand.render (s : Schema) (d : QueryDoc) : Demand → Spec.ExpLink
  | .field f parent =>
    { start := f.pos.start, kind := "F",
      fields := Spec.demand "obj" (parent.map fun x => bytesToString x.name) ++
        Spec.demand "def" ((parent.bind (Spec.fieldDefOn · f.name)).map fun x =>
          bytesToString x.name ++ ":" ++ bytesToString x.type.render),
      varCands := none }
  | .spread f =>
    { start := f.pos.start, kind := "S",
      fields := Spec.demand "def" ((Spec.fragByName d f.name).map fun g =>
        bytesToString g.name ++ "@" ++ toString g.pos.start),
      varCands := none }
  | .inline f parent =>
    { start := f.pos.start, kind := "I",
      fields := Spec.demand "obj" ((Spec.inlineType s parent f.typeCond).map fun x => bytesToString x.name),
      varCands := none }
  | .directive dir loc =>
    { start := dir.pos.start, kind := "D",
      fields := Spec.demand "def" ((s.directive? dir.name).map fun x => bytesToString x.name) ++
        [("loc", bytesToString loc)],
      varCands := none }
  | .varDef v =>
    { start := v.pos.start, kind := "VD",
      fields := Spec.demand "def" ((s.type? v.type.name).map fun x => bytesToString x.name), varCands := none }
  | .fragDef f =>
    { start := f.pos.start, kind := "FD",
      fields := Spec.demand "def" ((s.type? f.typeCond).map fun x => bytesToString x.name), varCands := none }
  | .value cands o => o.toExpLink cands

def argDemands (s : Schema) (cands : Name → List String) (defs : Option (List ArgDef)) (args : List Argument) :
    List Demand :=
  (argOccs s defs args).map (.value cands)

def dirDemands (s : Schema) (cands : Name → List String) (loc : Bytes) (dirs : List Directive) : List Demand :=
  dirs.flatMap fun dir => .directive dir loc :: argDemands s cands ((s.directive? dir.name).map (·.args)) dir.args

/-- the demands of one selection node in its declarative context (the node itself, its arguments,
    its directives with their arguments) -/
def nodeDemands (s : Schema) (cands : Name → List String) (t : Spec.TSel) : List Demand :=
  match t.sel with
  | .field al nm args dirs sub p =>
    .field ⟨al, nm, args, dirs, sub, p⟩ t.parent ::
      (argDemands s cands ((t.parent.bind (Spec.fieldDefOn · nm)).map (·.args)) args ++
        dirDemands s cands (str "FIELD") dirs)
  | .spread nm dirs p => .spread ⟨nm, dirs, p⟩ :: dirDemands s cands (str "FRAGMENT_SPREAD") dirs
  | .inline tc dirs sub p => .inline ⟨tc, dirs, sub, p⟩ t.parent :: dirDemands s cands (str "INLINE_FRAGMENT") dirs

theorem argDemands_render (s : Schema) (d : QueryDoc) (cands : Name → List String) (defs : Option (List ArgDef))
    (args : List Argument) : (argDemands s cands defs args).map (Demand.render s d) = Spec.argLinks s cands defs args := by
  rw [argLinks_eq, argDemands, List.map_map]
  rfl

theorem dirDemands_render (s : Schema) (d : QueryDoc) (cands : Name → List String) (loc : Bytes) :
    ∀ dirs : List Directive, (dirDemands s cands loc dirs).map (Demand.render s d) = Spec.dirLinks s cands loc dirs
  | [] => rfl
  | dir :: rest => by
    have ih := dirDemands_render s d cands loc rest
    simp only [dirDemands, Spec.dirLinks, List.flatMap_cons, List.map_append, List.map_cons] at ih ⊢
    rw [ih, argDemands_render]
    rfl

mutual
  theorem selLinks_eq (s : Schema) (d : QueryDoc) (cands : Name → List String) :
      ∀ (x : Selection) (parent : Option Definition),
        Spec.selLinks s d cands parent x =
          ((Spec.typedSel s parent x).flatMap (nodeDemands s cands)).map (Demand.render s d)
    | .field al nm args dirs sub p, parent => by
      simp only [Spec.selLinks, Spec.typedSel, List.flatMap_cons, nodeDemands, List.map_append, List.map_cons,
        argDemands_render, dirDemands_render, selsLinks_eq s d cands sub, List.cons_append, List.append_assoc]
      rfl
    | .spread nm dirs p, parent => by
      simp only [Spec.selLinks, Spec.typedSel, List.flatMap_cons, List.flatMap_nil, nodeDemands,
        List.map_cons, dirDemands_render, List.append_nil]
      rfl
    | .inline tc dirs sub p, parent => by
      simp only [Spec.selLinks, Spec.typedSel, List.flatMap_cons, nodeDemands, List.map_append, List.map_cons,
        dirDemands_render, selsLinks_eq s d cands sub, List.cons_append]
      rfl
  theorem selsLinks_eq (s : Schema) (d : QueryDoc) (cands : Name → List String) :
      ∀ (xs : Selections) (parent : Option Definition),
        Spec.selsLinks s d cands parent xs =
          ((Spec.typedSels s parent xs).flatMap (nodeDemands s cands)).map (Demand.render s d)
    | .nil, _ => rfl
    | .cons x rest, parent => by
      simp only [Spec.selsLinks, Spec.typedSels, List.flatMap_append, List.map_append, selLinks_eq s d cands x,
        selsLinks_eq s d cands rest]
end

/-- the default value of a variable: the node itself is not demanded, what is nested in it is -/
def defaultDemands (s : Schema) (cands : Name → List String) (v : VarDef) : List Demand :=
  match v.default with
  | some dv =>
    (match valOccs s true (some v.type) (s.type? v.type.name) dv with
     | top :: rest => .value cands { top with typed := false } :: rest.map (.value cands)
     | [] => [])
  | none => []

def opDemands (s : Schema) (_d : QueryDoc) (op : OperationDef) : List Demand :=
  let cands := Spec.varCandidates [op]
  op.vars.flatMap (fun v =>
    .varDef v :: (defaultDemands s cands v ++ dirDemands s cands (str "VARIABLE_DEFINITION") v.dirs)) ++
  dirDemands s cands (Spec.locOfOp op.op) op.dirs ++
  (Spec.typedSels s (Spec.rootDef s op.op) op.sel).flatMap (nodeDemands s cands)

/-- the operations whose scope contains the fragment definition (the specification identifies a
    definition by its position) -/
def fragOps (d : QueryDoc) (f : FragmentDef) : List OperationDef :=
  d.ops.filter fun op => (Spec.opFragments d op).any (·.pos == f.pos)

def fragDemands (s : Schema) (d : QueryDoc) (f : FragmentDef) : List Demand :=
  let cands := Spec.varCandidates (fragOps d f)
  .fragDef f :: (dirDemands s cands (str "FRAGMENT_DEFINITION") f.dirs ++
    (Spec.typedSels s (s.type? f.typeCond) f.sel).flatMap (nodeDemands s cands))

/-- every demanded link of the document, structured -/
def docDemands (s : Schema) (d : QueryDoc) : List Demand :=
  d.ops.flatMap (opDemands s d) ++ d.frags.flatMap (fragDemands s d)

theorem defaultDemands_render (s : Schema) (d : QueryDoc) (cands : Name → List String) (v : VarDef) :
    (defaultDemands s cands v).map (Demand.render s d) =
      (match v.default with
       | some dv =>
         (match Spec.valueLinks s cands true (some v.type) (s.type? v.type.name) dv with
          | top :: rest => { top with fields := [] } :: rest
          | [] => [])
       | none => []) := by
  unfold defaultDemands
  cases v.default with
  | none => rfl
  | some dv =>
    simp only [valueLinks_eq]
    cases valOccs s true (some v.type) (s.type? v.type.name) dv with
    | nil => rfl
    | cons top rest =>
      simp only [List.map_cons, List.map_map]
      rfl

theorem opLinks_eq (s : Schema) (d : QueryDoc) (op : OperationDef) :
    Spec.opLinks s d op = (opDemands s d op).map (Demand.render s d) := by
  simp only [Spec.opLinks, opDemands, List.map_append, dirDemands_render, ← selsLinks_eq]
  congr 2
  induction op.vars with
  | nil => rfl
  | cons v rest ih =>
    simp only [List.flatMap_cons, List.map_append, List.map_cons, ih, defaultDemands_render, dirDemands_render]
    rfl

theorem fragLinks_eq (s : Schema) (d : QueryDoc) (f : FragmentDef) :
    Spec.fragLinks s d f = (fragDemands s d f).map (Demand.render s d) := by
  simp only [Spec.fragLinks, fragDemands, List.map_cons, List.map_append, dirDemands_render, ← selsLinks_eq]
  rfl

/-- `Spec.expectedLinks` is the rendering of the structured demands -/
theorem expectedLinks_eq (s : Schema) (d : QueryDoc) :
    Spec.expectedLinks s d = (docDemands s d).map (Demand.render s d) := by
  have h1 : ∀ ops : List OperationDef, ops.flatMap (Spec.opLinks s d) =
      (ops.flatMap (opDemands s d)).map (Demand.render s d) := by
    intro ops
    induction ops with
    | nil => rfl
    | cons op rest ih => simp only [List.flatMap_cons, List.map_append, ih, opLinks_eq]
  have h2 : ∀ fs : List FragmentDef, fs.flatMap (Spec.fragLinks s d) =
      (fs.flatMap (fragDemands s d)).map (Demand.render s d) := by
    intro fs
    induction fs with
    | nil => rfl
    | cons f rest ih => simp only [List.flatMap_cons, List.map_append, ih, fragLinks_eq]
  simp only [Spec.expectedLinks, docDemands, List.map_append, h1, h2]

end Gql.Validate
