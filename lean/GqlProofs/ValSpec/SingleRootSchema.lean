import GqlProofs.ValSpec.SingleRoot3
import GqlModel.Schema.Spec
/-
  SingleFieldSubscriptions (§5.2.3.1): the schema hypothesis `subscriptionRootExact` follows from
  the loaded-schema predicates of `GqlModel/Schema/Spec.lean` — consistent keys, exact
  `PossibleTypes` on abstract types — and "the root operation types are object types"
  (`Spec.rootTypesAreObjects`: enforced by the loader since the repair of the root kinds,
  `Gql.Load.loaded_rootTypesAreObjects` / `C07_root_types_are_objects`).
-/
namespace Gql.Validate
open Gql Gql.Validate.Rules

theorem nodup_of_pairwiseDistinct : ∀ {l : List Name}, Gql.Spec.pairwiseDistinct l = true → l.Nodup
  | [], _ => List.nodup_nil
  | x :: rest, h => by
    simp only [Gql.Spec.pairwiseDistinct, Bool.and_eq_true, Bool.not_eq_eq_eq_not, Bool.not_true] at h
    rw [List.nodup_cons]
    refine ⟨?_, nodup_of_pairwiseDistinct h.2⟩
    intro hx
    have : rest.contains x = true := by simpa using hx
    rw [this] at h
    exact absurd h.1 (by simp)

theorem mem_iff_of_sameSet {a b : List Name} (h : Gql.Spec.sameSet a b = true) (x : Name) : x ∈ a ↔ x ∈ b := by
  unfold Gql.Spec.sameSet at h
  simp only [Bool.and_eq_true, List.all_eq_true, List.contains_eq_mem, decide_eq_true_eq] at h
  exact ⟨h.1 x, h.2 x⟩

theorem subscriptionRootExact_of_loaded (s : Schema) (hkeys : Gql.Spec.KeysConsistent s)
    (hposs : Gql.Spec.possibleAbstractExact s = true) (hroots : Gql.Spec.rootTypesAreObjects s = true) :
    subscriptionRootExact s = true := by
  obtain ⟨hname, _, hdist, _⟩ := hkeys
  have hnd : (s.types.map Prod.fst).Nodup := nodup_of_pairwiseDistinct hdist
  unfold subscriptionRootExact
  cases hsub : s.subscription with
  | none => rfl
  | some R =>
    simp only
    have hR : Gql.Spec.typeIs s R (· == .object) = true := by
      unfold Gql.Spec.rootTypesAreObjects at hroots
      have := List.all_eq_true.1 hroots s.subscription (by simp)
      rw [hsub] at this
      exact this
    unfold Gql.Spec.typeIs at hR
    have htype : ∀ n, s.type? n = s.types.lookup n := fun _ => rfl
    cases hobj : s.types.lookup R with
    | none => rw [hobj] at hR; cases hR
    | some obj =>
      rw [hobj] at hR
      have hk : obj.kind = .object := by simpa using hR
      have hon : obj.name = R := hname (R, obj) (Load.mem_of_lookup hobj)
      rw [htype, hobj]
      simp only [Bool.and_eq_true, beq_iff_eq, List.all_eq_true]
      refine ⟨⟨hk, hon⟩, ?_⟩
      intro p hp
      cases hft : s.types.lookup p.1 with
      | none => rw [htype, hft]
      | some ft =>
        rw [htype, hft]
        have hmem := Load.mem_of_lookup hft
        have hfn : ft.name = p.1 := hname (p.1, ft) hmem
        simp only [Bool.and_eq_true, beq_iff_eq]
        refine ⟨hfn, ?_⟩
        have hex := List.all_eq_true.1 hposs (p.1, ft) hmem
        cases hkind : ft.kind with
        | interface =>
          simp only [hkind, beq_self_eq_true, Bool.true_or, Bool.not_true, Bool.false_or] at hex
          have hiff := mem_iff_of_sameSet hex R
          have himp : R ∈ Gql.Spec.impliedPossible s p.1 ↔ p.1 ∈ obj.interfaces := by
            unfold Gql.Spec.impliedPossible
            rw [hft]
            simp only [hkind, List.mem_map, List.mem_filter, Bool.and_eq_true, Bool.or_eq_true, beq_iff_eq,
              List.contains_eq_mem, decide_eq_true_eq]
            constructor
            · rintro ⟨q, ⟨hq, _, hqi⟩, hq1⟩
              obtain ⟨qk, qd⟩ := q
              simp only at hq1 hqi
              subst hq1
              have := Load.lookup_of_mem_nodup hnd hq
              rw [hobj] at this
              injection this with this
              subst this
              exact hqi
            · intro hi
              exact ⟨(R, obj), ⟨Load.mem_of_lookup hobj, Or.inl hk, hi⟩, rfl⟩
          simp only [hfn]
          simp only [List.contains_eq_mem, beq_iff_eq, decide_eq_decide]
          exact hiff.trans himp
        | union =>
          simp only [hkind, beq_self_eq_true, Bool.or_true, Bool.not_true, Bool.false_or] at hex
          have hiff := mem_iff_of_sameSet hex R
          have himp : R ∈ Gql.Spec.impliedPossible s p.1 ↔ R ∈ ft.types := by
            unfold Gql.Spec.impliedPossible
            rw [hft]
            simp only [hkind]
          simp only [hfn, hon]
          simp only [List.contains_eq_mem, beq_iff_eq, decide_eq_decide]
          exact hiff.trans himp
        | object => rfl
        | scalar => rfl
        | enum => rfl
        | inputObject => rfl

/-- for a schema satisfying the loader's invariants whose root types are objects -/
theorem subscriptionRootExact_of_closed (s : Schema) (hc : Gql.Spec.Closed s) (hr : Gql.Spec.RelationsExact s)
    (hroots : Gql.Spec.rootTypesAreObjects s = true) : subscriptionRootExact s = true :=
  subscriptionRootExact_of_loaded s hc.keys hr.possibleAbstractExact hroots

end Gql.Validate
