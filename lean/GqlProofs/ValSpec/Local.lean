import GqlProofs.ValSpec.Sequence
import GqlModel.Validate.Spec.Valid
/-
  List-level lemmas that connect the duplicate detectors of the rule models with the
  specification's `distinct`.
-/
namespace Gql.Validate
open Gql Gql.Validate.Rules

theorem distinct_iff_nodup : ∀ xs : List Name, Spec.distinct xs = true ↔ xs.Nodup
  | [] => by simp [Spec.distinct]
  | x :: xs => by
    simp only [Spec.distinct, Bool.and_eq_true, Bool.not_eq_true', List.nodup_cons]
    rw [distinct_iff_nodup xs]
    constructor
    · rintro ⟨h1, h2⟩
      exact ⟨by simpa using h1, h2⟩
    · rintro ⟨h1, h2⟩
      exact ⟨by simpa using h1, h2⟩

theorem count_le_one_of_nodup : ∀ {l : List Name}, l.Nodup → ∀ x : Name, l.count x ≤ 1
  | [], _, x => by simp
  | y :: ys, h, x => by
    rw [List.nodup_cons] at h
    have ih := count_le_one_of_nodup h.2 x
    rw [List.count_cons]
    by_cases hxy : (y == x) = true
    · have hyx : y = x := eq_of_beq hxy
      subst hyx
      have h0 : ys.count y = 0 := List.count_eq_zero.2 h.1
      simp [h0]
    · simp only [hxy]
      simpa using ih

theorem count_eq_one_iff_mem_of_nodup {seen : List Name} (hn : seen.Nodup) (x : Name) :
    seen.count x = 1 ↔ x ∈ seen := by
  constructor
  · intro h
    exact List.count_pos_iff.1 (by omega)
  · intro h
    have := List.count_pos_iff.2 h
    have h2 := count_le_one_of_nodup hn x
    omega

/-- `mem`-before detector: no element occurs in `seen` or earlier in the list -/
def freshFrom (seen : List Name) : List Name → Prop
  | [] => True
  | x :: xs => x ∉ seen ∧ freshFrom (x :: seen) xs

theorem freshFrom_iff : ∀ (xs seen : List Name), freshFrom seen xs ↔ (∀ x ∈ xs, x ∉ seen) ∧ xs.Nodup
  | [], seen => by simp [freshFrom]
  | x :: xs, seen => by
    simp only [freshFrom, freshFrom_iff xs (x :: seen), List.mem_cons, List.nodup_cons, not_or]
    constructor
    · rintro ⟨h1, h2, h3⟩
      refine ⟨?_, ?_, h3⟩
      · intro y hy
        rcases hy with rfl | hy
        · exact h1
        · exact (h2 y hy).2
      · intro hx
        exact (h2 x hx).1 rfl
    · rintro ⟨h1, h2, h3⟩
      refine ⟨h1 x (Or.inl rfl), ?_, h3⟩
      intro y hy
      refine ⟨?_, h1 y (Or.inr hy)⟩
      intro hyx
      exact h2 (hyx ▸ hy)

theorem freshFrom_nil (xs : List Name) : freshFrom [] xs ↔ xs.Nodup := by
  rw [freshFrom_iff]
  simp

/-- `dupVars` (error at the second occurrence) is silent exactly on duplicate-free lists -/
theorem dupVars_nil_iff : ∀ (vs : List VarDef) (seen : List Name), seen.Nodup →
    (dupVars vs seen = [] ↔ freshFrom seen (vs.map (·.var)))
  | [], seen, _ => by simp [dupVars, freshFrom]
  | v :: rest, seen, hn => by
    simp only [dupVars, List.map_cons, freshFrom, List.append_eq_nil_iff]
    by_cases hm : v.var ∈ seen
    · have : seen.count v.var = 1 := (count_eq_one_iff_mem_of_nodup hn _).2 hm
      simp [this, hm]
    · have : ¬ seen.count v.var = 1 := fun h => hm ((count_eq_one_iff_mem_of_nodup hn _).1 h)
      have hn' : (v.var :: seen).Nodup := List.nodup_cons.2 ⟨hm, hn⟩
      simp [this, hm, dupVars_nil_iff rest (v.var :: seen) hn']

theorem checkUniqueArgs_nil_iff : ∀ (as : List Argument) (seen : List Name), seen.Nodup →
    (checkUniqueArgs as seen = [] ↔ freshFrom seen (as.map (·.name)))
  | [], seen, _ => by simp [checkUniqueArgs, freshFrom]
  | a :: rest, seen, hn => by
    simp only [checkUniqueArgs, List.map_cons, freshFrom, List.append_eq_nil_iff]
    by_cases hm : a.name ∈ seen
    · have : seen.count a.name = 1 := (count_eq_one_iff_mem_of_nodup hn _).2 hm
      simp [this, hm]
    · have : ¬ seen.count a.name = 1 := fun h => hm ((count_eq_one_iff_mem_of_nodup hn _).1 h)
      have hn' : (a.name :: seen).Nodup := List.nodup_cons.2 ⟨hm, hn⟩
      simp [this, hm, checkUniqueArgs_nil_iff rest (a.name :: seen) hn']

theorem dupInputFields_nil_iff : ∀ (ch : Children) (seen : List Name),
    (dupInputFields ch seen = [] ↔ freshFrom seen (Spec.childNames ch))
  | .nil, seen => by simp [dupInputFields, Spec.childNames, freshFrom]
  | .cons n v p rest, seen => by
    simp only [dupInputFields, Spec.childNames, freshFrom, List.append_eq_nil_iff]
    by_cases hm : n ∈ seen
    · simp [hm]
    · simp [hm, dupInputFields_nil_iff rest (n :: seen)]

/- ---------- membership in the operation / fragment events ---------- -/

theorem mem_opEvents {evs : List Event} {op : OperationDef} :
    op ∈ opEvents evs ↔ ∃ e ∈ evs, ∃ u, e.p = .operation op u := by
  simp only [opEvents, List.mem_filterMap]
  constructor
  · rintro ⟨e, he, h⟩
    refine ⟨e, he, ?_⟩
    unfold opOf at h
    cases hp : e.p <;> simp_all
  · rintro ⟨e, he, u, h⟩
    exact ⟨e, he, by simp [opOf, h]⟩

theorem mem_fragDefEvents {evs : List Event} {f : FragmentDef} :
    f ∈ fragDefEvents evs ↔ ∃ e ∈ evs, ∃ dfn, e.p = .fragment f dfn := by
  simp only [fragDefEvents, List.mem_filterMap]
  constructor
  · rintro ⟨e, he, h⟩
    refine ⟨e, he, ?_⟩
    unfold fragOf at h
    cases hp : e.p <;> simp_all
  · rintro ⟨e, he, u, h⟩
    exact ⟨e, he, by simp [fragOf, h]⟩

end Gql.Validate
