import GqlProofs.ValSpec.Complete
import GqlProofs.Validate.RuleFuel
import GqlProofs.Validate.WalkBound
/-
  The directives of a fragment DEFINITION are walked on behalf of every operation that enters the
  fragment (walk.go, `walkSelection`, FragmentSpread case: on the first visit of the fragment in a
  walk `walkDirectives(nextParentDef, def.Directives, LocationFragmentDefinition)` runs before the
  fragment's selection set).  So the variables used there are linked to — and marked used in — the
  operation, and the directive / value observers see them with `CurrentOperation` set.

  Invariant of a walk from visited set `v` to `v'`:
    (mono) v ⊆ v';
    (A)    every name in v' \ v is a fragment whose definition directives have events in this walk;
    (B)    every spread written in the walked selections whose fragment exists is in v'.
-/
namespace Gql.Validate
open Gql

/-- the fragment named `n` exists and its definition directives have been walked on behalf of `cur` -/
def DefDirsWalked (s : SV) (d : QueryDoc) (cur : Option OperationDef) (evs : List Event) (n : Name) : Prop :=
  ∃ f, fragForName d n = some f ∧ HasDirsCur s cur (s.type? f.typeCond) locFragmentDefinition f.dirs evs

theorem DefDirsWalked.inl {s : SV} {d : QueryDoc} {cur : Option OperationDef} {a : List Event} (b : List Event) {n : Name}
    (h : DefDirsWalked s d cur a n) : DefDirsWalked s d cur (a ++ b) n := by
  obtain ⟨f, hf, hd⟩ := h
  exact ⟨f, hf, HasDirsCur.inl b hd⟩

theorem DefDirsWalked.inr {s : SV} {d : QueryDoc} {cur : Option OperationDef} {b : List Event} (a : List Event) {n : Name}
    (h : DefDirsWalked s d cur b n) : DefDirsWalked s d cur (a ++ b) n := by
  obtain ⟨f, hf, hd⟩ := h
  exact ⟨f, hf, HasDirsCur.inr a hd⟩

/-- the walk invariant -/
def WalkDD (s : SV) (d : QueryDoc) (cur : Option OperationDef) (ws : WS) (r : WS × List Event) : Prop :=
  ws.visited ⊆ r.1.visited ∧ ∀ n ∈ r.1.visited, n ∈ ws.visited ∨ DefDirsWalked s d cur r.2 n

def JumpDD (s : SV) (d : QueryDoc) (cur : Option OperationDef) (J : Jump) : Prop :=
  ∀ parent sels (ws : WS) r, J parent sels ws = some r → WalkDD s d cur ws r

/-- the spread `nm` occurs in the selection -/
abbrev SpreadIn (x : Selection) (nm : Name) : Prop := ∃ dirs p, InSel x (.sel (.spread nm dirs p))
abbrev SpreadInSels (xs : Selections) (nm : Name) : Prop := ∃ dirs p, InSels xs (.sel (.spread nm dirs p))

mutual
  theorem walkSelection_dd (s : SV) (d : QueryDoc) (cur : Option OperationDef) (J : Jump) (hJ : JumpDD s d cur J) :
      ∀ (x : Selection) (parent : Option Definition) (ws : WS) r, walkSelection s d cur J parent x ws = some r →
        WalkDD s d cur ws r ∧ ∀ nm f, SpreadIn x nm → fragForName d nm = some f → nm ∈ r.1.visited
    | .field al nm args dirs sub p, parent, ws, r, h => by
      unfold walkSelection at h
      simp only at h
      split at h
      · cases h
      · rename_i r3 h3
        injection h with h
        subst h
        obtain ⟨⟨m, a⟩, b⟩ := walkSelections_dd s d cur J hJ sub _ _ r3 h3
        simp only [walkDirectives_visited, walkArgs_visited, markSel_visited] at m a
        refine ⟨⟨m, fun n hn => ?_⟩, fun nm' f hs hf => ?_⟩
        · rcases a n hn with h1 | h1
          · exact Or.inl h1
          · exact Or.inr (DefDirsWalked.inl _ (DefDirsWalked.inr _ h1))
        · obtain ⟨ds, q, hi⟩ := hs
          cases hi with
          | fieldSub _ _ _ _ _ _ _ hs' => exact b nm' f ⟨ds, q, hs'⟩ hf
    | .inline tc dirs sub p, parent, ws, r, h => by
      unfold walkSelection at h
      simp only at h
      split at h
      · cases h
      · rename_i r3 h3
        injection h with h
        subst h
        obtain ⟨⟨m, a⟩, b⟩ := walkSelections_dd s d cur J hJ sub _ _ r3 h3
        simp only [walkDirectives_visited, markSel_visited] at m a
        refine ⟨⟨m, fun n hn => ?_⟩, fun nm' f hs hf => ?_⟩
        · rcases a n hn with h1 | h1
          · exact Or.inl h1
          · exact Or.inr (DefDirsWalked.inl _ (DefDirsWalked.inr _ h1))
        · obtain ⟨ds, q, hi⟩ := hs
          cases hi with
          | inlineSub _ _ _ _ _ hs' => exact b nm' f ⟨ds, q, hs'⟩ hf
    | .spread nm dirs p, parent, ws, r, h => by
      have hself : ∀ nm', SpreadIn (.spread nm dirs p) nm' → nm' = nm := by
        intro nm' hs
        obtain ⟨ds, q, hi⟩ := hs
        cases hi
        rfl
      unfold walkSelection at h
      simp only at h
      cases hf : fragForName d nm with
      | none =>
        rw [hf] at h
        simp only at h
        injection h with h
        subst h
        refine ⟨⟨fun x hx => ?_, fun n hn => Or.inl ?_⟩, fun nm' f hs hf' => ?_⟩
        · simpa only [walkDirectives_visited, markSel_visited] using hx
        · simpa only [walkDirectives_visited, markSel_visited] using hn
        · rw [hself nm' hs, hf] at hf'
          cases hf'
      | some f =>
        rw [hf] at h
        simp only at h
        have hname := fragForName_name hf
        split at h
        · rename_i hc
          injection h with h
          subst h
          simp only [walkDirectives_visited, markSel_visited] at hc
          refine ⟨⟨fun x hx => ?_, fun n hn => Or.inl ?_⟩, fun nm' f' hs _ => ?_⟩
          · simpa only [walkDirectives_visited, markSel_visited] using hx
          · simpa only [walkDirectives_visited, markSel_visited] using hn
          · simp only [walkDirectives_visited, markSel_visited]
            rw [hself nm' hs, ← hname]
            simpa using hc
        · split at h
          · cases h
          · rename_i r3 h3
            injection h with h
            subst h
            obtain ⟨m, a⟩ := hJ _ _ _ r3 h3
            simp only [walkDirectives_visited, markSel_visited] at m a
            refine ⟨⟨fun x hx => m (List.mem_cons_of_mem _ hx), fun n hn => ?_⟩, fun nm' f' hs _ => ?_⟩
            · rcases a n hn with h1 | h1
              · rcases List.mem_cons.1 h1 with h2 | h2
                · right
                  refine ⟨f, by rw [h2, hname]; exact hf, ?_⟩
                  exact HasDirsCur.inl _ (HasDirsCur.inl _ (HasDirsCur.inr _
                    (walkDirectives_complete_cur s cur (s.type? f.typeCond) f.dirs locFragmentDefinition _)))
                · exact Or.inl h2
              · exact Or.inr (DefDirsWalked.inl _ (DefDirsWalked.inr _ h1))
            · rw [hself nm' hs, ← hname]
              exact m List.mem_cons_self
  theorem walkSelections_dd (s : SV) (d : QueryDoc) (cur : Option OperationDef) (J : Jump) (hJ : JumpDD s d cur J) :
      ∀ (xs : Selections) (parent : Option Definition) (ws : WS) r, walkSelections s d cur J parent xs ws = some r →
        WalkDD s d cur ws r ∧ ∀ nm f, SpreadInSels xs nm → fragForName d nm = some f → nm ∈ r.1.visited
    | .nil, parent, ws, r, h => by
      simp only [walkSelections] at h
      injection h with h
      subst h
      refine ⟨⟨fun _ hx => hx, fun n hn => Or.inl hn⟩, fun nm f hs _ => ?_⟩
      obtain ⟨_, _, hi⟩ := hs
      cases hi
    | .cons x rest, parent, ws, r, h => by
      unfold walkSelections at h
      split at h
      · cases h
      · rename_i r1 h1
        split at h
        · cases h
        · rename_i r2 h2
          injection h with h
          subst h
          obtain ⟨⟨m1, a1⟩, b1⟩ := walkSelection_dd s d cur J hJ x parent ws r1 h1
          obtain ⟨⟨m2, a2⟩, b2⟩ := walkSelections_dd s d cur J hJ rest parent r1.1 r2 h2
          refine ⟨⟨fun n hn => m2 (m1 hn), fun n hn => ?_⟩, fun nm f hs hf => ?_⟩
          · rcases a2 n hn with h3 | h3
            · rcases a1 n h3 with h4 | h4
              · exact Or.inl h4
              · exact Or.inr (DefDirsWalked.inl _ h4)
            · exact Or.inr (DefDirsWalked.inr _ h3)
          · obtain ⟨ds, q, hi⟩ := hs
            cases hi with
            | head _ _ _ hx => exact m2 (b1 nm f ⟨ds, q, hx⟩ hf)
            | tail _ _ _ hx => exact b2 nm f ⟨ds, q, hx⟩ hf
end

theorem walkLevel_dd (s : SV) (d : QueryDoc) (cur : Option OperationDef) : ∀ n, JumpDD s d cur (walkLevel s d cur n)
  | 0 => by intro _ _ _ _ h; simp [walkLevel] at h
  | n + 1 => by
    intro parent sels ws r h
    simp only [walkLevel] at h
    exact (walkSelections_dd s d cur _ (walkLevel_dd s d cur n) sels parent ws r h).1

/-- one operation: every fragment that a spread written in the operation's selection set names has
    had the directives of its DEFINITION walked on behalf of this operation -/
theorem walkOperation_defDirs (s : SV) (d : QueryDoc) (k : Nat) (op : OperationDef) (l : Links)
    (r : Links × List Event) (h : walkOperation s d (k + 1) op l = some r) :
    ∀ nm f, SpreadInSels op.sel nm → fragForName d nm = some f →
      HasDirsCur s (some op) (s.type? f.typeCond) locFragmentDefinition f.dirs r.2 := by
  intro nm f hs hf
  unfold walkOperation at h
  simp only at h
  split at h
  · cases h
  · rename_i r4 h4
    injection h with h
    subst h
    simp only [walkLevel] at h4
    obtain ⟨⟨_, a⟩, b⟩ := walkSelections_dd s d (some op) _ (walkLevel_dd s d (some op) k) op.sel _ _ r4 h4
    have hv := b nm f hs hf
    rcases a nm hv with h1 | ⟨f', hf', hd⟩
    · simp only [walkDirectives_visited, walkVarDefsB_visited] at h1
      cases h1
    · rw [hf] at hf'
      injection hf' with hf'
      subst hf'
      exact HasDirsCur.inl _ (HasDirsCur.inr _ hd)

theorem walkOps_defDirs (s : SV) (d : QueryDoc) (k : Nat) :
    ∀ (ops : List OperationDef) (l : Links) (r : Links × List Event), walkOps s d (k + 1) ops l = some r →
      ∀ op ∈ ops, ∀ nm f, SpreadInSels op.sel nm → fragForName d nm = some f →
        HasDirsCur s (some op) (s.type? f.typeCond) locFragmentDefinition f.dirs r.2
  | [], _, _, _, op, hop => by cases hop
  | o :: rest, l, r, h, op, hop => by
    unfold walkOps at h
    split at h
    · cases h
    · rename_i r1 h1
      split at h
      · cases h
      · rename_i r2 h2
        injection h with h
        subst h
        intro nm f hs hf
        rcases List.mem_cons.1 hop with rfl | hop
        · exact HasDirsCur.inl _ (walkOperation_defDirs s d k op l r1 h1 nm f hs hf)
        · exact HasDirsCur.inr _ (walkOps_defDirs s d k rest r1.1 r2 h2 op hop nm f hs hf)

/-- a whole run: for every operation and every spread written in its selection set whose fragment
    exists, the directive list of the fragment DEFINITION and each of its directives has an event
    with `CurrentOperation` = that operation, location FRAGMENT_DEFINITION and the definition of
    the fragment's type condition as parent definition -/
theorem walkDoc_defDirs (s : SV) (d : QueryDoc) (evs : List Event) (h : walkDoc s d = some evs) :
    ∀ op ∈ d.ops, ∀ nm f, SpreadInSels op.sel nm → fragForName d nm = some f →
      HasDirsCur s (some op) (s.type? f.typeCond) locFragmentDefinition f.dirs evs := by
  intro op hop nm f hs hf
  unfold walkDoc at h
  split at h
  · cases h
  · rename_i r1 h1
    split at h
    · cases h
    · rename_i r2 h2
      injection h with h
      subst h
      exact HasDirsCur.inl _ (walkOps_defDirs s d _ d.ops _ r1 h1 op hop nm f hs hf)

end Gql.Validate
