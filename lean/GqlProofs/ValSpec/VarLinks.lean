import GqlProofs.ValSpec.Reach
/-
  C09, variable links: `Value.VariableDefinition` is the one link that is NOT a function of the
  static context of the node.  The model keeps it in the side table `Links.vlinks` (key
  `pos.start`, most recent binding first); every event carries the table at the time it fires.

  `wr e`: what the walker writes just before it fires the event `e` — for a variable use walked
  while `CurrentOperation = op`, the binding `(start, op.VariableDefinitions.ForName(name))`; for
  every other event nothing.  `Trace l es l'`: the table threads through the event list — every
  event carries the table before it plus its own write.  A whole run has such a trace from the
  empty table (`walkDoc_trace`), so
    * a variable use walked on behalf of `op` shows `op`'s definition of that name at its own event
      (`trace_own`),
    * every later event shows, for that start, the binding of the LAST such write (`trace_last`);
      in particular when a fragment is walked again stand-alone (`CurrentOperation = nil`, nothing
      is written) its variable uses show the definition of the operation that walked them last —
      with several operations spreading one fragment that is the last of them in document order
      (the recorded C15 finding).
-/
namespace Gql.Validate
open Gql

/-- the binding written just before the event fires -/
def wr (e : Event) : VLinks :=
  match e.cur, e.p with
  | some op, .value (.mk .variable raw _ p) _ _ => [(p.start, varForName op.vars raw)]
  | _, _ => []

def Trace : VLinks → List Event → VLinks → Prop
  | l0, [], l1 => l1 = l0
  | l0, e :: es, l1 => e.links.vlinks = wr e ++ l0 ∧ Trace (wr e ++ l0) es l1

theorem Trace.append : ∀ {a b c : VLinks} {es es' : List Event}, Trace a es b → Trace b es' c → Trace a (es ++ es') c
  | _, _, _, [], _, h1, h2 => by
    simp only [Trace] at h1
    subst h1
    exact h2
  | _, _, _, e :: es, _, h1, h2 => by
    simp only [Trace, List.cons_append] at h1 ⊢
    exact ⟨h1.1, Trace.append h1.2 h2⟩

theorem Trace.single {a : VLinks} (e : Event) (hw : wr e = []) (hl : e.links.vlinks = a) : Trace a [e] a := by
  simp only [Trace, hw, List.nil_append]
  exact ⟨hl, trivial⟩

theorem wr_nonvalue (e : Event) (h : ¬ e.p.isValue) : wr e = [] := by
  unfold wr
  split
  · rename_i hp
    rw [hp] at h
    exact absurd trivial h
  · rfl

mutual
  theorem walkValue_trace (sv : SV) (cur : Option OperationDef) (exp : Option GType) (dfn : Option Definition) :
      ∀ (v : Value) (ws : WS), Trace ws.links.vlinks (walkValue sv cur exp dfn v ws).2
        (walkValue sv cur exp dfn v ws).1.links.vlinks
    | .mk k raw ch p, ws => by
      rw [walkValue_mkL]
      have hobj := walkObjChildren_trace sv cur dfn ch ws
      have hlist := walkListChildren_trace sv cur exp dfn ch ws
      match k with
      | .variable =>
        cases cur with
        | none => exact Trace.single _ rfl rfl
        | some op =>
          simp only [valChildren, valWs1, List.nil_append, Trace, wr, List.cons_append, and_self]
      | .list => exact Trace.append hlist (Trace.single _ (by cases cur <;> rfl) rfl)
      | .object => exact Trace.append hobj (Trace.single _ (by cases cur <;> rfl) rfl)
      | .int => exact Trace.single _ (by cases cur <;> rfl) rfl
      | .float => exact Trace.single _ (by cases cur <;> rfl) rfl
      | .string => exact Trace.single _ (by cases cur <;> rfl) rfl
      | .block => exact Trace.single _ (by cases cur <;> rfl) rfl
      | .boolean => exact Trace.single _ (by cases cur <;> rfl) rfl
      | .null => exact Trace.single _ (by cases cur <;> rfl) rfl
      | .enum => exact Trace.single _ (by cases cur <;> rfl) rfl
  theorem walkObjChildren_trace (sv : SV) (cur : Option OperationDef) (dfn : Option Definition) :
      ∀ (ch : Children) (ws : WS), Trace ws.links.vlinks (walkObjChildren sv cur dfn ch ws).2
        (walkObjChildren sv cur dfn ch ws).1.links.vlinks
    | .nil, ws => by simp [walkObjChildren, Trace]
    | .cons n v p rest, ws => by
      rw [walkObjChildren_consL]
      exact Trace.append (walkValue_trace sv cur _ _ v ws) (walkObjChildren_trace sv cur dfn rest _)
  theorem walkListChildren_trace (sv : SV) (cur : Option OperationDef) (exp : Option GType) (dfn : Option Definition) :
      ∀ (ch : Children) (ws : WS), Trace ws.links.vlinks (walkListChildren sv cur exp dfn ch ws).2
        (walkListChildren sv cur exp dfn ch ws).1.links.vlinks
    | .nil, ws => by simp [walkListChildren, Trace]
    | .cons n v p rest, ws => by
      rw [walkListChildren_consL]
      exact Trace.append (walkValue_trace sv cur _ _ v ws) (walkListChildren_trace sv cur exp dfn rest _)
end

theorem walkArgs_trace (sv : SV) (cur : Option OperationDef) (defs : Option (List ArgDef)) :
    ∀ (args : List Argument) (ws : WS), Trace ws.links.vlinks (walkArgs sv cur defs args ws).2
      (walkArgs sv cur defs args ws).1.links.vlinks
  | [], ws => by simp [walkArgs, Trace]
  | a :: rest, ws => by
    rw [walkArgs_consL]
    exact Trace.append (walkValue_trace sv cur _ _ a.value ws) (walkArgs_trace sv cur defs rest _)

theorem Built.trace {sv : SV} {d : QueryDoc} {a b : VLinks} {es : List Event} (h : Built sv d a es b) : Trace a es b := by
  induction h with
  | nil l => rfl
  | append _ _ ih1 ih2 => exact Trace.append ih1 ih2
  | args cur defs args ws _ _ => exact walkArgs_trace sv cur defs args ws
  | default op vd dv ws _ _ _ => exact walkValue_trace sv _ _ _ dv ws
  | vdef op vd l _ _ => exact Trace.single _ rfl rfl
  | ev e hv => exact Trace.single e (wr_nonvalue e hv.notValue) rfl

/-- the variable-link table threads through a whole run, from the empty table -/
theorem walkDoc_trace (sv : SV) (d : QueryDoc) (evs : List Event) (h : walkDoc sv d = some evs) :
    ∃ l, Trace [] evs l := by
  obtain ⟨l, hb⟩ := walkDoc_built sv d evs h
  exact ⟨l, hb.trace⟩

/-- the table after the events `es`, starting from `l0` -/
def logFrom (l0 : VLinks) (es : List Event) : VLinks := es.foldl (fun acc e => wr e ++ acc) l0

theorem trace_at : ∀ {l0 l1 : VLinks} (pre : List Event) (e : Event) (post : List Event),
    Trace l0 (pre ++ e :: post) l1 → e.links.vlinks = logFrom l0 (pre ++ [e])
  | _, _, [], e, post, h => by
    simp only [List.nil_append, Trace] at h
    simp only [List.nil_append, logFrom, List.foldl_cons, List.foldl_nil]
    exact h.1
  | _, _, e0 :: pre, e, post, h => by
    simp only [List.cons_append, Trace] at h
    have := trace_at pre e post h.2
    simpa only [List.cons_append, logFrom, List.foldl_cons] using this

theorem logFrom_append (l0 : VLinks) (a b : List Event) : logFrom l0 (a ++ b) = logFrom (logFrom l0 a) b := by
  simp [logFrom, List.foldl_append]

/-- no event of `es` writes the key `k` -/
def NoWrite (k : Nat) (es : List Event) : Prop := ∀ x ∈ es, ∀ y ∈ wr x, y.1 ≠ k

theorem logFrom_noWrite (k : Nat) : ∀ (es : List Event) (l0 : VLinks), NoWrite k es →
    (logFrom l0 es).lookup k = l0.lookup k
  | [], _, _ => rfl
  | e :: es, l0, h => by
    simp only [logFrom, List.foldl_cons]
    have ih := logFrom_noWrite k es (wr e ++ l0) (fun x hx => h x (List.mem_cons_of_mem _ hx))
    simp only [logFrom] at ih
    rw [ih]
    have he := h e List.mem_cons_self
    -- `wr e` has at most one binding
    unfold wr at he ⊢
    split
    · rename_i op raw ch p exp dfn hc hp
      simp only [hc, hp, List.mem_singleton, forall_eq] at he
      have hk : (k == p.start) = false := by
        simp only [beq_eq_false_iff_ne, ne_eq]
        exact fun h' => he h'.symm
      simp [List.lookup, hk]
    · rfl

/-- own event: a variable use walked on behalf of `op` shows `op`'s definition of that name -/
theorem trace_own {l0 l1 : VLinks} (pre : List Event) (e : Event) (post : List Event)
    (h : Trace l0 (pre ++ e :: post) l1) (op : OperationDef) (raw : Bytes) (ch : Children) (p : Pos)
    (exp : Option GType) (dfn : Option Definition) (hc : e.cur = some op)
    (hp : e.p = .value (.mk .variable raw ch p) exp dfn) : e.links.varDef p.start = varForName op.vars raw := by
  have := trace_at pre e post h
  rw [logFrom_append] at this
  simp only [logFrom, List.foldl_cons, List.foldl_nil] at this
  have hw : wr e = [(p.start, varForName op.vars raw)] := by
    unfold wr
    rw [hc, hp]
  rw [hw] at this
  unfold Links.varDef
  rw [this]
  simp

/-- later events: until the key is written again, every event shows the binding written last -/
theorem trace_last {l0 l1 : VLinks} (pre : List Event) (e : Event) (mid : List Event) (e' : Event) (post : List Event)
    (h : Trace l0 (pre ++ e :: (mid ++ e' :: post)) l1) (op : OperationDef) (raw : Bytes) (ch : Children) (p : Pos)
    (exp : Option GType) (dfn : Option Definition) (hc : e.cur = some op)
    (hp : e.p = .value (.mk .variable raw ch p) exp dfn) (hn : NoWrite p.start (mid ++ [e'])) :
    e'.links.varDef p.start = varForName op.vars raw := by
  have h' : Trace l0 ((pre ++ e :: mid) ++ e' :: post) l1 := by
    simpa only [List.append_assoc, List.cons_append] using h
  have := trace_at (pre ++ e :: mid) e' post h'
  have hsplit : pre ++ e :: mid ++ [e'] = (pre ++ [e]) ++ (mid ++ [e']) := by simp
  rw [hsplit, logFrom_append] at this
  unfold Links.varDef
  rw [this, logFrom_noWrite p.start _ _ hn, logFrom_append]
  simp only [logFrom, List.foldl_cons, List.foldl_nil]
  have hw : wr e = [(p.start, varForName op.vars raw)] := by
    unfold wr
    rw [hc, hp]
  rw [hw]
  simp

/-- a key nobody has written so far shows no definition -/
theorem trace_none {l1 : VLinks} (pre : List Event) (e' : Event) (post : List Event)
    (h : Trace [] (pre ++ e' :: post) l1) (k : Nat) (hn : NoWrite k (pre ++ [e'])) : e'.links.varDef k = none := by
  have := trace_at pre e' post h
  unfold Links.varDef
  rw [this, logFrom_noWrite k _ _ hn]
  rfl

/-- `wr e` is empty or one binding -/
theorem wr_cases (e : Event) : wr e = [] ∨ ∃ op raw ch p exp dfn, e.cur = some op ∧
    e.p = .value (.mk .variable raw ch p) exp dfn ∧ wr e = [(p.start, varForName op.vars raw)] := by
  unfold wr
  split
  · rename_i op raw ch p exp dfn hc hp
    exact Or.inr ⟨op, raw, ch, p, exp, dfn, hc, hp, rfl⟩
  · exact Or.inl rfl

/-- either nobody writes the key, or there is a last write -/
theorem lastWrite_cases (k : Nat) : ∀ es : List Event, NoWrite k es ∨
    ∃ pre e mid, es = pre ++ e :: mid ∧ NoWrite k mid ∧ ∃ op raw ch p exp dfn, e.cur = some op ∧
      e.p = .value (.mk .variable raw ch p) exp dfn ∧ p.start = k
  | [] => Or.inl (fun x hx => by cases hx)
  | x :: rest => by
    rcases lastWrite_cases k rest with h | ⟨pre, e, mid, he, hn, hx⟩
    · rcases wr_cases x with hw | ⟨op, raw, ch, p, exp, dfn, hc, hp, hw⟩
      · left
        intro y hy
        rcases List.mem_cons.1 hy with rfl | hy
        · rw [hw]; intro z hz; cases hz
        · exact h y hy
      · by_cases hk : p.start = k
        · exact Or.inr ⟨[], x, rest, rfl, h, op, raw, ch, p, exp, dfn, hc, hp, hk⟩
        · left
          intro y hy
          rcases List.mem_cons.1 hy with rfl | hy
          · rw [hw]
            intro z hz
            rw [List.mem_singleton.1 hz]
            exact hk
          · exact h y hy
    · exact Or.inr ⟨x :: pre, e, mid, by rw [he]; rfl, hn, hx⟩

/-- the link an event shows for the key `k` is the last binding written for `k` so far -/
theorem event_varDef {l1 : VLinks} (pre : List Event) (e' : Event) (post : List Event)
    (h : Trace [] (pre ++ e' :: post) l1) (k : Nat) :
    e'.links.varDef k = ((logFrom [] (pre ++ [e'])).lookup k).join := by
  unfold Links.varDef
  rw [trace_at pre e' post h]

theorem logFrom_lastWrite (k : Nat) (vd : Option VarDef) (pre : List Event) (e : Event) (mid : List Event) (l0 : VLinks)
    (hw : wr e = [(k, vd)]) (hn : NoWrite k mid) : (logFrom l0 (pre ++ e :: mid)).lookup k = some vd := by
  have hsplit : pre ++ e :: mid = (pre ++ [e]) ++ mid := by simp
  rw [hsplit, logFrom_append, logFrom_noWrite k _ _ hn, logFrom_append]
  simp only [logFrom, List.foldl_cons, List.foldl_nil, hw]
  simp

end Gql.Validate
