import GqlProofs.ValSpec.ValBlocks
import GqlProofs.ValSpec.TypedBridge
/-
  ValuesOfCorrectType (§5.6.1), part 1: the STEP.

  `valuesOfCorrectTypeStep` only looks at events `.value v (some expected) (some dfn)`; what it
  tests there is the Boolean `stepOK e.links expected dfn v`:
    * `localOK`  — the kind analysis of the node against `dfn` (and `expected` for `null` and for a
                   list literal), the required / unknown fields of an object literal and the `@oneOf` closure;
    * unless `dfn` is a custom scalar: `evalErr e.links v = false` (`Value.Value(nil)` succeeds).
  `step_nil_iff` : the step is silent on such an event iff `stepOK`; `step_other` : silent on every other event.
-/
namespace Gql.Validate
open Gql Gql.Validate.Rules

/-- a scalar that is not one of the five built-in scalars: the rule accepts every literal -/
def customScalar (dfn : Definition) : Bool := dfn.kind == .scalar && !defOneOf dfn builtinScalars

/-- the test of one typed value node, apart from `Value.Value(nil)` -/
def localOK (l : Links) (exp : GType) (dfn : Definition) (v : Value) : Bool :=
  !(v.kind == .null && exp.nonNull) &&
  (customScalar dfn ||
    match v.kind with
    | .null => true
    | .variable => true
    | .list => (match exp with | .named _ _ _ => false | .list _ _ _ => true)
    | .int => defOneOf dfn [str "Int", str "Float", str "ID"] &&
        (!defOneOf dfn [str "Int"] || parseIntErr 32 v.raw == .none) &&
        (defOneOf dfn [str "Int"] || !defOneOf dfn [str "Float"] || !floatErr v.raw)
    | .float => defOneOf dfn [str "Float"] && !floatErr v.raw
    | .string => dfn.kind != .enum && defOneOf dfn [str "String", str "ID"]
    | .block => dfn.kind != .enum && defOneOf dfn [str "String", str "ID"]
    | .enum => dfn.kind == .enum && dfn.enumValues.any (·.name == v.raw)
    | .boolean => defOneOf dfn [str "Boolean"]
    | .object => dfn.kind == .inputObject && (missingRequired dfn v dfn.fields).isEmpty &&
        (oneOfChecks l dfn v dfn.dirs).isEmpty && (unknownInputFields dfn v.children).isEmpty)

/-- what `valuesOfCorrectTypeStep` tests on an event `.value v (some exp) (some dfn)` with link snapshot `l` -/
def stepOK (l : Links) (exp : GType) (dfn : Definition) (v : Value) : Bool :=
  localOK l exp dfn v && (customScalar dfn || !evalErr l v)

theorem step_other (sv : SV) (d : QueryDoc) (e : Event)
    (h : ∀ v exp dfn, e.p ≠ .value v (some exp) (some dfn)) : valuesOfCorrectTypeStep sv d e = [] := by
  unfold valuesOfCorrectTypeStep
  split
  · rename_i v exp dfn hp
    exact absurd hp (h v exp dfn)
  · rfl

private theorem app_nil {α : Type} {a b : List α} : a ++ b = [] ↔ a = [] ∧ b = [] := List.append_eq_nil_iff

private theorem ite_nil {α : Type} {c : Bool} {x : α} : (if c = true then [x] else []) = [] ↔ c = false := by
  cases c <;> simp

theorem step_nil_iff (sv : SV) (d : QueryDoc) (e : Event) (v : Value) (exp : GType) (dfn : Definition)
    (hp : e.p = .value v (some exp) (some dfn)) :
    valuesOfCorrectTypeStep sv d e = [] ↔ stepOK e.links exp dfn v = true := by
  unfold valuesOfCorrectTypeStep
  rw [hp]
  simp only [stepOK, localOK, customScalar]
  cases hcs : (dfn.kind == .scalar && !defOneOf dfn builtinScalars)
  · simp only [Bool.false_eq_true, if_false, Bool.false_or]
    cases hk : v.kind <;> simp only []
    all_goals (simp [List.append_eq_nil_iff]; try ((repeat' split) <;> simp_all) <;> try (constructor <;> intro h <;> simp [h]))
  · simp only [if_true, Bool.true_or, Bool.and_true, ite_nil]
    cases (v.kind == .null && exp.nonNull) <;> simp

end Gql.Validate
