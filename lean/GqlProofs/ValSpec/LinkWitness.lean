import GqlProofs.ValSpec.VarUses
import GqlProofs.Validate.Witness
import GqlModel.Validate.Spec.Links
/-
  Concrete schemas and documents for the kernel-checked examples of C09: what the real loader /
  parser produce for the quoted texts, minus the prelude (positions only need distinct `start`
  offsets).
-/
namespace Gql.Validate.LinkWitness
open Gql Gql.Validate Gql.Validate.Witness

def fld (n : String) (ty : GType) (args : List ArgDef := []) : FieldDef :=
  { desc := [], name := str n, args := args, default := none, type := ty, dirs := [], pos := Pos.zero }

def arg (n : String) (ty : GType) : ArgDef :=
  { desc := [], name := str n, default := none, type := ty, dirs := [], pos := Pos.zero }

def mkDef (k : DefKind) (n : String) (fs : List FieldDef) (members : List String := []) : Definition :=
  { kind := k, desc := [], name := str n, dirs := [], interfaces := [], fields := fs, types := members.map str,
    enumValues := [], pos := Pos.zero, builtIn := false }

def tList (e : GType) (nn : Bool := false) : GType := .list e nn Pos.zero

def leaf (n : String) (o : Nat) : Selection := .field (str n) (str n) [] [] .nil (at' o)

/- ---------- inline fragments (the recorded finding) ---------- -/

/-- `type Query { ab: AB } type T { id: ID } type A { o: T } union AB = A` -/
def schemaI : Schema :=
  { Schema.empty with
    query := some (str "Query"),
    types := [(str "A", mkDef .object "A" [fld "o" (tNamed "T")]), (str "AB", mkDef .union "AB" [] ["A"]),
              (str "ID", scalar "ID"), (str "Query", mkDef .object "Query" [fld "ab" (tNamed "AB")]),
              (str "String", scalar "String"), (str "T", mkDef .object "T" [fld "id" (tNamed "ID")])],
    possibleTypes := [(str "A", [str "A"]), (str "AB", [str "A"]), (str "Query", [str "Query"]), (str "T", [str "T"])] }

def inlineI : Selection :=
  .inline (str "A") [] (.cons (.field (str "o") (str "o") [] [] (.cons (leaf "id" 22) .nil) (at' 18)) .nil) (at' 7)

/-- `{ ab { ... on A { o { id } } } }` -/
def docI : QueryDoc :=
  { ops := [{ op := str "query", name := [], vars := [], dirs := [],
              sel := .cons (.field (str "ab") (str "ab") [] [] (.cons inlineI .nil) (at' 2)) .nil,
              pos := at' 0 }],
    frags := [] }

/- ---------- values ---------- -/

/-- `scalar Any  input In { xs: [Int] any: Any sub: In }
    type Query { f(l: [In], i: In, a: Any, n: [Int]): Int }  directive @include(if: Boolean!) on FIELD` -/
def schemaV : Schema :=
  { Schema.empty with
    query := some (str "Query"),
    types := [(str "Any", { scalar "Any" with builtIn := false }), (str "Boolean", scalar "Boolean"),
              (str "In", mkDef .inputObject "In" [fld "xs" (tList (tNamed "Int")), fld "any" (tNamed "Any"),
                                                  fld "sub" (tNamed "In")]),
              (str "Int", scalar "Int"),
              (str "Query", mkDef .object "Query"
                [fld "f" (tNamed "Int") [arg "l" (tList (tNamed "In")), arg "i" (tNamed "In"), arg "a" (tNamed "Any"),
                                         arg "n" (tList (tNamed "Int"))]]),
              (str "String", scalar "String")],
    directives := [(str "include", { desc := [], name := str "include", args := [arg "if" (tNamed "Boolean" true)],
                                     locations := [str "FIELD"], repeatable := false, pos := Pos.zero })],
    possibleTypes := [(str "Query", [str "Query"])] }

def lit (k : ValueKind) (raw : String) (o : Nat) : Value := .mk k (str raw) .nil (at' o)

/-- `{xs: [1, $v]}` at offset 30 -/
def valL : Value :=
  .mk .object [] (.cons (str "xs")
    (.mk .list [] (.cons [] (lit .int "1" 36) (at' 36) (.cons [] (lit .variable "v" 39) (at' 39) .nil)) (at' 35))
    (at' 31) .nil) (at' 30)

/-- `{k: [1]}` at offset 47 -/
def valA : Value :=
  .mk .object [] (.cons (str "k") (.mk .list [] (.cons [] (lit .int "1" 52) (at' 52) .nil) (at' 51)) (at' 48) .nil) (at' 47)

/-- `query ($v: Int = 3, $b: Boolean!) { f(l: {xs: [1, $v]}, a: {k: [1]}, n: 5) @include(if: $b) }` -/
def docV : QueryDoc :=
  { ops := [{ op := str "query", name := [],
              vars := [{ var := str "v", type := tNamed "Int", default := some (lit .int "3" 17), dirs := [], pos := at' 7 },
                       { var := str "b", type := tNamed "Boolean" true, default := none, dirs := [], pos := at' 20 }],
              dirs := [],
              sel := .cons (.field (str "f") (str "f")
                        [{ name := str "l", value := valL, pos := at' 27 }, { name := str "a", value := valA, pos := at' 44 },
                         { name := str "n", value := lit .int "5" 61, pos := at' 58 }]
                        [{ name := str "include", args := [{ name := str "if", value := lit .variable "b" 77, pos := at' 73 }],
                           pos := at' 64 }]
                        .nil (at' 25)) .nil,
              pos := at' 0 }],
    frags := [] }

/- ---------- a fragment shared by two operations (C15) ---------- -/

/-- `input C { v: Int }  type Query { args(l: [Int], c: C): Int }` -/
def schemaS : Schema :=
  { Schema.empty with
    query := some (str "Query"),
    types := [(str "C", mkDef .inputObject "C" [fld "v" (tNamed "Int")]), (str "Int", scalar "Int"),
              (str "Query", mkDef .object "Query"
                [fld "args" (tNamed "Int") [arg "l" (tList (tNamed "Int")), arg "c" (tNamed "C")]]),
              (str "String", scalar "String")],
    possibleTypes := [(str "Query", [str "Query"])] }

def varA : VarDef := { var := str "v", type := tNamed "Int", default := none, dirs := [], pos := at' 8 }
def varB : VarDef := { var := str "v", type := tNamed "Int", default := some (lit .int "2" 45), dirs := [], pos := at' 36 }

def opA : OperationDef :=
  { op := str "query", name := str "A", vars := [varA], dirs := [], sel := .cons (.spread (str "F") [] (at' 19)) .nil,
    pos := at' 0 }
def opB : OperationDef :=
  { op := str "query", name := str "B", vars := [varB], dirs := [], sel := .cons (.spread (str "F") [] (at' 50)) .nil,
    pos := at' 28 }

/-- the use `$v` inside `[$v]` -/
def useL : Value := lit .variable "v" 90
/-- the use `$v` inside `{v: $v}` -/
def useC : Value := lit .variable "v" 102

/-- `query A($v: Int) { ...F } query B($v: Int = 2) { ...F } fragment F on Query { args(l: [$v], c: {v: $v}) }` -/
def docS : QueryDoc :=
  { ops := [opA, opB],
    frags := [{ name := str "F", vars := [], typeCond := str "Query", dirs := [],
                sel := .cons (.field (str "args") (str "args")
                         [{ name := str "l", value := .mk .list [] (.cons [] useL (at' 90) .nil) (at' 89), pos := at' 86 },
                          { name := str "c", value := .mk .object [] (.cons (str "v") useC (at' 99) .nil) (at' 98), pos := at' 95 }]
                         [] .nil (at' 81)) .nil,
                pos := at' 58 }] }

end Gql.Validate.LinkWitness
