import GqlProofs.ValSpec.ValuesCorrect
import GqlModel.Schema.Spec
/-
  ValuesOfCorrectType: where the hypotheses of `C08_ValuesOfCorrectType_partial` come from.
    * `oneOfVariablesNonNull_of_noOneOf`: without `@oneOf` in the schema the second conjunct of the
      specification entry (`Spec.oneOfVariablesNonNull`) is true;
    * `rootsInput_of_closed`: argument types of a closed schema resolve to input types, variable types by
      `Spec.variablesAreInputTypes`;
    * `int_lexeme_agree`: for an IntValue lexeme `-?[0-9]+` the model of `strconv.ParseInt(·, 10, 32)` and
      `Spec.int32Ok` agree, and `ParseInt(·, 10, 64)` gives no syntax error.
-/
namespace Gql.Validate
open Gql Gql.Validate.Rules

/- ================= no `@oneOf` ================= -/

theorem hasOneOf_false_of_type? {s : Schema} (hno : noOneOf s = true) {n : Name} {d : Definition} (h : s.type? n = some d) :
    Spec.hasOneOf d = false := by
  unfold noOneOf at hno
  rw [List.all_eq_true] at hno
  have := hno _ (mem_of_lookup' s.types _ _ h)
  simpa using this

mutual
  theorem usesInValue_noOneOf (s : Schema) (hno : noOneOf s = true) :
      ∀ (v : Value) (exp : Option GType) (ld : Bool), ∀ u ∈ Spec.usesInValue s exp ld none v, u.oneOf = none
    | .mk k raw ch p, exp, ld, u, hu => by
      unfold Spec.usesInValue at hu
      cases k <;> simp only [List.not_mem_nil, List.mem_singleton] at hu
      case «variable» => rw [hu]
      case list => exact usesInItems_noOneOf s hno ch _ u hu
      case object =>
        cases hb : exp.bind (fun t => s.type? t.name) with
        | none =>
          rw [hb] at hu
          exact usesInFields_noOneOf s hno ch none (fun _ h => nomatch h) u hu
        | some d0 =>
          rw [hb] at hu
          simp only at hu
          have hd0 : Spec.hasOneOf d0 = false := by
            cases exp with
            | none => cases hb
            | some t => exact hasOneOf_false_of_type? hno hb
          split at hu
          · exact usesInFields_noOneOf s hno ch (some d0) (fun dd h => by cases h; exact hd0) u hu
          · exact usesInFields_noOneOf s hno ch none (fun _ h => nomatch h) u hu
  theorem usesInItems_noOneOf (s : Schema) (hno : noOneOf s = true) :
      ∀ (ch : Children) (e : Option GType), ∀ u ∈ Spec.usesInItems s e ch, u.oneOf = none
    | .nil, e, u, hu => by simp [Spec.usesInItems] at hu
    | .cons n v p rest, e, u, hu => by
      rw [Spec.usesInItems] at hu
      rcases List.mem_append.1 hu with hu | hu
      · exact usesInValue_noOneOf s hno v e false u hu
      · exact usesInItems_noOneOf s hno rest e u hu
  theorem usesInFields_noOneOf (s : Schema) (hno : noOneOf s = true) :
      ∀ (ch : Children) (d : Option Definition), (∀ dd, d = some dd → Spec.hasOneOf dd = false) →
        ∀ u ∈ Spec.usesInFields s d ch, u.oneOf = none
    | .nil, d, _, u, hu => by simp [Spec.usesInFields] at hu
    | .cons n v p rest, d, hd, u, hu => by
      rw [Spec.usesInFields] at hu
      rcases List.mem_append.1 hu with hu | hu
      · cases hb : d.bind (fun dd => (Spec.inputFieldByName dd n).map fun fd => (dd, fd)) with
        | none =>
          rw [hb] at hu
          exact usesInValue_noOneOf s hno v none false u hu
        | some pr =>
          obtain ⟨dd, fd⟩ := pr
          rw [hb] at hu
          simp only at hu
          have hdd : Spec.hasOneOf dd = false := by
            cases d with
            | none => cases hb
            | some d1 =>
              simp only [Option.bind_some, Option.map_eq_some_iff, Prod.mk.injEq] at hb
              obtain ⟨_, _, h1, _⟩ := hb
              rw [← h1]
              exact hd d1 rfl
          rw [hdd] at hu
          exact usesInValue_noOneOf s hno v _ _ u hu
      · exact usesInFields_noOneOf s hno rest d hd u hu
end

theorem usesInArgs_noOneOf (s : Schema) (hno : noOneOf s = true) (defs : Option (List ArgDef)) (args : List Argument) :
    ∀ u ∈ Spec.usesInArgs s defs args, u.oneOf = none := by
  intro u hu
  unfold Spec.usesInArgs at hu
  obtain ⟨a, _, hu⟩ := List.mem_flatMap.1 hu
  split at hu
  · exact usesInValue_noOneOf s hno a.value _ _ u hu
  · exact usesInValue_noOneOf s hno a.value _ _ u hu

theorem usesInDirs_noOneOf (s : Schema) (hno : noOneOf s = true) (dirs : List Directive) :
    ∀ u ∈ Spec.usesInDirs s dirs, u.oneOf = none := by
  intro u hu
  unfold Spec.usesInDirs at hu
  obtain ⟨dir, _, hu⟩ := List.mem_flatMap.1 hu
  exact usesInArgs_noOneOf s hno _ _ u hu

mutual
  theorem usesInSel_noOneOf (s : Schema) (hno : noOneOf s = true) :
      ∀ (x : Selection) (parent : Option Definition), ∀ u ∈ Spec.usesInSel s parent x, u.oneOf = none
    | .field al nm args dirs sub p, parent, u, hu => by
      rw [Spec.usesInSel] at hu
      rcases List.mem_append.1 hu with hu | hu
      · rcases List.mem_append.1 hu with hu | hu
        · exact usesInArgs_noOneOf s hno _ _ u hu
        · exact usesInDirs_noOneOf s hno _ u hu
      · exact usesInSels_noOneOf s hno sub _ u hu
    | .spread nm dirs p, parent, u, hu => by
      rw [Spec.usesInSel] at hu
      exact usesInDirs_noOneOf s hno _ u hu
    | .inline tc dirs sub p, parent, u, hu => by
      rw [Spec.usesInSel] at hu
      rcases List.mem_append.1 hu with hu | hu
      · exact usesInDirs_noOneOf s hno _ u hu
      · exact usesInSels_noOneOf s hno sub _ u hu
  theorem usesInSels_noOneOf (s : Schema) (hno : noOneOf s = true) :
      ∀ (xs : Selections) (parent : Option Definition), ∀ u ∈ Spec.usesInSels s parent xs, u.oneOf = none
    | .nil, parent, u, hu => by simp [Spec.usesInSels] at hu
    | .cons x rest, parent, u, hu => by
      rw [Spec.usesInSels] at hu
      rcases List.mem_append.1 hu with hu | hu
      · exact usesInSel_noOneOf s hno x parent u hu
      · exact usesInSels_noOneOf s hno rest parent u hu
end

theorem scopeUses_noOneOf (s : Schema) (hno : noOneOf s = true) (d : QueryDoc) (op : OperationDef) :
    ∀ u ∈ Spec.scopeUses s d op, u.oneOf = none := by
  intro u hu
  unfold Spec.scopeUses at hu
  rcases List.mem_append.1 hu with hu | hu
  · unfold Spec.usesInOperation at hu
    rcases List.mem_append.1 hu with hu | hu
    · rcases List.mem_append.1 hu with hu | hu
      · obtain ⟨v, _, hu⟩ := List.mem_flatMap.1 hu
        exact usesInDirs_noOneOf s hno _ u hu
      · exact usesInDirs_noOneOf s hno _ u hu
    · exact usesInSels_noOneOf s hno _ _ u hu
  · obtain ⟨f, _, hu⟩ := List.mem_flatMap.1 hu
    unfold Spec.usesInFragment at hu
    rcases List.mem_append.1 hu with hu | hu
    · exact usesInDirs_noOneOf s hno _ u hu
    · exact usesInSels_noOneOf s hno _ _ u hu

/-- without `@oneOf` in the schema no variable usage is a `@oneOf` field -/
theorem oneOfVariablesNonNull_of_noOneOf (s : Schema) (d : QueryDoc) (hno : noOneOf s = true) :
    Spec.oneOfVariablesNonNull s d = true := by
  unfold Spec.oneOfVariablesNonNull
  rw [List.all_eq_true]
  intro op _
  rw [List.all_eq_true]
  intro u hu
  rw [scopeUses_noOneOf s hno d op u hu]

/- ================= the typed roots of a closed schema ================= -/

/-- the parent type is a definition of the schema -/
def InSch (s : Schema) (parent : Option Definition) : Prop := ∀ q, parent = some q → ∃ n, s.type? n = some q

theorem inSch_bind (s : Schema) {α : Type} (o : Option α) (f : α → Name) : InSch s (o.bind fun x => s.type? (f x)) := by
  intro q h
  cases o with
  | none => cases h
  | some x => exact ⟨f x, h⟩

mutual
  theorem typedSel_inSch (s : Schema) : ∀ (x : Selection) (parent : Option Definition), InSch s parent →
      ∀ t ∈ Spec.typedSel s parent x, InSch s t.parent
    | .field al nm args dirs sub p, parent, hp, t, ht => by
      rw [Spec.typedSel] at ht
      rcases List.mem_cons.1 ht with ht | ht
      · rw [ht]; exact hp
      · exact typedSels_inSch s sub _ (inSch_bind s _ _) t ht
    | .spread nm dirs p, parent, hp, t, ht => by
      rw [Spec.typedSel] at ht
      rw [List.mem_singleton.1 ht]; exact hp
    | .inline tc dirs sub p, parent, hp, t, ht => by
      rw [Spec.typedSel] at ht
      rcases List.mem_cons.1 ht with ht | ht
      · rw [ht]; exact hp
      · refine typedSels_inSch s sub _ ?_ t ht
        unfold Spec.inlineType
        split
        · exact hp
        · exact fun q h => ⟨tc, h⟩
  theorem typedSels_inSch (s : Schema) : ∀ (xs : Selections) (parent : Option Definition), InSch s parent →
      ∀ t ∈ Spec.typedSels s parent xs, InSch s t.parent
    | .nil, parent, hp, t, ht => by simp [Spec.typedSels] at ht
    | .cons x rest, parent, hp, t, ht => by
      rw [Spec.typedSels] at ht
      rcases List.mem_append.1 ht with ht | ht
      · exact typedSel_inSch s x parent hp t ht
      · exact typedSels_inSch s rest parent hp t ht
end

/-- the declarative parent type of every selection node is a definition of the schema -/
theorem docSels_inSch (s : Schema) (d : QueryDoc) : ∀ t ∈ Spec.docSels s d, InSch s t.parent := by
  intro t ht
  unfold Spec.docSels at ht
  rcases List.mem_append.1 ht with ht | ht
  · obtain ⟨op, _, ht⟩ := List.mem_flatMap.1 ht
    refine typedSels_inSch s op.sel _ ?_ t ht
    unfold Spec.rootDef
    intro q h
    cases hr : Spec.rootName s op.op with
    | none => rw [hr] at h; cases h
    | some n => rw [hr] at h; exact ⟨n, h⟩
  · obtain ⟨f, _, ht⟩ := List.mem_flatMap.1 ht
    exact typedSels_inSch s f.sel _ (fun q h => ⟨f.typeCond, h⟩) t ht

theorem inputTypeB_of_typeIs (s : Schema) (t : GType) (h : Gql.Spec.typeIs s t.name Gql.Spec.isInputKind = true) :
    inputTypeB s t = true := by
  unfold Gql.Spec.typeIs at h
  unfold inputTypeB Schema.type?
  cases hl : s.types.lookup t.name with
  | none => rw [hl] at h; cases h
  | some d0 =>
    rw [hl] at h
    simp only at h ⊢
    unfold Spec.isInput
    cases hk : d0.kind <;> rw [hk] at h <;> simp_all [Gql.Spec.isInputKind]

/-- in a schema whose argument types (of fields and of directive definitions) resolve to input types
    (`Gql.Spec.Closed`: `argTypes`, `directiveArgTypes`), and for a document whose variables have input
    types (`Spec.variablesAreInputTypes`, the mask of the check), every typed value position has a
    type that resolves to an input type -/
theorem rootsInput_of_closed (s : Schema) (d : QueryDoc) (ha : Gql.Spec.ClosedArgTypes s)
    (hd : Gql.Spec.ClosedDirectiveArgTypes s) (hv : Spec.variablesAreInputTypes s d = true) : rootsInput s d = true := by
  unfold rootsInput
  rw [List.all_eq_true]
  rintro ⟨t, v⟩ htv
  simp only
  rcases (mem_typedValueSites_iff s d t v).1 htv with
    ⟨site, hsite, defs, hdefs, a, _, ad, had, rfl, rfl⟩ | ⟨op, hop, vd, hvd, dv, _, rfl, rfl⟩
  · have hmem : ad ∈ defs := List.mem_of_find?_eq_some had
    rcases List.mem_append.1 hsite with hsite | hsite
    · simp only [Spec.fieldArgSites, List.mem_filterMap] at hsite
      obtain ⟨ts, hts, hm⟩ := hsite
      cases hsel : ts.sel with
      | field al nm args dirs sub p =>
        rw [hsel] at hm
        simp only [Option.some.injEq] at hm
        subst hm
        simp only at hdefs
        cases hpar : ts.parent with
        | none => rw [hpar] at hdefs; cases hdefs
        | some q =>
          rw [hpar] at hdefs
          simp only [Option.bind_some, Option.map_eq_some_iff] at hdefs
          obtain ⟨fd, hfd, rfl⟩ := hdefs
          obtain ⟨n, hn⟩ := docSels_inSch s d ts hts q hpar
          unfold Spec.fieldDefOn at hfd
          split at hfd
          · split at hfd
            · injection hfd with hfd
              subst hfd
              cases hmem
            · cases hfd
          · split at hfd
            · exact inputTypeB_of_typeIs s _ (ha _ (mem_of_lookup' s.types n q hn) fd (List.mem_of_find?_eq_some hfd) ad hmem)
            · cases hfd
      | spread nm dirs p => rw [hsel] at hm; cases hm
      | inline tc dirs sub p => rw [hsel] at hm; cases hm
    · simp only [Spec.directiveArgSites, List.mem_map] at hsite
      obtain ⟨dir, _, rfl⟩ := hsite
      simp only [Option.map_eq_some_iff] at hdefs
      obtain ⟨dd, hdd, rfl⟩ := hdefs
      exact inputTypeB_of_typeIs s _ (hd _ (mem_of_lookup' s.directives dir.name dd hdd) ad hmem)
  · unfold Spec.variablesAreInputTypes at hv
    rw [List.all_eq_true] at hv
    have := hv op hop
    rw [List.all_eq_true] at this
    exact this vd hvd

/- ================= `schemaOK` of a loaded schema ================= -/

theorem lookup_of_mem_pd {β : Type} : ∀ (l : List (Name × β)) (k : Name) (v : β),
    Gql.Spec.pairwiseDistinct (l.map (·.1)) = true → (k, v) ∈ l → l.lookup k = some v
  | [], _, _, _, h => nomatch h
  | (k', v') :: rest, k, v, hpd, h => by
    simp only [List.map_cons, Gql.Spec.pairwiseDistinct, Bool.and_eq_true, Bool.not_eq_true'] at hpd
    rcases List.mem_cons.1 h with h0 | hr
    · injection h0 with h1 h2
      subst h1 h2
      simp [List.lookup]
    · have hne : (k == k') = false := by
        cases hkk : (k == k') with
        | false => rfl
        | true =>
          have : k = k' := by simpa using hkk
          subst this
          have : (rest.map (·.1)).contains k = true := by
            rw [List.contains_iff_mem]
            exact List.mem_map.2 ⟨(k, v), hr, rfl⟩
          rw [this] at hpd
          cases hpd.1
      simp only [List.lookup, hne]
      exact lookup_of_mem_pd rest k v hpd.2 hr

/-- `schemaOK` for a schema that is closed (`Gql.Spec.Closed`: consistent keys, field types of input objects are
    input types), has the built-in scalars (`Gql.Spec.HasBuiltins`), and whose scalars declare no fields (true of
    every schema the loader builds: a scalar definition has no field syntax) -/
theorem schemaOK_of_closed (s : Schema) (hk : Gql.Spec.KeysConsistent s) (hf : Gql.Spec.ClosedFieldTypes s)
    (hb : Gql.Spec.HasBuiltins s) (hsf : ∀ p ∈ s.types, p.2.kind = .scalar → p.2.fields = []) : schemaOK s = true := by
  unfold schemaOK
  rw [List.all_eq_true]
  intro p hp
  unfold defOK
  simp only [Bool.and_eq_true, Bool.or_eq_true, Bool.not_eq_true', beq_iff_eq, List.isEmpty_iff]
  refine ⟨⟨?_, ?_⟩, ?_⟩
  · by_cases hc : Spec.builtinScalars.contains p.2.name = true
    · right
      obtain ⟨hk1, _, hk3, _⟩ := hk
      have hname := hk1 p hp
      unfold Gql.Spec.HasBuiltins Gql.Spec.hasBuiltinsB at hb
      simp only [Bool.and_eq_true] at hb
      have hall := List.all_eq_true.1 hb.1.1 p.2.name (by rw [← List.contains_iff_mem]; exact hc)
      unfold Gql.Spec.typeIs at hall
      have hl : s.types.lookup p.2.name = some p.2 := by
        rw [hname]
        exact lookup_of_mem_pd s.types p.1 p.2 hk3 hp
      rw [hl] at hall
      simpa using hall
    · left
      simpa using hc
  · by_cases hs : p.2.kind = .scalar
    · exact Or.inr (hsf p hp hs)
    · left
      simpa using hs
  · by_cases hi : p.2.kind = .inputObject
    · right
      rw [List.all_eq_true]
      intro f hfm
      have := hf p hp f hfm
      rw [hi] at this
      exact inputTypeB_of_typeIs s f.type this
    · left
      simpa using hi

/- ================= IntValue lexemes ================= -/

/-- `-?[0-9]+` (the grammar's IntValue, leading zeros allowed) -/
def intText (raw : Bytes) : Bool :=
  match raw with
  | 45 :: ds => !ds.isEmpty && ds.all Spec.isDigit
  | ds => !ds.isEmpty && ds.all Spec.isDigit

theorem digitsVal_ge : ∀ (ds : List Nat) (acc : Nat), acc ≤ Spec.digitsVal ds acc
  | [], acc => Nat.le_refl _
  | c :: rest, acc => by
    rw [Spec.digitsVal]
    exact Nat.le_trans (by omega) (digitsVal_ge rest (acc * 10 + (c - 48)))

theorem parseUintGo_digits (M : Nat) (x : Option Nat) : ∀ (ds : List Nat) (acc : Nat), ds.all Spec.isDigit = true → acc ≤ M →
    parseUintGo M ds acc x = if Spec.digitsVal ds acc ≤ M then (.none, Spec.digitsVal ds acc) else (.range, M)
  | [], acc, _, ha => by simp [parseUintGo, Spec.digitsVal, ha]
  | c :: rest, acc, hd, ha => by
    rw [List.all_cons, Bool.and_eq_true] at hd
    have hc : isDigit c = true := hd.1
    rw [parseUintGo, Spec.digitsVal]
    simp only [hc, Bool.not_true, Bool.false_eq_true, if_false]
    by_cases hgt : acc * 10 + (c - 48) > M
    · have := digitsVal_ge rest (acc * 10 + (c - 48))
      rw [if_pos hgt, if_neg (by omega)]
    · rw [if_neg hgt]
      exact parseUintGo_digits M x rest _ hd.2 (by omega)

theorem parseIntErr_neg (bits : Nat) (hb : 2 ^ (bits - 1) < 2 ^ bits - 1) (ds : List Nat) (hne : ds ≠ [])
    (hd : ds.all Spec.isDigit = true) :
    parseIntErr bits (45 :: ds) = if Spec.digitsVal ds 0 ≤ 2 ^ (bits - 1) then .none else .range := by
  unfold parseIntErr
  have he : ds.isEmpty = false := by cases ds <;> simp_all
  simp only [decide_true, Bool.or_true, if_true, he, Bool.false_eq_true, if_false, Bool.not_true, Bool.false_and,
    Bool.true_and, decide_eq_true_eq]
  rw [parseUintGo_digits _ _ ds 0 hd (Nat.zero_le _)]
  by_cases h1 : Spec.digitsVal ds 0 ≤ 2 ^ bits - 1
  · rw [if_pos h1]
    simp only
    by_cases h2 : Spec.digitsVal ds 0 ≤ 2 ^ (bits - 1)
    · rw [if_neg (by omega), if_pos h2]
    · rw [if_pos (by omega), if_neg h2]
  · rw [if_neg h1]
    simp only
    rw [if_pos (by omega), if_neg (by omega)]

theorem parseIntErr_pos (bits : Nat) (hb : 2 ^ (bits - 1) < 2 ^ bits - 1) (c : Nat) (rest : List Nat)
    (hd : (c :: rest).all Spec.isDigit = true) :
    parseIntErr bits (c :: rest) = if Spec.digitsVal (c :: rest) 0 < 2 ^ (bits - 1) then .none else .range := by
  have hc : 48 ≤ c ∧ c ≤ 57 := by
    rw [List.all_cons, Bool.and_eq_true] at hd
    simpa [Spec.isDigit] using hd.1
  unfold parseIntErr
  have h43 : ¬ c = 43 := by omega
  have h45 : ¬ c = 45 := by omega
  simp only [h43, h45, decide_false, Bool.or_false, Bool.false_eq_true, if_false, List.isEmpty_cons, Bool.not_false,
    Bool.true_and, Bool.false_and, decide_eq_true_eq]
  rw [parseUintGo_digits _ _ (c :: rest) 0 hd (Nat.zero_le _)]
  by_cases h1 : Spec.digitsVal (c :: rest) 0 ≤ 2 ^ bits - 1
  · rw [if_pos h1]
    simp only
    by_cases h2 : Spec.digitsVal (c :: rest) 0 < 2 ^ (bits - 1)
    · rw [if_neg (by omega), if_pos h2]
    · rw [if_pos (by omega), if_neg h2]
  · rw [if_neg h1]
    simp only
    rw [if_pos (by omega), if_neg (by omega)]

theorem int_lexeme_agree (raw : Bytes) (h : intText raw = true) :
    (parseIntErr 32 raw == .none) = Spec.int32Ok raw ∧ parseIntErr 64 raw ≠ .syntax := by
  have h32 : 2 ^ (32 - 1) < 2 ^ 32 - 1 := by decide
  have h64 : 2 ^ (64 - 1) < 2 ^ 64 - 1 := by decide
  unfold intText at h
  split at h
  · rename_i ds
    simp only [Bool.and_eq_true, Bool.not_eq_true', List.isEmpty_eq_false_iff] at h
    rw [parseIntErr_neg 32 h32 ds h.1 h.2, parseIntErr_neg 64 h64 ds h.1 h.2]
    refine ⟨?_, by split <;> simp⟩
    unfold Spec.int32Ok Spec.intLitValue
    simp only
    by_cases h2 : Spec.digitsVal ds 0 ≤ 2 ^ (32 - 1)
    · rw [if_pos h2]
      have : (decide (-(2147483648 : Int) ≤ -((Spec.digitsVal ds 0 : Nat) : Int)) &&
          decide (-((Spec.digitsVal ds 0 : Nat) : Int) ≤ 2147483647)) = true := by
        simp only [Bool.and_eq_true, decide_eq_true_eq]
        omega
      rw [this]; rfl
    · rw [if_neg h2]
      have : (decide (-(2147483648 : Int) ≤ -((Spec.digitsVal ds 0 : Nat) : Int)) &&
          decide (-((Spec.digitsVal ds 0 : Nat) : Int) ≤ 2147483647)) = false := by
        simp only [Bool.and_eq_false_iff, decide_eq_false_iff_not]
        left; omega
      rw [this]; rfl
  · rename_i hnot
    simp only [Bool.and_eq_true, Bool.not_eq_true', List.isEmpty_eq_false_iff] at h
    cases raw with
    | nil => exact absurd rfl h.1
    | cons c rest =>
      have hc : 48 ≤ c ∧ c ≤ 57 := by
        have := h.2
        rw [List.all_cons, Bool.and_eq_true] at this
        simpa [Spec.isDigit] using this.1
      rw [parseIntErr_pos 32 h32 c rest h.2, parseIntErr_pos 64 h64 c rest h.2]
      refine ⟨?_, by split <;> simp⟩
      unfold Spec.int32Ok Spec.intLitValue
      have hv : (match c :: rest with
          | 45 :: ds => -((Spec.digitsVal ds 0 : Nat) : Int)
          | ds => ((Spec.digitsVal ds 0 : Nat) : Int)) = ((Spec.digitsVal (c :: rest) 0 : Nat) : Int) := by
        split
        · rename_i ds' heq
          injection heq with h1 _
          omega
        · rfl
      simp only
      by_cases h2 : Spec.digitsVal (c :: rest) 0 < 2 ^ (32 - 1)
      · rw [if_pos h2]
        have : (decide (-(2147483648 : Int) ≤ ((Spec.digitsVal (c :: rest) 0 : Nat) : Int)) &&
            decide (((Spec.digitsVal (c :: rest) 0 : Nat) : Int) ≤ 2147483647)) = true := by
          simp only [Bool.and_eq_true, decide_eq_true_eq]
          omega
        rw [this]; rfl
      · rw [if_neg h2]
        have : (decide (-(2147483648 : Int) ≤ ((Spec.digitsVal (c :: rest) 0 : Nat) : Int)) &&
            decide (((Spec.digitsVal (c :: rest) 0 : Nat) : Int) ≤ 2147483647)) = false := by
          simp only [Bool.and_eq_false_iff, decide_eq_false_iff_not]
          right; omega
        rw [this]; rfl

end Gql.Validate
