import GqlProofs.ValSpec.ValuesCorrectOneOf
import GqlProofs.ValSpec.ValuesCorrectProv
/-
  ValuesOfCorrectType and `@oneOf`, the CONVERSE: the specification predicates make the `@oneOf`
  variable test of the rule pass at every event (`oneOfVar_of_spec`).

  Static part (this section): a variable node / a marked object literal among the walker's sites of
  a value is a usage / a marked usage of the specification's `usesInValue`.
-/
namespace Gql.Validate
open Gql Gql.Validate.Rules

/- ================= every variable site is a usage (names and positions only) ================= -/

mutual
  theorem var_site_use_value (s : Schema) : ∀ (v : Value) (exp : Option GType) (dfn : Option Definition)
      (exp' : Option GType) (ld : Bool) (oo : Option Name), ∀ x ∈ valSites s.view exp dfn v,
      ∀ r ch p, x.2.2 = .mk .variable r ch p → ∃ u ∈ Spec.usesInValue s exp' ld oo v, u.name = r ∧ u.pos = p
    | .mk k raw ch0 p0, exp, dfn, exp', ld, oo, x, hx, r, ch, p, hxv => by
      unfold valSites at hx
      unfold Spec.usesInValue
      rcases List.mem_append.1 hx with hx | hx
      · cases k <;> simp only [List.not_mem_nil] at hx
        · exact var_site_use_items s ch0 exp dfn _ x hx r ch p hxv
        · simp only
          split
          · split
            · exact var_site_use_fields s ch0 dfn _ x hx r ch p hxv
            · exact var_site_use_fields s ch0 dfn _ x hx r ch p hxv
          · exact var_site_use_fields s ch0 dfn _ x hx r ch p hxv
      · rw [List.mem_singleton.1 hx] at hxv
        simp only [Value.mk.injEq] at hxv
        obtain ⟨rfl, rfl, rfl, rfl⟩ := hxv
        exact ⟨_, List.mem_singleton.2 rfl, rfl, rfl⟩
  theorem var_site_use_items (s : Schema) : ∀ (ch0 : Children) (exp : Option GType) (dfn : Option Definition)
      (e' : Option GType), ∀ x ∈ listSites s.view exp dfn ch0,
      ∀ r ch p, x.2.2 = .mk .variable r ch p → ∃ u ∈ Spec.usesInItems s e' ch0, u.name = r ∧ u.pos = p
    | .nil, exp, dfn, e', x, hx => by simp [listSites] at hx
    | .cons n v q rest, exp, dfn, e', x, hx => by
      intro r ch p hxv
      rw [listSites] at hx
      rw [Spec.usesInItems]
      rcases List.mem_append.1 hx with hx | hx
      · obtain ⟨u, hu, h⟩ := var_site_use_value s v _ _ e' false none x hx r ch p hxv
        exact ⟨u, List.mem_append_left _ hu, h⟩
      · obtain ⟨u, hu, h⟩ := var_site_use_items s rest exp dfn e' x hx r ch p hxv
        exact ⟨u, List.mem_append_right _ hu, h⟩
  theorem var_site_use_fields (s : Schema) : ∀ (ch0 : Children) (dfn : Option Definition)
      (d' : Option Definition), ∀ x ∈ objSites s.view dfn ch0,
      ∀ r ch p, x.2.2 = .mk .variable r ch p → ∃ u ∈ Spec.usesInFields s d' ch0, u.name = r ∧ u.pos = p
    | .nil, dfn, d', x, hx => by simp [objSites] at hx
    | .cons n v q rest, dfn, d', x, hx => by
      intro r ch p hxv
      rw [objSites] at hx
      rw [Spec.usesInFields]
      rcases List.mem_append.1 hx with hx | hx
      · split
        · obtain ⟨u, hu, h⟩ := var_site_use_value s v _ _ _ _ _ x hx r ch p hxv
          exact ⟨u, List.mem_append_left _ hu, h⟩
        · obtain ⟨u, hu, h⟩ := var_site_use_value s v _ _ _ _ _ x hx r ch p hxv
          exact ⟨u, List.mem_append_left _ hu, h⟩
      · obtain ⟨u, hu, h⟩ := var_site_use_fields s rest dfn d' x hx r ch p hxv
        exact ⟨u, List.mem_append_right _ hu, h⟩
end

theorem var_site_use_args (s : Schema) (defs : Option (List ArgDef)) (args : List Argument) (x : VSite)
    (hx : x ∈ argValSites s.view defs args) (r : Name) (ch : Children) (p : Pos) (hxv : x.2.2 = .mk .variable r ch p) :
    ∃ u ∈ Spec.usesInArgs s defs args, u.name = r ∧ u.pos = p := by
  obtain ⟨a, ha, hxa⟩ := (mem_argValSites_iff s.view defs x args).1 hx
  unfold Spec.usesInArgs
  cases hb : defs.bind (Spec.argDefByName · a.name) with
  | none =>
    obtain ⟨u, hu, h⟩ := var_site_use_value s a.value _ _ none false none x hxa r ch p hxv
    exact ⟨u, List.mem_flatMap.2 ⟨a, ha, by rw [hb]; exact hu⟩, h⟩
  | some ad =>
    obtain ⟨u, hu, h⟩ := var_site_use_value s a.value _ _ (some ad.type) ad.default.isSome none x hxa r ch p hxv
    exact ⟨u, List.mem_flatMap.2 ⟨a, ha, by rw [hb]; exact hu⟩, h⟩

/- ================= a marked object site of an accepted value is a marked usage ================= -/

/-- the site is an object literal typed with the `@oneOf` input object `dd`, one of whose fields is the variable `r` at `pv` -/
def MarkedSite (x : VSite) (dd : Definition) (r : Name) (pv : Pos) : Prop :=
  ∃ t raw ch p n chv, x.1 = some t ∧ x.2.1 = some dd ∧ x.2.2 = .mk .object raw ch p ∧ dd.kind = .inputObject ∧
    Spec.hasOneOf dd = true ∧ ChildIs ch n (.mk .variable r chv pv)

theorem child_use (s : Schema) (dd : Definition) : ∀ ch : Children, Spec.fieldsOk s dd ch = true →
    ∀ n r chv pv, ChildIs ch n (.mk .variable r chv pv) →
      ∃ u ∈ Spec.usesInFields s (some dd) ch, u.name = r ∧ u.pos = pv ∧
        u.oneOf = (if Spec.hasOneOf dd then some dd.name else none)
  | .nil, _, n, r, chv, pv, h => nomatch h
  | .cons n0 v q rest, hok, n, r, chv, pv, h => by
    rw [Spec.fieldsOk, Bool.and_eq_true] at hok
    rw [Spec.usesInFields]
    rcases h with ⟨_, hv⟩ | h
    · cases hf : Spec.inputFieldByName dd n0 with
      | none => rw [hf] at hok; cases hok.1
      | some fd =>
        refine ⟨⟨r, some fd.type, fd.default.isSome, if Spec.hasOneOf dd then some dd.name else none, pv⟩,
          List.mem_append_left _ ?_, rfl, rfl, rfl⟩
        simp only [Option.bind_some, hf, Option.map_some, hv]
        unfold Spec.usesInValue
        exact List.mem_singleton.2 rfl
    · obtain ⟨u, hu, hh⟩ := child_use s dd rest hok.2 n r chv pv h
      exact ⟨u, List.mem_append_right _ hu, hh⟩

mutual
  theorem marked_site_use_value (s : Schema) (hs : schemaOK s = true) (dd : Definition) (r : Name) (pv : Pos) :
      ∀ (v : Value) (t : GType) (d0 : Definition) (ld : Bool) (oo : Option Name), s.type? t.name = some d0 →
        Spec.isInput d0 = true → Spec.valueOk s t v = true →
        ∀ x ∈ valSites s.view (some t) (some d0) v, MarkedSite x dd r pv →
          ∃ u ∈ Spec.usesInValue s (some t) ld oo v, u.name = r ∧ u.pos = pv ∧ u.oneOf = some dd.name
    | .mk k raw ch p, t, d0, ld, oo, hd, hin, hok, x, hx, hm => by
      have hdok := defOK_of_type? hs hd
      simp only [defOK, Bool.and_eq_true, Bool.or_eq_true, Bool.not_eq_true', beq_iff_eq] at hdok
      obtain ⟨⟨_, hsf⟩, hif⟩ := hdok
      unfold valSites at hx
      unfold Spec.valueOk at hok
      unfold Spec.usesInValue
      rcases List.mem_append.1 hx with hx | hx
      · cases k <;> simp only [List.not_mem_nil] at hx
        case list =>
          simp only at hok ⊢
          cases t with
          | named nme nn q =>
            have := listSites_untyped s.view _ _ rfl ch x hx
            obtain ⟨t', _, _, _, _, _, h1, _⟩ := hm
            rw [this] at h1
            cases h1
          | list e nn q =>
            simp only at hok
            exact marked_site_use_items s hs dd r pv ch e nn q d0 hd hin hok x hx hm
        case object =>
          simp only at hok ⊢
          have hbind : (some t).bind (fun t => s.type? t.name) = some d0 := hd
          rw [hd] at hok
          rw [hbind]
          simp only at hok ⊢
          by_cases hio : d0.kind = .inputObject
          · simp only [hio, beq_self_eq_true, if_true, Bool.and_eq_true] at hok ⊢
            have hf : ∀ f ∈ d0.fields, inputTypeB s f.type = true := by
              rcases hif with h | h
              · rw [hio] at h; simp at h
              · exact List.all_eq_true.1 h
            exact marked_site_use_fields s hs dd r pv ch d0 hf hok.1.1 x hx hm
          · exfalso
            have hne : (d0.kind == DefKind.inputObject) = false := by simpa using hio
            simp only [hne, Bool.false_eq_true, if_false] at hok
            rw [structured_eq d0 hin] at hok
            have hk : d0.kind = .scalar := by
              simp only [customScalar, Bool.and_eq_true, beq_iff_eq] at hok
              exact hok.1
            have hfl : d0.fields = [] := by
              rcases hsf with h' | h'
              · rw [hk] at h'; cases h'
              · simpa using h'
            have := objSites_untyped s.view (some d0) (fun nm => by simp [objChildLink, hfl, fieldForName]) ch x hx
            obtain ⟨t', _, _, _, _, _, h1, _⟩ := hm
            rw [this] at h1
            cases h1
      · rw [List.mem_singleton.1 hx] at hm
        obtain ⟨t', raw', ch', p', n, chv, _, h2, h3, hio, hone, hc⟩ := hm
        simp only [Option.some.injEq] at h2
        subst h2
        simp only [Value.mk.injEq] at h3
        obtain ⟨rfl, rfl, rfl, rfl⟩ := h3
        simp only at hok ⊢
        have hbind : (some t).bind (fun t => s.type? t.name) = some d0 := hd
        rw [hd] at hok
        rw [hbind]
        simp only [hio, beq_self_eq_true, if_true, Bool.and_eq_true] at hok ⊢
        obtain ⟨u, hu, h1, h2, h3⟩ := child_use s d0 ch hok.1.1 n r chv pv hc
        rw [hone] at h3
        exact ⟨u, hu, h1, h2, h3⟩
  theorem marked_site_use_items (s : Schema) (hs : schemaOK s = true) (dd : Definition) (r : Name) (pv : Pos) :
      ∀ (ch : Children) (e : GType) (nn : Bool) (q : Pos) (d0 : Definition), s.type? e.name = some d0 →
        Spec.isInput d0 = true → Spec.itemsOk s e ch = true →
        ∀ x ∈ listSites s.view (some (.list e nn q)) (some d0) ch, MarkedSite x dd r pv →
          ∃ u ∈ Spec.usesInItems s (Spec.elemOf (some (.list e nn q))) ch, u.name = r ∧ u.pos = pv ∧ u.oneOf = some dd.name
    | .nil, e, nn, q, d0, _, _, _, x, hx, _ => by simp [listSites] at hx
    | .cons n v p rest, e, nn, q, d0, hd, hin, hok, x, hx, hm => by
      rw [Spec.itemsOk, Bool.and_eq_true] at hok
      rw [listSites] at hx
      simp only [Spec.elemOf]
      rw [Spec.usesInItems]
      rcases List.mem_append.1 hx with hx | hx
      · obtain ⟨u, hu, h⟩ := marked_site_use_value s hs dd r pv v e d0 false none hd hin hok.1 x hx hm
        exact ⟨u, List.mem_append_left _ hu, h⟩
      · obtain ⟨u, hu, h⟩ := marked_site_use_items s hs dd r pv rest e nn q d0 hd hin hok.2 x hx hm
        exact ⟨u, List.mem_append_right _ hu, h⟩
  theorem marked_site_use_fields (s : Schema) (hs : schemaOK s = true) (dd : Definition) (r : Name) (pv : Pos) :
      ∀ (ch : Children) (d0 : Definition), (∀ f ∈ d0.fields, inputTypeB s f.type = true) → Spec.fieldsOk s d0 ch = true →
        ∀ x ∈ objSites s.view (some d0) ch, MarkedSite x dd r pv →
          ∃ u ∈ Spec.usesInFields s (some d0) ch, u.name = r ∧ u.pos = pv ∧ u.oneOf = some dd.name
    | .nil, d0, _, _, x, hx, _ => by simp [objSites] at hx
    | .cons n v p rest, d0, hf, hok, x, hx, hm => by
      rw [Spec.fieldsOk, Bool.and_eq_true] at hok
      rw [objSites] at hx
      rw [Spec.usesInFields]
      rcases List.mem_append.1 hx with hx | hx
      · have hsame : Spec.inputFieldByName d0 n = fieldForName d0.fields n := rfl
        cases hfn : fieldForName d0.fields n with
        | none => rw [hsame, hfn] at hok; cases hok.1
        | some fd =>
          rw [hsame, hfn] at hok
          simp only at hok
          have hit := hf fd (List.mem_of_find?_eq_some hfn)
          unfold inputTypeB at hit
          cases hd' : s.type? fd.type.name with
          | none => rw [hd'] at hit; cases hit
          | some d' =>
            rw [hd'] at hit
            have hlink : objChildLink s.view (some d0) n = (some fd.type, some d') := by
              simp only [objChildLink, hfn, linkOfType]
              exact congrArg _ hd'
            rw [hlink] at hx
            obtain ⟨u, hu, h⟩ := marked_site_use_value s hs dd r pv v fd.type d' fd.default.isSome
              (if Spec.hasOneOf d0 then some d0.name else none) hd' hit hok.1 x hx hm
            refine ⟨u, List.mem_append_left _ ?_, h⟩
            simp only [Option.bind_some, hsame, hfn, Option.map_some]
            exact hu
      · obtain ⟨u, hu, h⟩ := marked_site_use_fields s hs dd r pv rest d0 hf hok.2 x hx hm
        exact ⟨u, List.mem_append_right _ hu, h⟩
end

end Gql.Validate
