import GqlProofs.ValSpec.ValuesCorrectHyps
/-
  ValuesOfCorrectType, numeric literals: for an IntValue lexeme `-?[0-9]+` the model of
  `strconv.ParseFloat(·, 64)` (`floatErr`: error or ±Inf) and the specification's finiteness test
  (`Spec.floatLitFinite`) agree — so the Int part of `numLiteralsOK` holds for every lexer-produced
  document, literals beyond the range of a double included.
-/
namespace Gql.Validate
open Gql Gql.Validate.Rules

theorem takeWhile_all {p : Nat → Bool} : ∀ {ds : List Nat}, ds.all p = true → ds.takeWhile p = ds
  | [], _ => rfl
  | c :: rest, h => by
    rw [List.all_cons, Bool.and_eq_true] at h
    rw [List.takeWhile_cons, if_pos h.1, takeWhile_all h.2]

theorem dropWhile_all {p : Nat → Bool} : ∀ {ds : List Nat}, ds.all p = true → ds.dropWhile p = []
  | [], _ => rfl
  | c :: rest, h => by
    rw [List.all_cons, Bool.and_eq_true] at h
    rw [List.dropWhile_cons, if_pos h.1, dropWhile_all h.2]

theorem natOfDigits_eq (ds : List Nat) : natOfDigits ds = Spec.digitsVal ds 0 := by
  unfold natOfDigits
  generalize 0 = acc
  induction ds generalizing acc with
  | nil => rfl
  | cons c rest ih => simp only [List.foldl_cons, Spec.digitsVal, ih]

theorem digitsVal_acc : ∀ (ds : List Nat) (acc : Nat),
    Spec.digitsVal ds acc = acc * 10 ^ ds.length + Spec.digitsVal ds 0
  | [], acc => by simp [Spec.digitsVal]
  | c :: rest, acc => by
    rw [Spec.digitsVal, Spec.digitsVal, digitsVal_acc rest (acc * 10 + (c - 48)), digitsVal_acc rest (0 * 10 + (c - 48))]
    simp only [List.length_cons, Nat.pow_succ, Nat.zero_mul, Nat.zero_add]
    rw [Nat.add_mul, Nat.mul_assoc, Nat.mul_comm (10 ^ rest.length) 10, Nat.add_assoc]

theorem digitsVal_lt : ∀ (ds : List Nat), ds.all Spec.isDigit = true → Spec.digitsVal ds 0 < 10 ^ ds.length
  | [], _ => by simp [Spec.digitsVal]
  | c :: rest, h => by
    rw [List.all_cons, Bool.and_eq_true] at h
    have hc : 48 ≤ c ∧ c ≤ 57 := by simpa [Spec.isDigit] using h.1
    have ih := digitsVal_lt rest h.2
    rw [Spec.digitsVal, digitsVal_acc]
    simp only [Nat.zero_mul, Nat.zero_add, List.length_cons, Nat.pow_succ]
    have : (c - 48) * 10 ^ rest.length ≤ 9 * 10 ^ rest.length := Nat.mul_le_mul_right _ (by omega)
    omega

theorem digitsVal_ge_pow (c : Nat) (rest : List Nat) (hc : 49 ≤ c) :
    10 ^ rest.length ≤ Spec.digitsVal (c :: rest) 0 := by
  rw [Spec.digitsVal, digitsVal_acc]
  simp only [Nat.zero_mul, Nat.zero_add]
  have : 1 * 10 ^ rest.length ≤ (c - 48) * 10 ^ rest.length := Nat.mul_le_mul_right _ (by omega)
  omega


/-- `floatStatus` of a digit string after the sign, in terms of the digits without leading zeros -/
def intFloatStatus (a : List Nat) : NumErr :=
  if a.isEmpty then .none
  else if a.length > 310 then .range
  else if a.length < 300 then .none
  else if Spec.digitsVal a 0 ≥ 2 ^ 1024 - 2 ^ 970 then .range else .none

/-- `Spec.floatLitFinite` of a digit string after the sign, in the same terms -/
def intLitFinite (a : List Nat) : Bool :=
  if Spec.digitsVal a 0 == 0 then true
  else if a.length ≤ 308 then true
  else if a.length - 1 ≥ 309 then false
  else decide (Spec.digitsVal a 0 < Spec.doubleOverflow)

theorem all_notE {ds : List Nat} (hd : ds.all Spec.isDigit = true) : ds.all (fun c => c != 101 && c != 69) = true := by
  rw [List.all_eq_true] at hd ⊢
  intro c hc
  have : 48 ≤ c ∧ c ≤ 57 := by simpa [Spec.isDigit] using hd c hc
  have h1 : c ≠ 101 := by omega
  have h2 : c ≠ 69 := by omega
  simp [h1, h2]

theorem floatStatus_neg (ds : List Nat) (hne : ds ≠ []) (hd : ds.all Spec.isDigit = true) :
    floatStatus (45 :: ds) = intFloatStatus (ds.dropWhile (· = 48)) := by
  have hd' : ds.all isDigit = true := hd
  have he : ds.isEmpty = false := by cases ds <;> simp_all
  unfold floatStatus intFloatStatus
  simp only []
  rw [takeWhile_all hd', dropWhile_all hd']
  simp only [natOfDigits_eq, Spec.digitsVal, he, List.isEmpty_nil, Bool.and_true, Bool.false_eq_true, if_false,
    List.append_nil, List.length_nil, Int.natCast_zero, Int.add_zero, Int.sub_zero, Int.le_refl, ge_iff_le,
    if_true, Int.toNat_zero, Nat.pow_zero, Nat.mul_one, decide_eq_true_eq, gt_iff_lt]
  generalize List.dropWhile (fun x => decide (x = 48)) ds = a
  have h1 : ((310 : Int) < (a.length : Int)) ↔ 310 < a.length := by omega
  have h2 : ((a.length : Int) < 300) ↔ a.length < 300 := by omega
  simp only [h1, h2]

theorem floatLitFinite_neg (ds : List Nat) (hd : ds.all Spec.isDigit = true) :
    Spec.floatLitFinite (45 :: ds) = intLitFinite (ds.dropWhile (· == 48)) := by
  unfold Spec.floatLitFinite intLitFinite
  simp only []
  rw [takeWhile_all (all_notE hd), dropWhile_all (all_notE hd), takeWhile_all hd, dropWhile_all hd]
  simp only [Spec.digitsVal, List.drop_nil, List.append_nil, List.filter_nil, List.length_nil, Int.natCast_zero,
    Bool.false_eq_true, if_false, Int.sub_zero, Int.add_zero, Int.le_refl, ge_iff_le, if_true, Int.toNat_zero,
    Nat.pow_zero, Nat.mul_one]
  generalize List.dropWhile (fun x => x == 48) ds = a
  have h1 : ((a.length : Int) ≤ 308) ↔ a.length ≤ 308 := by omega
  have h2 : ((309 : Int) ≤ (a.length : Int) - 1) ↔ 309 ≤ a.length - 1 := by omega
  simp only [h1, h2]

theorem dropWhile_zero_eq (ds : List Nat) : ds.dropWhile (fun x => decide (x = 48)) = ds.dropWhile (fun x => x == 48) := by
  first | rfl | (congr 1; funext x; simp)

/-- digits without leading zeros: all digits, and the first one is not `0` -/
theorem dropWhile_zero_spec : ∀ (ds : List Nat), ds.all Spec.isDigit = true →
    (ds.dropWhile (fun x => x == 48)).all Spec.isDigit = true ∧
      (ds.dropWhile (fun x => x == 48) = [] ∨ ∃ c rest, ds.dropWhile (fun x => x == 48) = c :: rest ∧ 49 ≤ c)
  | [], _ => ⟨rfl, Or.inl rfl⟩
  | c :: rest, h => by
    rw [List.all_cons, Bool.and_eq_true] at h
    have hc : 48 ≤ c ∧ c ≤ 57 := by simpa [Spec.isDigit] using h.1
    by_cases h48 : c = 48
    · subst h48
      simpa [List.dropWhile_cons] using dropWhile_zero_spec rest h.2
    · have : (c == 48) = false := by simpa using h48
      rw [List.dropWhile_cons, this]
      simp only [Bool.false_eq_true, if_false]
      exact ⟨by rw [List.all_cons, Bool.and_eq_true]; exact h, Or.inr ⟨c, rest, rfl, by omega⟩⟩

theorem pow308_lt : 10 ^ 308 < 2 ^ 1024 - 2 ^ 970 := by decide +kernel
theorem le_pow309 : 2 ^ 1024 - 2 ^ 970 ≤ 10 ^ 309 := by decide +kernel

theorem intFloat_agree (a : List Nat) (hd : a.all Spec.isDigit = true)
    (hh : a = [] ∨ ∃ c rest, a = c :: rest ∧ 49 ≤ c) : (intFloatStatus a != .none) = !intLitFinite a := by
  rcases hh with rfl | ⟨c, rest, rfl, hc⟩
  · simp [intFloatStatus, intLitFinite, Spec.digitsVal]
  · have hlo := digitsVal_ge_pow c rest hc
    have hhi := digitsVal_lt (c :: rest) hd
    have hpos : 0 < 10 ^ rest.length := Nat.pow_pos (by decide)
    have hne : (Spec.digitsVal (c :: rest) 0 == 0) = false := by
      simp only [beq_eq_false_iff_ne, ne_eq]
      omega
    unfold intFloatStatus intLitFinite Spec.doubleOverflow
    simp only [List.isEmpty_cons, Bool.false_eq_true, if_false, hne, List.length_cons] at hhi ⊢
    by_cases h1 : rest.length + 1 > 310
    · have : ¬ rest.length + 1 ≤ 308 := by omega
      have h3 : 309 ≤ rest.length := by omega
      simp [h1, this, h3]
    · rw [if_neg h1]
      by_cases h2 : rest.length + 1 < 300
      · have : rest.length + 1 ≤ 308 := by omega
        simp [h2, this]
      · rw [if_neg h2]
        by_cases h3 : rest.length + 1 ≤ 308
        · have hp : 10 ^ (rest.length + 1) ≤ 10 ^ 308 := Nat.pow_le_pow_right (by decide) h3
          have := pow308_lt
          have hlt : ¬ Spec.digitsVal (c :: rest) 0 ≥ 2 ^ 1024 - 2 ^ 970 := by omega
          simp [h3, hlt]
        · by_cases h4 : rest.length + 1 = 309
          · have h5 : ¬ rest.length + 1 - 1 ≥ 309 := by omega
            simp only [h3, h5, if_false]
            by_cases h6 : Spec.digitsVal (c :: rest) 0 ≥ 2 ^ 1024 - 2 ^ 970
            · have : ¬ Spec.digitsVal (c :: rest) 0 < 2 ^ 1024 - 2 ^ 970 := by omega
              simp [h6, this]
            · have : Spec.digitsVal (c :: rest) 0 < 2 ^ 1024 - 2 ^ 970 := by omega
              simp [h6, this]
          · have h5 : rest.length = 309 := by omega
            have h6 : 309 ≤ rest.length := by omega
            have hp : 10 ^ 309 ≤ Spec.digitsVal (c :: rest) 0 := by rw [← h5]; exact hlo
            have := le_pow309
            have h7 : Spec.digitsVal (c :: rest) 0 ≥ 2 ^ 1024 - 2 ^ 970 := by omega
            simp [h3, h6, h7]

/-- for an IntValue lexeme the model of `strconv.ParseFloat` (error or ±Inf) and the specification's
    finiteness test agree -/
theorem floatErr_neg_agree (ds : List Nat) (hne : ds ≠ []) (hd : ds.all Spec.isDigit = true) :
    floatErr (45 :: ds) = !Spec.floatLitFinite (45 :: ds) := by
  unfold floatErr
  rw [floatStatus_neg ds hne hd, floatLitFinite_neg ds hd, dropWhile_zero_eq]
  obtain ⟨h1, h2⟩ := dropWhile_zero_spec ds hd
  exact intFloat_agree _ h1 h2

theorem floatStatus_unsigned (c : Nat) (rest : List Nat) (hc : 48 ≤ c ∧ c ≤ 57) :
    floatStatus (c :: rest) = floatStatus (45 :: c :: rest) := by
  have : c = 48 ∨ c = 49 ∨ c = 50 ∨ c = 51 ∨ c = 52 ∨ c = 53 ∨ c = 54 ∨ c = 55 ∨ c = 56 ∨ c = 57 := by omega
  rcases this with rfl | rfl | rfl | rfl | rfl | rfl | rfl | rfl | rfl | rfl <;> rfl

theorem floatLitFinite_unsigned (c : Nat) (rest : List Nat) (hc : 48 ≤ c ∧ c ≤ 57) :
    Spec.floatLitFinite (c :: rest) = Spec.floatLitFinite (45 :: c :: rest) := by
  have : c = 48 ∨ c = 49 ∨ c = 50 ∨ c = 51 ∨ c = 52 ∨ c = 53 ∨ c = 54 ∨ c = 55 ∨ c = 56 ∨ c = 57 := by omega
  rcases this with rfl | rfl | rfl | rfl | rfl | rfl | rfl | rfl | rfl | rfl <;> rfl

theorem int_lexeme_float_agree (raw : Bytes) (h : intText raw = true) :
    floatErr raw = !Spec.floatLitFinite raw := by
  unfold intText at h
  split at h
  · rename_i ds
    simp only [Bool.and_eq_true, Bool.not_eq_true', List.isEmpty_eq_false_iff] at h
    exact floatErr_neg_agree ds h.1 h.2
  · simp only [Bool.and_eq_true, Bool.not_eq_true', List.isEmpty_eq_false_iff] at h
    cases raw with
    | nil => exact absurd rfl h.1
    | cons c rest =>
      have hc : 48 ≤ c ∧ c ≤ 57 := by
        have := h.2
        rw [List.all_cons, Bool.and_eq_true] at this
        simpa [Spec.isDigit] using this.1
      unfold floatErr
      rw [floatStatus_unsigned c rest hc, floatLitFinite_unsigned c rest hc]
      exact floatErr_neg_agree (c :: rest) (by simp) h.2

/-- an IntValue lexeme satisfies the numeric hypothesis (both conjuncts), and evaluates -/
theorem numLeafOK_int_of_lexeme (raw : Bytes) (h : intText raw = true) :
    numLeafOK .int raw = true ∧ ∀ ch p, constErr (.mk .int raw ch p) = false := by
  obtain ⟨h1, h2⟩ := int_lexeme_agree raw h
  refine ⟨?_, fun ch p => ?_⟩
  · simp [numLeafOK, h1, int_lexeme_float_agree raw h]
  · unfold constErr
    simp only
    cases h3 : parseIntErr 64 raw <;> simp_all

/-- what is left of `numLiteralsOK` for lexer-produced numeric literals: IntValues are `-?[0-9]+`
    texts (nothing else is asked of them), FloatValues are texts on which the model of
    `strconv.ParseFloat` and `Spec.floatLitFinite` agree -/
def numLiteralsLexemes (s : Schema) (d : QueryDoc) : Bool :=
  (Spec.typedValueSites s d).all fun tv => (subValues tv.2).all fun w =>
    match w.kind with
    | .int => intText w.raw
    | .float => floatErr w.raw == !Spec.floatLitFinite w.raw
    | _ => true

theorem numLiteralsOK_of_lexemes (s : Schema) (d : QueryDoc) (h : numLiteralsLexemes s d = true) :
    numLiteralsOK s d = true := by
  unfold numLiteralsLexemes at h
  unfold numLiteralsOK
  rw [List.all_eq_true] at h ⊢
  intro tv htv
  have h1 := h tv htv
  rw [List.all_eq_true] at h1 ⊢
  intro w hw
  have h2 := h1 w hw
  cases hk : w.kind <;> simp only [hk] at h2 <;> simp only [numLeafOK]
  · exact (numLeafOK_int_of_lexeme w.raw h2).1
  · exact h2

end Gql.Validate
