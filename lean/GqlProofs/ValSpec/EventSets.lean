import GqlProofs.ValSpec.Bridge
/-
  The event sets of a run in terms of the lists the specification quantifies over:
    field events         ↔ the field nodes of `Spec.docSels`
    directive events     ↔ the members of `Spec.directiveSites` (with the location)
    directiveList events ↔ the directive lists of `Spec.directiveSites`
-/
namespace Gql.Validate
open Gql

section
variable (s : Schema) (d : QueryDoc) (evs : List Event) (hw : walkDoc s.view d = some evs)
include hw

/-- a `field` event is about a field node of the document (with some declarative parent type) -/
theorem field_event_sound (e : Event) (he : e ∈ evs) (f : FieldNode) (par : Option Definition) (dfn : Option FieldDef)
    (hp : e.p = .field f par dfn) :
    ∃ p, (⟨p, .field f.alias f.name f.args f.dirs f.sel f.pos⟩ : Spec.TSel) ∈ Spec.docSels s d := by
  have := walkDoc_cov s.view d evs hw e he
  rw [hp] at this
  exact (docSels_iff s d _).2 ((inDoc_sel_iff s.view d _).1 this)

/-- every field node of the document has a `field` event -/
theorem field_event_complete (t : Spec.TSel) (ht : t ∈ Spec.docSels s d) (al nm : Name) (args : List Argument)
    (dirs : List Directive) (sub : Selections) (p : Pos) (hs : t.sel = .field al nm args dirs sub p) :
    ∃ e ∈ evs, ∃ par dfn, e.p = .field ⟨al, nm, args, dirs, sub, p⟩ par dfn := by
  have h1 := docSels_mem_inDocSel s d t ht
  rw [hs] at h1
  exact walkDoc_hasItems s.view d evs hw _ ((inDoc_sel_iff s.view d _).2 h1)

variable (hk : ∀ op ∈ d.ops, op.op ∈ parserOpKinds)
include hk

/-- a `directive` event is about a directive written at that location, and carries the definition
    of that name -/
theorem directive_event_sound (e : Event) (he : e ∈ evs) (dir : Directive) (dfn : Option DirectiveDef)
    (par : Option Definition) (loc : Bytes) (hp : e.p = .directive dir dfn par loc) :
    dfn = s.directive? dir.name ∧ ∃ ds, (loc, ds) ∈ Spec.directiveSites s d ∧ dir ∈ ds := by
  have := walkDoc_cov s.view d evs hw e he
  rw [hp] at this
  obtain ⟨h1, ds, h2, h3⟩ := this
  exact ⟨h1, ds, (directiveSites_iff s d hk loc ds).2 h2, h3⟩

/-- every directive written in the document has a `directive` event, with the location it is
    written at and the definition of its name -/
theorem directive_event_complete (loc : Bytes) (ds : List Directive) (hsite : (loc, ds) ∈ Spec.directiveSites s d)
    (dir : Directive) (hd : dir ∈ ds) :
    ∃ e ∈ evs, ∃ par, e.p = .directive dir (s.directive? dir.name) par loc := by
  have := walkDoc_hasItems s.view d evs hw _ ((directiveSites_iff s d hk loc ds).1 hsite)
  exact this.2 dir hd

theorem directiveList_event_sound (e : Event) (he : e ∈ evs) (ds : List Directive) (hp : e.p = .directiveList ds) :
    ∃ loc, (loc, ds) ∈ Spec.directiveSites s d := by
  have := walkDoc_cov s.view d evs hw e he
  rw [hp] at this
  obtain ⟨loc, h⟩ := this
  exact ⟨loc, (directiveSites_iff s d hk loc ds).2 h⟩

theorem directiveList_event_complete (loc : Bytes) (ds : List Directive) (hsite : (loc, ds) ∈ Spec.directiveSites s d) :
    ∃ e ∈ evs, e.p = .directiveList ds := by
  have := walkDoc_hasItems s.view d evs hw _ ((directiveSites_iff s d hk loc ds).1 hsite)
  exact this.1

end

end Gql.Validate
