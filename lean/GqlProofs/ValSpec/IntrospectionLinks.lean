import GqlProofs.ValSpec.IntrospectionDepthRule
import GqlProofs.ValSpec.ScopeComplete
/-
  MaxIntrospectionDepth, the link table: every field node written in the document has an event at
  whose time all spreads reachable from its sub-selections are linked (`walkDoc_linkedEvents`).

  It is the event fired for the node in the walk of the operation / of the stand-alone fragment
  definition the node is WRITTEN in: there, no fragment is "in progress" (every visited fragment has
  been walked completely, `AllDone`), so the closure of the marks under reachability holds whatever
  the document (cycles included).  Complete sub-walks are taken from `WalkC` (ScopeComplete.lean).
-/
namespace Gql.Validate
open Gql Gql.Validate.Rules

/-- the marks of the fragment are complete: its spreads are linked and their targets visited -/
def MarksDone (d : QueryDoc) (ws : WS) (f : FragmentDef) : Prop :=
  (∀ nm dirs p, InSels f.sel (.sel (.spread nm dirs p)) → ws.links.linked p.start = true) ∧
  ∀ m ∈ Spec.spreadsOfSels f.sel, ∀ g, fragForName d m = some g → m ∈ ws.visited

/-- no visited fragment is in progress -/
def AllDone (d : QueryDoc) (ws : WS) : Prop :=
  ∀ n ∈ ws.visited, ∀ f, fragForName d n = some f → MarksDone d ws f

theorem MarksDone.ext {d : QueryDoc} {ws ws' : WS} {f : FragmentDef} (h : MarksDone d ws f)
    (hm : ∀ k, ws.links.linked k = true → ws'.links.linked k = true) (hv : ws.visited ⊆ ws'.visited) :
    MarksDone d ws' f :=
  ⟨fun nm dirs p hi => hm _ (h.1 nm dirs p hi), fun m hmem g hg => hv (h.2 m hmem g hg)⟩

theorem FragDone.toMarks {s : SV} {d : QueryDoc} {cur : Option OperationDef} {r : WS × List Event} {f : FragmentDef}
    (h : FragDone s d cur r f) : MarksDone d r.1 f := by
  refine ⟨fun nm dirs p hi => ?_, h.2.2⟩
  obtain ⟨p', hp'⟩ := inSels_lift s f.sel (s.type? f.typeCond) _ hi
  exact (h.1 p' _ hp').2.1

theorem AllDone.frame {d : QueryDoc} {ws ws' : WS} (h : AllDone d ws) (hv : ws'.visited = ws.visited)
    (hm : ∀ k, ws.links.linked k = true → ws'.links.linked k = true) : AllDone d ws' := by
  intro n hn f hf
  rw [hv] at hn
  exact (h n hn f hf).ext hm (by rw [hv]; exact fun _ hx => hx)

theorem AllDone.after {s : SV} {d : QueryDoc} {cur : Option OperationDef} {names : List Name}
    {nodes : Option Definition → Selection → Prop} {ws : WS} {r : WS × List Event}
    (h : AllDone d ws) (hw : WalkC s d cur names nodes ws r) : AllDone d r.1 := by
  intro n hn f hf
  by_cases hold : n ∈ ws.visited
  · exact (h n hold f hf).ext hw.marks hw.mono
  · obtain ⟨g, hg, hd⟩ := hw.new n hn hold
    rw [hf] at hg
    injection hg with hg
    subst hg
    exact hd.toMarks

/-- with nothing in progress, the visited set is closed under reachability -/
theorem AllDone.reach {d : QueryDoc} {ws : WS} (h : AllDone d ws) {names : List Name}
    (hsrc : ∀ m ∈ names, ∀ g, fragForName d m = some g → m ∈ ws.visited) :
    ∀ n, Reach d names n → ∀ g, fragForName d n = some g → n ∈ ws.visited := by
  intro n hr
  induction hr with
  | base hn => exact fun g hg => hsrc _ hn g hg
  | step hm hn ih =>
    intro g hg
    obtain ⟨f, hf, _, _, hn'⟩ := fragSpreads_defined hn
    exact (h _ (ih f hf) f hf).2 _ hn' g hg

section walk
variable (s : SV) (d : QueryDoc) (cur : Option OperationDef)

/-- after the complete walk of a selection set from a state with nothing in progress, every
    spread reachable from it is linked -/
theorem reachLinked_after (J : Jump) (hJ : JumpC s d cur J) (sub : Selections) (parent : Option Definition) (ws : WS)
    (r : WS × List Event) (hd : AllDone d ws) (h : walkSelections s d cur J parent sub ws = some r) :
    ReachLinked r.1.links d (.many sub) := by
  have hw := walkSelections_c s d cur J hJ sub parent ws r h
  have hd' := hd.after hw
  constructor
  · intro nm dirs p hi
    obtain ⟨p', hp'⟩ := inSels_lift s sub parent _ hi
    exact (hw.nodes p' _ hp').2.1
  · intro n g hr hg nm dirs p hi
    have hv := hd'.reach (names := Spec.spreadsOfSels sub) hw.src n hr g hg
    exact (hd' n hv g hg).1 nm dirs p hi

/-- the field nodes written in the node have their fully linked event among `evs` -/
def FieldEvs (evs : List Event) (node : DNode) : Prop :=
  ∀ al nm args dirs sub p, node.Has (.field al nm args dirs sub p) →
    ∃ e ∈ evs, (∃ par dfn, e.p = .field ⟨al, nm, args, dirs, sub, p⟩ par dfn) ∧ ReachLinked e.links d (.many sub)

theorem FieldEvs.mono {d : QueryDoc} {a b : List Event} {node : DNode} (h : FieldEvs d a node) (hab : ∀ e ∈ a, e ∈ b) :
    FieldEvs d b node := by
  intro al nm args dirs sub p hi
  obtain ⟨e, he, x⟩ := h al nm args dirs sub p hi
  exact ⟨e, hab e he, x⟩

mutual
  theorem walkSelection_fl (J : Jump) (hJ : JumpC s d cur J) :
      ∀ (x : Selection) (parent : Option Definition) (ws : WS) r, AllDone d ws →
        walkSelection s d cur J parent x ws = some r → FieldEvs d r.2 (.one x)
    | .field al nm args dirs sub p, parent, ws, r, hd, h => by
      unfold walkSelection at h
      simp only at h
      split at h
      · cases h
      · rename_i r3 h3
        injection h with h
        subst h
        have hd2 : ∀ w : WS, w.visited = ws.visited → w.links.sels = (ws.markSel p.start).links.sels → AllDone d w :=
          fun w hv hs => hd.frame hv (pre_linked ws p.start w hs).2
        have hlk := reachLinked_after s d cur J hJ sub _ _ r3
          (hd2 _ (by rw [walkDirectives_visited, walkArgs_visited, markSel_visited])
            (by rw [walkDirectives_sels, walkArgs_sels])) h3
        have ih := walkSelections_fl J hJ sub _ _ r3
          (hd2 _ (by rw [walkDirectives_visited, walkArgs_visited, markSel_visited])
            (by rw [walkDirectives_sels, walkArgs_sels])) h3
        intro al' nm' args' dirs' sub' p' hi
        cases hi with
        | self =>
          exact ⟨_, List.mem_append_right _ (List.mem_singleton.2 rfl), ⟨_, _, rfl⟩, hlk⟩
        | fieldSub _ _ _ _ _ _ _ hs =>
          obtain ⟨e, he, x⟩ := ih al' nm' args' dirs' sub' p' hs
          exact ⟨e, List.mem_append_left _ (List.mem_append_right _ he), x⟩
    | .inline tc dirs sub p, parent, ws, r, hd, h => by
      unfold walkSelection at h
      simp only at h
      split at h
      · cases h
      · rename_i r3 h3
        injection h with h
        subst h
        have hd2 : AllDone d (walkDirectives s cur (if tc != [] then s.type? tc else parent) dirs locInlineFragment
            (ws.markSel p.start)).1 :=
          hd.frame (by rw [walkDirectives_visited, markSel_visited])
            (pre_linked ws p.start _ (by rw [walkDirectives_sels])).2
        have ih := walkSelections_fl J hJ sub _ _ r3 hd2 h3
        intro al' nm' args' dirs' sub' p' hi
        cases hi with
        | inlineSub _ _ _ _ _ hs =>
          obtain ⟨e, he, x⟩ := ih al' nm' args' dirs' sub' p' hs
          exact ⟨e, List.mem_append_left _ (List.mem_append_right _ he), x⟩
    | .spread nm dirs p, parent, ws, r, hd, h => by
      intro al' nm' args' dirs' sub' p' hi
      cases hi
  theorem walkSelections_fl (J : Jump) (hJ : JumpC s d cur J) :
      ∀ (xs : Selections) (parent : Option Definition) (ws : WS) r, AllDone d ws →
        walkSelections s d cur J parent xs ws = some r → FieldEvs d r.2 (.many xs)
    | .nil, parent, ws, r, hd, h => by
      intro al' nm' args' dirs' sub' p' hi
      cases hi
    | .cons x rest, parent, ws, r, hd, h => by
      unfold walkSelections at h
      split at h
      · cases h
      · rename_i r1 h1
        split at h
        · cases h
        · rename_i r2 h2
          injection h with h
          subst h
          have hd1 := hd.after (walkSelection_c s d cur J hJ x parent ws r1 h1)
          have ih1 := walkSelection_fl J hJ x parent ws r1 hd h1
          have ih2 := walkSelections_fl J hJ rest parent r1.1 r2 hd1 h2
          intro al' nm' args' dirs' sub' p' hi
          cases hi with
          | head _ _ _ hx =>
            obtain ⟨e, he, y⟩ := ih1 al' nm' args' dirs' sub' p' hx
            exact ⟨e, List.mem_append_left _ he, y⟩
          | tail _ _ _ hx =>
            obtain ⟨e, he, y⟩ := ih2 al' nm' args' dirs' sub' p' hx
            exact ⟨e, List.mem_append_right _ he, y⟩
end

end walk

theorem allDone_of_nil {d : QueryDoc} {ws : WS} (h : ws.visited = []) : AllDone d ws := by
  intro n hn
  rw [h] at hn
  cases hn

theorem walkOperation_fl (s : SV) (d : QueryDoc) (k : Nat) (op : OperationDef) (l : Links)
    (r : Links × List Event) (h : walkOperation s d (k + 1) op l = some r) : FieldEvs d r.2 (.many op.sel) := by
  unfold walkOperation at h
  simp only at h
  split at h
  · cases h
  · rename_i r4 h4
    injection h with h
    subst h
    simp only [walkLevel] at h4
    have := walkSelections_fl s d (some op) _ (walkLevel_c s d (some op) k) op.sel _ _ r4
      (allDone_of_nil (by rw [walkDirectives_visited, walkVarDefsB_visited])) h4
    exact this.mono (fun e he => List.mem_append_left _ (List.mem_append_right _ he))

theorem walkFragment_fl (s : SV) (d : QueryDoc) (k : Nat) (f : FragmentDef) (l : Links)
    (r : Links × List Event) (h : walkFragment s d (k + 1) f l = some r) : FieldEvs d r.2 (.many f.sel) := by
  unfold walkFragment at h
  simp only at h
  split at h
  · cases h
  · rename_i r2 h2
    injection h with h
    subst h
    simp only [walkLevel] at h2
    have := walkSelections_fl s d none _ (walkLevel_c s d none k) f.sel _ _ r2
      (allDone_of_nil (by rw [walkDirectives_visited])) h2
    exact this.mono (fun e he => List.mem_append_left _ (List.mem_append_right _ he))

theorem walkOps_fl (s : SV) (d : QueryDoc) (k : Nat) :
    ∀ (ops : List OperationDef) (l : Links) (r : Links × List Event), walkOps s d (k + 1) ops l = some r →
      ∀ op ∈ ops, FieldEvs d r.2 (.many op.sel)
  | [], _, _, _, op, hop => by cases hop
  | o :: rest, l, r, h, op, hop => by
    unfold walkOps at h
    split at h
    · cases h
    · rename_i r1 h1
      split at h
      · cases h
      · rename_i r2 h2
        injection h with h
        subst h
        rcases List.mem_cons.1 hop with rfl | hop
        · exact (walkOperation_fl s d k op l r1 h1).mono (fun e he => List.mem_append_left _ he)
        · exact (walkOps_fl s d k rest r1.1 r2 h2 op hop).mono (fun e he => List.mem_append_right _ he)

theorem walkFrags_fl (s : SV) (d : QueryDoc) (k : Nat) :
    ∀ (fs : List FragmentDef) (l : Links) (r : Links × List Event), walkFrags s d (k + 1) fs l = some r →
      ∀ f ∈ fs, FieldEvs d r.2 (.many f.sel)
  | [], _, _, _, f, hf => by cases hf
  | f0 :: rest, l, r, h, f, hf => by
    unfold walkFrags at h
    split at h
    · cases h
    · rename_i r1 h1
      split at h
      · cases h
      · rename_i r2 h2
        injection h with h
        subst h
        rcases List.mem_cons.1 hf with rfl | hf
        · exact (walkFragment_fl s d k f l r1 h1).mono (fun e he => List.mem_append_left _ he)
        · exact (walkFrags_fl s d k rest r1.1 r2 h2 f hf).mono (fun e he => List.mem_append_right _ he)

/-- every field node written in the document has an event at whose time every spread reachable
    from its sub-selections is linked (no hypothesis on the document) -/
theorem walkDoc_fieldLinked (s : SV) (d : QueryDoc) (evs : List Event) (h : walkDoc s d = some evs) :
    ∀ al nm args dirs sub p, InDocSel d (.sel (.field al nm args dirs sub p)) →
      ∃ e ∈ evs, (∃ par dfn, e.p = .field ⟨al, nm, args, dirs, sub, p⟩ par dfn) ∧ ReachLinked e.links d (.many sub) := by
  intro al nm args dirs sub p hi
  unfold walkDoc walkFuel at h
  split at h
  · cases h
  · rename_i r1 h1
    split at h
    · cases h
    · rename_i r2 h2
      injection h with h
      subst h
      rcases hi with ⟨op, hop, hi⟩ | ⟨f, hf, hi⟩
      · obtain ⟨e, he, x⟩ := walkOps_fl s d _ d.ops _ r1 h1 op hop al nm args dirs sub p hi
        exact ⟨e, List.mem_append_left _ he, x⟩
      · obtain ⟨e, he, x⟩ := walkFrags_fl s d _ d.frags _ r2 h2 f hf al nm args dirs sub p hi
        exact ⟨e, List.mem_append_right _ he, x⟩

theorem walkDoc_linkedEvents (s : SV) (d : QueryDoc) (evs : List Event) (h : walkDoc s d = some evs) :
    LinkedEvents d evs :=
  fun al nm args dirs sub p hi _ => walkDoc_fieldLinked s d evs h al nm args dirs sub p hi

/-- MaxIntrospectionDepth is silent on every event iff the specification predicate holds, for
    documents without fragment cycles -/
theorem maxIntrospectionDepth_iff (s : Schema) (d : QueryDoc) (evs : List Event)
    (hw : walkDoc s.view d = some evs) (hc : Spec.noFragmentCycles d = true) :
    (∀ e ∈ evs, maxIntrospectionDepthStep s.view d e = .ok []) ↔ Spec.maxIntrospectionDepth d = true :=
  maxIntrospectionDepth_iff_of_linked s d evs hw hc (walkDoc_linkedEvents s.view d evs hw)

end Gql.Validate

/- ---------- witnesses (kernel-checked) ---------- -/
namespace Gql.Validate.IntrospectionWitness
open Gql Gql.Validate Gql.Validate.Rules

def at' (n : Nat) : Pos := { start := n, stop := n + 1, line := 1, col := n + 1 }
def fld (n : String) (p : Nat) (sub : Selections) : Selection := .field (str n) (str n) [] [] sub (at' p)
def spr (n : String) (p : Nat) : Selection := .spread (str n) [] (at' p)
def sels : List Selection → Selections
  | [] => .nil
  | x :: xs => .cons x (sels xs)
def frag (n : String) (p : Nat) (s : Selections) : FragmentDef :=
  { name := str n, vars := [], typeCond := str "Query", dirs := [], sel := s, pos := at' p }
def qry (p : Nat) (s : Selections) : OperationDef :=
  { op := str "query", name := [], vars := [], dirs := [], sel := s, pos := at' p }

/-- `{ __schema { ...A } }  fragment A on Query { fields { fields { x } } }` : acyclic, within the limit -/
def docShallow : QueryDoc :=
  { ops := [qry 0 (sels [fld "__schema" 1 (sels [spr "A" 2])])],
    frags := [frag "A" 10 (sels [fld "fields" 11 (sels [fld "fields" 12 (sels [fld "x" 13 .nil])])])] }

/-- `{ __schema { ...A } }  fragment A on Query { fields { fields { fields { x } } } }` : acyclic, too deep -/
def docDeep : QueryDoc :=
  { ops := [qry 0 (sels [fld "__schema" 1 (sels [spr "A" 2])])],
    frags := [frag "A" 10 (sels [fld "fields" 11 (sels [fld "fields" 12 (sels [fld "fields" 13 (sels [fld "x" 14 .nil])])])])] }

/-- `{ __schema { ...A ...B } }  fragment A on Query { ...B fields { fields { x } } }
     fragment B on Query { fields { ...A } }` : the cycle A → B → A.
    Path `__schema → B → fields → A → fields → fields` passes 3 list fields.  The rule goes
    `__schema → A → B` first; there `...A` is cut (A is being visited) and B is remembered as
    "cleared from depth 0"; then A itself is cleared (2 list fields); then `...B` at depth 0 is
    skipped because of the memo entry — which was computed while A was cut. -/
def docCyc : QueryDoc :=
  { ops := [qry 0 (sels [fld "__schema" 1 (sels [spr "A" 2, spr "B" 3])])],
    frags := [frag "A" 10 (sels [spr "B" 11, fld "fields" 12 (sels [fld "fields" 13 (sels [fld "x" 14 .nil])])]),
              frag "B" 20 (sels [fld "fields" 21 (sels [spr "A" 22])])] }

/-- `fragment G on Query { __schema { ...G } other { ...H } }  fragment H on Query { fields { fields { fields { x } } } }`
    (no operation): at the `__schema` event fired INSIDE the jump `...G` the spread `...H` is not linked yet and that check
    finds nothing; the event fired for the same node when the stand-alone walk of `G` comes back to it sees `...H` linked. -/
def docLate : QueryDoc :=
  { ops := [],
    frags := [frag "G" 0 (sels [fld "__schema" 1 (sels [spr "G" 2]), fld "other" 3 (sels [spr "H" 4])]),
              frag "H" 10 (sels [fld "fields" 11 (sels [fld "fields" 12 (sels [fld "fields" 13 (sels [fld "x" 14 .nil])])])])] }

/- the hypothesis `Spec.noFragmentCycles d = true` is satisfiable, with both outcomes -/
example : Spec.noFragmentCycles docShallow = true ∧ Spec.maxIntrospectionDepth docShallow = true ∧
    validate [maxIntrospectionDepth] Schema.empty docShallow = .ok [] := by decide +kernel

example : Spec.noFragmentCycles docDeep = true ∧ Spec.maxIntrospectionDepth docDeep = false ∧
    validate [maxIntrospectionDepth] Schema.empty docDeep =
      .ok [{ rule := str "MaxIntrospectionDepth", msg := str "Maximum introspection depth exceeded", locs := [(1, 2)] }] := by
  decide +kernel

/-- without `Spec.noFragmentCycles` the direction "silent ⇒ specification predicate" fails -/
theorem docCyc_counterexample : Spec.noFragmentCycles docCyc = false ∧
    validate [maxIntrospectionDepth] Schema.empty docCyc = .ok [] ∧ Spec.maxIntrospectionDepth docCyc = false := by
  decide +kernel

/-- a late link is no disagreement: both sides reject `docLate` -/
example : Spec.maxIntrospectionDepth docLate = false ∧
    validate [maxIntrospectionDepth] Schema.empty docLate =
      .ok [{ rule := str "MaxIntrospectionDepth", msg := str "Maximum introspection depth exceeded", locs := [(1, 2)] }] := by
  decide +kernel

end Gql.Validate.IntrospectionWitness
