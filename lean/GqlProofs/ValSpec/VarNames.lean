import GqlProofs.ValSpec.UnusedFragments
import GqlModel.Validate.Spec.Variables
/-
  The NAMES of the variable usages the specification collects (`Spec.scopeUses`) do not depend on
  any typing: they are the variables written in the arguments of the field nodes and in the
  directives of the operation and of the fragment definitions it references.
-/
namespace Gql.Validate
open Gql

mutual
  /-- names of the variables written in a value (a variable node has no children that count) -/
  def varNamesV : Value → List Name
    | .mk k raw ch _ =>
      match k with
      | .variable => [raw]
      | .list => varNamesCh ch
      | .object => varNamesCh ch
      | _ => []
  def varNamesCh : Children → List Name
    | .nil => []
    | .cons _ v _ rest => varNamesV v ++ varNamesCh rest
end

def argsVarNames (args : List Argument) : List Name := args.flatMap fun a => varNamesV a.value
def dirsVarNames (dirs : List Directive) : List Name := dirs.flatMap fun dir => argsVarNames dir.args

/-- the arguments written at a selection node -/
def nodeArgs : Selection → List Argument
  | .field _ _ args _ _ _ => args
  | _ => []

def nodeVarNames (y : Selection) : List Name := argsVarNames (nodeArgs y) ++ dirsVarNames (Spec.selDirs y)

mutual
  theorem usesInValue_names (s : Schema) : ∀ (v : Value) (exp : Option GType) (ld : Bool) (oo : Option Name),
      (Spec.usesInValue s exp ld oo v).map (·.name) = varNamesV v
    | .mk k raw ch p, exp, ld, oo => by
      unfold Spec.usesInValue varNamesV
      cases k <;> simp only [List.map_cons, List.map_nil]
      · exact usesInItems_names s ch _
      · split
        · split
          · exact usesInFields_names s ch _
          · exact usesInFields_names s ch _
        · exact usesInFields_names s ch _
  theorem usesInItems_names (s : Schema) : ∀ (ch : Children) (e : Option GType),
      (Spec.usesInItems s e ch).map (·.name) = varNamesCh ch
    | .nil, e => by simp [Spec.usesInItems, varNamesCh]
    | .cons n v p rest, e => by
      simp only [Spec.usesInItems, varNamesCh, List.map_append, usesInValue_names s v, usesInItems_names s rest]
  theorem usesInFields_names (s : Schema) : ∀ (ch : Children) (dd : Option Definition),
      (Spec.usesInFields s dd ch).map (·.name) = varNamesCh ch
    | .nil, dd => by simp [Spec.usesInFields, varNamesCh]
    | .cons n v p rest, dd => by
      simp only [Spec.usesInFields, varNamesCh, List.map_append, usesInFields_names s rest]
      congr 1
      split <;> exact usesInValue_names s v _ _ _
end

theorem usesInArgs_names (s : Schema) (defs : Option (List ArgDef)) :
    ∀ args : List Argument, (Spec.usesInArgs s defs args).map (·.name) = argsVarNames args
  | [] => rfl
  | a :: rest => by
    have ih := usesInArgs_names s defs rest
    simp only [Spec.usesInArgs, argsVarNames, List.flatMap_cons, List.map_append] at ih ⊢
    rw [ih]
    congr 1
    split <;> exact usesInValue_names s a.value _ _ _

theorem usesInDirs_names (s : Schema) : ∀ dirs : List Directive,
    (Spec.usesInDirs s dirs).map (·.name) = dirsVarNames dirs
  | [] => rfl
  | dir :: rest => by
    have ih := usesInDirs_names s rest
    simp only [Spec.usesInDirs, dirsVarNames, List.flatMap_cons, List.map_append] at ih ⊢
    rw [ih, usesInArgs_names]

mutual
  theorem mem_usesInSel_names (s : Schema) (x : Name) : ∀ (sel : Selection) (parent : Option Definition),
      x ∈ (Spec.usesInSel s parent sel).map (·.name) ↔ ∃ y, InSel sel (.sel y) ∧ x ∈ nodeVarNames y
    | .field al nm args dirs sub p, parent => by
      simp only [Spec.usesInSel, List.map_append, List.mem_append, usesInArgs_names, usesInDirs_names]
      rw [mem_usesInSels_names s x sub]
      constructor
      · rintro ((h | h) | ⟨y, hy, hx⟩)
        · exact ⟨_, InSel.self _, List.mem_append_left _ h⟩
        · exact ⟨_, InSel.self _, List.mem_append_right _ h⟩
        · exact ⟨y, InSel.fieldSub al nm args dirs sub p _ hy, hx⟩
      · rintro ⟨y, hy, hx⟩
        cases hy with
        | self =>
          rcases List.mem_append.1 hx with h | h
          · exact Or.inl (Or.inl h)
          · exact Or.inl (Or.inr h)
        | fieldSub _ _ _ _ _ _ _ hs => exact Or.inr ⟨y, hs, hx⟩
    | .spread nm dirs p, parent => by
      simp only [Spec.usesInSel, usesInDirs_names]
      constructor
      · intro h
        exact ⟨_, InSel.self _, List.mem_append_right _ h⟩
      · rintro ⟨y, hy, hx⟩
        cases hy with
        | self =>
          rcases List.mem_append.1 hx with h | h
          · simp [nodeArgs, argsVarNames] at h
          · exact h
    | .inline tc dirs sub p, parent => by
      simp only [Spec.usesInSel, List.map_append, List.mem_append, usesInDirs_names]
      rw [mem_usesInSels_names s x sub]
      constructor
      · rintro (h | ⟨y, hy, hx⟩)
        · exact ⟨_, InSel.self _, List.mem_append_right _ h⟩
        · exact ⟨y, InSel.inlineSub tc dirs sub p _ hy, hx⟩
      · rintro ⟨y, hy, hx⟩
        cases hy with
        | self =>
          rcases List.mem_append.1 hx with h | h
          · simp [nodeArgs, argsVarNames] at h
          · exact Or.inl h
        | inlineSub _ _ _ _ _ hs => exact Or.inr ⟨y, hs, hx⟩
  theorem mem_usesInSels_names (s : Schema) (x : Name) : ∀ (sels : Selections) (parent : Option Definition),
      x ∈ (Spec.usesInSels s parent sels).map (·.name) ↔ ∃ y, InSels sels (.sel y) ∧ x ∈ nodeVarNames y
    | .nil, parent => by
      simp only [Spec.usesInSels, List.map_nil, List.not_mem_nil, false_iff]
      rintro ⟨_, h, _⟩
      cases h
    | .cons sel rest, parent => by
      simp only [Spec.usesInSels, List.map_append, List.mem_append]
      rw [mem_usesInSel_names s x sel, mem_usesInSels_names s x rest]
      constructor
      · rintro (⟨y, hy, hx⟩ | ⟨y, hy, hx⟩)
        · exact ⟨y, InSels.head sel rest _ hy, hx⟩
        · exact ⟨y, InSels.tail sel rest _ hy, hx⟩
      · rintro ⟨y, hy, hx⟩
        cases hy with
        | head _ _ _ h => exact Or.inl ⟨y, h, hx⟩
        | tail _ _ _ h => exact Or.inr ⟨y, h, hx⟩
end

/-- the names used in the body of a fragment definition / in an operation itself -/
def fragVarName (f : FragmentDef) (x : Name) : Prop :=
  x ∈ dirsVarNames f.dirs ∨ ∃ y, InSels f.sel (.sel y) ∧ x ∈ nodeVarNames y

def opOwnVarName (op : OperationDef) (x : Name) : Prop :=
  (∃ v ∈ op.vars, x ∈ dirsVarNames v.dirs) ∨ x ∈ dirsVarNames op.dirs ∨ ∃ y, InSels op.sel (.sel y) ∧ x ∈ nodeVarNames y

theorem mem_scopeUses_names (s : Schema) (d : QueryDoc) (op : OperationDef) (x : Name) :
    x ∈ (Spec.scopeUses s d op).map (·.name) ↔
      opOwnVarName op x ∨ ∃ f ∈ Spec.opFragments d op, fragVarName f x := by
  simp only [Spec.scopeUses, Spec.usesInOperation, Spec.usesInFragment, List.map_append, List.mem_append,
    List.map_flatMap, List.mem_flatMap, usesInDirs_names, mem_usesInSels_names, opOwnVarName, fragVarName]
  constructor
  · rintro (((⟨v, hv, hx⟩ | h) | h) | ⟨f, hf, h⟩)
    · exact Or.inl (Or.inl ⟨v, hv, hx⟩)
    · exact Or.inl (Or.inr (Or.inl h))
    · exact Or.inl (Or.inr (Or.inr h))
    · exact Or.inr ⟨f, hf, h⟩
  · rintro ((⟨v, hv, hx⟩ | h | h) | ⟨f, hf, h⟩)
    · exact Or.inl (Or.inl (Or.inl ⟨v, hv, hx⟩))
    · exact Or.inl (Or.inl (Or.inr h))
    · exact Or.inl (Or.inr h)
    · exact Or.inr ⟨f, hf, h⟩

/-- with pairwise different fragment names, the fragment definitions an operation references are
    the ones whose name is reachable from its selection set -/
theorem mem_opFragments_iff (d : QueryDoc) (hu : Spec.fragmentNameUniqueness d = true) (op : OperationDef)
    (f : FragmentDef) :
    f ∈ Spec.opFragments d op ↔ ∃ n, Reach d (Spec.spreadsOfSels op.sel) n ∧ fragForName d n = some f := by
  have hu' : (d.frags.map (·.name)).Nodup := (distinct_iff_nodup _).1 hu
  simp only [Spec.opFragments, List.mem_filter, Bool.and_eq_true, reachFrom_contains_iff]
  constructor
  · rintro ⟨hf, hr, _⟩
    exact ⟨f.name, hr, fragForName_of_nodup hu' hf⟩
  · rintro ⟨n, hr, hf⟩
    have hn : f.name = n := fragForName_name hf
    subst hn
    refine ⟨fragForName_mem hf, hr, ?_⟩
    rw [fragByName_eq, hf]
    simp

end Gql.Validate
