import GqlProofs.ValSpec.ValBlocks
import GqlProofs.ValSpec.VarNames
import GqlProofs.ValSpec.UsedVars
import GqlModel.Validate.Rules.NoUndefinedVariables
import GqlModel.Validate.Rules.NoUnusedVariables
/-
  NoUndefinedVariables (§5.8.3) and NoUnusedVariables (§5.8.4): the variables for which a `value`
  event is fired while `CurrentOperation = op` are exactly the variables the specification finds
  in the scope of `op` (`Spec.scopeUses`: the operation itself and the fragment definitions it
  references transitively, definitions' directives included).

  Hypotheses: the fragment names are pairwise different (`Spec.opFragments` picks a definition by
  name and position, the walker the first one of the name), and default values of variables contain
  no variables (the grammar makes them constant; the walker would count such a use, the
  specification does not look there).
-/
namespace Gql.Validate
open Gql Gql.Validate.Rules

/-- default values are constant (what the parser produces: `Value[Const]`) -/
def constDefaults (d : QueryDoc) : Bool :=
  d.ops.all fun op => op.vars.all fun v =>
    match v.default with
    | some dv => (varNamesV dv).isEmpty
    | none => true

/- ---------- variable names of a value and its sites ---------- -/

theorem exists_site_append {x : Name} (S : List VSite) (exp : Option GType) (dfn : Option Definition)
    (k : ValueKind) (raw : Bytes) (ch : Children) (p : Pos) :
    (∃ e d' c q, ((e, d', Value.mk .variable x c q) : VSite) ∈ S ++ [(exp, dfn, Value.mk k raw ch p)]) ↔
      (∃ e d' c q, ((e, d', Value.mk .variable x c q) : VSite) ∈ S) ∨ (k = .variable ∧ raw = x) := by
  constructor
  · rintro ⟨e, d', c, q, h⟩
    rcases List.mem_append.1 h with h | h
    · exact Or.inl ⟨e, d', c, q, h⟩
    · simp only [List.mem_singleton, Prod.mk.injEq, Value.mk.injEq] at h
      exact Or.inr ⟨h.2.2.1.symm, h.2.2.2.1.symm⟩
  · rintro (⟨e, d', c, q, h⟩ | ⟨rfl, rfl⟩)
    · exact ⟨e, d', c, q, List.mem_append_left _ h⟩
    · exact ⟨exp, dfn, ch, p, List.mem_append_right _ (List.mem_singleton.2 rfl)⟩

mutual
  theorem mem_varNamesV_iff (s : SV) (x : Name) : ∀ (v : Value) (exp : Option GType) (dfn : Option Definition),
      x ∈ varNamesV v ↔ ∃ exp' dfn' ch p, ((exp', dfn', Value.mk .variable x ch p) : VSite) ∈ valSites s exp dfn v
    | .mk k raw ch p, exp, dfn => by
      unfold varNamesV valSites
      rw [exists_site_append]
      cases k with
      | «variable» => simp [eq_comm]
      | list =>
        simp only [reduceCtorEq, false_and, or_false]
        exact mem_varNamesCh_list s x ch exp dfn
      | object =>
        simp only [reduceCtorEq, false_and, or_false]
        exact mem_varNamesCh_obj s x ch dfn
      | int | float | string | block | boolean | null | enum => simp
  theorem mem_varNamesCh_obj (s : SV) (x : Name) : ∀ (ch : Children) (dfn : Option Definition),
      x ∈ varNamesCh ch ↔ ∃ exp' dfn' c p, ((exp', dfn', Value.mk .variable x c p) : VSite) ∈ objSites s dfn ch
    | .nil, dfn => by simp [varNamesCh, objSites]
    | .cons n v q rest, dfn => by
      simp only [varNamesCh, objSites, List.mem_append]
      rw [mem_varNamesV_iff s x v (objChildLink s dfn n).1 (objChildLink s dfn n).2, mem_varNamesCh_obj s x rest dfn]
      constructor
      · rintro (⟨e, d', c, p, h⟩ | ⟨e, d', c, p, h⟩)
        · exact ⟨e, d', c, p, Or.inl h⟩
        · exact ⟨e, d', c, p, Or.inr h⟩
      · rintro ⟨e, d', c, p, h | h⟩
        · exact Or.inl ⟨e, d', c, p, h⟩
        · exact Or.inr ⟨e, d', c, p, h⟩
  theorem mem_varNamesCh_list (s : SV) (x : Name) : ∀ (ch : Children) (exp : Option GType) (dfn : Option Definition),
      x ∈ varNamesCh ch ↔ ∃ exp' dfn' c p, ((exp', dfn', Value.mk .variable x c p) : VSite) ∈ listSites s exp dfn ch
    | .nil, exp, dfn => by simp [varNamesCh, listSites]
    | .cons n v q rest, exp, dfn => by
      simp only [varNamesCh, listSites, List.mem_append]
      rw [mem_varNamesV_iff s x v (listChildLink exp dfn).1 (listChildLink exp dfn).2, mem_varNamesCh_list s x rest exp dfn]
      constructor
      · rintro (⟨e, d', c, p, h⟩ | ⟨e, d', c, p, h⟩)
        · exact ⟨e, d', c, p, Or.inl h⟩
        · exact ⟨e, d', c, p, Or.inr h⟩
      · rintro ⟨e, d', c, p, h | h⟩
        · exact Or.inl ⟨e, d', c, p, h⟩
        · exact Or.inr ⟨e, d', c, p, h⟩
end

theorem mem_argsVarNames_iff (s : SV) (x : Name) (defs : Option (List ArgDef)) : ∀ args : List Argument,
    x ∈ argsVarNames args ↔ ∃ exp' dfn' c p, ((exp', dfn', Value.mk .variable x c p) : VSite) ∈ argValSites s defs args
  | [] => by simp [argsVarNames, argValSites]
  | a :: rest => by
    have ih := mem_argsVarNames_iff s x defs rest
    simp only [argsVarNames, List.flatMap_cons, List.mem_append, argValSites] at ih ⊢
    rw [ih, mem_varNamesV_iff s x a.value (argLink s defs a.name).1 (argLink s defs a.name).2]
    constructor
    · rintro (⟨e, d', c, p, h⟩ | ⟨e, d', c, p, h⟩)
      · exact ⟨e, d', c, p, Or.inl h⟩
      · exact ⟨e, d', c, p, Or.inr h⟩
    · rintro ⟨e, d', c, p, h | h⟩
      · exact Or.inl ⟨e, d', c, p, h⟩
      · exact Or.inr ⟨e, d', c, p, h⟩

/-- a variable value event for `x` fired with `CurrentOperation = op` -/
def WalkVarName (evs : List Event) (op : OperationDef) (x : Name) : Prop :=
  ∃ e ∈ evs, e.cur = some op ∧ ∃ ch p exp dfn, e.p = .value (.mk .variable x ch p) exp dfn

/-- an argument block that lies in the run yields the events of the variables written in it -/
theorem walkVarName_of_args {s : SV} {evs : List Event} {op : OperationDef} {defs : Option (List ArgDef)}
    {args : List Argument} {ws : WS} (hsub : ∀ e ∈ (walkArgs s (some op) defs args ws).2, e ∈ evs) {x : Name}
    (hx : x ∈ argsVarNames args) : WalkVarName evs op x := by
  obtain ⟨e', d', c, p, ht⟩ := (mem_argsVarNames_iff s x defs args).1 hx
  obtain ⟨e, he, hp⟩ := walkArgs_complete (some op) ws ht
  exact ⟨e, hsub e he, walkArgs_cur s (some op) defs args ws e he, c, p, e', d', hp⟩

theorem argsVarNames_of_event {s : SV} {cur : Option OperationDef} {defs : Option (List ArgDef)}
    {args : List Argument} {ws : WS} {e : Event} (he : e ∈ (walkArgs s cur defs args ws).2) {x : Name}
    {ch : Children} {p : Pos} {exp : Option GType} {dfn : Option Definition}
    (hp : e.p = .value (.mk .variable x ch p) exp dfn) : x ∈ argsVarNames args := by
  obtain ⟨t, ht, hp'⟩ := walkArgs_sound he
  rw [hp] at hp'
  injection hp' with h1 h2 h3
  refine (mem_argsVarNames_iff s x defs args).2 ⟨t.1, t.2.1, ch, p, ?_⟩
  rw [h1]
  exact ht

theorem mem_dirsVarNames {x : Name} {dirs : List Directive} :
    x ∈ dirsVarNames dirs ↔ ∃ dir ∈ dirs, x ∈ argsVarNames dir.args := by
  simp [dirsVarNames, List.mem_flatMap]

section block
variable (s : Schema) (d : QueryDoc) (blk : List Event) (hB : ValInv s.view d blk)
include hB

/-- the variables of a directive list that has been walked on behalf of `op` have their events -/
theorem walkVarName_of_dirs {op : OperationDef} {loc : Bytes} {ds : List Directive}
    (h : HasDirsC s.view (some op) loc ds blk) {x : Name} (hx : x ∈ dirsVarNames ds) : WalkVarName blk op x := by
  obtain ⟨dir, hdir, hx'⟩ := mem_dirsVarNames.1 hx
  obtain ⟨e', he', par, hc, hp⟩ := h.2 dir hdir
  obtain ⟨ws, hsub⟩ := hB.dirArgs e' he' dir _ par loc hp
  rw [hc] at hsub
  exact walkVarName_of_args hsub hx'

theorem walkVarName_of_node {op : OperationDef} {p' : Option Definition} {y : Selection}
    (hn : HasNodeCur d (some op) blk p' y) (hd : HasDirsC s.view (some op) (Spec.selLoc y) (Spec.selDirs y) blk)
    {x : Name} (hx : x ∈ nodeVarNames y) : WalkVarName blk op x := by
  rcases List.mem_append.1 hx with hx | hx
  · cases y with
    | field al nm args dirs sub p =>
      obtain ⟨e', he', hc, hp⟩ := hn
      obtain ⟨ws, hsub⟩ := hB.fieldArgs e' he' _ _ _ hp
      rw [hc] at hsub
      exact walkVarName_of_args hsub hx
    | spread nm dirs p => simp [nodeArgs, argsVarNames] at hx
    | inline tc dirs sub p => simp [nodeArgs, argsVarNames] at hx
  · exact walkVarName_of_dirs s d blk hB hd hx

/-- completeness in one block: every use the specification finds in the scope of `op` has its
    event in a block that contains the complete walk of `op` -/
theorem walkVarName_of_scopeUses (hu : Spec.fragmentNameUniqueness d = true) (op : OperationDef)
    (hscope : OpScope s.view d op blk) {x : Name} (hx : x ∈ (Spec.scopeUses s d op).map (·.name)) :
    WalkVarName blk op x := by
  rw [mem_scopeUses_names] at hx
  rcases hx with (⟨v, hv, hx⟩ | hx | ⟨y, hy, hx⟩) | ⟨g, hg, hx | ⟨y, hy, hx⟩⟩
  · exact walkVarName_of_dirs s d blk hB (hscope.varDirs v hv) hx
  · exact walkVarName_of_dirs s d blk hB hscope.opDirs hx
  · obtain ⟨p', hw'⟩ := inSels_lift s.view op.sel (opRoot s.view op.op).1 y hy
    obtain ⟨h1, h2⟩ := hscope.nodes p' y (Or.inl hw')
    exact walkVarName_of_node s d blk hB h1 h2 hx
  · obtain ⟨n, hr, hgn⟩ := (mem_opFragments_iff d hu op g).1 hg
    exact walkVarName_of_dirs s d blk hB (hscope.fragDirs n g hr hgn) hx
  · obtain ⟨n, hr, hgn⟩ := (mem_opFragments_iff d hu op g).1 hg
    obtain ⟨p', hw'⟩ := inSels_lift s.view g.sel (s.view.type? g.typeCond) y hy
    obtain ⟨h1, h2⟩ := hscope.nodes p' y (Or.inr ⟨n, g, hr, hgn, hw'⟩)
    exact walkVarName_of_node s d blk hB h1 h2 hx

end block

section run
variable (s : Schema) (d : QueryDoc) (evs : List Event) (hw : walkDoc s.view d = some evs)
include hw

/-- soundness: a variable value event fired under `op` is a use in the scope of `op` -/
theorem scopeUses_of_walkVarName (hu : Spec.fragmentNameUniqueness d = true) (hcd : constDefaults d = true)
    (op : OperationDef) {x : Name} (h : WalkVarName evs op x) : x ∈ (Spec.scopeUses s d op).map (·.name) := by
  rw [mem_scopeUses_names]
  obtain ⟨e, he, hc, ch, p, exp, dfn, hp⟩ := h
  rcases walkDoc_value_origin s.view d evs hw e he _ exp dfn hp with
    ⟨e', he', f, par, fd, ws, hp', hc', hin⟩ | ⟨e', he', dir, dd, par, loc, ws, hp', hc', hin⟩ |
    ⟨op', hop', vd, hvd, dv, ws, hdv, hc', hin⟩
  · -- argument of a field node
    have hx := argsVarNames_of_event hin hp
    obtain ⟨_, hs⟩ := walkDoc_op_sound s.view d evs hw e' he' op (hc'.trans hc)
    have h2 := hs.2
    simp only [hp'] at h2
    have hxn : x ∈ nodeVarNames (.field f.alias f.name f.args f.dirs f.sel f.pos) :=
      List.mem_append_left _ hx
    rcases h2.1 with hi | ⟨n, g, hr, hg, hi⟩
    · exact Or.inl (Or.inr (Or.inr ⟨_, inSelsW_forget s.view op.sel _ _ _ hi, hxn⟩))
    · exact Or.inr ⟨g, (mem_opFragments_iff d hu op g).2 ⟨n, hr, hg⟩,
        Or.inr ⟨_, inSelsW_forget s.view g.sel _ _ _ hi, hxn⟩⟩
  · -- argument of a directive
    have hx := argsVarNames_of_event hin hp
    obtain ⟨_, hs⟩ := walkDoc_op_sound s.view d evs hw e' he' op (hc'.trans hc)
    have h2 := hs.2
    simp only [hp'] at h2
    obtain ⟨_, ds, hdir, hds⟩ := h2
    have hxd : x ∈ dirsVarNames ds := mem_dirsVarNames.2 ⟨dir, hdir, hx⟩
    rcases hds with ⟨par', y, hy, _, rfl⟩ | ⟨n, g, hr, hg, _, rfl⟩ | ⟨_, rfl⟩ | ⟨v, hv, _, rfl⟩
    · have hxn : x ∈ nodeVarNames y := List.mem_append_right _ hxd
      rcases hy with hi | ⟨n, g, hr, hg, hi⟩
      · exact Or.inl (Or.inr (Or.inr ⟨_, inSelsW_forget s.view op.sel _ _ _ hi, hxn⟩))
      · exact Or.inr ⟨g, (mem_opFragments_iff d hu op g).2 ⟨n, hr, hg⟩,
          Or.inr ⟨_, inSelsW_forget s.view g.sel _ _ _ hi, hxn⟩⟩
    · exact Or.inr ⟨g, (mem_opFragments_iff d hu op g).2 ⟨n, hr, hg⟩, Or.inl hxd⟩
    · exact Or.inl (Or.inr (Or.inl hxd))
    · exact Or.inl (Or.inl ⟨v, hv, hxd⟩)
  · -- inside a default value: excluded
    exfalso
    obtain ⟨t, ht, hp''⟩ := walkValue_sound hin
    rw [hp] at hp''
    injection hp'' with h1 h2 h3
    have hx : x ∈ varNamesV dv := (mem_varNamesV_iff s.view x dv _ _).2 ⟨t.1, t.2.1, ch, p, by rw [h1]; exact ht⟩
    have hcd' := List.all_eq_true.1 (List.all_eq_true.1 hcd op' hop') vd hvd
    rw [hdv] at hcd'
    simp only [List.isEmpty_iff] at hcd'
    rw [hcd'] at hx
    cases hx

/-- the walker's uses under `op` are the specification's uses in the scope of `op` -/
theorem walkVarName_iff (hu : Spec.fragmentNameUniqueness d = true) (hcd : constDefaults d = true)
    (op : OperationDef) (hop : op ∈ d.ops) (x : Name) :
    WalkVarName evs op x ↔ x ∈ (Spec.scopeUses s d op).map (·.name) :=
  ⟨scopeUses_of_walkVarName s d evs hw hu hcd op,
   walkVarName_of_scopeUses s d evs (walkDoc_blocks (valInv_sites s.view d) evs hw) hu op
     (walkDoc_scope_complete s.view d evs hw op hop)⟩

/- ---------- NoUndefinedVariables ---------- -/

theorem noUndefinedVariables_iff (hu : Spec.fragmentNameUniqueness d = true) (hcd : constDefaults d = true) :
    (∀ e ∈ evs, noUndefinedVariablesStep s.view d e = []) ↔ Spec.allVariableUsesDefined s d = true := by
  unfold Spec.allVariableUsesDefined
  simp only [List.all_eq_true]
  constructor
  · intro h op hop u hu'
    have hx : u.name ∈ (Spec.scopeUses s d op).map (·.name) := List.mem_map_of_mem hu'
    obtain ⟨e, he, hc, ch, p, exp, dfn, hp⟩ := (walkVarName_iff s d evs hw hu hcd op hop u.name).2 hx
    have hlink := walkDoc_varlink s.view d evs hw e he op hc _ ch p exp dfn hp
    have hstep := h e he
    unfold noUndefinedVariablesStep at hstep
    simp only [hp, hc] at hstep
    unfold Spec.varDefByName
    change (varForName op.vars u.name).isSome = true
    rw [← hlink]
    by_cases hs : (e.links.varDef (Value.mk ValueKind.variable u.name ch p).pos.start).isSome = true
    · exact hs
    · exfalso
      have hk : (Value.mk ValueKind.variable u.name ch p).kind = .variable := rfl
      simp only [hk, bne_self_eq_false, Bool.false_or, hs] at hstep
      by_cases hn : (op.name != []) = true <;> simp [hn] at hstep
  · intro h e he
    unfold noUndefinedVariablesStep
    split
    · rename_i v exp dfn op hp hc
      obtain ⟨k, raw, ch, p⟩ := v
      by_cases hk : k = .variable
      · subst hk
        have hop := (walkDoc_op_sound s.view d evs hw e he op hc).1
        have hx := (walkVarName_iff s d evs hw hu hcd op hop raw).1 ⟨e, he, hc, ch, p, exp, dfn, hp⟩
        obtain ⟨u, hu', hname⟩ := List.mem_map.1 hx
        have hdef := h op hop u hu'
        have hlink := walkDoc_varlink s.view d evs hw e he op hc raw ch p exp dfn hp
        have : (e.links.varDef (Value.mk ValueKind.variable raw ch p).pos.start).isSome = true := by
          change (e.links.varDef p.start).isSome = true
          rw [hlink, ← hname]
          exact hdef
        simp [this]
      · have : ((Value.mk k raw ch p).kind != ValueKind.variable) = true := by
          change (k != ValueKind.variable) = true
          simpa using hk
        simp [this]
    · rfl

end run

/- ---------- NoUnusedVariables ---------- -/

theorem unusedVars_nil_iff (opName : Name) : ∀ (vs : List VarDef) (us : List Bool), vs.length = us.length →
    (unusedVars opName vs us = [] ↔ ∀ u ∈ us, u = true)
  | [], [], _ => by simp [unusedVars]
  | [], _ :: _, h => by simp at h
  | _ :: _, [], h => by simp at h
  | v :: vs, u :: us, h => by
    have ih := unusedVars_nil_iff opName vs us (by simpa using h)
    cases u with
    | true =>
      simp only [unusedVars, if_true, ih, List.mem_cons, forall_eq_or_imp, true_and]
    | false =>
      simp only [unusedVars, Bool.false_eq_true, if_false, List.mem_cons, forall_eq_or_imp, false_and, iff_false]
      split <;> simp

theorem usedFlags_length (used : List Name) : ∀ (vs : List VarDef) (seen : List Name), (usedFlags used vs seen).length = vs.length
  | [], _ => rfl
  | v :: rest, seen => by simp [usedFlags, usedFlags_length used rest]

/-- with pairwise different variable names, all `Used` flags are set iff every variable is in `used` -/
theorem usedFlags_all_iff (used : List Name) : ∀ (vs : List VarDef) (seen : List Name),
    (∀ v ∈ vs, v.var ∉ seen) → (vs.map (·.var)).Nodup →
    ((∀ u ∈ usedFlags used vs seen, u = true) ↔ ∀ v ∈ vs, v.var ∈ used)
  | [], _, _, _ => by simp [usedFlags]
  | v :: rest, seen, hseen, hnd => by
    simp only [List.map_cons, List.nodup_cons] at hnd
    have hv : v.var ∉ seen := hseen v List.mem_cons_self
    have ih := usedFlags_all_iff used rest (v.var :: seen) (by
      intro w hw hm
      rcases List.mem_cons.1 hm with h | h
      · exact hnd.1 (h ▸ List.mem_map_of_mem hw)
      · exact hseen w (List.mem_cons_of_mem _ hw) h) hnd.2
    have hflag : (used.contains v.var && !seen.contains v.var) = true ↔ v.var ∈ used := by
      simp only [Bool.and_eq_true, Bool.not_eq_true', List.contains_iff_mem, List.contains_eq_mem,
        decide_eq_true_eq, decide_eq_false_iff_not]
      exact ⟨fun h => h.1, fun h => ⟨h, hv⟩⟩
    simp only [usedFlags, List.mem_cons, forall_eq_or_imp, ih, hflag]

/-- an `operation` event of a run belongs to the walk of that operation -/
theorem walkDoc_opEvent_walk (sv : SV) (d : QueryDoc) (evs : List Event) (hw : walkDoc sv d = some evs)
    (e : Event) (he : e ∈ evs) (op : OperationDef) (flags : List Bool) (hp : e.p = .operation op flags) :
    op ∈ d.ops ∧ ∃ l r, walkOperation sv d (walkFuel d) op l = some r ∧ (∀ x ∈ r.2, x ∈ evs) ∧ e ∈ r.2 := by
  have key : ∀ (ops : List OperationDef) (l : Links) (r : Links × List Event),
      walkOps sv d (walkFuel d) ops l = some r → e ∈ r.2 →
      op ∈ ops ∧ ∃ l' r', walkOperation sv d (walkFuel d) op l' = some r' ∧ (∀ x ∈ r'.2, x ∈ r.2) ∧ e ∈ r'.2 := by
    intro ops
    induction ops with
    | nil =>
      intro l r h hin
      simp only [walkOps] at h
      injection h with h
      subst h
      cases hin
    | cons o rest ih =>
      intro l r h hin
      unfold walkOps at h
      split at h
      · cases h
      · rename_i r1 h1
        split at h
        · cases h
        · rename_i r2 h2
          injection h with h
          subst h
          rcases List.mem_append.1 hin with hin | hin
          · obtain ⟨hop, _⟩ := walkOperation_opEvent sv d _ o l r1 h1 e hin op flags hp
            subst hop
            exact ⟨List.mem_cons_self, l, r1, h1, fun x hx => List.mem_append_left _ hx, hin⟩
          · obtain ⟨hm, l', r', h', hsub, hin'⟩ := ih r1.1 r2 h2 hin
            exact ⟨List.mem_cons_of_mem _ hm, l', r', h', fun x hx => List.mem_append_right _ (hsub x hx), hin'⟩
  unfold walkDoc at hw
  split at hw
  · cases hw
  · rename_i r1 h1
    split at hw
    · cases hw
    · rename_i r2 h2
      injection hw with hw
      subst hw
      rcases List.mem_append.1 he with he | he
      · obtain ⟨hm, l', r', h', hsub, hin'⟩ := key d.ops _ r1 h1 he
        exact ⟨hm, l', r', h', fun x hx => List.mem_append_left _ (hsub x hx), hin'⟩
      · have := List.all_eq_true.1 (walkFrags_noOps sv d _ d.frags _ r2 h2) e he
        simp [hp, Payload.isOperation] at this

theorem noUnusedVariables_iff (s : Schema) (d : QueryDoc) (evs : List Event) (hw : walkDoc s.view d = some evs)
    (hu : Spec.fragmentNameUniqueness d = true) (hcd : constDefaults d = true)
    (hv : Spec.variableUniqueness d = true) :
    (∀ e ∈ evs, noUnusedVariablesStep s.view d e = []) ↔ Spec.allVariablesUsed s d = true := by
  unfold Spec.allVariablesUsed
  simp only [List.all_eq_true, List.any_eq_true, beq_iff_eq]
  have hnd : ∀ op ∈ d.ops, (op.vars.map (·.var)).Nodup := by
    intro op hop
    have := List.all_eq_true.1 hv op hop
    exact (distinct_iff_nodup _).1 this
  constructor
  · intro h op hop v hv'
    -- the operation event of `op`
    obtain ⟨e, he, flags, hp⟩ := mem_opEvents.1 ((walkDoc_events s.view d evs hw).1 ▸ hop)
    obtain ⟨_, l, r, hwo, hsub, hin⟩ := walkDoc_opEvent_walk s.view d evs hw e he op flags hp
    obtain ⟨used, hflags, hused⟩ := walkOperation_used s.view d _ op l r hwo
    obtain ⟨_, hfl⟩ := hflags e hin op flags hp
    have hstep := h e he
    simp only [noUnusedVariablesStep, hp] at hstep
    rw [hfl, unusedVars_nil_iff _ _ _ (usedFlags_length _ _ _).symm,
      usedFlags_all_iff used op.vars [] (fun _ _ h => by cases h) (hnd op hop)] at hstep
    obtain ⟨e', he', _, _, hcur, _, ch, p, exp, dfn, hp'⟩ := (hused v.var).1 (hstep v hv')
    have hx := scopeUses_of_walkVarName s d evs hw hu hcd op ⟨e', hsub e' he', hcur, ch, p, exp, dfn, hp'⟩
    obtain ⟨u, hu', hname⟩ := List.mem_map.1 hx
    exact ⟨u, hu', hname⟩
  · intro h e he
    unfold noUnusedVariablesStep
    split
    · rename_i op flags hp
      obtain ⟨hop, l, r, hwo, hsub, hin⟩ := walkDoc_opEvent_walk s.view d evs hw e he op flags hp
      obtain ⟨used, hflags, hused⟩ := walkOperation_used s.view d _ op l r hwo
      obtain ⟨_, hfl⟩ := hflags e hin op flags hp
      rw [hfl, unusedVars_nil_iff _ _ _ (usedFlags_length _ _ _).symm,
        usedFlags_all_iff used op.vars [] (fun _ _ h => by cases h) (hnd op hop)]
      intro v hv'
      obtain ⟨u, hu', hname⟩ := h op hop v hv'
      have hx : v.var ∈ (Spec.scopeUses s d op).map (·.name) := hname ▸ List.mem_map_of_mem hu'
      have hB := walkOperation_blocks (d := d) ((valInv_sites s.view d).toOp op hop) _ l r hwo
      have hsc := (walkOperation_scope_complete s.view d _ op l r hwo).toScope (fun _ h => h)
      obtain ⟨e', he', hcur, ch, p, exp, dfn, hp'⟩ := walkVarName_of_scopeUses s d r.2 hB hu op hsc hx
      refine (hused v.var).2 ⟨e', he', op, rfl, hcur, ?_, ch, p, exp, dfn, hp'⟩
      -- a variable of the operation is defined by it
      unfold varForName
      rw [List.find?_isSome]
      exact ⟨v, hv', by simp⟩
    · rfl

end Gql.Validate
