import GqlProofs.ValSpec.LeafFrag
import GqlProofs.Validate.OpEvents
/-
  KnownTypeNames, VariablesAreInputTypes and KnownRootType against their specification predicates.

  Part 0 (generic): one `Rule.statelessP` rule (a stateless rule that may panic) on a stream.
  Part 1 (generic): the `variable` events of a run are the variable definitions of the operations
          of the document, in order, once each.
  Part 2: KnownTypeNames.   Part 3: VariablesAreInputTypes.   Part 4: KnownRootType.
-/
namespace Gql.Validate
open Gql Gql.Validate.Rules

/- ====================================================================================
   Part 0 — `Rule.statelessP` on a stream (generic; MaxIntrospectionDepth and
   SingleFieldSubscriptions are `statelessP` rules too)
   ==================================================================================== -/

/-- the outputs of a panicking stateless step function along a stream: the concatenation of the
    outputs, or the first panic -/
def stepsP (f : SV → QueryDoc → Event → Except Bytes (List RErr)) (s : SV) (d : QueryDoc) :
    List Event → Except Bytes (List RErr)
  | [] => .ok []
  | e :: es =>
    match f s d e with
    | .error m => .error m
    | .ok a =>
      match stepsP f s d es with
      | .error m => .error m
      | .ok b => .ok (a ++ b)

/-- one `statelessP` rule run alone: the concatenation of its outputs, or its first panic -/
theorem runAll_statelessP (s : SV) (d : QueryDoc) (name : Bytes) (f : SV → QueryDoc → Event → Except Bytes (List RErr)) :
    ∀ evs : List Event, runAll s d [(Rule.statelessP name f).start] evs =
      match stepsP f s d evs with
      | .ok errs => .ok (errs.map (RErr.toErr name))
      | .error m => .error m
  | [] => rfl
  | e :: es => by
    rw [runAll_single_cons]
    have ih := runAll_statelessP s d name f es
    simp only [Running.step, Rule.start, Rule.statelessP, stepsP] at ih ⊢
    cases hf : f s d e with
    | error m => rfl
    | ok a =>
      simp only
      rw [ih]
      cases stepsP f s d es with
      | error m => rfl
      | ok b => simp

theorem stepsP_ok_nil_iff (f : SV → QueryDoc → Event → Except Bytes (List RErr)) (s : SV) (d : QueryDoc) :
    ∀ evs : List Event, stepsP f s d evs = .ok [] ↔ ∀ e ∈ evs, f s d e = .ok []
  | [] => by simp [stepsP]
  | e :: es => by
    have ih := stepsP_ok_nil_iff f s d es
    simp only [stepsP, List.mem_cons, forall_eq_or_imp]
    cases hf : f s d e with
    | error m => simp
    | ok a =>
      cases hr : stepsP f s d es with
      | error m =>
        rw [hr] at ih
        simp only [reduceCtorEq, false_iff] at ih ⊢
        intro h
        exact ih h.2
      | ok b =>
        rw [hr] at ih
        simp only [Except.ok.injEq, List.append_eq_nil_iff]
        rw [← ih]
        simp

/-- a `statelessP` rule panics iff its step function does on some event -/
theorem stepsP_error_iff (f : SV → QueryDoc → Event → Except Bytes (List RErr)) (s : SV) (d : QueryDoc) :
    ∀ evs : List Event, (∃ m, stepsP f s d evs = .error m) ↔ ∃ e ∈ evs, ∃ m, f s d e = .error m
  | [] => by simp [stepsP]
  | e :: es => by
    have ih := stepsP_error_iff f s d es
    simp only [stepsP, List.mem_cons, exists_eq_or_imp]
    cases hf : f s d e with
    | error m => simp
    | ok a =>
      rw [← ih]
      cases hr : stepsP f s d es with
      | error m => simp
      | ok b => simp

/-- analogue of `validate_stateless_nil`: a `statelessP` rule is silent (and does not panic) iff
    its step function returns `.ok []` on every event of the run -/
theorem validate_statelessP_nil (s : Schema) (d : QueryDoc) (name : Bytes)
    (f : SV → QueryDoc → Event → Except Bytes (List RErr))
    (evs : List Event) (hw : walkDoc s.view d = some evs) :
    validate [Rule.statelessP name f] s d = .ok [] ↔ ∀ e ∈ evs, f s.view d e = .ok [] := by
  unfold validate
  rw [validateV_ok_iff, ← stepsP_ok_nil_iff]
  constructor
  · rintro ⟨evs', hw', hr⟩
    rw [hw] at hw'
    cases hw'
    simp only [List.map_cons, List.map_nil] at hr
    rw [runAll_statelessP] at hr
    cases hs : stepsP f s.view d evs with
    | error m => rw [hs] at hr; cases hr
    | ok errs =>
      rw [hs] at hr
      injection hr with hr
      rw [List.map_eq_nil_iff] at hr
      rw [hr]
  · intro h
    refine ⟨evs, hw, ?_⟩
    simp only [List.map_cons, List.map_nil]
    rw [runAll_statelessP, h]
    rfl

/-- a `statelessP` rule run alone panics iff its step function does on some event of the run -/
theorem validate_statelessP_panic_iff (s : Schema) (d : QueryDoc) (name : Bytes)
    (f : SV → QueryDoc → Event → Except Bytes (List RErr))
    (evs : List Event) (hw : walkDoc s.view d = some evs) :
    (∃ m, validate [Rule.statelessP name f] s d = .panic m) ↔ ∃ e ∈ evs, ∃ m, f s.view d e = .error m := by
  rw [← stepsP_error_iff]
  unfold validate validateV
  rw [hw]
  simp only [List.map_cons, List.map_nil]
  rw [runAll_statelessP]
  cases stepsP f s.view d evs with
  | error m => simp
  | ok errs => simp

/- ====================================================================================
   Part 1 — the `variable` events of a run
   ==================================================================================== -/

def varOf (e : Event) : Option VarDef :=
  match e.p with
  | .variable v _ => some v
  | _ => none

def varEvents (evs : List Event) : List VarDef := evs.filterMap varOf

/-- not a `variable` payload -/
def Payload.notVar : Payload → Prop
  | .variable .. => False
  | _ => True

theorem notVar_selSites (s : SV) (d : QueryDoc) : SelSites s d (fun _ => True) Payload.notVar :=
  { value := fun _ _ _ => trivial, directive := fun _ _ _ => trivial, directiveList := fun _ => trivial,
    field := fun _ _ _ => trivial, inline := fun _ _ => trivial, spread := fun _ _ _ => trivial,
    frags := fun _ _ _ _ => trivial }

theorem varEvents_notVar {evs : List Event} (h : AllP Payload.notVar evs) : varEvents evs = [] := by
  induction evs with
  | nil => rfl
  | cons e rest ih =>
    have he := h e List.mem_cons_self
    have hr : AllP Payload.notVar rest := fun x hx => h x (List.mem_cons_of_mem _ hx)
    simp only [varEvents, List.filterMap_cons]
    have : varOf e = none := by
      unfold varOf
      cases hp : e.p <;> simp_all [Payload.notVar]
    rw [this]
    exact ih hr

theorem varEvents_append (a b : List Event) : varEvents (a ++ b) = varEvents a ++ varEvents b := by
  simp [varEvents, List.filterMap_append]

theorem walkVarDefsA_varEvents (s : SV) (cur : Option OperationDef) (ws : WS) :
    ∀ vs : List VarDef, varEvents (walkVarDefsA s cur ws vs) = vs
  | [] => rfl
  | v :: rest => by
    have ih := walkVarDefsA_varEvents s cur ws rest
    simp only [varEvents] at ih
    simp only [walkVarDefsA, varEvents, List.filterMap_cons, varOf, ih]

theorem walkOperation_varEvents (s : SV) (d : QueryDoc) (fuel : Nat) (op : OperationDef) (l : Links)
    (r : Links × List Event) (h : walkOperation s d fuel op l = some r) : varEvents r.2 = op.vars := by
  unfold walkOperation at h
  simp only at h
  split at h
  · cases h
  · rename_i r4 h4
    injection h with h
    subst h
    have hS := notVar_selSites s d
    have hrest : AllP Payload.notVar
        ((walkVarDefsB s (some op) op.vars { visited := [], links := l, used := [] }).2 ++
          (walkDirectives s (some op) (opRoot s op.op).1 op.dirs (opRoot s op.op).2
            (walkVarDefsB s (some op) op.vars { visited := [], links := l, used := [] }).1).2 ++ r4.2 ++
          [{ cur := some op, links := r4.1.links, p := .operation op (usedFlags r4.1.used op.vars []) }]) :=
      AllP.append (AllP.append (AllP.append (walkVarDefsB_all hS.toValSites _ _ _)
        (walkDirectives_all hS.toValSites _ _ _ _ _)) (walkLevel_all hS (some op) fuel _ _ _ r4 (fun _ _ => trivial) h4))
        (AllP.single trivial)
    simp only [List.append_assoc] at hrest ⊢
    rw [varEvents_append, varEvents_notVar hrest, walkVarDefsA_varEvents, List.append_nil]

theorem walkFragment_varEvents (s : SV) (d : QueryDoc) (fuel : Nat) (f : FragmentDef) (l : Links)
    (r : Links × List Event) (h : walkFragment s d fuel f l = some r) : varEvents r.2 = [] := by
  unfold walkFragment at h
  simp only at h
  split at h
  · cases h
  · rename_i r2 h2
    injection h with h
    subst h
    have hS := notVar_selSites s d
    exact varEvents_notVar (AllP.append (AllP.append (walkDirectives_all hS.toValSites _ _ _ _ _)
      (walkLevel_all hS none fuel _ _ _ r2 (fun _ _ => trivial) h2)) (AllP.single trivial))

theorem walkOps_varEvents (s : SV) (d : QueryDoc) (fuel : Nat) :
    ∀ (ops : List OperationDef) (l : Links) (r : Links × List Event), walkOps s d fuel ops l = some r →
      varEvents r.2 = ops.flatMap (·.vars)
  | [], l, r, h => by
    simp only [walkOps] at h
    injection h with h
    subst h
    rfl
  | op :: rest, l, r, h => by
    unfold walkOps at h
    split at h
    · cases h
    · rename_i r1 h1
      split at h
      · cases h
      · rename_i r2 h2
        injection h with h
        subst h
        have a := walkOperation_varEvents s d fuel op l r1 h1
        have b := walkOps_varEvents s d fuel rest r1.1 r2 h2
        simp [varEvents_append, a, b]

theorem walkFrags_varEvents (s : SV) (d : QueryDoc) (fuel : Nat) :
    ∀ (fs : List FragmentDef) (l : Links) (r : Links × List Event), walkFrags s d fuel fs l = some r →
      varEvents r.2 = []
  | [], l, r, h => by
    simp only [walkFrags] at h
    injection h with h
    subst h
    rfl
  | f :: rest, l, r, h => by
    unfold walkFrags at h
    split at h
    · cases h
    · rename_i r1 h1
      split at h
      · cases h
      · rename_i r2 h2
        injection h with h
        subst h
        have a := walkFragment_varEvents s d fuel f l r1 h1
        have b := walkFrags_varEvents s d fuel rest r1.1 r2 h2
        simp [varEvents_append, a, b]

/-- the `variable` events of a run are the variable definitions of the operations of the document,
    operation by operation, in order, once each (the experimental variable definitions of fragment
    definitions are not walked) -/
theorem walkDoc_varEvents (s : SV) (d : QueryDoc) (evs : List Event) (h : walkDoc s d = some evs) :
    varEvents evs = d.ops.flatMap (·.vars) := by
  unfold walkDoc at h
  split at h
  · cases h
  · rename_i r1 h1
    split at h
    · cases h
    · rename_i r2 h2
      injection h with h
      subst h
      have a := walkOps_varEvents s d _ d.ops _ r1 h1
      have b := walkFrags_varEvents s d _ d.frags _ r2 h2
      simp [varEvents_append, a, b]

theorem mem_varEvents {evs : List Event} {v : VarDef} :
    v ∈ varEvents evs ↔ ∃ e ∈ evs, ∃ dfn, e.p = .variable v dfn := by
  simp only [varEvents, List.mem_filterMap]
  constructor
  · rintro ⟨e, he, h⟩
    refine ⟨e, he, ?_⟩
    unfold varOf at h
    cases hp : e.p <;> simp_all
  · rintro ⟨e, he, u, h⟩
    exact ⟨e, he, by simp [varOf, h]⟩

/-- soundness and completeness of the `variable` events in membership form -/
theorem variable_event_iff (s : SV) (d : QueryDoc) (evs : List Event) (hw : walkDoc s d = some evs) (v : VarDef) :
    (∃ e ∈ evs, ∃ dfn, e.p = .variable v dfn) ↔ ∃ op ∈ d.ops, v ∈ op.vars := by
  rw [← mem_varEvents, walkDoc_varEvents s d evs hw, List.mem_flatMap]

/-- the definition link of a `variable` event is the schema's type of that name -/
theorem variable_event_link (s : SV) (d : QueryDoc) (evs : List Event) (hw : walkDoc s d = some evs)
    (e : Event) (he : e ∈ evs) (v : VarDef) (dfn : Option Definition) (hp : e.p = .variable v dfn) :
    dfn = s.type? v.type.name := by
  have := walkDoc_all (P := fun p => match p with | .variable v dfn => dfn = s.type? v.type.name | _ => True)
    (Q := fun _ => True)
    { value := fun _ _ _ => trivial, directive := fun _ _ _ => trivial, directiveList := fun _ => trivial,
      field := fun _ _ _ => trivial, inline := fun _ _ => trivial, spread := fun _ _ _ => trivial,
      frags := fun _ _ _ _ => trivial, ops := fun _ _ _ _ => trivial, varDef := fun _ => rfl,
      operation := fun _ _ _ => trivial, fragment := fun _ _ => trivial } evs hw e he
  rw [hp] at this
  exact this

/- ====================================================================================
   Part 2 — KnownTypeNames
   ==================================================================================== -/

theorem knownTypeNames_iff (s : Schema) (d : QueryDoc) (evs : List Event) (hw : walkDoc s.view d = some evs) :
    (∀ e ∈ evs, knownTypeNamesStep s.view d e = []) ↔
      (Spec.fragmentSpreadTypeExistence s d = true ∧ Spec.variableTypesExist s d = true) := by
  have hfrag := (walkDoc_events s.view d evs hw).2
  have hvars := walkDoc_varEvents s.view d evs hw
  unfold Spec.fragmentSpreadTypeExistence Spec.typeConditions Spec.variableTypesExist
  simp only [List.all_append, Bool.and_eq_true, List.all_eq_true, List.mem_map, List.mem_filterMap]
  constructor
  · intro h
    refine ⟨⟨?_, ?_⟩, ?_⟩
    · rintro tc ⟨f, hf, rfl⟩
      rw [← hfrag] at hf
      obtain ⟨e, he, dfn, hp⟩ := mem_fragDefEvents.1 hf
      have := h e he
      simp only [knownTypeNamesStep, hp] at this
      cases ht : s.type? f.typeCond with
      | some t => rfl
      | none =>
        have hview : s.view.type? f.typeCond = none := ht
        rw [hview] at this
        cases this
    · rintro tc ⟨⟨par, sel⟩, ht, hm⟩
      cases sel with
      | field al nm args dirs sub p => cases hm
      | spread nm dirs p => cases hm
      | inline tc' dirs sub p =>
        simp only at hm
        by_cases hemp : (tc' == []) = true
        · simp [hemp] at hm
        · simp only [hemp, Bool.false_eq_true, if_false, Option.some.injEq] at hm
          subst hm
          obtain ⟨e, he, par', hp⟩ := inline_event_complete s d evs hw _ ht tc' dirs sub p rfl
          have := h e he
          simp only [knownTypeNamesStep, hp, hemp, Bool.false_eq_true, if_false] at this
          cases hty : s.type? tc' with
          | some t => rfl
          | none =>
            have hview : s.view.type? tc' = none := hty
            rw [hview] at this
            cases this
    · intro op hop v hv
      have hmem : v ∈ varEvents evs := by
        rw [hvars]
        exact List.mem_flatMap.2 ⟨op, hop, hv⟩
      obtain ⟨e, he, dfn, hp⟩ := mem_varEvents.1 hmem
      have := h e he
      simp only [knownTypeNamesStep, hp] at this
      cases ht : s.type? v.type.name with
      | some t => rfl
      | none =>
        have hview : s.view.type? v.type.name = none := ht
        rw [hview] at this
        cases this
  · rintro ⟨⟨h1, h2⟩, h3⟩ e he
    unfold knownTypeNamesStep
    split
    · rename_i v dfn hp
      have hmem : v ∈ varEvents evs := mem_varEvents.2 ⟨e, he, dfn, hp⟩
      rw [hvars] at hmem
      obtain ⟨op, hop, hv⟩ := List.mem_flatMap.1 hmem
      have := h3 op hop v hv
      have hview : s.view.type? v.type.name = s.type? v.type.name := rfl
      rw [hview]
      cases ht : s.type? v.type.name with
      | some t => rfl
      | none => rw [ht] at this; cases this
    · rename_i f par hp
      split
      · rfl
      · rename_i hemp
        obtain ⟨p, hmem⟩ := inline_event_sound s d evs hw e he f par hp
        have := h2 f.typeCond ⟨_, hmem, by simp [hemp]⟩
        have hview : s.view.type? f.typeCond = s.type? f.typeCond := rfl
        rw [hview]
        cases ht : s.type? f.typeCond with
        | some t => rfl
        | none => rw [ht] at this; cases this
    · rename_i f dfn hp
      have hf : f ∈ d.frags := by
        rw [← hfrag]
        exact mem_fragDefEvents.2 ⟨e, he, _, hp⟩
      have := h1 f.typeCond ⟨f, hf, rfl⟩
      have hview : s.view.type? f.typeCond = s.type? f.typeCond := rfl
      rw [hview]
      cases ht : s.type? f.typeCond with
      | some t => rfl
      | none => rw [ht] at this; cases this
    · rfl

/-- the same for the twin rule without suggestions: it is silent exactly when the rule is -/
theorem validate_withoutSuggestions_nil (n' : Bytes) (r : Rule) (s : Schema) (d : QueryDoc) :
    validate [r.withoutSuggestions n'] s d = .ok [] ↔ validate [r] s d = .ok [] := by
  have key := validate_withoutSuggestions n' r s d
  constructor
  · intro h
    rw [h] at key
    generalize validate [r] s d = a at key ⊢
    cases key with
    | ok hf => cases hf; rfl
  · intro h
    rw [h] at key
    generalize validate [r.withoutSuggestions n'] s d = a at key ⊢
    cases key with
    | ok hf => cases hf; rfl

/- ====================================================================================
   Part 3 — VariablesAreInputTypes
   ==================================================================================== -/

theorem isInputType_eq (t : Definition) : isInputType t = Spec.isInput t := rfl

theorem nonInputVars_nil_iff (s : Schema) : ∀ vs : List VarDef,
    nonInputVars s.view vs = [] ↔
      (vs.all fun v => match s.type? v.type.name with | some t => Spec.isInput t | none => true) = true
  | [] => by simp [nonInputVars]
  | v :: rest => by
    have ih := nonInputVars_nil_iff s rest
    have hview : s.view.type? v.type.name = s.type? v.type.name := rfl
    simp only [nonInputVars, List.all_cons, Bool.and_eq_true, hview]
    cases ht : s.type? v.type.name with
    | none => simp [ih]
    | some t =>
      simp only [isInputType_eq]
      by_cases hi : Spec.isInput t = true <;> simp [hi, ih]

theorem variablesAreInputTypes_iff (s : Schema) (d : QueryDoc) (evs : List Event) (hw : walkDoc s.view d = some evs) :
    (∀ e ∈ evs, variablesAreInputTypesStep s.view d e = []) ↔
      (d.ops.all fun op => op.vars.all fun v =>
        match s.type? v.type.name with | some t => Spec.isInput t | none => true) = true := by
  have hev := (walkDoc_events s.view d evs hw).1
  simp only [List.all_eq_true (l := d.ops)]
  rw [← hev]
  constructor
  · intro h op hop
    obtain ⟨e, he, u, hp⟩ := mem_opEvents.1 hop
    have := h e he
    simp only [variablesAreInputTypesStep, hp] at this
    exact (nonInputVars_nil_iff s op.vars).1 this
  · intro h e he
    unfold variablesAreInputTypesStep
    cases hp : e.p <;> simp only
    rename_i op u
    exact (nonInputVars_nil_iff s op.vars).2 (h op (mem_opEvents.2 ⟨e, he, u, hp⟩))

/-- when every variable type exists, "input type or undefined" is the specification predicate -/
theorem variablesAreInputTypes_masked (s : Schema) (d : QueryDoc) (hex : Spec.variableTypesExist s d = true) :
    (d.ops.all fun op => op.vars.all fun v =>
        match s.type? v.type.name with | some t => Spec.isInput t | none => true) = true ↔
      Spec.variablesAreInputTypes s d = true := by
  unfold Spec.variablesAreInputTypes
  unfold Spec.variableTypesExist at hex
  simp only [List.all_eq_true] at hex ⊢
  constructor
  · intro h op hop v hv
    have h1 := h op hop v hv
    have h2 := hex op hop v hv
    cases ht : s.type? v.type.name with
    | none => rw [ht] at h2; cases h2
    | some t => rw [ht] at h1; exact h1
  · intro h op hop v hv
    have h1 := h op hop v hv
    cases ht : s.type? v.type.name with
    | none => rfl
    | some t => rw [ht] at h1; exact h1

/-- the specification predicate contains "every variable type exists" -/
theorem variablesAreInputTypes_exist (s : Schema) (d : QueryDoc) (h : Spec.variablesAreInputTypes s d = true) :
    Spec.variableTypesExist s d = true := by
  unfold Spec.variablesAreInputTypes at h
  unfold Spec.variableTypesExist
  simp only [List.all_eq_true] at h ⊢
  intro op hop v hv
  have h1 := h op hop v hv
  cases ht : s.type? v.type.name with
  | none => rw [ht] at h1; cases h1
  | some t => rfl

/- ====================================================================================
   Part 4 — KnownRootType
   ==================================================================================== -/

/-- the step on an `operation` event: `.ok []` iff the specification's root type of the kind is
    defined.  For a kind the parser never produces the step panics and `Spec.rootDef` is `none`. -/
theorem knownRootTypeStep_operation (s : Schema) (d : QueryDoc) (e : Event) (op : OperationDef) (u : List Bool)
    (hp : e.p = .operation op u) :
    knownRootTypeStep s.view d e = .ok [] ↔ (Spec.rootDef s op.op).isSome = true := by
  simp only [knownRootTypeStep, hp]
  by_cases hc : (op.op == opQuery || op.op == [] || op.op == opMutation || op.op == opSubscription) = true
  · simp only [hc, if_true]
    rw [opRoot_def]
    cases Spec.rootDef s op.op with
    | none => simp
    | some t => simp
  · simp only [hc, Bool.false_eq_true, if_false, reduceCtorEq, false_iff]
    simp only [Bool.or_eq_true, not_or] at hc
    obtain ⟨⟨⟨h1, h2⟩, h3⟩, h4⟩ := hc
    have h1' : ¬ (op.op == Spec.kwQuery) = true := h1
    have h3' : ¬ (op.op == Spec.kwMutation) = true := h3
    have h4' : ¬ (op.op == Spec.kwSubscription) = true := h4
    simp [Spec.rootDef, Spec.rootName, h1', h2, h3', h4']

theorem knownRootType_iff (s : Schema) (d : QueryDoc) (evs : List Event) (hw : walkDoc s.view d = some evs) :
    (∀ e ∈ evs, knownRootTypeStep s.view d e = .ok []) ↔ Spec.knownRootType s d = true := by
  have hev := (walkDoc_events s.view d evs hw).1
  unfold Spec.knownRootType
  simp only [List.all_eq_true]
  rw [← hev]
  constructor
  · intro h op hop
    obtain ⟨e, he, u, hp⟩ := mem_opEvents.1 hop
    exact (knownRootTypeStep_operation s d e op u hp).1 (h e he)
  · intro h e he
    cases hp : e.p with
    | operation op u =>
      exact (knownRootTypeStep_operation s d e op u hp).2 (h op (mem_opEvents.2 ⟨e, he, u, hp⟩))
    | _ => simp only [knownRootTypeStep, hp]

/-- KnownRootType panics exactly on a document with an operation kind the parser never produces -/
theorem knownRootType_panic_iff (s : Schema) (d : QueryDoc) :
    (∃ m, validate [knownRootType] s d = .panic m) ↔ ∃ op ∈ d.ops, op.op ∉ parserOpKinds := by
  obtain ⟨evs, hw⟩ := walkDoc_isSome s.view d
  have hev := (walkDoc_events s.view d evs hw).1
  unfold knownRootType
  rw [validate_statelessP_panic_iff s d _ _ evs hw, ← hev]
  have key : ∀ (e : Event) (op : OperationDef) (u : List Bool), e.p = .operation op u →
      ((∃ m, knownRootTypeStep s.view d e = .error m) ↔ op.op ∉ parserOpKinds) := by
    intro e op u hp
    simp only [knownRootTypeStep, hp, parserOpKinds, List.mem_cons, List.mem_nil_iff, or_false]
    by_cases hc : (op.op == opQuery || op.op == [] || op.op == opMutation || op.op == opSubscription) = true
    · simp only [hc, if_true]
      have : op.op = opQuery ∨ op.op = opMutation ∨ op.op = opSubscription ∨ op.op = [] := by
        simp only [Bool.or_eq_true, beq_iff_eq] at hc
        rcases hc with ((h | h) | h) | h
        · exact Or.inl h
        · exact Or.inr (Or.inr (Or.inr h))
        · exact Or.inr (Or.inl h)
        · exact Or.inr (Or.inr (Or.inl h))
      cases (opRoot s.view op.op).1 <;> simp [this]
    · simp only [hc, Bool.false_eq_true, if_false]
      simp only [Bool.or_eq_true, beq_iff_eq, not_or] at hc
      obtain ⟨⟨⟨h1, h2⟩, h3⟩, h4⟩ := hc
      simp [h1, h2, h3, h4]
  constructor
  · rintro ⟨e, he, m, hm⟩
    cases hp : e.p with
    | operation op u =>
      exact ⟨op, mem_opEvents.2 ⟨e, he, u, hp⟩, (key e op u hp).1 ⟨m, hm⟩⟩
    | _ => simp [knownRootTypeStep, hp] at hm
  · rintro ⟨op, hop, hk⟩
    obtain ⟨e, he, u, hp⟩ := mem_opEvents.1 hop
    obtain ⟨m, hm⟩ := (key e op u hp).2 hk
    exact ⟨e, he, m, hm⟩

end Gql.Validate
