import GqlModel.Validate.Rules.VariablesInAllowedPosition
import GqlModel.Validate.Spec.Variables
/-
  VariablesInAllowedPosition (§5.8.5), the PURE TYPE part: the library's `Type.IsCompatible`
  against the specification's `AreTypesCompatible`, and the rule's test of one usage against
  `IsVariableUsageAllowed` with `hasLocationDefaultValue = false` (the rule never looks at the
  default value of the location — recorded finding).

  `IsCompatible` compares the `NamedType` strings first; a list type has the EMPTY `NamedType`, so
  a variable whose type is the named type with the empty name is "compatible" with every list
  location.  The parser never produces such a type; the hypothesis here is `t.name ≠ []`
  (`GType.name` is the innermost name, and a type has exactly one).
-/
namespace Gql.Validate
open Gql Gql.Validate.Rules

theorem clearNonNull_eq (t : GType) : clearNonNull t = Spec.withNonNull false t := by
  cases t <;> rfl

/-- for a variable type without the empty name, `IsCompatible` is `AreTypesCompatible` -/
theorem isCompatible_eq : ∀ (t o : GType), t.name ≠ [] → isCompatible t o = Spec.areTypesCompatible t o
  | .named a na _, .named b nb _, _ => by
    simp only [isCompatible, namedOf, GType.nonNull, Spec.areTypesCompatible]
    by_cases hab : a = b
    · subst hab
      cases na <;> cases nb <;> simp
    · simp [hab]
  | .named a na _, .list eb nb _, h => by
    have ha : a ≠ [] := h
    simp [isCompatible, namedOf, Spec.areTypesCompatible, ha]
  | .list ea na _, .named b nb _, _ => by
    simp only [isCompatible, namedOf, Spec.areTypesCompatible]
    by_cases hb : b = [] <;> simp [hb]
  | .list ea na _, .list eb nb _, h => by
    have ih := isCompatible_eq ea eb h
    simp only [isCompatible, namedOf, Spec.areTypesCompatible, ih]
    cases na <;> cases nb <;> cases Spec.areTypesCompatible ea eb <;> simp

/-- a non-null variable type does not care about the nullability of the location -/
theorem areTypesCompatible_clear (t o : GType) (h : t.nonNull = true) :
    Spec.areTypesCompatible t (Spec.withNonNull false o) = Spec.areTypesCompatible t o := by
  cases t <;> cases o <;> simp_all [Spec.areTypesCompatible, Spec.withNonNull, GType.nonNull]

/-- a nullable variable type is not compatible with a non-null location -/
theorem areTypesCompatible_nullable (t o : GType) (ht : t.nonNull = false) (ho : o.nonNull = true) :
    Spec.areTypesCompatible t o = false := by
  cases t <;> cases o <;> simp_all [Spec.areTypesCompatible, GType.nonNull]

/-- the test of the rule for one usage (as in `variablesInAllowedPositionStep`) -/
def ruleUsageAllowed (vd : VarDef) (expected : GType) : Bool :=
  let relaxed : Bool := match vd.default with
    | some dv => dv.kind != .null && expected.nonNull
    | none => false
  isCompatible vd.type (if relaxed then clearNonNull expected else expected)

/-- the rule's test is `IsVariableUsageAllowed` with `hasLocationDefaultValue = false` -/
theorem ruleUsageAllowed_eq (vd : VarDef) (lt : GType) (h : vd.type.name ≠ []) :
    ruleUsageAllowed vd lt = Spec.isVariableUsageAllowed vd lt false := by
  unfold ruleUsageAllowed Spec.isVariableUsageAllowed
  simp only [isCompatible_eq _ _ h, clearNonNull_eq]
  cases hl : lt.nonNull with
  | false =>
    simp only [Bool.and_false, Bool.false_and, Bool.false_eq_true, if_false]
    cases vd.default <;> simp
  | true =>
    cases hv : vd.type.nonNull with
    | true =>
      simp only [Bool.and_true, Bool.not_true, Bool.and_false, Bool.false_eq_true, if_false]
      cases vd.default with
      | none => simp
      | some dv =>
        simp only
        split
        · exact areTypesCompatible_clear _ _ hv
        · rfl
    | false =>
      simp only [Bool.and_true, Bool.not_false, Bool.and_self, if_true, Bool.not_eq_true']
      cases vd.default with
      | none =>
        simp only [Bool.false_eq_true, if_false, if_true]
        exact areTypesCompatible_nullable _ _ hv hl
      | some dv =>
        simp only
        by_cases hk : (dv.kind != ValueKind.null) = true
        · simp [hk]
        · simp only [hk, Bool.false_eq_true, if_false]
          simp only [Bool.not_eq_true] at hk
          simp only [if_true]
          exact areTypesCompatible_nullable _ _ hv hl

/-- a usage allowed without looking at the location default is allowed with it -/
theorem isVariableUsageAllowed_mono (v : VarDef) (lt : GType) (b : Bool)
    (h : Spec.isVariableUsageAllowed v lt false = true) : Spec.isVariableUsageAllowed v lt b = true := by
  unfold Spec.isVariableUsageAllowed at h ⊢
  generalize (match v.default with | some dv => dv.kind != ValueKind.null | none => false) = hd at h ⊢
  cases b
  · exact h
  · cases hd <;> cases hcond : (lt.nonNull && !v.type.nonNull) <;> simp_all

/-- the empty `NamedType` really matters: `$v : ""` (not parseable) at a location of type `[Int]` -/
example : isCompatible (.named [] false Pos.zero) (.list (.named (str "Int") false Pos.zero) false Pos.zero) = true ∧
    Spec.areTypesCompatible (.named [] false Pos.zero) (.list (.named (str "Int") false Pos.zero) false Pos.zero) = false := by
  decide

end Gql.Validate
