import GqlProofs.ValSpec.Built
import GqlProofs.ValSpec.DefDirs
/-
  C09, value and variable links — the GLOBAL part, completeness direction: which argument lists
  are walked on behalf of which `CurrentOperation`.

  `HasArgs cur es defs args`: the events of one call `walkArgs sv cur defs args _` are among `es`.
  For one walk (an operation with `cur = some op`, a stand-alone fragment definition with
  `cur = none`):
    (C1) every node reached under the walker's typing has the argument lists of the node itself (a
         field's arguments, with the argument definitions of the field definition on the walker's
         parent type) and of its directives walked on behalf of `cur`;
    (C2) every fragment name that enters `visited` during the walk is a fragment whose WHOLE
         definition — its directives and every node of its selection set — has been walked on
         behalf of `cur` in this walk, and every spread written in it whose fragment exists is in
         `visited` afterwards;
    (C3) every spread written in the walked selections whose fragment exists is in `visited`
         afterwards.
  So the fragments an operation reaches transitively (`OpReaches`) are walked completely on behalf
  of that operation (`walkDoc_reach`).
-/
namespace Gql.Validate
open Gql

section
variable (sv : SV)

/-- the events of one `walkArgs` call on behalf of `cur` are among `es` -/
def HasArgs (cur : Option OperationDef) (es : List Event) (defs : Option (List ArgDef)) (args : List Argument) : Prop :=
  ∃ ws, ∀ e ∈ (walkArgs sv cur defs args ws).2, e ∈ es

/-- … for the arguments of every directive of a list -/
def HasDirArgs (cur : Option OperationDef) (es : List Event) (dirs : List Directive) : Prop :=
  ∀ dir ∈ dirs, HasArgs sv cur es ((sv.directive? dir.name).map (·.args)) dir.args

/-- the argument lists written at a selection node have been walked on behalf of `cur` -/
def NodeDone (cur : Option OperationDef) (es : List Event) (p' : Option Definition) : Selection → Prop
  | .field _ nm args dirs _ _ => HasArgs sv cur es ((wFieldDef p' nm).map (·.args)) args ∧ HasDirArgs sv cur es dirs
  | .inline _ dirs _ _ => HasDirArgs sv cur es dirs
  | .spread _ dirs _ => HasDirArgs sv cur es dirs

variable {sv}

theorem HasArgs.mono {cur : Option OperationDef} {es es' : List Event} {defs : Option (List ArgDef)}
    {args : List Argument} (h : HasArgs sv cur es defs args) (hs : ∀ e ∈ es, e ∈ es') : HasArgs sv cur es' defs args := by
  obtain ⟨ws, hw⟩ := h
  exact ⟨ws, fun e he => hs e (hw e he)⟩

theorem HasDirArgs.mono {cur : Option OperationDef} {es es' : List Event} {dirs : List Directive}
    (h : HasDirArgs sv cur es dirs) (hs : ∀ e ∈ es, e ∈ es') : HasDirArgs sv cur es' dirs :=
  fun dir hd => (h dir hd).mono hs

theorem NodeDone.mono {cur : Option OperationDef} {es es' : List Event} {p' : Option Definition} :
    ∀ {y : Selection}, NodeDone sv cur es p' y → (∀ e ∈ es, e ∈ es') → NodeDone sv cur es' p' y
  | .field .., h, hs => ⟨h.1.mono hs, h.2.mono hs⟩
  | .inline .., h, hs => HasDirArgs.mono h hs
  | .spread .., h, hs => HasDirArgs.mono h hs

theorem sub_inl {a : List Event} (b : List Event) : ∀ e ∈ a, e ∈ a ++ b := fun _ h => List.mem_append_left _ h
theorem sub_inr {b : List Event} (a : List Event) : ∀ e ∈ b, e ∈ a ++ b := fun _ h => List.mem_append_right _ h

theorem walkDirectiveItems_hasArgs (cur : Option OperationDef) (parent : Option Definition) (loc : Bytes) :
    ∀ (ds : List Directive) (ws : WS), HasDirArgs sv cur (walkDirectiveItems sv cur parent loc ds ws).2 ds
  | [], _, dir, h => by cases h
  | d0 :: rest, ws, dir, h => by
    simp only [walkDirectiveItems]
    rcases List.mem_cons.1 h with rfl | h
    · exact ⟨ws, fun e he => List.mem_append_left _ he⟩
    · exact (walkDirectiveItems_hasArgs cur parent loc rest _ dir h).mono
        (fun e he => List.mem_append_right _ (List.mem_cons_of_mem _ he))

theorem walkDirectives_hasArgs (cur : Option OperationDef) (parent : Option Definition) (ds : List Directive)
    (loc : Bytes) (ws : WS) : HasDirArgs sv cur (walkDirectives sv cur parent ds loc ws).2 ds := by
  simp only [walkDirectives]
  exact (walkDirectiveItems_hasArgs cur parent loc ds ws).mono (sub_inl _)

end

/-- the whole definition of the fragment named `n` has been walked on behalf of `cur`, and the
    spreads written in it are in `V` -/
def FragDoneL (sv : SV) (d : QueryDoc) (cur : Option OperationDef) (es : List Event) (V : List Name) (n : Name) : Prop :=
  ∃ f, fragForName d n = some f ∧ HasDirArgs sv cur es f.dirs ∧
    (∀ p' y, InSelsW sv (sv.type? f.typeCond) f.sel p' y → NodeDone sv cur es p' y) ∧
    (∀ nm' f', SpreadInSels f.sel nm' → fragForName d nm' = some f' → nm' ∈ V)

theorem FragDoneL.mono {sv : SV} {d : QueryDoc} {cur : Option OperationDef} {es es' : List Event} {V V' : List Name}
    {n : Name} (h : FragDoneL sv d cur es V n) (hs : ∀ e ∈ es, e ∈ es') (hV : V ⊆ V') : FragDoneL sv d cur es' V' n := by
  obtain ⟨f, hf, h1, h2, h3⟩ := h
  exact ⟨f, hf, h1.mono hs, fun p' y hi => (h2 p' y hi).mono hs, fun nm' f' a b => hV (h3 nm' f' a b)⟩

/-- (C2) of the header -/
def WalkC2 (sv : SV) (d : QueryDoc) (cur : Option OperationDef) (ws : WS) (r : WS × List Event) : Prop :=
  ws.visited ⊆ r.1.visited ∧ ∀ n ∈ r.1.visited, n ∈ ws.visited ∨ FragDoneL sv d cur r.2 r.1.visited n

def JumpCL (sv : SV) (d : QueryDoc) (cur : Option OperationDef) (J : Jump) : Prop :=
  ∀ parent sels (ws : WS) r, J parent sels ws = some r →
    (∀ p' y, InSelsW sv parent sels p' y → NodeDone sv cur r.2 p' y) ∧ WalkC2 sv d cur ws r ∧
    ∀ nm f, SpreadInSels sels nm → fragForName d nm = some f → nm ∈ r.1.visited

section
variable {sv : SV} {d : QueryDoc}

mutual
  theorem walkSelection_cL (cur : Option OperationDef) (J : Jump) (hJ : JumpCL sv d cur J) :
      ∀ (x : Selection) (parent : Option Definition) (ws : WS) r, walkSelection sv d cur J parent x ws = some r →
        (∀ p' y, InSelW sv parent x p' y → NodeDone sv cur r.2 p' y) ∧ WalkC2 sv d cur ws r ∧
        ∀ nm f, SpreadIn x nm → fragForName d nm = some f → nm ∈ r.1.visited
    | .field al nm args dirs sub p, parent, ws, r, h => by
      unfold walkSelection at h
      simp only at h
      split at h
      · cases h
      · rename_i r3 h3
        injection h with h
        subst h
        obtain ⟨c1, ⟨m, a⟩, b⟩ := walkSelections_cL cur J hJ sub _ _ r3 h3
        simp only [walkDirectives_visited, walkArgs_visited, markSel_visited] at m a
        refine ⟨fun p' y hi => ?_, ⟨m, fun n hn => ?_⟩, fun nm' f hs hf => ?_⟩
        · cases hi with
          | self =>
            refine ⟨⟨ws.markSel p.start, fun e he => ?_⟩, ?_⟩
            · exact List.mem_append_left _ (List.mem_append_left _ (List.mem_append_left _ he))
            · exact (walkDirectives_hasArgs cur _ dirs locField _).mono
                (fun e he => List.mem_append_left _ (List.mem_append_left _ (List.mem_append_right _ he)))
          | fieldSub _ _ _ _ _ _ _ _ _ hs' =>
            exact (c1 p' y hs').mono (fun e he => List.mem_append_left _ (List.mem_append_right _ he))
        · rcases a n hn with h1 | h1
          · exact Or.inl h1
          · exact Or.inr (h1.mono (fun e he => List.mem_append_left _ (List.mem_append_right _ he)) (fun _ h => h))
        · obtain ⟨ds, q, hi⟩ := hs
          cases hi with
          | fieldSub _ _ _ _ _ _ _ hs' => exact b nm' f ⟨ds, q, hs'⟩ hf
    | .inline tc dirs sub p, parent, ws, r, h => by
      unfold walkSelection at h
      simp only at h
      split at h
      · cases h
      · rename_i r3 h3
        injection h with h
        subst h
        obtain ⟨c1, ⟨m, a⟩, b⟩ := walkSelections_cL cur J hJ sub _ _ r3 h3
        simp only [walkDirectives_visited, markSel_visited] at m a
        refine ⟨fun p' y hi => ?_, ⟨m, fun n hn => ?_⟩, fun nm' f hs hf => ?_⟩
        · cases hi with
          | self =>
            exact (walkDirectives_hasArgs cur _ dirs locInlineFragment _).mono
              (fun e he => List.mem_append_left _ (List.mem_append_left _ he))
          | inlineSub _ _ _ _ _ _ _ hs' =>
            exact (c1 p' y hs').mono (fun e he => List.mem_append_left _ (List.mem_append_right _ he))
        · rcases a n hn with h1 | h1
          · exact Or.inl h1
          · exact Or.inr (h1.mono (fun e he => List.mem_append_left _ (List.mem_append_right _ he)) (fun _ h => h))
        · obtain ⟨ds, q, hi⟩ := hs
          cases hi with
          | inlineSub _ _ _ _ _ hs' => exact b nm' f ⟨ds, q, hs'⟩ hf
    | .spread nm dirs p, parent, ws, r, h => by
      have hself : ∀ nm', SpreadIn (.spread nm dirs p) nm' → nm' = nm := by
        intro nm' hs
        obtain ⟨ds, q, hi⟩ := hs
        cases hi
        rfl
      have hd := fun par => walkDirectives_hasArgs (sv := sv) cur par dirs locFragmentSpread (ws.markSel p.start)
      unfold walkSelection at h
      simp only at h
      cases hf : fragForName d nm with
      | none =>
        rw [hf] at h
        simp only at h
        injection h with h
        subst h
        refine ⟨fun p' y hi => ?_, ⟨fun x hx => ?_, fun n hn => Or.inl ?_⟩, fun nm' f hs hf' => ?_⟩
        · cases hi with
          | self => exact (hd _).mono (sub_inl _)
        · simpa only [walkDirectives_visited, markSel_visited] using hx
        · simpa only [walkDirectives_visited, markSel_visited] using hn
        · rw [hself nm' hs, hf] at hf'
          cases hf'
      | some f =>
        rw [hf] at h
        simp only at h
        have hname := fragForName_name hf
        split at h
        · rename_i hc
          injection h with h
          subst h
          simp only [walkDirectives_visited, markSel_visited] at hc
          refine ⟨fun p' y hi => ?_, ⟨fun x hx => ?_, fun n hn => Or.inl ?_⟩, fun nm' f' hs _ => ?_⟩
          · cases hi with
            | self => exact (hd _).mono (sub_inl _)
          · simpa only [walkDirectives_visited, markSel_visited] using hx
          · simpa only [walkDirectives_visited, markSel_visited] using hn
          · simp only [walkDirectives_visited, markSel_visited]
            rw [hself nm' hs, ← hname]
            simpa using hc
        · split at h
          · cases h
          · rename_i r3 h3
            injection h with h
            subst h
            obtain ⟨c1, ⟨m, a⟩, b⟩ := hJ _ _ _ r3 h3
            simp only [walkDirectives_visited, markSel_visited] at m a
            have hfd : FragDoneL sv d cur
                ((walkDirectives sv cur (sv.type? f.typeCond) dirs locFragmentSpread (ws.markSel p.start)).2 ++
                  (walkDirectives sv cur (sv.type? f.typeCond) f.dirs locFragmentDefinition
                    { (walkDirectives sv cur (sv.type? f.typeCond) dirs locFragmentSpread (ws.markSel p.start)).1 with
                      visited := f.name :: (walkDirectives sv cur (sv.type? f.typeCond) dirs locFragmentSpread
                        (ws.markSel p.start)).1.visited }).2 ++ r3.2 ++
                  [{ cur := cur, links := r3.1.links,
                     p := .fragmentSpread ⟨nm, dirs, p⟩ (some f) parent }]) r3.1.visited f.name := by
              refine ⟨f, by rw [hname]; exact hf, ?_, fun p' y hi => ?_, fun nm' f' a' b' => b nm' f' a' b'⟩
              · exact (walkDirectives_hasArgs cur _ f.dirs locFragmentDefinition _).mono
                  (fun e he => List.mem_append_left _ (List.mem_append_left _ (List.mem_append_right _ he)))
              · exact (c1 p' y hi).mono (fun e he => List.mem_append_left _ (List.mem_append_right _ he))
            refine ⟨fun p' y hi => ?_, ⟨fun x hx => m (List.mem_cons_of_mem _ hx), fun n hn => ?_⟩, fun nm' f' hs _ => ?_⟩
            · cases hi with
              | self =>
                exact (hd _).mono
                  (fun e he => List.mem_append_left _ (List.mem_append_left _ (List.mem_append_left _ he)))
            · rcases a n hn with h1 | h1
              · rcases List.mem_cons.1 h1 with h2 | h2
                · right
                  rw [h2]
                  exact hfd
                · exact Or.inl h2
              · exact Or.inr (h1.mono (fun e he => List.mem_append_left _ (List.mem_append_right _ he)) (fun _ h => h))
            · rw [hself nm' hs, ← hname]
              exact m List.mem_cons_self
  theorem walkSelections_cL (cur : Option OperationDef) (J : Jump) (hJ : JumpCL sv d cur J) :
      ∀ (xs : Selections) (parent : Option Definition) (ws : WS) r, walkSelections sv d cur J parent xs ws = some r →
        (∀ p' y, InSelsW sv parent xs p' y → NodeDone sv cur r.2 p' y) ∧ WalkC2 sv d cur ws r ∧
        ∀ nm f, SpreadInSels xs nm → fragForName d nm = some f → nm ∈ r.1.visited
    | .nil, parent, ws, r, h => by
      simp only [walkSelections] at h
      injection h with h
      subst h
      refine ⟨fun p' y hi => ?_, ⟨fun _ hx => hx, fun n hn => Or.inl hn⟩, fun nm f hs _ => ?_⟩
      · cases hi
      · obtain ⟨_, _, hi⟩ := hs
        cases hi
    | .cons x rest, parent, ws, r, h => by
      unfold walkSelections at h
      split at h
      · cases h
      · rename_i r1 h1
        split at h
        · cases h
        · rename_i r2 h2
          injection h with h
          subst h
          obtain ⟨c1, ⟨m1, a1⟩, b1⟩ := walkSelection_cL cur J hJ x parent ws r1 h1
          obtain ⟨c2, ⟨m2, a2⟩, b2⟩ := walkSelections_cL cur J hJ rest parent r1.1 r2 h2
          refine ⟨fun p' y hi => ?_, ⟨fun n hn => m2 (m1 hn), fun n hn => ?_⟩, fun nm f hs hf => ?_⟩
          · cases hi with
            | head _ _ _ _ _ hx => exact (c1 p' y hx).mono (sub_inl _)
            | tail _ _ _ _ _ hx => exact (c2 p' y hx).mono (sub_inr _)
          · rcases a2 n hn with h3 | h3
            · rcases a1 n h3 with h4 | h4
              · exact Or.inl h4
              · exact Or.inr (h4.mono (sub_inl _) m2)
            · exact Or.inr (h3.mono (sub_inr _) (fun _ h => h))
          · obtain ⟨ds, q, hi⟩ := hs
            cases hi with
            | head _ _ _ hx => exact m2 (b1 nm f ⟨ds, q, hx⟩ hf)
            | tail _ _ _ hx => exact b2 nm f ⟨ds, q, hx⟩ hf
end

theorem walkLevel_cL (cur : Option OperationDef) : ∀ n, JumpCL sv d cur (walkLevel sv d cur n)
  | 0 => by intro _ _ _ _ h; simp [walkLevel] at h
  | n + 1 => by
    intro parent sels ws r h
    simp only [walkLevel] at h
    exact walkSelections_cL cur _ (walkLevel_cL cur n) sels parent ws r h

end

/-- the operation reaches the fragment definition `f` through spreads of defined fragments -/
inductive OpReaches (d : QueryDoc) (op : OperationDef) : FragmentDef → Prop
  | direct (nm : Name) (f : FragmentDef) : SpreadInSels op.sel nm → fragForName d nm = some f → OpReaches d op f
  | step (g : FragmentDef) (nm : Name) (f : FragmentDef) : OpReaches d op g → SpreadInSels g.sel nm →
      fragForName d nm = some f → OpReaches d op f

/-- the fragment definition `f` has been walked completely on behalf of `cur` -/
def FragWalked (sv : SV) (cur : Option OperationDef) (es : List Event) (f : FragmentDef) : Prop :=
  HasDirArgs sv cur es f.dirs ∧ ∀ p' y, InSelsW sv (sv.type? f.typeCond) f.sel p' y → NodeDone sv cur es p' y

theorem FragWalked.mono {sv : SV} {cur : Option OperationDef} {es es' : List Event} {f : FragmentDef}
    (h : FragWalked sv cur es f) (hs : ∀ e ∈ es, e ∈ es') : FragWalked sv cur es' f :=
  ⟨h.1.mono hs, fun p' y hi => (h.2 p' y hi).mono hs⟩

/-- the default value of a variable definition has been walked on behalf of its operation -/
def HasDefault (sv : SV) (op : OperationDef) (es : List Event) (vd : VarDef) (dv : Value) : Prop :=
  ∃ ws, ∀ e ∈ (walkValue sv (some op) (some vd.type) (sv.type? vd.type.name) dv ws).2, e ∈ es

theorem walkVarDefsB_done (sv : SV) (op : OperationDef) :
    ∀ (vs : List VarDef) (ws : WS), ∀ v ∈ vs,
      HasDirArgs sv (some op) (walkVarDefsB sv (some op) vs ws).2 v.dirs ∧
      ∀ dv, v.default = some dv → HasDefault sv op (walkVarDefsB sv (some op) vs ws).2 v dv
  | [], _, v, h => by cases h
  | v0 :: rest, ws, v, h => by
    simp only [walkVarDefsB]
    rcases List.mem_cons.1 h with rfl | h
    · refine ⟨(walkDirectives_hasArgs (some op) _ v.dirs _ _).mono
        (fun e he => List.mem_append_left _ (List.mem_append_right _ he)), fun dv hdv => ?_⟩
      rw [hdv]
      exact ⟨ws, fun e he => List.mem_append_left _ (List.mem_append_left _ he)⟩
    · obtain ⟨a, b⟩ := walkVarDefsB_done sv op rest _ v h
      refine ⟨a.mono (sub_inr _), fun dv hdv => ?_⟩
      obtain ⟨ws', hw⟩ := b dv hdv
      exact ⟨ws', fun e he => List.mem_append_right _ (hw e he)⟩

theorem walkVarDefsA_complete (sv : SV) (cur : Option OperationDef) (ws : WS) :
    ∀ (vs : List VarDef), ∀ v ∈ vs, ∃ e ∈ walkVarDefsA sv cur ws vs, e.cur = cur ∧ e.p = .variable v (sv.type? v.type.name)
  | [], v, h => by cases h
  | v0 :: rest, v, h => by
    simp only [walkVarDefsA]
    rcases List.mem_cons.1 h with rfl | h
    · exact ⟨_, List.mem_cons_self, rfl, rfl⟩
    · obtain ⟨e, he, x⟩ := walkVarDefsA_complete sv cur ws rest v h
      exact ⟨e, List.mem_cons_of_mem _ he, x⟩

/-- everything one operation walk does on behalf of the operation -/
structure OpDone (sv : SV) (d : QueryDoc) (op : OperationDef) (es : List Event) : Prop where
  varDefs : ∀ v ∈ op.vars, ∃ e ∈ es, e.cur = some op ∧ e.p = .variable v (sv.type? v.type.name)
  varDirs : ∀ v ∈ op.vars, HasDirArgs sv (some op) es v.dirs
  defaults : ∀ v ∈ op.vars, ∀ dv, v.default = some dv → HasDefault sv op es v dv
  dirs : HasDirArgs sv (some op) es op.dirs
  nodes : ∀ p' y, InSelsW sv (opRoot sv op.op).1 op.sel p' y → NodeDone sv (some op) es p' y
  frags : ∀ f, OpReaches d op f → FragWalked sv (some op) es f

theorem OpDone.mono {sv : SV} {d : QueryDoc} {op : OperationDef} {es es' : List Event} (h : OpDone sv d op es)
    (hs : ∀ e ∈ es, e ∈ es') : OpDone sv d op es' :=
  { varDefs := fun v hv => by
      obtain ⟨e, he, x⟩ := h.varDefs v hv
      exact ⟨e, hs e he, x⟩
    varDirs := fun v hv => (h.varDirs v hv).mono hs
    defaults := fun v hv dv hdv => by
      obtain ⟨ws, hw⟩ := h.defaults v hv dv hdv
      exact ⟨ws, fun e he => hs e (hw e he)⟩
    dirs := h.dirs.mono hs
    nodes := fun p' y hi => (h.nodes p' y hi).mono hs
    frags := fun f hf => (h.frags f hf).mono hs }

theorem walkOperation_done (sv : SV) (d : QueryDoc) (k : Nat) (op : OperationDef) (l : Links)
    (r : Links × List Event) (h : walkOperation sv d (k + 1) op l = some r) : OpDone sv d op r.2 := by
  unfold walkOperation at h
  simp only at h
  split at h
  · cases h
  · rename_i r4 h4
    injection h with h
    subst h
    simp only [walkLevel] at h4
    obtain ⟨c1, ⟨_, a⟩, b⟩ := walkSelections_cL (some op) _ (walkLevel_cL (some op) k) op.sel _ _ r4 h4
    simp only [walkDirectives_visited, walkVarDefsB_visited] at a
    have hvis : ∀ n ∈ r4.1.visited, FragDoneL sv d (some op) r4.2 r4.1.visited n := by
      intro n hn
      rcases a n hn with h1 | h1
      · cases h1
      · exact h1
    have hreach : ∀ f, OpReaches d op f → f.name ∈ r4.1.visited ∧ fragForName d f.name = some f := by
      intro f hf
      induction hf with
      | direct nm f hs hff =>
        have hname := fragForName_name hff
        exact ⟨by rw [hname]; exact b nm f hs hff, by rw [hname]; exact hff⟩
      | step g nm f _ hs hff ih =>
        have hname := fragForName_name hff
        obtain ⟨g', hg', _, _, hcl⟩ := hvis g.name ih.1
        rw [ih.2] at hg'
        injection hg' with hg'
        subst hg'
        exact ⟨by rw [hname]; exact hcl nm f hs hff, by rw [hname]; exact hff⟩
    have sub4 : ∀ e ∈ r4.2, e ∈ walkVarDefsA sv (some op) { visited := [], links := l, used := [] } op.vars ++
        (walkVarDefsB sv (some op) op.vars { visited := [], links := l, used := [] }).2 ++
        (walkDirectives sv (some op) (opRoot sv op.op).1 op.dirs (opRoot sv op.op).2
          (walkVarDefsB sv (some op) op.vars { visited := [], links := l, used := [] }).1).2 ++ r4.2 ++
        [{ cur := some op, links := r4.1.links, p := .operation op (usedFlags r4.1.used op.vars []) }] :=
      fun e he => List.mem_append_left _ (List.mem_append_right _ he)
    refine ⟨fun v hv => ?_, fun v hv => ?_, fun v hv dv hdv => ?_, ?_, fun p' y hi => (c1 p' y hi).mono sub4, fun f hf => ?_⟩
    · obtain ⟨e, he, x⟩ := walkVarDefsA_complete sv (some op) { visited := [], links := l, used := [] } op.vars v hv
      exact ⟨e, List.mem_append_left _ (List.mem_append_left _ (List.mem_append_left _ (List.mem_append_left _ he))), x⟩
    · exact (walkVarDefsB_done sv op op.vars _ v hv).1.mono (fun e he =>
        List.mem_append_left _ (List.mem_append_left _ (List.mem_append_left _ (List.mem_append_right _ he))))
    · obtain ⟨ws', hw⟩ := (walkVarDefsB_done sv op op.vars { visited := [], links := l, used := [] } v hv).2 dv hdv
      exact ⟨ws', fun e he =>
        List.mem_append_left _ (List.mem_append_left _ (List.mem_append_left _ (List.mem_append_right _ (hw e he))))⟩
    · exact (walkDirectives_hasArgs (some op) _ op.dirs _ _).mono (fun e he =>
        List.mem_append_left _ (List.mem_append_left _ (List.mem_append_right _ he)))
    · obtain ⟨hv, hff⟩ := hreach f hf
      obtain ⟨f', hf', h1, h2, _⟩ := hvis f.name hv
      rw [hff] at hf'
      injection hf' with hf'
      subst hf'
      exact ⟨h1.mono sub4, fun p' y hi => (h2 p' y hi).mono sub4⟩

theorem walkFragment_done (sv : SV) (d : QueryDoc) (k : Nat) (f : FragmentDef) (l : Links)
    (r : Links × List Event) (h : walkFragment sv d (k + 1) f l = some r) : FragWalked sv none r.2 f := by
  unfold walkFragment at h
  simp only at h
  split at h
  · cases h
  · rename_i r2 h2
    injection h with h
    subst h
    simp only [walkLevel] at h2
    obtain ⟨c1, _, _⟩ := walkSelections_cL (d := d) none _ (walkLevel_cL none k) f.sel _ _ r2 h2
    exact ⟨(walkDirectives_hasArgs none _ f.dirs _ _).mono (fun e he => List.mem_append_left _ (List.mem_append_left _ he)),
      fun p' y hi => (c1 p' y hi).mono (fun e he => List.mem_append_left _ (List.mem_append_right _ he))⟩

theorem walkOps_done (sv : SV) (d : QueryDoc) (k : Nat) :
    ∀ (ops : List OperationDef) (l : Links) (r : Links × List Event), walkOps sv d (k + 1) ops l = some r →
      ∀ op ∈ ops, OpDone sv d op r.2
  | [], _, _, _, op, hop => by cases hop
  | o :: rest, l, r, h, op, hop => by
    unfold walkOps at h
    split at h
    · cases h
    · rename_i r1 h1
      split at h
      · cases h
      · rename_i r2 h2
        injection h with h
        subst h
        rcases List.mem_cons.1 hop with rfl | hop
        · exact (walkOperation_done sv d k op l r1 h1).mono (sub_inl _)
        · exact (walkOps_done sv d k rest r1.1 r2 h2 op hop).mono (sub_inr _)

theorem walkFrags_done (sv : SV) (d : QueryDoc) (k : Nat) :
    ∀ (fs : List FragmentDef) (l : Links) (r : Links × List Event), walkFrags sv d (k + 1) fs l = some r →
      ∀ f ∈ fs, FragWalked sv none r.2 f
  | [], _, _, _, f, hf => by cases hf
  | o :: rest, l, r, h, f, hf => by
    unfold walkFrags at h
    split at h
    · cases h
    · rename_i r1 h1
      split at h
      · cases h
      · rename_i r2 h2
        injection h with h
        subst h
        rcases List.mem_cons.1 hf with rfl | hf
        · exact (walkFragment_done sv d k f l r1 h1).mono (sub_inl _)
        · exact (walkFrags_done sv d k rest r1.1 r2 h2 f hf).mono (sub_inr _)

/-- a whole run: every operation has walked its own text and every fragment it reaches on its own
    behalf; every fragment definition has been walked stand-alone -/
theorem walkDoc_reach (sv : SV) (d : QueryDoc) (evs : List Event) (h : walkDoc sv d = some evs) :
    (∀ op ∈ d.ops, OpDone sv d op evs) ∧ ∀ f ∈ d.frags, FragWalked sv none evs f := by
  unfold walkDoc at h
  split at h
  · cases h
  · rename_i r1 h1
    split at h
    · cases h
    · rename_i r2 h2
      injection h with h
      subst h
      exact ⟨fun op hop => (walkOps_done sv d _ d.ops _ r1 h1 op hop).mono (sub_inl _),
        fun f hf => (walkFrags_done sv d _ d.frags _ r2 h2 f hf).mono (sub_inr _)⟩

end Gql.Validate
