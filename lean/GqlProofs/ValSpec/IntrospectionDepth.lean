import GqlProofs.ValSpec.EventSets
import GqlProofs.ValSpec.ReachClosure
import GqlModel.Validate.Spec.Introspection
/-
  MaxIntrospectionDepth (library-specific depth limit), algorithmic core.
  (Three files: this one; `IntrospectionDepthRule.lean` — roots, one step, the equivalence from the
  hypothesis `LinkedEvents`, and the hypothesis-free direction "specification ⇒ silent";
  `IntrospectionLinks.lean` — `LinkedEvents` holds for every run; `C08_MaxIntrospectionDepth`.)

  `Deep d node k`: declaratively, "starting with `k` list fields already passed, some path below
  the node (through sub-selections, inline fragments and DEFINED fragment spreads — no cut, no
  memo, no link table) passes the limit of 3 list fields".

    model  : `checkDepthSelection(s)` answers `true`  ⇒ `Deep`          (unconditional: `check*_sound`)
             `checkDepthSelection(s)` answers `false` ⇒ `¬ Deep`        (acyclic document, all spreads
                                                                        reachable from the node linked,
                                                                        memo invariant `ClOK`: `check*_complete`)
    spec   : `Spec.deepSels … = true` ⇔ `Deep`                          (acyclic document: `specDeep_iff`)
-/
namespace Gql.Validate
open Gql Gql.Validate.Rules

/-- a selection or a selection set -/
inductive DNode
  | one (x : Selection)
  | many (xs : Selections)

def DNode.spreads : DNode → List Name
  | .one x => Spec.spreadsOfSel x
  | .many xs => Spec.spreadsOfSels xs

/-- the selection node `y` is written in the node (not through fragment spreads) -/
def DNode.Has : DNode → Selection → Prop
  | .one x, y => InSel x (.sel y)
  | .many xs, y => InSels xs (.sel y)

/-- some path below the node reaches the limit, having passed `k` list fields before -/
inductive Deep (d : QueryDoc) : DNode → Nat → Prop
  | hit (al nm : Name) (args : List Argument) (dirs : List Directive) (sub : Selections) (p : Pos) (k : Nat) :
      isListField nm = true → k + 1 ≥ maxListsDepth → Deep d (.one (.field al nm args dirs sub p)) k
  | sub (al nm : Name) (args : List Argument) (dirs : List Directive) (sub : Selections) (p : Pos) (k : Nat) :
      Deep d (.many sub) (if isListField nm then k + 1 else k) → Deep d (.one (.field al nm args dirs sub p)) k
  | spread (nm : Name) (dirs : List Directive) (p : Pos) (f : FragmentDef) (k : Nat) :
      fragForName d nm = some f → Deep d (.many f.sel) k → Deep d (.one (.spread nm dirs p)) k
  | inline (tc : Name) (dirs : List Directive) (sub : Selections) (p : Pos) (k : Nat) :
      Deep d (.many sub) k → Deep d (.one (.inline tc dirs sub p)) k
  | head (x : Selection) (rest : Selections) (k : Nat) : Deep d (.one x) k → Deep d (.many (.cons x rest)) k
  | tail (x : Selection) (rest : Selections) (k : Nat) : Deep d (.many rest) k → Deep d (.many (.cons x rest)) k

/-- more list fields passed before ⇒ the limit is reached all the more -/
theorem Deep.mono {d : QueryDoc} {node : DNode} {k : Nat} (h : Deep d node k) : ∀ k', k ≤ k' → Deep d node k' := by
  induction h with
  | hit al nm args dirs sub p k hl hk =>
    intro k' hle
    exact Deep.hit al nm args dirs sub p k' hl (by simp only [maxListsDepth] at *; omega)
  | sub al nm args dirs sub p k _ ih =>
    intro k' hle
    refine Deep.sub al nm args dirs sub p k' (ih _ ?_)
    split <;> omega
  | spread nm dirs p f k hf _ ih => exact fun k' hle => Deep.spread nm dirs p f k' hf (ih k' hle)
  | inline tc dirs sub p k _ ih => exact fun k' hle => Deep.inline tc dirs sub p k' (ih k' hle)
  | head x rest k _ ih => exact fun k' hle => Deep.head x rest k' (ih k' hle)
  | tail x rest k _ ih => exact fun k' hle => Deep.tail x rest k' (ih k' hle)

/- ---------- the model answers `true` only when a path exists (no hypothesis) ---------- -/

def DJumpSound (d : QueryDoc) (J : DJump) : Prop :=
  ∀ visited depth cl sels cl', J visited depth cl sels = some (true, cl') → Deep d (.many sels) depth

mutual
  theorem checkDepthSelection_sound (l : Links) (d : QueryDoc) (J : DJump) (hJ : DJumpSound d J) :
      ∀ (x : Selection) (visited : List Name) (depth : Nat) (cl cl' : Cleared),
        checkDepthSelection l d J visited depth cl x = some (true, cl') → Deep d (.one x) depth
    | .field al nm args dirs sub p, visited, depth, cl, cl', h => by
      unfold checkDepthSelection at h
      split at h
      · rename_i hl
        split at h
        · rename_i hk
          exact Deep.hit al nm args dirs sub p depth hl hk
        · refine Deep.sub al nm args dirs sub p depth ?_
          rw [if_pos hl]
          exact checkDepthSelections_sound l d J hJ sub visited (depth + 1) cl cl' h
      · rename_i hl
        refine Deep.sub al nm args dirs sub p depth ?_
        rw [if_neg hl]
        exact checkDepthSelections_sound l d J hJ sub visited depth cl cl' h
    | .spread nm dirs p, visited, depth, cl, cl', h => by
      unfold checkDepthSelection at h
      split at h
      · cases h
      · split at h
        · cases h
        · cases hs : l.spreadDef d nm p with
          | none => rw [hs] at h; cases h
          | some f =>
            rw [hs] at h
            simp only at h
            cases hj : J (nm :: visited) depth cl f.sel with
            | none => rw [hj] at h; cases h
            | some r =>
              obtain ⟨b, cl1⟩ := r
              rw [hj] at h
              cases b with
              | false => cases h
              | true => exact Deep.spread nm dirs p f depth (spreadDef_some hs) (hJ _ _ _ _ _ hj)
    | .inline tc dirs sub p, visited, depth, cl, cl', h => by
      unfold checkDepthSelection at h
      exact Deep.inline tc dirs sub p depth (checkDepthSelections_sound l d J hJ sub visited depth cl cl' h)
  theorem checkDepthSelections_sound (l : Links) (d : QueryDoc) (J : DJump) (hJ : DJumpSound d J) :
      ∀ (xs : Selections) (visited : List Name) (depth : Nat) (cl cl' : Cleared),
        checkDepthSelections l d J visited depth cl xs = some (true, cl') → Deep d (.many xs) depth
    | .nil, _, _, _, _, h => by simp [checkDepthSelections] at h
    | .cons x rest, visited, depth, cl, cl', h => by
      unfold checkDepthSelections at h
      cases hx : checkDepthSelection l d J visited depth cl x with
      | none => rw [hx] at h; cases h
      | some r =>
        obtain ⟨b, cl1⟩ := r
        rw [hx] at h
        cases b with
        | true => exact Deep.head x rest depth (checkDepthSelection_sound l d J hJ x visited depth cl cl1 hx)
        | false => exact Deep.tail x rest depth (checkDepthSelections_sound l d J hJ rest visited depth cl1 cl' h)
end

theorem depthLevel_sound (l : Links) (d : QueryDoc) : ∀ n, DJumpSound d (depthLevel l d n)
  | 0 => by intro _ _ _ _ _ h; simp [depthLevel] at h
  | n + 1 => by
    intro visited depth cl sels cl' h
    simp only [depthLevel] at h
    exact checkDepthSelections_sound l d _ (depthLevel_sound l d n) sels visited depth cl cl' h

/- ---------- context predicates handed down the search ---------- -/

/-- every spread written in the node, and in every fragment reachable from it, is linked -/
structure ReachLinked (l : Links) (d : QueryDoc) (node : DNode) : Prop where
  here : ∀ nm dirs p, node.Has (.spread nm dirs p) → l.linked p.start = true
  below : ∀ n g, Reach d node.spreads n → fragForName d n = some g →
    ∀ nm dirs p, InSels g.sel (.sel (.spread nm dirs p)) → l.linked p.start = true

/-- no fragment of the chain is reachable from the node -/
def NoCut (d : QueryDoc) (chain : List Name) (node : DNode) : Prop := ∀ n ∈ chain, ¬ Reach d node.spreads n

/-- no fragment reaches itself -/
def NoSelfReach (d : QueryDoc) : Prop := ∀ n f, fragForName d n = some f → ¬ Reach d (Spec.spreadsOfSels f.sel) n

theorem noSelfReach_of_spec {d : QueryDoc} (h : Spec.noFragmentCycles d = true) : NoSelfReach d := by
  intro n f hf hr
  unfold Spec.noFragmentCycles at h
  have := List.all_eq_true.1 h f (fragForName_mem hf)
  rw [← fragForName_name hf] at hr
  rw [← reachFrom_contains_iff] at hr
  rw [hr] at this
  cases this

theorem fragSpreads_of_some {d : QueryDoc} {n : Name} {f : FragmentDef} (h : fragForName d n = some f) :
    Spec.fragSpreads d n = Spec.spreadsOfSels f.sel := by
  unfold Spec.fragSpreads
  rw [fragByName_eq, h]

/-- what is reachable from the body of a spread fragment is reachable from the spread -/
theorem reach_of_body {d : QueryDoc} {start : List Name} {nm n : Name} {f : FragmentDef} (hnm : nm ∈ start)
    (hf : fragForName d nm = some f) (h : Reach d (Spec.spreadsOfSels f.sel) n) : Reach d start n := by
  apply Reach.trans (Reach.base hnm)
  rw [fragSpreads_of_some hf]
  exact h

theorem spreads_field (al nm : Name) (args : List Argument) (dirs : List Directive) (sub : Selections) (p : Pos) :
    (DNode.one (.field al nm args dirs sub p)).spreads = (DNode.many sub).spreads := by
  simp [DNode.spreads, Spec.spreadsOfSel]

theorem spreads_inline (tc : Name) (dirs : List Directive) (sub : Selections) (p : Pos) :
    (DNode.one (.inline tc dirs sub p)).spreads = (DNode.many sub).spreads := by
  simp [DNode.spreads, Spec.spreadsOfSel]

theorem spreads_cons (x : Selection) (rest : Selections) :
    (DNode.many (.cons x rest)).spreads = (DNode.one x).spreads ++ (DNode.many rest).spreads := by
  simp [DNode.spreads, Spec.spreadsOfSels]

theorem spreads_spread (nm : Name) (dirs : List Directive) (p : Pos) : (DNode.one (.spread nm dirs p)).spreads = [nm] := by
  simp [DNode.spreads, Spec.spreadsOfSel]

theorem ReachLinked.field {l : Links} {d : QueryDoc} {al nm : Name} {args : List Argument} {dirs : List Directive}
    {sub : Selections} {p : Pos} (h : ReachLinked l d (.one (.field al nm args dirs sub p))) : ReachLinked l d (.many sub) :=
  ⟨fun nm' ds q hi => h.here nm' ds q (InSel.fieldSub al nm args dirs sub p _ hi),
   fun n g hr => h.below n g (by rw [spreads_field]; exact hr)⟩

theorem ReachLinked.inline {l : Links} {d : QueryDoc} {tc : Name} {dirs : List Directive}
    {sub : Selections} {p : Pos} (h : ReachLinked l d (.one (.inline tc dirs sub p))) : ReachLinked l d (.many sub) :=
  ⟨fun nm' ds q hi => h.here nm' ds q (InSel.inlineSub tc dirs sub p _ hi),
   fun n g hr => h.below n g (by rw [spreads_inline]; exact hr)⟩

theorem ReachLinked.head {l : Links} {d : QueryDoc} {x : Selection} {rest : Selections}
    (h : ReachLinked l d (.many (.cons x rest))) : ReachLinked l d (.one x) :=
  ⟨fun nm' ds q hi => h.here nm' ds q (InSels.head x rest _ hi),
   fun n g hr => h.below n g (by rw [spreads_cons]; exact Reach.mono (fun _ hx => List.mem_append_left _ hx) hr)⟩

theorem ReachLinked.tail {l : Links} {d : QueryDoc} {x : Selection} {rest : Selections}
    (h : ReachLinked l d (.many (.cons x rest))) : ReachLinked l d (.many rest) :=
  ⟨fun nm' ds q hi => h.here nm' ds q (InSels.tail x rest _ hi),
   fun n g hr => h.below n g (by rw [spreads_cons]; exact Reach.mono (fun _ hx => List.mem_append_right _ hx) hr)⟩

theorem ReachLinked.jump {l : Links} {d : QueryDoc} {nm : Name} {dirs : List Directive} {p : Pos} {f : FragmentDef}
    (h : ReachLinked l d (.one (.spread nm dirs p))) (hf : fragForName d nm = some f) : ReachLinked l d (.many f.sel) :=
  ⟨fun nm' ds q hi => h.below nm f (Reach.base (by simp [spreads_spread])) hf nm' ds q hi,
   fun n g hr => h.below n g (reach_of_body (by simp [spreads_spread]) hf hr)⟩

theorem ReachLinked.spreadDef {l : Links} {d : QueryDoc} {nm : Name} {dirs : List Directive} {p : Pos}
    (h : ReachLinked l d (.one (.spread nm dirs p))) : l.spreadDef d nm p = fragForName d nm := by
  unfold Links.spreadDef
  rw [if_pos (h.here nm dirs p (InSel.self _))]

theorem NoCut.field {d : QueryDoc} {chain : List Name} {al nm : Name} {args : List Argument} {dirs : List Directive}
    {sub : Selections} {p : Pos} (h : NoCut d chain (.one (.field al nm args dirs sub p))) : NoCut d chain (.many sub) :=
  fun n hn hr => h n hn (by rw [spreads_field]; exact hr)

theorem NoCut.inline {d : QueryDoc} {chain : List Name} {tc : Name} {dirs : List Directive}
    {sub : Selections} {p : Pos} (h : NoCut d chain (.one (.inline tc dirs sub p))) : NoCut d chain (.many sub) :=
  fun n hn hr => h n hn (by rw [spreads_inline]; exact hr)

theorem NoCut.head {d : QueryDoc} {chain : List Name} {x : Selection} {rest : Selections}
    (h : NoCut d chain (.many (.cons x rest))) : NoCut d chain (.one x) :=
  fun n hn hr => h n hn (by rw [spreads_cons]; exact Reach.mono (fun _ hx => List.mem_append_left _ hx) hr)

theorem NoCut.tail {d : QueryDoc} {chain : List Name} {x : Selection} {rest : Selections}
    (h : NoCut d chain (.many (.cons x rest))) : NoCut d chain (.many rest) :=
  fun n hn hr => h n hn (by rw [spreads_cons]; exact Reach.mono (fun _ hx => List.mem_append_right _ hx) hr)

theorem NoCut.notMem {d : QueryDoc} {chain : List Name} {nm : Name} {dirs : List Directive} {p : Pos}
    (h : NoCut d chain (.one (.spread nm dirs p))) : chain.contains nm = false := by
  cases hc : chain.contains nm with
  | false => rfl
  | true =>
    exact absurd (Reach.base (by simp [spreads_spread])) (h nm (by simpa using hc))

theorem NoCut.jump {d : QueryDoc} (hac : NoSelfReach d) {chain : List Name} {nm : Name} {dirs : List Directive} {p : Pos}
    {f : FragmentDef} (h : NoCut d chain (.one (.spread nm dirs p))) (hf : fragForName d nm = some f) :
    NoCut d (nm :: chain) (.many f.sel) := by
  intro n hn hr
  rcases List.mem_cons.1 hn with rfl | hn
  · exact hac n f hf hr
  · exact h n hn (reach_of_body (by simp [spreads_spread]) hf hr)

theorem noCut_nil (d : QueryDoc) (node : DNode) : NoCut d [] node := fun _ h => by cases h

/- ---------- the memo ---------- -/

/-- every memo entry is right: the body of the fragment does not reach the limit from that depth -/
def ClOK (d : QueryDoc) (cl : Cleared) : Prop :=
  ∀ nm k, (nm, k) ∈ cl → ∀ f, fragForName d nm = some f → ¬ Deep d (.many f.sel) k

theorem cleared_lookup_mem {α β : Type} [BEq α] [LawfulBEq α] : ∀ (l : List (α × β)) (a : α) (b : β),
    l.lookup a = some b → (a, b) ∈ l
  | [], _, _, h => by simp [List.lookup] at h
  | (a', b') :: rest, a, b, h => by
    simp only [List.lookup] at h
    split at h
    · rename_i heq
      injection h with h
      subst h
      have : a = a' := by simpa using heq
      subst this
      exact List.mem_cons_self
    · exact List.mem_cons_of_mem _ (cleared_lookup_mem rest a b h)

theorem clearedSkip_sound {d : QueryDoc} {cl : Cleared} (hcl : ClOK d cl) {nm : Name} {depth : Nat}
    (h : clearedSkip cl nm depth = true) {f : FragmentDef} (hf : fragForName d nm = some f) :
    ¬ Deep d (.many f.sel) depth := by
  unfold clearedSkip at h
  split at h
  · rename_i a ha
    have hle : depth ≤ a := by simpa using h
    exact fun hd => hcl nm a (cleared_lookup_mem _ _ _ ha) f hf (hd.mono a hle)
  · cases h

theorem clearedUpdate_ok {d : QueryDoc} {cl : Cleared} (hcl : ClOK d cl) {nm : Name} {depth : Nat}
    (h : ∀ f, fragForName d nm = some f → ¬ Deep d (.many f.sel) depth) : ClOK d (clearedUpdate cl nm depth) := by
  have hcons : ClOK d ((nm, depth) :: cl) := by
    intro nm' k hm f hf
    rcases List.mem_cons.1 hm with heq | hm
    · injection heq with h1 h2
      subst h1; subst h2
      exact h f hf
    · exact hcl nm' k hm f hf
  unfold clearedUpdate
  split
  · split
    · exact hcons
    · exact hcl
  · exact hcons

/- ---------- the model answers `false` only when no path exists ---------- -/

def DJumpComplete (l : Links) (d : QueryDoc) (J : DJump) : Prop :=
  ∀ visited depth cl sels r, ReachLinked l d (.many sels) → NoCut d visited (.many sels) → ClOK d cl →
    J visited depth cl sels = some r → ClOK d r.2 ∧ (r.1 = false → ¬ Deep d (.many sels) depth)

mutual
  theorem checkDepthSelection_complete (l : Links) (d : QueryDoc) (hac : NoSelfReach d) (J : DJump) (hJ : DJumpComplete l d J) :
      ∀ (x : Selection) (visited : List Name) (depth : Nat) (cl : Cleared) (r : Bool × Cleared),
        ReachLinked l d (.one x) → NoCut d visited (.one x) → ClOK d cl →
        checkDepthSelection l d J visited depth cl x = some r → ClOK d r.2 ∧ (r.1 = false → ¬ Deep d (.one x) depth)
    | .field al nm args dirs sub p, visited, depth, cl, r, hl, hn, hcl, h => by
      unfold checkDepthSelection at h
      split at h
      · rename_i hlist
        split at h
        · injection h with h
          subst h
          exact ⟨hcl, fun hf => by cases hf⟩
        · rename_i hk
          obtain ⟨a, b⟩ := checkDepthSelections_complete l d hac J hJ sub visited (depth + 1) cl r hl.field hn.field hcl h
          refine ⟨a, fun hf hd => ?_⟩
          cases hd with
          | hit _ _ _ _ _ _ _ _ hk' => exact hk hk'
          | sub _ _ _ _ _ _ _ hs =>
            rw [if_pos hlist] at hs
            exact b hf hs
      · rename_i hlist
        obtain ⟨a, b⟩ := checkDepthSelections_complete l d hac J hJ sub visited depth cl r hl.field hn.field hcl h
        refine ⟨a, fun hf hd => ?_⟩
        cases hd with
        | hit _ _ _ _ _ _ _ hl' _ => exact hlist hl'
        | sub _ _ _ _ _ _ _ hs =>
          rw [if_neg hlist] at hs
          exact b hf hs
    | .spread nm dirs p, visited, depth, cl, r, hl, hn, hcl, h => by
      unfold checkDepthSelection at h
      rw [hn.notMem, hl.spreadDef] at h
      simp only [Bool.false_eq_true, if_false] at h
      split at h
      · rename_i hskip
        injection h with h
        subst h
        refine ⟨hcl, fun _ hd => ?_⟩
        cases hd with
        | spread _ _ _ f _ hf hb => exact clearedSkip_sound hcl hskip hf hb
      · cases hf : fragForName d nm with
        | none =>
          rw [hf] at h
          injection h with h
          subst h
          refine ⟨hcl, fun _ hd => ?_⟩
          cases hd with
          | spread _ _ _ f' _ hf' _ => rw [hf] at hf'; cases hf'
        | some f =>
          rw [hf] at h
          simp only at h
          cases hj : J (nm :: visited) depth cl f.sel with
          | none => rw [hj] at h; cases h
          | some r1 =>
            obtain ⟨b1, cl1⟩ := r1
            rw [hj] at h
            obtain ⟨a, b⟩ := hJ _ _ _ _ _ (hl.jump hf) (hn.jump hac hf) hcl hj
            cases b1 with
            | true =>
              injection h with h
              subst h
              exact ⟨a, fun hx => by cases hx⟩
            | false =>
              injection h with h
              subst h
              have hnd : ∀ f', fragForName d nm = some f' → ¬ Deep d (.many f'.sel) depth := by
                intro f' hf'
                rw [hf] at hf'
                injection hf' with hf'
                subst hf'
                exact b rfl
              refine ⟨clearedUpdate_ok a hnd, fun _ hd => ?_⟩
              cases hd with
              | spread _ _ _ f' _ hf' hb => exact hnd f' hf' hb
    | .inline tc dirs sub p, visited, depth, cl, r, hl, hn, hcl, h => by
      unfold checkDepthSelection at h
      obtain ⟨a, b⟩ := checkDepthSelections_complete l d hac J hJ sub visited depth cl r hl.inline hn.inline hcl h
      refine ⟨a, fun hf hd => ?_⟩
      cases hd with
      | inline _ _ _ _ _ hs => exact b hf hs
  theorem checkDepthSelections_complete (l : Links) (d : QueryDoc) (hac : NoSelfReach d) (J : DJump) (hJ : DJumpComplete l d J) :
      ∀ (xs : Selections) (visited : List Name) (depth : Nat) (cl : Cleared) (r : Bool × Cleared),
        ReachLinked l d (.many xs) → NoCut d visited (.many xs) → ClOK d cl →
        checkDepthSelections l d J visited depth cl xs = some r → ClOK d r.2 ∧ (r.1 = false → ¬ Deep d (.many xs) depth)
    | .nil, _, _, cl, r, _, _, hcl, h => by
      simp only [checkDepthSelections] at h
      injection h with h
      subst h
      exact ⟨hcl, fun _ hd => by cases hd⟩
    | .cons x rest, visited, depth, cl, r, hl, hn, hcl, h => by
      unfold checkDepthSelections at h
      cases hx : checkDepthSelection l d J visited depth cl x with
      | none => rw [hx] at h; cases h
      | some r1 =>
        obtain ⟨b1, cl1⟩ := r1
        rw [hx] at h
        obtain ⟨a1, c1⟩ := checkDepthSelection_complete l d hac J hJ x visited depth cl _ hl.head hn.head hcl hx
        cases b1 with
        | true =>
          injection h with h
          subst h
          exact ⟨a1, fun hf => by cases hf⟩
        | false =>
          obtain ⟨a2, c2⟩ := checkDepthSelections_complete l d hac J hJ rest visited depth cl1 r hl.tail hn.tail a1 h
          refine ⟨a2, fun hf hd => ?_⟩
          cases hd with
          | head _ _ _ hh => exact c1 rfl hh
          | tail _ _ _ ht => exact c2 hf ht
end

theorem depthLevel_complete (l : Links) (d : QueryDoc) (hac : NoSelfReach d) : ∀ n, DJumpComplete l d (depthLevel l d n)
  | 0 => by intro _ _ _ _ _ _ _ _ h; simp [depthLevel] at h
  | n + 1 => by
    intro visited depth cl sels r hl hn hcl h
    simp only [depthLevel] at h
    exact checkDepthSelections_complete l d hac _ (depthLevel_complete l d hac n) sels visited depth cl r hl hn hcl h

/- ---------- the specification's search ---------- -/

theorem isListField_eq (n : Name) : Spec.isIntrospectionListField n = isListField n := rfl

def SJumpSound (d : QueryDoc) (J : Spec.DepthJump) : Prop :=
  ∀ sels path k, k < 3 → J sels path k = true → Deep d (.many sels) k

mutual
  theorem deepSel_sound (d : QueryDoc) (J : Spec.DepthJump) (hJ : SJumpSound d J) :
      ∀ (x : Selection) (path : List Name) (k : Nat), k < 3 → Spec.deepSel d J x path k = true → Deep d (.one x) k
    | .field al nm args dirs sub p, path, k, hk, h => by
      unfold Spec.deepSel at h
      cases hl : Spec.isIntrospectionListField nm with
      | true =>
        have hl' : isListField nm = true := hl
        simp only [hl, if_true, Spec.maxListsDepth, Bool.or_eq_true, decide_eq_true_eq] at h
        rcases h with h | h
        · exact Deep.hit al nm args dirs sub p k hl' h
        · by_cases hk' : k + 1 ≥ 3
          · exact Deep.hit al nm args dirs sub p k hl' hk'
          · refine Deep.sub al nm args dirs sub p k ?_
            rw [if_pos hl']
            exact deepSels_sound d J hJ sub path (k + 1) (by omega) h
      | false =>
        have hl' : ¬ isListField nm = true := by
          intro hx
          have : Spec.isIntrospectionListField nm = true := hx
          rw [hl] at this
          cases this
        simp only [hl, Bool.false_eq_true, if_false, Spec.maxListsDepth, Bool.or_eq_true, decide_eq_true_eq] at h
        rcases h with h | h
        · omega
        · refine Deep.sub al nm args dirs sub p k ?_
          rw [if_neg hl']
          exact deepSels_sound d J hJ sub path k hk h
    | .spread nm dirs p, path, k, hk, h => by
      unfold Spec.deepSel at h
      split at h
      · cases h
      · rw [fragByName_eq] at h
        cases hf : fragForName d nm with
        | none => rw [hf] at h; cases h
        | some f =>
          rw [hf] at h
          exact Deep.spread nm dirs p f k hf (hJ _ _ _ hk h)
    | .inline tc dirs sub p, path, k, hk, h => by
      unfold Spec.deepSel at h
      exact Deep.inline tc dirs sub p k (deepSels_sound d J hJ sub path k hk h)
  theorem deepSels_sound (d : QueryDoc) (J : Spec.DepthJump) (hJ : SJumpSound d J) :
      ∀ (xs : Selections) (path : List Name) (k : Nat), k < 3 → Spec.deepSels d J xs path k = true → Deep d (.many xs) k
    | .nil, _, _, _, h => by simp [Spec.deepSels] at h
    | .cons x rest, path, k, hk, h => by
      unfold Spec.deepSels at h
      rw [Bool.or_eq_true] at h
      rcases h with h | h
      · exact Deep.head x rest k (deepSel_sound d J hJ x path k hk h)
      · exact Deep.tail x rest k (deepSels_sound d J hJ rest path k hk h)
end

theorem deepLevel_sound (d : QueryDoc) : ∀ n, SJumpSound d (Spec.deepLevel d n)
  | 0 => by intro _ _ _ _ h; simp [Spec.deepLevel] at h
  | n + 1 => by
    intro sels path k hk h
    simp only [Spec.deepLevel] at h
    exact deepSels_sound d _ (deepLevel_sound d n) sels path k hk h

/-- the specification's search on a node -/
def specDeep (d : QueryDoc) (m : Nat) : DNode → List Name → Nat → Bool
  | .one x, path, k => Spec.deepSel d (Spec.deepLevel d m) x path k
  | .many xs, path, k => Spec.deepSels d (Spec.deepLevel d m) xs path k

/-- on an acyclic document the specification's search finds every path: the chain test never
    fires and `unvisited d path` levels are enough -/
theorem specDeep_complete {d : QueryDoc} (hac : NoSelfReach d) {node : DNode} {k : Nat} (h : Deep d node k) :
    ∀ (m : Nat) (path : List Name), unvisited d path ≤ m → NoCut d path node → k < 3 → specDeep d m node path k = true := by
  induction h with
  | hit al nm args dirs sub p k hl hk =>
    intro m path _ _ _
    simp only [specDeep]
    unfold Spec.deepSel
    have hl' : Spec.isIntrospectionListField nm = true := hl
    simp only [hl', if_true, Spec.maxListsDepth, Bool.or_eq_true, decide_eq_true_eq]
    exact Or.inl hk
  | sub al nm args dirs sub p k _ ih =>
    intro m path hm hn hk
    simp only [specDeep] at ih ⊢
    unfold Spec.deepSel
    cases hl : Spec.isIntrospectionListField nm with
    | true =>
      have hl' : isListField nm = true := hl
      simp only [if_true, Spec.maxListsDepth, Bool.or_eq_true, decide_eq_true_eq]
      rw [if_pos hl'] at ih
      by_cases hk' : k + 1 < 3
      · exact Or.inr (ih m path hm hn.field hk')
      · exact Or.inl (by omega)
    | false =>
      have hl' : ¬ isListField nm = true := by
        intro hx
        have : Spec.isIntrospectionListField nm = true := hx
        rw [hl] at this
        cases this
      simp only [Bool.false_eq_true, if_false, Spec.maxListsDepth, Bool.or_eq_true, decide_eq_true_eq]
      rw [if_neg hl'] at ih
      exact Or.inr (ih m path hm hn.field hk)
  | spread nm dirs p f k hf _ ih =>
    intro m path hm hn hk
    simp only [specDeep]
    unfold Spec.deepSel
    rw [hn.notMem, fragByName_eq, hf]
    simp only [Bool.false_eq_true, if_false]
    have hlt := unvisited_lt d path f (fragForName_mem hf) (by rw [fragForName_name hf]; exact hn.notMem)
    rw [fragForName_name hf] at hlt
    cases m with
    | zero => omega
    | succ m' =>
      simp only [Spec.deepLevel]
      exact ih m' (nm :: path) (by omega) (hn.jump hac hf) hk
  | inline tc dirs sub p k _ ih =>
    intro m path hm hn hk
    simp only [specDeep]
    unfold Spec.deepSel
    exact ih m path hm hn.inline hk
  | head x rest k _ ih =>
    intro m path hm hn hk
    simp only [specDeep]
    unfold Spec.deepSels
    rw [Bool.or_eq_true]
    exact Or.inl (ih m path hm hn.head hk)
  | tail x rest k _ ih =>
    intro m path hm hn hk
    simp only [specDeep]
    unfold Spec.deepSels
    rw [Bool.or_eq_true]
    exact Or.inr (ih m path hm hn.tail hk)

/-- on an acyclic document the specification's search decides `Deep` -/
theorem specDeep_iff {d : QueryDoc} (hac : NoSelfReach d) (sub : Selections) :
    Spec.deepSels d (Spec.deepLevel d (d.frags.length + 1)) sub [] 0 = true ↔ Deep d (.many sub) 0 := by
  constructor
  · exact deepSels_sound d _ (deepLevel_sound d _) sub [] 0 (by omega)
  · intro h
    exact specDeep_complete hac h (d.frags.length + 1) [] (by rw [unvisited_nil]; omega) (noCut_nil d _) (by omega)

end Gql.Validate
