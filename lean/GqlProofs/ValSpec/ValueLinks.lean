import GqlProofs.ValSpec.TypedBridge
import GqlModel.Validate.Spec.Links
/-
  C09, value links — the LOCAL part: one call of `walkValue` against the specification's
  `Spec.valueLinks`.

  `valOccs s typed exp dfn v` lists the value nodes of the literal `v` (the literal itself and
  everything nested in it) with the context `Spec.valueLinks` computes for them, as DATA (the node,
  whether its own exp/def are demanded, the expected type, its definition); `valueLinks_eq` says
  that `Spec.valueLinks` — the function the `linkscheck` op runs — is the rendering of that list.

  `walkValue_occ_sound` / `walkValue_occ_complete`: the value events of one `walkValue` call are
  exactly the nodes of `valOccs`, and wherever the specification demands exp/def the event carries
  exactly these (`Agree`).  In particular
    * list items get the element type and the SAME definition as the list,
    * fields of an input-object literal get the declared type of the field and its definition,
    * a single value where a list type is expected keeps the list type and the definition of the
      innermost named type (the walker does not unwrap; an object literal in that position has its
      fields typed through that definition — `[Input]` with `{…}`),
    * below a custom scalar / an unknown field / a list literal where a named type is expected the
      specification demands nothing (`typed = false`).
-/
namespace Gql.Validate
open Gql

/-- a value node in its declarative context -/
structure ValOcc where
  v : Value
  /-- the node's own expected type / definition are demanded -/
  typed : Bool
  exp : Option GType
  dfn : Option Definition

mutual
  def valOccs (s : Schema) (typed : Bool) (exp : Option GType) (dfn : Option Definition) : Value → List ValOcc
    | .mk k raw ch p =>
      ⟨.mk k raw ch p, typed, exp, dfn⟩ ::
      (match k with
       | .list =>
         (match exp with
          | some (.list e _ _) => itemOccs s true (some e) dfn ch
          | _ => itemOccs s false none none ch)
       | .object => fieldOccs s dfn ch
       | _ => [])
  def itemOccs (s : Schema) (typed : Bool) (e : Option GType) (dfn : Option Definition) : Children → List ValOcc
    | .nil => []
    | .cons _ v _ rest => valOccs s typed e dfn v ++ itemOccs s typed e dfn rest
  def fieldOccs (s : Schema) (dfn : Option Definition) : Children → List ValOcc
    | .nil => []
    | .cons n v _ rest =>
      (match dfn.bind (fun d => if d.kind == .inputObject then Spec.inputFieldByName d n else none) with
       | some fd => valOccs s true (some fd.type) (s.type? fd.type.name) v
       | none => valOccs s false none none v) ++ fieldOccs s dfn rest
end

/-- the demanded link of a value occurrence as `linkscheck` compares it with the dump -/
def ValOcc.toExpLink (cands : Name → List String) (o : ValOcc) : Spec.ExpLink :=
  { start := o.v.pos.start, kind := "V",
    fields := if o.typed then [("def", Spec.optDefName o.dfn), ("exp", (o.exp.map fun t => bytesToString t.render).getD "-")] else [],
    varCands := if o.v.kind == .variable then some (cands o.v.raw) else none }

theorem ValOcc.toExpLink_mk (cands : Name → List String) (k : ValueKind) (raw : Bytes) (ch : Children) (p : Pos)
    (typed : Bool) (exp : Option GType) (dfn : Option Definition) :
    ValOcc.toExpLink cands ⟨.mk k raw ch p, typed, exp, dfn⟩ =
      { start := p.start, kind := "V",
        fields := if typed then [("def", Spec.optDefName dfn), ("exp", (exp.map fun t => bytesToString t.render).getD "-")] else [],
        varCands := if k == .variable then some (cands raw) else none } := rfl

mutual
  theorem valueLinks_eq (s : Schema) (cands : Name → List String) :
      ∀ (v : Value) (typed : Bool) (exp : Option GType) (dfn : Option Definition),
        Spec.valueLinks s cands typed exp dfn v = (valOccs s typed exp dfn v).map (ValOcc.toExpLink cands)
    | .mk k raw ch p, typed, exp, dfn => by
      have hi := fun t e d => itemLinks_eq s cands ch t e d
      have hf := fun d => fieldLinks_eq s cands ch d
      simp only [Spec.valueLinks, valOccs, List.map_cons, ValOcc.toExpLink_mk]
      congr 1
      cases k with
      | list =>
        cases exp with
        | none => simp only [hi]
        | some t =>
          cases t with
          | named _ _ _ => simp only [hi]
          | list _ _ _ => simp only [hi]
      | object => simp only [hf]
      | _ => simp only [List.map_nil]
  theorem itemLinks_eq (s : Schema) (cands : Name → List String) :
      ∀ (ch : Children) (typed : Bool) (e : Option GType) (dfn : Option Definition),
        Spec.itemLinks s cands typed e dfn ch = (itemOccs s typed e dfn ch).map (ValOcc.toExpLink cands)
    | .nil, _, _, _ => by simp [Spec.itemLinks, itemOccs]
    | .cons n v p rest, typed, e, dfn => by
      simp only [Spec.itemLinks, itemOccs, List.map_append, valueLinks_eq s cands v, itemLinks_eq s cands rest]
  theorem fieldLinks_eq (s : Schema) (cands : Name → List String) :
      ∀ (ch : Children) (dfn : Option Definition),
        Spec.fieldLinks s cands dfn ch = (fieldOccs s dfn ch).map (ValOcc.toExpLink cands)
    | .nil, _ => by simp [Spec.fieldLinks, fieldOccs]
    | .cons n v p rest, dfn => by
      simp only [Spec.fieldLinks, fieldOccs, List.map_append, fieldLinks_eq s cands rest]
      congr 1
      generalize (dfn.bind fun d => if d.kind == .inputObject then Spec.inputFieldByName d n else none) = o
      cases o <;> simp only [valueLinks_eq s cands v]
end

/-- the walker's `(exp, dfn)` against the specification's `(typed, exp0, dfn0)`: equal, or the
    specification demands nothing here and below -/
def Agree (typed : Bool) (exp0 : Option GType) (dfn0 : Option Definition) (exp : Option GType)
    (dfn : Option Definition) : Prop :=
  (exp = exp0 ∧ dfn = dfn0) ∨ (typed = false ∧ exp0 = none ∧ dfn0 = none)

theorem Agree.demanded {typed : Bool} {exp0 exp : Option GType} {dfn0 dfn : Option Definition}
    (h : Agree typed exp0 dfn0 exp dfn) (ht : typed = true) : exp = exp0 ∧ dfn = dfn0 := by
  rcases h with h | ⟨h, _⟩
  · exact h
  · rw [ht] at h
    cases h

theorem Agree.untyped (exp : Option GType) (dfn : Option Definition) : Agree false none none exp dfn :=
  Or.inr ⟨rfl, rfl, rfl⟩

theorem Agree.rfl' (typed : Bool) (exp : Option GType) (dfn : Option Definition) : Agree typed exp dfn exp dfn :=
  Or.inl ⟨rfl, rfl⟩

/-- an event that is about the occurrence `o` and carries what the specification demands of it -/
def EvOcc (cur : Option OperationDef) (e : Event) (o : ValOcc) : Prop :=
  e.cur = cur ∧ ∃ exp' dfn', e.p = .value o.v exp' dfn' ∧ Agree o.typed o.exp o.dfn exp' dfn'

/-- context handed to the items of a list literal: walker and specification -/
theorem agree_item {typed : Bool} {exp0 exp : Option GType} {dfn0 dfn : Option Definition}
    (h : Agree typed exp0 dfn0 exp dfn) :
    ∃ t e0 d0, (match exp0 with
        | some (.list e _ _) => (true, some e, dfn0)
        | _ => (false, none, none)) = (t, e0, d0) ∧
      Agree t e0 d0
        (match exp with
          | some (.list e _ _) => (some e, dfn)
          | _ => ((none : Option GType), (none : Option Definition))).1
        (match exp with
          | some (.list e _ _) => (some e, dfn)
          | _ => ((none : Option GType), (none : Option Definition))).2 := by
  rcases h with ⟨rfl, rfl⟩ | ⟨_, rfl, rfl⟩
  · cases exp with
    | none => exact ⟨_, _, _, rfl, Agree.untyped _ _⟩
    | some t =>
      cases t with
      | named _ _ _ => exact ⟨_, _, _, rfl, Agree.untyped _ _⟩
      | list e _ _ => exact ⟨_, _, _, rfl, Agree.rfl' _ _ _⟩
  · exact ⟨_, _, _, rfl, Agree.untyped _ _⟩

/- ---------- the walker's side: shape of one `walkValue` call ---------- -/

/-- `(ExpectedType, Definition)` the walker assigns to the field `name` of an object literal whose
    `Definition` is `dfn` -/
def objLk (sv : SV) (dfn : Option Definition) (name : Name) : Option GType × Option Definition :=
  match dfn with
  | some d => match fieldForName d.fields name with
    | some fd => linkOfType sv fd.type
    | none => (none, none)
  | none => (none, none)

/-- `(ExpectedType, Definition)` the walker assigns to the items of a list literal -/
def listLk (exp : Option GType) (dfn : Option Definition) : Option GType × Option Definition :=
  match exp with
  | some (.list e _ _) => (some e, dfn)
  | _ => (none, none)

theorem walkObjChildren_consL (sv : SV) (cur : Option OperationDef) (dfn : Option Definition) (name : Name)
    (v : Value) (p : Pos) (rest : Children) (ws : WS) :
    walkObjChildren sv cur dfn (.cons name v p rest) ws =
      ((walkObjChildren sv cur dfn rest (walkValue sv cur (objLk sv dfn name).1 (objLk sv dfn name).2 v ws).1).1,
       (walkValue sv cur (objLk sv dfn name).1 (objLk sv dfn name).2 v ws).2 ++
       (walkObjChildren sv cur dfn rest (walkValue sv cur (objLk sv dfn name).1 (objLk sv dfn name).2 v ws).1).2) := by
  cases dfn with
  | none => simp only [walkObjChildren, objLk]
  | some d =>
    cases h : fieldForName d.fields name <;> simp only [walkObjChildren, objLk, h]

theorem walkListChildren_consL (sv : SV) (cur : Option OperationDef) (exp : Option GType) (dfn : Option Definition)
    (name : Name) (v : Value) (p : Pos) (rest : Children) (ws : WS) :
    walkListChildren sv cur exp dfn (.cons name v p rest) ws =
      ((walkListChildren sv cur exp dfn rest (walkValue sv cur (listLk exp dfn).1 (listLk exp dfn).2 v ws).1).1,
       (walkValue sv cur (listLk exp dfn).1 (listLk exp dfn).2 v ws).2 ++
       (walkListChildren sv cur exp dfn rest (walkValue sv cur (listLk exp dfn).1 (listLk exp dfn).2 v ws).1).2) := by
  cases exp with
  | none => simp only [walkListChildren, listLk]
  | some t => cases t <;> simp only [walkListChildren, listLk]

/-- state in which the children of a value are walked: the variable link has been written -/
def valWs1 (cur : Option OperationDef) (k : ValueKind) (raw : Bytes) (p : Pos) (ws : WS) : WS :=
  match k, cur with
  | .variable, some op =>
    { ws with links := { ws.links with vlinks := (p.start, varForName op.vars raw) :: ws.links.vlinks },
              used := if (varForName op.vars raw).isSome then raw :: ws.used else ws.used }
  | _, _ => ws

/-- result of walking the children of a value -/
def valChildren (sv : SV) (cur : Option OperationDef) (exp : Option GType) (dfn : Option Definition)
    (k : ValueKind) (ch : Children) (ws1 : WS) : WS × List Event :=
  match k with
  | .object => walkObjChildren sv cur dfn ch ws1
  | .list => walkListChildren sv cur exp dfn ch ws1
  | _ => (ws1, [])

theorem walkValue_mkL (sv : SV) (cur : Option OperationDef) (exp : Option GType) (dfn : Option Definition)
    (k : ValueKind) (raw : Bytes) (ch : Children) (p : Pos) (ws : WS) :
    walkValue sv cur exp dfn (.mk k raw ch p) ws =
      ((valChildren sv cur exp dfn k ch (valWs1 cur k raw p ws)).1,
       (valChildren sv cur exp dfn k ch (valWs1 cur k raw p ws)).2 ++
         [{ cur := cur, links := (valChildren sv cur exp dfn k ch (valWs1 cur k raw p ws)).1.links,
            p := .value (.mk k raw ch p) exp dfn }]) := by
  cases k <;> cases cur <;> simp only [walkValue, valChildren, valWs1]

/-- what the walker hands to the field `n` of an object literal against the specification -/
theorem agree_field (s : Schema) (n : Name) {dfn0 dfn : Option Definition} (h : dfn = dfn0 ∨ dfn0 = none) :
    (∃ fd, (dfn0.bind fun d => if d.kind == .inputObject then Spec.inputFieldByName d n else none) = some fd ∧
      Agree true (some fd.type) (s.type? fd.type.name) (objLk s.view dfn n).1 (objLk s.view dfn n).2) ∨
    ((dfn0.bind fun d => if d.kind == .inputObject then Spec.inputFieldByName d n else none) = none) := by
  cases hfd : (dfn0.bind fun d => if d.kind == .inputObject then Spec.inputFieldByName d n else none) with
  | none => exact Or.inr rfl
  | some fd =>
    refine Or.inl ⟨fd, rfl, ?_⟩
    cases dfn0 with
    | none => simp at hfd
    | some d =>
      rcases h with rfl | h
      · simp only [Option.bind_some] at hfd
        split at hfd
        · have hf : fieldForName d.fields n = some fd := hfd
          simp only [objLk, hf]
          exact Agree.rfl' _ _ _
        · cases hfd
      · cases h

mutual
  /-- soundness: every event of one `walkValue` call is about a node of `valOccs` and carries what
      the specification demands of it -/
  theorem walkValue_occ_sound (s : Schema) (cur : Option OperationDef) :
      ∀ (v : Value) (typed : Bool) (exp0 : Option GType) (dfn0 : Option Definition) (exp : Option GType)
        (dfn : Option Definition) (ws : WS), Agree typed exp0 dfn0 exp dfn →
        ∀ e ∈ (walkValue s.view cur exp dfn v ws).2, ∃ o ∈ valOccs s typed exp0 dfn0 v, EvOcc cur e o
    | .mk k raw ch p, typed, exp0, dfn0, exp, dfn, ws, ha, e, he => by
      rw [walkValue_mkL] at he
      simp only [List.mem_append, List.mem_singleton] at he
      rcases he with he | rfl
      · cases k with
        | list =>
          simp only [valChildren] at he
          obtain ⟨t, e0, d0, heq, hag⟩ := agree_item ha
          obtain ⟨o, ho, heo⟩ := walkListChildren_occ_sound s cur ch t e0 d0 exp dfn _ hag e he
          refine ⟨o, ?_, heo⟩
          simp only [valOccs, List.mem_cons]
          right
          cases exp0 with
          | none => injection heq with h1 h2; injection h2 with h2 h3; subst h1 h2 h3; exact ho
          | some t0 =>
            cases t0 with
            | named _ _ _ => injection heq with h1 h2; injection h2 with h2 h3; subst h1 h2 h3; exact ho
            | list _ _ _ => injection heq with h1 h2; injection h2 with h2 h3; subst h1 h2 h3; exact ho
        | object =>
          simp only [valChildren] at he
          have hd : dfn = dfn0 ∨ dfn0 = none := by
            rcases ha with ⟨_, h⟩ | ⟨_, _, h⟩
            · exact Or.inl h
            · exact Or.inr h
          obtain ⟨o, ho, heo⟩ := walkObjChildren_occ_sound s cur ch dfn0 dfn _ hd e he
          exact ⟨o, by simp only [valOccs, List.mem_cons]; exact Or.inr ho, heo⟩
        | _ => simp [valChildren] at he
      · exact ⟨_, by simp only [valOccs]; exact List.mem_cons_self, rfl, exp, dfn, rfl, ha⟩
  theorem walkObjChildren_occ_sound (s : Schema) (cur : Option OperationDef) :
      ∀ (ch : Children) (dfn0 dfn : Option Definition) (ws : WS), (dfn = dfn0 ∨ dfn0 = none) →
        ∀ e ∈ (walkObjChildren s.view cur dfn ch ws).2, ∃ o ∈ fieldOccs s dfn0 ch, EvOcc cur e o
    | .nil, _, _, _, _, e, he => by simp [walkObjChildren] at he
    | .cons n v p rest, dfn0, dfn, ws, hd, e, he => by
      rw [walkObjChildren_consL] at he
      simp only [List.mem_append] at he
      rcases he with he | he
      · rcases agree_field s n hd with ⟨fd, hfd, hag⟩ | hfd
        · obtain ⟨o, ho, heo⟩ := walkValue_occ_sound s cur v _ _ _ _ _ _ hag e he
          exact ⟨o, by simp only [fieldOccs, hfd, List.mem_append]; exact Or.inl ho, heo⟩
        · obtain ⟨o, ho, heo⟩ := walkValue_occ_sound s cur v _ _ _ _ _ _ (Agree.untyped _ _) e he
          exact ⟨o, by simp only [fieldOccs, hfd, List.mem_append]; exact Or.inl ho, heo⟩
      · obtain ⟨o, ho, heo⟩ := walkObjChildren_occ_sound s cur rest dfn0 dfn _ hd e he
        exact ⟨o, by simp only [fieldOccs, List.mem_append]; exact Or.inr ho, heo⟩
  theorem walkListChildren_occ_sound (s : Schema) (cur : Option OperationDef) :
      ∀ (ch : Children) (t : Bool) (e0 : Option GType) (d0 : Option Definition) (exp : Option GType)
        (dfn : Option Definition) (ws : WS), Agree t e0 d0 (listLk exp dfn).1 (listLk exp dfn).2 →
        ∀ e ∈ (walkListChildren s.view cur exp dfn ch ws).2, ∃ o ∈ itemOccs s t e0 d0 ch, EvOcc cur e o
    | .nil, _, _, _, _, _, _, _, e, he => by simp [walkListChildren] at he
    | .cons n v p rest, t, e0, d0, exp, dfn, ws, hag, e, he => by
      rw [walkListChildren_consL] at he
      simp only [List.mem_append] at he
      rcases he with he | he
      · obtain ⟨o, ho, heo⟩ := walkValue_occ_sound s cur v _ _ _ _ _ _ hag e he
        exact ⟨o, by simp only [itemOccs, List.mem_append]; exact Or.inl ho, heo⟩
      · obtain ⟨o, ho, heo⟩ := walkListChildren_occ_sound s cur rest t e0 d0 exp dfn _ hag e he
        exact ⟨o, by simp only [itemOccs, List.mem_append]; exact Or.inr ho, heo⟩
end

mutual
  /-- completeness: every node of `valOccs` has its event in one `walkValue` call -/
  theorem walkValue_occ_complete (s : Schema) (cur : Option OperationDef) :
      ∀ (v : Value) (typed : Bool) (exp0 : Option GType) (dfn0 : Option Definition) (exp : Option GType)
        (dfn : Option Definition) (ws : WS), Agree typed exp0 dfn0 exp dfn →
        ∀ o ∈ valOccs s typed exp0 dfn0 v, ∃ e ∈ (walkValue s.view cur exp dfn v ws).2, EvOcc cur e o
    | .mk k raw ch p, typed, exp0, dfn0, exp, dfn, ws, ha, o, ho => by
      rw [walkValue_mkL]
      simp only [valOccs, List.mem_cons] at ho
      rcases ho with rfl | ho
      · exact ⟨_, List.mem_append_right _ (List.mem_singleton.2 rfl), rfl, exp, dfn, rfl, ha⟩
      · cases k with
        | list =>
          simp only [valChildren]
          obtain ⟨t, e0, d0, heq, hag⟩ := agree_item ha
          have ho' : o ∈ itemOccs s t e0 d0 ch := by
            cases exp0 with
            | none => injection heq with h1 h2; injection h2 with h2 h3; subst h1 h2 h3; exact ho
            | some t0 =>
              cases t0 with
              | named _ _ _ => injection heq with h1 h2; injection h2 with h2 h3; subst h1 h2 h3; exact ho
              | list _ _ _ => injection heq with h1 h2; injection h2 with h2 h3; subst h1 h2 h3; exact ho
          obtain ⟨e, he, heo⟩ := walkListChildren_occ_complete s cur ch t e0 d0 exp dfn _ hag o ho'
          exact ⟨e, List.mem_append_left _ he, heo⟩
        | object =>
          simp only [valChildren]
          have hd : dfn = dfn0 ∨ dfn0 = none := by
            rcases ha with ⟨_, h⟩ | ⟨_, _, h⟩
            · exact Or.inl h
            · exact Or.inr h
          obtain ⟨e, he, heo⟩ := walkObjChildren_occ_complete s cur ch dfn0 dfn _ hd o ho
          exact ⟨e, List.mem_append_left _ he, heo⟩
        | _ => simp at ho
  theorem walkObjChildren_occ_complete (s : Schema) (cur : Option OperationDef) :
      ∀ (ch : Children) (dfn0 dfn : Option Definition) (ws : WS), (dfn = dfn0 ∨ dfn0 = none) →
        ∀ o ∈ fieldOccs s dfn0 ch, ∃ e ∈ (walkObjChildren s.view cur dfn ch ws).2, EvOcc cur e o
    | .nil, _, _, _, _, o, ho => by simp [fieldOccs] at ho
    | .cons n v p rest, dfn0, dfn, ws, hd, o, ho => by
      rw [walkObjChildren_consL]
      simp only [fieldOccs, List.mem_append] at ho
      rcases ho with ho | ho
      · rcases agree_field s n hd with ⟨fd, hfd, hag⟩ | hfd
        · rw [hfd] at ho
          obtain ⟨e, he, heo⟩ := walkValue_occ_complete s cur v _ _ _ _ _ ws hag o ho
          exact ⟨e, List.mem_append_left _ he, heo⟩
        · rw [hfd] at ho
          obtain ⟨e, he, heo⟩ := walkValue_occ_complete s cur v _ _ _ _ _ ws (Agree.untyped _ _) o ho
          exact ⟨e, List.mem_append_left _ he, heo⟩
      · obtain ⟨e, he, heo⟩ := walkObjChildren_occ_complete s cur rest dfn0 dfn _ hd o ho
        exact ⟨e, List.mem_append_right _ he, heo⟩
  theorem walkListChildren_occ_complete (s : Schema) (cur : Option OperationDef) :
      ∀ (ch : Children) (t : Bool) (e0 : Option GType) (d0 : Option Definition) (exp : Option GType)
        (dfn : Option Definition) (ws : WS), Agree t e0 d0 (listLk exp dfn).1 (listLk exp dfn).2 →
        ∀ o ∈ itemOccs s t e0 d0 ch, ∃ e ∈ (walkListChildren s.view cur exp dfn ch ws).2, EvOcc cur e o
    | .nil, _, _, _, _, _, _, _, o, ho => by simp [itemOccs] at ho
    | .cons n v p rest, t, e0, d0, exp, dfn, ws, hag, o, ho => by
      rw [walkListChildren_consL]
      simp only [itemOccs, List.mem_append] at ho
      rcases ho with ho | ho
      · obtain ⟨e, he, heo⟩ := walkValue_occ_complete s cur v _ _ _ _ _ ws hag o ho
        exact ⟨e, List.mem_append_left _ he, heo⟩
      · obtain ⟨e, he, heo⟩ := walkListChildren_occ_complete s cur rest t e0 d0 exp dfn _ hag o ho
        exact ⟨e, List.mem_append_right _ he, heo⟩
end

/- ---------- argument lists ---------- -/

/-- `(ExpectedType, Definition)` the walker assigns to the value of the argument `name` -/
def argLk (sv : SV) (defs : Option (List ArgDef)) (name : Name) : Option GType × Option Definition :=
  match defs.bind (argDefForName · name) with
  | some ad => linkOfType sv ad.type
  | none => (none, none)

theorem walkArgs_consL (sv : SV) (cur : Option OperationDef) (defs : Option (List ArgDef)) (a : Argument)
    (rest : List Argument) (ws : WS) :
    walkArgs sv cur defs (a :: rest) ws =
      ((walkArgs sv cur defs rest (walkValue sv cur (argLk sv defs a.name).1 (argLk sv defs a.name).2 a.value ws).1).1,
       (walkValue sv cur (argLk sv defs a.name).1 (argLk sv defs a.name).2 a.value ws).2 ++
       (walkArgs sv cur defs rest (walkValue sv cur (argLk sv defs a.name).1 (argLk sv defs a.name).2 a.value ws).1).2) := by
  cases h : defs.bind (argDefForName · a.name) <;> simp only [walkArgs, argLk, h]

/-- the value nodes of an argument list in their declarative context (`Spec.argLinks` as data) -/
def argOccs (s : Schema) (defs : Option (List ArgDef)) (args : List Argument) : List ValOcc :=
  args.flatMap fun a =>
    match defs.bind (Spec.argDefByName · a.name) with
    | some ad => valOccs s true (some ad.type) (s.type? ad.type.name) a.value
    | none => valOccs s false none none a.value

theorem argLinks_eq (s : Schema) (cands : Name → List String) (defs : Option (List ArgDef)) (args : List Argument) :
    Spec.argLinks s cands defs args = (argOccs s defs args).map (ValOcc.toExpLink cands) := by
  unfold Spec.argLinks argOccs
  induction args with
  | nil => rfl
  | cons a rest ih =>
    simp only [List.flatMap_cons, List.map_append, ih]
    congr 1
    cases defs.bind (Spec.argDefByName · a.name) <;> simp only [valueLinks_eq]

/-- walker against specification for the value of one argument -/
theorem agree_arg (s : Schema) (defs : Option (List ArgDef)) (name : Name) :
    (∃ ad, defs.bind (Spec.argDefByName · name) = some ad ∧
      Agree true (some ad.type) (s.type? ad.type.name) (argLk s.view defs name).1 (argLk s.view defs name).2) ∨
    defs.bind (Spec.argDefByName · name) = none := by
  cases h : defs.bind (Spec.argDefByName · name) with
  | none => exact Or.inr rfl
  | some ad =>
    refine Or.inl ⟨ad, rfl, ?_⟩
    have h' : defs.bind (argDefForName · name) = some ad := h
    simp only [argLk, h']
    exact Agree.rfl' _ _ _

theorem walkArgs_occ_sound (s : Schema) (cur : Option OperationDef) (defs : Option (List ArgDef)) :
    ∀ (args : List Argument) (ws : WS), ∀ e ∈ (walkArgs s.view cur defs args ws).2,
      ∃ o ∈ argOccs s defs args, EvOcc cur e o
  | [], _, e, he => by simp [walkArgs] at he
  | a :: rest, ws, e, he => by
    rw [walkArgs_consL] at he
    simp only [List.mem_append] at he
    simp only [argOccs, List.flatMap_cons, List.mem_append]
    rcases he with he | he
    · rcases agree_arg s defs a.name with ⟨ad, had, hag⟩ | had
      · obtain ⟨o, ho, heo⟩ := walkValue_occ_sound s cur a.value _ _ _ _ _ _ hag e he
        exact ⟨o, Or.inl (by rw [had]; exact ho), heo⟩
      · obtain ⟨o, ho, heo⟩ := walkValue_occ_sound s cur a.value _ _ _ _ _ _ (Agree.untyped _ _) e he
        exact ⟨o, Or.inl (by rw [had]; exact ho), heo⟩
    · obtain ⟨o, ho, heo⟩ := walkArgs_occ_sound s cur defs rest _ e he
      exact ⟨o, Or.inr ho, heo⟩

theorem walkArgs_occ_complete (s : Schema) (cur : Option OperationDef) (defs : Option (List ArgDef)) :
    ∀ (args : List Argument) (ws : WS), ∀ o ∈ argOccs s defs args,
      ∃ e ∈ (walkArgs s.view cur defs args ws).2, EvOcc cur e o
  | [], _, o, ho => by simp [argOccs] at ho
  | a :: rest, ws, o, ho => by
    rw [walkArgs_consL]
    simp only [argOccs, List.flatMap_cons, List.mem_append] at ho
    rcases ho with ho | ho
    · rcases agree_arg s defs a.name with ⟨ad, had, hag⟩ | had
      · rw [had] at ho
        obtain ⟨e, he, heo⟩ := walkValue_occ_complete s cur a.value _ _ _ _ _ ws hag o ho
        exact ⟨e, List.mem_append_left _ he, heo⟩
      · rw [had] at ho
        obtain ⟨e, he, heo⟩ := walkValue_occ_complete s cur a.value _ _ _ _ _ ws (Agree.untyped _ _) o ho
        exact ⟨e, List.mem_append_left _ he, heo⟩
    · obtain ⟨e, he, heo⟩ := walkArgs_occ_complete s cur defs rest _ o ho
      exact ⟨e, List.mem_append_right _ he, heo⟩

end Gql.Validate
