import GqlProofs.ValSpec.ValueLinks
import GqlProofs.ValSpec.LeafFrag
/-
  C09, value links — the GLOBAL part, soundness direction: a run of `walkDoc` is a sequence of
    * `walkArgs` calls on the argument list of a field node (with the argument definitions of the
      field definition the walker found on the walker's parent type of that node) or of a directive
      written at a directive site of the document (with the argument definitions of the directive
      definition of that name),
    * `walkValue` calls on the default value of a variable definition of an operation,
    * single events that are not value events and that carry the current link table
  (`Built`, `walkDoc_built`).  Everything about value events and about the variable-link table is
  then a fact about one `walkArgs` / `walkValue` call.
-/
namespace Gql.Validate
open Gql

/-- `walker.CurrentOperation` is nil or an operation of the document -/
def CurOK (d : QueryDoc) (cur : Option OperationDef) : Prop := ∀ op, cur = some op → op ∈ d.ops

/-- an argument list the walker walks, with the argument definitions it uses -/
inductive ArgCall (sv : SV) (d : QueryDoc) : Option (List ArgDef) → List Argument → Prop
  | field (p' : Option Definition) (al nm : Name) (args : List Argument) (dirs : List Directive) (sub : Selections)
      (pos : Pos) : InDocW sv d p' (.field al nm args dirs sub pos) →
      ArgCall sv d ((wFieldDef p' nm).map (·.args)) args
  | directive (loc : Bytes) (ds : List Directive) (dir : Directive) : InDoc sv d (.dirs loc ds) → dir ∈ ds →
      ArgCall sv d ((sv.directive? dir.name).map (·.args)) dir.args

abbrev VLinks := List (Nat × Option VarDef)

def Payload.isValue : Payload → Prop
  | .value .. => True
  | _ => False

/-- neither a value event nor a variable-definition event -/
def Payload.isPlain : Payload → Prop
  | .value .. => False
  | .variable .. => False
  | _ => True

theorem Payload.isPlain.notValue {p : Payload} (h : p.isPlain) : ¬ p.isValue := by
  cases p <;> first | exact fun h' => h' | exact fun _ => h

/-- the event list of a walk, from variable-link table `l` to `l'` -/
inductive Built (sv : SV) (d : QueryDoc) : VLinks → List Event → VLinks → Prop
  | nil (l : VLinks) : Built sv d l [] l
  | append {a b c : VLinks} {es es' : List Event} : Built sv d a es b → Built sv d b es' c → Built sv d a (es ++ es') c
  | args (cur : Option OperationDef) (defs : Option (List ArgDef)) (args : List Argument) (ws : WS) :
      CurOK d cur → ArgCall sv d defs args →
      Built sv d ws.links.vlinks (walkArgs sv cur defs args ws).2 (walkArgs sv cur defs args ws).1.links.vlinks
  | default (op : OperationDef) (vd : VarDef) (dv : Value) (ws : WS) : op ∈ d.ops → vd ∈ op.vars →
      vd.default = some dv →
      Built sv d ws.links.vlinks (walkValue sv (some op) (some vd.type) (sv.type? vd.type.name) dv ws).2
        (walkValue sv (some op) (some vd.type) (sv.type? vd.type.name) dv ws).1.links.vlinks
  | vdef (op : OperationDef) (vd : VarDef) (l : Links) : op ∈ d.ops → vd ∈ op.vars →
      Built sv d l.vlinks [{ cur := some op, links := l, p := .variable vd (sv.type? vd.type.name) }] l.vlinks
  | ev (e : Event) : e.p.isPlain → Built sv d e.links.vlinks [e] e.links.vlinks

theorem Built.ev' {sv : SV} {d : QueryDoc} (e : Event) (l : VLinks) (h : e.p.isPlain) (hl : e.links.vlinks = l) :
    Built sv d l [e] l := by
  subst hl
  exact Built.ev e h

theorem Built.snoc {sv : SV} {d : QueryDoc} {a b : VLinks} {es : List Event} (h : Built sv d a es b) (e : Event)
    (hv : e.p.isPlain) (hl : e.links.vlinks = b) : Built sv d a (es ++ [e]) b :=
  Built.append h (Built.ev' e b hv hl)

theorem Built.cons {sv : SV} {d : QueryDoc} {a b : VLinks} {es : List Event} (e : Event)
    (hv : e.p.isPlain) (hl : e.links.vlinks = a) (h : Built sv d a es b) : Built sv d a (e :: es) b :=
  Built.append (es := [e]) (Built.ev' e a hv hl) h

theorem inDocW_dirs {sv : SV} {d : QueryDoc} {p' : Option Definition} {y : Selection} (h : InDocW sv d p' y) :
    InDoc sv d (.dirs (Spec.selLoc y) (Spec.selDirs y)) := by
  rcases h with ⟨op, hop, h⟩ | ⟨f, hf, h⟩
  · exact Or.inl ⟨op, hop, Or.inl (inSels_dirs_of_sel _ _ (inSelsW_forget sv _ _ _ _ h))⟩
  · exact Or.inr ⟨f, hf, Or.inl (inSels_dirs_of_sel _ _ (inSelsW_forget sv _ _ _ _ h))⟩

section
variable {sv : SV} {d : QueryDoc}

theorem walkDirectiveItems_built (cur : Option OperationDef) (hc : CurOK d cur) (parent : Option Definition)
    (loc : Bytes) (ds : List Directive) (hds : InDoc sv d (.dirs loc ds)) :
    ∀ (suffix : List Directive) (ws : WS), (∀ dir ∈ suffix, dir ∈ ds) →
      Built sv d ws.links.vlinks (walkDirectiveItems sv cur parent loc suffix ws).2
        (walkDirectiveItems sv cur parent loc suffix ws).1.links.vlinks
  | [], ws, _ => by simp only [walkDirectiveItems]; exact Built.nil _
  | dir :: rest, ws, hsub => by
    simp only [walkDirectiveItems]
    have h1 := Built.args (sv := sv) cur ((sv.directive? dir.name).map (·.args)) dir.args ws hc
      (ArgCall.directive loc ds dir hds (hsub dir List.mem_cons_self))
    have h2 := walkDirectiveItems_built cur hc parent loc ds hds rest
      (walkArgs sv cur ((sv.directive? dir.name).map (·.args)) dir.args ws).1
      (fun x hx => hsub x (List.mem_cons_of_mem _ hx))
    refine Built.append h1 (Built.cons _ ?_ rfl h2)
    exact trivial

theorem walkDirectives_built (cur : Option OperationDef) (hc : CurOK d cur) (parent : Option Definition)
    (ds : List Directive) (loc : Bytes) (ws : WS) (hds : InDoc sv d (.dirs loc ds)) :
    Built sv d ws.links.vlinks (walkDirectives sv cur parent ds loc ws).2
      (walkDirectives sv cur parent ds loc ws).1.links.vlinks := by
  simp only [walkDirectives]
  refine Built.snoc (walkDirectiveItems_built cur hc parent loc ds hds ds ws (fun _ h => h)) _ ?_ rfl
  exact trivial

def JumpBuilt (sv : SV) (d : QueryDoc) (J : Jump) : Prop :=
  ∀ parent sels (ws : WS) r, (∀ p' y, InSelsW sv parent sels p' y → InDocW sv d p' y) → J parent sels ws = some r →
    Built sv d ws.links.vlinks r.2 r.1.links.vlinks

mutual
  theorem walkSelection_built (cur : Option OperationDef) (hc : CurOK d cur) (J : Jump) (hJ : JumpBuilt sv d J) :
      ∀ (x : Selection) (parent : Option Definition) (ws : WS) r,
        (∀ p' y, InSelW sv parent x p' y → InDocW sv d p' y) →
        walkSelection sv d cur J parent x ws = some r → Built sv d ws.links.vlinks r.2 r.1.links.vlinks
    | .field al nm args dirs sub p, parent, ws, r, hx, h => by
      unfold walkSelection at h
      simp only at h
      split at h
      · cases h
      · rename_i r3 h3
        injection h with h
        subst h
        have hself := hx _ _ (InSelW.self parent (.field al nm args dirs sub p))
        have h1 := Built.args (sv := sv) cur ((wFieldDef parent nm).map (·.args)) args (ws.markSel p.start) hc
          (ArgCall.field parent al nm args dirs sub p hself)
        have h2 := walkDirectives_built (sv := sv) cur hc (wNext sv parent nm) dirs locField
          (walkArgs sv cur ((wFieldDef parent nm).map (·.args)) args (ws.markSel p.start)).1 (inDocW_dirs hself)
        have hb := walkSelections_built cur hc J hJ sub _ _ r3
          (fun p' y hi => hx p' y (InSelW.fieldSub parent al nm args dirs sub p p' y hi)) h3
        refine Built.snoc (Built.append (Built.append h1 h2) hb) _ ?_ rfl
        exact trivial
    | .inline tc dirs sub p, parent, ws, r, hx, h => by
      unfold walkSelection at h
      simp only at h
      split at h
      · cases h
      · rename_i r3 h3
        injection h with h
        subst h
        have hself := hx _ _ (InSelW.self parent (.inline tc dirs sub p))
        have h2 := walkDirectives_built (sv := sv) cur hc (wInline sv parent tc) dirs locInlineFragment
          (ws.markSel p.start) (inDocW_dirs hself)
        have hb := walkSelections_built cur hc J hJ sub _ _ r3
          (fun p' y hi => hx p' y (InSelW.inlineSub parent tc dirs sub p p' y hi)) h3
        refine Built.snoc (Built.append h2 hb) _ ?_ rfl
        exact trivial
    | .spread nm dirs p, parent, ws, r, hx, h => by
      unfold walkSelection at h
      simp only at h
      have hself := hx _ _ (InSelW.self parent (.spread nm dirs p))
      have hd := fun par => walkDirectives_built (sv := sv) cur hc par dirs locFragmentSpread
        (ws.markSel p.start) (inDocW_dirs hself)
      cases hf : fragForName d nm with
      | none =>
        rw [hf] at h
        simp only at h
        injection h with h
        subst h
        refine Built.snoc (hd _) _ ?_ rfl
        exact trivial
      | some f =>
        rw [hf] at h
        simp only at h
        split at h
        · injection h with h
          subst h
          refine Built.snoc (hd _) _ ?_ rfl
          exact trivial
        · split at h
          · cases h
          · rename_i r3 h3
            injection h with h
            subst h
            have hfm := fragForName_mem hf
            have hb := hJ _ _ _ r3 (fun p' y hi => Or.inr ⟨f, hfm, hi⟩) h3
            have hdd := walkDirectives_built (sv := sv) cur hc (sv.type? f.typeCond) f.dirs locFragmentDefinition
              { (walkDirectives sv cur ((fragForName d nm).bind fun f => sv.type? f.typeCond) dirs locFragmentSpread
                  (ws.markSel p.start)).1 with
                visited := f.name :: (walkDirectives sv cur ((fragForName d nm).bind fun f => sv.type? f.typeCond) dirs
                  locFragmentSpread (ws.markSel p.start)).1.visited }
              (Or.inr ⟨f, hfm, Or.inr rfl⟩)
            rw [hf] at hdd
            refine Built.snoc (Built.append (Built.append (hd _) hdd) hb) _ ?_ rfl
            exact trivial
  theorem walkSelections_built (cur : Option OperationDef) (hc : CurOK d cur) (J : Jump) (hJ : JumpBuilt sv d J) :
      ∀ (xs : Selections) (parent : Option Definition) (ws : WS) r,
        (∀ p' y, InSelsW sv parent xs p' y → InDocW sv d p' y) →
        walkSelections sv d cur J parent xs ws = some r → Built sv d ws.links.vlinks r.2 r.1.links.vlinks
    | .nil, parent, ws, r, hx, h => by
      simp only [walkSelections] at h
      injection h with h
      subst h
      exact Built.nil _
    | .cons x rest, parent, ws, r, hx, h => by
      unfold walkSelections at h
      split at h
      · cases h
      · rename_i r1 h1
        split at h
        · cases h
        · rename_i r2 h2
          injection h with h
          subst h
          exact Built.append
            (walkSelection_built cur hc J hJ x parent ws r1 (fun p' y hi => hx p' y (InSelsW.head parent x rest p' y hi)) h1)
            (walkSelections_built cur hc J hJ rest parent r1.1 r2 (fun p' y hi => hx p' y (InSelsW.tail parent x rest p' y hi)) h2)
end

theorem walkLevel_built (cur : Option OperationDef) (hc : CurOK d cur) : ∀ n, JumpBuilt sv d (walkLevel sv d cur n)
  | 0 => by intro _ _ _ _ _ h; simp [walkLevel] at h
  | n + 1 => by
    intro parent sels ws r hx h
    simp only [walkLevel] at h
    exact walkSelections_built cur hc _ (walkLevel_built cur hc n) sels parent ws r hx h

theorem walkVarDefsA_built (op : OperationDef) (hop : op ∈ d.ops) (ws : WS) :
    ∀ vs : List VarDef, (∀ v ∈ vs, v ∈ op.vars) →
      Built sv d ws.links.vlinks (walkVarDefsA sv (some op) ws vs) ws.links.vlinks
  | [], _ => Built.nil _
  | v :: rest, hsub => by
    simp only [walkVarDefsA]
    exact Built.append (es := [_]) (Built.vdef op v ws.links hop (hsub v List.mem_cons_self))
      (walkVarDefsA_built op hop ws rest (fun x hx => hsub x (List.mem_cons_of_mem _ hx)))

theorem walkVarDefsB_built (op : OperationDef) (hop : op ∈ d.ops) :
    ∀ (vs : List VarDef) (ws : WS), (∀ v ∈ vs, v ∈ op.vars) →
      Built sv d ws.links.vlinks (walkVarDefsB sv (some op) vs ws).2 (walkVarDefsB sv (some op) vs ws).1.links.vlinks
  | [], ws, _ => by simp only [walkVarDefsB]; exact Built.nil _
  | v :: rest, ws, hsub => by
    have hc : CurOK d (some op) := fun o ho => by injection ho with ho; subst ho; exact hop
    have hv := hsub v List.mem_cons_self
    simp only [walkVarDefsB]
    cases hdv : v.default with
    | none =>
      simp only
      have h2 := walkDirectives_built (sv := sv) (some op) hc (sv.type? v.type.name) v.dirs locVariableDefinition ws
        (Or.inl ⟨op, hop, Or.inr (Or.inr ⟨v, hv, rfl⟩)⟩)
      have h3 := walkVarDefsB_built op hop rest
        (walkDirectives sv (some op) (sv.type? v.type.name) v.dirs locVariableDefinition ws).1
        (fun x hx => hsub x (List.mem_cons_of_mem _ hx))
      exact Built.append (Built.append (Built.nil _) h2) h3
    | some dv =>
      simp only
      have h1 := Built.default (sv := sv) op v dv ws hop hv hdv
      have h2 := walkDirectives_built (sv := sv) (some op) hc (sv.type? v.type.name) v.dirs locVariableDefinition
        (walkValue sv (some op) (some v.type) (sv.type? v.type.name) dv ws).1
        (Or.inl ⟨op, hop, Or.inr (Or.inr ⟨v, hv, rfl⟩)⟩)
      have h3 := walkVarDefsB_built op hop rest
        (walkDirectives sv (some op) (sv.type? v.type.name) v.dirs locVariableDefinition
          (walkValue sv (some op) (some v.type) (sv.type? v.type.name) dv ws).1).1
        (fun x hx => hsub x (List.mem_cons_of_mem _ hx))
      exact Built.append (Built.append h1 h2) h3

theorem walkOperation_built (fuel : Nat) (op : OperationDef) (hop : op ∈ d.ops) (l : Links)
    (r : Links × List Event) (h : walkOperation sv d fuel op l = some r) : Built sv d l.vlinks r.2 r.1.vlinks := by
  have hc : CurOK d (some op) := fun o ho => by injection ho with ho; subst ho; exact hop
  unfold walkOperation at h
  simp only at h
  split at h
  · cases h
  · rename_i r4 h4
    injection h with h
    subst h
    have hA := walkVarDefsA_built (sv := sv) (d := d) op hop { visited := [], links := l, used := [] } op.vars (fun _ h => h)
    have hB := walkVarDefsB_built (sv := sv) op hop op.vars { visited := [], links := l, used := [] } (fun _ h => h)
    have hD := walkDirectives_built (sv := sv) (some op) hc (opRoot sv op.op).1 op.dirs (opRoot sv op.op).2
      (walkVarDefsB sv (some op) op.vars { visited := [], links := l, used := [] }).1
      (Or.inl ⟨op, hop, Or.inr (Or.inl rfl)⟩)
    have hb := walkLevel_built (sv := sv) (some op) hc fuel _ _ _ r4 (fun p' y hi => Or.inl ⟨op, hop, hi⟩) h4
    refine Built.snoc (Built.append (Built.append (Built.append hA hB) hD) hb) _ ?_ rfl
    exact trivial

theorem walkFragment_built (fuel : Nat) (f : FragmentDef) (hf : f ∈ d.frags) (l : Links)
    (r : Links × List Event) (h : walkFragment sv d fuel f l = some r) : Built sv d l.vlinks r.2 r.1.vlinks := by
  have hc : CurOK d none := fun o ho => by cases ho
  unfold walkFragment at h
  simp only at h
  split at h
  · cases h
  · rename_i r2 h2
    injection h with h
    subst h
    have hD := walkDirectives_built (sv := sv) none hc (sv.type? f.typeCond) f.dirs locFragmentDefinition
      { visited := [], links := l, used := [] } (Or.inr ⟨f, hf, Or.inr rfl⟩)
    have hb := walkLevel_built (sv := sv) none hc fuel _ _ _ r2 (fun p' y hi => Or.inr ⟨f, hf, hi⟩) h2
    refine Built.snoc (Built.append hD hb) _ ?_ rfl
    exact trivial

theorem walkOps_built (fuel : Nat) :
    ∀ (ops : List OperationDef), (∀ op ∈ ops, op ∈ d.ops) → ∀ (l : Links) (r : Links × List Event),
      walkOps sv d fuel ops l = some r → Built sv d l.vlinks r.2 r.1.vlinks
  | [], _, l, r, h => by
    simp only [walkOps] at h
    injection h with h
    subst h
    exact Built.nil _
  | op :: rest, hsub, l, r, h => by
    unfold walkOps at h
    split at h
    · cases h
    · rename_i r1 h1
      split at h
      · cases h
      · rename_i r2 h2
        injection h with h
        subst h
        exact Built.append (walkOperation_built fuel op (hsub op List.mem_cons_self) l r1 h1)
          (walkOps_built fuel rest (fun x hx => hsub x (List.mem_cons_of_mem _ hx)) r1.1 r2 h2)

theorem walkFrags_built (fuel : Nat) :
    ∀ (fs : List FragmentDef), (∀ f ∈ fs, f ∈ d.frags) → ∀ (l : Links) (r : Links × List Event),
      walkFrags sv d fuel fs l = some r → Built sv d l.vlinks r.2 r.1.vlinks
  | [], _, l, r, h => by
    simp only [walkFrags] at h
    injection h with h
    subst h
    exact Built.nil _
  | f :: rest, hsub, l, r, h => by
    unfold walkFrags at h
    split at h
    · cases h
    · rename_i r1 h1
      split at h
      · cases h
      · rename_i r2 h2
        injection h with h
        subst h
        exact Built.append (walkFragment_built fuel f (hsub f List.mem_cons_self) l r1 h1)
          (walkFrags_built fuel rest (fun x hx => hsub x (List.mem_cons_of_mem _ hx)) r1.1 r2 h2)

end

/-- a whole run is built from argument-list walks, default-value walks and single non-value events -/
theorem walkDoc_built (sv : SV) (d : QueryDoc) (evs : List Event) (h : walkDoc sv d = some evs) :
    ∃ l, Built sv d [] evs l := by
  unfold walkDoc at h
  split at h
  · cases h
  · rename_i r1 h1
    split at h
    · cases h
    · rename_i r2 h2
      injection h with h
      subst h
      exact ⟨_, Built.append (walkOps_built _ d.ops (fun _ h => h) _ r1 h1)
        (walkFrags_built _ d.frags (fun _ h => h) _ r2 h2)⟩

end Gql.Validate
