import GqlProofs.ValSpec.Present
/-
  C09, "contents of custom-scalar literals excepted": for a document that satisfies
  ValuesOfCorrectType (`Spec.valuesOfCorrectType`) a value node whose expected type / definition
  the specification does NOT demand lies inside a list or object literal written where the
  definition in scope takes any literal (`Spec.structuredAtNamed`: a custom scalar) — or where that
  definition does not exist, which `specValOcc_present` excludes on a closed schema.
-/
namespace Gql.Validate
open Gql

/-- a typed occurrence whose definition (if it exists) accepts structured literals of any content -/
def CustomLit (r : ValOcc) : Prop :=
  r.typed = true ∧ ∀ dd, r.dfn = some dd → Spec.structuredAtNamed dd = true

mutual
  theorem valueOk_untyped (s : Schema) :
      ∀ (v : Value) (t : GType), Spec.valueOk s t v = true →
        ∀ o ∈ valOccs s true (some t) (s.type? t.name) v, o.typed = false →
          ∃ r ∈ valOccs s true (some t) (s.type? t.name) v, CustomLit r ∧ o ∈ valOccs s r.typed r.exp r.dfn r.v
    | .mk k raw ch p, t, hok, o, ho, hot => by
      -- the literal itself as the enclosing custom literal
      have top : (∀ dd, s.type? t.name = some dd → Spec.structuredAtNamed dd = true) →
          ∃ r ∈ valOccs s true (some t) (s.type? t.name) (.mk k raw ch p), CustomLit r ∧
            o ∈ valOccs s r.typed r.exp r.dfn r.v :=
        fun h => ⟨⟨.mk k raw ch p, true, some t, s.type? t.name⟩, by simp only [valOccs]; exact List.mem_cons_self,
          ⟨rfl, h⟩, ho⟩
      have ho' := ho
      simp only [valOccs, List.mem_cons] at ho'
      rcases ho' with rfl | ho'
      · cases hot
      · cases k with
        | list =>
          cases t with
          | named n nn q =>
            apply top
            intro dd hdd
            simp only [Spec.valueOk] at hok
            have hdd' : s.type? n = some dd := hdd
            rw [hdd'] at hok
            exact hok
          | list e nn q =>
            simp only [Spec.valueOk] at hok
            simp only at ho'
            obtain ⟨r, hr, hc, hin⟩ := itemsOk_untyped s ch e (s.type? (GType.list e nn q).name) rfl hok o ho' hot
            exact ⟨r, by simp only [valOccs, List.mem_cons]; exact Or.inr hr, hc, hin⟩
        | object =>
          simp only [Spec.valueOk] at hok
          simp only at ho'
          cases hd : s.type? t.name with
          | none =>
            rw [hd] at top
            apply top
            intro dd hdd
            cases hdd
          | some d =>
            rw [hd] at hok ho' top
            simp only at hok
            by_cases hk : (d.kind == .inputObject) = true
            · simp only [hk, if_true, Bool.and_eq_true] at hok
              obtain ⟨r, hr, hc, hin⟩ := fieldsOk_untyped s ch d hk hok.1.1 o ho' hot
              exact ⟨r, by simp only [valOccs, List.mem_cons]; exact Or.inr hr, hc, hin⟩
            · simp only [hk, if_false, Bool.false_eq_true] at hok
              apply top
              intro dd hdd
              injection hdd with hdd
              subst hdd
              exact hok
        | _ => simp at ho'
  theorem itemsOk_untyped (s : Schema) :
      ∀ (ch : Children) (e : GType) (dfn : Option Definition), dfn = s.type? e.name → Spec.itemsOk s e ch = true →
        ∀ o ∈ itemOccs s true (some e) dfn ch, o.typed = false →
          ∃ r ∈ itemOccs s true (some e) dfn ch, CustomLit r ∧ o ∈ valOccs s r.typed r.exp r.dfn r.v
    | .nil, _, _, _, _, o, ho, _ => by simp [itemOccs] at ho
    | .cons n v p rest, e, dfn, hdfn, hok, o, ho, hot => by
      simp only [Spec.itemsOk, Bool.and_eq_true] at hok
      simp only [itemOccs, List.mem_append] at ho
      rcases ho with ho | ho
      · subst hdfn
        obtain ⟨r, hr, hc, hin⟩ := valueOk_untyped s v e hok.1 o ho hot
        exact ⟨r, by simp only [itemOccs, List.mem_append]; exact Or.inl hr, hc, hin⟩
      · obtain ⟨r, hr, hc, hin⟩ := itemsOk_untyped s rest e dfn hdfn hok.2 o ho hot
        exact ⟨r, by simp only [itemOccs, List.mem_append]; exact Or.inr hr, hc, hin⟩
  theorem fieldsOk_untyped (s : Schema) :
      ∀ (ch : Children) (d : Definition), (d.kind == .inputObject) = true → Spec.fieldsOk s d ch = true →
        ∀ o ∈ fieldOccs s (some d) ch, o.typed = false →
          ∃ r ∈ fieldOccs s (some d) ch, CustomLit r ∧ o ∈ valOccs s r.typed r.exp r.dfn r.v
    | .nil, _, _, _, o, ho, _ => by simp [fieldOccs] at ho
    | .cons n v p rest, d, hk, hok, o, ho, hot => by
      simp only [Spec.fieldsOk, Bool.and_eq_true] at hok
      simp only [fieldOccs, List.mem_append, Option.bind_some, hk, if_true] at ho
      rcases ho with ho | ho
      · cases hfd : Spec.inputFieldByName d n with
        | none => rw [hfd] at hok; exact absurd hok.1 (by simp)
        | some fd =>
          rw [hfd] at hok ho
          obtain ⟨r, hr, hc, hin⟩ := valueOk_untyped s v fd.type hok.1 o ho hot
          exact ⟨r, by simp only [fieldOccs, List.mem_append, Option.bind_some, hk, if_true, hfd]; exact Or.inl hr, hc, hin⟩
      · obtain ⟨r, hr, hc, hin⟩ := fieldsOk_untyped s rest d hk hok.2 o ho hot
        exact ⟨r, by simp only [fieldOccs, List.mem_append]; exact Or.inr hr, hc, hin⟩
end

/-- for a document that satisfies KnownArgumentNames (every argument has a definition: `SiteOK`)
    and ValuesOfCorrectType, a value node of which the specification demands no expected type lies
    inside a structured literal at a custom scalar -/
theorem untyped_only_in_custom (s : Schema) (d : QueryDoc) (hsites : ∀ site ∈ Spec.argSites s d, SiteOK s site)
    (hValuesOfCorrectType : Spec.valuesOfCorrectType s d = true) :
    ∀ o, SpecValOcc s d o → o.typed = false →
      ∃ r, SpecValOcc s d r ∧ CustomLit r ∧ o ∈ valOccs s r.typed r.exp r.dfn r.v := by
  unfold Spec.valuesOfCorrectType Spec.typedValueSites at hValuesOfCorrectType
  simp only [List.all_eq_true, List.mem_append, List.mem_flatMap, List.mem_filterMap] at hValuesOfCorrectType
  intro o ho hot
  rcases ho with ⟨site, hsite, ho⟩ | ⟨op, hop, vd, hvd, dv, hdv, ho⟩
  · obtain ⟨defs, hd, hall⟩ := hsites site hsite
    simp only [argOccs, List.mem_flatMap] at ho
    obtain ⟨a, ha, ho⟩ := ho
    obtain ⟨ad, had, _⟩ := hall a ha
    have hok : Spec.valueOk s ad.type a.value = true :=
      hValuesOfCorrectType (ad.type, a.value) (Or.inl ⟨site, hsite, by
        rw [hd]
        simp only [List.mem_filterMap]
        exact ⟨a, ha, by rw [had]; rfl⟩⟩)
    rw [hd] at ho
    simp only [Option.bind_some, had] at ho
    obtain ⟨r, hr, hc, hin⟩ := valueOk_untyped s a.value ad.type hok o ho hot
    refine ⟨r, Or.inl ⟨site, hsite, ?_⟩, hc, hin⟩
    simp only [argOccs, List.mem_flatMap]
    exact ⟨a, ha, by rw [hd]; simp only [Option.bind_some, had]; exact hr⟩
  · have hok : Spec.valueOk s vd.type dv = true :=
      hValuesOfCorrectType (vd.type, dv) (Or.inr ⟨op, hop, vd, hvd, by rw [hdv]; rfl⟩)
    obtain ⟨r, hr, hc, hin⟩ := valueOk_untyped s dv vd.type hok o ho hot
    exact ⟨r, Or.inr ⟨op, hop, vd, hvd, dv, hdv, hr⟩, hc, hin⟩

end Gql.Validate
