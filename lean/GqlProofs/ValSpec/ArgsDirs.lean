import GqlProofs.ValSpec.EventSets
/-
  UniqueArgumentNames, UniqueDirectivesPerLocation and KnownDirectives against their
  specification predicates.
-/
namespace Gql.Validate
open Gql Gql.Validate.Rules

theorem checkUniqueArgs_distinct (as : List Argument) :
    checkUniqueArgs as [] = [] ↔ Spec.distinct (as.map (·.name)) = true := by
  rw [checkUniqueArgs_nil_iff as [] List.nodup_nil, freshFrom_nil, distinct_iff_nodup]

theorem uniqueArgumentNames_iff (s : Schema) (d : QueryDoc) (evs : List Event) (hw : walkDoc s.view d = some evs)
    (hk : ∀ op ∈ d.ops, op.op ∈ parserOpKinds) :
    (∀ e ∈ evs, uniqueArgumentNamesStep s.view d e = []) ↔ Spec.argumentUniqueness s d = true := by
  unfold Spec.argumentUniqueness Spec.argSites
  simp only [List.all_append, Bool.and_eq_true, List.all_eq_true]
  constructor
  · intro h
    constructor
    · intro site hsite
      simp only [Spec.fieldArgSites, List.mem_filterMap] at hsite
      obtain ⟨t, ht, hm⟩ := hsite
      cases hsel : t.sel with
      | field al nm args dirs sub p =>
        rw [hsel] at hm
        simp only [Option.some.injEq] at hm
        subst hm
        obtain ⟨e, he, par, dfn, hp⟩ := field_event_complete s d evs hw t ht al nm args dirs sub p hsel
        have := h e he
        simp only [uniqueArgumentNamesStep, hp] at this
        exact (checkUniqueArgs_distinct args).1 this
      | spread nm dirs p => rw [hsel] at hm; cases hm
      | inline tc dirs sub p => rw [hsel] at hm; cases hm
    · intro site hsite
      simp only [Spec.directiveArgSites, Spec.allDirectives, List.mem_map, List.mem_flatMap] at hsite
      obtain ⟨dir, ⟨⟨loc, ds⟩, hls, hd⟩, rfl⟩ := hsite
      obtain ⟨e, he, par, hp⟩ := directive_event_complete s d evs hw hk loc ds hls dir hd
      have := h e he
      simp only [uniqueArgumentNamesStep, hp] at this
      exact (checkUniqueArgs_distinct dir.args).1 this
  · rintro ⟨h1, h2⟩ e he
    unfold uniqueArgumentNamesStep
    split
    · rename_i f par dfn hp
      obtain ⟨p, hmem⟩ := field_event_sound s d evs hw e he f par dfn hp
      apply (checkUniqueArgs_distinct f.args).2
      apply h1 ⟨(p.bind (Spec.fieldDefOn · f.name)).map (·.args), f.args⟩
      simp only [Spec.fieldArgSites, List.mem_filterMap]
      exact ⟨_, hmem, rfl⟩
    · rename_i dir dfn par loc hp
      obtain ⟨_, ds, hls, hd⟩ := directive_event_sound s d evs hw hk e he dir dfn par loc hp
      apply (checkUniqueArgs_distinct dir.args).2
      apply h2 ⟨(s.directive? dir.name).map (·.args), dir.args⟩
      simp only [Spec.directiveArgSites, Spec.allDirectives, List.mem_map, List.mem_flatMap]
      exact ⟨dir, ⟨(loc, ds), hls, hd⟩, rfl⟩
    · rfl

/- ---------- UniqueDirectivesPerLocation ---------- -/

def dupFree (q : Name → Bool) : List Directive → List Name → Prop
  | [], _ => True
  | x :: rest, seen => (q x.name = true → x.name ∉ seen) ∧ dupFree q rest (x.name :: seen)

theorem dupFree_iff (q : Name → Bool) : ∀ (ds : List Directive) (seen : List Name),
    dupFree q ds seen ↔
      (((ds.map (·.name)).filter q).Nodup ∧ ∀ n ∈ (ds.map (·.name)).filter q, n ∉ seen)
  | [], seen => by simp [dupFree]
  | x :: rest, seen => by
    simp only [dupFree, dupFree_iff q rest (x.name :: seen), List.map_cons]
    by_cases hq : q x.name = true
    · rw [List.filter_cons_of_pos hq]
      constructor
      · rintro ⟨h0, h1, h2⟩
        refine ⟨List.nodup_cons.2 ⟨fun hm => h2 _ hm List.mem_cons_self, h1⟩, fun n hn hs => ?_⟩
        rcases List.mem_cons.1 hn with rfl | hn
        · exact h0 hq hs
        · exact h2 n hn (List.mem_cons_of_mem _ hs)
      · rintro ⟨h1, h2⟩
        have ⟨ha, hb⟩ := List.nodup_cons.1 h1
        refine ⟨fun _ => h2 _ List.mem_cons_self, hb, fun n hn hm => ?_⟩
        rcases List.mem_cons.1 hm with rfl | hm
        · exact ha hn
        · exact h2 n (List.mem_cons_of_mem _ hn) hm
    · rw [List.filter_cons_of_neg hq]
      constructor
      · rintro ⟨_, h1, h2⟩
        exact ⟨h1, fun n hn hs => (h2 n hn) (List.mem_cons_of_mem _ hs)⟩
      · rintro ⟨h1, h2⟩
        refine ⟨fun hc => absurd hc hq, h1, fun n hn hm => ?_⟩
        rcases List.mem_cons.1 hm with hne | hm
        · have := (List.mem_filter.1 hn).2
          rw [hne] at this
          exact hq this
        · exact h2 n hn hm

theorem filter_map_name (P : Directive → Bool) (q : Name → Bool) :
    ∀ ds : List Directive, (∀ dir ∈ ds, P dir = q dir.name) →
      (ds.filter P).map (·.name) = (ds.map (·.name)).filter q
  | [], _ => rfl
  | x :: rest, h => by
    have hx := h x List.mem_cons_self
    have ih := filter_map_name P q rest (fun dir hd => h dir (List.mem_cons_of_mem _ hd))
    simp only [List.map_cons, List.filter_cons, hx]
    cases q x.name <;> simp [ih]

/-- the rule's selector: not known to be repeatable -/
def notRepeatable (sv : SV) (n : Name) : Bool := !((sv.directive? n).map (·.repeatable)).getD false

theorem dupDirectives_nil_iff (sv : SV) : ∀ (ds : List Directive) (seen : List Name),
    dupDirectives sv ds seen = [] ↔ dupFree (notRepeatable sv) ds seen
  | [], seen => by simp [dupDirectives, dupFree]
  | x :: rest, seen => by
    simp only [dupDirectives, dupFree, List.append_eq_nil_iff, dupDirectives_nil_iff sv rest (x.name :: seen)]
    apply and_congr_left'
    unfold notRepeatable
    by_cases hq : (!((sv.directive? x.name).map (·.repeatable)).getD false) = true
    · by_cases hm : x.name ∈ seen
      · simp [hq, hm]
      · simp [hq, hm]
    · simp [hq]

theorem uniqueDirectivesPerLocation_iff (s : Schema) (d : QueryDoc) (evs : List Event)
    (hw : walkDoc s.view d = some evs) (hk : ∀ op ∈ d.ops, op.op ∈ parserOpKinds)
    (hdef : Spec.directivesAreDefined s d = true) :
    (∀ e ∈ evs, uniqueDirectivesPerLocationStep s.view d e = []) ↔ Spec.directivesUniquePerLocation s d = true := by
  unfold Spec.directivesUniquePerLocation
  simp only [List.all_eq_true]
  -- on a directive list of the document every directive is defined, so both selectors agree
  have hsel : ∀ loc ds, (loc, ds) ∈ Spec.directiveSites s d →
      (ds.filter (Spec.definedNotRepeatable s)).map (·.name) = (ds.map (·.name)).filter (notRepeatable s.view) := by
    intro loc ds hls
    apply filter_map_name
    intro dir hd
    have hsome : (s.directive? dir.name).isSome = true := by
      unfold Spec.directivesAreDefined at hdef
      simp only [List.all_eq_true] at hdef
      apply hdef
      simp only [Spec.allDirectives, List.mem_flatMap]
      exact ⟨(loc, ds), hls, hd⟩
    obtain ⟨dd, hdd⟩ := Option.isSome_iff_exists.1 hsome
    have hview : s.view.directive? dir.name = some dd := hdd
    simp [Spec.definedNotRepeatable, notRepeatable, hdd, hview]
  constructor
  · intro h site hsite
    obtain ⟨loc, ds⟩ := site
    obtain ⟨e, he, hp⟩ := directiveList_event_complete s d evs hw hk loc ds hsite
    have := h e he
    simp only [uniqueDirectivesPerLocationStep, hp] at this
    rw [dupDirectives_nil_iff, dupFree_iff] at this
    simp only
    rw [distinct_iff_nodup, hsel loc ds hsite]
    exact this.1
  · intro h e he
    unfold uniqueDirectivesPerLocationStep
    split
    · rename_i ds hp
      obtain ⟨loc, hls⟩ := directiveList_event_sound s d evs hw hk e he ds hp
      rw [dupDirectives_nil_iff, dupFree_iff]
      have := h (loc, ds) hls
      simp only at this
      rw [distinct_iff_nodup, hsel loc ds hls] at this
      exact ⟨this, fun _ _ hm => by cases hm⟩
    · rfl

theorem filter_map_sublist (P : Directive → Bool) (q : Name → Bool) (hPq : ∀ dir, P dir = true → q dir.name = true) :
    ∀ ds : List Directive, List.Sublist ((ds.filter P).map (·.name)) ((ds.map (·.name)).filter q)
  | [] => List.Sublist.slnil
  | x :: rest => by
    have ih := filter_map_sublist P q hPq rest
    by_cases hp : P x = true
    · have hq := hPq x hp
      rw [List.filter_cons_of_pos hp, List.map_cons, List.map_cons, List.filter_cons_of_pos hq]
      exact List.Sublist.cons_cons _ ih
    · rw [List.filter_cons_of_neg hp, List.map_cons]
      by_cases hq : q x.name = true
      · rw [List.filter_cons_of_pos hq]
        exact List.Sublist.cons _ ih
      · rw [List.filter_cons_of_neg hq]
        exact ih

/-- without any hypothesis on the directives: a silent rule implies the specification predicate
    (the rule also counts undefined directives) -/
theorem uniqueDirectivesPerLocation_complete (s : Schema) (d : QueryDoc) (evs : List Event)
    (hw : walkDoc s.view d = some evs) (hk : ∀ op ∈ d.ops, op.op ∈ parserOpKinds)
    (h : ∀ e ∈ evs, uniqueDirectivesPerLocationStep s.view d e = []) :
    Spec.directivesUniquePerLocation s d = true := by
  unfold Spec.directivesUniquePerLocation
  simp only [List.all_eq_true]
  rintro ⟨loc, ds⟩ hsite
  obtain ⟨e, he, hp⟩ := directiveList_event_complete s d evs hw hk loc ds hsite
  have := h e he
  simp only [uniqueDirectivesPerLocationStep, hp] at this
  rw [dupDirectives_nil_iff, dupFree_iff] at this
  simp only
  rw [distinct_iff_nodup]
  refine List.Nodup.sublist (filter_map_sublist _ (notRepeatable s.view) ?_ ds) this.1
  intro dir hdir
  unfold Spec.definedNotRepeatable at hdir
  cases hdd : s.directive? dir.name with
  | none => rw [hdd] at hdir; cases hdir
  | some dd =>
    rw [hdd] at hdir
    have hview : s.view.directive? dir.name = some dd := hdd
    simp only [notRepeatable, hview, Option.map_some, Option.getD_some]
    exact hdir

end Gql.Validate
