import GqlProofs.ValSpec.LeafFrag
import GqlProofs.Schema.Basic
import GqlModel.Schema.Spec
/-
  PossibleFragmentSpreads (§5.5.2.3) against `Spec.fragmentSpreadIsPossible`.

  The rule reads the LOADED relation `Schema.PossibleTypes` (`s.possible name`), the specification
  computes `GetPossibleTypes` from the definitions (`Spec.possibleTypes s t`).  `possibleOK s` is the
  (decidable) statement that the two agree on every composite type of the schema; it follows from
  `Gql.Spec.RelationsExact s` and `Gql.Spec.KeysConsistent s`, which every loaded schema satisfies
  (`C07_relations_exact`, `C07_closed_keys`).
-/
namespace Gql.Validate
open Gql Gql.Validate.Rules

/-- the loaded possible-type relation, read at the NAME of a composite type definition stored in the
    schema, has the members the specification's `GetPossibleTypes` computes from the definitions -/
def possibleOK (s : Schema) : Bool :=
  s.types.all fun p =>
    !Spec.isComposite p.2 || Gql.Spec.sameSet (s.possible p.2.name) (Spec.possibleTypes s p.2)

theorem sameSet_iff (a b : List Name) : Gql.Spec.sameSet a b = true ↔ ∀ x, x ∈ a ↔ x ∈ b := by
  unfold Gql.Spec.sameSet
  simp only [Bool.and_eq_true, List.all_eq_true, List.contains_iff_mem]
  constructor
  · rintro ⟨h1, h2⟩ x
    exact ⟨h1 x, h2 x⟩
  · intro h
    exact ⟨fun x hx => (h x).1 hx, fun x hx => (h x).2 hx⟩

theorem any_contains_congr {a a' b b' : List Name} (ha : ∀ x, x ∈ a ↔ x ∈ a') (hb : ∀ x, x ∈ b ↔ x ∈ b') :
    (a.any fun n => b.contains n) = (a'.any fun n => b'.contains n) := by
  rw [Bool.eq_iff_iff]
  simp only [List.any_eq_true, List.contains_iff_mem]
  constructor
  · rintro ⟨x, h1, h2⟩
    exact ⟨x, (ha x).1 h1, (hb x).1 h2⟩
  · rintro ⟨x, h1, h2⟩
    exact ⟨x, (ha x).2 h1, (hb x).2 h2⟩

theorem possibleOK_mem (s : Schema) (hok : possibleOK s = true) (n : Name) (t : Definition)
    (ht : s.type? n = some t) (hc : Spec.isComposite t = true) :
    ∀ x, x ∈ s.possible t.name ↔ x ∈ Spec.possibleTypes s t := by
  unfold possibleOK at hok
  simp only [List.all_eq_true] at hok
  have := hok (n, t) (Gql.Load.mem_of_lookup ht)
  simp only [hc, Bool.not_true, Bool.false_or] at this
  exact (sameSet_iff _ _).1 this

/-- the rule's closure in the specification's terms, for a parent definition stored in the schema -/
theorem spreadImpossible_spec (s : Schema) (hok : possibleOK s = true) (pd : Definition) (n : Name)
    (hpd : s.type? n = some pd) (tc : Name) :
    spreadImpossible s.view (some pd) tc =
      (match s.type? tc with
       | some ft => !Spec.spreadPossible s pd ft
       | none => false) := by
  have hview : s.view.type? tc = s.type? tc := rfl
  have hposs : ∀ m, s.view.possible m = s.possible m := fun _ => rfl
  unfold spreadImpossible
  simp only [hview, hposs]
  cases hft : s.type? tc with
  | none =>
    simp only
    split <;> rfl
  | some ft =>
    simp only
    unfold Spec.spreadPossible
    rw [isCompositeType_eq]
    by_cases hcf : Spec.isComposite ft = true
    · have hF := possibleOK_mem s hok tc ft hft hcf
      by_cases hobj : (pd.kind == .object) = true
      · have hcp : Spec.isComposite pd = true := by
          unfold Spec.isComposite
          simp [hobj]
        have hpp : Spec.possibleTypes s pd = [pd.name] := by
          unfold Spec.possibleTypes
          rw [beq_iff_eq] at hobj
          rw [hobj]
        simp only [hobj, if_true, hcf, hcp, Bool.not_true, Bool.false_eq_true, if_false, Bool.and_self, hpp]
        rw [any_contains_congr hF (fun _ => Iff.rfl)]
      · by_cases hiu : (pd.kind == .interface || pd.kind == .union) = true
        · have hcp : Spec.isComposite pd = true := by
            unfold Spec.isComposite
            simp only [Bool.or_eq_true] at hiu ⊢
            rcases hiu with h | h
            · exact Or.inl (Or.inr h)
            · exact Or.inr h
          have hP := possibleOK_mem s hok n pd hpd hcp
          simp only [hobj, hiu, if_true, if_false, Bool.false_eq_true, hcf, hcp, Bool.not_true, Bool.and_self]
          rw [any_contains_congr hF hP]
        · have hcp : Spec.isComposite pd = false := by
            unfold Spec.isComposite
            simp only [Bool.or_eq_true, not_or] at hiu
            simp only [Bool.not_eq_true] at hobj hiu
            simp [hobj, hiu.1, hiu.2]
          simp [hobj, hiu, hcp]
    · simp only [Bool.not_eq_true] at hcf
      simp only [hcf, Bool.not_false, if_true, Bool.and_false, Bool.false_eq_true, if_false, Bool.not_true]
      split <;> rfl

/- ---------- every determined parent of `Spec.docSels` is a definition stored in the schema ---------- -/

/-- the parent is undetermined or a stored definition -/
def FromS (s : Schema) (p : Option Definition) : Prop := ∀ q, p = some q → ∃ n, s.type? n = some q

theorem fromS_type (s : Schema) (n : Name) : FromS s (s.type? n) := fun _ h => ⟨n, h⟩

theorem fromS_fieldType (s : Schema) (p : Option Definition) (nm : Name) : FromS s (Spec.fieldType s p nm) := by
  intro q h
  unfold Spec.fieldType at h
  cases hfd : p.bind (Spec.fieldDefOn · nm) with
  | none => rw [hfd] at h; cases h
  | some fd =>
    rw [hfd] at h
    exact ⟨_, h⟩

theorem fromS_inlineType (s : Schema) (p : Option Definition) (tc : Name) (hp : FromS s p) :
    FromS s (Spec.inlineType s p tc) := by
  unfold Spec.inlineType
  split
  · exact hp
  · exact fromS_type s tc

theorem fromS_rootDef (s : Schema) (op : Operation) : FromS s (Spec.rootDef s op) := by
  intro q h
  unfold Spec.rootDef at h
  cases hr : Spec.rootName s op with
  | none => rw [hr] at h; cases h
  | some r =>
    rw [hr] at h
    exact ⟨_, h⟩

mutual
  theorem typedSel_fromS (s : Schema) :
      ∀ (x : Selection) (p : Option Definition), FromS s p → ∀ t ∈ Spec.typedSel s p x, FromS s t.parent
    | .field al nm args dirs sub pos, p, hp, t, ht => by
      simp only [Spec.typedSel, List.mem_cons] at ht
      rcases ht with rfl | ht
      · exact hp
      · exact typedSels_fromS s sub _ (fromS_fieldType s p nm) t ht
    | .spread nm dirs pos, p, hp, t, ht => by
      simp only [Spec.typedSel, List.mem_singleton] at ht
      subst ht
      exact hp
    | .inline tc dirs sub pos, p, hp, t, ht => by
      simp only [Spec.typedSel, List.mem_cons] at ht
      rcases ht with rfl | ht
      · exact hp
      · exact typedSels_fromS s sub _ (fromS_inlineType s p tc hp) t ht
  theorem typedSels_fromS (s : Schema) :
      ∀ (xs : Selections) (p : Option Definition), FromS s p → ∀ t ∈ Spec.typedSels s p xs, FromS s t.parent
    | .nil, p, hp, t, ht => by
      simp only [Spec.typedSels, List.not_mem_nil] at ht
    | .cons x rest, p, hp, t, ht => by
      simp only [Spec.typedSels, List.mem_append] at ht
      rcases ht with ht | ht
      · exact typedSel_fromS s x p hp t ht
      · exact typedSels_fromS s rest p hp t ht
end

theorem docSels_fromS (s : Schema) (d : QueryDoc) (t : Spec.TSel) (ht : t ∈ Spec.docSels s d) : FromS s t.parent := by
  unfold Spec.docSels at ht
  simp only [List.mem_append, List.mem_flatMap] at ht
  rcases ht with ⟨op, _, h⟩ | ⟨f, _, h⟩
  · exact typedSels_fromS s op.sel _ (fromS_rootDef s op.op) t h
  · exact typedSels_fromS s f.sel _ (fromS_type s f.typeCond) t h

/- ---------- the equivalence ---------- -/

theorem possibleFragmentSpreads_iff (s : Schema) (d : QueryDoc) (evs : List Event) (hw : walkDoc s.view d = some evs)
    (hwp : Spec.wellParented s d = true) (hE : s.type? [] = none) (hok : possibleOK s = true) :
    (∀ e ∈ evs, possibleFragmentSpreadsStep s.view d e = []) ↔ Spec.fragmentSpreadIsPossible s d = true := by
  unfold Spec.fragmentSpreadIsPossible
  simp only [List.all_eq_true]
  constructor
  · intro h t ht
    obtain ⟨par, sel⟩ := t
    cases par with
    | none => rfl
    | some q =>
      obtain ⟨n, hn⟩ := docSels_fromS s d _ ht q rfl
      have hnode := walkDoc_hasW s.view d evs hw _ _ ((inDocW_iff s d hwp _ _).2 ht)
      cases sel with
      | field al nm args dirs sub p => rfl
      | spread nm dirs p =>
        obtain ⟨e, he, hp⟩ := hnode
        have hs := h e he
        simp only
        rw [fragByName_eq]
        cases hfd : fragForName d nm with
        | none => rfl
        | some fd =>
          rw [hfd] at hp
          simp only [possibleFragmentSpreadsStep, hp, spreadImpossible_spec s hok q n hn] at hs
          simp only [Option.bind_some]
          cases hft : s.type? fd.typeCond with
          | none => rfl
          | some ft =>
            rw [hft] at hs
            simp only
            cases hsp : Spec.spreadPossible s q ft with
            | true => rfl
            | false => simp [hsp] at hs
      | inline tc dirs sub p =>
        obtain ⟨e, he, hp⟩ := hnode
        have hs := h e he
        simp only [possibleFragmentSpreadsStep, hp, spreadImpossible_spec s hok q n hn] at hs
        simp only
        split
        · rfl
        · cases hft : s.type? tc with
          | none => rfl
          | some ft =>
            rw [hft] at hs
            simp only
            cases hsp : Spec.spreadPossible s q ft with
            | true => rfl
            | false => simp [hsp] at hs
  · intro h e he
    have hsound := walkDoc_w s.view d evs hw e he
    unfold possibleFragmentSpreadsStep
    split
    · rename_i f parent hp
      rw [hp] at hsound
      have hmem := (inDocW_iff s d hwp _ _).1 hsound
      cases parent with
      | none => rfl
      | some q =>
        obtain ⟨n, hn⟩ := docSels_fromS s d _ hmem q rfl
        have hs := h _ hmem
        simp only at hs
        rw [spreadImpossible_spec s hok q n hn]
        by_cases hemp : f.typeCond = []
        · rw [hemp, hE]
          rfl
        · have hb : (f.typeCond == []) = false := by simpa using hemp
          simp only [hb, Bool.false_eq_true, if_false] at hs
          cases hft : s.type? f.typeCond with
          | none => rfl
          | some ft =>
            rw [hft] at hs
            simp only at hs
            simp [hs]
    · rename_i f fd parent hp
      rw [hp] at hsound
      have hmem := (inDocW_iff s d hwp _ _).1 hsound
      have hfd := (walkDoc_spreads_sound s.view d evs hw e he f (some fd) parent hp).2
      cases parent with
      | none => rfl
      | some q =>
        obtain ⟨n, hn⟩ := docSels_fromS s d _ hmem q rfl
        have hs := h _ hmem
        simp only at hs
        rw [fragByName_eq, ← hfd] at hs
        simp only [Option.bind_some] at hs
        rw [spreadImpossible_spec s hok q n hn]
        cases hft : s.type? fd.typeCond with
        | none => rfl
        | some ft =>
          rw [hft] at hs
          simp only at hs
          simp [hs]
    · rfl

/- ---------- `possibleOK` from the loader's invariants ---------- -/

theorem nodup_of_pairwiseDistinct_ps : ∀ (l : List Name), Gql.Spec.pairwiseDistinct l = true → l.Nodup
  | [], _ => List.nodup_nil
  | x :: rest, h => by
    simp only [Gql.Spec.pairwiseDistinct, Bool.and_eq_true, Bool.not_eq_true', List.contains_eq_mem,
      decide_eq_false_iff_not] at h
    exact List.nodup_cons.2 ⟨h.1, nodup_of_pairwiseDistinct_ps rest h.2⟩

/-- every loaded schema satisfies `possibleOK` (`C07_relations_exact`, `C07_closed_keys`) -/
theorem possibleOK_of_relationsExact (s : Schema) (hr : Gql.Spec.RelationsExact s) (hk : Gql.Spec.KeysConsistent s) :
    possibleOK s = true := by
  obtain ⟨hname, _, hdist, _⟩ := hk
  have hnd := nodup_of_pairwiseDistinct_ps _ hdist
  have hA := hr.possibleAbstractExact
  have hO := hr.possibleObjectSelf
  unfold Gql.Spec.possibleAbstractExact at hA
  unfold Gql.Spec.possibleObjectSelf at hO
  unfold possibleOK
  simp only [List.all_eq_true] at hA hO ⊢
  rintro ⟨k, t⟩ hmem
  have hkn : t.name = k := hname _ hmem
  have hlook : s.types.lookup k = some t := Gql.Load.lookup_of_mem_nodup hnd hmem
  have hA' := hA _ hmem
  have hO' := hO _ hmem
  simp only [hkn] at hA' hO' ⊢
  unfold Spec.isComposite
  unfold Spec.possibleTypes
  unfold Gql.Spec.impliedPossible at hA'
  rw [hlook] at hA'
  cases hkind : t.kind <;> simp only [hkind] at hA' hO' ⊢ <;> try rfl
  · -- object
    simpa [hkn] using hO'
  · -- interface
    simp only [Bool.or_true, Bool.not_true, Bool.false_or, beq_self_eq_true, Bool.true_or] at hA' ⊢
    rw [sameSet_iff] at hA' ⊢
    intro x
    rw [hA' x]
    simp only [List.mem_map, List.mem_filter, List.mem_filterMap]
    constructor
    · rintro ⟨p, ⟨hp, hc⟩, rfl⟩
      refine ⟨p, hp, ?_⟩
      simp only [hkn, hc, if_true, hname p hp]
    · rintro ⟨p, hp, hc⟩
      simp only [hkn] at hc
      split at hc
      · rename_i hc'
        injection hc with hc
        exact ⟨p, ⟨hp, hc'⟩, by rw [← hname p hp]; exact hc⟩
      · cases hc
  · -- union
    simpa using hA'

end Gql.Validate
