import GqlProofs.ValSpec.Demands
/-
  C09, the capstone over all node kinds: every structured demand of the document
  (`docDemands`, whose rendering is `Spec.expectedLinks`) is MET by the run — there is an event
  about the node of the demand that carries exactly the demanded link (`docDemands_met`).
  For an inline fragment "met" records what the walker does (the enclosing type), which is not what
  `Spec.selLinks` demands: the recorded known finding.
-/
namespace Gql.Validate
open Gql

/-- the run has an event about the node of the demand that carries exactly the demanded link
    (for an inline fragment: the enclosing type — see `C09_inline_fragment_link_is_parent`) -/
def Demand.Met (s : Schema) (d : QueryDoc) (evs : List Event) : Demand → Prop
  | .field f parent => ∃ e ∈ evs, e.p = .field f parent (parent.bind (Spec.fieldDefOn · f.name))
  | .spread f => ∃ e ∈ evs, ∃ par, e.p = .fragmentSpread f (Spec.fragByName d f.name) par
  | .inline f parent => ∃ e ∈ evs, e.p = .inlineFragment f parent
  | .directive dir loc => ∃ e ∈ evs, ∃ par, e.p = .directive dir (s.directive? dir.name) par loc
  | .varDef v => ∃ e ∈ evs, e.p = .variable v (s.type? v.type.name)
  | .fragDef f => ∃ e ∈ evs, e.p = .fragment f (s.type? f.typeCond)
  | .value _ o => ∃ e ∈ evs, ∃ exp dfn, e.p = .value o.v exp dfn ∧ (o.typed = true → exp = o.exp ∧ dfn = o.dfn)

/-- a fragment-definition event carries the definition of the type condition -/
theorem fragment_event_link (s : Schema) (d : QueryDoc) (evs : List Event) (hw : walkDoc s.view d = some evs)
    (e : Event) (he : e ∈ evs) (f : FragmentDef) (dfn : Option Definition) (hp : e.p = .fragment f dfn) :
    dfn = s.type? f.typeCond := by
  have hsites : DocSites s.view d (fun _ => True)
      (fun p => ∀ f' dfn', p = .fragment f' dfn' → dfn' = s.type? f'.typeCond) :=
    { value := fun _ _ _ _ _ h => (nomatch h)
      directive := fun _ _ _ _ _ h => (nomatch h)
      directiveList := fun _ _ _ h => (nomatch h)
      field := fun _ _ _ _ _ h => (nomatch h)
      inline := fun _ _ _ _ h => (nomatch h)
      spread := fun _ _ _ _ _ h => (nomatch h)
      frags := fun _ _ _ _ => trivial
      ops := fun _ _ _ _ => trivial
      varDef := fun _ _ _ h => (nomatch h)
      operation := fun _ _ _ _ _ h => (nomatch h)
      fragment := fun f' _ f'' dfn'' h => (by injection h with h1 h2; subst h1 h2; rfl) }
  exact walkDoc_all hsites evs hw e he f dfn hp

section
variable (s : Schema) (d : QueryDoc) (evs : List Event) (hw : walkDoc s.view d = some evs)
  (hwp : Spec.wellParented s d = true) (hk : ∀ op ∈ d.ops, op.op ∈ parserOpKinds)
include hw hwp hk

theorem specValOcc_met (cands : Name → List String) (o : ValOcc) (ho : SpecValOcc s d o) :
    (Demand.value cands o).Met s d evs := by
  obtain ⟨e, he, _, exp', dfn', hp', hag⟩ := walkDoc_values_completeW s d evs hw o ((wValOcc_iff s d hwp hk o).2 ho)
  exact ⟨e, he, exp', dfn', hp', fun ht => hag.demanded ht⟩

theorem argDemands_met (cands : Name → List String) (site : Spec.ArgSite) (hsite : site ∈ Spec.argSites s d) :
    ∀ dm ∈ argDemands s cands site.defs site.args, dm.Met s d evs := by
  intro dm hdm
  simp only [argDemands, List.mem_map] at hdm
  obtain ⟨o, ho, rfl⟩ := hdm
  exact specValOcc_met s d evs hw hwp hk cands o (Or.inl ⟨site, hsite, ho⟩)

theorem dirDemands_met (cands : Name → List String) (loc : Bytes) (ds : List Directive)
    (hsite : (loc, ds) ∈ Spec.directiveSites s d) : ∀ dm ∈ dirDemands s cands loc ds, dm.Met s d evs := by
  intro dm hdm
  simp only [dirDemands, List.mem_flatMap, List.mem_cons] at hdm
  obtain ⟨dir, hd, rfl | hdm⟩ := hdm
  · exact directive_event_complete s d evs hw hk loc ds hsite dir hd
  · have hs : (⟨(s.directive? dir.name).map (·.args), dir.args⟩ : Spec.ArgSite) ∈ Spec.argSites s d := by
      simp only [Spec.argSites, List.mem_append, Spec.directiveArgSites, Spec.allDirectives, List.mem_map,
        List.mem_flatMap]
      exact Or.inr ⟨dir, ⟨(loc, ds), hsite, hd⟩, rfl⟩
    exact argDemands_met s d evs hw hwp hk cands _ hs dm hdm

theorem nodeDemands_met (cands : Name → List String) (t : Spec.TSel) (ht : t ∈ Spec.docSels s d) :
    ∀ dm ∈ nodeDemands s cands t, dm.Met s d evs := by
  have hdirs : (Spec.selLoc t.sel, Spec.selDirs t.sel) ∈ Spec.directiveSites s d := by
    simp only [Spec.directiveSites, List.mem_append, List.mem_map]
    exact Or.inr ⟨t, ht, rfl⟩
  intro dm hdm
  obtain ⟨par, sel⟩ := t
  cases sel with
  | field al nm args dirs sub p =>
    simp only [nodeDemands, List.mem_cons, List.mem_append] at hdm
    rcases hdm with rfl | hdm | hdm
    · exact walk_parent_type_complete s d evs hw hwp _ ht al nm args dirs sub p rfl
    · have hs : (⟨(par.bind (Spec.fieldDefOn · nm)).map (·.args), args⟩ : Spec.ArgSite) ∈ Spec.argSites s d := by
        simp only [Spec.argSites, List.mem_append, Spec.fieldArgSites, List.mem_filterMap]
        exact Or.inl ⟨_, ht, rfl⟩
      exact argDemands_met s d evs hw hwp hk cands _ hs dm hdm
    · exact dirDemands_met s d evs hw hwp hk cands _ _ hdirs dm hdm
  | spread nm dirs p =>
    simp only [nodeDemands, List.mem_cons] at hdm
    rcases hdm with rfl | hdm
    · obtain ⟨e, he, hp⟩ := walkDoc_hasW s.view d evs hw _ _ ((inDocW_iff s d hwp par _).2 ht)
      exact ⟨e, he, par, hp⟩
    · exact dirDemands_met s d evs hw hwp hk cands _ _ hdirs dm hdm
  | inline tc dirs sub p =>
    simp only [nodeDemands, List.mem_cons] at hdm
    rcases hdm with rfl | hdm
    · exact walkDoc_hasW s.view d evs hw _ _ ((inDocW_iff s d hwp par _).2 ht)
    · exact dirDemands_met s d evs hw hwp hk cands _ _ hdirs dm hdm

theorem defaultDemands_met (cands : Name → List String) (op : OperationDef) (hop : op ∈ d.ops) (v : VarDef)
    (hv : v ∈ op.vars) : ∀ dm ∈ defaultDemands s cands v, dm.Met s d evs := by
  intro dm hdm
  unfold defaultDemands at hdm
  cases hdv : v.default with
  | none => rw [hdv] at hdm; cases hdm
  | some dv =>
    rw [hdv] at hdm
    simp only at hdm
    cases hocc : valOccs s true (some v.type) (s.type? v.type.name) dv with
    | nil => rw [hocc] at hdm; cases hdm
    | cons top rest =>
      rw [hocc] at hdm
      simp only [List.mem_cons, List.mem_map] at hdm
      have hmem : ∀ o ∈ top :: rest, SpecValOcc s d o := fun o ho =>
        Or.inr ⟨op, hop, v, hv, dv, hdv, by rw [hocc]; exact ho⟩
      rcases hdm with rfl | ⟨o, ho, rfl⟩
      · obtain ⟨e, he, exp, dfn, hp, _⟩ := specValOcc_met s d evs hw hwp hk cands top (hmem top List.mem_cons_self)
        exact ⟨e, he, exp, dfn, hp, fun h => by cases h⟩
      · exact specValOcc_met s d evs hw hwp hk cands o (hmem o (List.mem_cons_of_mem _ ho))

theorem opDemands_met (op : OperationDef) (hop : op ∈ d.ops) : ∀ dm ∈ opDemands s d op, dm.Met s d evs := by
  intro dm hdm
  simp only [opDemands, List.mem_append, List.mem_flatMap, List.mem_cons] at hdm
  rcases hdm with (⟨v, hv, rfl | hdm | hdm⟩ | hdm) | ⟨t, ht, hdm⟩
  · obtain ⟨e, he, _, hp⟩ := ((walkDoc_reach s.view d evs hw).1 op hop).varDefs v hv
    exact ⟨e, he, hp⟩
  · exact defaultDemands_met s d evs hw hwp hk _ op hop v hv dm hdm
  · refine dirDemands_met s d evs hw hwp hk _ _ _ ?_ dm hdm
    simp only [Spec.directiveSites, List.mem_append, List.mem_flatMap, List.mem_cons, List.mem_map]
    exact Or.inl (Or.inl ⟨op, hop, Or.inr ⟨v, hv, rfl⟩⟩)
  · refine dirDemands_met s d evs hw hwp hk _ _ _ ?_ dm hdm
    simp only [Spec.directiveSites, List.mem_append, List.mem_flatMap, List.mem_cons, List.mem_map]
    exact Or.inl (Or.inl ⟨op, hop, Or.inl rfl⟩)
  · refine nodeDemands_met s d evs hw hwp hk _ t ?_ dm hdm
    simp only [Spec.docSels, List.mem_append, List.mem_flatMap]
    exact Or.inl ⟨op, hop, ht⟩

theorem fragDemands_met (f : FragmentDef) (hf : f ∈ d.frags) : ∀ dm ∈ fragDemands s d f, dm.Met s d evs := by
  intro dm hdm
  simp only [fragDemands, List.mem_cons, List.mem_append, List.mem_flatMap] at hdm
  rcases hdm with rfl | hdm | ⟨t, ht, hdm⟩
  · have hmem : f ∈ fragDefEvents evs := by
      rw [(walkDoc_events s.view d evs hw).2]
      exact hf
    obtain ⟨e, he, dfn, hp⟩ := mem_fragDefEvents.1 hmem
    have := fragment_event_link s d evs hw e he f dfn hp
    exact ⟨e, he, by rw [hp, this]⟩
  · refine dirDemands_met s d evs hw hwp hk _ _ _ ?_ dm hdm
    simp only [Spec.directiveSites, List.mem_append, List.mem_map]
    exact Or.inl (Or.inr ⟨f, hf, rfl⟩)
  · refine nodeDemands_met s d evs hw hwp hk _ t ?_ dm hdm
    simp only [Spec.docSels, List.mem_append, List.mem_flatMap]
    exact Or.inr ⟨f, hf, ht⟩

/-- every demand of the document is met -/
theorem docDemands_met : ∀ dm ∈ docDemands s d, dm.Met s d evs := by
  intro dm hdm
  simp only [docDemands, List.mem_append, List.mem_flatMap] at hdm
  rcases hdm with ⟨op, hop, hdm⟩ | ⟨f, hf, hdm⟩
  · exact opDemands_met s d evs hw hwp hk op hop dm hdm
  · exact fragDemands_met s d evs hw hwp hk f hf dm hdm

end

end Gql.Validate
