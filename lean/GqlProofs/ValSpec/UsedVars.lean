import GqlProofs.ValSpec.ScopeSound
import GqlProofs.Validate.OpEvents
/-
  The walker's `used` set (the variable definitions that got `Used = true`) in terms of events:
  a name is in `used` after a walk iff it was there before or the walk fired a `value` event for a
  variable of that name which the current operation defines.
-/
namespace Gql.Validate
open Gql

/-- `e` is the event of a use of the variable `x`, which the current operation defines -/
def VarUseEv (cur : Option OperationDef) (x : Name) (e : Event) : Prop :=
  ∃ op, cur = some op ∧ e.cur = cur ∧ (varForName op.vars x).isSome = true ∧
    ∃ ch p exp dfn, e.p = .value (.mk .variable x ch p) exp dfn

def UsedInv (cur : Option OperationDef) (ws : WS) (r : WS × List Event) : Prop :=
  ∀ x, x ∈ r.1.used ↔ (x ∈ ws.used ∨ ∃ e ∈ r.2, VarUseEv cur x e)

theorem UsedInv.refl (cur : Option OperationDef) (ws : WS) : UsedInv cur ws (ws, []) := by
  intro x
  simp

theorem UsedInv.seq {cur : Option OperationDef} {ws : WS} {r1 r2 : WS × List Event}
    (h1 : UsedInv cur ws r1) (h2 : UsedInv cur r1.1 r2) : UsedInv cur ws (r2.1, r1.2 ++ r2.2) := by
  intro x
  rw [h2 x, h1 x]
  simp only [List.mem_append]
  constructor
  · rintro ((h | ⟨e, he, hv⟩) | ⟨e, he, hv⟩)
    · exact Or.inl h
    · exact Or.inr ⟨e, Or.inl he, hv⟩
    · exact Or.inr ⟨e, Or.inr he, hv⟩
  · rintro (h | ⟨e, he | he, hv⟩)
    · exact Or.inl (Or.inl h)
    · exact Or.inl (Or.inr ⟨e, he, hv⟩)
    · exact Or.inr ⟨e, he, hv⟩

/-- appending one event that is not a `value` event -/
theorem UsedInv.post {cur : Option OperationDef} {ws : WS} {r : WS × List Event} (h : UsedInv cur ws r)
    (e : Event) (hne : ∀ v exp dfn, e.p ≠ .value v exp dfn) : UsedInv cur ws (r.1, r.2 ++ [e]) := by
  intro x
  rw [h x]
  simp only [List.mem_append, List.mem_singleton]
  constructor
  · rintro (h | ⟨e', he, hv⟩)
    · exact Or.inl h
    · exact Or.inr ⟨e', Or.inl he, hv⟩
  · rintro (h | ⟨e', he | he, hv⟩)
    · exact Or.inl h
    · exact Or.inr ⟨e', he, hv⟩
    · subst he
      obtain ⟨_, _, _, _, ch, p, exp, dfn, hp⟩ := hv
      exact absurd hp (hne _ _ _)

/-- a change of the start state that keeps `used` -/
theorem UsedInv.start {cur : Option OperationDef} {ws ws' : WS} {r : WS × List Event} (h : UsedInv cur ws' r)
    (hu : ws.used = ws'.used) : UsedInv cur ws r := by
  intro x
  rw [h x, hu]

section values
variable (s : SV) (cur : Option OperationDef)

mutual
  theorem walkValue_used (exp : Option GType) (dfn : Option Definition) :
      ∀ (v : Value) (ws : WS), UsedInv cur ws (walkValue s cur exp dfn v ws)
    | .mk k raw ch p, ws => by
      unfold walkValue
      have hobj : ∀ ws1 : WS, UsedInv cur ws1 (walkObjChildren s cur dfn ch ws1) := walkObjChildren_used dfn ch
      have hlist : ∀ ws1 : WS, UsedInv cur ws1 (walkListChildren s cur exp dfn ch ws1) := walkListChildren_used exp dfn ch
      have hnv : ∀ (k' : ValueKind) (links : Links), k' ≠ .variable → ∀ x, ¬ VarUseEv cur x
          { cur := cur, links := links, p := .value (.mk k' raw ch p) exp dfn } := by
        intro k' links hk x ⟨_, _, _, _, ch', p', exp', dfn', hp⟩
        simp only at hp
        injection hp with hp
        injection hp with hp
        exact hk hp
      cases k with
      | «variable» =>
        cases cur with
        | none =>
          simp only
          intro x
          simp only [List.nil_append, List.mem_singleton]
          constructor
          · exact Or.inl
          · rintro (h | ⟨e, _, op, hc, _⟩)
            · exact h
            · cases hc
        | some op =>
          simp only
          intro x
          simp only [List.nil_append, List.mem_singleton]
          constructor
          · intro hx
            by_cases hd : (varForName op.vars raw).isSome = true
            · simp only [hd, if_true, List.mem_cons] at hx
              rcases hx with rfl | hx
              · exact Or.inr ⟨_, rfl, op, rfl, rfl, hd, ch, p, exp, dfn, rfl⟩
              · exact Or.inl hx
            · simp only [hd] at hx
              exact Or.inl hx
          · rintro (hx | ⟨e, rfl, op', hc, _, hd, ch', p', exp', dfn', hp⟩)
            · by_cases hd : (varForName op.vars raw).isSome = true
              · simp only [hd, if_true, List.mem_cons]
                exact Or.inr hx
              · simp only [hd]
                exact hx
            · injection hc with hc
              subst hc
              simp only at hp
              injection hp with hp
              injection hp with _ hraw
              subst hraw
              simp only [hd, if_true, List.mem_cons, true_or]
      | object =>
        simp only
        intro x
        have := hobj ws x
        rw [this]
        simp only [List.mem_append, List.mem_singleton]
        constructor
        · rintro (h | ⟨e, he, hv⟩)
          · exact Or.inl h
          · exact Or.inr ⟨e, Or.inl he, hv⟩
        · rintro (h | ⟨e, he | he, hv⟩)
          · exact Or.inl h
          · exact Or.inr ⟨e, he, hv⟩
          · subst he
            exact absurd hv (hnv .object _ (by decide) x)
      | list =>
        simp only
        intro x
        have := hlist ws x
        rw [this]
        simp only [List.mem_append, List.mem_singleton]
        constructor
        · rintro (h | ⟨e, he, hv⟩)
          · exact Or.inl h
          · exact Or.inr ⟨e, Or.inl he, hv⟩
        · rintro (h | ⟨e, he | he, hv⟩)
          · exact Or.inl h
          · exact Or.inr ⟨e, he, hv⟩
          · subst he
            exact absurd hv (hnv .list _ (by decide) x)
      | int | float | string | block | boolean | null | enum =>
        all_goals
          cases cur <;>
          · simp only
            intro x
            simp only [List.nil_append, List.mem_singleton]
            constructor
            · exact Or.inl
            · rintro (h | ⟨e, rfl, hv⟩)
              · exact h
              · exact absurd hv (hnv _ _ (by decide) x)
  theorem walkObjChildren_used (dfn : Option Definition) :
      ∀ (ch : Children) (ws : WS), UsedInv cur ws (walkObjChildren s cur dfn ch ws)
    | .nil, ws => by
      simp only [walkObjChildren]
      exact UsedInv.refl cur ws
    | .cons name v p rest, ws => by
      unfold walkObjChildren
      exact (walkValue_used _ _ v ws).seq (walkObjChildren_used dfn rest _)
  theorem walkListChildren_used (exp : Option GType) (dfn : Option Definition) :
      ∀ (ch : Children) (ws : WS), UsedInv cur ws (walkListChildren s cur exp dfn ch ws)
    | .nil, ws => by
      simp only [walkListChildren]
      exact UsedInv.refl cur ws
    | .cons name v p rest, ws => by
      unfold walkListChildren
      exact (walkValue_used _ _ v ws).seq (walkListChildren_used exp dfn rest _)
end

theorem walkArgs_used (ad : Option (List ArgDef)) :
    ∀ (as : List Argument) (ws : WS), UsedInv cur ws (walkArgs s cur ad as ws)
  | [], ws => UsedInv.refl cur ws
  | a :: rest, ws => by
    simp only [walkArgs]
    exact (walkValue_used s cur _ _ a.value ws).seq (walkArgs_used ad rest _)

theorem walkDirectiveItems_used (parent : Option Definition) (loc : Bytes) :
    ∀ (ds : List Directive) (ws : WS), UsedInv cur ws (walkDirectiveItems s cur parent loc ds ws)
  | [], ws => UsedInv.refl cur ws
  | dir :: rest, ws => by
    simp only [walkDirectiveItems]
    have h1 := (walkArgs_used s cur ((s.directive? dir.name).map (·.args)) dir.args ws).post
      { cur := cur, links := (walkArgs s cur ((s.directive? dir.name).map (·.args)) dir.args ws).1.links,
        p := .directive dir (s.directive? dir.name) parent loc } (by intro _ _ _ h; cases h)
    have h2 := walkDirectiveItems_used parent loc rest (walkArgs s cur ((s.directive? dir.name).map (·.args)) dir.args ws).1
    have := h1.seq h2
    simpa [List.append_assoc] using this

theorem walkDirectives_used (parent : Option Definition) (ds : List Directive) (loc : Bytes) (ws : WS) :
    UsedInv cur ws (walkDirectives s cur parent ds loc ws) := by
  simp only [walkDirectives]
  exact (walkDirectiveItems_used s cur parent loc ds ws).post _ (by intro _ _ _ h; cases h)

end values

def JumpU (cur : Option OperationDef) (J : Jump) : Prop :=
  ∀ parent sels (ws : WS) r, J parent sels ws = some r → UsedInv cur ws r

section sel
variable (s : SV) (d : QueryDoc) (cur : Option OperationDef)

mutual
  theorem walkSelection_used (J : Jump) (hJ : JumpU cur J) :
      ∀ (x : Selection) (parent : Option Definition) (ws : WS) r,
        walkSelection s d cur J parent x ws = some r → UsedInv cur ws r
    | .field al nm args dirs sub p, parent, ws, r, h => by
      unfold walkSelection at h
      simp only at h
      split at h
      · cases h
      · rename_i r3 h3
        injection h with h
        subst h
        have h1 := (walkArgs_used s cur ((wFieldDef parent nm).map (·.args)) args (ws.markSel p.start)).start (ws := ws) rfl
        have h2 := walkDirectives_used s cur (wNext s parent nm) dirs locField
          (walkArgs s cur ((wFieldDef parent nm).map (·.args)) args (ws.markSel p.start)).1
        have ih := walkSelections_used J hJ sub _ _ r3 h3
        exact ((h1.seq h2).seq ih).post _ (by intro _ _ _ h; cases h)
    | .inline tc dirs sub p, parent, ws, r, h => by
      unfold walkSelection at h
      simp only at h
      split at h
      · cases h
      · rename_i r3 h3
        injection h with h
        subst h
        have h2 := (walkDirectives_used s cur (wInline s parent tc) dirs locInlineFragment (ws.markSel p.start)).start (ws := ws) rfl
        have ih := walkSelections_used J hJ sub _ _ r3 h3
        exact (h2.seq ih).post _ (by intro _ _ _ h; cases h)
    | .spread nm dirs p, parent, ws, r, h => by
      unfold walkSelection at h
      simp only at h
      have h2 := fun par => (walkDirectives_used s cur par dirs locFragmentSpread (ws.markSel p.start)).start (ws := ws) rfl
      cases hf : fragForName d nm with
      | none =>
        rw [hf] at h
        simp only at h
        injection h with h
        subst h
        exact (h2 _).post _ (by intro _ _ _ h; cases h)
      | some f =>
        rw [hf] at h
        simp only at h
        split at h
        · injection h with h
          subst h
          exact (h2 _).post _ (by intro _ _ _ h; cases h)
        · split at h
          · cases h
          · rename_i r3 h3
            injection h with h
            subst h
            have hd := (walkDirectives_used s cur ((some f).bind fun f => s.type? f.typeCond) f.dirs locFragmentDefinition
              { (walkDirectives s cur ((some f).bind fun f => s.type? f.typeCond) dirs locFragmentSpread (ws.markSel p.start)).1 with
                visited := f.name :: (walkDirectives s cur ((some f).bind fun f => s.type? f.typeCond) dirs locFragmentSpread
                  (ws.markSel p.start)).1.visited }).start
              (ws := (walkDirectives s cur ((some f).bind fun f => s.type? f.typeCond) dirs locFragmentSpread (ws.markSel p.start)).1) rfl
            have ih := hJ _ _ _ r3 h3
            exact (((h2 _).seq hd).seq ih).post _ (by intro _ _ _ h; cases h)
  theorem walkSelections_used (J : Jump) (hJ : JumpU cur J) :
      ∀ (xs : Selections) (parent : Option Definition) (ws : WS) r,
        walkSelections s d cur J parent xs ws = some r → UsedInv cur ws r
    | .nil, parent, ws, r, h => by
      simp only [walkSelections] at h
      injection h with h
      subst h
      exact UsedInv.refl cur ws
    | .cons x rest, parent, ws, r, h => by
      unfold walkSelections at h
      split at h
      · cases h
      · rename_i r1 h1
        split at h
        · cases h
        · rename_i r2 h2
          injection h with h
          subst h
          exact (walkSelection_used J hJ x parent ws r1 h1).seq (walkSelections_used J hJ rest parent r1.1 r2 h2)
end

theorem walkLevel_used : ∀ n, JumpU cur (walkLevel s d cur n)
  | 0 => by intro _ _ _ _ h; simp [walkLevel] at h
  | n + 1 => by
    intro parent sels ws r h
    simp only [walkLevel] at h
    exact walkSelections_used s d cur _ (walkLevel_used n) sels parent ws r h

end sel

theorem walkVarDefsB_used (s : SV) (cur : Option OperationDef) :
    ∀ (vs : List VarDef) (ws : WS), UsedInv cur ws (walkVarDefsB s cur vs ws)
  | [], ws => UsedInv.refl cur ws
  | v :: rest, ws => by
    simp only [walkVarDefsB]
    have h1 : UsedInv cur ws (match v.default with
        | some dv => walkValue s cur (some v.type) (s.type? v.type.name) dv ws
        | none => (ws, [])) := by
      cases v.default with
      | none => exact UsedInv.refl cur ws
      | some dv => exact walkValue_used s cur _ _ dv ws
    have h2 := walkDirectives_used s cur (s.type? v.type.name) v.dirs locVariableDefinition
      (match v.default with
        | some dv => walkValue s cur (some v.type) (s.type? v.type.name) dv ws
        | none => (ws, [])).1
    have h3 := walkVarDefsB_used s cur rest
      (walkDirectives s cur (s.type? v.type.name) v.dirs locVariableDefinition
        (match v.default with
          | some dv => walkValue s cur (some v.type) (s.type? v.type.name) dv ws
          | none => (ws, [])).1).1
    exact (h1.seq h2).seq h3

theorem walkVarDefsA_not_value (s : SV) (cur : Option OperationDef) (ws : WS) :
    ∀ (vs : List VarDef), ∀ e ∈ walkVarDefsA s cur ws vs, ∀ v exp dfn, e.p ≠ .value v exp dfn
  | [], e, he, _, _, _ => by cases he
  | v :: rest, e, he, _, _, _ => by
    simp only [walkVarDefsA, List.mem_cons] at he
    rcases he with rfl | he
    · intro h; cases h
    · exact walkVarDefsA_not_value s cur ws rest e he _ _ _

/-- the `used` list the `operation` event of `op` is computed from: exactly the names of the
    defined variables for which a `value` event was fired during the walk of `op`; the walk has no
    other `operation` event -/
theorem walkOperation_used (s : SV) (d : QueryDoc) (fuel : Nat) (op : OperationDef) (l : Links)
    (r : Links × List Event) (h : walkOperation s d fuel op l = some r) :
    ∃ used, (∀ e ∈ r.2, ∀ op' flags, e.p = .operation op' flags → op' = op ∧ flags = usedFlags used op.vars []) ∧
      ∀ x, x ∈ used ↔ ∃ e ∈ r.2, VarUseEv (some op) x e := by
  unfold walkOperation at h
  simp only at h
  split at h
  · cases h
  · rename_i r4 h4
    injection h with h
    subst h
    refine ⟨r4.1.used, ?_, ?_⟩
    · have hb := walkLevel_noOps s d (some op) fuel _ _ _ r4 h4
      intro e he op' flags hp
      rcases List.mem_append.1 he with he | he
      · have hno : noOps (walkVarDefsA s (some op) { visited := [], links := l, used := [] } op.vars ++
            (walkVarDefsB s (some op) op.vars { visited := [], links := l, used := [] }).2 ++
            (walkDirectives s (some op) (opRoot s op.op).1 op.dirs (opRoot s op.op).2
              (walkVarDefsB s (some op) op.vars { visited := [], links := l, used := [] }).1).2 ++ r4.2) = true := by
          simp only [noOps_append, walkVarDefsA_noOps, walkVarDefsB_noOps, walkDirectives_noOps, hb]
          rfl
        have := List.all_eq_true.1 hno e he
        simp [hp, Payload.isOperation] at this
      · simp only [List.mem_singleton] at he
        subst he
        simp only at hp
        injection hp with h1 h2
        exact ⟨h1.symm, h2.symm⟩
    have h2 := walkVarDefsB_used s (some op) op.vars { visited := [], links := l, used := [] }
    have h3 := walkDirectives_used s (some op) (opRoot s op.op).1 op.dirs (opRoot s op.op).2
      (walkVarDefsB s (some op) op.vars { visited := [], links := l, used := [] }).1
    have h4' := walkLevel_used s d (some op) fuel _ _ _ r4 h4
    have hall := (h2.seq h3).seq h4'
    intro x
    rw [hall x]
    simp only [List.not_mem_nil, false_or, List.mem_append, List.mem_singleton]
    constructor
    · rintro ⟨e, he, hv⟩
      refine ⟨e, Or.inl ?_, hv⟩
      rcases he with (he | he) | he
      · exact Or.inr he |> Or.inl |> Or.inl
      · exact Or.inr he |> Or.inl
      · exact Or.inr he
    · rintro ⟨e, he, hv⟩
      rcases he with (((he | he) | he) | he) | he
      · -- a `variable` event is not a `value` event
        exfalso
        obtain ⟨_, _, _, _, ch, p, exp, dfn, hp⟩ := hv
        exact walkVarDefsA_not_value s (some op) _ op.vars e he _ _ _ hp
      · exact ⟨e, Or.inl (Or.inl he), hv⟩
      · exact ⟨e, Or.inl (Or.inr he), hv⟩
      · exact ⟨e, Or.inr he, hv⟩
      · subst he
        obtain ⟨_, _, _, _, ch, p, exp, dfn, hp⟩ := hv
        cases hp

end Gql.Validate
