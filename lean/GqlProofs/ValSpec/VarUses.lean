import GqlProofs.ValSpec.ValueDoc
/-
  C09, variable uses and variable definitions of a whole run.

  `OpArgCall sv d op defs args`: the argument list `args` (with the argument definitions `defs`) is
  in the SCOPE of the operation `op`: written in the operation itself (fields and directives of its
  selection set, its own directives, the directives of its variable definitions) or in a fragment
  definition the operation reaches through spreads of defined fragments (`OpReaches`) — its
  directives and everything in its selection set.  All of them are walked on behalf of `op`
  (`walkDoc_scope_done`), so every variable use in the scope of `op` has an event with
  `CurrentOperation = op`, which shows `op`'s definition of that name.
-/
namespace Gql.Validate
open Gql

inductive OpArgCall (sv : SV) (d : QueryDoc) (op : OperationDef) : Option (List ArgDef) → List Argument → Prop
  | ownField (p' : Option Definition) (al nm : Name) (args : List Argument) (dirs : List Directive) (sub : Selections)
      (pos : Pos) : InSelsW sv (opRoot sv op.op).1 op.sel p' (.field al nm args dirs sub pos) →
      OpArgCall sv d op ((wFieldDef p' nm).map (·.args)) args
  | ownNodeDir (p' : Option Definition) (y : Selection) (dir : Directive) :
      InSelsW sv (opRoot sv op.op).1 op.sel p' y → dir ∈ Spec.selDirs y →
      OpArgCall sv d op ((sv.directive? dir.name).map (·.args)) dir.args
  | opDir (dir : Directive) : dir ∈ op.dirs → OpArgCall sv d op ((sv.directive? dir.name).map (·.args)) dir.args
  | varDir (v : VarDef) (dir : Directive) : v ∈ op.vars → dir ∈ v.dirs →
      OpArgCall sv d op ((sv.directive? dir.name).map (·.args)) dir.args
  | fragDir (f : FragmentDef) (dir : Directive) : OpReaches d op f → dir ∈ f.dirs →
      OpArgCall sv d op ((sv.directive? dir.name).map (·.args)) dir.args
  | fragField (f : FragmentDef) (p' : Option Definition) (al nm : Name) (args : List Argument) (dirs : List Directive)
      (sub : Selections) (pos : Pos) : OpReaches d op f →
      InSelsW sv (sv.type? f.typeCond) f.sel p' (.field al nm args dirs sub pos) →
      OpArgCall sv d op ((wFieldDef p' nm).map (·.args)) args
  | fragNodeDir (f : FragmentDef) (p' : Option Definition) (y : Selection) (dir : Directive) : OpReaches d op f →
      InSelsW sv (sv.type? f.typeCond) f.sel p' y → dir ∈ Spec.selDirs y →
      OpArgCall sv d op ((sv.directive? dir.name).map (·.args)) dir.args

theorem OpDone.scope {sv : SV} {d : QueryDoc} {op : OperationDef} {es : List Event} (h : OpDone sv d op es)
    {defs : Option (List ArgDef)} {args : List Argument} (hc : OpArgCall sv d op defs args) :
    HasArgs sv (some op) es defs args := by
  cases hc with
  | ownField p' al nm args dirs sub pos hi => exact (h.nodes _ _ hi).1
  | ownNodeDir p' y dir hi hd => exact nodeDone_dirs (h.nodes _ _ hi) dir hd
  | opDir dir hd => exact h.dirs dir hd
  | varDir v dir hv hd => exact h.varDirs v hv dir hd
  | fragDir f dir hr hd => exact (h.frags f hr).1 dir hd
  | fragField f p' al nm args dirs sub pos hr hi => exact ((h.frags f hr).2 _ _ hi).1
  | fragNodeDir f p' y dir hr hi hd => exact nodeDone_dirs ((h.frags f hr).2 _ _ hi) dir hd

/-- every argument list in the scope of an operation is walked on behalf of that operation -/
theorem walkDoc_scope_done (sv : SV) (d : QueryDoc) (evs : List Event) (hw : walkDoc sv d = some evs)
    (op : OperationDef) (hop : op ∈ d.ops) (defs : Option (List ArgDef)) (args : List Argument)
    (hc : OpArgCall sv d op defs args) : HasArgs sv (some op) evs defs args :=
  ((walkDoc_reach sv d evs hw).1 op hop).scope hc

/-- every value node in the scope of an operation has an event on behalf of that operation -/
theorem walkDoc_scope_values (s : Schema) (d : QueryDoc) (evs : List Event) (hw : walkDoc s.view d = some evs)
    (op : OperationDef) (hop : op ∈ d.ops) (defs : Option (List ArgDef)) (args : List Argument)
    (hc : OpArgCall s.view d op defs args) : ∀ o ∈ argOccs s defs args, ∃ e ∈ evs, EvOcc (some op) e o := by
  intro o ho
  obtain ⟨ws, hsub⟩ := walkDoc_scope_done s.view d evs hw op hop defs args hc
  obtain ⟨e, he, heo⟩ := walkArgs_occ_complete s (some op) defs args ws o ho
  exact ⟨e, hsub e he, heo⟩

/- ---------- variable-definition events ---------- -/

theorem Built.varDef_sound {sv : SV} {d : QueryDoc} {a b : VLinks} {es : List Event} (h : Built sv d a es b) :
    ∀ e ∈ es, ∀ v dfn, e.p = .variable v dfn →
      ∃ op ∈ d.ops, v ∈ op.vars ∧ e.cur = some op ∧ dfn = sv.type? v.type.name := by
  induction h with
  | nil l => intro e he; cases he
  | append _ _ ih1 ih2 =>
    intro e he
    rcases List.mem_append.1 he with he | he
    · exact ih1 e he
    · exact ih2 e he
  | args cur defs args ws _ _ =>
    intro e he v dfn hp
    have := walkArgs_all (s := sv) (P := fun p => p.isValue) (fun _ _ _ => trivial) cur defs args ws e he
    rw [hp] at this
    exact absurd this (fun h => h)
  | default op vd dv ws _ _ _ =>
    intro e he v dfn hp
    have := walkValue_all (s := sv) (P := fun p => p.isValue) (fun _ _ _ => trivial) (some op) _ _ dv ws e he
    rw [hp] at this
    exact absurd this (fun h => h)
  | vdef op vd l hop hvd =>
    intro e he v dfn hp
    rw [List.mem_singleton.1 he] at hp ⊢
    injection hp with h1 h2
    subst h1 h2
    exact ⟨op, hop, hvd, rfl, rfl⟩
  | ev e hv =>
    intro e' he' v dfn hp
    rw [List.mem_singleton.1 he'] at hp
    rw [hp] at hv
    exact absurd hv (fun h => h)

/- ---------- operations that agree on their variable definitions ---------- -/

/-- variable uses with the same start offset have the same name (true of every parse: distinct
    nodes start at distinct offsets) -/
def VarStartsDistinct (evs : List Event) : Prop :=
  ∀ e1 ∈ evs, ∀ e2 ∈ evs, ∀ r1 c1 p1 x1 y1 r2 c2 p2 x2 y2,
    e1.p = .value (.mk .variable r1 c1 p1) x1 y1 → e2.p = .value (.mk .variable r2 c2 p2) x2 y2 →
    p1.start = p2.start → r1 = r2

/-- if all operations of the document declare every variable identically (in particular: one
    operation), then every event about a variable use shows the definition of that name — of ANY
    operation — or nothing, the latter only while no operation has walked the use yet -/
theorem walkDoc_varlinks_agreeing (s : Schema) (d : QueryDoc) (evs : List Event) (hw : walkDoc s.view d = some evs)
    (hagree : ∀ op ∈ d.ops, ∀ op' ∈ d.ops, ∀ raw, varForName op.vars raw = varForName op'.vars raw)
    (huniq : VarStartsDistinct evs) :
    ∀ pre e' post, evs = pre ++ e' :: post → ∀ raw ch p exp dfn, e'.p = .value (.mk .variable raw ch p) exp dfn →
      (e'.links.varDef p.start = none ∧ NoWrite p.start (pre ++ [e'])) ∨
      ∀ op ∈ d.ops, e'.links.varDef p.start = varForName op.vars raw := by
  intro pre e' post hev raw ch p exp dfn hp
  obtain ⟨l, ht⟩ := walkDoc_trace s.view d evs hw
  rw [hev] at ht
  rw [event_varDef pre e' post ht p.start]
  rcases lastWrite_cases p.start (pre ++ [e']) with hn | ⟨pre', e, mid, hsplit, hn, op0, raw0, ch0, p0, exp0, dfn0, hc, hp0, hk⟩
  · left
    rw [logFrom_noWrite p.start _ _ hn]
    exact ⟨rfl, hn⟩
  · right
    intro op hop
    have hmem : e ∈ evs := by
      rw [hev]
      have : e ∈ pre ++ [e'] := by rw [hsplit]; simp
      rcases List.mem_append.1 this with h | h
      · exact List.mem_append_left _ h
      · rw [List.mem_singleton.1 h]; simp
    have hmem' : e' ∈ evs := by rw [hev]; simp
    have hraw : raw0 = raw := huniq e hmem e' hmem' _ _ _ _ _ _ _ _ _ _ hp0 hp hk
    have hop0 : op0 ∈ d.ops := by
      have := (walkDoc_values_soundW s d evs hw e hmem (by rw [hp0]; trivial)).1
      exact this op0 hc
    have hw : wr e = [(p.start, varForName op0.vars raw0)] := by
      unfold wr
      rw [hc, hp0]
      simp only [hk]
    rw [hsplit, logFrom_lastWrite p.start _ pre' e mid [] hw hn]
    simp only [Option.join_some]
    rw [hraw]
    exact hagree op0 hop0 op hop raw

end Gql.Validate

namespace Gql.Validate
open Gql

/-- the variable uses of a run: (start offset, name) -/
def varUseKeys (evs : List Event) : List (Nat × Name) :=
  evs.filterMap fun e =>
    match e.p with
    | .value (.mk .variable raw _ p) _ _ => some (p.start, raw)
    | _ => none

/-- decidable form of `VarStartsDistinct` -/
def varStartsDistinctB (evs : List Event) : Bool :=
  (varUseKeys evs).all fun a => (varUseKeys evs).all fun b => a.1 != b.1 || a.2 == b.2

theorem varStartsDistinct_of_B (evs : List Event) (h : varStartsDistinctB evs = true) : VarStartsDistinct evs := by
  intro e1 h1 e2 h2 r1 c1 p1 x1 y1 r2 c2 p2 x2 y2 hp1 hp2 hk
  unfold varStartsDistinctB at h
  simp only [List.all_eq_true, Bool.or_eq_true, bne_iff_ne, ne_eq, beq_iff_eq] at h
  have m1 : (p1.start, r1) ∈ varUseKeys evs := List.mem_filterMap.2 ⟨e1, h1, by rw [hp1]⟩
  have m2 : (p2.start, r2) ∈ varUseKeys evs := List.mem_filterMap.2 ⟨e2, h2, by rw [hp2]⟩
  rcases h _ m1 _ m2 with h | h
  · exact absurd hk h
  · exact h

end Gql.Validate
