import GqlProofs.ValSpec.ScopeSound
import GqlProofs.ValSpec.DefDirs
/-
  Per-operation scope, completeness: the walk of an operation (of a stand-alone fragment
  definition) fires, with `CurrentOperation` = that operation (= nil), the event of every node and
  of every directive list written in the operation (the fragment definition) or in a fragment
  definition reachable from it, and marks every one of these selection nodes as linked.

  Invariant of a walk from state `ws` to `r` (`WalkC`): `visited` and the marks only grow; every
  defined spread name of the walked source is visited afterwards; every node of the source is
  done; every fragment that BECAME visited in this walk is completely done (its nodes, the
  directives of its definition, and all its defined spread names are visited).
-/
namespace Gql.Validate
open Gql

def selPos : Selection → Pos
  | .field _ _ _ _ _ p => p
  | .spread _ _ p => p
  | .inline _ _ _ p => p

/-- the node `y` has an event with parent `p'`, fired with `CurrentOperation = cur` -/
def HasNodeCur (d : QueryDoc) (cur : Option OperationDef) (evs : List Event) (p' : Option Definition) : Selection → Prop
  | .field al nm args dirs sub p =>
    ∃ e ∈ evs, e.cur = cur ∧ e.p = .field ⟨al, nm, args, dirs, sub, p⟩ p' (wFieldDef p' nm)
  | .inline tc dirs sub p => ∃ e ∈ evs, e.cur = cur ∧ e.p = .inlineFragment ⟨tc, dirs, sub, p⟩ p'
  | .spread nm dirs p => ∃ e ∈ evs, e.cur = cur ∧ e.p = .fragmentSpread ⟨nm, dirs, p⟩ (fragForName d nm) p'

theorem HasNodeCur.sub {d : QueryDoc} {cur : Option OperationDef} {a b : List Event} (h : ∀ e ∈ a, e ∈ b)
    {p' : Option Definition} : ∀ {y : Selection}, HasNodeCur d cur a p' y → HasNodeCur d cur b p' y
  | .field .., ⟨e, he, x⟩ => ⟨e, h e he, x⟩
  | .inline .., ⟨e, he, x⟩ => ⟨e, h e he, x⟩
  | .spread .., ⟨e, he, x⟩ => ⟨e, h e he, x⟩

/-- the directive list `ds` at `loc` has been walked on behalf of `cur` (whatever the parent) -/
def HasDirsC (s : SV) (cur : Option OperationDef) (loc : Bytes) (ds : List Directive) (evs : List Event) : Prop :=
  (∃ e ∈ evs, e.cur = cur ∧ e.p = .directiveList ds) ∧
  ∀ dir ∈ ds, ∃ e ∈ evs, ∃ par, e.cur = cur ∧ e.p = .directive dir (s.directive? dir.name) par loc

theorem HasDirsC.sub {s : SV} {cur : Option OperationDef} {loc : Bytes} {ds : List Directive} {a b : List Event}
    (h : ∀ e ∈ a, e ∈ b) (hd : HasDirsC s cur loc ds a) : HasDirsC s cur loc ds b := by
  obtain ⟨⟨e, he, x⟩, h2⟩ := hd
  refine ⟨⟨e, h e he, x⟩, fun dir hdir => ?_⟩
  obtain ⟨e, he, x⟩ := h2 dir hdir
  exact ⟨e, h e he, x⟩

theorem HasDirsCur.toC {s : SV} {cur : Option OperationDef} {parent : Option Definition} {loc : Bytes}
    {ds : List Directive} {evs : List Event} (h : HasDirsCur s cur parent loc ds evs) : HasDirsC s cur loc ds evs := by
  obtain ⟨h1, h2⟩ := h
  refine ⟨h1, fun dir hdir => ?_⟩
  obtain ⟨e, he, x⟩ := h2 dir hdir
  exact ⟨e, he, parent, x⟩

/- ---------- the value / argument / directive walkers do not touch the marks ---------- -/

mutual
  theorem walkValue_sels (s : SV) (cur : Option OperationDef) (exp : Option GType) (dfn : Option Definition) :
      ∀ (v : Value) (ws : WS), (walkValue s cur exp dfn v ws).1.links.sels = ws.links.sels
    | .mk k raw ch p, ws => by
      unfold walkValue
      cases k <;> cases cur <;> simp only [walkObjChildren_sels, walkListChildren_sels]
  theorem walkObjChildren_sels (s : SV) (cur : Option OperationDef) (dfn : Option Definition) :
      ∀ (ch : Children) (ws : WS), (walkObjChildren s cur dfn ch ws).1.links.sels = ws.links.sels
    | .nil, ws => by simp [walkObjChildren]
    | .cons name v p rest, ws => by
      unfold walkObjChildren
      simp only [walkObjChildren_sels, walkValue_sels]
  theorem walkListChildren_sels (s : SV) (cur : Option OperationDef) (exp : Option GType) (dfn : Option Definition) :
      ∀ (ch : Children) (ws : WS), (walkListChildren s cur exp dfn ch ws).1.links.sels = ws.links.sels
    | .nil, ws => by simp [walkListChildren]
    | .cons name v p rest, ws => by
      unfold walkListChildren
      simp only [walkListChildren_sels, walkValue_sels]
end

theorem walkArgs_sels (s : SV) (cur : Option OperationDef) (ad : Option (List ArgDef)) :
    ∀ (as : List Argument) (ws : WS), (walkArgs s cur ad as ws).1.links.sels = ws.links.sels
  | [], ws => rfl
  | a :: rest, ws => by
    simp only [walkArgs, walkArgs_sels s cur ad rest, walkValue_sels]

theorem walkDirectiveItems_sels (s : SV) (cur : Option OperationDef) (parent : Option Definition) (loc : Bytes) :
    ∀ (ds : List Directive) (ws : WS), (walkDirectiveItems s cur parent loc ds ws).1.links.sels = ws.links.sels
  | [], ws => rfl
  | dir :: rest, ws => by
    simp only [walkDirectiveItems, walkDirectiveItems_sels s cur parent loc rest, walkArgs_sels]

theorem walkDirectives_sels (s : SV) (cur : Option OperationDef) (parent : Option Definition) (ds : List Directive)
    (loc : Bytes) (ws : WS) : (walkDirectives s cur parent ds loc ws).1.links.sels = ws.links.sels := by
  simp only [walkDirectives]
  exact walkDirectiveItems_sels s cur parent loc ds ws

theorem walkVarDefsB_sels (s : SV) (cur : Option OperationDef) :
    ∀ (vs : List VarDef) (ws : WS), (walkVarDefsB s cur vs ws).1.links.sels = ws.links.sels
  | [], ws => rfl
  | v :: rest, ws => by
    simp only [walkVarDefsB, walkVarDefsB_sels s cur rest, walkDirectives_sels]
    cases v.default <;> simp only [walkValue_sels]

theorem linked_of_sels {l l' : Links} (h : l'.sels = l.sels) (k : Nat) : l'.linked k = l.linked k := by
  unfold Links.linked
  rw [h]

theorem markSel_linked_self (ws : WS) (k : Nat) : (ws.markSel k).links.linked k = true := by
  simp [WS.markSel, Links.linked]

theorem markSel_linked_mono (ws : WS) (k k' : Nat) (h : ws.links.linked k' = true) : (ws.markSel k).links.linked k' = true := by
  simp only [WS.markSel, Links.linked, List.contains_cons, Bool.or_eq_true] at h ⊢
  exact Or.inr h

/- ---------- the invariant ---------- -/

/-- the node is done in `r`: event fired, node marked, its directive list walked -/
def Done (s : SV) (d : QueryDoc) (cur : Option OperationDef) (r : WS × List Event) (p' : Option Definition)
    (y : Selection) : Prop :=
  HasNodeCur d cur r.2 p' y ∧ r.1.links.linked (selPos y).start = true ∧
    HasDirsC s cur (Spec.selLoc y) (Spec.selDirs y) r.2

/-- the fragment definition is completely done in `r` -/
def FragDone (s : SV) (d : QueryDoc) (cur : Option OperationDef) (r : WS × List Event) (f : FragmentDef) : Prop :=
  (∀ p' y, InSelsW s (s.type? f.typeCond) f.sel p' y → Done s d cur r p' y) ∧
  HasDirsC s cur locFragmentDefinition f.dirs r.2 ∧
  ∀ m ∈ Spec.spreadsOfSels f.sel, ∀ g, fragForName d m = some g → m ∈ r.1.visited

/-- `r'` extends `r`: more events, more marks, more visited -/
def Ext (r r' : WS × List Event) : Prop :=
  (∀ e ∈ r.2, e ∈ r'.2) ∧ (∀ k, r.1.links.linked k = true → r'.1.links.linked k = true) ∧ r.1.visited ⊆ r'.1.visited

theorem Done.ext {s : SV} {d : QueryDoc} {cur : Option OperationDef} {r r' : WS × List Event} (hx : Ext r r')
    {p' : Option Definition} {y : Selection} (h : Done s d cur r p' y) : Done s d cur r' p' y :=
  ⟨h.1.sub hx.1, hx.2.1 _ h.2.1, h.2.2.sub hx.1⟩

theorem FragDone.ext {s : SV} {d : QueryDoc} {cur : Option OperationDef} {r r' : WS × List Event} (hx : Ext r r')
    {f : FragmentDef} (h : FragDone s d cur r f) : FragDone s d cur r' f :=
  ⟨fun p' y hi => (h.1 p' y hi).ext hx, h.2.1.sub hx.1, fun m hm g hg => hx.2.2 (h.2.2 m hm g hg)⟩

structure WalkC (s : SV) (d : QueryDoc) (cur : Option OperationDef) (names : List Name)
    (nodes : Option Definition → Selection → Prop) (ws : WS) (r : WS × List Event) : Prop where
  mono : ws.visited ⊆ r.1.visited
  marks : ∀ k, ws.links.linked k = true → r.1.links.linked k = true
  src : ∀ nm ∈ names, ∀ f, fragForName d nm = some f → nm ∈ r.1.visited
  nodes : ∀ p' y, nodes p' y → Done s d cur r p' y
  new : ∀ n ∈ r.1.visited, n ∉ ws.visited → ∃ f, fragForName d n = some f ∧ FragDone s d cur r f

/-- a walk inside a frame: the state before differs from `ws'` only by marks, events are added
    before and after -/
theorem WalkC.frame {s : SV} {d : QueryDoc} {cur : Option OperationDef} {names : List Name}
    {nodes : Option Definition → Selection → Prop} {ws ws' : WS} {r : WS × List Event}
    (h : WalkC s d cur names nodes ws' r) (hv : ws.visited = ws'.visited)
    (hl : ∀ k, ws.links.linked k = true → ws'.links.linked k = true) (pre post : List Event) :
    WalkC s d cur names nodes ws (r.1, pre ++ r.2 ++ post) := by
  have hx : Ext r (r.1, pre ++ r.2 ++ post) :=
    ⟨fun e he => List.mem_append_left _ (List.mem_append_right _ he), fun _ h => h, fun _ h => h⟩
  exact { mono := by rw [hv]; exact h.mono
          marks := fun k hk => h.marks k (hl k hk)
          src := h.src
          nodes := fun p' y hi => (h.nodes p' y hi).ext hx
          new := fun n hn hnot => by
            obtain ⟨f, hf, hd⟩ := h.new n hn (by rw [← hv]; exact hnot)
            exact ⟨f, hf, hd.ext hx⟩ }

/-- change of the source nodes: every new node is an old one or is done anyway -/
theorem WalkC.withNodes {s : SV} {d : QueryDoc} {cur : Option OperationDef} {names : List Name}
    {nodes nodes' : Option Definition → Selection → Prop} {ws : WS} {r : WS × List Event}
    (h : WalkC s d cur names nodes ws r) (hn : ∀ p' y, nodes' p' y → nodes p' y ∨ Done s d cur r p' y) :
    WalkC s d cur names nodes' ws r :=
  { mono := h.mono, marks := h.marks, src := h.src, new := h.new
    nodes := fun p' y hi => by
      rcases hn p' y hi with h1 | h1
      · exact h.nodes p' y h1
      · exact h1 }

/-- sequential composition -/
theorem WalkC.seq {s : SV} {d : QueryDoc} {cur : Option OperationDef} {n1 n2 : List Name}
    {nodes1 nodes2 : Option Definition → Selection → Prop} {ws : WS} {r1 r2 : WS × List Event}
    (h1 : WalkC s d cur n1 nodes1 ws r1) (h2 : WalkC s d cur n2 nodes2 r1.1 r2) :
    WalkC s d cur (n1 ++ n2) (fun p y => nodes1 p y ∨ nodes2 p y) ws (r2.1, r1.2 ++ r2.2) := by
  have hx1 : Ext r1 (r2.1, r1.2 ++ r2.2) := ⟨fun e he => List.mem_append_left _ he, h2.marks, h2.mono⟩
  have hx2 : Ext r2 (r2.1, r1.2 ++ r2.2) := ⟨fun e he => List.mem_append_right _ he, fun _ h => h, fun _ h => h⟩
  exact { mono := fun x hx => h2.mono (h1.mono hx)
          marks := fun k hk => h2.marks k (h1.marks k hk)
          src := fun nm hnm f hf => by
            rcases List.mem_append.1 hnm with h | h
            · exact h2.mono (h1.src nm h f hf)
            · exact h2.src nm h f hf
          nodes := fun p' y hi => by
            rcases hi with h | h
            · exact (h1.nodes p' y h).ext hx1
            · exact (h2.nodes p' y h).ext hx2
          new := fun n hn hnot => by
            by_cases hm : n ∈ r1.1.visited
            · obtain ⟨f, hf, hd⟩ := h1.new n hm hnot
              exact ⟨f, hf, hd.ext hx1⟩
            · obtain ⟨f, hf, hd⟩ := h2.new n hn hm
              exact ⟨f, hf, hd.ext hx2⟩ }

def JumpC (s : SV) (d : QueryDoc) (cur : Option OperationDef) (J : Jump) : Prop :=
  ∀ parent sels (ws : WS) r, J parent sels ws = some r →
    WalkC s d cur (Spec.spreadsOfSels sels) (InSelsW s parent sels) ws r

section sel
variable (s : SV) (d : QueryDoc) (cur : Option OperationDef)

/-- state after marking a node and walking argument / directive lists: same `visited`, more marks -/
theorem pre_linked (ws : WS) (k : Nat) (w : WS) (hs : w.links.sels = (ws.markSel k).links.sels) :
    w.links.linked k = true ∧ ∀ k', ws.links.linked k' = true → w.links.linked k' = true := by
  constructor
  · rw [linked_of_sels hs]; exact markSel_linked_self ws k
  · intro k' h
    rw [linked_of_sels hs]; exact markSel_linked_mono ws k k' h

mutual
  theorem walkSelection_c (J : Jump) (hJ : JumpC s d cur J) :
      ∀ (x : Selection) (parent : Option Definition) (ws : WS) r,
        walkSelection s d cur J parent x ws = some r →
        WalkC s d cur (Spec.spreadsOfSel x) (InSelW s parent x) ws r
    | .field al nm args dirs sub p, parent, ws, r, h => by
      unfold walkSelection at h
      simp only at h
      split at h
      · cases h
      · rename_i r3 h3
        injection h with h
        subst h
        have ih := walkSelections_c J hJ sub _ _ r3 h3
        have hsels : (walkDirectives s cur (wNext s parent nm) dirs locField
            (walkArgs s cur ((wFieldDef parent nm).map (·.args)) args (ws.markSel p.start)).1).1.links.sels =
            (ws.markSel p.start).links.sels :=
          (walkDirectives_sels s cur _ dirs locField _).trans (walkArgs_sels s cur _ args (ws.markSel p.start))
        obtain ⟨hk, hmono⟩ := pre_linked ws p.start _ hsels
        have hfr := ih.frame (ws := ws)
          (by simp only [walkDirectives_visited, walkArgs_visited, markSel_visited]) hmono
        simp only [Spec.spreadsOfSel]
        refine (hfr _ _).withNodes ?_
        intro p' y hi
        cases hi with
        | self =>
          refine Or.inr ⟨⟨_, List.mem_append_right _ (List.mem_singleton.2 rfl), rfl, rfl⟩, ih.marks _ hk, ?_⟩
          exact HasDirsC.sub (fun e he => List.mem_append_left _ (List.mem_append_left _ (List.mem_append_right _ he)))
            (walkDirectives_complete_cur s cur _ dirs locField _).toC
        | fieldSub _ _ _ _ _ _ _ _ _ hs => exact Or.inl hs
    | .inline tc dirs sub p, parent, ws, r, h => by
      unfold walkSelection at h
      simp only at h
      split at h
      · cases h
      · rename_i r3 h3
        injection h with h
        subst h
        have ih := walkSelections_c J hJ sub _ _ r3 h3
        have hsels := walkDirectives_sels s cur (if tc != [] then s.type? tc else parent) dirs locInlineFragment
          (ws.markSel p.start)
        obtain ⟨hk, hmono⟩ := pre_linked ws p.start _ hsels
        have hfr := ih.frame (ws := ws) (by simp only [walkDirectives_visited, markSel_visited]) hmono
        refine (hfr _ _).withNodes ?_
        intro p' y hi
        cases hi with
        | self =>
          refine Or.inr ⟨⟨_, List.mem_append_right _ (List.mem_singleton.2 rfl), rfl, rfl⟩, ih.marks _ hk, ?_⟩
          exact HasDirsC.sub (fun e he => List.mem_append_left _ (List.mem_append_left _ he))
            (walkDirectives_complete_cur s cur _ dirs locInlineFragment _).toC
        | inlineSub _ _ _ _ _ _ _ hs => exact Or.inl hs
    | .spread nm dirs p, parent, ws, r, h => by
      unfold walkSelection at h
      simp only at h
      -- the state after the spread's own directives
      have hsels := fun par => walkDirectives_sels s cur par dirs locFragmentSpread (ws.markSel p.start)
      have hvis := fun par => (walkDirectives_visited s cur par dirs locFragmentSpread (ws.markSel p.start)).trans
        (markSel_visited ws p.start)
      -- the result when the walk does not enter a fragment
      have hstop : ∀ par, (∀ f, fragForName d nm = some f → nm ∈ ws.visited) →
          WalkC s d cur (Spec.spreadsOfSel (.spread nm dirs p)) (InSelW s parent (.spread nm dirs p)) ws
            ((walkDirectives s cur par dirs locFragmentSpread (ws.markSel p.start)).1,
              (walkDirectives s cur par dirs locFragmentSpread (ws.markSel p.start)).2 ++
              [{ cur := cur, links := (walkDirectives s cur par dirs locFragmentSpread (ws.markSel p.start)).1.links,
                 p := .fragmentSpread ⟨nm, dirs, p⟩ (fragForName d nm) parent }]) := by
        intro par hdef
        obtain ⟨hk, hmono⟩ := pre_linked ws p.start _ (hsels par)
        exact { mono := by simp only [hvis]; exact fun _ h => h
                marks := hmono
                src := fun n hn f hf => by
                  simp only [Spec.spreadsOfSel, List.mem_singleton] at hn
                  subst hn
                  simp only [hvis]
                  exact hdef f hf
                nodes := fun p' y hi => by
                  cases hi with
                  | self =>
                    exact ⟨⟨_, List.mem_append_right _ (List.mem_singleton.2 rfl), rfl, rfl⟩, hk,
                      HasDirsC.sub (fun e he => List.mem_append_left _ he)
                        (walkDirectives_complete_cur s cur _ dirs locFragmentSpread _).toC⟩
                new := fun n hn hnot => by
                  simp only [hvis] at hn
                  exact absurd hn hnot }
      cases hf : fragForName d nm with
      | none =>
        rw [hf] at h hstop
        simp only at h
        injection h with h
        subst h
        exact hstop _ (fun f hf' => by cases hf')
      | some f =>
        have hname : f.name = nm := fragForName_name hf
        rw [hf] at h hstop
        simp only at h
        split at h
        · rename_i hc
          injection h with h
          subst h
          refine hstop _ (fun f' _ => ?_)
          simp only [hvis, List.contains_iff_mem] at hc
          rw [← hname]
          exact hc
        · rename_i hc
          split at h
          · cases h
          · rename_i r3 h3
            injection h with h
            subst h
            have hnot : f.name ∉ ws.visited := by
              simp only [hvis, List.contains_iff_mem] at hc
              exact hc
            have ih := hJ _ _ _ r3 h3
            obtain ⟨hk, hmono⟩ := pre_linked ws p.start _ (hsels ((some f).bind fun f => s.type? f.typeCond))
            -- state in which the jump starts
            have hv0 : (walkDirectives s cur ((some f).bind fun f => s.type? f.typeCond) f.dirs locFragmentDefinition
                { (walkDirectives s cur ((some f).bind fun f => s.type? f.typeCond) dirs locFragmentSpread (ws.markSel p.start)).1 with
                  visited := f.name :: (walkDirectives s cur ((some f).bind fun f => s.type? f.typeCond) dirs locFragmentSpread
                    (ws.markSel p.start)).1.visited }).1.visited = f.name :: ws.visited := by
              rw [walkDirectives_visited]
              simp only [hvis]
            have hl0 : ∀ k, (walkDirectives s cur ((some f).bind fun f => s.type? f.typeCond) dirs locFragmentSpread
                (ws.markSel p.start)).1.links.linked k = true →
                (walkDirectives s cur ((some f).bind fun f => s.type? f.typeCond) f.dirs locFragmentDefinition
                { (walkDirectives s cur ((some f).bind fun f => s.type? f.typeCond) dirs locFragmentSpread (ws.markSel p.start)).1 with
                  visited := f.name :: (walkDirectives s cur ((some f).bind fun f => s.type? f.typeCond) dirs locFragmentSpread
                    (ws.markSel p.start)).1.visited }).1.links.linked k = true := by
              intro k hk'
              rw [linked_of_sels (walkDirectives_sels _ _ _ _ _ _)]
              exact hk'
            have hsub1 : ∀ e ∈ r3.2, e ∈
                (walkDirectives s cur ((some f).bind fun f => s.type? f.typeCond) dirs locFragmentSpread (ws.markSel p.start)).2 ++
                (walkDirectives s cur ((some f).bind fun f => s.type? f.typeCond) f.dirs locFragmentDefinition
                  { (walkDirectives s cur ((some f).bind fun f => s.type? f.typeCond) dirs locFragmentSpread (ws.markSel p.start)).1 with
                    visited := f.name :: (walkDirectives s cur ((some f).bind fun f => s.type? f.typeCond) dirs locFragmentSpread
                      (ws.markSel p.start)).1.visited }).2 ++ r3.2 ++
                [{ cur := cur, links := r3.1.links, p := .fragmentSpread ⟨nm, dirs, p⟩ (some f) parent }] :=
              fun e he => List.mem_append_left _ (List.mem_append_right _ he)
            have hx : Ext r3 (r3.1, _) := ⟨hsub1, fun _ h => h, fun _ h => h⟩
            have hin : f.name ∈ r3.1.visited := ih.mono (by rw [hv0]; exact List.mem_cons_self)
            exact { mono := fun x hxm => ih.mono (by rw [hv0]; exact List.mem_cons_of_mem _ hxm)
                    marks := fun k hk' => ih.marks k (hl0 k (hmono k hk'))
                    src := fun n hn g _ => by
                      simp only [Spec.spreadsOfSel, List.mem_singleton] at hn
                      subst hn
                      rw [← hname]
                      exact hin
                    nodes := fun p' y hi => by
                      cases hi with
                      | self =>
                        refine ⟨⟨_, List.mem_append_right _ (List.mem_singleton.2 rfl), rfl, by rw [hf]⟩,
                          ih.marks _ (hl0 _ hk), ?_⟩
                        exact HasDirsC.sub (fun e he => List.mem_append_left _ (List.mem_append_left _ (List.mem_append_left _ he)))
                          (walkDirectives_complete_cur s cur _ dirs locFragmentSpread _).toC
                    new := fun n hn hnw => by
                      by_cases hnf : n = f.name
                      · subst hnf
                        refine ⟨f, by rw [hname]; exact hf, ?_, ?_, ?_⟩
                        · intro p' y hi
                          exact (ih.nodes p' y hi).ext hx
                        · exact HasDirsC.sub
                            (fun e he => List.mem_append_left _ (List.mem_append_left _ (List.mem_append_right _ he)))
                            (walkDirectives_complete_cur s cur _ f.dirs locFragmentDefinition _).toC
                        · intro m hm g hg
                          exact ih.src m hm g hg
                      · have hnw' : n ∉ (walkDirectives s cur ((some f).bind fun f => s.type? f.typeCond) f.dirs locFragmentDefinition
                            { (walkDirectives s cur ((some f).bind fun f => s.type? f.typeCond) dirs locFragmentSpread (ws.markSel p.start)).1 with
                              visited := f.name :: (walkDirectives s cur ((some f).bind fun f => s.type? f.typeCond) dirs locFragmentSpread
                                (ws.markSel p.start)).1.visited }).1.visited := by
                          rw [hv0]
                          intro hm
                          rcases List.mem_cons.1 hm with h | h
                          · exact hnf h
                          · exact hnw h
                        obtain ⟨g, hg, hd⟩ := ih.new n hn hnw'
                        exact ⟨g, hg, hd.ext hx⟩ }
  theorem walkSelections_c (J : Jump) (hJ : JumpC s d cur J) :
      ∀ (xs : Selections) (parent : Option Definition) (ws : WS) r,
        walkSelections s d cur J parent xs ws = some r →
        WalkC s d cur (Spec.spreadsOfSels xs) (InSelsW s parent xs) ws r
    | .nil, parent, ws, r, h => by
      simp only [walkSelections] at h
      injection h with h
      subst h
      exact { mono := fun _ h => h, marks := fun _ h => h
              src := fun n hn => by simp [Spec.spreadsOfSels] at hn
              nodes := fun p' y hi => by cases hi
              new := fun n hn hnot => absurd hn hnot }
    | .cons x rest, parent, ws, r, h => by
      unfold walkSelections at h
      split at h
      · cases h
      · rename_i r1 h1
        split at h
        · cases h
        · rename_i r2 h2
          injection h with h
          subst h
          have ha := walkSelection_c J hJ x parent ws r1 h1
          have hb := walkSelections_c J hJ rest parent r1.1 r2 h2
          have hc := ha.seq hb
          simp only [Spec.spreadsOfSels]
          refine hc.withNodes ?_
          intro p' y hi
          cases hi with
          | head _ _ _ _ _ hx => exact Or.inl (Or.inl hx)
          | tail _ _ _ _ _ hx => exact Or.inl (Or.inr hx)
end

theorem walkLevel_c : ∀ n, JumpC s d cur (walkLevel s d cur n)
  | 0 => by intro _ _ _ _ h; simp [walkLevel] at h
  | n + 1 => by
    intro parent sels ws r h
    simp only [walkLevel] at h
    exact walkSelections_c s d cur _ (walkLevel_c n) sels parent ws r h

end sel

/-- a walk that starts with nothing visited: everything reachable from the source through defined
    fragments is visited, hence completely done -/
theorem WalkC.reach {s : SV} {d : QueryDoc} {cur : Option OperationDef} {names : List Name}
    {nodes : Option Definition → Selection → Prop} {ws : WS} {r : WS × List Event}
    (h : WalkC s d cur names nodes ws r) (hv : ws.visited = []) :
    ∀ n, Reach d names n → ∀ f, fragForName d n = some f → n ∈ r.1.visited ∧ FragDone s d cur r f := by
  have hall : ∀ n ∈ r.1.visited, ∃ f, fragForName d n = some f ∧ FragDone s d cur r f :=
    fun n hn => h.new n hn (by rw [hv]; exact List.not_mem_nil)
  have key : ∀ n, Reach d names n → ∀ f, fragForName d n = some f → n ∈ r.1.visited := by
    intro n hr
    induction hr with
    | base hn => exact fun f hf => h.src _ hn f hf
    | step hm hn ih =>
      intro f hf
      obtain ⟨g, hg, _, _, hn'⟩ := fragSpreads_defined hn
      obtain ⟨g', hg', hd⟩ := hall _ (ih g hg)
      rw [hg] at hg'
      injection hg' with hg'
      subst hg'
      exact hd.2.2 _ hn' f hf
  intro n hr f hf
  refine ⟨key n hr f hf, ?_⟩
  obtain ⟨g, hg, hd⟩ := hall n (key n hr f hf)
  rw [hf] at hg
  injection hg with hg
  subst hg
  exact hd

/-- completeness of the scope of a source walked from an empty `visited` set -/
theorem WalkC.scope {s : SV} {d : QueryDoc} {cur : Option OperationDef} {names : List Name}
    {nodes : Option Definition → Selection → Prop} {ws : WS} {r : WS × List Event}
    (h : WalkC s d cur names nodes ws r) (hv : ws.visited = []) :
    (∀ p' y, NodeScope s d names nodes p' y → Done s d cur r p' y) ∧
    (∀ n f, Reach d names n → fragForName d n = some f → HasDirsC s cur locFragmentDefinition f.dirs r.2) := by
  constructor
  · rintro p' y (hi | ⟨n, f, hr, hf, hi⟩)
    · exact h.nodes p' y hi
    · exact (h.reach hv n hr f hf).2.1 p' y hi
  · intro n f hr hf
    exact (h.reach hv n hr f hf).2.2.1

/- ---------- operations and fragment definitions ---------- -/

/-- what the walk of operation `op` has done when it ends (`l'` are the links it returns, `evs`
    its events) -/
structure OpComplete (s : SV) (d : QueryDoc) (op : OperationDef) (l' : Links) (evs : List Event) : Prop where
  nodes : ∀ p' y, NodeScope s d (Spec.spreadsOfSels op.sel) (InSelsW s (opRoot s op.op).1 op.sel) p' y →
    HasNodeCur d (some op) evs p' y ∧ l'.linked (selPos y).start = true ∧
      HasDirsC s (some op) (Spec.selLoc y) (Spec.selDirs y) evs
  fragDirs : ∀ n f, Reach d (Spec.spreadsOfSels op.sel) n → fragForName d n = some f →
    HasDirsC s (some op) locFragmentDefinition f.dirs evs
  opDirs : HasDirsC s (some op) (opRoot s op.op).2 op.dirs evs
  varDirs : ∀ v ∈ op.vars, HasDirsC s (some op) locVariableDefinition v.dirs evs
  last : ∃ used pre, evs = pre ++ [{ cur := some op, links := l', p := .operation op used }]

theorem walkVarDefsB_complete_cur (s : SV) (cur : Option OperationDef) :
    ∀ (vs : List VarDef) (ws : WS), ∀ v ∈ vs, HasDirsC s cur locVariableDefinition v.dirs (walkVarDefsB s cur vs ws).2
  | [], _, v, h => by cases h
  | v0 :: rest, ws, v, h => by
    simp only [walkVarDefsB]
    rcases List.mem_cons.1 h with rfl | h
    · exact HasDirsC.sub (fun e he => List.mem_append_left _ (List.mem_append_right _ he))
        (walkDirectives_complete_cur s cur _ v.dirs locVariableDefinition _).toC
    · exact HasDirsC.sub (fun e he => List.mem_append_right _ he) (walkVarDefsB_complete_cur s cur rest _ v h)

theorem walkOperation_scope_complete (s : SV) (d : QueryDoc) (fuel : Nat) (op : OperationDef) (l : Links)
    (r : Links × List Event) (h : walkOperation s d fuel op l = some r) : OpComplete s d op r.1 r.2 := by
  unfold walkOperation at h
  simp only at h
  split at h
  · cases h
  · rename_i r4 h4
    injection h with h
    subst h
    have hc := walkLevel_c s d (some op) fuel _ _ _ r4 h4
    have hv : (walkDirectives s (some op) (opRoot s op.op).1 op.dirs (opRoot s op.op).2
        (walkVarDefsB s (some op) op.vars { visited := [], links := l, used := [] }).1).1.visited = [] := by
      rw [walkDirectives_visited, walkVarDefsB_visited]
    obtain ⟨hn, hd⟩ := hc.scope hv
    have hsub : ∀ e ∈ r4.2, e ∈ walkVarDefsA s (some op) { visited := [], links := l, used := [] } op.vars ++
        (walkVarDefsB s (some op) op.vars { visited := [], links := l, used := [] }).2 ++
        (walkDirectives s (some op) (opRoot s op.op).1 op.dirs (opRoot s op.op).2
          (walkVarDefsB s (some op) op.vars { visited := [], links := l, used := [] }).1).2 ++ r4.2 ++
        [{ cur := some op, links := r4.1.links, p := .operation op (usedFlags r4.1.used op.vars []) }] :=
      fun e he => List.mem_append_left _ (List.mem_append_right _ he)
    exact { nodes := fun p' y hi => by
              obtain ⟨h1, h2, h3⟩ := hn p' y hi
              exact ⟨h1.sub hsub, h2, h3.sub hsub⟩
            fragDirs := fun n f hr hf => (hd n f hr hf).sub hsub
            opDirs := HasDirsC.sub
              (fun e he => List.mem_append_left _ (List.mem_append_left _ (List.mem_append_right _ he)))
              (walkDirectives_complete_cur s (some op) _ op.dirs _ _).toC
            varDirs := fun v hv' => HasDirsC.sub
              (fun e he => List.mem_append_left _ (List.mem_append_left _ (List.mem_append_left _ (List.mem_append_right _ he))))
              (walkVarDefsB_complete_cur s (some op) op.vars _ v hv')
            last := ⟨_, _, rfl⟩ }

/-- scope completeness for a whole run -/
structure OpScope (s : SV) (d : QueryDoc) (op : OperationDef) (evs : List Event) : Prop where
  nodes : ∀ p' y, NodeScope s d (Spec.spreadsOfSels op.sel) (InSelsW s (opRoot s op.op).1 op.sel) p' y →
    HasNodeCur d (some op) evs p' y ∧ HasDirsC s (some op) (Spec.selLoc y) (Spec.selDirs y) evs
  fragDirs : ∀ n f, Reach d (Spec.spreadsOfSels op.sel) n → fragForName d n = some f →
    HasDirsC s (some op) locFragmentDefinition f.dirs evs
  opDirs : HasDirsC s (some op) (opRoot s op.op).2 op.dirs evs
  varDirs : ∀ v ∈ op.vars, HasDirsC s (some op) locVariableDefinition v.dirs evs

theorem OpComplete.toScope {s : SV} {d : QueryDoc} {op : OperationDef} {l' : Links} {a b : List Event}
    (h : OpComplete s d op l' a) (hsub : ∀ e ∈ a, e ∈ b) : OpScope s d op b :=
  { nodes := fun p' y hi => ⟨(h.nodes p' y hi).1.sub hsub, (h.nodes p' y hi).2.2.sub hsub⟩
    fragDirs := fun n f hr hf => (h.fragDirs n f hr hf).sub hsub
    opDirs := h.opDirs.sub hsub
    varDirs := fun v hv => (h.varDirs v hv).sub hsub }

theorem OpScope.sub {s : SV} {d : QueryDoc} {op : OperationDef} {a b : List Event}
    (h : OpScope s d op a) (hsub : ∀ e ∈ a, e ∈ b) : OpScope s d op b :=
  { nodes := fun p' y hi => ⟨(h.nodes p' y hi).1.sub hsub, (h.nodes p' y hi).2.sub hsub⟩
    fragDirs := fun n f hr hf => (h.fragDirs n f hr hf).sub hsub
    opDirs := h.opDirs.sub hsub
    varDirs := fun v hv => (h.varDirs v hv).sub hsub }

theorem walkOps_scope_complete (s : SV) (d : QueryDoc) (fuel : Nat) :
    ∀ (ops : List OperationDef) (l : Links) (r : Links × List Event), walkOps s d fuel ops l = some r →
      ∀ op ∈ ops, OpScope s d op r.2
  | [], _, _, _, op, hop => by cases hop
  | o :: rest, l, r, h, op, hop => by
    unfold walkOps at h
    split at h
    · cases h
    · rename_i r1 h1
      split at h
      · cases h
      · rename_i r2 h2
        injection h with h
        subst h
        rcases List.mem_cons.1 hop with rfl | hop
        · exact (walkOperation_scope_complete s d fuel op l r1 h1).toScope (fun e he => List.mem_append_left _ he)
        · exact (walkOps_scope_complete s d fuel rest r1.1 r2 h2 op hop).sub (fun e he => List.mem_append_right _ he)

/-- every node and directive list in the scope of an operation has its event, fired with
    `CurrentOperation` = that operation -/
theorem walkDoc_scope_complete (s : SV) (d : QueryDoc) (evs : List Event) (h : walkDoc s d = some evs) :
    ∀ op ∈ d.ops, OpScope s d op evs := by
  intro op hop
  unfold walkDoc at h
  split at h
  · cases h
  · rename_i r1 h1
    split at h
    · cases h
    · rename_i r2 h2
      injection h with h
      subst h
      exact (walkOps_scope_complete s d _ d.ops _ r1 h1 op hop).sub (fun e he => List.mem_append_left _ he)

end Gql.Validate
