import GqlProofs.ValSpec.ValuesCorrectOneOfRun
import GqlProofs.ValSpec.ValuesCorrectEx
/-
  ValuesOfCorrectType WITH `@oneOf`: kernel-checked examples for the additional hypotheses of
  `C08_ValuesOfCorrectType` (`Spec.fragmentNameUniqueness`, `constDefaults`, `usePosDistinct`).
-/
namespace Gql.Validate.ValuesEx
open Gql Gql.Validate Gql.Validate.Rules Gql.Validate.Witness

/-- all hypotheses of the theorem with `@oneOf` -/
def hypsOneOf (s : Schema) (d : QueryDoc) : Bool :=
  Spec.wellParented s d && Spec.fragmentNameUniqueness d && constDefaults d && schemaOK s && rootsInput s d &&
    numLiteralsOK s d && leavesWellFormed s d && usePosDistinct s d

def specBoth (s : Schema) (d : QueryDoc) : Bool := Spec.valuesOfCorrectType s d && Spec.oneOfVariablesNonNull s d


/-- `query($v:String){...F} fragment F on Query { f(one:{a:$v}) }` -/
def docUsedNullable : QueryDoc :=
  { Witness.docUsed with
    ops := [{ op := str "query", name := [],
              vars := [{ var := str "v", type := tNamed "String" false, default := none, dirs := [], pos := at' 6 }],
              dirs := [], sel := .cons (.spread (str "F") [] (at' 18)) .nil, pos := at' 0 }] }

/-- `type Query { f(one: One): Int  g(s: String): Int }` -/
def schema2 : Schema :=
  { Witness.schema with
    types := [(str "Int", scalar "Int"), (str "One", oneDef),
      (str "Query", mkDef .object "Query"
        [fld "f" (tNamed "Int") [{ desc := [], name := str "one", default := none, type := tNamed "One", dirs := [], pos := Pos.zero }],
         fld "g" (tNamed "Int") [{ desc := [], name := str "s", default := none, type := tNamed "String", dirs := [], pos := Pos.zero }]]),
      (str "String", scalar "String")] }

/-- `query($x: String) { g(s: $x) }  fragment F on Query { f(one: {a: $x}) }`, F not used, and BOTH `$x` nodes at offset 53 -/
def docSamePos : QueryDoc :=
  { ops := [{ op := str "query", name := [],
              vars := [{ var := str "x", type := tNamed "String" false, default := none, dirs := [], pos := at' 6 }],
              dirs := [],
              sel := .cons (.field (str "g") (str "g") [{ name := str "s", value := .mk .variable (str "x") .nil (at' 53), pos := at' 20 }] [] .nil (at' 18)) .nil,
              pos := at' 0 }],
    frags := [{ name := str "F", vars := [], typeCond := str "Query", dirs := [],
                sel := .cons (.field (str "f") (str "f") (oneArg "x" 49) [] .nil (at' 43)) .nil, pos := at' 21 }] }

/-- `query($a: One = {a: $b}, $b: String) { f }` -/
def docVarDefault : QueryDoc :=
  { ops := [{ op := str "query", name := [],
              vars := [{ var := str "a", type := tNamed "One", default := some (obj [("a", lit .variable "b" 20)] 16), dirs := [], pos := at' 6 },
                       { var := str "b", type := tNamed "String", default := none, dirs := [], pos := at' 26 }],
              dirs := [],
              sel := .cons (.field (str "f") (str "f") [] [] .nil (at' 40)) .nil,
              pos := at' 0 }],
    frags := [] }

/-- two definitions of F at the same offset; the operation spreads F -/
def docDupFrag : QueryDoc :=
  { ops := [{ op := str "query", name := [],
              vars := [{ var := str "v", type := tNamed "String" false, default := none, dirs := [], pos := at' 6 }],
              dirs := [], sel := .cons (.spread (str "F") [] (at' 18)) .nil, pos := at' 0 }],
    frags := [{ name := str "F", vars := [], typeCond := str "Query", dirs := [],
                sel := .cons (.field (str "f") (str "f") [] [] .nil (at' 43)) .nil, pos := at' 21 },
              { name := str "F", vars := [], typeCond := str "Query", dirs := [],
                sel := .cons (.field (str "f") (str "f") (oneArg "v" 49) [] .nil (at' 43)) .nil, pos := at' 21 }] }

/-- the hypotheses are satisfiable on a document that uses a `@oneOf` input object through a fragment:
    `query($v:String!){...F} fragment F on Query { f(one:{a:$v}) }` is accepted by both,
    `query($v:String){...F} …` is rejected by both -/
example : hypsOneOf Witness.schema Witness.docUsed = true ∧ ruleSilent Witness.schema Witness.docUsed = true ∧
    specBoth Witness.schema Witness.docUsed = true := by decide +kernel
example : hypsOneOf Witness.schema docUsedNullable = true ∧ ruleSilent Witness.schema docUsedNullable = false ∧
    specBoth Witness.schema docUsedNullable = false := by decide +kernel

/-- `usePosDistinct` is needed (hazard 6, the stand-alone walk of a fragment definition): two variable nodes at the same
    offset.  `$x` in `g(s: $x)` is linked under the operation; the unused fragment `F` is walked stand-alone
    (`CurrentOperation = nil`), and the rule reads, for the `$x` of `{a: $x}`, the link left AT THAT OFFSET: the nullable
    definition.  The specification does not see `F` in any scope. -/
example :
    usePosDistinct schema2 docSamePos = false ∧
    (Spec.wellParented schema2 docSamePos && Spec.fragmentNameUniqueness docSamePos && constDefaults docSamePos &&
      schemaOK schema2 && rootsInput schema2 docSamePos && numLiteralsOK schema2 docSamePos &&
      leavesWellFormed schema2 docSamePos) = true ∧
    ruleSilent schema2 docSamePos = false ∧ specBoth schema2 docSamePos = true := by decide +kernel

/-- `constDefaults` is needed: a variable inside a default value (not `Value[Const]`; no parser produces it),
    `query($a: One = {a: $b}, $b: String) { f }`.  The walker links `$b` under the operation and the rule tests it;
    the specification's scope of an operation does not include default values. -/
example :
    constDefaults docVarDefault = false ∧
    (Spec.wellParented schema2 docVarDefault && Spec.fragmentNameUniqueness docVarDefault &&
      schemaOK schema2 && rootsInput schema2 docVarDefault && numLiteralsOK schema2 docVarDefault &&
      leavesWellFormed schema2 docVarDefault && usePosDistinct schema2 docVarDefault) = true ∧
    ruleSilent schema2 docVarDefault = false ∧ specBoth schema2 docVarDefault = true := by decide +kernel

/-- `Spec.fragmentNameUniqueness` is needed: two definitions of `F` (at the same offset); the walker enters the first,
    `Spec.opFragments` keeps every definition with the name and offset of the first. -/
example :
    Spec.fragmentNameUniqueness docDupFrag = false ∧
    (Spec.wellParented Witness.schema docDupFrag && constDefaults docDupFrag &&
      schemaOK Witness.schema && rootsInput Witness.schema docDupFrag && numLiteralsOK Witness.schema docDupFrag &&
      leavesWellFormed Witness.schema docDupFrag && usePosDistinct Witness.schema docDupFrag) = true ∧
    ruleSilent Witness.schema docDupFrag = true ∧ specBoth Witness.schema docDupFrag = false := by decide +kernel

end Gql.Validate.ValuesEx
