import GqlProofs.ValSpec.Local
/-
  The two rules with a `seen` set (UniqueOperationNames, UniqueFragmentNames): their one-rule run
  reports nothing iff the names carried by the operation / fragment events are pairwise different.
-/
namespace Gql.Validate
open Gql Gql.Validate.Rules

theorem fragDefEvents_filter (evs : List Event) :
    fragDefEvents (evs.filter fun e => (fragOf e).isSome) = fragDefEvents evs := by
  induction evs with
  | nil => rfl
  | cons e rest ih =>
    cases h : fragOf e with
    | none =>
      rw [List.filter_cons_of_neg (by simp [h])]
      simp only [fragDefEvents, List.filterMap_cons, h] at ih ⊢
      exact ih
    | some f =>
      rw [List.filter_cons_of_pos (by simp [h])]
      simp only [fragDefEvents, List.filterMap_cons, h] at ih ⊢
      rw [ih]

theorem opEvents_filter (evs : List Event) :
    opEvents (evs.filter fun e => (opOf e).isSome) = opEvents evs := by
  induction evs with
  | nil => rfl
  | cons e rest ih =>
    cases h : opOf e with
    | none =>
      rw [List.filter_cons_of_neg (by simp [h])]
      simp only [opEvents, List.filterMap_cons, h] at ih ⊢
      exact ih
    | some f =>
      rw [List.filter_cons_of_pos (by simp [h])]
      simp only [opEvents, List.filterMap_cons, h] at ih ⊢
      rw [ih]

theorem fragOf_some {e : Event} {f : FragmentDef} (h : fragOf e = some f) : ∃ dfn, e.p = .fragment f dfn := by
  unfold fragOf at h
  cases hp : e.p <;> simp_all

theorem opOf_some {e : Event} {op : OperationDef} (h : opOf e = some op) : ∃ u, e.p = .operation op u := by
  unfold opOf at h
  cases hp : e.p <;> simp_all

theorem uniqueFragmentNames_skip (sv : SV) (d : QueryDoc) (st : List Name) (e : Event)
    (h : (fragOf e).isSome = false) : uniqueFragmentNamesStep sv d st e = .ok st [] := by
  unfold uniqueFragmentNamesStep
  unfold fragOf at h
  cases hp : e.p <;> simp_all

theorem uniqueOperationNames_skip (sv : SV) (d : QueryDoc) (st : List Name) (e : Event)
    (h : (opOf e).isSome = false) : uniqueOperationNamesStep sv d st e = .ok st [] := by
  unfold uniqueOperationNamesStep
  unfold opOf at h
  cases hp : e.p <;> simp_all

theorem uniqueFragmentNames_run (sv : SV) (d : QueryDoc) :
    ∀ (es : List Event) (seen : List Name), (∀ e ∈ es, (fragOf e).isSome = true) →
      ∃ errs, runAll sv d [({ rule := uniqueFragmentNames, st := seen } : Running)] es = .ok errs ∧
        (errs = [] ↔ freshFrom seen ((fragDefEvents es).map (·.name)))
  | [], seen, _ => ⟨[], rfl, by simp [fragDefEvents, freshFrom]⟩
  | e :: rest, seen, hall => by
    have he := hall e List.mem_cons_self
    obtain ⟨f, hf⟩ := Option.isSome_iff_exists.1 he
    obtain ⟨dfn, hp⟩ := fragOf_some hf
    obtain ⟨errs', hr, hiff⟩ := uniqueFragmentNames_run sv d rest (f.name :: seen)
      (fun x hx => hall x (List.mem_cons_of_mem _ hx))
    rw [runAll_single_cons]
    simp only [Running.step, uniqueFragmentNames, uniqueFragmentNamesStep, hp]
    simp only [uniqueFragmentNames] at hr
    rw [hr]
    refine ⟨_, rfl, ?_⟩
    simp only [fragDefEvents, List.filterMap_cons, hf, List.map_cons, freshFrom]
    simp only [fragDefEvents] at hiff
    rw [← hiff]
    by_cases hm : f.name ∈ seen
    · simp [hm]
    · simp [hm]

theorem uniqueOperationNames_run (sv : SV) (d : QueryDoc) :
    ∀ (es : List Event) (seen : List Name), (∀ e ∈ es, (opOf e).isSome = true) →
      ∃ errs, runAll sv d [({ rule := uniqueOperationNames, st := seen } : Running)] es = .ok errs ∧
        (errs = [] ↔ freshFrom seen ((opEvents es).map (·.name)))
  | [], seen, _ => ⟨[], rfl, by simp [opEvents, freshFrom]⟩
  | e :: rest, seen, hall => by
    have he := hall e List.mem_cons_self
    obtain ⟨op, hf⟩ := Option.isSome_iff_exists.1 he
    obtain ⟨u, hp⟩ := opOf_some hf
    obtain ⟨errs', hr, hiff⟩ := uniqueOperationNames_run sv d rest (op.name :: seen)
      (fun x hx => hall x (List.mem_cons_of_mem _ hx))
    rw [runAll_single_cons]
    simp only [Running.step, uniqueOperationNames, uniqueOperationNamesStep, hp]
    simp only [uniqueOperationNames] at hr
    rw [hr]
    refine ⟨_, rfl, ?_⟩
    simp only [opEvents, List.filterMap_cons, hf, List.map_cons, freshFrom]
    simp only [opEvents] at hiff
    rw [← hiff]
    by_cases hm : op.name ∈ seen
    · simp [hm]
    · simp [hm]

theorem validate_uniqueFragmentNames (s : Schema) (d : QueryDoc) (evs : List Event)
    (hw : walkDoc s.view d = some evs) :
    validate [uniqueFragmentNames] s d = .ok [] ↔ ((fragDefEvents evs).map (·.name)).Nodup := by
  unfold validate
  rw [validateV_ok_iff]
  have hfilt := runAll_single_filter s.view d uniqueFragmentNames (fun e => (fragOf e).isSome)
    (fun st e h => uniqueFragmentNames_skip s.view d st e h) evs []
  obtain ⟨errs, hr, hiff⟩ := uniqueFragmentNames_run s.view d (evs.filter fun e => (fragOf e).isSome) []
    (fun e he => (List.mem_filter.1 he).2)
  rw [fragDefEvents_filter, freshFrom_nil] at hiff
  have hstart : [uniqueFragmentNames].map Rule.start = [({ rule := uniqueFragmentNames, st := [] } : Running)] := rfl
  constructor
  · rintro ⟨evs', hw', hrun⟩
    rw [hw] at hw'
    cases hw'
    rw [hstart, hfilt, hr] at hrun
    injection hrun with hrun
    exact hiff.1 hrun
  · intro h
    refine ⟨evs, hw, ?_⟩
    rw [hstart, hfilt, hr, hiff.2 h]

theorem validate_uniqueOperationNames (s : Schema) (d : QueryDoc) (evs : List Event)
    (hw : walkDoc s.view d = some evs) :
    validate [uniqueOperationNames] s d = .ok [] ↔ ((opEvents evs).map (·.name)).Nodup := by
  unfold validate
  rw [validateV_ok_iff]
  have hfilt := runAll_single_filter s.view d uniqueOperationNames (fun e => (opOf e).isSome)
    (fun st e h => uniqueOperationNames_skip s.view d st e h) evs []
  obtain ⟨errs, hr, hiff⟩ := uniqueOperationNames_run s.view d (evs.filter fun e => (opOf e).isSome) []
    (fun e he => (List.mem_filter.1 he).2)
  rw [opEvents_filter, freshFrom_nil] at hiff
  have hstart : [uniqueOperationNames].map Rule.start = [({ rule := uniqueOperationNames, st := [] } : Running)] := rfl
  constructor
  · rintro ⟨evs', hw', hrun⟩
    rw [hw] at hw'
    cases hw'
    rw [hstart, hfilt, hr] at hrun
    injection hrun with hrun
    exact hiff.1 hrun
  · intro h
    refine ⟨evs, hw, ?_⟩
    rw [hstart, hfilt, hr, hiff.2 h]

/-- all names different ⇔ the non-empty names are different and the empty name occurs at most once -/
theorem nodup_names_split : ∀ ops : List OperationDef,
    (ops.map (·.name)).Nodup ↔
      (((ops.filter (·.name != [])).map (·.name)).Nodup ∧ (ops.filter (·.name == [])).length ≤ 1)
  | [] => by simp
  | op :: rest => by
    have ih := nodup_names_split rest
    by_cases hn : op.name = []
    · have h1 : (op.name != []) = false := by simp [hn]
      have h2 : (op.name == []) = true := by simp [hn]
      rw [List.filter_cons_of_neg (by simp [h1]), List.filter_cons_of_pos (by simp [h2])]
      simp only [List.map_cons, List.nodup_cons, List.length_cons, ih]
      constructor
      · rintro ⟨hmem, hnd, hlen⟩
        refine ⟨hnd, ?_⟩
        have : rest.filter (·.name == []) = [] := by
          apply List.filter_eq_nil_iff.2
          intro x hx hxe
          apply hmem
          rw [hn]
          exact List.mem_map.2 ⟨x, hx, by simpa using hxe⟩
        rw [this]
        simp
      · rintro ⟨hnd, hlen⟩
        have hz : (rest.filter (·.name == [])).length = 0 := by omega
        have hnil : rest.filter (·.name == []) = [] := List.length_eq_zero_iff.1 hz
        refine ⟨?_, hnd, by omega⟩
        intro hmem
        obtain ⟨x, hx, hxe⟩ := List.mem_map.1 hmem
        have : x ∈ rest.filter (·.name == []) := List.mem_filter.2 ⟨hx, by simp [hxe, hn]⟩
        rw [hnil] at this
        cases this
    · have h1 : (op.name != []) = true := by simp [hn]
      have h2 : (op.name == []) = false := by simp [hn]
      rw [List.filter_cons_of_pos (by simp [h1]), List.filter_cons_of_neg (by simp [h2])]
      simp only [List.map_cons, List.nodup_cons, ih]
      constructor
      · rintro ⟨hmem, hnd, hlen⟩
        refine ⟨⟨?_, hnd⟩, hlen⟩
        intro hm
        obtain ⟨x, hx, hxe⟩ := List.mem_map.1 hm
        exact hmem (List.mem_map.2 ⟨x, (List.mem_filter.1 hx).1, hxe⟩)
      · rintro ⟨⟨hmem, hnd⟩, hlen⟩
        refine ⟨?_, hnd, hlen⟩
        intro hm
        obtain ⟨x, hx, hxe⟩ := List.mem_map.1 hm
        apply hmem
        refine List.mem_map.2 ⟨x, List.mem_filter.2 ⟨hx, ?_⟩, hxe⟩
        simp [hxe, hn]

end Gql.Validate
