import GqlProofs.ValSpec.ValuesCorrectLocal
/-
  ValuesOfCorrectType (§5.6.1), part 3: THE RUN.

  `typed_event_sound` / `typed_event_complete`: under `Spec.wellParented s d` the value events of a run that
  carry links, `.value w (some exp) (some dfn)`, are exactly the typed sites of
  `valSites s (some t) (s.type? t.name) v` for the roots `(t, v) ∈ Spec.typedValueSites s d`.
-/
namespace Gql.Validate
open Gql Gql.Validate.Rules

theorem mem_typedValueSites_iff (s : Schema) (d : QueryDoc) (t : GType) (v : Value) :
    (t, v) ∈ Spec.typedValueSites s d ↔
      (∃ site ∈ Spec.argSites s d, ∃ defs, site.defs = some defs ∧ ∃ a ∈ site.args, ∃ ad,
          Spec.argDefByName defs a.name = some ad ∧ t = ad.type ∧ v = a.value) ∨
      (∃ op ∈ d.ops, ∃ vd ∈ op.vars, ∃ dv, vd.default = some dv ∧ t = vd.type ∧ v = dv) := by
  unfold Spec.typedValueSites
  rw [List.mem_append]
  constructor
  · rintro (h | h)
    · left
      obtain ⟨site, hsite, h⟩ := List.mem_flatMap.1 h
      refine ⟨site, hsite, ?_⟩
      cases hdefs : site.defs with
      | none => rw [hdefs] at h; cases h
      | some defs =>
        rw [hdefs] at h
        obtain ⟨a, ha, h⟩ := List.mem_filterMap.1 h
        cases had : Spec.argDefByName defs a.name with
        | none => rw [had] at h; cases h
        | some ad =>
          rw [had] at h
          simp only [Option.map_some, Option.some.injEq, Prod.mk.injEq] at h
          exact ⟨defs, rfl, a, ha, ad, had, h.1.symm, h.2.symm⟩
    · right
      obtain ⟨op, hop, h⟩ := List.mem_flatMap.1 h
      obtain ⟨vd, hvd, h⟩ := List.mem_filterMap.1 h
      cases hdv : vd.default with
      | none => rw [hdv] at h; cases h
      | some dv =>
        rw [hdv] at h
        simp only [Option.map_some, Option.some.injEq, Prod.mk.injEq] at h
        exact ⟨op, hop, vd, hvd, dv, hdv, h.1.symm, h.2.symm⟩
  · rintro (⟨site, hsite, defs, hdefs, a, ha, ad, had, rfl, rfl⟩ | ⟨op, hop, vd, hvd, dv, hdv, rfl, rfl⟩)
    · left
      refine List.mem_flatMap.2 ⟨site, hsite, ?_⟩
      rw [hdefs]
      refine List.mem_filterMap.2 ⟨a, ha, ?_⟩
      rw [had]
      rfl
    · right
      refine List.mem_flatMap.2 ⟨op, hop, List.mem_filterMap.2 ⟨vd, hvd, ?_⟩⟩
      rw [hdv]
      rfl

/-- the links of an argument whose definition is found -/
theorem argLink_some (s : SV) (defs : List ArgDef) (name : Name) (ad : ArgDef)
    (h : Spec.argDefByName defs name = some ad) :
    argLink s (some defs) name = (some ad.type, s.type? ad.type.name) := by
  have h' : argDefForName defs name = some ad := h
  simp [argLink, h', linkOfType]

theorem argLink_none (s : SV) (defs : Option (List ArgDef)) (name : Name)
    (h : defs.bind (argDefForName · name) = none) : argLink s defs name = (none, none) := by
  simp [argLink, h]

section
variable (s : Schema) (d : QueryDoc) (evs : List Event) (hw : walkDoc s.view d = some evs)
  (hwp : Spec.wellParented s d = true)
include hw hwp

/-- a value event that carries links is a typed site of a typed root of the specification -/
theorem typed_event_sound (e : Event) (he : e ∈ evs) (w : Value) (exp : GType) (dfn : Definition)
    (hp : e.p = .value w (some exp) (some dfn)) :
    ∃ t v, (t, v) ∈ Spec.typedValueSites s d ∧ (some exp, some dfn, w) ∈ valSites s.view (some t) (s.type? t.name) v := by
  have harg : ∀ (defs : Option (List ArgDef)) (args : List Argument) (ws : WS),
      (⟨defs, args⟩ : Spec.ArgSite) ∈ Spec.argSites s d → e ∈ (walkArgs s.view e.cur defs args ws).2 →
      ∃ t v, (t, v) ∈ Spec.typedValueSites s d ∧ (some exp, some dfn, w) ∈ valSites s.view (some t) (s.type? t.name) v := by
    intro defs args ws hsite hin
    obtain ⟨x, hx, hpx⟩ := walkArgs_sound hin
    rw [hp] at hpx
    obtain ⟨a, ha, hxa⟩ := (mem_argValSites_iff s.view defs x args).1 hx
    cases hb : defs.bind (argDefForName · a.name) with
    | none =>
      rw [argLink_none s.view defs a.name hb] at hxa
      have := valSites_untyped s.view a.value x hxa
      simp only [Payload.value.injEq] at hpx
      rw [← hpx.2.1] at this
      cases this
    | some ad =>
      cases defs with
      | none => cases hb
      | some dl =>
        have had : Spec.argDefByName dl a.name = some ad := hb
        rw [argLink_some s.view dl a.name ad had] at hxa
        refine ⟨ad.type, a.value, (mem_typedValueSites_iff s d _ _).2 (Or.inl ⟨_, hsite, dl, rfl, a, ha, ad, had, rfl, rfl⟩), ?_⟩
        simp only [Payload.value.injEq] at hpx
        obtain ⟨h1, h2, h3⟩ := hpx
        have : x = (some exp, some dfn, w) := by
          obtain ⟨x1, x2, x3⟩ := x
          simp only at h1 h2 h3
          rw [h1, h2, h3]
        rw [← this]
        exact hxa
  rcases walkDoc_value_origin s.view d evs hw e he w _ _ hp with
    ⟨e', he', f, par, fd, ws, hp', _, hin⟩ | ⟨e', he', dir, dd, par, loc, ws, hp', _, hin⟩ |
    ⟨op, hop, vd, hvd, dv, ws, hdv, _, hin⟩
  · obtain ⟨hmem, hfd⟩ := walk_parent_type s d evs hw hwp e' he' f par fd hp'
    refine harg _ _ ws ?_ hin
    rw [hfd]
    refine List.mem_append_left _ ?_
    simp only [Spec.fieldArgSites, List.mem_filterMap]
    exact ⟨_, hmem, rfl⟩
  · obtain ⟨hdd, hd⟩ := directive_event_sound' s d evs hw e' he' dir dd par loc hp'
    refine harg _ _ ws ?_ hin
    rw [hdd]
    refine List.mem_append_right _ ?_
    simp only [Spec.directiveArgSites, List.mem_map]
    exact ⟨dir, hd, rfl⟩
  · obtain ⟨x, hx, hpx⟩ := walkValue_sound hin
    rw [hp] at hpx
    refine ⟨vd.type, dv, (mem_typedValueSites_iff s d _ _).2 (Or.inr ⟨op, hop, vd, hvd, dv, hdv, rfl, rfl⟩), ?_⟩
    simp only [Payload.value.injEq] at hpx
    obtain ⟨h1, h2, h3⟩ := hpx
    have : x = (some exp, some dfn, w) := by
      obtain ⟨x1, x2, x3⟩ := x
      simp only at h1 h2 h3
      rw [h1, h2, h3]
    rw [← this]
    exact hx

/-- every site of every typed root of the specification has its value event -/
theorem typed_event_complete (t : GType) (v : Value) (htv : (t, v) ∈ Spec.typedValueSites s d)
    (x : VSite) (hx : x ∈ valSites s.view (some t) (s.type? t.name) v) :
    ∃ e ∈ evs, e.p = .value x.2.2 x.1 x.2.1 := by
  rcases (mem_typedValueSites_iff s d t v).1 htv with
    ⟨site, hsite, defs, hdefs, a, ha, ad, had, rfl, rfl⟩ | ⟨op, hop, vd, hvd, dv, hdv, rfl, rfl⟩
  · have hx' : x ∈ argValSites s.view site.defs site.args := by
      refine mem_argValSites_of_arg s.view _ _ a ha x ?_
      rw [hdefs, argLink_some s.view defs a.name ad had]
      exact hx
    rcases List.mem_append.1 hsite with hsite | hsite
    · simp only [Spec.fieldArgSites, List.mem_filterMap] at hsite
      obtain ⟨ts, hts, hm⟩ := hsite
      cases hsel : ts.sel with
      | field al nm args dirs sub p =>
        rw [hsel] at hm
        simp only [Option.some.injEq] at hm
        subst hm
        obtain ⟨e', he', hp'⟩ := walk_parent_type_complete s d evs hw hwp ts hts al nm args dirs sub p hsel
        obtain ⟨ws, hblk⟩ := walkDoc_fieldArgs_complete s.view d evs hw e' he' _ _ _ hp'
        obtain ⟨e, he, hpe⟩ := walkArgs_complete e'.cur ws hx'
        exact ⟨e, hblk e he, hpe⟩
      | spread nm dirs p => rw [hsel] at hm; cases hm
      | inline tc dirs sub p => rw [hsel] at hm; cases hm
    · simp only [Spec.directiveArgSites, List.mem_map] at hsite
      obtain ⟨dir, hd, rfl⟩ := hsite
      obtain ⟨e', he', par, loc, hp'⟩ := directive_event_complete' s d evs hw dir hd
      obtain ⟨ws, hblk⟩ := walkDoc_directiveArgs_complete s.view d evs hw e' he' dir _ par loc hp'
      obtain ⟨e, he, hpe⟩ := walkArgs_complete e'.cur ws hx'
      exact ⟨e, hblk e he, hpe⟩
  · obtain ⟨ws, hblk⟩ := walkDoc_defaults_complete s.view d evs hw op hop vd hvd v hdv
    obtain ⟨e, he, hpe⟩ := walkValue_complete (some op) ws hx
    exact ⟨e, hblk e he, hpe⟩

end

/- ---------- the definition link of a site is the definition of its expected type ---------- -/

/-- `dfn` is the definition the schema gives for the named type of `exp` -/
def Linked (s : SV) (exp : Option GType) (dfn : Option Definition) : Prop := ∀ e', exp = some e' → dfn = s.type? e'.name

mutual
  theorem valSites_linked (s : SV) : ∀ (v : Value) (exp : Option GType) (dfn : Option Definition), Linked s exp dfn →
      ∀ x ∈ valSites s exp dfn v, Linked s x.1 x.2.1
    | .mk k raw ch p, exp, dfn, hl, x, hx => by
      unfold valSites at hx
      rcases List.mem_append.1 hx with hx | hx
      · cases k <;> simp only [List.not_mem_nil] at hx
        · exact listSites_linked s ch exp dfn hl x hx
        · exact objSites_linked s ch dfn x hx
      · rw [List.mem_singleton.1 hx]; exact hl
  theorem objSites_linked (s : SV) : ∀ (ch : Children) (dfn : Option Definition),
      ∀ x ∈ objSites s dfn ch, Linked s x.1 x.2.1
    | .nil, dfn, x, hx => by simp [objSites] at hx
    | .cons n v p rest, dfn, x, hx => by
      rw [objSites] at hx
      rcases List.mem_append.1 hx with hx | hx
      · refine valSites_linked s v _ _ ?_ x hx
        intro e' he'
        unfold objChildLink at he' ⊢
        cases dfn with
        | none => cases he'
        | some d0 =>
          simp only at he' ⊢
          cases hf : fieldForName d0.fields n with
          | none => rw [hf] at he'; cases he'
          | some fd =>
            rw [hf] at he'
            simp only [linkOfType, Option.some.injEq] at he' ⊢
            rw [he']
      · exact objSites_linked s rest dfn x hx
  theorem listSites_linked (s : SV) : ∀ (ch : Children) (exp : Option GType) (dfn : Option Definition), Linked s exp dfn →
      ∀ x ∈ listSites s exp dfn ch, Linked s x.1 x.2.1
    | .nil, exp, dfn, hl, x, hx => by simp [listSites] at hx
    | .cons n v p rest, exp, dfn, hl, x, hx => by
      rw [listSites] at hx
      rcases List.mem_append.1 hx with hx | hx
      · refine valSites_linked s v _ _ ?_ x hx
        intro e' he'
        unfold listChildLink at he' ⊢
        cases exp with
        | none => cases he'
        | some t =>
          cases t with
          | named a b c => cases he'
          | list el b c =>
            simp only [Option.some.injEq] at he' ⊢
            rw [← he']
            exact hl (.list el b c) rfl
      · exact listSites_linked s rest exp dfn hl x hx
end

/- ---------- the hypotheses on the document ---------- -/

/-- the declared type of every typed value position resolves to an input type.  For arguments this
    follows from `Spec.Closed s` (`ClosedArgTypes`, `ClosedDirectiveArgTypes`), for variable
    defaults it is `Spec.variablesAreInputTypes` (the check's mask). -/
def rootsInput (s : Schema) (d : QueryDoc) : Bool := (Spec.typedValueSites s d).all fun tv => inputTypeB s tv.1

/-- the numeric literals below typed positions satisfy `numLeafOK` -/
def numLiteralsOK (s : Schema) (d : QueryDoc) : Bool :=
  (Spec.typedValueSites s d).all fun tv => (subValues tv.2).all fun w => numLeafOK w.kind w.raw

section
variable (s : Schema) (d : QueryDoc) (evs : List Event) (hw : walkDoc s.view d = some evs)
  (hwp : Spec.wellParented s d = true)
include hw hwp

/-- the definition link of a typed value event is a definition of the schema -/
theorem typed_event_dfn (e : Event) (he : e ∈ evs) (w : Value) (exp : GType) (dfn : Definition)
    (hp : e.p = .value w (some exp) (some dfn)) : s.type? exp.name = some dfn := by
  obtain ⟨t, v, _, hx⟩ := typed_event_sound s d evs hw hwp e he w exp dfn hp
  have := valSites_linked s.view v (some t) (s.type? t.name) (by intro e' he'; cases he'; rfl) _ hx exp rfl
  exact this.symm

variable (hschema : schemaOK s = true) (hroots : rootsInput s d = true) (hnum : numLiteralsOK s d = true)
include hschema hroots hnum

/-- THE LINK-FREE PART: every typed value event passes `localPure` iff `Spec.valuesOfCorrectType` -/
theorem run_pure_iff :
    (∀ e ∈ evs, ∀ w exp dfn, e.p = .value w (some exp) (some dfn) → localPure exp dfn w = true) ↔
      Spec.valuesOfCorrectType s d = true := by
  unfold rootsInput at hroots
  unfold numLiteralsOK at hnum
  rw [List.all_eq_true] at hroots hnum
  have hres : ∀ t v, (t, v) ∈ Spec.typedValueSites s d → ∃ d0, s.type? t.name = some d0 ∧ Spec.isInput d0 = true := by
    intro t v htv
    have := hroots (t, v) htv
    simp only [inputTypeB] at this
    cases h : s.type? t.name with
    | none => rw [h] at this; cases this
    | some d0 => rw [h] at this; exact ⟨d0, rfl, this⟩
  have hlit : ∀ t v, (t, v) ∈ Spec.typedValueSites s d → ∀ w ∈ subValues v, numLeafOK w.kind w.raw = true := by
    intro t v htv
    have := hnum (t, v) htv
    exact List.all_eq_true.1 this
  unfold Spec.valuesOfCorrectType
  rw [List.all_eq_true]
  constructor
  · rintro h ⟨t, v⟩ htv
    obtain ⟨d0, hd0, hin⟩ := hres t v htv
    refine (valueOk_iff_sites s hschema v t d0 hd0 hin (hlit t v htv)).1 ?_
    intro x hx exp dfn h1 h2
    rw [← hd0] at hx
    obtain ⟨e, he, hpe⟩ := typed_event_complete s d evs hw hwp t v htv x hx
    rw [h1, h2] at hpe
    exact h e he _ _ _ hpe
  · intro h e he w exp dfn hp
    obtain ⟨t, v, htv, hx⟩ := typed_event_sound s d evs hw hwp e he w exp dfn hp
    obtain ⟨d0, hd0, hin⟩ := hres t v htv
    rw [hd0] at hx
    exact (valueOk_iff_sites s hschema v t d0 hd0 hin (hlit t v htv)).2 (h (t, v) htv) _ hx exp dfn rfl rfl

end

end Gql.Validate
