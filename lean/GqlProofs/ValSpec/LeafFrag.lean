import GqlProofs.ValSpec.FieldRules
/-
  ScalarLeafs and FragmentsOnCompositeTypes against their specification predicates.
-/
namespace Gql.Validate
open Gql Gql.Validate.Rules

theorem selEmpty_eq (sub : Selections) : selEmpty sub = sub.toList.isEmpty := by
  cases sub <;> rfl

theorem isLeafType_eq (t : Definition) : isLeafType t = Spec.isLeaf t := by
  unfold isLeafType Spec.isLeaf
  exact Bool.or_comm _ _

theorem scalarLeafs_iff (s : Schema) (d : QueryDoc) (evs : List Event) (hw : walkDoc s.view d = some evs)
    (hwp : Spec.wellParented s d = true) (hout : Spec.fieldTypesAreOutputTypes s d = true) :
    (∀ e ∈ evs, scalarLeafsStep s.view d e = []) ↔ Spec.leafFieldSelections s d = true := by
  unfold Spec.leafFieldSelections
  unfold Spec.fieldTypesAreOutputTypes at hout
  simp only [List.all_eq_true] at hout ⊢
  -- the rule's verdict on one field, in the specification's terms
  have key : ∀ (ft : Definition) (sub : Selections), (Spec.isLeaf ft || Spec.isComposite ft) = true →
      (((if (isLeafType ft && !selEmpty sub) = true then [errAt [] Pos.zero] else []) ++
        (if (!isLeafType ft && selEmpty sub) = true then [errAt [] Pos.zero] else []) : List RErr) = [] ↔
        Spec.leafShapeOk ft sub = true) := by
    intro ft sub hlc
    unfold Spec.leafShapeOk
    rw [isLeafType_eq, selEmpty_eq]
    cases h1 : Spec.isLeaf ft <;> cases h2 : sub.toList.isEmpty <;> simp_all
  have silent : ∀ (f : FieldNode) (fd : FieldDef) (ft : Definition) (par : Option Definition),
      s.type? fd.type.name = some ft → (Spec.isLeaf ft || Spec.isComposite ft) = true →
      (scalarLeafsStep s.view d ⟨none, Links.empty, .field f par (some fd)⟩ = [] ↔ Spec.leafShapeOk ft f.sel = true) := by
    intro f fd ft par hft hlc
    have hview : s.view.type? fd.type.name = some ft := hft
    simp only [scalarLeafsStep, hview]
    rw [← key ft f.sel hlc]
    cases h1 : isLeafType ft <;> cases h2 : selEmpty f.sel <;> simp
  have step_p : ∀ (e : Event) (p : Payload), e.p = p →
      scalarLeafsStep s.view d e = scalarLeafsStep s.view d ⟨none, Links.empty, p⟩ := by
    intro e p hp
    simp only [scalarLeafsStep, hp]
  constructor
  · intro h t ht
    obtain ⟨par, sel⟩ := t
    cases sel with
    | spread nm dirs p => rfl
    | inline tc dirs sub p => rfl
    | field al nm args dirs sub p =>
      have ho := hout _ ht
      simp only [Spec.fieldNodeType] at ho ⊢
      cases hfd : par.bind (Spec.fieldDefOn · nm) with
      | none => simp
      | some fd =>
        rw [hfd] at ho
        simp only [Option.bind_some] at ho ⊢
        cases hft : s.type? fd.type.name with
        | none => rfl
        | some ft =>
          rw [hft] at ho
          simp only at ho ⊢
          obtain ⟨e, he, hp⟩ := walk_parent_type_complete s d evs hw hwp _ ht al nm args dirs sub p rfl
          simp only at hp
          rw [hfd] at hp
          have := h e he
          rw [step_p e _ hp] at this
          exact (silent ⟨al, nm, args, dirs, sub, p⟩ fd ft par hft ho).1 this
  · intro h e he
    cases hp : e.p with
    | field f par dfn =>
      cases dfn with
      | none => simp [scalarLeafsStep, hp]
      | some fd =>
        obtain ⟨hmem, hdfn⟩ := walk_parent_type s d evs hw hwp e he f par (some fd) hp
        have hs := h _ hmem
        have ho := hout _ hmem
        simp only [Spec.fieldNodeType, ← hdfn, Option.bind_some] at hs ho
        cases hft : s.type? fd.type.name with
        | none =>
          have hview : s.view.type? fd.type.name = none := hft
          simp [scalarLeafsStep, hp, hview]
        | some ft =>
          rw [hft] at hs ho
          simp only at hs ho
          rw [step_p e _ hp]
          exact (silent f fd ft par hft ho).2 hs
    | _ => simp [scalarLeafsStep, hp]

/- ---------- FragmentsOnCompositeTypes ---------- -/

mutual
  theorem inSelW_forget (sv : SV) :
      ∀ (x : Selection) (p p' : Option Definition) (y : Selection), InSelW sv p x p' y → InSel x (.sel y)
    | .field al nm args dirs sub pos, p, p', y, h => by
      cases h with
      | self => exact InSel.self _
      | fieldSub _ _ _ _ _ _ _ _ _ hs => exact InSel.fieldSub _ _ _ _ _ _ _ (inSelsW_forget sv sub _ p' y hs)
    | .spread nm dirs pos, p, p', y, h => by
      cases h with
      | self => exact InSel.self _
    | .inline tc dirs sub pos, p, p', y, h => by
      cases h with
      | self => exact InSel.self _
      | inlineSub _ _ _ _ _ _ _ hs => exact InSel.inlineSub _ _ _ _ _ (inSelsW_forget sv sub _ p' y hs)
  theorem inSelsW_forget (sv : SV) :
      ∀ (xs : Selections) (p p' : Option Definition) (y : Selection), InSelsW sv p xs p' y → InSels xs (.sel y)
    | .nil, p, p', y, h => by cases h
    | .cons x rest, p, p', y, h => by
      cases h with
      | head _ _ _ _ _ hx => exact InSels.head _ _ _ (inSelW_forget sv x p p' y hx)
      | tail _ _ _ _ _ hx => exact InSels.tail _ _ _ (inSelsW_forget sv rest p p' y hx)
end

mutual
  theorem inSel_lift (sv : SV) :
      ∀ (x : Selection) (p : Option Definition) (y : Selection), InSel x (.sel y) → ∃ p', InSelW sv p x p' y
    | .field al nm args dirs sub pos, p, y, h => by
      cases h with
      | self => exact ⟨p, InSelW.self _ _⟩
      | fieldSub _ _ _ _ _ _ _ hs =>
        obtain ⟨p', hp⟩ := inSels_lift sv sub (wNext sv p nm) y hs
        exact ⟨p', InSelW.fieldSub _ _ _ _ _ _ _ _ _ hp⟩
    | .spread nm dirs pos, p, y, h => by
      cases h with
      | self => exact ⟨p, InSelW.self _ _⟩
    | .inline tc dirs sub pos, p, y, h => by
      cases h with
      | self => exact ⟨p, InSelW.self _ _⟩
      | inlineSub _ _ _ _ _ hs =>
        obtain ⟨p', hp⟩ := inSels_lift sv sub (wInline sv p tc) y hs
        exact ⟨p', InSelW.inlineSub _ _ _ _ _ _ _ hp⟩
  theorem inSels_lift (sv : SV) :
      ∀ (xs : Selections) (p : Option Definition) (y : Selection), InSels xs (.sel y) → ∃ p', InSelsW sv p xs p' y
    | .nil, p, y, h => by cases h
    | .cons x rest, p, y, h => by
      cases h with
      | head _ _ _ hx =>
        obtain ⟨p', hp⟩ := inSel_lift sv x p y hx
        exact ⟨p', InSelsW.head _ _ _ _ _ hp⟩
      | tail _ _ _ hx =>
        obtain ⟨p', hp⟩ := inSels_lift sv rest p y hx
        exact ⟨p', InSelsW.tail _ _ _ _ _ hp⟩
end

/-- the inline-fragment events of a run are the inline fragments of `Spec.docSels` -/
theorem inline_event_sound (s : Schema) (d : QueryDoc) (evs : List Event) (hw : walkDoc s.view d = some evs)
    (e : Event) (he : e ∈ evs) (f : InlineNode) (par : Option Definition) (hp : e.p = .inlineFragment f par) :
    ∃ p, (⟨p, .inline f.typeCond f.dirs f.sel f.pos⟩ : Spec.TSel) ∈ Spec.docSels s d := by
  have := walkDoc_w s.view d evs hw e he
  rw [hp] at this
  apply (docSels_iff s d _).2
  rcases this with ⟨op, hop, h⟩ | ⟨fr, hf, h⟩
  · exact Or.inl ⟨op, hop, inSelsW_forget _ _ _ _ _ h⟩
  · exact Or.inr ⟨fr, hf, inSelsW_forget _ _ _ _ _ h⟩

theorem inline_event_complete (s : Schema) (d : QueryDoc) (evs : List Event) (hw : walkDoc s.view d = some evs)
    (t : Spec.TSel) (ht : t ∈ Spec.docSels s d) (tc : Name) (dirs : List Directive) (sub : Selections) (p : Pos)
    (hs : t.sel = .inline tc dirs sub p) : ∃ e ∈ evs, ∃ par, e.p = .inlineFragment ⟨tc, dirs, sub, p⟩ par := by
  have h1 := docSels_mem_inDocSel s d t ht
  rw [hs] at h1
  rcases h1 with ⟨op, hop, h⟩ | ⟨fr, hf, h⟩
  · obtain ⟨p', hp'⟩ := inSels_lift s.view op.sel (opRoot s.view op.op).1 _ h
    obtain ⟨e, he, hp⟩ := walkDoc_hasW s.view d evs hw p' _ (Or.inl ⟨op, hop, hp'⟩)
    exact ⟨e, he, p', hp⟩
  · obtain ⟨p', hp'⟩ := inSels_lift s.view fr.sel (s.view.type? fr.typeCond) _ h
    obtain ⟨e, he, hp⟩ := walkDoc_hasW s.view d evs hw p' _ (Or.inr ⟨fr, hf, hp'⟩)
    exact ⟨e, he, p', hp⟩

theorem isCompositeType_eq (t : Definition) : isCompositeType t = Spec.isComposite t := rfl

theorem fragmentsOnCompositeTypes_iff (s : Schema) (d : QueryDoc) (evs : List Event) (hw : walkDoc s.view d = some evs)
    (hE : s.type? [] = none) :
    (∀ e ∈ evs, fragmentsOnCompositeTypesStep s.view d e = []) ↔ Spec.fragmentsOnCompositeTypes s d = true := by
  have hfrag := (walkDoc_events s.view d evs hw).2
  have hlink := walkDoc_all (spreadSound_docSites s.view d) evs hw
  unfold Spec.fragmentsOnCompositeTypes Spec.typeConditions
  simp only [List.all_append, Bool.and_eq_true, List.all_eq_true, List.mem_map, List.mem_filterMap]
  constructor
  · intro h
    constructor
    · rintro tc ⟨f, hf, rfl⟩
      rw [← hfrag] at hf
      obtain ⟨e, he, dfn, hp⟩ := mem_fragDefEvents.1 hf
      have hd : dfn = s.type? f.typeCond := by
        have := walkDoc_all (P := fun p => match p with | .fragment f dfn => dfn = s.view.type? f.typeCond | _ => True)
          (Q := fun _ => True)
          { value := fun _ _ _ => trivial, directive := fun _ _ _ => trivial, directiveList := fun _ => trivial,
            field := fun _ _ _ => trivial, inline := fun _ _ => trivial, spread := fun _ _ _ => trivial,
            frags := fun _ _ _ _ => trivial, ops := fun _ _ _ _ => trivial, varDef := fun _ => trivial,
            operation := fun _ _ _ => trivial, fragment := fun _ _ => rfl } evs hw e he
        rw [hp] at this
        exact this
      have := h e he
      cases ht : s.type? f.typeCond with
      | none => rfl
      | some t =>
        rw [hd, ht] at hp
        simp only [fragmentsOnCompositeTypesStep, hp] at this
        simp only
        by_cases hc : (f.typeCond == [] || isCompositeType t) = true
        · simp only [Bool.or_eq_true, beq_iff_eq] at hc
          rcases hc with hc | hc
          · rw [hc, hE] at ht
            cases ht
          · exact hc
        · simp only [Bool.or_eq_true, beq_iff_eq, not_or] at hc
          have hc1 : (f.typeCond == []) = false := by simpa using hc.1
          have hc2 : isCompositeType t = false := by simpa using hc.2
          simp [hc1, hc2] at this
    · rintro tc ⟨⟨par, sel⟩, ht, hm⟩
      cases sel with
      | field al nm args dirs sub p => cases hm
      | spread nm dirs p => cases hm
      | inline tc' dirs sub p =>
        simp only at hm
        by_cases hemp : (tc' == []) = true
        · simp [hemp] at hm
        · simp only [hemp, Bool.false_eq_true, if_false, Option.some.injEq] at hm
          subst hm
          obtain ⟨e, he, par', hp⟩ := inline_event_complete s d evs hw _ ht tc' dirs sub p rfl
          have := h e he
          simp only [fragmentsOnCompositeTypesStep, hp] at this
          cases hty : s.type? tc' with
          | none => rfl
          | some t =>
            have hview : s.view.type? tc' = some t := hty
            rw [hview] at this
            simp only
            by_cases hc : isCompositeType t = true
            · exact hc
            · simp [hc] at this
  · rintro ⟨h1, h2⟩ e he
    unfold fragmentsOnCompositeTypesStep
    split
    · rename_i f par hp
      split
      · rfl
      · rename_i t hty
        obtain ⟨p, hmem⟩ := inline_event_sound s d evs hw e he f par hp
        by_cases hemp : f.typeCond = []
        · rw [hemp] at hty
          have : s.view.type? [] = none := hE
          rw [this] at hty
          cases hty
        · have := h2 f.typeCond ⟨_, hmem, by simp [hemp]⟩
          have hview : s.type? f.typeCond = some t := hty
          rw [hview] at this
          simp only at this
          simp [isCompositeType_eq, this]
    · rename_i f t hp
      have hf : f ∈ d.frags := by
        rw [← hfrag]
        exact mem_fragDefEvents.2 ⟨e, he, _, hp⟩
      have := h1 f.typeCond ⟨f, hf, rfl⟩
      have hd : some t = s.type? f.typeCond := by
        have := walkDoc_all (P := fun p => match p with | .fragment f dfn => dfn = s.view.type? f.typeCond | _ => True)
          (Q := fun _ => True)
          { value := fun _ _ _ => trivial, directive := fun _ _ _ => trivial, directiveList := fun _ => trivial,
            field := fun _ _ _ => trivial, inline := fun _ _ => trivial, spread := fun _ _ _ => trivial,
            frags := fun _ _ _ _ => trivial, ops := fun _ _ _ _ => trivial, varDef := fun _ => trivial,
            operation := fun _ _ _ => trivial, fragment := fun _ _ => rfl } evs hw e he
        rw [hp] at this
        exact this
      rw [← hd] at this
      simp only at this
      simp [isCompositeType_eq, this]
    · rfl

end Gql.Validate
