import GqlProofs.ValSpec.Spreads
import GqlProofs.Validate.RuleFuel
/-
  The specification's fragment reachability (`Spec.reachFrom`: `frags.length + 1` rounds of a
  breadth-first closure) is the reflexive-transitive closure of "spreads, through a defined
  fragment" (`Reach`): the fuel is enough because every productive round after the first one makes
  a new DEFINED fragment name visible.
-/
namespace Gql.Validate
open Gql

/-- `n` is reachable from the spread names `start` through defined fragments (zero or more steps) -/
inductive Reach (d : QueryDoc) (start : List Name) : Name → Prop
  | base {n : Name} : n ∈ start → Reach d start n
  | step {m n : Name} : Reach d start m → n ∈ Spec.fragSpreads d m → Reach d start n

theorem mem_addNew (n : Name) : ∀ (xs acc : List Name), n ∈ Spec.addNew acc xs ↔ n ∈ acc ∨ n ∈ xs
  | [], acc => by simp [Spec.addNew]
  | x :: xs, acc => by
    unfold Spec.addNew
    split
    · rename_i hc
      rw [mem_addNew n xs acc]
      have hx : x ∈ acc := by simpa using hc
      constructor
      · rintro (h | h)
        · exact Or.inl h
        · exact Or.inr (List.mem_cons_of_mem _ h)
      · rintro (h | h)
        · exact Or.inl h
        · rcases List.mem_cons.1 h with rfl | h
          · exact Or.inl hx
          · exact Or.inr h
    · rw [mem_addNew n xs (acc ++ [x])]
      simp only [List.mem_append, List.mem_cons, List.not_mem_nil, or_false]
      constructor
      · rintro ((h | h) | h)
        · exact Or.inl h
        · exact Or.inr (Or.inl h)
        · exact Or.inr (Or.inr h)
      · rintro (h | h | h)
        · exact Or.inl (Or.inl h)
        · exact Or.inl (Or.inr h)
        · exact Or.inr h

theorem mem_foldl_addNew (d : QueryDoc) (n : Name) : ∀ (l acc : List Name),
    n ∈ l.foldl (fun acc m => Spec.addNew acc (Spec.fragSpreads d m)) acc ↔
      n ∈ acc ∨ ∃ m ∈ l, n ∈ Spec.fragSpreads d m
  | [], acc => by simp
  | x :: l, acc => by
    simp only [List.foldl_cons]
    rw [mem_foldl_addNew d n l, mem_addNew]
    simp only [List.mem_cons, exists_eq_or_imp]
    constructor
    · rintro ((h | h) | h)
      · exact Or.inl h
      · exact Or.inr (Or.inl h)
      · exact Or.inr (Or.inr h)
    · rintro (h | h | h)
      · exact Or.inl (Or.inl h)
      · exact Or.inl (Or.inr h)
      · exact Or.inr h

theorem mem_closeRound (d : QueryDoc) (seen : List Name) (n : Name) :
    n ∈ Spec.closeRound d seen ↔ n ∈ seen ∨ ∃ m ∈ seen, n ∈ Spec.fragSpreads d m :=
  mem_foldl_addNew d n seen seen

/-- closed under "spreads of a member" -/
def SpreadClosed (d : QueryDoc) (S : List Name) : Prop := ∀ m ∈ S, ∀ n ∈ Spec.fragSpreads d m, n ∈ S

theorem closeRound_of_closed {d : QueryDoc} {S : List Name} (h : SpreadClosed d S) (n : Name) :
    n ∈ Spec.closeRound d S ↔ n ∈ S := by
  rw [mem_closeRound]
  constructor
  · rintro (h1 | ⟨m, hm, hn⟩)
    · exact h1
    · exact h m hm n hn
  · exact Or.inl

theorem spreadClosed_closeRound {d : QueryDoc} {S : List Name} (h : SpreadClosed d S) :
    SpreadClosed d (Spec.closeRound d S) := by
  intro m hm n hn
  rw [closeRound_of_closed h] at hm ⊢
  exact h m hm n hn

theorem spreadClosed_closeRounds {d : QueryDoc} : ∀ (k : Nat) {S : List Name}, SpreadClosed d S →
    SpreadClosed d (Spec.closeRounds d k S)
  | 0, _, h => h
  | k + 1, _, h => by
    simp only [Spec.closeRounds]
    exact spreadClosed_closeRounds k (spreadClosed_closeRound h)

theorem subset_closeRounds (d : QueryDoc) : ∀ (k : Nat) (S : List Name) (n : Name), n ∈ S → n ∈ Spec.closeRounds d k S
  | 0, _, _, h => h
  | k + 1, S, n, h => by
    simp only [Spec.closeRounds]
    exact subset_closeRounds d k _ n ((mem_closeRound d S n).2 (Or.inl h))

theorem fragSpreads_defined {d : QueryDoc} {m n : Name} (h : n ∈ Spec.fragSpreads d m) :
    ∃ f, fragForName d m = some f ∧ f ∈ d.frags ∧ f.name = m ∧ n ∈ Spec.spreadsOfSels f.sel := by
  unfold Spec.fragSpreads at h
  rw [fragByName_eq] at h
  cases hf : fragForName d m with
  | none => rw [hf] at h; cases h
  | some f =>
    rw [hf] at h
    have hn : f.name = m := by
      have := List.find?_some hf
      simpa using this
    exact ⟨f, rfl, fragForName_mem hf, hn, h⟩

/-- a round that does not close the set makes a defined fragment name visible -/
theorem unvisited_closeRound (d : QueryDoc) (S : List Name) (h : ¬ SpreadClosed d (Spec.closeRound d S)) :
    unvisited d (Spec.closeRound d S) + 1 ≤ unvisited d S := by
  have : ∃ m ∈ Spec.closeRound d S, ∃ n ∈ Spec.fragSpreads d m, n ∉ Spec.closeRound d S := by
    apply Classical.byContradiction
    intro hc
    apply h
    intro m hm n hn
    apply Classical.byContradiction
    intro hnn
    exact hc ⟨m, hm, n, hn, hnn⟩
  obtain ⟨m, hm, n, hn, hnot⟩ := this
  have hmS : m ∉ S := by
    intro hmS
    exact hnot ((mem_closeRound d S n).2 (Or.inr ⟨m, hmS, hn⟩))
  obtain ⟨f, _, hfm, hname, _⟩ := fragSpreads_defined hn
  unfold unvisited
  apply filter_length_lt_of_imp _ _ _ f _ _ _ hfm
  · intro x hx
    simp only [Bool.not_eq_true', List.contains_eq_mem, decide_eq_false_iff_not] at hx ⊢
    intro hxS
    exact hx ((mem_closeRound d S _).2 (Or.inl hxS))
  · simpa [hname] using hmS
  · simpa [hname] using hm

theorem closeRounds_closed (d : QueryDoc) : ∀ (k : Nat) (S : List Name), unvisited d S ≤ k →
    SpreadClosed d (Spec.closeRounds d (k + 1) S)
  | 0, S, h => by
    simp only [Spec.closeRounds]
    intro m hm n hn
    obtain ⟨f, _, hfm, hname, _⟩ := fragSpreads_defined hn
    have hmS : m ∈ S := by
      apply Classical.byContradiction
      intro hmS
      have hpos : 0 < unvisited d S := by
        unfold unvisited
        apply List.length_pos_of_mem (a := f)
        exact List.mem_filter.2 ⟨hfm, by simpa [hname] using hmS⟩
      omega
    exact (mem_closeRound d S n).2 (Or.inr ⟨m, hmS, hn⟩)
  | k + 1, S, h => by
    rw [Spec.closeRounds]
    by_cases hc : SpreadClosed d (Spec.closeRound d S)
    · exact spreadClosed_closeRounds (k + 1) hc
    · have := unvisited_closeRound d S hc
      exact closeRounds_closed d k _ (by omega)

theorem reach_closeRounds (d : QueryDoc) (start : List Name) : ∀ (k : Nat) (S : List Name),
    (∀ n ∈ S, Reach d start n) → ∀ n ∈ Spec.closeRounds d k S, Reach d start n
  | 0, _, h, n, hn => h n hn
  | k + 1, S, h, n, hn => by
    simp only [Spec.closeRounds] at hn
    refine reach_closeRounds d start k _ ?_ n hn
    intro x hx
    rcases (mem_closeRound d S x).1 hx with h1 | ⟨m, hm, hx⟩
    · exact h x h1
    · exact Reach.step (h m hm) hx

/-- `Spec.reachFrom` computes the reflexive-transitive closure -/
theorem mem_reachFrom_iff (d : QueryDoc) (start : List Name) (n : Name) :
    n ∈ Spec.reachFrom d start ↔ Reach d start n := by
  unfold Spec.reachFrom
  constructor
  · apply reach_closeRounds d start
    intro x hx
    exact Reach.base (by simpa [mem_addNew] using hx)
  · intro h
    have hcl : SpreadClosed d (Spec.closeRounds d (d.frags.length + 1) (Spec.addNew [] start)) :=
      closeRounds_closed d _ _ (unvisited_le_length d _)
    induction h with
    | base hn => exact subset_closeRounds d _ _ _ (by simpa [mem_addNew] using hn)
    | step _ hn ih => exact hcl _ ih _ hn

theorem reachFrom_contains_iff (d : QueryDoc) (start : List Name) (n : Name) :
    (Spec.reachFrom d start).contains n = true ↔ Reach d start n := by
  rw [List.contains_iff_mem, mem_reachFrom_iff]

theorem Reach.mono {d : QueryDoc} {a b : List Name} (h : ∀ x ∈ a, x ∈ b) {n : Name} (hr : Reach d a n) : Reach d b n := by
  induction hr with
  | base hn => exact Reach.base (h _ hn)
  | step _ hn ih => exact Reach.step ih hn

/-- reachability composes: what is reachable from the spreads of a reachable fragment is reachable -/
theorem Reach.trans {d : QueryDoc} {start : List Name} {m n : Name} (hm : Reach d start m)
    (hn : Reach d (Spec.fragSpreads d m) n) : Reach d start n := by
  induction hn with
  | base h => exact Reach.step hm h
  | step _ h ih => exact Reach.step ih h

end Gql.Validate
